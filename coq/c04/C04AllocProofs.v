(* C04AllocProofs.v — for ALL headers and bodies, every table-box prologue of C04AllocModel.v returns (never
   panics) and its allocation / loop count is bounded by a fixed multiple of the box size + bytes available
   plus a constant. *)
From V.lib Require Import Base.
From V.c04 Require Import C04AllocModel.

(* r returns, allocates at most a*n + b bytes and e * iterations <= n + c  (n = box size + bytes the reader sees) *)
Definition bounded (r : res aout) (a b e c n : N) : Prop :=
  exists o, r = Ok o /\ o_alloc o <= a * n + b /\ e * o_iters o <= n + c.

Lemma bounded_weaken r a b e c n a' b' c' n' :
  bounded r a b e c n -> a <= a' -> b <= b' -> c <= c' -> n <= n' -> bounded r a' b' e c' n'.
Proof.
  intros (o & -> & Ha & Hi) ? ? ? ?. exists o. split; [reflexivity|]. split; nia.
Qed.

Lemma bounded_rej a b e c n : bounded rej a b e c n.
Proof. exists (mkO false 0 0 0). cbn. repeat split; lia. Qed.

(* ---- values read are fixed width ---- *)
Lemma abe_lt l acc : abe l acc < (acc + 1) * 256 ^ N.of_nat (length l).
Proof.
  revert acc. induction l as [|b t IH]; intros acc.
  - cbn [abe length]. change (N.of_nat 0) with 0. rewrite N.pow_0_r. lia.
  - cbn [abe length]. specialize (IH (acc * 256 + b mod 256)).
    rewrite Nat2N.inj_succ, N.pow_succ_r'.
    assert (b mod 256 < 256) by (apply N.mod_lt; discriminate).
    assert (0 < 256 ^ N.of_nat (length t)) by (apply N.neq_0_lt_0, N.pow_nonzero; discriminate).
    nia.
Qed.

Lemma rd_n_lt body w s : fst (rd_n body w s) < 256 ^ w.
Proof.
  assert (P : 0 < 256 ^ w) by (apply N.neq_0_lt_0, N.pow_nonzero; discriminate).
  unfold rd_n. destruct (r_err s); [exact P|]. destruct (lenN body <? r_pos s + w); [exact P|].
  cbn [fst]. eapply N.lt_le_trans; [apply abe_lt|]. rewrite N.add_0_l, N.mul_1_l.
  apply N.pow_le_mono_r; [discriminate|]. rewrite firstn_length. lia.
Qed.

(* uint64 expectedSize arithmetic cannot wrap: counts are 32 bit, per-entry sizes at most 64 *)
Lemma exp_no_wrap body s k fixed : k <= 64 -> fixed <= 4096 ->
  fixed + fst (rd_n body 4 s) * k < 18446744073709551616.
Proof. intros. pose proof (rd_n_lt body 4 s) as H1. change (256 ^ 4) with 4294967296 in H1. nia. Qed.

Lemma rd_loop_x_le body cnt e s : fst (rd_loop_x body cnt e s) <= cnt.
Proof.
  unfold rd_loop_x. destruct (cnt =? 0) eqn:E0; [cbn; lia|]. apply N.eqb_neq in E0.
  destruct (r_err s); [cbn; lia|]. destruct (e =? 0) eqn:Ee; [cbn; lia|]. apply N.eqb_neq in Ee.
  destruct (lenN body <? r_pos s + cnt * e) eqn:El; cbn [fst]; [|lia].
  apply N.ltb_lt in El.
  assert ((lenN body - r_pos s) / e < cnt); [|lia].
  apply N.div_lt_upper_bound; [exact Ee|]. nia.
Qed.

(* iterations of an exit-on-error loop are also bounded by the bytes available *)
Lemma rd_loop_x_avail body cnt e s : e * fst (rd_loop_x body cnt e s) <= lenN body + e.
Proof.
  unfold rd_loop_x. destruct (cnt =? 0) eqn:E0; [cbn; lia|]. apply N.eqb_neq in E0.
  destruct (r_err s); [cbn; lia|]. destruct (e =? 0) eqn:Ee; [apply N.eqb_eq in Ee; subst; cbn; lia|].
  apply N.eqb_neq in Ee.
  destruct (lenN body <? r_pos s + cnt * e) eqn:El; cbn [fst].
  - pose proof (N.mul_div_le (lenN body - r_pos s) e Ee). nia.
  - apply N.ltb_ge in El. nia.
Qed.

Ltac bools :=
  repeat match goal with
  | H : (_ =? _) = true |- _ => apply N.eqb_eq in H
  | H : (_ =? _) = false |- _ => apply N.eqb_neq in H
  | H : (_ <? _) = true |- _ => apply N.ltb_lt in H
  | H : (_ <? _) = false |- _ => apply N.ltb_ge in H
  | H : (_ <=? _) = true |- _ => apply N.leb_le in H
  | H : (_ <=? _) = false |- _ => apply N.leb_gt in H
  | H : (_ <? _)%Z = true |- _ => apply Z.ltb_lt in H
  | H : (_ <? _)%Z = false |- _ => apply Z.ltb_ge in H
  | H : negb _ = true |- _ => apply negb_true_iff in H
  | H : negb _ = false |- _ => apply negb_false_iff in H
  | H : _ && _ = true |- _ => apply andb_true_iff in H; destruct H
  end.

Ltac ok_with := unfold bounded, afin; eexists; split; [reflexivity|]; cbn [o_alloc o_iters]; split.

Lemma bN_le b n : bN b n <= n. Proof. destruct b; cbn; lia. Qed.

(* ---- trun ---- *)
Lemma trun_per_zero fl :
  has fl 256 = false -> has fl 512 = false -> has fl 1024 = false -> has fl 2048 = false -> trun_per_sample fl = 0.
Proof. unfold trun_per_sample. intros -> -> -> ->. reflexivity. Qed.

Lemma trun_per_pos fl :
  (has fl 256 || has fl 512 || has fl 1024 || has fl 2048) = true -> 4 <= trun_per_sample fl.
Proof.
  unfold trun_per_sample. destruct (has fl 256), (has fl 512), (has fl 1024), (has fl 2048); cbn; intros; try lia; discriminate.
Qed.

Lemma alloc_trun_bounded p hs hl body : bounded (alloc_trun p hs hl body) 4 16384 4 4096 hs.
Proof.
  unfold alloc_trun.
  destruct (rd_n body 4 rd0) as [vf s1]. destruct (rd_n body 4 s1) as [cnt s2].
  set (fl := flags_of vf).
  destruct (negb (hs =? trun_expected fl cnt)) eqn:E; [apply bounded_rej|]. bools.
  unfold trun_expected in E.
  destruct (has fl 256) eqn:H1, (has fl 512) eqn:H2, (has fl 1024) eqn:H3, (has fl 2048) eqn:H4; cbn [negb andb];
    try (assert (P : 4 <= trun_per_sample fl) by (apply trun_per_pos; rewrite H1, H2, H3, H4; reflexivity);
         rewrite ?andb_false_r; ok_with; nia).
  rewrite !andb_true_r. destruct (1024 <? cnt) eqn:Ec; [apply bounded_rej|]. bools.
  ok_with; lia.
Qed.

Lemma alloc_stts_bounded hs hl body : bounded (alloc_stts hs hl body) 1 0 8 0 hs.
Proof.
  unfold alloc_stts. destruct (rd_n body 4 rd0) as [vf s1]. destruct (rd_n body 4 s1) as [cnt s2].
  destruct (negb (hs =? 16 + cnt * 8)) eqn:E; [apply bounded_rej|]. bools. ok_with; lia.
Qed.

(* ctts: the box size that makes entryCount+1 wrap is 16 + (2^32-1)*8 = 34359738376 (32 GiB) *)
Lemma alloc_ctts_bounded hs hl body : hs <> 34359738376 -> bounded (alloc_ctts hs hl body) 1 4 8 0 hs.
Proof.
  intros Hn. unfold alloc_ctts. pose proof (rd_n_lt body 4 rd0) as L0.
  destruct (rd_n body 4 rd0) as [vf s1]. pose proof (rd_n_lt body 4 s1) as L.
  destruct (rd_n body 4 s1) as [cnt s2]. cbn [fst] in L. change (256 ^ 4) with 4294967296 in L.
  destruct (negb (hs =? 16 + cnt * 8)) eqn:E; [apply bounded_rej|]. bools.
  assert (cnt + 1 < 4294967296) by lia.
  rewrite (N.mod_small (cnt + 1)) by assumption.
  destruct (cnt + 1 =? 0) eqn:E1; [bools; exfalso; lia|]. ok_with; lia.
Qed.

(* at exactly that size, with the count field 2^32-1, the decoder indexes an empty slice *)
Lemma alloc_ctts_panics hl body vf s1 s2 :
  rd_n body 4 rd0 = (vf, s1) -> rd_n body 4 s1 = (4294967295, s2) ->
  alloc_ctts 34359738376 hl body = Panic.
Proof. intros H1 H2. unfold alloc_ctts. rewrite H1, H2. reflexivity. Qed.

Lemma alloc_stsc_bounded hs hl body : bounded (alloc_stsc hs hl body) 2 0 12 0 hs.
Proof.
  unfold alloc_stsc. destruct (rd_n body 4 rd0) as [vf s1]. destruct (rd_n body 4 s1) as [cnt s2].
  destruct (negb (hs =? 16 + cnt * 12)) eqn:E; [apply bounded_rej|]. bools.
  destruct (stsc_loop body (N.to_nat cnt) 0 0 false s2) as [[extra s3]|].
  - pose proof (bN_le extra (4 * cnt)). ok_with; lia.
  - unfold bounded. eexists; split; [reflexivity|]. cbn [o_alloc o_iters]. split; lia.
Qed.

Lemma alloc_stsz_bounded hs hl body : bounded (alloc_stsz hs hl body) 1 0 4 0 hs.
Proof.
  unfold alloc_stsz. destruct (rd_n body 4 rd0) as [vf s1]. destruct (rd_n body 4 s1) as [u s2].
  destruct (rd_n body 4 s2) as [n s3].
  destruct (negb (hs =? (if 0 <? u then 20 else 20 + n * 4))) eqn:E; [apply bounded_rej|]. bools.
  destruct (u =? 0) eqn:Eu; bools.
  - subst u. rewrite N.ltb_irrefl in E. ok_with; lia.
  - ok_with; lia.
Qed.

Lemma alloc_stco_bounded hs hl body : bounded (alloc_stco hs hl body) 1 0 4 0 hs.
Proof.
  unfold alloc_stco. destruct (rd_n body 4 rd0) as [vf s1]. destruct (rd_n body 4 s1) as [cnt s2].
  destruct (negb (hs =? 16 + cnt * 4)) eqn:E; [apply bounded_rej|]. bools. ok_with; lia.
Qed.

Lemma alloc_co64_bounded hs hl body : bounded (alloc_co64 hs hl body) 1 0 8 0 hs.
Proof.
  unfold alloc_co64. destruct (rd_n body 4 rd0) as [vf s1]. destruct (rd_n body 4 s1) as [cnt s2].
  destruct (negb (hs =? 16 + cnt * 8)) eqn:E; [apply bounded_rej|]. bools.
  pose proof (rd_loop_x_le body cnt 8 s2) as L. destruct (rd_loop_x body cnt 8 s2) as [it s3]. cbn [fst] in L.
  ok_with; lia.
Qed.

Lemma alloc_stss_bounded hs hl body : bounded (alloc_stss hs hl body) 1 0 4 0 hs.
Proof.
  unfold alloc_stss. destruct (rd_n body 4 rd0) as [vf s1]. destruct (rd_n body 4 s1) as [cnt s2].
  destruct (negb (hs =? 16 + cnt * 4)) eqn:E; [apply bounded_rej|]. bools. ok_with; lia.
Qed.

Lemma alloc_sdtp_bounded hs hl body : bounded (alloc_sdtp hs hl body) 1 0 1 0 hs.
Proof.
  unfold alloc_sdtp, apayload_len. destruct (rd_n body 4 rd0) as [vf s1].
  destruct (Z.of_N hs - Z.of_N hl <? 4)%Z eqn:E; [apply bounded_rej|]. bools. ok_with; lia.
Qed.

Lemma alloc_saiz_bounded hs hl body : bounded (alloc_saiz hs hl body) 1 0 1 0 hs.
Proof.
  unfold alloc_saiz. destruct (rd_n body 4 rd0) as [vf s1]. set (fl := flags_of vf).
  set (sa := if has fl 1 then rd_skip body 4 (rd_skip body 4 s1) else s1).
  destruct (rd_n body 1 sa) as [d s2]. destruct (rd_n body 4 s2) as [cnt s3].
  destruct (negb (hs =? 17 + bN (has fl 1) 8 + bN (d =? 0) cnt)) eqn:E; [apply bounded_rej|]. bools.
  destruct (d =? 0) eqn:Ed; cbn [bN] in E; ok_with; lia.
Qed.

Lemma alloc_saio_bounded hs hl body : bounded (alloc_saio hs hl body) 2 0 4 0 hs.
Proof.
  unfold alloc_saio. destruct (rd_n body 4 rd0) as [vf s1]. set (fl := flags_of vf). set (v := version_of vf).
  set (sa := if has fl 1 then rd_skip body 4 (rd_skip body 4 s1) else s1).
  destruct (rd_n body 4 sa) as [cnt s2].
  set (e := if v =? 0 then 4 else 8).
  assert (He : 4 <= e) by (unfold e; destruct (v =? 0); lia).
  destruct (negb (hs =? 16 + bN (has fl 1) 8 + e * cnt)) eqn:E; [apply bounded_rej|]. bools.
  pose proof (rd_loop_x_le body cnt e s2) as L. destruct (rd_loop_x body cnt e s2) as [it s3]. cbn [fst] in L.
  ok_with; nia.
Qed.

Lemma alloc_senc_from_bounded s0 p hs hl body : bounded (alloc_senc_from s0 p hs hl body) 0 0 1 0 hs.
Proof.
  unfold alloc_senc_from. destruct (hs <? 16); [apply bounded_rej|].
  destruct (negb p && (lenN body <? 8)); [apply bounded_rej|].
  destruct (rd_n body 4 s0) as [vf s1]. destruct (0 <? version_of vf); [apply bounded_rej|].
  destruct (rd_n body 4 s1) as [cnt s2]. destruct p.
  - destruct (apayload_len hs hl - 8 <? 0)%Z; [apply bounded_rej|].
    destruct (has (flags_of vf) 2 && (Z.to_N (apayload_len hs hl - 8) <? 2 * cnt)); [apply bounded_rej|]. ok_with; lia.
  - destruct (has (flags_of vf) 2 && (lenN body - 8 <? 2 * cnt)); [apply bounded_rej|]. ok_with; lia.
Qed.

Lemma alloc_senc_bounded p hs hl body : bounded (alloc_senc p hs hl body) 0 0 1 0 hs.
Proof. apply alloc_senc_from_bounded. Qed.

Lemma alloc_uuid_bounded hs hl body : bounded (alloc_uuid hs hl body) 0 4144 1 255 hs.
Proof.
  unfold alloc_uuid. set (s := rd_skip body 16 rd0). set (u := if r_err s then [] else firstn 16 body).
  destruct (eqb_bytes u uuid_tfxd).
  { destruct (rd_n body 4 s) as [vf s1]. ok_with; lia. }
  destruct (eqb_bytes u uuid_tfrf).
  { destruct (rd_n body 4 s) as [vf s1]. pose proof (rd_n_lt body 1 s1) as L. destruct (rd_n body 1 s1) as [cnt s2].
    cbn [fst] in L. change (256 ^ 1) with 256 in L. ok_with; lia. }
  destruct (eqb_bytes u uuid_piff).
  { destruct (hs <? 16) eqn:E; [apply bounded_rej|]. bools.
    destruct (alloc_senc_from_bounded s true (hs - 16) 8 body) as (o & -> & Ha & Hi).
    unfold bounded. eexists; split; [reflexivity|]. cbn [o_alloc o_iters]. split; lia. }
  destruct (hs <? 24); [apply bounded_rej|]. ok_with; lia.
Qed.

Lemma alloc_ftyp_bounded hs hl body : bounded (alloc_ftyp hs hl body) 0 0 1 0 hs.
Proof. unfold alloc_ftyp. destruct (apayload_len hs hl <? 8)%Z; [apply bounded_rej|]. ok_with; lia. Qed.

Lemma alloc_styp_bounded p hs hl body : bounded (alloc_styp p hs hl body) 0 0 1 0 hs.
Proof.
  unfold alloc_styp. destruct p; [apply alloc_ftyp_bounded|]. destruct (lenN body <? 8); [apply bounded_rej|].
  unfold bounded. eexists; split; [reflexivity|]. cbn [o_alloc o_iters]. split; lia.
Qed.

Lemma alloc_sbgp_bounded hs hl body : bounded (alloc_sbgp hs hl body) 1 0 8 0 hs.
Proof.
  unfold alloc_sbgp. destruct (rd_n body 4 rd0) as [vf s1]. set (v := version_of vf).
  set (sa := if v =? 1 then rd_skip body 4 (rd_skip body 4 s1) else rd_skip body 4 s1).
  destruct (rd_n body 4 sa) as [cnt s2].
  destruct (negb (hs =? 20 + bN (v =? 1) 4 + 8 * cnt)) eqn:E; [apply bounded_rej|]. bools.
  pose proof (rd_loop_x_le body cnt 8 s2) as L. destruct (rd_loop_x body cnt 8 s2) as [it s3]. cbn [fst] in L.
  ok_with; lia.
Qed.

(* ---- subs (no size guard): bounded by the bytes the reader sees ---- *)
Lemma rd_n_state body w s : let s' := snd (rd_n body w s) in
  (r_err s' = true /\ r_pos s' = r_pos s) \/
  (r_err s' = false /\ r_err s = false /\ r_pos s' = r_pos s + w /\ r_pos s' <= lenN body).
Proof.
  unfold rd_n. destruct (r_err s) eqn:E; cbn [snd]; [left; auto|].
  destruct (lenN body <? r_pos s + w) eqn:L; cbn [snd r_err r_pos]; [left; auto|]. bools. right. repeat split; auto.
Qed.

Lemma rd_loop_state body cnt e s : let s' := rd_loop body cnt e s in
  r_err s' = true \/
  (r_err s' = false /\ r_err s = false /\ r_pos s' = r_pos s + cnt * e /\ (r_pos s <= lenN body -> r_pos s' <= lenN body)).
Proof.
  unfold rd_loop. destruct (r_err s) eqn:E; [left; exact E|].
  destruct ((e =? 0) || (cnt =? 0)) eqn:Z.
  - right. rewrite E. repeat split; auto. apply orb_true_iff in Z. destruct Z; bools; subst; lia.
  - destruct (lenN body <? r_pos s + cnt * e) eqn:L; cbn [r_err r_pos]; [left; reflexivity|]. bools.
    right. repeat split; auto.
Qed.

Lemma subs_loop_bounded body esz cnt : 8 <= esz -> forall fuel i s al it,
  r_pos s <= lenN body -> (lenN body - r_pos s) / 6 < N.of_nat fuel ->
  exists ok n al' it', subs_loop body fuel esz cnt i s al it = Ok (ok, n, al', it') /\
    al' <= al + 6 * (lenN body - r_pos s) + 786420 /\ it' <= it + (lenN body - r_pos s) + 65536.
Proof.
  intros He. induction fuel as [|f IH]; intros i s al it Hp Hf; [lia|].
  cbn [subs_loop]. destruct (cnt <=? i); [do 4 eexists; split; [reflexivity|lia]|].
  pose proof (rd_n_state body 4 s) as A. destruct (rd_n body 4 s) as [d s1]. cbn [snd] in A.
  pose proof (rd_n_state body 2 s1) as B. pose proof (rd_n_lt body 2 s1) as Lt.
  destruct (rd_n body 2 s1) as [ssc s2]. cbn [snd fst] in B, Lt. change (256 ^ 2) with 65536 in Lt.
  pose proof (rd_loop_state body ssc esz s2) as C. cbn zeta in C.
  destruct (r_err (rd_loop body ssc esz s2)) eqn:E.
  - do 4 eexists; split; [reflexivity|]. split; lia.
  - destruct C as [C|(_ & C1 & C2 & C3)]; [congruence|].
    destruct B as [(B1 & _)|(_ & B1 & B2 & B3)]; [congruence|].
    destruct A as [(A1 & _)|(_ & A1 & A2 & A3)]; [congruence|].
    specialize (C3 B3).
    assert (Hd : lenN body - r_pos (rd_loop body ssc esz s2) + 6 <= lenN body - r_pos s) by nia.
    destruct (IH (i + 1) (rd_loop body ssc esz s2) (al + 12 * ssc + 32) (it + 1 + ssc) C3) as (ok & n & al' & it' & -> & Ha & Hi).
    { assert ((lenN body - r_pos (rd_loop body ssc esz s2)) / 6 + 1 <= (lenN body - r_pos s) / 6); [|lia].
      replace ((lenN body - r_pos (rd_loop body ssc esz s2)) / 6 + 1) with ((lenN body - r_pos (rd_loop body ssc esz s2) + 1 * 6) / 6)
        by (rewrite N.div_add by discriminate; reflexivity).
      apply N.div_le_mono; [discriminate|lia]. }
    do 4 eexists; split; [reflexivity|]. split; nia.
Qed.

Lemma rd_n_pos body w s : r_pos s <= lenN body -> r_pos (snd (rd_n body w s)) <= lenN body.
Proof. intros H. destruct (rd_n_state body w s) as [(_ & ->)|(_ & _ & _ & H')]; assumption. Qed.

Lemma alloc_subs_bounded hs hl body : bounded (alloc_subs hs hl body) 6 786420 1 65536 (lenN body).
Proof.
  unfold alloc_subs.
  assert (P1 := rd_n_pos body 4 rd0 ltac:(cbn; lia)). destruct (rd_n body 4 rd0) as [vf s1]. cbn [snd] in P1.
  assert (Hp := rd_n_pos body 4 s1 P1). destruct (rd_n body 4 s1) as [cnt s2]. cbn [snd] in Hp.
  set (esz := if version_of vf =? 1 then 10 else 8).
  assert (He : 8 <= esz) by (unfold esz; destruct (version_of vf =? 1); lia).
  destruct (subs_loop_bounded body esz cnt He (S (length body)) 0 s2 0 0 Hp) as (ok & n & al & it & -> & Ha & Hi).
  { assert ((lenN body - r_pos s2) / 6 <= lenN body - r_pos s2) by (apply N.div_le_upper_bound; lia).
    unfold lenN in *. lia. }
  unfold bounded. eexists; split; [reflexivity|]. cbn [o_alloc o_iters]. split; lia.
Qed.

Lemma alloc_elst_bounded hs hl body : bounded (alloc_elst hs hl body) 2 0 12 0 hs.
Proof.
  unfold alloc_elst. destruct (rd_n body 4 rd0) as [vf s1]. set (v := version_of vf).
  destruct (rd_n body 4 s1) as [cnt s2].
  destruct (negb (hs =? 16 + cnt * (if v =? 1 then 20 else 12))) eqn:E; [apply bounded_rej|]. bools.
  destruct (v =? 1) eqn:E1.
  - ok_with; lia.
  - destruct (v =? 0); [ok_with; lia|]. unfold bounded. eexists; split; [reflexivity|]. cbn [o_alloc o_iters]. split; lia.
Qed.

Lemma tfra_entry_ge v sizes : 11 <= tfra_entry v sizes.
Proof. unfold tfra_entry. destruct (v =? 1); lia. Qed.

Lemma alloc_tfra_bounded hs hl body : bounded (alloc_tfra hs hl body) 3 0 11 0 hs.
Proof.
  unfold alloc_tfra. destruct (rd_n body 4 rd0) as [vf s1]. set (v := version_of vf).
  destruct (rd_n body 4 (rd_skip body 4 s1)) as [sizes s2]. destruct (rd_n body 4 s2) as [cnt s3].
  pose proof (tfra_entry_ge v sizes) as G.
  destruct (negb (hs =? 24 + cnt * tfra_entry v sizes)) eqn:E; [apply bounded_rej|]. bools.
  ok_with; nia.
Qed.

Lemma alloc_sidx_bounded hs hl body : bounded (alloc_sidx hs hl body) 0 1048560 1 65535 hs.
Proof.
  unfold alloc_sidx. destruct (rd_n body 4 rd0) as [vf s1]. set (v := version_of vf).
  match goal with |- context [rd_n body 2 ?s] => pose proof (rd_n_lt body 2 s) as L; destruct (rd_n body 2 s) as [cnt s2] end.
  cbn [fst] in L. change (256 ^ 2) with 65536 in L. ok_with; lia.
Qed.

(* pssh has no size guard: the KID loop stops at the first read that does not fit, so it is bounded by the bytes
   the reader sees *)
Lemma alloc_pssh_bounded hs hl body : bounded (alloc_pssh hs hl body) 3 40 16 16 (lenN body).
Proof.
  unfold alloc_pssh. destruct (rd_n body 4 rd0) as [vf s1]. set (v := version_of vf).
  destruct (0 <? v).
  - destruct (rd_n body 4 (rd_skip body 16 s1)) as [cnt s2].
    pose proof (rd_loop_x_avail body cnt 16 s2) as L. destruct (rd_loop_x body cnt 16 s2) as [it s3]. cbn [fst] in L.
    destruct (r_err s3).
    + unfold bounded. eexists; split; [reflexivity|]. cbn [o_alloc o_iters]. split; lia.
    + destruct (rd_n body 4 s3) as [dl s4]. ok_with; lia.
  - destruct (rd_n body 4 (rd_skip body 16 s1)) as [dl s4]. ok_with; lia.
Qed.

Lemma alloc_ssix_bounded hs hl body : bounded (alloc_ssix hs hl body) 3 0 8 0 hs.
Proof.
  unfold alloc_ssix. destruct (rd_n body 4 rd0) as [vf s1]. destruct (hs <? 16) eqn:E0; [apply bounded_rej|]. bools.
  destruct (rd_n body 4 s1) as [cnt s2].
  destruct (((hs - 16) / 8) mod 4294967296 <? cnt) eqn:E; [apply bounded_rej|]. bools.
  assert (((hs - 16) / 8) mod 4294967296 <= (hs - 16) / 8) by (apply N.mod_le; discriminate).
  unfold bounded. eexists; split; [reflexivity|]. cbn [o_alloc o_iters]. split; lia.
Qed.

Lemma alloc_treftype_bounded hs hl body : bounded (alloc_treftype hs hl body) 1 0 4 0 hs.
Proof.
  unfold alloc_treftype, apayload_len. ok_with; lia.
Qed.

Lemma alloc_leva_bounded hs hl body : bounded (alloc_leva_prologue hs hl body) 0 5100 1 255 hs.
Proof.
  unfold alloc_leva_prologue. destruct (rd_n body 4 rd0) as [vf s1].
  pose proof (rd_n_lt body 1 s1) as L. destruct (rd_n body 1 s1) as [cnt s2]. cbn [fst] in L.
  change (256 ^ 1) with 256 in L. unfold bounded. eexists; split; [reflexivity|]. cbn [o_alloc o_iters]. split; lia.
Qed.

(* ---- sgpd / alst ---- *)
Lemma alloc_alst_entry_bounded body len1 s :
  exists ok al it s', alloc_alst_entry true body len1 s = Ok (ok, al, it, s') /\
                      al <= lenN body + 262140 /\ 4 * it <= lenN body + 262140.
Proof.
  unfold alloc_alst_entry.
  pose proof (rd_n_lt body 2 s) as L. destruct (rd_n body 2 s) as [roll s1]. cbn [fst] in L. change (256 ^ 2) with 65536 in L.
  destruct (rd_n body 2 s1) as [x s2].
  set (s3 := rd_loop body roll 4 s2). cbn [andb].
  destruct (r_err s3); [do 4 eexists; split; [reflexivity|]; lia|].
  destruct (len1 <? 4 + 4 * roll); [do 4 eexists; split; [reflexivity|]; lia|].
  set (rem := ((len1 + 4294967296 - (4 + 4 * roll)) mod 4294967296) / 4).
  destruct (rem =? 0); [do 4 eexists; split; [reflexivity|]; lia|].
  destruct ((lenN body - r_pos s3) / 4 <? rem) eqn:E; [do 4 eexists; split; [reflexivity|]; lia|]. bools.
  do 4 eexists; split; [reflexivity|].
  assert ((lenN body - r_pos s3) / 4 * 4 <= lenN body - r_pos s3) by (rewrite N.mul_comm; apply N.mul_div_le; discriminate).
  lia.
Qed.

Lemma alloc_sgpd_alst_bounded hs hl body : bounded (alloc_sgpd_alst true hs hl body) 1 262140 4 262140 (lenN body).
Proof.
  unfold alloc_sgpd_alst. destruct (rd_n body 4 rd0) as [vf s1]. set (v := version_of vf).
  match goal with |- context [if 1 <=? v then ?a else ?b] => destruct (if 1 <=? v then a else b) as [dlen s2] end.
  match goal with |- context [rd_n body 4 ?s] => destruct (rd_n body 4 s) as [cnt s3] end.
  destruct (cnt =? 0); [ok_with; lia|].
  match goal with |- context [if ?c then rd_n body 4 s3 else ?b] => destruct (if c then rd_n body 4 s3 else b) as [len1 s4] end.
  destruct (len1 =? 0); [apply bounded_rej|].
  destruct (alloc_alst_entry_bounded body len1 s4) as (ok & al & it & s' & -> & Ha & Hi).
  unfold bounded. eexists; split; [reflexivity|]. cbn [o_alloc o_iters]. split; lia.
Qed.

(* the pinned alst text: a 20-byte sgpd payload (version 1, default_length 2, one entry, roll_count 0) makes the
   decoder request 2 x 2^31 - 4 bytes *)
Definition alst_witness : list N := [1;0;0;0; 97;108;115;116; 0;0;0;2; 0;0;0;1; 0;0;0;0].
Lemma alloc_sgpd_alst_pinned_balloons :
  exists o, alloc_sgpd_alst false 28 8 alst_witness = Ok o /\ o_alloc o = 4294967292 /\ lenN alst_witness = 20.
Proof. eexists. split; [vm_compute; reflexivity|]. split; reflexivity. Qed.

Lemma alloc_ftyp_styp_bounded p hs hl body :
  bounded (alloc_ftyp hs hl body) 0 0 1 0 hs /\ bounded (alloc_styp p hs hl body) 0 0 1 0 hs.
Proof. split; [apply alloc_ftyp_bounded|apply alloc_styp_bounded]. Qed.

(* ---- sgpd: the whole entry loop ---- *)
Lemma rd_skip_eq body w s : rd_skip body w s = snd (rd_n body w s).
Proof. unfold rd_skip, rd_n. destruct (r_err s); [reflexivity|]. destruct (lenN body <? r_pos s + w); reflexivity. Qed.

Lemma rd_skip_pos body w s : r_pos s <= lenN body -> r_pos (rd_skip body w s) <= lenN body.
Proof. rewrite rd_skip_eq. apply rd_n_pos. Qed.

Lemma rd_skip_state body w s : let s' := rd_skip body w s in
  (r_err s' = true /\ r_pos s' = r_pos s) \/
  (r_err s' = false /\ r_err s = false /\ r_pos s' = r_pos s + w /\ r_pos s' <= lenN body).
Proof. rewrite rd_skip_eq. apply rd_n_state. Qed.

Lemma rd_loop_pos body cnt e s : r_pos s <= lenN body -> r_pos (rd_loop body cnt e s) <= lenN body.
Proof.
  intros H. unfold rd_loop. destruct (r_err s); [exact H|]. destruct ((e =? 0) || (cnt =? 0)) eqn:Z; [exact H|].
  apply orb_false_iff in Z. destruct Z as [Z1 Z2]. bools.
  destruct (lenN body <? r_pos s + cnt * e) eqn:L; cbn [r_pos]; bools; [|lia].
  pose proof (N.mul_div_le (lenN body - r_pos s) e Z1). lia.
Qed.

(* alst entry with positions: always bounded; when it reports ok, it consumed exactly 4 + 4*it bytes = its Size() *)
Lemma alloc_alst_entry_spec body len1 s : r_pos s <= lenN body ->
  exists ok al it s', alloc_alst_entry true body len1 s = Ok (ok, al, it, s') /\
    al <= lenN body + 262140 /\ it <= lenN body + 65535 /\ r_pos s' <= lenN body /\
    (ok = true -> r_pos s' = r_pos s + 4 + 4 * it /\ al = 4 * it).
Proof.
  intros Hp. unfold alloc_alst_entry.
  pose proof (rd_n_state body 2 s) as A. pose proof (rd_n_lt body 2 s) as L.
  destruct (rd_n body 2 s) as [roll s1]. cbn [fst snd] in A, L. change (256 ^ 2) with 65536 in L.
  pose proof (rd_n_state body 2 s1) as B. destruct (rd_n body 2 s1) as [x s2]. cbn [snd] in B.
  assert (P1 : r_pos s1 <= lenN body) by (destruct A as [(_ & ->)|(_ & _ & _ & ?)]; assumption).
  assert (P2 : r_pos s2 <= lenN body) by (destruct B as [(_ & ->)|(_ & _ & _ & ?)]; assumption).
  pose proof (rd_loop_state body roll 4 s2) as C. pose proof (rd_loop_pos body roll 4 s2 P2) as P3.
  set (s3 := rd_loop body roll 4 s2) in *. cbn zeta in C. cbn [andb].
  destruct (r_err s3) eqn:E3.
  { do 4 eexists; split; [reflexivity|]. repeat split; try lia; discriminate. }
  destruct C as [C|(_ & C1 & C2 & _)]; [congruence|].
  destruct B as [(B1 & _)|(_ & B1 & B2 & _)]; [congruence|].
  destruct A as [(A1 & _)|(_ & A1 & A2 & _)]; [congruence|].
  destruct (len1 <? 4 + 4 * roll); [do 4 eexists; split; [reflexivity|]; repeat split; try lia; discriminate|].
  set (rem := ((len1 + 4294967296 - (4 + 4 * roll)) mod 4294967296) / 4).
  destruct (rem =? 0) eqn:Er.
  { do 4 eexists; split; [reflexivity|]. repeat split; try lia. }
  destruct ((lenN body - r_pos s3) / 4 <? rem) eqn:E; [do 4 eexists; split; [reflexivity|]; repeat split; try lia; discriminate|].
  bools.
  assert (M : (lenN body - r_pos s3) / 4 * 4 <= lenN body - r_pos s3) by (rewrite N.mul_comm; apply N.mul_div_le; discriminate).
  pose proof (rd_loop_state body rem 4 s3) as D. pose proof (rd_loop_pos body rem 4 s3 P3) as P4. cbn zeta in D.
  do 4 eexists; split; [reflexivity|]. repeat split; try lia.
  match goal with H0 : negb _ = true |- _ => apply negb_true_iff in H0; destruct D as [D|(_ & _ & D2 & _)]; [congruence|lia] end.
Qed.

Ltac fin5 := do 5 eexists; split; [reflexivity|]; split; [lia|]; split; [lia|]; split; [lia|]; intros Ok1 Hsz.

Lemma sg_entry_spec k body len1 s : r_pos s <= lenN body -> len1 <> 0 ->
  exists ok size a its s', sg_entry k body len1 s = (ok, size, a, its, s') /\
    a <= lenN body + 262204 /\ its <= lenN body + 65535 /\ r_pos s' <= lenN body /\
    (ok = true -> size = len1 -> r_pos s + 1 <= r_pos s' /\ a <= 64 + (r_pos s' - r_pos s) /\ its <= r_pos s' - r_pos s).
Proof.
  intros Hp Hl. destruct k; cbn [sg_entry].
  - (* seig *)
    pose proof (rd_skip_state body 1 s) as A1. set (s1 := rd_skip body 1 s) in *. cbn zeta in A1.
    pose proof (rd_skip_state body 1 s1) as A2. set (s2 := rd_skip body 1 s1) in *. cbn zeta in A2.
    pose proof (rd_n_state body 1 s2) as A3. destruct (rd_n body 1 s2) as [prot s3]. cbn [snd] in A3.
    pose proof (rd_n_state body 1 s3) as A4. destruct (rd_n body 1 s3) as [piv s4]. cbn [snd] in A4.
    pose proof (rd_skip_state body 16 s4) as A5. set (s5 := rd_skip body 16 s4) in *. cbn zeta in A5.
    assert (Q1 : r_pos s1 <= lenN body) by (destruct A1 as [(_ & ->)|(_ & _ & _ & ?)]; assumption).
    assert (Q2 : r_pos s2 <= lenN body) by (destruct A2 as [(_ & ->)|(_ & _ & _ & ?)]; assumption).
    assert (Q3 : r_pos s3 <= lenN body) by (destruct A3 as [(_ & ->)|(_ & _ & _ & ?)]; assumption).
    assert (Q4 : r_pos s4 <= lenN body) by (destruct A4 as [(_ & ->)|(_ & _ & _ & ?)]; assumption).
    assert (Q5 : r_pos s5 <= lenN body) by (destruct A5 as [(_ & ->)|(_ & _ & _ & ?)]; assumption).
    assert (G : r_err s5 = false -> r_pos s5 = r_pos s + 20).
    { intros E. destruct A5 as [(A5 & _)|(_ & E4 & A5 & _)]; [congruence|].
      destruct A4 as [(A4 & _)|(_ & E3 & A4 & _)]; [congruence|].
      destruct A3 as [(A3 & _)|(_ & E2 & A3 & _)]; [congruence|].
      destruct A2 as [(A2 & _)|(_ & E1 & A2 & _)]; [congruence|].
      destruct A1 as [(A1 & _)|(_ & E0 & A1 & _)]; [congruence|]. lia. }
    destruct ((prot =? 1) && (piv =? 0)).
    + pose proof (rd_n_state body 1 s5) as A6. destruct (rd_n body 1 s5) as [civ s6]. cbn [snd] in A6.
      pose proof (rd_skip_state body civ s6) as A7. set (s7 := rd_skip body civ s6) in *. cbn zeta in A7.
      assert (Q6 : r_pos s6 <= lenN body) by (destruct A6 as [(_ & ->)|(_ & _ & _ & ?)]; assumption).
      assert (Q7 : r_pos s7 <= lenN body) by (destruct A7 as [(_ & ->)|(_ & _ & _ & ?)]; assumption).
      destruct (negb (len1 =? 21 + (if r_err s7 then 0 else civ))) eqn:En.
      * fin5; discriminate.
      * fin5. apply negb_true_iff in Ok1.
        destruct A7 as [(A7 & _)|(_ & E6 & A7 & _)]; [congruence|].
        destruct A6 as [(A6 & _)|(_ & E5 & A6 & _)]; [congruence|]. specialize (G E5). repeat split; lia.
    + destruct (negb (len1 =? 20)).
      * fin5; discriminate.
      * fin5. apply negb_true_iff in Ok1. specialize (G Ok1). repeat split; lia.
  - (* roll *)
    pose proof (rd_skip_state body 2 s) as A. set (s1 := rd_skip body 2 s) in *. cbn zeta in A.
    assert (Q1 : r_pos s1 <= lenN body) by (destruct A as [(_ & ->)|(_ & _ & _ & ?)]; assumption).
    fin5. apply negb_true_iff in Ok1. destruct A as [(A & _)|(_ & _ & A & _)]; [congruence|]. repeat split; lia.
  - (* rap *)
    pose proof (rd_skip_state body 1 s) as A. set (s1 := rd_skip body 1 s) in *. cbn zeta in A.
    assert (Q1 : r_pos s1 <= lenN body) by (destruct A as [(_ & ->)|(_ & _ & _ & ?)]; assumption).
    fin5. apply negb_true_iff in Ok1. destruct A as [(A & _)|(_ & _ & A & _)]; [congruence|]. repeat split; lia.
  - (* alst *)
    destruct (alloc_alst_entry_spec body len1 s Hp) as (ok & al & it & s' & -> & Ha & Hi & Hq & Hk).
    fin5. destruct (Hk Ok1). repeat split; lia.
  - (* other *)
    pose proof (rd_skip_state body len1 s) as A. set (s1 := rd_skip body len1 s) in *. cbn zeta in A.
    assert (Q1 : r_pos s1 <= lenN body) by (destruct A as [(_ & ->)|(_ & _ & _ & ?)]; assumption).
    fin5. apply negb_true_iff in Ok1. destruct A as [(A & _)|(_ & _ & A & _)]; [congruence|]. repeat split; lia.
Qed.

Lemma sgpd_loop_bounded body k v dlen cnt : forall fuel i s al it,
  r_pos s <= lenN body -> lenN body - r_pos s < N.of_nat fuel ->
  exists ok n al' it', sgpd_loop body fuel k v dlen cnt i s al it = Ok (ok, n, al', it') /\
    al' <= al + 85 * (lenN body - r_pos s) + lenN body + 262208 /\
    it' <= it + 2 * (lenN body - r_pos s) + lenN body + 65536.
Proof.
  induction fuel as [|f IH]; intros i s al it Hp Hf; [lia|].
  cbn [sgpd_loop]. destruct (cnt <=? i); [do 4 eexists; split; [reflexivity|lia]|].
  assert (V : exists len1 s1 al1, (if (1 <=? v) && (dlen =? 0) then (let '(l, s0) := rd_n body 4 s in (l, s0, al + 4)) else (dlen, s, al)) = (len1, s1, al1)
              /\ r_pos s <= r_pos s1 /\ r_pos s1 <= lenN body /\ al1 <= al + 4 /\ (al1 = al \/ r_pos s1 = r_pos s + 4 \/ r_err s1 = true)).
  { destruct ((1 <=? v) && (dlen =? 0)).
    - pose proof (rd_n_state body 4 s) as A. destruct (rd_n body 4 s) as [l s0]. cbn [snd] in A.
      do 3 eexists; split; [reflexivity|]. destruct A as [(A1 & A2)|(_ & _ & A2 & A3)]; repeat split; try lia; auto.
    - do 3 eexists; split; [reflexivity|]. repeat split; try lia; auto. }
  destruct V as (len1 & s1 & al1 & -> & V1 & V2 & V3 & V4).
  destruct (len1 =? 0) eqn:E0; [do 4 eexists; split; [reflexivity|lia]|]. bools.
  destruct (sg_entry_spec k body len1 s1 V2 E0) as (ok & size & a & its & s' & -> & Ha & Hi & Hq & Hk).
  destruct ok; cbn [negb]; [|do 4 eexists; split; [reflexivity|lia]].
  destruct (size =? len1) eqn:Es; cbn [negb]; [|do 4 eexists; split; [reflexivity|lia]]. bools.
  destruct (Hk eq_refl Es) as (K1 & K2 & K3).
  destruct (IH (i + 1) s' (al1 + a + 16) (it + 1 + its) Hq ltac:(lia)) as (ok2 & n & al' & it' & -> & Ha' & Hi').
  do 4 eexists; split; [reflexivity|]. split; nia.
Qed.

Lemma alloc_sgpd_bounded hs hl body :
  exists o, alloc_sgpd hs hl body = Ok o /\ o_alloc o <= 86 * lenN body + 262208 /\ o_iters o <= 3 * lenN body + 65536.
Proof.
  unfold alloc_sgpd.
  assert (P1 := rd_n_pos body 4 rd0 ltac:(cbn; lia)). destruct (rd_n body 4 rd0) as [vf s1]. cbn [snd] in P1.
  set (v := version_of vf). set (k := sgkind_of (firstn 4 (skipn 4 body))).
  assert (P2 : r_pos (rd_skip body 4 s1) <= lenN body) by (apply rd_skip_pos; exact P1).
  set (s2 := rd_skip body 4 s1) in *.
  assert (V : exists dlen s3, (if 1 <=? v then rd_n body 4 s2 else (0, s2)) = (dlen, s3) /\ r_pos s3 <= lenN body).
  { destruct (1 <=? v).
    - pose proof (rd_n_pos body 4 s2 P2). destruct (rd_n body 4 s2) as [d s3]. do 2 eexists; split; [reflexivity|assumption].
    - do 2 eexists; split; [reflexivity|assumption]. }
  destruct V as (dlen & s3 & -> & P3).
  assert (P4 : r_pos (if 2 <=? v then rd_skip body 4 s3 else s3) <= lenN body).
  { destruct (2 <=? v); [apply rd_skip_pos|]; exact P3. }
  set (s4 := if 2 <=? v then rd_skip body 4 s3 else s3) in *.
  assert (P5 := rd_n_pos body 4 s4 P4). destruct (rd_n body 4 s4) as [cnt s5]. cbn [snd] in P5.
  destruct (sgpd_loop_bounded body k v dlen cnt (S (length body)) 0 s5 0 0 P5) as (ok & n & al & it & -> & Ha & Hi).
  { unfold lenN in *. lia. }
  eexists; split; [reflexivity|]. cbn [o_alloc o_iters]. split; lia.
Qed.


(* ---- senc second phase ---- *)
Lemma rd_n_ok body w s : r_err s = false -> r_pos s + w <= lenN body ->
  r_err (snd (rd_n body w s)) = false /\ r_pos (snd (rd_n body w s)) = r_pos s + w.
Proof.
  intros E H. unfold rd_n. rewrite E. destruct (lenN body <? r_pos s + w) eqn:L; bools; [lia|]. cbn. auto.
Qed.

Lemma rd_skip_ok body w s : r_err s = false -> r_pos s + w <= lenN body ->
  r_err (rd_skip body w s) = false /\ r_pos (rd_skip body w s) = r_pos s + w.
Proof. rewrite rd_skip_eq. apply rd_n_ok. Qed.

Lemma rd_loop_ok body cnt e s : r_err s = false -> r_pos s + cnt * e <= lenN body ->
  r_err (rd_loop body cnt e s) = false /\ r_pos (rd_loop body cnt e s) = r_pos s + cnt * e.
Proof.
  intros E H. unfold rd_loop. rewrite E. destruct ((e =? 0) || (cnt =? 0)) eqn:Z.
  - split; [exact E|]. apply orb_true_iff in Z. destruct Z; bools; subst; lia.
  - destruct (lenN body <? r_pos s + cnt * e) eqn:L; bools; [lia|]. cbn. auto.
Qed.

Lemma senc_fill_loop_bounded raw iv cnt : forall fuel i s nIV al it,
  r_err s = false -> r_pos s <= lenN raw -> (lenN raw - r_pos s) / 2 < N.of_nat fuel ->
  exists ok nIV' al' it' s', senc_fill_loop raw fuel iv cnt i s nIV al it = Ok (ok, nIV', al', it', s') /\
    al' <= al + 12 * (lenN raw - r_pos s) + 24 /\ it' <= it + (lenN raw - r_pos s) + 1.
Proof.
  induction fuel as [|f IH]; intros i s nIV al it He Hp Hf; [lia|].
  cbn [senc_fill_loop]. unfold rem_of.
  destruct (cnt <=? i); [do 5 eexists; split; [reflexivity|lia]|].
  destruct ((0 <? iv) && (lenN raw - r_pos s <? iv)) eqn:G; [do 5 eexists; split; [reflexivity|lia]|].
  assert (V : exists s1 n1 a1, (if 0 <? iv then (rd_skip raw iv s, nIV + 1, al + 24) else (s, nIV, al)) = (s1, n1, a1) /\
              r_err s1 = false /\ r_pos s <= r_pos s1 /\ r_pos s1 <= lenN raw /\ a1 <= al + 24 /\
              a1 + 12 * (lenN raw - r_pos s1) <= al + 12 * (lenN raw - r_pos s) + 12).
  { destruct (0 <? iv) eqn:Ei; cbn [andb] in G; bools.
    - destruct (rd_skip_ok raw iv s He ltac:(lia)) as [K1 K2]. do 3 eexists; split; [reflexivity|]. repeat split; try lia; auto.
    - do 3 eexists; split; [reflexivity|]. repeat split; try lia; auto. }
  destruct V as (s1 & n1 & a1 & -> & E1 & V1 & V2 & V3 & V4).
  destruct (lenN raw - r_pos s1 <? 2) eqn:G2; [do 5 eexists; split; [reflexivity|lia]|]. bools.
  destruct (rd_n_ok raw 2 s1 E1 ltac:(lia)) as [K1 K2]. destruct (rd_n raw 2 s1) as [ssc s2]. cbn [snd] in K1, K2.
  destruct (lenN raw - r_pos s2 <? ssc * 6) eqn:G3; [do 5 eexists; split; [reflexivity|lia]|]. bools.
  destruct (rd_loop_ok raw ssc 6 s2 K1 ltac:(lia)) as [L1 L2].
  destruct (IH (i + 1) (rd_loop raw ssc 6 s2) n1 (a1 + 8 * ssc) (it + 1 + ssc) L1 ltac:(lia)) as (ok & n' & al' & it' & s' & -> & Ha & Hi).
  { assert ((lenN raw - r_pos (rd_loop raw ssc 6 s2)) / 2 + 1 <= (lenN raw - r_pos s) / 2); [|lia].
    replace ((lenN raw - r_pos (rd_loop raw ssc 6 s2)) / 2 + 1) with ((lenN raw - r_pos (rd_loop raw ssc 6 s2) + 1 * 2) / 2)
      by (rewrite N.div_add by discriminate; reflexivity).
    apply N.div_le_mono; [discriminate|lia]. }
  do 5 eexists; split; [reflexivity|]. split; lia.
Qed.

Lemma senc_fill_bounded raw iv cnt : 2 * cnt <= lenN raw + 8 ->
  exists ok a b al it, senc_fill raw iv cnt = Ok (ok, a, b, al, it) /\ al <= 24 * lenN raw + 120 /\ it <= lenN raw + 1.
Proof.
  intros Hc. unfold senc_fill.
  destruct (senc_fill_loop_bounded raw iv cnt (S (length raw)) 0 rd0 0 (24 * cnt) 0 eq_refl ltac:(cbn; lia)) as (ok & n & al & it & s & -> & Ha & Hi).
  { cbn [r_pos rd0]. assert ((lenN raw - 0) / 2 <= lenN raw - 0) by (apply N.div_le_upper_bound; lia). unfold lenN in *. lia. }
  cbn [r_pos rd0] in Ha, Hi.
  destruct (negb ok || negb (rem_of raw s =? 0)); do 5 eexists; (split; [reflexivity|]); split; lia.
Qed.

(* ParseReadBox under the guard established by the first phase (subsample flag => 2 * count <= len(rawData) + 8) *)
Lemma senc_parse_bounded fl cnt raw iv : (has fl 2 = true -> 2 * cnt <= lenN raw + 8) ->
  exists ok a b al it, senc_parse fl cnt raw iv = Ok (ok, a, b, al, it) /\ al <= 72 * lenN raw + 360 /\ it <= 3 * lenN raw + 3.
Proof.
  intros Hg. unfold senc_parse.
  destruct ((cnt =? 0) || (lenN raw =? 0)); [do 5 eexists; split; [reflexivity|lia]|].
  destruct (has fl 2) eqn:Hf; cbn [negb].
  - specialize (Hg eq_refl).
    destruct (negb (iv =? 0)).
    + destruct (senc_fill_bounded raw iv cnt Hg) as (ok & a & b & al & it & -> & ? & ?). do 5 eexists; split; [reflexivity|lia].
    + destruct (senc_fill_bounded raw 0 cnt Hg) as (ok0 & a0 & b0 & al0 & it0 & -> & ? & ?).
      destruct ok0; [do 5 eexists; split; [reflexivity|lia]|].
      destruct (senc_fill_bounded raw 8 cnt Hg) as (ok1 & a1 & b1 & al1 & it1 & -> & ? & ?).
      destruct ok1; [do 5 eexists; split; [reflexivity|lia]|].
      destruct (senc_fill_bounded raw 16 cnt Hg) as (ok2 & a2 & b2 & al2 & it2 & -> & ? & ?).
      do 5 eexists; split; [reflexivity|lia].
  - set (left := lenN raw mod 4294967296).
    assert (Hl : left <= lenN raw) by (apply N.mod_le; discriminate).
    set (iv' := if iv =? 0 then (left / cnt) mod 256 else iv).
    destruct (iv' * cnt =? left) eqn:E; cbn [negb]; [|do 5 eexists; split; [reflexivity|lia]]. bools.
    destruct (iv' =? 0) eqn:E0; [do 5 eexists; split; [reflexivity|lia]|]. bools.
    assert (cnt <= lenN raw) by nia.
    destruct ((iv' =? 8) || (iv' =? 16)); do 5 eexists; (split; [reflexivity|]); lia.
Qed.

Lemma raw_len hs hl (body : list N) : lenN (firstn (Z.to_nat (apayload_len hs hl - 8)) (skipn 8 body))
  = N.min (Z.to_N (Z.of_N hs - Z.of_N hl - 8)) (lenN body - 8).
Proof. unfold lenN, apayload_len. rewrite firstn_length, skipn_length. lia. Qed.

(* the first phase establishes that guard (header length 8 or 16; on the reader path the body is exactly the payload) *)
Lemma senc_guard_established p hs hl body o : hl <= 16 -> (p = false -> lenN body = hs - hl) ->
  alloc_senc p hs hl body = Ok o -> o_ok o = true ->
  has (flags_of (fst (rd_n body 4 rd0))) 2 = true ->
  2 * o_count o <= lenN (firstn (Z.to_nat (apayload_len hs hl - 8)) (skipn 8 body)) + 8.
Proof.
  intros Hl Hb. unfold alloc_senc, alloc_senc_from.
  destruct (hs <? 16) eqn:E16; [unfold rej; intros [= <-]; discriminate|].
  destruct (negb p && (lenN body <? 8)) eqn:E8; [unfold rej; intros [= <-]; discriminate|].
  pose proof (rd_n_state body 4 rd0) as A. destruct (rd_n body 4 rd0) as [vf s1]. cbn [snd fst] in *.
  destruct (0 <? version_of vf); [unfold rej; intros [= <-]; discriminate|].
  pose proof (rd_n_state body 4 s1) as B. destruct (rd_n body 4 s1) as [cnt s2]. cbn [snd] in B.
  bools. rewrite raw_len. unfold apayload_len.
  destruct p.
  - destruct (Z.of_N hs - Z.of_N hl - 8 <? 0)%Z eqn:Ez0; [unfold rej; intros [= <-]; discriminate|].
    destruct (has (flags_of vf) 2 && (Z.to_N (Z.of_N hs - Z.of_N hl - 8) <? 2 * cnt)) eqn:G; [unfold rej; intros [= <-]; discriminate|].
    unfold afin. intros [= <-]. cbn [o_ok o_count andb]. intros Eok Hf. rewrite Hf in G. cbn [andb] in G. bools.
    apply negb_true_iff in Eok. unfold rd_bytes_z in Eok.
    destruct (Z.of_N hs - Z.of_N hl - 8 <? 0)%Z eqn:Ez; [discriminate|]. bools.
    unfold rd_skip in Eok. destruct (r_err s2) eqn:E2; [cbn iota in Eok; congruence|].
    destruct (lenN body <? r_pos s2 + Z.to_N (Z.of_N hs - Z.of_N hl - 8)) eqn:El; [discriminate|]. bools.
    destruct B as [(B1 & _)|(_ & B1 & B2 & _)]; [congruence|].
    destruct A as [(A1 & _)|(_ & _ & A2 & _)]; [congruence|]. cbn [r_pos rd0] in A2.
    lia.
  - specialize (Hb eq_refl).
    destruct (has (flags_of vf) 2 && (lenN body - 8 <? 2 * cnt)) eqn:G; [unfold rej; intros [= <-]; discriminate|].
    unfold afin. intros [= <-]. cbn [o_ok o_count andb]. intros _ Hf. rewrite Hf in G. cbn [andb] in G. bools.
    cbn [andb negb] in E8. bools. lia.
Qed.


(* ---- hvcC ---- *)
Lemma lenN_firstn' {A} n (l : list A) : lenN (firstn n l) <= lenN l.
Proof. unfold lenN. rewrite firstn_length. lia. Qed.

Lemma hvcc_nalus_bounded raw n : forall fuel i s al it,
  r_pos s <= lenN raw -> (lenN raw - r_pos s) / 2 < N.of_nat fuel ->
  exists failed al' it' s', hvcc_nalus raw fuel n i s al it = Ok (failed, al', it', s') /\
    r_pos s <= r_pos s' /\ r_pos s' <= lenN raw /\
    (failed = false -> al' <= al + 12 * (r_pos s' - r_pos s) /\ it' <= it + (r_pos s' - r_pos s)) /\
    al' <= al + 12 * (lenN raw - r_pos s) + 24 /\ it' <= it + (lenN raw - r_pos s) + 1.
Proof.
  induction fuel as [|f IH]; intros i s al it Hp Hf; [lia|].
  cbn [hvcc_nalus]. destruct (n <=? i); [do 4 eexists; split; [reflexivity|]; repeat split; lia|].
  pose proof (rd_n_state raw 2 s) as A. destruct (rd_n raw 2 s) as [len s1]. cbn [snd] in A.
  pose proof (rd_skip_state raw len s1) as B. set (s2 := rd_skip raw len s1) in *. cbn zeta in B.
  assert (P1 : r_pos s <= r_pos s1 /\ r_pos s1 <= lenN raw) by (destruct A as [(_ & ->)|(_ & _ & ? & ?)]; lia).
  assert (P2 : r_pos s1 <= r_pos s2 /\ r_pos s2 <= lenN raw) by (destruct B as [(_ & ->)|(_ & _ & ? & ?)]; lia).
  destruct (r_err s2) eqn:E2.
  - do 4 eexists; split; [reflexivity|]. repeat split; try lia; discriminate.
  - destruct B as [(B1 & _)|(_ & B1 & B2 & _)]; [congruence|].
    destruct A as [(A1 & _)|(_ & _ & A2 & _)]; [congruence|].
    destruct (IH (i + 1) s2 (al + 24) (it + 1) ltac:(lia)) as (fl & al' & it' & s' & -> & Q1 & Q2 & Q3 & Q4 & Q5).
    { assert ((lenN raw - r_pos s2) / 2 + 1 <= (lenN raw - r_pos s) / 2); [|lia].
      replace ((lenN raw - r_pos s2) / 2 + 1) with ((lenN raw - r_pos s2 + 1 * 2) / 2) by (rewrite N.div_add by discriminate; reflexivity).
      apply N.div_le_mono; [discriminate|lia]. }
    do 4 eexists; split; [reflexivity|]. repeat split; try lia; intros F; destruct (Q3 F); lia.
Qed.

Lemma hvcc_arrays_bounded raw : forall n s arrays al it, r_pos s <= lenN raw ->
  exists failed a al' it' s', hvcc_arrays raw n s arrays al it = Ok (failed, a, al', it', s') /\
    al' <= al + 12 * (lenN raw - r_pos s) + 24 + 32 * N.of_nat n /\ it' <= it + (lenN raw - r_pos s) + 1 + N.of_nat n.
Proof.
  induction n as [|n IH]; intros s arrays al it Hp; [do 5 eexists; split; [reflexivity|lia]|].
  cbn [hvcc_arrays].
  pose proof (rd_skip_state raw 1 s) as A. set (s1 := rd_skip raw 1 s) in *. cbn zeta in A.
  pose proof (rd_n_state raw 2 s1) as B. destruct (rd_n raw 2 s1) as [nn s2]. cbn [snd] in B.
  assert (P1 : r_pos s <= r_pos s1 /\ r_pos s1 <= lenN raw) by (destruct A as [(_ & ->)|(_ & _ & ? & ?)]; lia).
  assert (P2 : r_pos s1 <= r_pos s2 /\ r_pos s2 <= lenN raw) by (destruct B as [(_ & ->)|(_ & _ & ? & ?)]; lia).
  destruct (hvcc_nalus_bounded raw nn (S (length raw)) 0 s2 al (it + 1) ltac:(lia)) as (fl & al1 & it1 & s3 & -> & Q1 & Q2 & Q3 & Q4 & Q5).
  { assert ((lenN raw - r_pos s2) / 2 <= lenN raw - r_pos s2) by (apply N.div_le_upper_bound; lia). unfold lenN in *. lia. }
  destruct fl.
  - do 5 eexists; split; [reflexivity|]. lia.
  - destruct (Q3 eq_refl) as [Q6 Q7].
    destruct (IH s3 (arrays + 1) (al1 + 32) it1 Q2) as (f2 & a2 & al2 & it2 & s4 & -> & R1 & R2).
    do 5 eexists; split; [reflexivity|]. lia.
Qed.

Lemma hvcc_record_bounded raw : bounded (hvcc_record raw) 12 8184 1 256 (lenN raw).
Proof.
  unfold hvcc_record.
  assert (P1 := rd_n_pos raw 1 rd0 ltac:(cbn; lia)). destruct (rd_n raw 1 rd0) as [ver s1]. cbn [snd] in P1.
  destruct (negb (ver =? 1)); [apply bounded_rej|].
  match goal with |- context [rd_n raw 1 ?s] =>
    assert (P2 : r_pos s <= lenN raw) by (repeat apply rd_skip_pos; exact P1);
    assert (P3 := rd_n_pos raw 1 s P2); destruct (rd_n raw 1 s) as [ab s2] end. cbn [snd] in P3.
  destruct (negb (ab mod 4 =? 3)); [apply bounded_rej|].
  pose proof (rd_n_lt raw 1 s2) as L. assert (Hp := rd_n_pos raw 1 s2 P3).
  destruct (rd_n raw 1 s2) as [na s3]. cbn [fst snd] in L, Hp. change (256 ^ 1) with 256 in L.
  destruct (hvcc_arrays_bounded raw (N.to_nat na) s3 0 0 0 Hp) as (f & a & al & it & s' & -> & Ha & Hi).
  unfold bounded. eexists; split; [reflexivity|]. cbn [o_alloc o_iters]. split; lia.
Qed.

Lemma alloc_hvcc_bounded p hs hl body : bounded (alloc_hvcc p hs hl body) 12 8184 1 256 (lenN body).
Proof.
  unfold alloc_hvcc. destruct p; [|apply hvcc_record_bounded].
  destruct (r_err (rd_bytes_z body (apayload_len hs hl) rd0)).
  - eapply bounded_weaken; [apply hvcc_record_bounded| | | |]; cbn; lia.
  - eapply bounded_weaken; [apply hvcc_record_bounded| | | |]; try lia. apply lenN_firstn'.
Qed.

(* ---- tlou / alou ---- *)
Lemma lou_loop_bounded raw v : forall n s al it,
  let '(al', it', _) := lou_loop raw n v s al it in al' <= al + 1060 * N.of_nat n /\ it' <= it + 256 * N.of_nat n.
Proof.
  induction n as [|n IH]; intros s al it; [cbn; lia|].
  cbn [lou_loop].
  match goal with |- context [rd_n raw 1 ?s0] => pose proof (rd_n_lt raw 1 s0) as L; destruct (rd_n raw 1 s0) as [mc s1] end.
  cbn [fst] in L. change (256 ^ 1) with 256 in L.
  specialize (IH (rd_loop raw mc 3 s1) (al + 40 + 4 * mc) (it + 1 + mc)).
  destruct (lou_loop raw n v (rd_loop raw mc 3 s1) (al + 40 + 4 * mc) (it + 1 + mc)) as [[al' it'] s'].
  lia.
Qed.

Lemma alloc_lou_bounded hs hl body : bounded (alloc_lou hs hl body) 0 67284 1 16128 hs.
Proof.
  unfold alloc_lou. destruct (rd_n body 4 rd0) as [vf s1]. set (v := version_of vf).
  destruct (1 <=? v).
  - destruct (rd_n body 1 s1) as [b s2]. destruct (negb ((b / 64) mod 4 =? 0)); [apply bounded_rej|].
    assert (Hc : b mod 64 < 64) by (apply N.mod_lt; discriminate).
    pose proof (lou_loop_bounded body v (N.to_nat (b mod 64)) s2 (8 * (b mod 64)) 0) as H.
    destruct (lou_loop body (N.to_nat (b mod 64)) v s2 (8 * (b mod 64)) 0) as [[al it] s'].
    unfold bounded. eexists; split; [reflexivity|]. cbn [o_alloc o_iters]. lia.
  - pose proof (lou_loop_bounded body v 1 s1 8 0) as H.
    destruct (lou_loop body 1 v s1 8 0) as [[al it] s'].
    unfold bounded. eexists; split; [reflexivity|]. cbn [o_alloc o_iters]. lia.
Qed.

(* ---- avcC ---- *)
Lemma avcc_nalus_count raw : forall n pos cnt pos' c, avcc_nalus raw n pos cnt = Some (pos', c) -> c <= cnt + N.of_nat n.
Proof.
  induction n as [|n IH]; intros pos cnt pos' c; cbn [avcc_nalus]; [intros [= <- <-]; lia|].
  destruct (lenN raw <? pos + 2); [discriminate|].
  destruct (lenN raw <? pos + 2 + (byte_at raw pos * 256 + byte_at raw (pos + 1))); [discriminate|].
  intros H. apply IH in H. lia.
Qed.

Lemma avcc_record_bounded raw n : bounded (avcc_record raw) 0 6912 1 286 n.
Proof.
  unfold avcc_record. destruct (lenN raw <? 6); [apply bounded_rej|].
  destruct (negb (byte_at raw 0 =? 1)); [apply bounded_rej|].
  destruct (negb (byte_at raw 4 mod 4 =? 3)); [apply bounded_rej|].
  assert (H5 : byte_at raw 5 mod 32 < 32) by (apply N.mod_lt; discriminate).
  destruct (avcc_nalus raw (N.to_nat (byte_at raw 5 mod 32)) 6 0) as [[pos c1]|] eqn:E1;
    [|unfold bounded; eexists; split; [reflexivity|]; cbn [o_alloc o_iters]; lia].
  apply avcc_nalus_count in E1.
  destruct (lenN raw <=? pos); [unfold bounded; eexists; split; [reflexivity|]; cbn [o_alloc o_iters]; lia|].
  assert (Hp : byte_at raw pos < 256) by (unfold byte_at; apply N.mod_lt; discriminate).
  destruct (avcc_nalus raw (N.to_nat (byte_at raw pos)) (pos + 1) 0) as [[pos2 c2]|] eqn:E2;
    [|unfold bounded; eexists; split; [reflexivity|]; cbn [o_alloc o_iters]; lia].
  apply avcc_nalus_count in E2.
  repeat match goal with |- context [if ?c then _ else _] => destruct c end;
    unfold bounded; eexists; (split; [reflexivity|]); cbn [o_alloc o_iters]; lia.
Qed.

Lemma alloc_avcc_bounded p hs hl body : bounded (alloc_avcc p hs hl body) 0 6912 1 286 hs.
Proof. unfold alloc_avcc. destruct p; [|apply avcc_record_bounded]. apply avcc_record_bounded. Qed.

(* ---- box level ---- *)
Definition bounded_tab (r : res aout) (n : N) : Prop :=
  exists o, r = Ok o /\ o_alloc o <= 86 * n + 1048560 /\ o_iters o <= 3 * n + 65536.

Lemma alloc_table_bounded t p hs hl body : hs <> 34359738376 ->
  bounded_tab (alloc_table t p hs hl body) (hs + lenN body).
Proof.
  intros Hn. assert (hs <= hs + lenN body) by lia. assert (lenN body <= hs + lenN body) by lia.
  destruct t; cbn [alloc_table].
  - destruct (alloc_trun_bounded p hs hl body) as (o & -> & ? & ?). exists o. split; [reflexivity|]. split; lia.
  - destruct (alloc_stts_bounded hs hl body) as (o & -> & ? & ?). exists o. split; [reflexivity|]. split; lia.
  - destruct (alloc_ctts_bounded hs hl body Hn) as (o & -> & ? & ?). exists o. split; [reflexivity|]. split; lia.
  - destruct (alloc_stsc_bounded hs hl body) as (o & -> & ? & ?). exists o. split; [reflexivity|]. split; lia.
  - destruct (alloc_stsz_bounded hs hl body) as (o & -> & ? & ?). exists o. split; [reflexivity|]. split; lia.
  - destruct (alloc_stco_bounded hs hl body) as (o & -> & ? & ?). exists o. split; [reflexivity|]. split; lia.
  - destruct (alloc_co64_bounded hs hl body) as (o & -> & ? & ?). exists o. split; [reflexivity|]. split; lia.
  - destruct (alloc_stss_bounded hs hl body) as (o & -> & ? & ?). exists o. split; [reflexivity|]. split; lia.
  - destruct (alloc_sdtp_bounded hs hl body) as (o & -> & ? & ?). exists o. split; [reflexivity|]. split; lia.
  - destruct (alloc_saiz_bounded hs hl body) as (o & -> & ? & ?). exists o. split; [reflexivity|]. split; lia.
  - destruct (alloc_saio_bounded hs hl body) as (o & -> & ? & ?). exists o. split; [reflexivity|]. split; lia.
  - destruct (alloc_senc_bounded p hs hl body) as (o & -> & ? & ?). exists o. split; [reflexivity|]. split; lia.
  - destruct (alloc_sbgp_bounded hs hl body) as (o & -> & ? & ?). exists o. split; [reflexivity|]. split; lia.
  - destruct (alloc_subs_bounded hs hl body) as (o & -> & ? & ?). exists o. split; [reflexivity|]. split; lia.
  - destruct (alloc_elst_bounded hs hl body) as (o & -> & ? & ?). exists o. split; [reflexivity|]. split; lia.
  - destruct (alloc_tfra_bounded hs hl body) as (o & -> & ? & ?). exists o. split; [reflexivity|]. split; lia.
  - destruct (alloc_sidx_bounded hs hl body) as (o & -> & ? & ?). exists o. split; [reflexivity|]. split; lia.
  - destruct (alloc_sgpd_bounded hs hl body) as (o & -> & ? & ?). exists o. split; [reflexivity|]. split; lia.
  - destruct (alloc_pssh_bounded hs hl body) as (o & -> & ? & ?). exists o. split; [reflexivity|]. split; lia.
  - destruct (alloc_ssix_bounded hs hl body) as (o & -> & ? & ?). exists o. split; [reflexivity|]. split; lia.
  - destruct (alloc_treftype_bounded hs hl body) as (o & -> & ? & ?). exists o. split; [reflexivity|]. split; lia.
  - destruct (alloc_leva_bounded hs hl body) as (o & -> & ? & ?). exists o. split; [reflexivity|]. split; lia.
  - destruct (alloc_uuid_bounded hs hl body) as (o & -> & ? & ?). exists o. split; [reflexivity|]. split; lia.
  - destruct (alloc_ftyp_bounded hs hl body) as (o & -> & ? & ?). exists o. split; [reflexivity|]. split; lia.
  - destruct (alloc_styp_bounded p hs hl body) as (o & -> & ? & ?). exists o. split; [reflexivity|]. split; lia.
  - destruct (alloc_hvcc_bounded p hs hl body) as (o & -> & ? & ?). exists o. split; [reflexivity|]. split; lia.
  - destruct (alloc_avcc_bounded p hs hl body) as (o & -> & ? & ?). exists o. split; [reflexivity|]. split; lia.
  - destruct (alloc_lou_bounded hs hl body) as (o & -> & ? & ?). exists o. split; [reflexivity|]. split; lia.
Qed.

Lemma lenN_skipn {A} n (l : list A) : lenN (skipn n l) <= lenN l.
Proof. unfold lenN. rewrite skipn_length. lia. Qed.
Lemma lenN_firstn {A} n (l : list A) : lenN (firstn n l) <= lenN l.
Proof. unfold lenN. rewrite firstn_length. lia. Qed.

Definition bounded_box (r : res aout) (n : N) : Prop :=
  exists o, r = Ok o /\ o_alloc o <= 172 * n + 1048560 /\ o_iters o <= 6 * n + 65536.

Lemma bounded_box_rej n : bounded_box rej n.
Proof. exists (mkO false 0 0 0). cbn. repeat split; lia. Qed.

(* DecodeBoxSR / DecodeBox on ANY byte string whose box type is one of the modelled table boxes: the prologue
   returns, allocates at most 172 * len + 1048560 bytes and loops at most 6 * len + 65536 times (the factor is that
   of the sgpd entry loop: 86 per byte of box size + bytes seen; every other box stays below 12 * len) *)
Lemma alloc_box_sr_bounded bs : lenN bs < 34359738376 -> match alloc_box_sr bs with
                                | Some r => bounded_box r (lenN bs)
                                | None => True end.
Proof.
  intros Hs. unfold alloc_box_sr. destruct (hdr_of bs) as [[hs hl]|]; [|apply bounded_box_rej].
  destruct (tbox_of (name_of bs)) as [t|].
  - destruct (lenN bs <? hs) eqn:E; [apply bounded_box_rej|]. bools.
    destruct (alloc_table_bounded t true hs hl (skipn (N.to_nat hl) bs) ltac:(lia)) as (o & -> & Ha & Hi).
    pose proof (lenN_skipn (N.to_nat hl) bs). exists o. split; [reflexivity|]. split; lia.
  - exact I.
Qed.

Lemma alloc_box_r_bounded bs : lenN bs < 34359738376 -> match alloc_box_r bs with
                               | Some r => bounded_box r (lenN bs)
                               | None => True end.
Proof.
  intros Hs. unfold alloc_box_r. destruct (hdr_of bs) as [[hs hl]|]; [|apply bounded_box_rej].
  destruct (tbox_of (name_of bs)) as [t|].
  - destruct (lenN bs <? hs) eqn:E; [apply bounded_box_rej|]. bools.
    destruct (alloc_table_bounded t false hs hl (firstn (N.to_nat (hs - hl)) (skipn (N.to_nat hl) bs)) ltac:(lia)) as (o & -> & Ha & Hi).
    pose proof (lenN_firstn (N.to_nat (hs - hl)) (skipn (N.to_nat hl) bs)). pose proof (lenN_skipn (N.to_nat hl) bs).
    exists o. split; [reflexivity|]. split; lia.
  - exact I.
Qed.
