(* C04MfraProofs.v — findAndReadMfra over extended shapes never panics on the repaired text, for every
   list of shapes (any mfro position / ParentSize, any number of tfra boxes with any entry counts);
   the length comparison is what keeps the offset loop in range; agreement with C04AsmModel on the
   shapes it already had. *)
From V.lib Require Import Base.
From V.c04 Require Import C04AsmModel C04AsmProofs C04MfraModel.
Open Scope N_scope.

(* the offset loop stays in range when the later tfra has no more entries than the first has beyond j *)
Lemma offs_loop_np : forall other first j,
  (j + length other <= length first)%nat -> no_panic (offs_loop other first j).
Proof.
  induction other as [|o rest IH]; intros first j H; [exact I|].
  cbn [offs_loop]. cbn [length] in H.
  destruct (nth_error first j) as [f|] eqn:E.
  - destruct (o =? f); [|exact I]. apply IH. lia.
  - apply nth_error_None in E. lia.
Qed.

Lemma tfra_check_np first t : no_panic (tfra_check first t).
Proof.
  unfold tfra_check. destruct (fst t =? fst first); [exact I|].
  destruct (length (snd t) =? length (snd first))%nat eqn:E; cbn [negb]; [|exact I].
  apply Nat.eqb_eq in E. apply offs_loop_np. lia.
Qed.

Lemma tfras_loop_np first rest : no_panic (tfras_loop first rest).
Proof.
  induction rest as [|t r IH]; [exact I|]. cbn [tfras_loop].
  apply no_panic_bind; [apply tfra_check_np|intros; exact IH].
Qed.

(* without the length comparison the loop indexes the first tfra out of range as soon as a later tfra is
   longer (the smallest case: first tfra 0 entries, second 1 entry) *)
Lemma offs_loop_longer_panics : forall common extra more first,
  first = common -> offs_loop (common ++ extra :: more) first 0 = Panic.
Proof.
  intros common extra more first ->.
  assert (G : forall pre l, offs_loop (l ++ extra :: more) (pre ++ l) (length pre) = Panic).
  { intros pre l. revert pre. induction l as [|x l IH]; intros pre.
    - cbn [app offs_loop]. rewrite app_nil_r.
      replace (nth_error pre (length pre)) with (@None N); [reflexivity|].
      symmetry. apply nth_error_None. lia.
    - cbn [app offs_loop]. rewrite nth_error_app2 by lia. rewrite Nat.sub_diag. cbn [nth_error].
      rewrite N.eqb_refl.
      specialize (IH (pre ++ [x])). rewrite <- app_assoc in IH. cbn [app] in IH.
      rewrite app_length in IH. cbn [length] in IH. rewrite Nat.add_1_r in IH. exact IH. }
  exact (G [] common).
Qed.

Theorem find_mfra_x_np : forall boxes, no_panic (find_and_read_mfra_x true boxes).
Proof.
  intros boxes. unfold find_and_read_mfra_x.
  destruct (sumN (map snd boxes) <? 16); [exact I|].
  destruct (tail_mfro boxes) as [p|]; [|exact I].
  destruct (sumN (map snd boxes) <? p); [exact I|].
  destruct (look_at boxes (sumN (map snd boxes) - p)) as [|tfras|]; try exact I.
  destruct tfras as [|first rest]; [exact I|].
  apply no_panic_bind; [apply tfras_loop_np|intros; exact I].
Qed.

(* the result, when there is one, is the offset list of the FIRST tfra of an mfra found by the look-back, and every
   later tfra has another track id, as many entries and the same offsets *)
Lemma tfras_loop_spec first rest :
  tfras_loop first rest = if tfras_consistent first rest then Ok tt else Err.
Proof.
  induction rest as [|[tid offs] r IH]; [reflexivity|].
  cbn [tfras_loop tfras_consistent]. unfold tfra_check. cbn [fst snd].
  destruct (tid =? fst first); cbn [negb andb rbind]; [reflexivity|].
  destruct (length offs =? length (snd first))%nat eqn:E; cbn [negb andb rbind]; [|reflexivity].
  apply Nat.eqb_eq in E.
  assert (G : forall o f j pre, (length pre = j)%nat -> length o = length f ->
            offs_loop o (pre ++ f) j = if forallb (fun p => fst p =? snd p) (combine o f) then Ok tt else Err).
  { induction o as [|x o IHo]; intros f j pre Hj Hl; [reflexivity|].
    destruct f as [|y f]; [discriminate|]. cbn [offs_loop combine forallb fst snd].
    rewrite nth_error_app2 by lia. replace (j - length pre)%nat with 0%nat by lia. cbn [nth_error].
    destruct (x =? y); cbn [andb]; [|reflexivity].
    specialize (IHo f (S j) (pre ++ [y])). rewrite <- app_assoc in IHo. cbn [app] in IHo.
    apply IHo; [rewrite app_length; cbn [length]; lia|]. cbn [length] in Hl. lia. }
  pose proof (G offs (snd first) 0%nat [] eq_refl E) as G0. cbn [app] in G0. rewrite G0.
  destruct (forallb _ _); cbn [andb rbind]; [exact IH|reflexivity].
Qed.

Theorem assemble_x_ok : forall o boxes,
  res_post (fun f => init_ok f = true) (assemble_x true o boxes).
Proof.
  intros o boxes. unfold assemble_x. destruct (o_sr o).
  - destruct (o_lazy o); [exact I|]. apply decode_loop_ok; [reflexivity|discriminate].
  - assert (H := find_mfra_x_np boxes).
    destruct (if o_ism o then find_and_read_mfra_x true boxes else Ok None) as [tf| | |] eqn:E;
      cbn [rbind res_post]; try exact I;
      try (destruct (o_ism o); [rewrite E in H; exact H|discriminate]).
    pose proof (decode_loop_ok o (tops boxes) (mkF false None None None [] tf false [] [] false) BNone 0 eq_refl
                  ltac:(discriminate)) as HL.
    destruct (decode_loop true o _ BNone 0 (tops boxes)); cbn [rbind res_post] in *; auto.
Qed.

Theorem assembly_x_total : forall (o : opts) (boxes : list (xshape * N)),
  match assemble_x true o boxes with
  | Ok f => no_panic (info_file true f) /\ no_panic (encode_file true false f) /\ no_panic (encode_file true true f)
  | Err => True
  | Panic => False
  | OutOfFuel => False
  end.
Proof.
  intros o boxes. pose proof (assemble_x_ok o boxes) as H.
  destruct (assemble_x true o boxes); cbn [res_post] in H; auto.
  split; [apply info_file_np|split; apply encode_file_np; exact H].
Qed.

(* ---- agreement with the shapes of C04AsmModel (boxes of positive size) *)
Lemma tops_embed boxes : tops (embed boxes) = boxes.
Proof.
  unfold tops, embed. rewrite map_map. induction boxes as [|[t s] r IH]; [reflexivity|].
  cbn [map fst snd top_of]. f_equal. exact IH.
Qed.

Lemma sizes_embed boxes : map snd (embed boxes) = map snd boxes.
Proof. unfold embed. rewrite map_map. reflexivity. Qed.

Lemma sumN_app a b : sumN (a ++ b) = sumN a + sumN b.
Proof. induction a as [|x a IH]; cbn [app sumN]; [reflexivity|]. rewrite IH. lia. Qed.

Lemma look_at_last : forall pre x sz,
  Forall (fun b => 0 < snd b) pre -> 0 < sz ->
  look_at (pre ++ [(x, sz)]) (sumN (map snd pre)) =
  match x with XTop (TMfra t) => LMfra t | XMfra t _ => LMfra t | _ => LNot end.
Proof.
  induction pre as [|[y s] r IH]; intros x sz HF Hs.
  - cbn [app map sumN look_at]. rewrite N.eqb_refl. reflexivity.
  - inversion HF as [|? ? Hy HF']; subst. cbn [snd] in Hy.
    cbn [app map sumN look_at snd].
    assert (E0 : (s + sumN (map snd r) =? 0) = false) by (apply N.eqb_neq; lia). rewrite E0.
    assert (E1 : (s + sumN (map snd r) <? s) = false) by (apply N.ltb_ge; lia). rewrite E1.
    replace (s + sumN (map snd r) - s) with (sumN (map snd r)) by lia.
    apply IH; assumption.
Qed.

Theorem find_mfra_x_embed : forall boxes, Forall (fun b => 0 < snd b) boxes ->
  find_and_read_mfra_x true (embed boxes) = find_and_read_mfra true boxes.
Proof.
  intros boxes HF. unfold find_and_read_mfra_x, find_and_read_mfra. rewrite sizes_embed.
  destruct (sumN (map snd boxes) <? 16) eqn:E16; [reflexivity|].
  unfold tail_mfro.
  destruct (rev boxes) as [|[t sz] rr] eqn:ER.
  - assert (boxes = []) by (rewrite <- (rev_involutive boxes), ER; reflexivity). subst. reflexivity.
  - assert (EB : boxes = rev rr ++ [(t, sz)]) by (rewrite <- (rev_involutive boxes), ER; reflexivity).
    assert (ERE : rev (embed boxes) = (XTop t, sz) :: rev (embed (rev rr))).
    { rewrite EB. unfold embed. rewrite map_app, rev_app_distr. reflexivity. }
    rewrite ERE.
    destruct t; try reflexivity.
    (* last box is an mfra *)
    assert (ES : sumN (map snd boxes) = sumN (map snd (rev rr)) + sz).
    { rewrite EB, map_app, sumN_app. cbn [map sumN snd]. lia. }
    assert (Hsz : 0 < sz).
    { rewrite EB in HF. apply Forall_app in HF. destruct HF as [_ HL]. inversion HL; subst. assumption. }
    assert (HP : Forall (fun b => 0 < snd b) (embed (rev rr))).
    { rewrite EB in HF. apply Forall_app in HF. destruct HF as [HL _].
      unfold embed. apply Forall_map. cbn [snd]. exact HL. }
    assert (EL : (sumN (map snd boxes) <? sz) = false) by (apply N.ltb_ge; lia). rewrite EL.
    replace (sumN (map snd boxes) - sz) with (sumN (map snd (embed (rev rr)))) by (rewrite sizes_embed; lia).
    rewrite EB. unfold embed at 1. rewrite map_app. cbn [map fst snd].
    change (map (fun b : topshape * N => (XTop (fst b), snd b)) (rev rr)) with (embed (rev rr)).
    rewrite (look_at_last (embed (rev rr)) (XTop (TMfra tfras)) sz HP Hsz).
    destruct tfras as [|first rest]; [reflexivity|].
    rewrite tfras_loop_spec. destruct (tfras_consistent first rest); reflexivity.
Qed.

Theorem assemble_x_embed : forall o boxes, Forall (fun b => 0 < snd b) boxes ->
  assemble_x true o (embed boxes) = assemble true o boxes.
Proof.
  intros o boxes HF. unfold assemble_x, assemble. rewrite tops_embed, find_mfra_x_embed by exact HF. reflexivity.
Qed.

(* ---- concrete instances: the 107-byte file (first tfra without entries, second with one) is an error;
        the same comparison without the length check would index out of range *)
Definition oISMx : opts := mkO false false true false.
Example mfra_two_tfras_0_1 :
  assemble_x true oISMx [(XMfra [(1, []); (2, [0])] (Some 107), 107)] = Err /\
  offs_loop [0] [] 0 = Panic.
Proof. split; vm_compute; reflexivity. Qed.

Example mfra_lookback_inside_mdat :
  find_and_read_mfra_x true [(XTop (TMoof []), 24); (XMdatMfra 4 [(1, [0])] (Some 67), 79)] = Ok (Some [0]).
Proof. vm_compute. reflexivity. Qed.

Example mfra_lookback_wrong_parent_size :
  find_and_read_mfra_x true [(XTop (TMoof []), 24); (XMfra [(1, [0])] (Some 66), 67)] = Err /\
  find_and_read_mfra_x true [(XTop (TMoof []), 24); (XMfra [(1, [0])] (Some 92), 67)] = Err /\
  find_and_read_mfra_x true [(XTop (TMoof []), 24); (XMfra [(1, [0])] (Some 91), 67)] = Err /\
  find_and_read_mfra_x true [(XTop (TMoof []), 24); (XMfra [(1, [0])] None, 51)] = Ok None /\
  find_and_read_mfra_x true [(XTop (TMoof []), 24); (XMfra [(1, [0])] None, 51); (XMfro 67, 16)] = Ok (Some [0]).
Proof. repeat split; vm_compute; reflexivity. Qed.
