(* C04TreeModel.v — the table-box decoders of C04AllocModel.v as LEAVES of the box-tree decoders of
   C04Model.v (DEFINITIONS ONLY): DecodeBox / DecodeBoxSR with both container child loops, where a leaf
   whose type is one of the exact-size-guard table boxes
        trun stts ctts stsc stsz stco co64 stss sdtp saiz saio sbgp elst tfra
   runs its modelled prologue (size guard, make([]T, n), entry loop) and charges the bytes it requests
   (alloc) and its loop iterations (ticks) to the cost of the whole decode.  Every other leaf type is
   left to the `other` leaf decoder (opaque under the leaf contract; std_leaves in the correspondence).

   What an accepted table leaf leaves behind is a consequence of its size guard hdr.Size == expectedSize(count)
   (expectedSize counts an 8-byte header): it has read hdr.Size - 8 bytes after the header and its Size() is
   hdr.Size; sdtp sizes its table from hdr.payloadLen(): it reads the payload and Size() = 8 + payload.
   On the SliceReader path the reads go to the shared reader: with a 16-byte header they reach 8 bytes beyond
   the box, and when they do not fit the reader's sticky error is set (DecodeBoxSR has only checked
   hdr.Size <= remaining + Hdrlen).  sidx, subs and pssh have no size guard (their reads are not confined to
   the box): they are not table leaves here. *)
From V.lib Require Import Base.
From V.c04 Require Import C04Model C04AllocModel.
Open Scope Z_scope.

Definition guarded (t : tbox) : bool :=
  match t with
  | TbTrun | TbStts | TbCtts | TbStsc | TbStsz | TbStco | TbCo64 | TbStss | TbSdtp | TbSaiz | TbSaio
  | TbSbgp | TbElst | TbTfra => true
  | _ => false
  end.

Definition tbl_of (nm : list N) : option tbox :=
  match tbox_of nm with Some t => if guarded t then Some t else None | None => None end.

(* hdr.Size is a uint64 *)
Definition hs64 (h : hdr) : N := (hsize h mod 18446744073709551616)%N.

(* bytes read after the header by an accepted leaf, and the Size() it reports *)
Definition leaf_reads (t : tbox) (h : hdr) : Z :=
  match t with
  | TbSdtp => Z.max 0 (Z.of_N (hs64 h) - Z.of_N (hlen h))
  | _ => Z.max 0 (Z.of_N (hs64 h) - 8)
  end.
Definition leaf_size (t : tbox) (h : hdr) : N :=
  match t with
  | TbSdtp => (8 + (hs64 h - hlen h))%N
  | _ => hs64 h
  end.

Definition charge (o : aout) (c : cost) : cost := tick (o_iters o) (allocn (o_alloc o) c).

(* SliceReader path: the decoder reads from the shared reader (it sees every remaining byte) *)
Definition tbl_sr (t : tbox) (h : hdr) (s : sst) : res N * sst :=
  let body := skipn (Z.to_nat (rpos (sr s))) (rbuf (sr s)) in
  match alloc_table t true (hs64 h) (hlen h) body with
  | Ok o =>
      let c := charge o (scost s) in
      if o_ok o then
        let want := rpos (sr s) + leaf_reads t h in
        (Ok (leaf_size t h),
         mkS (mkR (rbuf (sr s)) (Z.min (rlen (sr s)) want) (rerr (sr s) || (rlen (sr s) <? want))) c)
      else (Err, mkS (sr s) c)
  | Err => (Err, s) | Panic => (Panic, s) | OutOfFuel => (OutOfFuel, s)
  end.

(* io.Reader path: readBoxBody, then the decoder on a fresh reader over exactly the payload *)
Definition tbl_r (t : tbox) (h : hdr) (s : ist) : res N * ist :=
  let '(r, s1) := read_box_body h s in
  match r with
  | Ok body =>
      match alloc_table t false (hs64 h) (hlen h) body with
      | Ok o =>
          let s2 := icharge (charge o) s1 in
          if o_ok o then (Ok (leaf_size t h), s2) else (Err, s2)
      | Err => (Err, s1) | Panic => (Panic, s1) | OutOfFuel => (OutOfFuel, s1)
      end
  | Err => (Err, s1) | Panic => (Panic, s1) | OutOfFuel => (OutOfFuel, s1)
  end.

Definition mix_leaves (other : leafdec) : leafdec :=
  mkLD (ld_kind other)
       (fun h s => match tbl_of (hname h) with Some t => tbl_r t h s | None => ld_r other h s end)
       (fun h s => match tbl_of (hname h) with Some t => tbl_sr t h s | None => ld_sr other h s end).

(* the leaves of the correspondence: table boxes + mdat / free / skip / unknown *)
Definition tbl_leaves : leafdec := mix_leaves std_leaves.
