(* C04AsmProofs.v — the file-assembly state machine, File.Encode(SW) and File.Info never panic on the
   REPAIRED text (g = true), for every list of top-level box shapes and every decode option;
   refutations for the pinned text (g = false). *)
From V.lib Require Import Base.
From V.c04 Require Import C04AsmModel.
Open Scope N_scope.

Definition no_panic {A} (r : res A) : Prop :=
  match r with Panic => False | OutOfFuel => False | _ => True end.

Lemma no_panic_bind {A B} (r : res A) (k : A -> res B) :
  no_panic r -> (forall a, r = Ok a -> no_panic (k a)) -> no_panic (rbind r k).
Proof. destruct r; cbn; auto. Qed.

(* the last segment exists and has a fragment *)
Definition seg_ok (f : fstate) : bool :=
  match f_segs f with
  | sg :: _ => match sg_frags sg with _ :: _ => true | [] => false end
  | [] => false
  end.

Definition is_nil_ftyp (c : initchild) : bool := match c with ICNilFtyp => true | _ => false end.
Definition init_ok (f : fstate) : bool :=
  match f_init f with Some l => negb (existsb is_nil_ftyp l) | None => true end.

Lemma seg_start_raw_ok o f pos : exists b, seg_start_raw true o f pos = Ok b.
Proof.
  unfold seg_start_raw. destruct (f_sidxs f); [|eauto].
  destruct (f_tfra f) as [entries|].
  - destruct (nth_error entries (N.to_nat (lenN (f_segs f)))); eauto.
  - destruct (o_start_on_moof o); [|eauto]. destruct (f_segs f); eauto.
Qed.

Lemma ssin_ok o f pos :
  exists f', start_segment_if_needed true o f pos = Ok f' /\ f_segs f' <> [] /\ f_init f' = f_init f.
Proof.
  unfold start_segment_if_needed. destruct (seg_start_raw_ok o f pos) as [b Hb]. rewrite Hb. cbn [rbind].
  destruct (f_segs f) eqn:E.
  - rewrite orb_true_r. eexists. split; [reflexivity|]. cbn. split; [discriminate|reflexivity].
  - rewrite orb_false_r. destruct b.
    + eexists. split; [reflexivity|]. cbn. split; [discriminate|reflexivity].
    + eexists. split; [reflexivity|]. rewrite E. split; [discriminate|reflexivity].
Qed.

Lemma add_child_ok o f t size pos :
  init_ok f = true ->
  (match t with TMdat _ => f_frag f = true -> seg_ok f = true | _ => True end) ->
  exists f', add_child true o f t size pos = Ok f' /\ init_ok f' = true /\
             (is_moof (btype_of t) = true -> seg_ok f' = true).
Proof.
  intros HJ Hm. unfold add_child. destruct t; cbn [btype_of is_moof].
  - eexists. split; [reflexivity|]. cbn. split; [exact HJ|discriminate].
  - destruct m as [depth n]. cbn [moov_stts]. destruct (depth <? 5)%nat; cbn [rbind].
    + eexists. split; [reflexivity|]. split; [exact HJ|discriminate].
    + destruct n; cbn [rbind].
      * eexists. split; [reflexivity|]. split; [|discriminate].
        unfold init_ok, push_child. cbn. destruct (f_ftyp f); reflexivity.
      * eexists. split; [reflexivity|]. split; [exact HJ|discriminate].
  - eexists. split; [reflexivity|]. split; [exact HJ|discriminate].
  - destruct (f_segs f); cbn [rbind]; eexists; (split; [reflexivity|]); (split; [exact HJ|discriminate]).
  - destruct (ssin_ok o f pos) as [f' [H1 [H2 H3]]]. rewrite H1. cbn [rbind].
    destruct (f_segs f') as [|sg rest] eqn:E; [contradiction|].
    destruct (sg_frags sg); cbn [rbind]; eexists; (split; [reflexivity|]);
      (split; [unfold init_ok in *; cbn; rewrite H3; exact HJ|discriminate]).
  - destruct (ssin_ok o (set_segs f (f_segs f) true) pos) as [f' [H1 [H2 H3]]]. rewrite H1. cbn [rbind].
    destruct (f_segs f') as [|sg rest] eqn:E; [contradiction|].
    assert (HJ' : init_ok f' = true) by (unfold init_ok in *; rewrite H3; exact HJ).
    destruct (sg_frags sg) as [|fr frs]; cbn [rbind].
    + eexists. split; [reflexivity|]. split; [exact HJ'|reflexivity].
    + destruct (fr_moof fr); cbn [rbind]; eexists; (split; [reflexivity|]); (split; [exact HJ'|reflexivity]).
  - destruct (f_frag f) eqn:Efr; cbn [negb].
    + specialize (Hm eq_refl). unfold seg_ok in Hm.
      destruct (f_segs f) as [|sg rest]; [discriminate|].
      destruct (sg_frags sg); [discriminate|]. cbn [rbind].
      eexists. split; [reflexivity|]. split; [exact HJ|discriminate].
    + destruct (f_mdat f) as [[|p]|]; cbn [rbind]; eexists; (split; [reflexivity|]); (split; [exact HJ|discriminate]).
  - eexists. split; [reflexivity|]. split; [exact HJ|discriminate].
  - eexists. split; [reflexivity|]. split; [exact HJ|discriminate].
Qed.

Lemma parse_read_senc_np tr pok : no_panic (parse_read_senc true tr pok).
Proof. unfold parse_read_senc. destruct (t_saio tr) as [[| |]|]; cbn; destruct pok; exact I. Qed.

Lemma moof_senc_pass_np f trafs : no_panic (moof_senc_pass true f trafs).
Proof.
  induction trafs as [|tr rest IH]; [exact I|]. cbn [moof_senc_pass].
  apply no_panic_bind; [|intros; exact IH].
  destruct (t_senc tr) as [[|pok]|]; try exact I.
  destruct (f_moov f); [destruct (t_tfhd tr); exact I|apply parse_read_senc_np].
Qed.

Definition res_post {A} (P : A -> Prop) (r : res A) : Prop :=
  match r with Ok a => P a | Err => True | Panic => False | OutOfFuel => False end.

Lemma decode_loop_ok o : forall boxes f last pos,
  init_ok f = true -> (is_moof last = true -> seg_ok f = true) ->
  res_post (fun f' => init_ok f' = true) (decode_loop true o f last pos boxes).
Proof.
  induction boxes as [|[t size] rest IH]; intros f last pos HJ HI; [exact HJ|].
  cbn [decode_loop].
  set (pre := match t with TMoov m => _ | TMdat p => _ | TMoof trafs => _ | _ => Ok tt end).
  assert (Hpre : no_panic pre).
  { subst pre. destruct t; try exact I.
    - cbn [andb]. destruct (negb (moov_complete m)); exact I.
    - apply moof_senc_pass_np.
    - destruct (f_frag f); [destruct (is_moof last); exact I|].
      destruct (f_mdat f); [|exact I]. destruct ((0 <? n) && (0 <? payload)); exact I. }
  destruct pre as [[]| | |] eqn:Epre; cbn [rbind res_post]; try exact I; try contradiction.
  destruct (add_child_ok o f t size pos HJ) as [f' [H1 [H2 H3]]].
  { destruct t; try exact I. intros Hfr. apply HI.
    subst pre. rewrite Hfr in Epre. destruct (is_moof last); [reflexivity|discriminate]. }
  rewrite H1. cbn [rbind]. apply IH; assumption.
Qed.

Lemma find_mfra_np boxes : no_panic (find_and_read_mfra true boxes).
Proof.
  unfold find_and_read_mfra. destruct (sumN (map snd boxes) <? 16); [exact I|].
  destruct (rev boxes) as [|[t sz] r]; [exact I|]. destruct t; try exact I.
  destruct tfras as [|first rest]; [exact I|]. destruct (tfras_consistent first rest); exact I.
Qed.

Theorem assemble_ok : forall o boxes,
  res_post (fun f => init_ok f = true) (assemble true o boxes).
Proof.
  intros o boxes. unfold assemble. destruct (o_sr o).
  - destruct (o_lazy o); [exact I|]. apply decode_loop_ok; [reflexivity|discriminate].
  - assert (H := find_mfra_np boxes).
    destruct (if o_ism o then find_and_read_mfra true boxes else Ok None) as [tf| | |] eqn:E;
      cbn [rbind res_post]; try exact I;
      try (destruct (o_ism o); [rewrite E in H; exact H|discriminate]).
    pose proof (decode_loop_ok o boxes (mkF false None None None [] tf false [] [] false) BNone 0 eq_refl
                  ltac:(discriminate)) as HL.
    destruct (decode_loop true o _ BNone 0 boxes); cbn [rbind res_post] in *; auto.
Qed.

(* ---- encoders and Info *)
Lemma encode_all_np {A} (enc : A -> res unit) l : (forall x, no_panic (enc x)) -> no_panic (encode_all enc l).
Proof.
  intros H. induction l as [|x r IH]; [exact I|]. cbn [encode_all].
  apply no_panic_bind; [apply H|intros; exact IH].
Qed.

Lemma encode_moof_np b trafs : no_panic (encode_moof true b trafs).
Proof. unfold encode_moof. destruct (negb b && has_zero_trun trafs); exact I. Qed.

Lemma encode_fragment_np fr : no_panic (encode_fragment true fr).
Proof.
  unfold encode_fragment. destruct (fr_moof fr); [|exact I]. destruct (negb (fr_mdat fr)); [exact I|].
  apply encode_all_np. intros [| |]; try exact I. apply encode_moof_np.
Qed.

Lemma encode_init_np l : existsb is_nil_ftyp l = false -> no_panic (encode_init l).
Proof.
  induction l as [|c r IH]; intros H; [exact I|]. cbn [existsb] in H. apply orb_false_elim in H.
  destruct H as [H1 H2]. unfold encode_init in *. cbn [encode_all].
  apply no_panic_bind; [destruct c; try exact I; discriminate|intros; apply IH; exact H2].
Qed.

Theorem encode_file_np : forall f bt, init_ok f = true -> no_panic (encode_file true bt f).
Proof.
  intros f bt HJ. unfold encode_file. destruct (f_frag f && negb bt).
  - apply no_panic_bind.
    + unfold init_ok in HJ. destruct (f_init f); [|exact I]. apply encode_init_np.
      destruct (existsb is_nil_ftyp l); [discriminate|reflexivity].
    + intros _ _. apply encode_all_np. intros sg. unfold encode_segment.
      apply encode_all_np. apply encode_fragment_np.
  - apply encode_all_np. intros [| | | | | | | |]; try exact I. apply encode_moof_np.
Qed.

Theorem info_file_np : forall f, no_panic (info_file true f).
Proof.
  intros f. unfold info_file. apply encode_all_np. intros [| | | | | | | |]; try exact I.
  cbn [info_top]. apply encode_all_np. intros tr. unfold info_traf.
  destruct (t_saio tr) as [[| |]|]; exact I.
Qed.

(* the full statement: decode under any options, then Info and both encode modes *)
Theorem assembly_total : forall (o : opts) (boxes : list (topshape * N)),
  match assemble true o boxes with
  | Ok f => no_panic (info_file true f) /\ no_panic (encode_file true false f) /\ no_panic (encode_file true true f)
  | Err => True
  | Panic => False
  | OutOfFuel => False
  end.
Proof.
  intros o boxes. pose proof (assemble_ok o boxes) as H.
  destruct (assemble true o boxes); cbn [res_post] in H; auto.
  split; [apply info_file_np|split; apply encode_file_np; exact H].
Qed.

(* ---- the pinned text (g = false) is refuted, site by site *)
Definition oR : opts := mkO false false false false.
Definition oISM : opts := mkO false false true false.
Definition full_traf : trafshape := mkTraf true None None [TrunOffset].

Theorem assembly_refuted_moov_without_trak :
  assemble false oR [(TMoov (MoovChain 0 0), 116)] = Panic.
Proof. vm_compute. reflexivity. Qed.

Theorem assembly_refuted_traf_without_tfhd :
  assemble false oR [(TFtyp, 32); (TMoov (MoovChain 5 0), 554);
                     (TMoof [mkTraf false (Some (SencUnparsed true)) None []], 56)] = Panic.
Proof. vm_compute. reflexivity. Qed.

Theorem assembly_refuted_saio_without_offsets :
  assemble false oR [(TMoof [mkTraf true (Some (SencUnparsed true)) (Some SaioEmpty) []], 88)] = Panic.
Proof. vm_compute. reflexivity. Qed.

Theorem assembly_refuted_no_segment_after_sidx :
  assemble false oR [(TSidx (mkSidx 1 [(false, 100)]), 44); (TMoof [full_traf], 68)] = Panic /\
  assemble false oR [(TSidx (mkSidx 1 [(false, 100)]), 44); (TEmsg, 40)] = Panic.
Proof. split; vm_compute; reflexivity. Qed.

Theorem assembly_refuted_tfra_entries :
  assemble false oISM [(TMoof [], 24); (TMdat 4, 12); (TMoof [], 24); (TMdat 4, 12); (TMfra [(1, [0])], 67)] = Panic.
Proof. vm_compute. reflexivity. Qed.

Theorem assembly_refuted_mfra_without_tfra :
  assemble false oISM [(TOther, 8); (TMfra [], 24)] = Panic.
Proof. vm_compute. reflexivity. Qed.

Theorem encode_refuted_nil_ftyp : exists f,
  assemble false oR [(TMoov (MoovChain 5 0), 554)] = Ok f /\ encode_file false false f = Panic.
Proof. eexists. split; vm_compute; reflexivity. Qed.

Theorem encode_refuted_moof_without_traf : exists f,
  assemble false oR [(TMoof [], 24); (TMdat 4, 12)] = Ok f /\
  encode_file false false f = Panic /\ encode_file false true f = Panic.
Proof. eexists. split; [vm_compute; reflexivity|split; vm_compute; reflexivity]. Qed.

Theorem encode_refuted_second_traf_zero_offset : exists f,
  assemble false oR [(TMoof [full_traf; mkTraf true None None [TrunZeroOffset]], 100); (TMdat 4, 12)] = Ok f /\
  encode_file false true f = Panic.
Proof. eexists. split; vm_compute; reflexivity. Qed.

Theorem info_refuted_saio_without_offsets : exists f,
  assemble false oR [(TMoof [mkTraf true None (Some SaioEmpty) []], 64)] = Ok f /\ info_file false f = Panic.
Proof. eexists. split; vm_compute; reflexivity. Qed.

(* the same witnesses are accepted (Ok or Err, never Panic) by the repaired text: instances of assembly_total *)
Example repaired_moov_without_trak : assemble true oR [(TMoov (MoovChain 0 0), 116)] = Err.
Proof. vm_compute. reflexivity. Qed.
