(* Extraction of the C04 models for the correspondence check. ExtrOcamlBasic only. *)
From V.lib Require Import Base.
From V.c04 Require Import C04Model C04AsmModel C04AllocModel C04MfraModel C04TreeModel C04TreeXModel C04XrefModel C04InfoModel.
Require Import ExtrOcamlBasic.
Separate Extraction
  rstate rop rval rstep rnew rpos rerr
  std_leaves box_r box_sr tree tsize bout ist sst ipos sr
  topshape trafshape sidxshape moovshape opts fstate assemble encode_file info_file
  xshape assemble_x tbl_leaves tblx_leaves
  obs_segment f_frag f_init f_mdat f_sidxs f_mfra f_children f_segs
  xtraf sbgpc sgpdc sencc entryk moof_senc_pass_x picked_senc se_unparsed group_lookup_gen
  ibox state_of_box info_lines get_info_level senc_parsed_state se_flags se_count se_raw
  aout o_ok o_count o_alloc o_iters alloc_box_sr alloc_box_r name_of senc_box.
