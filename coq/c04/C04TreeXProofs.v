(* C04TreeXProofs.v — sidx, subs and pssh as leaves of the box-tree decoders: what they cost in terms of the bytes
   they CONSUME (success) or of the bytes remaining (error), and the container theorems for a leaf contract with
   two constants: LC for a leaf that returns a box (paid by the 8 header bytes of that box: the factor K2), LCE for
   a leaf that returns an error (paid once: the error ends the whole decode). *)
From V.lib Require Import Base.
From V.c04 Require Import C04Model C04ReaderProofs C04ContainerProofs C04AllocModel C04AllocProofs C04TreeModel C04TreeProofs C04TreeXModel.
Open Scope N_scope.

(* ------------------------------------------------------------------ the runs *)
(* r returns; the final position is inside the bytes seen; an accepted box costs at most 6 per byte consumed;
   a rejected one at most 6 per byte seen plus 17 * 65535 (sidx: reference_count is 16 bit and the loop appends a
   16-byte SidxRef per iteration whether or not the reads still fit) *)
Definition XE : N := 1114095.
Definition run_ok (r : res (aout * rd * N)) (len : N) : Prop :=
  exists o e sz, r = Ok (o, e, sz) /\ r_pos e <= len /\
    (o_ok o = true -> o_alloc o + o_iters o <= 6 * r_pos e) /\
    o_alloc o + o_iters o <= 6 * len + XE.

Lemma sidx_run_alloc hs hl body : alloc_sidx hs hl body = Ok (fst (fst (sidx_run body))).
Proof.
  unfold alloc_sidx, sidx_run. destruct (rd_n body 4 rd0) as [vf s1].
  match goal with |- context [rd_n body 2 ?s] => destruct (rd_n body 2 s) as [cnt s2] end.
  unfold afin. cbn [fst andb]. reflexivity.
Qed.

Lemma pssh_run_alloc hs hl body : alloc_pssh hs hl body = Ok (fst (fst (pssh_run body))).
Proof.
  unfold alloc_pssh, pssh_run. destruct (rd_n body 4 rd0) as [vf s1].
  destruct (0 <? version_of vf).
  - destruct (rd_n body 4 (rd_skip body 16 s1)) as [cnt s2]. destruct (rd_loop_x body cnt 16 s2) as [it s3].
    destruct (r_err s3); [reflexivity|]. destruct (rd_n body 4 s3) as [dl s4]. unfold afin. cbn [fst andb]. reflexivity.
  - destruct (rd_n body 4 (rd_skip body 16 s1)) as [dl s4]. unfold afin. cbn [fst andb]. reflexivity.
Qed.

Lemma subs_run_loop body esz cnt : forall fuel i s al it sz,
  subs_loop body fuel esz cnt i s al it =
  match subs_run body fuel esz cnt i s al it sz with
  | Ok (ok, n, al', it', _, _) => Ok (ok, n, al', it')
  | Err => Err | Panic => Panic | OutOfFuel => OutOfFuel
  end.
Proof.
  induction fuel as [|f IH]; intros i s al it sz; cbn [subs_loop subs_run]; [reflexivity|].
  destruct (cnt <=? i); [reflexivity|].
  destruct (rd_n body 4 s) as [d s1]. destruct (rd_n body 2 s1) as [ssc s2].
  destruct (r_err (rd_loop body ssc esz s2)); [reflexivity|]. apply IH.
Qed.

Lemma subs_total_alloc hs hl body :
  alloc_subs hs hl body = match subs_total body with
                          | Ok (o, _, _) => Ok o
                          | Err => Err | Panic => Panic | OutOfFuel => OutOfFuel end.
Proof.
  unfold alloc_subs, subs_total. destruct (rd_n body 4 rd0) as [vf s1]. destruct (rd_n body 4 s1) as [cnt s2].
  rewrite (subs_run_loop body _ cnt (S (length body)) 0 s2 0 0 16).
  destruct (subs_run body (S (length body)) (if version_of vf =? 1 then 10 else 8) cnt 0 s2 0 0 16)
    as [[[[[[ok n] al] it] s'] sz]| | |]; reflexivity.
Qed.

Lemma rd_n_mono body w s : r_pos s <= r_pos (snd (rd_n body w s)).
Proof. destruct (rd_n_state body w s) as [(_ & ->)|(_ & _ & -> & _)]; lia. Qed.
Lemma rd_skip_mono body w s : r_pos s <= r_pos (rd_skip body w s).
Proof. rewrite rd_skip_eq. apply rd_n_mono. Qed.

Lemma rd_loop_mono body cnt e s : r_pos s <= r_pos (rd_loop body cnt e s).
Proof.
  unfold rd_loop. destruct (r_err s); [lia|]. destruct ((e =? 0) || (cnt =? 0)); [lia|].
  destruct (lenN body <? r_pos s + cnt * e); cbn [r_pos]; apply N.le_add_r.
Qed.

Lemma rd_loop_x_noerr body cnt e s : e <> 0 -> r_err (snd (rd_loop_x body cnt e s)) = false ->
  fst (rd_loop_x body cnt e s) = cnt /\ r_pos (snd (rd_loop_x body cnt e s)) = r_pos s + cnt * e /\ r_err s = false.
Proof.
  intros He. unfold rd_loop_x. destruct (cnt =? 0) eqn:E0; cbn [fst snd].
  - bools. subst. intros ->. repeat split; lia.
  - destruct (r_err s) eqn:Es; cbn [fst snd]; [congruence|].
    destruct (e =? 0) eqn:Ee; [bools; contradiction|].
    destruct (lenN body <? r_pos s + cnt * e); cbn [fst snd r_err r_pos]; [discriminate|]. auto.
Qed.

Lemma rd_loop_x_pos body cnt e s : r_pos s <= lenN body -> r_pos (snd (rd_loop_x body cnt e s)) <= lenN body.
Proof.
  intros H. unfold rd_loop_x. destruct (cnt =? 0); cbn [snd]; [exact H|]. destruct (r_err s); cbn [snd]; [exact H|].
  destruct (e =? 0) eqn:Ee; cbn [snd]; [exact H|]. bools.
  destruct (lenN body <? r_pos s + cnt * e) eqn:L; cbn [snd r_pos]; bools; [|lia].
  pose proof (N.mul_div_le (lenN body - r_pos s) e Ee). lia.
Qed.

Lemma sidx_run_ok body : run_ok (Ok (sidx_run body)) (lenN body).
Proof.
  unfold sidx_run, run_ok, XE.
  assert (P0 : r_pos rd0 <= lenN body) by (cbn; lia).
  pose proof (rd_n_pos body 4 rd0 P0) as P1. destruct (rd_n body 4 rd0) as [vf s1]. cbn [snd] in P1.
  set (sa := rd_skip body 4 (rd_skip body 4 s1)).
  assert (Pa : r_pos sa <= lenN body) by (subst sa; auto using rd_skip_pos).
  set (sb := if version_of vf =? 0 then rd_skip body 4 (rd_skip body 4 sa) else rd_skip body 8 (rd_skip body 8 sa)).
  assert (Pb : r_pos sb <= lenN body) by (subst sb; destruct (version_of vf =? 0); auto using rd_skip_pos).
  set (sc := rd_skip body 2 sb).
  assert (Pc : r_pos sc <= lenN body) by (subst sc; auto using rd_skip_pos).
  pose proof (rd_n_pos body 2 sc Pc) as Pd. pose proof (rd_n_lt body 2 sc) as Lt.
  destruct (rd_n body 2 sc) as [cnt sd]. cbn [snd fst] in Pd, Lt. change (256 ^ 2) with 65536 in Lt.
  pose proof (rd_loop_pos body cnt 12 sd Pd) as Pe. pose proof (rd_loop_state body cnt 12 sd) as St. cbn zeta in St.
  do 3 eexists. split; [reflexivity|]. cbn [o_ok o_alloc o_iters]. split; [exact Pe|]. split; [|lia].
  intros Hok. apply negb_true_iff in Hok. destruct St as [St|(_ & _ & St & _)]; [congruence|]. lia.
Qed.

Lemma pssh_run_ok body : run_ok (Ok (pssh_run body)) (lenN body).
Proof.
  unfold pssh_run, run_ok, XE.
  assert (P0 : r_pos rd0 <= lenN body) by (cbn; lia).
  pose proof (rd_n_pos body 4 rd0 P0) as P1. destruct (rd_n body 4 rd0) as [vf s1]. cbn [snd] in P1.
  pose proof (rd_skip_pos body 16 s1 P1) as P2. set (s2 := rd_skip body 16 s1) in *.
  destruct (0 <? version_of vf).
  - pose proof (rd_n_pos body 4 s2 P2) as P3. destruct (rd_n body 4 s2) as [cnt s3]. cbn [snd] in P3.
    pose proof (rd_loop_x_pos body cnt 16 s3 P3) as P4. pose proof (rd_loop_x_avail body cnt 16 s3) as Av.
    pose proof (rd_loop_x_noerr body cnt 16 s3 ltac:(discriminate)) as Ne.
    destruct (rd_loop_x body cnt 16 s3) as [it s4]. cbn [fst snd] in P4, Av, Ne.
    destruct (r_err s4) eqn:E4.
    + do 3 eexists. split; [reflexivity|]. cbn [o_ok o_alloc o_iters]. split; [exact P4|]. split; [discriminate|lia].
    + destruct (Ne eq_refl) as (-> & Np & _).
      pose proof (rd_n_pos body 4 s4 P4) as P5. pose proof (rd_n_mono body 4 s4) as M5.
      destruct (rd_n body 4 s4) as [dl s5]. cbn [snd] in P5, M5.
      set (s6 := if 0 <? dl then rd_skip body dl s5 else s5).
      assert (P6 : r_pos s6 <= lenN body) by (subst s6; destruct (0 <? dl); auto using rd_skip_pos).
      assert (M6 : r_pos s5 <= r_pos s6) by (subst s6; destruct (0 <? dl); [apply rd_skip_mono | lia]).
      do 3 eexists. split; [reflexivity|]. cbn [o_ok o_alloc o_iters]. split; [exact P6|]. split; [intros _|]; lia.
  - pose proof (rd_n_pos body 4 s2 P2) as P5. destruct (rd_n body 4 s2) as [dl s5]. cbn [snd] in P5.
    set (s6 := if 0 <? dl then rd_skip body dl s5 else s5).
    assert (P6 : r_pos s6 <= lenN body) by (subst s6; destruct (0 <? dl); auto using rd_skip_pos).
    do 3 eexists. split; [reflexivity|]. cbn [o_ok o_alloc o_iters]. split; [exact P6|]. split; [intros _|]; lia.
Qed.

Lemma subs_run_ok body esz cnt : 8 <= esz -> forall fuel i s al it sz,
  r_pos s <= lenN body -> (lenN body - r_pos s) / 6 < N.of_nat fuel ->
  exists ok n al' it' s' sz', subs_run body fuel esz cnt i s al it sz = Ok (ok, n, al', it', s', sz') /\
    r_pos s <= r_pos s' <= lenN body /\
    (ok = true -> al' + it' <= al + it + 6 * (r_pos s' - r_pos s)) /\
    al' + it' <= al + it + 6 * (lenN body - r_pos s) + 851956.
Proof.
  intros He. induction fuel as [|f IH]; intros i s al it sz Hp Hf; [lia|].
  cbn [subs_run]. destruct (cnt <=? i).
  { do 6 eexists. split; [reflexivity|]. split; [lia|]. split; [intros _|]; lia. }
  pose proof (rd_n_state body 4 s) as A. pose proof (rd_n_mono body 4 s) as MA. pose proof (rd_n_pos body 4 s Hp) as PA.
  destruct (rd_n body 4 s) as [d s1]. cbn [snd] in A, MA, PA.
  pose proof (rd_n_state body 2 s1) as B. pose proof (rd_n_lt body 2 s1) as Lt.
  pose proof (rd_n_mono body 2 s1) as MB. pose proof (rd_n_pos body 2 s1 PA) as PB.
  destruct (rd_n body 2 s1) as [ssc s2]. cbn [snd fst] in B, Lt, MB, PB. change (256 ^ 2) with 65536 in Lt.
  pose proof (rd_loop_state body ssc esz s2) as C. cbn zeta in C.
  pose proof (rd_loop_pos body ssc esz s2 PB) as PC.
  destruct (r_err (rd_loop body ssc esz s2)) eqn:E.
  - do 6 eexists. split; [reflexivity|]. split.
    + split; [|exact PC]. pose proof (rd_loop_mono body ssc esz s2). lia.
    + split; [discriminate|lia].
  - destruct C as [C|(_ & C1 & C2 & C3)]; [congruence|].
    destruct B as [(B1 & _)|(_ & B1 & B2 & B3)]; [congruence|].
    destruct A as [(A1 & _)|(_ & A1 & A2 & A3)]; [congruence|].
    specialize (C3 B3).
    assert (H8 : 8 * ssc <= ssc * esz) by nia.
    assert (Hd : lenN body - r_pos (rd_loop body ssc esz s2) + 6 <= lenN body - r_pos s) by lia.
    destruct (IH (i + 1) (rd_loop body ssc esz s2) (al + 12 * ssc + 32) (it + 1 + ssc) (sz + 6 + ssc * esz) C3)
      as (ok & n & al' & it' & s' & sz' & -> & Hpos & Hok & Hany).
    { assert ((lenN body - r_pos (rd_loop body ssc esz s2)) / 6 + 1 <= (lenN body - r_pos s) / 6); [|lia].
      replace ((lenN body - r_pos (rd_loop body ssc esz s2)) / 6 + 1) with ((lenN body - r_pos (rd_loop body ssc esz s2) + 1 * 6) / 6)
        by (rewrite N.div_add by discriminate; reflexivity).
      apply N.div_le_mono; [discriminate|lia]. }
    do 6 eexists. split; [reflexivity|]. split; [lia|]. split; [intros Ht; specialize (Hok Ht)|]; lia.
Qed.

Lemma subs_total_ok body : run_ok (subs_total body) (lenN body).
Proof.
  unfold subs_total, run_ok, XE.
  assert (P0 : r_pos rd0 <= lenN body) by (cbn; lia).
  pose proof (rd_n_pos body 4 rd0 P0) as P1. destruct (rd_n body 4 rd0) as [vf s1]. cbn [snd] in P1.
  pose proof (rd_n_pos body 4 s1 P1) as P2. destruct (rd_n body 4 s1) as [cnt s2]. cbn [snd] in P2.
  set (esz := if version_of vf =? 1 then 10 else 8).
  assert (He : 8 <= esz) by (subst esz; destruct (version_of vf =? 1); lia).
  destruct (subs_run_ok body esz cnt He (S (length body)) 0 s2 0 0 16 P2) as (ok & n & al & it & s' & sz & -> & Hpos & Hok & Hany).
  { assert ((lenN body - r_pos s2) / 6 <= lenN body - r_pos s2) by (apply N.div_le_upper_bound; lia).
    unfold lenN in *. lia. }
  do 3 eexists. split; [reflexivity|]. cbn [o_ok o_alloc o_iters]. split; [lia|]. split; [|lia].
  intros H. apply andb_true_iff in H. destruct H as (-> & _). specialize (Hok eq_refl). lia.
Qed.

Lemma run_x_ok t body : unguarded t = true -> run_ok (run_x t body) (lenN body).
Proof.
  destruct t; try discriminate; intros _; cbn [run_x];
    [apply subs_total_ok | apply sidx_run_ok | apply pssh_run_ok].
Qed.

(* ------------------------------------------------------------------ the contract with two constants *)
Open Scope Z_scope.
Definition LA3 : Z := 7.         (* 6 per byte for the tables + 1 for the body buffer of the io.Reader path *)
Definition LCE : Z := 1200000.     (* a leaf that returns an error: 17 * 65535 (sidx) < LCE; paid once *)
Definition EB3 : Z := 1200040.
Definition EK3 : Z := 1200041.

Record leaf_ok3 (ld : leafdec) : Prop := mkLeafOk3 {
  leaf3_sr : forall h s, Inv (sr s) -> pre_sr h s ->
    exists r s', ld_sr ld h s = (r, s') /\ np r /\ Inv (sr s') /\ rbuf (sr s') = rbuf (sr s) /\
      rpos (sr s) <= rpos (sr s') /\
      T (scost s') <= T (scost s) + LA3 * rem s + LCE /\
      (forall sz, r = Ok sz -> T (scost s') <= T (scost s) + LA3 * (rpos (sr s') - rpos (sr s)) + LC);
  leaf3_r : forall h s, (ipos s <= lenN (ibuf s))%N -> hdr_wf h -> Z.of_N (lenN (ibuf s)) < BIG ->
    exists r s', ld_r ld h s = (r, s') /\ np r /\ ibuf s' = ibuf s /\
      (ipos s <= ipos s' <= lenN (ibuf s))%N /\
      T (icost s') <= T (icost s) + LA3 * (Z.of_N (ipos s') - Z.of_N (ipos s)) + LCE /\
      (forall sz, r = Ok sz -> T (icost s') <= T (icost s) + LA3 * (Z.of_N (ipos s') - Z.of_N (ipos s)) + LC) }.


(* every leaf decoder under the one-constant contract satisfies the two-constant one *)
Lemma leaf_ok2_ok3 ld : leaf_ok2 ld -> leaf_ok3 ld.
Proof.
  intros L. constructor.
  - intros h s HI HP. destruct (leaf2_sr ld L h s HI HP) as [r [s' [E [NP [I1 [B1 [P1 [C1 D1]]]]]]]].
    exists r, s'. split; [exact E|]. split; [exact NP|]. split; [exact I1|]. split; [exact B1|]. split; [exact P1|].
    split; [unfold rem in *; unfold Inv, LA, LA3, LC, LCE in *; lia |].
    intros sz Hs. specialize (D1 sz Hs). unfold LA, LA3 in *. lia.
  - intros h s HI W HB. destruct (leaf2_r ld L h s HI W HB) as [r [s' [E [NP [B1 [P1 C1]]]]]].
    exists r, s'. split; [exact E|]. split; [exact NP|]. split; [exact B1|]. split; [exact P1|].
    split; [unfold LA, LA3, LC, LCE in *; lia | intros; unfold LA, LA3 in *; lia].
Qed.

Lemma body_len s : Inv (sr s) -> Z.of_N (lenN (skipn (Z.to_nat (rpos (sr s))) (rbuf (sr s)))) = rem s.
Proof. intros HI. unfold Inv, rem, rlen, zlen, lenN in *. rewrite skipn_length. lia. Qed.

Lemma tblx_sr_ok t h s : unguarded t = true -> Inv (sr s) ->
  exists r s', tblx_sr t h s = (r, s') /\ np r /\ Inv (sr s') /\ rbuf (sr s') = rbuf (sr s) /\
    rpos (sr s) <= rpos (sr s') /\
    T (scost s') <= T (scost s) + LA3 * rem s + LCE /\
    (forall sz, r = Ok sz -> T (scost s') <= T (scost s) + LA3 * (rpos (sr s') - rpos (sr s)) + LC).
Proof.
  intros U HI. unfold tblx_sr. pose proof (body_len s HI) as Lb.
  set (body := skipn (Z.to_nat (rpos (sr s))) (rbuf (sr s))) in *.
  destruct (run_x_ok t body U) as (o & e & sz & -> & Hp & Hok & Hany).
  destruct (o_ok o) eqn:Eo.
  - specialize (Hok eq_refl). eexists _, _. split; [reflexivity|]. cbn [np sr scost rbuf rpos rerr]. rewrite T_charge.
    unfold rem in *. unfold Inv, rlen, LA3, LC, LCE, XE in *. cbn [rbuf rpos].
    repeat split; try lia; intros; lia.
  - eexists _, _. split; [reflexivity|]. cbn [np sr scost]. rewrite T_charge.
    unfold rem in *. unfold Inv, rlen, LA3, LC, LCE, XE in *.
    repeat split; try lia; intros; discriminate.
Qed.

Lemma tblx_r_ok t h s : unguarded t = true -> (ipos s <= lenN (ibuf s))%N -> hdr_wf h -> Z.of_N (lenN (ibuf s)) < BIG ->
  exists r s', tblx_r t h s = (r, s') /\ np r /\ ibuf s' = ibuf s /\
    (ipos s <= ipos s' <= lenN (ibuf s))%N /\
    T (icost s') <= T (icost s) + LA3 * (Z.of_N (ipos s') - Z.of_N (ipos s)) + LCE /\
    (forall sz, r = Ok sz -> T (icost s') <= T (icost s) + LA3 * (Z.of_N (ipos s') - Z.of_N (ipos s)) + LC).
Proof.
  intros U HI W HB. unfold tblx_r, read_box_body.
  destruct (hlen h =? hsize h)%N eqn:E0.
  { destruct (run_x_ok t [] U) as (o & e & sz & -> & Hp & Hok & Hany). rewrite lenN_nil in *.
    destruct (o_ok o) eqn:Eo; eexists _, _; (split; [reflexivity|]); cbn [np icharge ibuf ipos icost];
      rewrite T_charge; unfold LA3, LC, LCE, XE in *; repeat split; try lia; try (intros; discriminate).
    all: try (intros; specialize (Hok eq_refl); lia). }
  unfold read_limited.
  destruct (int_of_u64 (subu64 (hsize h) (hlen h)) <=? 0) eqn:En.
  { destruct (zlen (@nil N) =? int_of_u64 (subu64 (hsize h) (hlen h))) eqn:Ez.
    - destruct (run_x_ok t [] U) as (o & e & sz & -> & Hp & Hok & Hany). rewrite lenN_nil in *.
      destruct (o_ok o) eqn:Eo; eexists _, _; (split; [reflexivity|]); cbn [np icharge ibuf ipos icost];
        rewrite T_charge; unfold LA3, LC, LCE, XE in *; repeat split; try lia; try (intros; discriminate).
      all: try (intros; specialize (Hok eq_refl); lia).
    - eexists _, _. split; [reflexivity|]. cbn [np]. unfold LA3, LC, LCE. repeat split; try lia; intros; discriminate. }
  set (k := N.min (Z.to_N (int_of_u64 (subu64 (hsize h) (hlen h)))) (iavail s)).
  assert (Hk : (k <= lenN (ibuf s) - ipos s)%N) by (subst k; unfold iavail; lia).
  set (body := firstn (N.to_nat k) (skipn (N.to_nat (ipos s)) (ibuf s))).
  assert (Lb : lenN body = k).
  { subst body. unfold lenN. rewrite firstn_length, skipn_length. unfold lenN in *. lia. }
  destruct (zlen body =? int_of_u64 (subu64 (hsize h) (hlen h))) eqn:Ez.
  - destruct (run_x_ok t body U) as (o & e & sz & -> & Hp & Hok & Hany). rewrite Lb in *.
    destruct (o_ok o) eqn:Eo; eexists _, _; (split; [reflexivity|]); cbn [np icharge ibuf ipos icost];
      rewrite T_charge, T_alloc; unfold LA3, LC, LCE, XE in *; repeat split; try lia; try (intros; discriminate).
    all: try (intros; specialize (Hok eq_refl); lia).
  - eexists _, _. split; [reflexivity|]. cbn [np ibuf ipos icost]. rewrite T_alloc. unfold LA3, LC, LCE. repeat split; try lia; intros; discriminate.
Qed.

Lemma tblx_of_unguarded nm t : tblx_of nm = Some t -> unguarded t = true.
Proof.
  unfold tblx_of. destruct (tbox_of nm) as [t'|]; [|discriminate].
  destruct (unguarded t') eqn:G; [|discriminate]. intros H. inversion H; subst. exact G.
Qed.

(* every leaf decoder under the old contract, extended with the 14 guarded and the 3 unguarded table leaves *)
Theorem mixx_leaves_ok3 : forall other, leaf_ok other -> leaf_ok3 (mixx_leaves other).
Proof.
  intros other LD. pose proof (leaf_ok2_ok3 _ (mix_leaves_ok2 other LD)) as L3. constructor.
  - intros h s HI HP. cbn [ld_sr mixx_leaves].
    pose proof (leaf3_sr _ L3 h s HI HP) as H. cbn [ld_sr mix_leaves] in H.
    destruct (tbl_of (hname h)) as [t|] eqn:Et; [exact H|].
    destruct (tblx_of (hname h)) as [t|] eqn:Ex; [|exact H].
    apply tblx_sr_ok; [eapply tblx_of_unguarded; eauto | exact HI].
  - intros h s HI W HB. cbn [ld_r mixx_leaves].
    pose proof (leaf3_r _ L3 h s HI W HB) as H. cbn [ld_r mix_leaves] in H.
    destruct (tbl_of (hname h)) as [t|] eqn:Et; [exact H|].
    destruct (tblx_of (hname h)) as [t|] eqn:Ex; [|exact H].
    apply tblx_r_ok; auto. eapply tblx_of_unguarded; eauto.
Qed.

(* ---------------------------------------------------------------- SR path *)
Section SR3.
Variable ld : leafdec.
Hypothesis LD : leaf_ok3 ld.

Definition box_post3 (s : sst) (r : res tree) (s' : sst) : Prop :=
  Inv (sr s') /\ rbuf (sr s') = rbuf (sr s) /\ rpos (sr s) <= rpos (sr s') /\
  T (scost s') <= T (scost s) + K2 * rem s + EB3 /\
  (forall t, r = Ok t -> rpos (sr s) + 8 <= rpos (sr s') /\
                         T (scost s') <= T (scost s) + K2 * (rpos (sr s') - rpos (sr s)) - 2).
Definition kids_post3 (s : sst) (r : res (list tree)) (s' : sst) : Prop :=
  Inv (sr s') /\ rbuf (sr s') = rbuf (sr s) /\ rpos (sr s) <= rpos (sr s') /\
  T (scost s') <= T (scost s) + K2 * rem s + EK3 /\
  (forall l, r = Ok l -> T (scost s') <= T (scost s) + K2 * (rpos (sr s') - rpos (sr s)) + 3).

Ltac lens := repeat match goal with
  | H : rbuf (sr ?a) = rbuf (sr ?b) |- _ =>
      lazymatch goal with
      | _ : zlen (rbuf (sr a)) = zlen (rbuf (sr b)) |- _ => fail
      | _ => assert (zlen (rbuf (sr a)) = zlen (rbuf (sr b))) by (rewrite H; reflexivity)
      end
  end.

Ltac fin3 := repeat match goal with x := _ |- _ => subst x end;
  unfold box_post3, kids_post3, rem, K2, EB3, EK3, LA3, LC, LCE in *; cbn [scharge sr scost] in *; lens;
  unfold Inv, rlen, err_msg_ticks in *; rewrite ?T_tick in *;
  repeat split; try congruence; try lia; try (intros; discriminate).

Lemma sr_loops3 : forall fuel,
  (forall sp s, Inv (sr s) -> rlen (sr s) < BIG ->
     exists r s', dec_box_sr ld fuel sp s = (r, s') /\ r <> Panic /\ (rem s < Z.of_nat fuel -> r <> OutOfFuel) /\
                  box_post3 s r s') /\
  (forall sp pos endPos initPos acc s, Inv (sr s) -> rlen (sr s) < BIG ->
     exists r s', children_sr ld fuel sp pos endPos initPos acc s = (r, s') /\ r <> Panic /\
                  (rem s + 1 < Z.of_nat fuel -> r <> OutOfFuel) /\ kids_post3 s r s').
Proof.
  induction fuel as [|f [IHb IHk]].
  { split; intros.
    - eexists _, _. split; [reflexivity|]. split; [discriminate|].
      split; [intros Hf; exfalso; unfold rem, Inv in *; lia|]. fin3.
    - eexists _, _. split; [reflexivity|]. split; [discriminate|].
      split; [intros Hf; exfalso; unfold rem, Inv in *; lia|]. fin3. }
  split.
  - (* dec_box_sr *)
    intros sp s0 HI HB. cbn [dec_box_sr]. fold (children_sr ld).
    set (s := scharge (tick 1) s0).
    assert (HIs : Inv (sr s)) by exact HI.
    destruct (decode_header_sr_spec s HIs) as [rh [s1 [Eh [NPh [I1 [B1 [P1 [C1 Q1]]]]]]]]. rewrite Eh.
    assert (TC1 : T (scost s1) = T (scost s0) + 1) by (rewrite C1; subst s; cbn [scharge scost]; rewrite T_tick; lia).
    change (sr s) with (sr s0) in *. clear C1 Eh.
    assert (HB1 : rlen (sr s1) < BIG) by (unfold rlen in *; rewrite B1; exact HB).
    destruct rh as [h| | |]; try contradiction.
    2:{ eexists _, _. split; [reflexivity|]. split; [discriminate|]. split; [discriminate|]. fin3. }
    destruct (Q1 h eq_refl) as [Q1a [Q1b Q1c]]. clear Q1.
    destruct ((addu64 (u64z (nr_remaining (sr s1))) (hlen h) <? hsize h)%N && negb (eqb_name (hname h) name_mdat)) eqn:EM.
    { eexists _, _. split; [reflexivity|]. split; [discriminate|]. split; [discriminate|]. fin3. }
    pose proof (maxsize_pre h s1 I1 Q1b Q1c EM) as PRE. clear EM.
    destruct (ld_kind ld (hname h)).
    + (* leaf *)
      destruct (leaf3_sr ld LD h s1 I1 (conj Q1c (conj Q1b (conj HB1 PRE)))) as [rl [s2 [El [NPl [I2 [B2 [P2 [C2 D2]]]]]]]].
      rewrite El. clear PRE.
      destruct rl as [sz| | |]; try contradiction.
      * specialize (D2 sz eq_refl).
        eexists _, _. split; [reflexivity|]. split; [discriminate|]. split; [discriminate|]. fin3.
      * eexists _, _. split; [reflexivity|]. split; [discriminate|]. split; [discriminate|]. fin3.
    + (* generic container *)
      clear PRE.
      set (s1' := scharge (allocn 8) s1).
      assert (T1 : T (scost s1') = T (scost s0) + 9) by (subst s1'; cbn [scharge scost]; rewrite T_alloc; lia).
      assert (I1' : Inv (sr s1')) by exact I1.
      assert (HB1' : rlen (sr s1') < BIG) by exact HB1.
      destruct (IHk (addu64 sp 8) (addu64 sp 8) (addu64 sp (hsize h)) (rpos (sr s1)) [] s1' I1' HB1')
        as [rk [s2 [Ek [NPk [Fk [I2 [B2 [P2 [C2 Q2]]]]]]]]]. rewrite Ek.
      assert (HF : rem s0 < Z.of_nat (S f) -> rem s1' + 1 < Z.of_nat f).
      { unfold rem, rlen. change (sr s1') with (sr s1). rewrite B1. lia. }
      assert (R1 : rem s1' = rlen (sr s0) - rpos (sr s1)) by (unfold rem, rlen; change (sr s1') with (sr s1); rewrite B1; reflexivity).
      change (sr s1') with (sr s1) in *.
      destruct rk as [kids| | |]; try contradiction.
      * specialize (Q2 kids eq_refl).
        eexists _, _. split; [reflexivity|]. split; [discriminate|]. split; [discriminate|]. fin3.
      * eexists _, _. split; [reflexivity|]. split; [discriminate|]. split; [discriminate|]. fin3.
      * eexists _, _. split; [reflexivity|]. split; [discriminate|].
        split; [intros Hf; exfalso; apply (Fk (HF Hf)); reflexivity|]. fin3.
    + (* moov / moof *)
      clear PRE.
      set (s1' := scharge (allocn 8) s1).
      assert (T1 : T (scost s1') = T (scost s0) + 9) by (subst s1'; cbn [scharge scost]; rewrite T_alloc; lia).
      assert (I1' : Inv (sr s1')) by exact I1.
      assert (HB1' : rlen (sr s1') < BIG) by exact HB1.
      destruct (IHk (addu64 sp 8) (addu64 sp 8) (addu64 sp (hsize h)) (rpos (sr s1)) [] s1' I1' HB1')
        as [rk [s2 [Ek [NPk [Fk [I2 [B2 [P2 [C2 Q2]]]]]]]]]. rewrite Ek.
      assert (HF : rem s0 < Z.of_nat (S f) -> rem s1' + 1 < Z.of_nat f).
      { unfold rem, rlen. change (sr s1') with (sr s1). rewrite B1. lia. }
      assert (R1 : rem s1' = rlen (sr s0) - rpos (sr s1)) by (unfold rem, rlen; change (sr s1') with (sr s1); rewrite B1; reflexivity).
      change (sr s1') with (sr s1) in *.
      destruct rk as [kids| | |]; try contradiction.
      * specialize (Q2 kids eq_refl). destruct (accerr && rerr (sr s2)).
        -- eexists _, _. split; [reflexivity|]. split; [discriminate|]. split; [discriminate|]. fin3.
        -- eexists _, _. split; [reflexivity|]. split; [discriminate|]. split; [discriminate|]. fin3.
      * eexists _, _. split; [reflexivity|]. split; [discriminate|]. split; [discriminate|]. fin3.
      * eexists _, _. split; [reflexivity|]. split; [discriminate|].
        split; [intros Hf; exfalso; apply (Fk (HF Hf)); reflexivity|]. fin3.
  - (* children_sr *)
    intros sp pos endPos initPos acc s HI HB. cbn [children_sr]. fold (dec_box_sr ld). fold (children_sr ld).
    destruct (endPos <? pos)%N.
    { eexists _, _. split; [reflexivity|]. split; [discriminate|]. split; [discriminate|]. fin3. }
    destruct (pos =? endPos)%N.
    { eexists _, _. split; [reflexivity|]. split; [discriminate|]. split; [discriminate|]. fin3. }
    set (s0 := scharge (tick 1) s).
    assert (T0 : T (scost s0) = T (scost s) + 1) by (subst s0; cbn [scharge scost]; rewrite T_tick; lia).
    assert (R0 : rem s0 = rem s) by reflexivity.
    assert (HI0 : Inv (sr s0)) by exact HI.
    assert (HB0 : rlen (sr s0) < BIG) by exact HB.
    destruct (IHb pos s0 HI0 HB0) as [rb [s1 [Eb [NPb [Fb [I1 [B1 [P1 [C1 Q1]]]]]]]]]. rewrite Eb.
    change (sr s0) with (sr s) in *.
    destruct rb as [child| | |]; try contradiction.
    + destruct (Q1 child eq_refl) as [Q1a Q1b]. clear Q1.
      set (s2 := scharge (allocn 1) s1).
      assert (T2 : T (scost s2) = T (scost s1) + 1) by (subst s2; cbn [scharge scost]; rewrite T_alloc; lia).
      assert (I2' : Inv (sr s2)) by exact I1.
      assert (HB2 : rlen (sr s2) < BIG) by (change (sr s2) with (sr s1); unfold rlen in *; rewrite B1; exact HB).
      assert (L1 : rlen (sr s1) = rlen (sr s)) by (unfold rlen; rewrite B1; reflexivity).
      destruct (int_of_u64 (subu64 (addu64 pos (tsize child)) sp) =? rpos (sr s2) - initPos).
      * destruct (IHk sp (addu64 pos (tsize child)) endPos initPos (child :: acc) s2 I2' HB2)
          as [rk [s3 [Ek [NPk [Fk [I3 [B3 [P3 [C3 Q3]]]]]]]]]. rewrite Ek.
        assert (R2 : rem s2 + 8 <= rem s) by (unfold rem, rlen; change (sr s2) with (sr s1); rewrite B1; lia).
        assert (R2' : rem s2 = rlen (sr s) - rpos (sr s1)) by (unfold rem; change (sr s2) with (sr s1); lia).
        change (sr s2) with (sr s1) in *.
        eexists _, _. split; [reflexivity|]. split; [assumption|].
        split; [intros Hf; apply Fk; lia|].
        unfold kids_post3, K2, EK3 in *. unfold rem in *.
        split; [exact I3|]. split; [congruence|]. split; [lia|]. split; [lia|].
        intros l Hl. specialize (Q3 l Hl). lia.
      * eexists _, _. split; [reflexivity|]. split; [discriminate|]. split; [discriminate|].
        fin3.
    + eexists _, _. split; [reflexivity|]. split; [discriminate|]. split; [discriminate|]. fin3.
    + eexists _, _. split; [reflexivity|]. split; [discriminate|].
      split; [intros Hf; exfalso; apply Fb; [lia|reflexivity]|]. fin3.
Qed.

End SR3.

(* ---------------------------------------------------------------- io.Reader path *)
Section RD3.
Variable ld : leafdec.
Hypothesis LD : leaf_ok3 ld.

Definition KR3 : Z := 2601.
Definition ER3 : Z := 1200071.
Definition ERK3 : Z := 1200094.
Definition rbox_post3 (s : ist) (r : res bout) (s' : ist) : Prop :=
  ibuf s' = ibuf s /\ ip s <= ip s' <= il s /\
  T (icost s') <= T (icost s) + KR3 * (ip s' - ip s) + ER3 /\
  (forall t, r = Ok (BBox t) -> ip s + 8 <= ip s' /\ T (icost s') <= T (icost s) + KR3 * (ip s' - ip s) - 2) /\
  (r = Ok BEof -> T (icost s') <= T (icost s) + 17).
Definition rkids_post3 (s : ist) (r : res (list tree)) (s' : ist) : Prop :=
  ibuf s' = ibuf s /\ ip s <= ip s' <= il s /\
  T (icost s') <= T (icost s) + KR3 * (ip s' - ip s) + ERK3 /\
  (forall l, r = Ok l -> T (icost s') <= T (icost s) + KR3 * (ip s' - ip s) + 18).

Ltac rfin3 := repeat match goal with x := _ |- _ => subst x end;
  unfold rbox_post3, rkids_post3, KR3, ER3, ERK3, LA3, LC, LCE, IInv, irem, err_msg_ticks, ip, il in *;
  cbn [icharge ibuf ipos icost] in *; rewrite ?T_tick in *;
  repeat split; try congruence; try lia; try (intros; discriminate).

Lemma r_loops3 : forall fuel,
  (forall sp s, IInv s -> il s < BIG ->
     exists r s', dec_box_r ld fuel sp s = (r, s') /\ r <> Panic /\ (irem s < Z.of_nat fuel -> r <> OutOfFuel) /\
                  rbox_post3 s r s') /\
  (forall pos endPos acc s, IInv s -> il s < BIG ->
     exists r s', children_r ld fuel pos endPos acc s = (r, s') /\ r <> Panic /\
                  (irem s + 1 < Z.of_nat fuel -> r <> OutOfFuel) /\ rkids_post3 s r s').
Proof.
  induction fuel as [|f [IHb IHk]].
  { split; intros.
    - eexists _, _. split; [reflexivity|]. split; [discriminate|].
      split; [intros Hf; exfalso; unfold irem, IInv in *; lia|]. rfin3.
    - eexists _, _. split; [reflexivity|]. split; [discriminate|].
      split; [intros Hf; exfalso; unfold irem, IInv in *; lia|]. rfin3. }
  split.
  - intros sp s0 HI HB. cbn [dec_box_r]. fold (children_r ld).
    set (s := icharge (tick 1) s0).
    assert (HIs : IInv s) by exact HI.
    assert (Ts : T (icost s) = T (icost s0) + 1) by (subst s; cbn [icharge icost]; rewrite T_tick; lia).
    destruct (decode_header_spec s HIs) as [rh [s1 [Eh [NPh [B1 [P1 [C1 Q1]]]]]]]. rewrite Eh.
    change (ip s) with (ip s0) in *. change (il s) with (il s0) in *. change (ibuf s) with (ibuf s0) in *.
    assert (L1 : il s1 = il s0) by (unfold il; rewrite B1; reflexivity).
    assert (HI1 : IInv s1) by (unfold IInv in *; lia).
    destruct rh as [[|h]| | |]; try contradiction.
    { eexists _, _. split; [reflexivity|]. split; [discriminate|]. split; [discriminate|]. clear Eh. rfin3. }
    2:{ eexists _, _. split; [reflexivity|]. split; [discriminate|]. split; [discriminate|]. clear Eh. rfin3. }
    destruct (Q1 h eq_refl) as [Q1a Q1b]. clear Q1 Eh.
    destruct (ld_kind ld (hname h)).
    + destruct (leaf3_r ld LD h s1) as [rl [s2 [El [NPl [B2 [P2 [C2 D2]]]]]]];
        [unfold IInv, ip, il in *; lia|exact Q1b|unfold il in *; lia|]. rewrite El.
      assert (P2' : ip s1 <= ip s2 <= il s1) by (unfold ip, il; lia).
      assert (C2' : T (icost s2) <= T (icost s1) + LA3 * (ip s2 - ip s1) + LCE) by (unfold ip; lia).
      clear P2 C2 El.
      destruct rl as [sz| | |]; try contradiction.
      * assert (D2' : T (icost s2) <= T (icost s1) + LA3 * (ip s2 - ip s1) + LC) by (specialize (D2 sz eq_refl); unfold ip; lia).
        clear D2.
        eexists _, _. split; [reflexivity|]. split; [discriminate|]. split; [discriminate|]. rfin3.
      * eexists _, _. split; [reflexivity|]. split; [discriminate|]. split; [discriminate|]. rfin3.
    + set (s1' := icharge (allocn 8) s1).
      assert (T1 : T (icost s1') = T (icost s1) + 8) by (subst s1'; cbn [icharge icost]; rewrite T_alloc; lia).
      assert (HI1' : IInv s1') by exact HI1.
      assert (HB1' : il s1' < BIG) by (change (il s1') with (il s1); lia).
      destruct (IHk (addu64 sp 8) (addu64 sp (hsize h)) [] s1' HI1' HB1') as [rk [s2 [Ek [NPk [Fk [B2 [P2 [C2 Q2]]]]]]]]. rewrite Ek.
      change (ip s1') with (ip s1) in *. change (il s1') with (il s1) in *. change (ibuf s1') with (ibuf s1) in *.
      assert (HF : irem s0 < Z.of_nat (S f) -> irem s1' + 1 < Z.of_nat f).
      { unfold irem. change (ip s1') with (ip s1). change (il s1') with (il s1). lia. }
      clear Ek.
      destruct rk; try contradiction.
      * specialize (Q2 _ eq_refl).
        eexists _, _. split; [reflexivity|]. split; [discriminate|]. split; [discriminate|]. rfin3.
      * eexists _, _. split; [reflexivity|]. split; [discriminate|]. split; [discriminate|]. rfin3.
      * eexists _, _. split; [reflexivity|]. split; [discriminate|].
        split; [intros Hf; exfalso; apply (Fk (HF Hf)); reflexivity|]. rfin3.
    + destruct (read_limited_spec (payload_len h) s1 HI1) as [data [s2 [El [B2 [P2 [L2 C2]]]]]]. rewrite El.
      destruct (negb (zlen data =? payload_len h)).
      { eexists _, _. split; [reflexivity|]. split; [discriminate|]. split; [discriminate|]. clear El. rfin3. }
      set (ss := mkS (rnew data) (allocn 8 (icost s2))).
      assert (HIss : Inv (sr ss)).
      { unfold Inv, rlen. change (rbuf (sr ss)) with data. change (rpos (sr ss)) with 0.
        assert (0 <= zlen data) by (unfold zlen; lia). unfold IInv, ip, il in *. lia. }
      assert (HBss : rlen (sr ss) < BIG).
      { unfold rlen. change (rbuf (sr ss)) with data. unfold ip, il in *. lia. }
      destruct (sr_loops3 ld LD f) as [_ SK].
      destruct (SK (addu64 sp 8) (addu64 sp 8) (addu64 sp (hsize h)) 0 [] ss HIss HBss)
        as [rk [ss' [Ek [NPk [Fk [I3 [B3 [P3 [C3 Q3]]]]]]]]]. rewrite Ek.
      assert (Tss : T (scost ss) = T (icost s2) + 8) by (subst ss; cbn [scost]; rewrite T_alloc; lia).
      assert (Rss : rpos (sr ss') <= zlen data).
      { unfold Inv, rlen in I3. rewrite B3 in I3. change (rbuf (sr ss)) with data in I3. lia. }
      assert (R0 : rpos (sr ss) = 0) by reflexivity.
      assert (Rm : rem ss = zlen data) by (unfold rem, rlen; change (rbuf (sr ss)) with data; change (rpos (sr ss)) with 0; lia).
      assert (HF : irem s0 < Z.of_nat (S f) -> rem ss + 1 < Z.of_nat f).
      { unfold irem, rem, rlen. change (rbuf (sr ss)) with data. change (rpos (sr ss)) with 0. unfold IInv, ip, il in *. lia. }
      clear Ek El.
      destruct rk as [kids| | |]; try contradiction.
      * specialize (Q3 kids eq_refl).
        eexists _, _. split; [reflexivity|]. split; [discriminate|]. split; [discriminate|].
        unfold rbox_post3, KR3, ER3, K2, EK3, ip, il in *. cbn [ibuf ipos icost]. repeat split; try congruence; try lia.
      * eexists _, _. split; [reflexivity|]. split; [discriminate|]. split; [discriminate|].
        unfold rbox_post3, KR3, ER3, K2, EK3, ip, il in *. cbn [ibuf ipos icost]. repeat split; try congruence; try lia; intros; discriminate.
      * eexists _, _. split; [reflexivity|]. split; [discriminate|].
        split; [intros Hf; exfalso; apply (Fk (HF Hf)); reflexivity|].
        unfold rbox_post3, KR3, ER3, K2, EK3, ip, il in *. cbn [ibuf ipos icost]. repeat split; try congruence; try lia; intros; discriminate.
  - intros pos endPos acc s HI HB. cbn [children_r]. fold (dec_box_r ld). fold (children_r ld).
    destruct (pos =? endPos)%N.
    { eexists _, _. split; [reflexivity|]. split; [discriminate|]. split; [discriminate|]. rfin3. }
    destruct (endPos <? pos)%N.
    { eexists _, _. split; [reflexivity|]. split; [discriminate|]. split; [discriminate|]. rfin3. }
    set (s0 := icharge (tick 1) s).
    assert (T0 : T (icost s0) = T (icost s) + 1) by (subst s0; cbn [icharge icost]; rewrite T_tick; lia).
    assert (HI0 : IInv s0) by exact HI.
    assert (HB0 : il s0 < BIG) by exact HB.
    destruct (IHb pos s0 HI0 HB0) as [rb [s1 [Eb [NPb [Fb [B1 [P1 [C1 [Q1 QE]]]]]]]]]. rewrite Eb.
    change (ip s0) with (ip s) in *. change (il s0) with (il s) in *. change (ibuf s0) with (ibuf s) in *.
    assert (R0 : irem s0 = irem s) by reflexivity.
    assert (L1 : il s1 = il s) by (unfold il; rewrite B1; reflexivity).
    clear Eb.
    destruct rb as [[|child]| | |]; try contradiction.
    + specialize (QE eq_refl). eexists _, _. split; [reflexivity|]. split; [discriminate|]. split; [discriminate|]. rfin3.
    + destruct (Q1 child eq_refl) as [Q1a Q1b]. clear Q1.
      set (s2 := icharge (allocn 1) s1).
      assert (T2 : T (icost s2) = T (icost s1) + 1) by (subst s2; cbn [icharge icost]; rewrite T_alloc; lia).
      assert (HI2 : IInv s2) by (unfold IInv in *; change (ip s2) with (ip s1); change (il s2) with (il s1); lia).
      assert (HB2 : il s2 < BIG) by (change (il s2) with (il s1); lia).
      destruct (IHk (addu64 pos (tsize child)) endPos (child :: acc) s2 HI2 HB2) as [rk [s3 [Ek [NPk [Fk [B3 [P3 [C3 Q3]]]]]]]]. rewrite Ek.
      change (ip s2) with (ip s1) in *. change (il s2) with (il s1) in *. change (ibuf s2) with (ibuf s1) in *.
      assert (R2 : irem s2 + 8 <= irem s) by (unfold irem; change (ip s2) with (ip s1); change (il s2) with (il s1); lia).
      clear Ek.
      eexists _, _. split; [reflexivity|]. split; [assumption|].
      split; [intros Hf; apply Fk; lia|].
      unfold rkids_post3, KR3, ERK3 in *. repeat split; try congruence; try lia;
        try (intros l Hl; specialize (Q3 l Hl); lia).
    + eexists _, _. split; [reflexivity|]. split; [discriminate|]. split; [discriminate|]. rfin3.
    + eexists _, _. split; [reflexivity|]. split; [discriminate|].
      split; [intros Hf; exfalso; apply Fb; [lia|reflexivity]|]. rfin3.
Qed.

End RD3.

(* ---------------------------------------------------------------- top-level statements *)

Theorem treex_total_sr : forall ld, leaf_ok3 ld -> forall bs, small32 bs = true ->
  exists r s', box_sr ld bs = (r, s') /\ (r = Err \/ exists t, r = Ok t) /\
               (tot (scost s') <= 2600 * lenN bs + 1200040)%N.
Proof.
  intros ld LD bs Hs. unfold box_sr, small32 in *.
  destruct (sr_loops3 ld LD (S (length bs))) as [HB _].
  assert (HI : Inv (sr (snew bs))) by abstract (unfold Inv, rlen, BIG, two63 in *; cbn; unfold zlen in *; lia).
  assert (HS : rlen (sr (snew bs)) < BIG) by abstract (unfold rlen; cbn; lia).
  destruct (HB 0%N (snew bs) HI HS) as [r [s' [E [NP [NF [I1 [B1 [P1 [C1 Q1]]]]]]]]].
  exists r, s'. split; [exact E|].
  assert (NF' : r <> OutOfFuel) by abstract (apply NF; unfold rem, rlen; cbn; unfold zlen; lia).
  clear HB NF Q1 E.
  split; [destruct r; [right; eauto|left; reflexivity|contradiction|contradiction]|].
  unfold rem, rlen, K2, EB3 in C1. cbn [snew sr rnew rbuf rpos scost] in C1.
  unfold T, tot in C1. cbn [cost0 ticks alloc] in C1. unfold zlen in C1. unfold tot, lenN. lia.
Qed.

Theorem treex_total_r : forall ld, leaf_ok3 ld -> forall bs, small32 bs = true ->
  exists r s', box_r ld bs = (r, s') /\ (r = Err \/ r = Ok BEof \/ exists t, r = Ok (BBox t)) /\
               (tot (icost s') <= 2601 * lenN bs + 1200071)%N.
Proof.
  intros ld LD bs Hs. unfold box_r, small32 in *.
  destruct (r_loops3 ld LD (S (length bs))) as [HB _].
  assert (HI : IInv (inew bs)) by abstract (unfold IInv, ip, il, BIG, two63 in *; cbn; unfold zlen, lenN in *; lia).
  assert (HS : il (inew bs) < BIG) by abstract (unfold il; cbn; unfold zlen, lenN in *; lia).
  destruct (HB 0%N (inew bs) HI HS) as [r [s' [E [NP [NF [B1 [P1 [C1 Q1]]]]]]]].
  exists r, s'. split; [exact E|].
  assert (NF' : r <> OutOfFuel) by abstract (apply NF; unfold irem, ip, il; cbn; unfold lenN; lia).
  clear HB NF Q1 E.
  split; [destruct r as [[|t]| | |]; [right; left; reflexivity|right; right; eauto|left; reflexivity|contradiction|contradiction]|].
  unfold KR3, ER3, ip, il, T, tot in C1, P1. cbn [inew ibuf ipos icost cost0 ticks alloc] in C1, P1. unfold tot, lenN in *. lia.
Qed.


(* the property's allocation clause over trees with sidx, subs and pssh as leaves: every byte string below 32 GiB, any
   leaf decoder under the old contract for the types that are not table boxes *)
Theorem treex_alloc : forall other, leaf_ok other -> forall bs, small32 bs = true ->
  (exists r s', box_sr (mixx_leaves other) bs = (r, s') /\ (r = Err \/ exists t, r = Ok t) /\
                (alloc (scost s') <= 2600 * lenN bs + 1200040)%N /\ (ticks (scost s') <= 2600 * lenN bs + 1200040)%N) /\
  (exists r s', box_r (mixx_leaves other) bs = (r, s') /\ (r = Err \/ r = Ok BEof \/ exists t, r = Ok (BBox t)) /\
                (alloc (icost s') <= 2601 * lenN bs + 1200071)%N /\ (ticks (icost s') <= 2601 * lenN bs + 1200071)%N).
Proof.
  intros other LD bs Hs. pose proof (mixx_leaves_ok3 other LD) as L3. split.
  - destruct (treex_total_sr _ L3 bs Hs) as [r [s' [E [R C]]]]. exists r, s'. unfold tot in C. repeat split; auto; lia.
  - destruct (treex_total_r _ L3 bs Hs) as [r [s' [E [R C]]]]. exists r, s'. unfold tot in C. repeat split; auto; lia.
Qed.
