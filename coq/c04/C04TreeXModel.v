(* C04TreeXModel.v — sidx, subs and pssh as LEAVES of the box-tree decoders (DEFINITIONS ONLY).

   These three decoders have no size guard: on the SliceReader path their reads go to the shared reader and
   are not confined to the box, so the position they leave it at and the Size() of the box they return are
   functions of the CONTENT (reference_count / entry and sub-sample counts / KID count and data length), not
   of the header.  The *_run functions are the prologue models of C04AllocModel with the final reader
   state and the Size() of the returned box kept:
     sidx : Size() = 32 (version 0) / 40 + 12 * len(SidxRefs)
     subs : Size() = 16 + sum over entries of 6 + len(SubSamples) * (10 if version 1 else 8)
     pssh : Size() = 32 + len(Data) (+ 4 + 16 * len(KIDs) if version > 0)
   An accepted box leaves the reader after the last byte it read (no sticky error); DecodeContainerChildrenSR
   then compares that position with the sum of the Size()s (C04Model.children_sr), the file loop does not.
   On the io.Reader path readBoxBody hands the decoder exactly the payload. *)
From V.lib Require Import Base.
From V.c04 Require Import C04Model C04AllocModel C04TreeModel.
Open Scope N_scope.

Definition sidx_run (body : list N) : aout * rd * N :=
  let '(vf, s) := rd_n body 4 rd0 in
  let v := version_of vf in
  let s := rd_skip body 4 (rd_skip body 4 s) in
  let s := if v =? 0 then rd_skip body 4 (rd_skip body 4 s) else rd_skip body 8 (rd_skip body 8 s) in
  let s := rd_skip body 2 s in
  let '(cnt, s) := rd_n body 2 s in
  let s := rd_loop body cnt 12 s in
  (mkO (negb (r_err s)) cnt (16 * cnt) cnt, s, (if v =? 0 then 32 else 40) + 12 * cnt).

Definition pssh_run (body : list N) : aout * rd * N :=
  let '(vf, s) := rd_n body 4 rd0 in
  let v := version_of vf in
  let s := rd_skip body 16 s in
  if 0 <? v then
    let '(cnt, s) := rd_n body 4 s in
    let '(it, s) := rd_loop_x body cnt 16 s in
    if r_err s then (mkO false 0 (40 * it) it, s, 0)
    else
      let '(dl, s) := rd_n body 4 s in
      let s := if 0 <? dl then rd_skip body dl s else s in
      (mkO (negb (r_err s)) cnt (40 * it) it, s, 36 + 16 * cnt + dl)
  else
    let '(dl, s) := rd_n body 4 s in
    let s := if 0 <? dl then rd_skip body dl s else s in
    (mkO (negb (r_err s)) 0 0 0, s, 32 + dl).

(* C04AllocModel.subs_loop with the reader state and the size of the entries kept *)
Fixpoint subs_run (body : list N) (fuel : nat) (esz cnt i : N) (s : rd) (al it sz : N)
  : res (bool * N * N * N * rd * N) :=
  match fuel with
  | O => OutOfFuel
  | S f =>
    if cnt <=? i then Ok (true, i, al, it, s, sz)
    else
      let '(_, s) := rd_n body 4 s in
      let '(ssc, s) := rd_n body 2 s in
      let s := rd_loop body ssc esz s in
      if r_err s then Ok (false, i, al + 12 * ssc, it + 1 + ssc, s, sz)
      else subs_run body f esz cnt (i + 1) s (al + 12 * ssc + 32) (it + 1 + ssc) (sz + 6 + ssc * esz)
  end.

Definition subs_total (body : list N) : res (aout * rd * N) :=
  let '(vf, s) := rd_n body 4 rd0 in
  let v := version_of vf in
  let '(cnt, s) := rd_n body 4 s in
  match subs_run body (S (length body)) (if v =? 1 then 10 else 8) cnt 0 s 0 0 16 with
  | Ok (ok, n, al, it, s', sz) => Ok (mkO (ok && negb (r_err s)) n al it, s', sz)
  | Err => Err | Panic => Panic | OutOfFuel => OutOfFuel
  end.

Definition unguarded (t : tbox) : bool := match t with TbSidx | TbSubs | TbPssh => true | _ => false end.
Definition tblx_of (nm : list N) : option tbox :=
  match tbox_of nm with Some t => if unguarded t then Some t else None | None => None end.

Definition run_x (t : tbox) (body : list N) : res (aout * rd * N) :=
  match t with
  | TbSidx => Ok (sidx_run body)
  | TbPssh => Ok (pssh_run body)
  | TbSubs => subs_total body
  | _ => Err
  end.

(* SliceReader path: the decoder reads from the shared reader and leaves it where its last read ended *)
Definition tblx_sr (t : tbox) (h : hdr) (s : sst) : res N * sst :=
  let body := skipn (Z.to_nat (rpos (sr s))) (rbuf (sr s)) in
  match run_x t body with
  | Ok (o, e, sz) =>
      let c := charge o (scost s) in
      if o_ok o then (Ok sz, mkS (mkR (rbuf (sr s)) (rpos (sr s) + Z.of_N (r_pos e))%Z (rerr (sr s))) c)
      else (Err, mkS (sr s) c)
  | Err => (Err, s) | Panic => (Panic, s) | OutOfFuel => (OutOfFuel, s)
  end.

(* io.Reader path: readBoxBody, then the decoder on a fresh reader over exactly the payload *)
Definition tblx_r (t : tbox) (h : hdr) (s : ist) : res N * ist :=
  let '(r, s1) := read_box_body h s in
  match r with
  | Ok body =>
      match run_x t body with
      | Ok (o, e, sz) =>
          let s2 := icharge (charge o) s1 in
          if o_ok o then (Ok sz, s2) else (Err, s2)
      | Err => (Err, s1) | Panic => (Panic, s1) | OutOfFuel => (OutOfFuel, s1)
      end
  | Err => (Err, s1) | Panic => (Panic, s1) | OutOfFuel => (OutOfFuel, s1)
  end.

(* the 14 guarded table leaves, the 3 unguarded ones, every other leaf left to `other` *)
Definition mixx_leaves (other : leafdec) : leafdec :=
  mkLD (ld_kind other)
       (fun h s => match tbl_of (hname h) with
                   | Some t => tbl_r t h s
                   | None => match tblx_of (hname h) with Some t => tblx_r t h s | None => ld_r other h s end
                   end)
       (fun h s => match tbl_of (hname h) with
                   | Some t => tbl_sr t h s
                   | None => match tblx_of (hname h) with Some t => tblx_sr t h s | None => ld_sr other h s end
                   end).

Definition tblx_leaves : leafdec := mixx_leaves std_leaves.
