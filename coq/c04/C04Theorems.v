(* C04Theorems.v — the property theorems of C04 and nothing else.
   Models: C04Model.v (FixedSliceReader, box headers, DecodeBox/DecodeBoxSR, both container child loops,
   explicit Panic / cost semantics), C04AsmModel.v (file assembly, File.Encode/EncodeSW, File.Info over
   top-level box shapes; g = true is the repaired text, g = false the pinned text). *)
From V.lib Require Import Base.
From V.c04 Require Import C04Model C04AsmModel C04ReaderProofs C04ContainerProofs C04AsmProofs.
From V.c04 Require Import C04AllocModel C04AllocProofs.
From V.c04 Require Import C04MfraModel C04MfraProofs.
From V.c04 Require Import C04TreeModel C04TreeProofs.
From V.c04 Require Import C04TreeXModel C04TreeXProofs.
From V.c04 Require Import C04XrefModel C04XrefProofs.
From V.c04 Require Import C04InfoModel C04InfoProofs C04InfoSencProofs.
Open Scope N_scope.

(* ---- (a) bits.FixedSliceReader: every method, every reachable state, under the caller guards ---- *)
Theorem C04_reader_safe : forall s o, rinv s = true -> rguard s o = true ->
  exists v s', rstep s o = Ok (v, s') /\ rinv s' = true /\ rbuf s' = rbuf s.
Proof. exact reader_safe. Qed.
Print Assumptions C04_reader_safe.

Theorem C04_reader_history_safe : forall ops s, rinv s = true -> guards_ok s ops = true ->
  exists vs s', run_rops s ops = Ok (vs, s') /\ rinv s' = true /\ rbuf s' = rbuf s.
Proof. exact reader_history_safe. Qed.
Print Assumptions C04_reader_history_safe.

(* without the guards: negative length, unchecked ReadPossiblyZeroTerminatedString, negative LookAhead
   offset panic at once; SkipBytes(negative), SkipBytes(overflowing) and SetPos(negative) leave pos < 0
   and the next read panics *)
Theorem C04_reader_neg_refuted :
  rinv s3 = true /\
  rstep s3 (RFixedStr (-1)) = Panic /\
  rstep s3 (RPZStr 5) = Panic /\
  rstep s3 (RLookAhead (-2) 1) = Panic /\
  (exists s', rstep s3 (RSkip (-2)) = Ok (VUnit, s') /\ rinv s' = false /\ rstep s' RU8 = Panic) /\
  (exists s', rstep s3 (RSkip (two63 - 1)) = Ok (VUnit, s') /\ rinv s' = false /\ rstep s' RU8 = Panic) /\
  (exists s', rstep s3 (RSetPos (-1)) = Ok (VUnit, s') /\ rinv s' = false /\ rstep s' RU8 = Panic).
Proof. exact reader_neg_refuted. Qed.
Print Assumptions C04_reader_neg_refuted.

(* ---- (b) box headers, DecodeBox / DecodeBoxSR and both container child loops, every byte string ---- *)
(* both header decoders never panic on any state of their byte source; the io.Reader one allocates <= 16 *)
Theorem C04_header_total :
  (forall s, IInv s -> exists r s', decode_header s = (r, s') /\ np r /\ T (icost s') <= T (icost s) + 16)%Z /\
  (forall s, Inv (sr s) -> exists r s', decode_header_sr s = (r, s') /\ np r /\ Inv (sr s') /\ scost s' = scost s).
Proof. exact header_total. Qed.
Print Assumptions C04_header_total.

(* SliceReader path: for every leaf decoder satisfying the contract and every byte string (Go slice lengths
   are < 2^63): a tree or an error, never Panic, never out of fuel len+1, ticks + alloc <= 2*len + 29
   (the constant covers the capped children listing of the size-mismatch error) *)
Theorem C04_container_total_sr : forall ld, leaf_ok ld -> forall bs, small bs = true ->
  exists r s', box_sr ld bs = (r, s') /\ (r = Err \/ exists t, r = Ok t) /\
               (tot (scost s') <= 2 * lenN bs + 29)%N.
Proof. exact container_total_sr. Qed.
Print Assumptions C04_container_total_sr.

(* io.Reader path: a tree, io.EOF or an error; ticks + alloc <= 6*len + 29 *)
Theorem C04_container_total_r : forall ld, leaf_ok ld -> forall bs, small bs = true ->
  exists r s', box_r ld bs = (r, s') /\ (r = Err \/ r = Ok BEof \/ exists t, r = Ok (BBox t)) /\
               (tot (icost s') <= 6 * lenN bs + 29)%N.
Proof. exact container_total_r. Qed.
Print Assumptions C04_container_total_r.

(* the contract is satisfiable: the leaves used by the correspondence (mdat, free/skip, unknown boxes) *)
Theorem C04_std_leaves_ok : leaf_ok std_leaves.
Proof. exact std_leaves_ok. Qed.
Print Assumptions C04_std_leaves_ok.

(* ---- (c) file assembly over shapes, all decode options, then Info and both encode modes ---- *)
Theorem C04_assembly_total : forall (o : opts) (boxes : list (topshape * N)),
  match assemble true o boxes with
  | Ok f => no_panic (info_file true f) /\ no_panic (encode_file true false f) /\ no_panic (encode_file true true f)
  | Err => True
  | Panic => False
  | OutOfFuel => False
  end.
Proof. exact assembly_total. Qed.
Print Assumptions C04_assembly_total.

(* the pinned text (f87a9e4) panics; each witness was replayed on the real code before the repair *)
Theorem C04_assembly_refuted_moov_without_trak :
  assemble false oR [(TMoov (MoovChain 0 0), 116)] = Panic.
Proof. exact assembly_refuted_moov_without_trak. Qed.
Print Assumptions C04_assembly_refuted_moov_without_trak.

Theorem C04_assembly_refuted_traf_without_tfhd :
  assemble false oR [(TFtyp, 32); (TMoov (MoovChain 5 0), 554);
                     (TMoof [mkTraf false (Some (SencUnparsed true)) None []], 56)] = Panic.
Proof. exact assembly_refuted_traf_without_tfhd. Qed.
Print Assumptions C04_assembly_refuted_traf_without_tfhd.

Theorem C04_assembly_refuted_saio_without_offsets :
  assemble false oR [(TMoof [mkTraf true (Some (SencUnparsed true)) (Some SaioEmpty) []], 88)] = Panic.
Proof. exact assembly_refuted_saio_without_offsets. Qed.
Print Assumptions C04_assembly_refuted_saio_without_offsets.

Theorem C04_assembly_refuted_no_segment_after_sidx :
  assemble false oR [(TSidx (mkSidx 1 [(false, 100)]), 44); (TMoof [full_traf], 68)] = Panic /\
  assemble false oR [(TSidx (mkSidx 1 [(false, 100)]), 44); (TEmsg, 40)] = Panic.
Proof. exact assembly_refuted_no_segment_after_sidx. Qed.
Print Assumptions C04_assembly_refuted_no_segment_after_sidx.

Theorem C04_assembly_refuted_tfra_entries :
  assemble false oISM [(TMoof [], 24); (TMdat 4, 12); (TMoof [], 24); (TMdat 4, 12); (TMfra [(1, [0])], 67)] = Panic.
Proof. exact assembly_refuted_tfra_entries. Qed.
Print Assumptions C04_assembly_refuted_tfra_entries.

Theorem C04_assembly_refuted_mfra_without_tfra :
  assemble false oISM [(TOther, 8); (TMfra [], 24)] = Panic.
Proof. exact assembly_refuted_mfra_without_tfra. Qed.
Print Assumptions C04_assembly_refuted_mfra_without_tfra.

Theorem C04_encode_refuted_nil_ftyp : exists f,
  assemble false oR [(TMoov (MoovChain 5 0), 554)] = Ok f /\ encode_file false false f = Panic.
Proof. exact encode_refuted_nil_ftyp. Qed.
Print Assumptions C04_encode_refuted_nil_ftyp.

Theorem C04_encode_refuted_moof_without_traf : exists f,
  assemble false oR [(TMoof [], 24); (TMdat 4, 12)] = Ok f /\
  encode_file false false f = Panic /\ encode_file false true f = Panic.
Proof. exact encode_refuted_moof_without_traf. Qed.
Print Assumptions C04_encode_refuted_moof_without_traf.

Theorem C04_encode_refuted_second_traf_zero_offset : exists f,
  assemble false oR [(TMoof [full_traf; mkTraf true None None [TrunZeroOffset]], 100); (TMdat 4, 12)] = Ok f /\
  encode_file false true f = Panic.
Proof. exact encode_refuted_second_traf_zero_offset. Qed.
Print Assumptions C04_encode_refuted_second_traf_zero_offset.

Theorem C04_info_refuted_saio_without_offsets : exists f,
  assemble false oR [(TMoof [mkTraf true None (Some SaioEmpty) []], 64)] = Ok f /\ info_file false f = Panic.
Proof. exact info_refuted_saio_without_offsets. Qed.
Print Assumptions C04_info_refuted_saio_without_offsets.


(* ---- (d) the count-guard-then-allocate prologues of the table-box decoders (C04AllocModel.v) ----
   bounded r a b e c n: the decoder returns (a box or an error, never a panic), has requested at most a*n + b
   bytes with make / append, and e * (loop iterations) <= n + c; n = hdr.Size (at most the input length: DecodeBoxSR
   rejects a box larger than the remaining bytes, readBoxBody fails when the body is short) or, for the decoders
   without a size guard, the number of bytes the reader sees.  For ALL header sizes, header lengths and bodies. *)
Theorem C04_alloc_trun : forall p hs hl body, bounded (alloc_trun p hs hl body) 4 16384 4 4096 hs.
Proof. exact alloc_trun_bounded. Qed.
Print Assumptions C04_alloc_trun.

Theorem C04_alloc_stts : forall hs hl body, bounded (alloc_stts hs hl body) 1 0 8 0 hs.
Proof. exact alloc_stts_bounded. Qed.
Print Assumptions C04_alloc_stts.

Theorem C04_alloc_stsc : forall hs hl body, bounded (alloc_stsc hs hl body) 2 0 12 0 hs.
Proof. exact alloc_stsc_bounded. Qed.
Print Assumptions C04_alloc_stsc.

Theorem C04_alloc_stsz : forall hs hl body, bounded (alloc_stsz hs hl body) 1 0 4 0 hs.
Proof. exact alloc_stsz_bounded. Qed.
Print Assumptions C04_alloc_stsz.

Theorem C04_alloc_stco : forall hs hl body, bounded (alloc_stco hs hl body) 1 0 4 0 hs.
Proof. exact alloc_stco_bounded. Qed.
Print Assumptions C04_alloc_stco.

Theorem C04_alloc_co64 : forall hs hl body, bounded (alloc_co64 hs hl body) 1 0 8 0 hs.
Proof. exact alloc_co64_bounded. Qed.
Print Assumptions C04_alloc_co64.

Theorem C04_alloc_stss : forall hs hl body, bounded (alloc_stss hs hl body) 1 0 4 0 hs.
Proof. exact alloc_stss_bounded. Qed.
Print Assumptions C04_alloc_stss.

Theorem C04_alloc_sdtp : forall hs hl body, bounded (alloc_sdtp hs hl body) 1 0 1 0 hs.
Proof. exact alloc_sdtp_bounded. Qed.
Print Assumptions C04_alloc_sdtp.

Theorem C04_alloc_saiz : forall hs hl body, bounded (alloc_saiz hs hl body) 1 0 1 0 hs.
Proof. exact alloc_saiz_bounded. Qed.
Print Assumptions C04_alloc_saiz.

Theorem C04_alloc_saio : forall hs hl body, bounded (alloc_saio hs hl body) 2 0 4 0 hs.
Proof. exact alloc_saio_bounded. Qed.
Print Assumptions C04_alloc_saio.

Theorem C04_alloc_senc : forall p hs hl body, bounded (alloc_senc p hs hl body) 0 0 1 0 hs.
Proof. exact alloc_senc_bounded. Qed.
Print Assumptions C04_alloc_senc.

Theorem C04_alloc_sbgp : forall hs hl body, bounded (alloc_sbgp hs hl body) 1 0 8 0 hs.
Proof. exact alloc_sbgp_bounded. Qed.
Print Assumptions C04_alloc_sbgp.

Theorem C04_alloc_subs : forall hs hl body, bounded (alloc_subs hs hl body) 6 786420 1 65536 (lenN body).
Proof. exact alloc_subs_bounded. Qed.
Print Assumptions C04_alloc_subs.

Theorem C04_alloc_elst : forall hs hl body, bounded (alloc_elst hs hl body) 2 0 12 0 hs.
Proof. exact alloc_elst_bounded. Qed.
Print Assumptions C04_alloc_elst.

Theorem C04_alloc_tfra : forall hs hl body, bounded (alloc_tfra hs hl body) 3 0 11 0 hs.
Proof. exact alloc_tfra_bounded. Qed.
Print Assumptions C04_alloc_tfra.

Theorem C04_alloc_sidx : forall hs hl body, bounded (alloc_sidx hs hl body) 0 1048560 1 65535 hs.
Proof. exact alloc_sidx_bounded. Qed.
Print Assumptions C04_alloc_sidx.

Theorem C04_alloc_pssh : forall hs hl body, bounded (alloc_pssh hs hl body) 3 40 16 16 (lenN body).
Proof. exact alloc_pssh_bounded. Qed.
Print Assumptions C04_alloc_pssh.

Theorem C04_alloc_ssix : forall hs hl body, bounded (alloc_ssix hs hl body) 3 0 8 0 hs.
Proof. exact alloc_ssix_bounded. Qed.
Print Assumptions C04_alloc_ssix.

Theorem C04_alloc_treftype : forall hs hl body, bounded (alloc_treftype hs hl body) 1 0 4 0 hs.
Proof. exact alloc_treftype_bounded. Qed.
Print Assumptions C04_alloc_treftype.

Theorem C04_alloc_leva : forall hs hl body, bounded (alloc_leva_prologue hs hl body) 0 5100 1 255 hs.
Proof. exact alloc_leva_bounded. Qed.
Print Assumptions C04_alloc_leva.

Theorem C04_alloc_uuid : forall hs hl body, bounded (alloc_uuid hs hl body) 0 4144 1 255 hs.
Proof. exact alloc_uuid_bounded. Qed.
Print Assumptions C04_alloc_uuid.

Theorem C04_alloc_ftyp_styp : forall p hs hl body,
  bounded (alloc_ftyp hs hl body) 0 0 1 0 hs /\ bounded (alloc_styp p hs hl body) 0 0 1 0 hs.
Proof. exact alloc_ftyp_styp_bounded. Qed.
Print Assumptions C04_alloc_ftyp_styp.

(* ctts: make([]uint32, entryCount+1) wraps in uint32 for entryCount = 2^32-1, which needs a box of exactly
   34359738376 bytes (32 GiB): bounded for every other size, an index panic at that size (not reproducible through
   DecodeBox on this machine: the second make asks for 16 GiB first) *)
Theorem C04_alloc_ctts : forall hs hl body, hs <> 34359738376 -> bounded (alloc_ctts hs hl body) 1 4 8 0 hs.
Proof. exact alloc_ctts_bounded. Qed.
Print Assumptions C04_alloc_ctts.

Theorem C04_alloc_ctts_refuted_at_32GiB : forall hl body vf s1 s2,
  rd_n body 4 rd0 = (vf, s1) -> rd_n body 4 s1 = (4294967295, s2) -> alloc_ctts 34359738376 hl body = Panic.
Proof. exact alloc_ctts_panics. Qed.
Print Assumptions C04_alloc_ctts_refuted_at_32GiB.

(* sgpd with grouping type alst (first entry): the repaired text (26a2e48) is bounded by the bytes the reader sees;
   the pinned text asked for 2 x (2^31-2) bytes on a 20-byte payload (witness replayed on the real code: 4 GiB) *)
Theorem C04_alloc_sgpd_alst : forall hs hl body,
  bounded (alloc_sgpd_alst true hs hl body) 1 262140 4 262140 (lenN body).
Proof. exact alloc_sgpd_alst_bounded. Qed.
Print Assumptions C04_alloc_sgpd_alst.

Theorem C04_alloc_sgpd_alst_refuted :
  exists o, alloc_sgpd_alst false 28 8 alst_witness = Ok o /\ o_alloc o = 4294967292 /\ lenN alst_witness = 20.
Proof. exact alloc_sgpd_alst_pinned_balloons. Qed.
Print Assumptions C04_alloc_sgpd_alst_refuted.

(* sgpd, the whole entry loop (seig / roll / rap / alst / other entries, default or per-entry description length),
   repaired text: bounded by the bytes the reader sees; no size guard exists, the loop stops at the first entry that
   does not fit or whose Size() differs from its description length *)
Theorem C04_alloc_sgpd : forall hs hl body,
  exists o, alloc_sgpd hs hl body = Ok o /\ o_alloc o <= 86 * lenN body + 262208 /\ o_iters o <= 3 * lenN body + 65536.
Proof. exact alloc_sgpd_bounded. Qed.
Print Assumptions C04_alloc_sgpd.

(* senc second phase (ParseReadBox + parseAndFillSamples, iv given or tried as 0 / 8 / 16): under the guard that the
   first phase establishes, at most 72 * len(rawData) + 360 bytes are requested and the loops run at most
   3 * len(rawData) + 3 times; the first phase does establish it (header length 8 or 16) *)
Theorem C04_alloc_senc_parse : forall fl cnt raw iv, (has fl 2 = true -> 2 * cnt <= lenN raw + 8) ->
  exists ok a b al it, senc_parse fl cnt raw iv = Ok (ok, a, b, al, it) /\ al <= 72 * lenN raw + 360 /\ it <= 3 * lenN raw + 3.
Proof. exact senc_parse_bounded. Qed.
Print Assumptions C04_alloc_senc_parse.

Theorem C04_alloc_senc_guard : forall p hs hl body o, hl <= 16 -> (p = false -> lenN body = hs - hl) ->
  alloc_senc p hs hl body = Ok o -> o_ok o = true ->
  has (flags_of (fst (rd_n body 4 rd0))) 2 = true ->
  2 * o_count o <= lenN (firstn (Z.to_nat (apayload_len hs hl - 8)) (skipn 8 body)) + 8.
Proof. exact senc_guard_established. Qed.
Print Assumptions C04_alloc_senc_guard.

(* hvcC: the array / NALU loops of DecodeHEVCDecConfRec (8 and 16 bit counts, leave on the accumulated error) *)
Theorem C04_alloc_hvcc : forall p hs hl body, bounded (alloc_hvcc p hs hl body) 12 8184 1 256 (lenN body).
Proof. exact alloc_hvcc_bounded. Qed.
Print Assumptions C04_alloc_hvcc.

(* tlou / alou: 6-bit base count, 8-bit measurement counts, no exit on error: a constant bound *)
Theorem C04_alloc_lou : forall hs hl body, bounded (alloc_lou hs hl body) 0 67284 1 16128 hs.
Proof. exact alloc_lou_bounded. Qed.
Print Assumptions C04_alloc_lou.

(* avcC: 5-bit SPS count, 8-bit PPS count, every index checked: a constant bound *)
Theorem C04_alloc_avcc : forall p hs hl body, bounded (alloc_avcc p hs hl body) 0 6912 1 286 hs.
Proof. exact alloc_avcc_bounded. Qed.
Print Assumptions C04_alloc_avcc.

(* box level, both decode paths, EVERY byte string shorter than 32 GiB whose box type is one of the 21 modelled
   ones: header, size guard, prologue: at most 8 * len + 1048560 bytes requested, at most 2 * len + 65535 iterations *)
Theorem C04_alloc_box_sr : forall bs, lenN bs < 34359738376 ->
  match alloc_box_sr bs with Some r => bounded_box r (lenN bs) | None => True end.
Proof. exact alloc_box_sr_bounded. Qed.
Print Assumptions C04_alloc_box_sr.

Theorem C04_alloc_box_r : forall bs, lenN bs < 34359738376 ->
  match alloc_box_r bs with Some r => bounded_box r (lenN bs) | None => True end.
Proof. exact alloc_box_r_bounded. Qed.
Print Assumptions C04_alloc_box_r.

(* the 32-bit counts and per-entry sizes <= 64 cannot wrap the uint64 expectedSize arithmetic *)
Theorem C04_alloc_expected_size_no_wrap : forall body s k fixed, k <= 64 -> fixed <= 4096 ->
  fixed + fst (rd_n body 4 s) * k < 18446744073709551616.
Proof. exact exp_no_wrap. Qed.
Print Assumptions C04_alloc_expected_size_no_wrap.

(* ---- non-vacuity ---- *)
Example ex_reader_state : rinv (mkR [0; 0; 0; 16; 102; 114; 101; 101]%N 4 false) = true.
Proof. reflexivity. Qed.
Example ex_reader_guard : rguard (mkR [0; 0; 0; 16; 102; 114; 101; 101]%N 4 false) (RFixedStr 4) = true.
Proof. reflexivity. Qed.
Example ex_reader_step :
  rstep (mkR [0; 0; 0; 16; 102; 114; 101; 101]%N 4 false) (RFixedStr 4)
  = Ok (VBytes [102; 114; 101; 101]%N, mkR [0; 0; 0; 16; 102; 114; 101; 101]%N 8 false).
Proof. vm_compute. reflexivity. Qed.
(* a fragmented file: ftyp moov(no samples) styp moof mdat moof mdat is accepted, grouped into one styp segment
   with two fragments, and encodes in both modes *)
Example ex_assembly :
  match assemble true oR [(TFtyp, 32); (TMoov (MoovChain 5 0), 554); (TStyp, 20);
                          (TMoof [full_traf], 68); (TMdat 4, 12); (TMoof [full_traf], 68); (TMdat 4, 12)] with
  | Ok f => f_frag f = true /\ map obs_segment (f_segs f) =
              [(586, true, 0, [(606, 2, true, true); (686, 2, true, true)])]
            /\ encode_file true false f = Ok tt /\ encode_file true true f = Ok tt /\ info_file true f = Ok tt
  | _ => False
  end.
Proof. vm_compute. repeat split; reflexivity. Qed.

(* moof{traf{}, free} decodes to the same tree on both paths (std leaves), within the cost bounds *)
Example ex_box_bytes : list N :=
  [0;0;0;24;109;111;111;102; 0;0;0;8;116;114;97;102; 0;0;0;8;102;114;101;101]%N.
Example ex_small : small ex_box_bytes = true.
Proof. reflexivity. Qed.
Example ex_box_sr : fst (box_sr std_leaves ex_box_bytes)
  = Ok (Node name_moof [Node name_traf []; Leaf name_free 8]).
Proof. vm_compute. reflexivity. Qed.
Example ex_box_r : fst (box_r std_leaves ex_box_bytes)
  = Ok (BBox (Node name_moof [Node name_traf []; Leaf name_free 8])).
Proof. vm_compute. reflexivity. Qed.

(* a 24-byte trun (flags 0x004: first-sample-flags, no per-sample field) with sample_count 2^22 is rejected by the
   prologue on both paths; with sample_count 3 it decodes to 3 samples and 48 bytes are requested *)
Example ex_trun_fsf_big : list N := [0;0;0;20;116;114;117;110; 0;0;0;4; 0;64;0;0; 2;0;0;0].
Example ex_trun_rejected :
  alloc_box_sr ex_trun_fsf_big = Some rej /\ alloc_box_r ex_trun_fsf_big = Some rej.
Proof. vm_compute. split; reflexivity. Qed.
Example ex_trun_ok :
  alloc_box_sr [0;0;0;20;116;114;117;110; 0;0;0;4; 0;0;0;3; 2;0;0;0] = Some (Ok (mkO true 3 48 3)).
Proof. vm_compute. reflexivity. Qed.
(* an stts with two entries: 16 bytes requested, two iterations; the hypothesis of the box theorems is satisfiable *)
Example ex_stts_ok :
  alloc_box_r [0;0;0;32;115;116;116;115; 0;0;0;0; 0;0;0;2; 0;0;0;1;0;0;0;1; 0;0;0;1;0;0;0;1] = Some (Ok (mkO true 2 16 2))
  /\ lenN ex_trun_fsf_big < 34359738376.
Proof. vm_compute. split; reflexivity. Qed.

(* an sgpd with two roll entries decodes to 2 entries; one with grouping type alst and default_length 2 is rejected *)
Example ex_sgpd_roll :
  alloc_box_sr [0;0;0;28;115;103;112;100; 1;0;0;0; 114;111;108;108; 0;0;0;2; 0;0;0;2; 255;255; 255;255]
  = Some (Ok (mkO true 2 48 2)).
Proof. vm_compute. reflexivity. Qed.
Example ex_sgpd_alst_rejected :
  match alloc_box_sr ([0;0;0;28;115;103;112;100] ++ alst_witness) with Some (Ok o) => o_ok o = false /\ o_alloc o = 56 | _ => False end.
Proof. vm_compute. split; reflexivity. Qed.

(* a senc with the subsample flag, two samples (8-byte IV, one subsample each): both phases succeed with
   perSampleIVSize unknown (0 fails, 8 fits): 2 IVs, 2 subsample lists; the guard hypothesis holds for it *)
Example ex_senc_two_phase :
  senc_box true [0;0;0;48;115;101;110;99; 0;0;0;2; 0;0;0;2;
                 1;2;3;4;5;6;7;8; 0;1; 0;1; 0;0;0;2;  1;2;3;4;5;6;7;8; 0;1; 0;1; 0;0;0;2] 0
  = Some (Ok (true, true, 2, 2, 160, 5)).
Proof. vm_compute. reflexivity. Qed.

(* ---- (e) the trailing index: File.findAndReadMfra over extended shapes (any mfro position and ParentSize:
        absent, too small, too large, pointing at a non-mfra box or inside a box; an mfra at top level or inside
        an mdat payload; any number of tfra boxes with any entry counts, track ids and moof offsets) ---- *)
Theorem C04_mfra_lookback_total : forall boxes : list (xshape * N),
  match find_and_read_mfra_x true boxes with Panic => False | OutOfFuel => False | _ => True end.
Proof. exact find_mfra_x_np. Qed.
Print Assumptions C04_mfra_lookback_total.

(* the comparison of a later tfra with the first one: what Go does today for unequal entry counts is an error
   BEFORE the offset loop; the loop indexes the first tfra and stays in range only because of that check *)
Theorem C04_mfra_tfras_loop_spec : forall first rest,
  tfras_loop first rest = if tfras_consistent first rest then Ok tt else Err.
Proof. exact tfras_loop_spec. Qed.
Print Assumptions C04_mfra_tfras_loop_spec.

Theorem C04_mfra_offset_loop_in_range : forall other first j,
  (j + length other <= length first)%nat ->
  match offs_loop other first j with Panic => False | OutOfFuel => False | _ => True end.
Proof. exact offs_loop_np. Qed.
Print Assumptions C04_mfra_offset_loop_in_range.

Theorem C04_mfra_length_check_needed : forall common extra more,
  offs_loop (common ++ extra :: more) common 0 = Panic.
Proof. intros. apply offs_loop_longer_panics. reflexivity. Qed.
Print Assumptions C04_mfra_length_check_needed.

Theorem C04_assembly_x_total : forall (o : opts) (boxes : list (xshape * N)),
  match assemble_x true o boxes with
  | Ok f => no_panic (info_file true f) /\ no_panic (encode_file true false f) /\ no_panic (encode_file true true f)
  | Err => True
  | Panic => False
  | OutOfFuel => False
  end.
Proof. exact assembly_x_total. Qed.
Print Assumptions C04_assembly_x_total.

(* on the shapes of C04AsmModel (boxes of positive size) the extended model is the old one *)
Theorem C04_assembly_x_embed : forall o boxes, Forall (fun b => 0 < snd b) boxes ->
  assemble_x true o (embed boxes) = assemble true o boxes.
Proof. exact assemble_x_embed. Qed.
Print Assumptions C04_assembly_x_embed.

(* the 107-byte file mfra{tfra(id 1, 0 entries), tfra(id 2, 1 entry), mfro(107)} under the ISM flag is an error;
   an mfra found through a stand-alone mfro, or inside an mdat, is used; a wrong ParentSize is an error *)
Example ex_mfra_two_tfras :
  assemble_x true oISMx [(XMfra [(1, []); (2, [0])] (Some 107), 107)] = Err.
Proof. vm_compute. reflexivity. Qed.
Example ex_mfra_standalone_mfro :
  find_and_read_mfra_x true [(XTop (TMoof []), 24); (XMfra [(1, [0])] None, 51); (XMfro 67, 16)] = Ok (Some [0]) /\
  find_and_read_mfra_x true [(XTop (TMoof []), 24); (XMdatMfra 4 [(1, [0])] (Some 67), 79)] = Ok (Some [0]) /\
  find_and_read_mfra_x true [(XTop (TMoof []), 24); (XMfra [(1, [0])] (Some 66), 67)] = Err.
Proof. repeat split; vm_compute; reflexivity. Qed.

(* ---- (f) the allocation clause over TREES: DecodeBoxSR / DecodeBox with both container child loops where every leaf of
        type trun stts ctts stsc stsz stco co64 stss sdtp saiz saio sbgp elst tfra runs its modelled prologue (size guard,
        make([]T, n), entry loop) and every other leaf is any decoder under the old contract (cost <= consumed + 1):
        for EVERY byte string below 32 GiB - 16 the decode returns a tree, EOF or an error, and the bytes requested and
        the loop iterations / decoded boxes are each <= 2600 * len + 20740 (SliceReader) / 2601 * len + 20771 (io.Reader).
        The factor is a trun of 16..24 bytes that legitimately reserves 1024 samples (16 KiB).
        Full statement asked for (not proved): also sidx, subs, pssh as leaves; they have no size guard, so the position
        they leave the shared reader at is not a function of the header and needs its own model. ---- *)
Theorem C04_tree_alloc_partial : forall other, leaf_ok other -> forall bs, small32 bs = true ->
  (exists r s', box_sr (mix_leaves other) bs = (r, s') /\ (r = Err \/ exists t, r = Ok t) /\
                (alloc (scost s') <= 2600 * lenN bs + 20740)%N /\ (ticks (scost s') <= 2600 * lenN bs + 20740)%N) /\
  (exists r s', box_r (mix_leaves other) bs = (r, s') /\ (r = Err \/ r = Ok BEof \/ exists t, r = Ok (BBox t)) /\
                (alloc (icost s') <= 2601 * lenN bs + 20771)%N /\ (ticks (icost s') <= 2601 * lenN bs + 20771)%N).
Proof. exact tree_alloc. Qed.
Print Assumptions C04_tree_alloc_partial.

(* the refactored leaf contract (a leaf costs LA * consumed + LC when it returns a box, LA * remaining + LC when it
   returns an error) and the container theorems for ANY leaf decoder satisfying it *)
Theorem C04_container_total2_sr : forall ld, leaf_ok2 ld -> forall bs, small32 bs = true ->
  exists r s', box_sr ld bs = (r, s') /\ (r = Err \/ exists t, r = Ok t) /\
               (tot (scost s') <= 2600 * lenN bs + 20740)%N.
Proof. exact tree_total_sr. Qed.
Print Assumptions C04_container_total2_sr.

Theorem C04_container_total2_r : forall ld, leaf_ok2 ld -> forall bs, small32 bs = true ->
  exists r s', box_r ld bs = (r, s') /\ (r = Err \/ r = Ok BEof \/ exists t, r = Ok (BBox t)) /\
               (tot (icost s') <= 2601 * lenN bs + 20771)%N.
Proof. exact tree_total_r. Qed.
Print Assumptions C04_container_total2_r.

Theorem C04_table_leaves_ok : forall other, leaf_ok other -> leaf_ok2 (mix_leaves other).
Proof. exact mix_leaves_ok2. Qed.
Print Assumptions C04_table_leaves_ok.

(* moof{mfhd, traf{tfhd, trun(1 sample)}}: the trun leaf runs its prologue inside two containers on both paths;
   the hypotheses (a leaf decoder under the old contract, a byte string below 32 GiB) are satisfiable *)
Example ex_tree_moof : list N :=
  [0;0;0;60;109;111;111;102; 0;0;0;16;109;102;104;100;0;0;0;0;0;0;0;1;
   0;0;0;36;116;114;97;102; 0;0;0;8;102;114;101;101; 0;0;0;20;116;114;117;110;0;0;2;0;0;0;0;1;0;0;0;4].
Example ex_tree_moof_ok :
  leaf_ok std_leaves /\ small32 ex_tree_moof = true /\
  (match box_sr tbl_leaves ex_tree_moof with (Ok t, s) => tsize t = 60%N /\ alloc (scost s) = 36%N | _ => False end) /\
  (match box_r tbl_leaves ex_tree_moof with (Ok (BBox t), s) => tsize t = 60%N | _ => False end).
Proof. split; [exact std_leaves_ok|]. vm_compute. repeat split; reflexivity. Qed.

(* ---- (g) cross-box references of the second senc pass (mp4/traf.go ParseReadSenc, the moof case of DecodeFile /
        DecodeFileSR): the seig group lookup sbgp.group_description_index -> sgpd.SampleGroupEntries, the saio
        offset against the senc position, tfhd.track_ID against the traks of the moov.
        returns r := r is Ok _ or Err (never Panic, never out of fuel).  sbgp_wf: the two parallel sbgp slices have
        the same length (what DecodeSbgpSR produces: C04_sbgp_decoded_wf); without it the first index expression is
        partial (an API-built box: group_lookup_api_panics). ---- *)
Theorem C04_senc_group_lookup_total : forall sb sg, sbgp_wf sb = true -> returns (group_lookup sb sg).
Proof. exact group_lookup_total. Qed.
Print Assumptions C04_senc_group_lookup_total.

Theorem C04_sbgp_decoded_wf : forall seig entries, sbgp_wf (sbgp_decoded seig entries) = true.
Proof. exact sbgp_decoded_wf. Qed.
Print Assumptions C04_sbgp_decoded_wf.

(* what the pinned text accepts: one sbgp entry, index 65536 + 1, first sgpd entry a seig entry *)
Theorem C04_senc_group_lookup_accepts : forall sb sg iv, group_lookup sb sg = Ok iv ->
  lenN (sb_counts sb) = 1 /\ idxN (sb_idx sb) 0 = Ok 65537 /\ idxN (sg_entries sg) 0 = Ok (SGSeig iv).
Proof. exact group_lookup_accepts. Qed.
Print Assumptions C04_senc_group_lookup_accepts.

(* the generalised text ("any fragment-local index") with `idx > len(entries)` as range check: an index exactly one
   past the last entry is an out-of-range access, and nothing else is *)
Theorem C04_senc_group_lookup_off_by_one_refuted :
  exists sb sg, sbgp_wf sb = true /\ group_lookup_gen false sb sg = Panic.
Proof. exact group_lookup_gen_refuted. Qed.
Print Assumptions C04_senc_group_lookup_off_by_one_refuted.

Theorem C04_senc_group_lookup_off_by_one_exact : forall sb sg, sbgp_wf sb = true ->
  (group_lookup_gen false sb sg = Panic <->
   lenN (sb_counts sb) = 1 /\ lenN (sg_entries sg) <> 0 /\
   exists nr, idxN (sb_idx sb) 0 = Ok nr /\ 65536 < nr /\ u32sub (u32sub nr 65536) 1 = lenN (sg_entries sg)).
Proof. exact group_lookup_gen_off_by_one_panics. Qed.
Print Assumptions C04_senc_group_lookup_off_by_one_exact.

(* with `idx >= len(entries)` the generalised text is total and extends the pinned one *)
Theorem C04_senc_group_lookup_gen_total : forall sb sg, sbgp_wf sb = true -> returns (group_lookup_gen true sb sg).
Proof. exact group_lookup_gen_strict_total. Qed.
Print Assumptions C04_senc_group_lookup_gen_total.

Theorem C04_senc_group_lookup_gen_extends : forall strict sb sg iv,
  group_lookup sb sg = Ok iv -> group_lookup_gen strict sb sg = Ok iv.
Proof. exact group_lookup_gen_extends. Qed.
Print Assumptions C04_senc_group_lookup_gen_extends.

(* the whole moof case: for every moov context, moof position and list of trafs whose boxes the decoders can produce
   (xtraf_wf: parallel sbgp slices, every senc passed the first-phase guard 2*count <= len(rawData)), with any saio
   offsets, any group description indices, any track ids, any number of senc / PIFF senc children *)
Theorem C04_senc_pass_x_total : forall moov ms trafs,
  forallb xtraf_wf trafs = true -> returns (moof_senc_pass_x moov ms trafs).
Proof. exact moof_senc_pass_x_total. Qed.
Print Assumptions C04_senc_pass_x_total.

(* moof_enc.m4s in the abstract: one sbgp entry (96 samples, index 65537), a one-entry seig sgpd (IV size 8): the lookup
   gives 8; the same with index 65538 is an error of the pinned text and an out-of-range access of the off-by-one text;
   the hypotheses are satisfiable by a traf with saio, sbgp, sgpd and a senc with sub-sample data *)
Example ex_xref_traf : xtraf :=
  mkXT (Some 1) (Some [184]) (Some (sbgp_decoded true [(2, 65537)])) (Some (mkSgpd true [SGSeig 8]))
       [mkSenc false 168 2 2 [1;1;1;1;1;1;1;1;0;0; 2;2;2;2;2;2;2;2;0;1;0;10;0;0;0;100]].
Example ex_xref_lookup :
  group_lookup (sbgp_decoded true [(96, 65537)]) (mkSgpd true [SGSeig 8]) = Ok 8 /\
  group_lookup (sbgp_decoded true [(96, 65538)]) (mkSgpd true [SGSeig 8]) = Err /\
  group_lookup_gen false (sbgp_decoded true [(96, 65538)]) (mkSgpd true [SGSeig 8]) = Panic /\
  group_lookup_gen true (sbgp_decoded true [(96, 65538)]) (mkSgpd true [SGSeig 8]) = Err /\
  xtraf_wf ex_xref_traf = true /\
  moof_senc_pass_x None 0 [ex_xref_traf] = Ok [Some (2, 2, 8)] /\
  moof_senc_pass_x (Some [(Some 1, EAV true (Some 8))]) 0 [ex_xref_traf] = Ok [Some (2, 2, 8)] /\
  moof_senc_pass_x (Some [(Some 1, EAV false None)]) 0 [ex_xref_traf] = Ok [None] /\
  moof_senc_pass_x None 1 [ex_xref_traf] = Err.
Proof. vm_compute. repeat split; reflexivity. Qed.

(* ---- (h) Info of the table boxes (mp4/infodumper.go getInfoLevel; the Info bodies of stsc trun senc tfra sidx saiz ctts
        stts sbgp saio stsz stss stco co64 elst sdtp subs).  A state ibox carries the lengths of the slices the text
        ranges over or indexes (parallel slices separately); info_lines = number of lines written, Panic at an index
        expression out of range; ibox_wf = the relations between those lengths that the decoders establish
        (C04_info_decoded_wf: state_of_box is the state DecodeBox / DecodeBoxSR leave, through the prologue models).
        For EVERY well-formed state and EVERY level (any int, from any specificBoxLevels token list) Info returns and
        writes at most Size() + 1030 lines (1030: a trun without per-sample fields may hold 1024 samples in 16 bytes). ---- *)
Theorem C04_info_total : forall b level, ibox_wf b = true ->
  exists n, info_lines b level = Ok n /\ n <= isize b + 1030.
Proof. exact info_total. Qed.
Print Assumptions C04_info_total.

Theorem C04_info_total_levels : forall b bt toks, ibox_wf b = true ->
  exists n, info_lines b (get_info_level bt toks) = Ok n /\ n <= isize b + 1030.
Proof. exact info_total_levels. Qed.
Print Assumptions C04_info_total_levels.

Theorem C04_info_decoded_wf : forall sr bs st, state_of_box sr bs = Some (Some st) -> ibox_wf st = true.
Proof. exact state_of_box_wf. Qed.
Print Assumptions C04_info_decoded_wf.

Theorem C04_info_decoded_total : forall sr bs st bt toks, state_of_box sr bs = Some (Some st) ->
  exists n, info_lines st (get_info_level bt toks) = Ok n /\ n <= isize st + 1030.
Proof. exact info_decoded_total. Qed.
Print Assumptions C04_info_decoded_total.

(* a senc parsed by the second pass (C04XrefModel.parse_read_senc_x -> senc_parse): the state ParseReadBox leaves - perSampleIVSize
   given, inferred, or the first of 0 / 8 / 16 that parses; one IV per sample when it is > 0; one SubSamples entry per sample with
   the counts read by parseAndFillSamples; the data consumed exactly - satisfies the relations (derived from senc_fill_loop by
   induction: C04InfoSencProofs), so Info prints it at every level *)
Theorem C04_info_senc_parsed_total : forall fl cnt raw iv nivs nsub al it level,
  senc_parse fl cnt raw iv = Ok (true, nivs, nsub, al, it) ->
  exists st, senc_parsed_state fl cnt raw iv = Some st /\ ibox_wf st = true /\
             exists n, info_lines st level = Ok n /\ n <= isize st + 1030.
Proof.
  intros fl cnt raw iv nivs nsub al it level H.
  destruct (senc_parsed_state_defined fl cnt raw iv nivs nsub al it H) as (st & E & W).
  exists st. split; [exact E|]. split; [exact W|]. exact (info_total st level W).
Qed.
Print Assumptions C04_info_senc_parsed_total.

(* without the relations (API-built boxes with parallel slices of different lengths) the loops index out of range at
   level >= 1 and print at level 0; for stts exactly when SampleTimeDelta is the shorter slice *)
Theorem C04_info_wf_needed :
  info_lines (IStts 2 1) 1 = Panic /\ info_lines (ICtts 1 1) 1 = Panic /\ info_lines (ISbgp 0 2 1) 1 = Panic /\
  info_lines (IStsc 2 0 1) 1 = Panic /\ info_lines (ISaiz 0 0 3 2) 1 = Panic /\
  info_lines (ISenc 0 2 8 1 [] 16) 1 = Panic /\ info_lines (ISenc 2 2 0 0 [1] 20) 1 = Panic /\
  info_lines (IStts 2 1) 0 = Ok 2 /\ info_lines (ISenc 2 2 0 0 [1] 20) 0 = Ok 3.
Proof. exact info_wf_needed. Qed.
Print Assumptions C04_info_wf_needed.

Theorem C04_info_stts_panics_iff : forall counts deltas level, (1 <= level)%Z ->
  (info_lines (IStts counts deltas) level = Panic <-> deltas < counts).
Proof. exact info_stts_panics_iff. Qed.
Print Assumptions C04_info_stts_panics_iff.

(* stsc with ids 1,2 (28 + 12 bytes): the decoder allocates SampleDescriptionID; trun with 2 samples and sizes; a parsed senc *)
Example ex_info_stsc : list N :=
  [0;0;0;40;115;116;115;99; 0;0;0;0; 0;0;0;2; 0;0;0;1;0;0;0;1;0;0;0;1; 0;0;0;2;0;0;0;1;0;0;0;2].
Example ex_info_states :
  state_of_box true ex_info_stsc = Some (Some (IStsc 2 0 2)) /\ ibox_wf (IStsc 2 0 2) = true /\
  info_lines (IStsc 2 0 2) 1 = Ok 4 /\ info_lines (IStsc 2 0 2) 0 = Ok 2 /\
  get_info_level [115;116;115;99] [([97;108;108], Some 0%Z); ([115;116;115;99], Some 2%Z)] = 2%Z /\
  get_info_level [115;116;115;99] [([115;116;115;99], None); ([97;108;108], Some 2%Z)] = 0%Z /\
  senc_parsed_state 2 2 [1;1;1;1;1;1;1;1;0;0; 2;2;2;2;2;2;2;2;0;1;0;10;0;0;0;100] 8 = Some (ISenc 2 2 8 2 [0;1] 26) /\
  info_lines (ISenc 2 2 8 2 [0;1] 26) 1 = Ok 6.
Proof. vm_compute. repeat split; reflexivity. Qed.

(* ---- (i) sidx, subs, pssh as leaves of the tree theorem.  They have no size guard: on the SliceReader path the position they
        leave the shared reader at and the Size() they report are functions of the CONTENT (sidx_run / subs_total / pssh_run keep
        the final reader state and Size()).  What this means for the property:
        - an ACCEPTED box costs at most 6 per byte it consumed (C04_unguarded_leaf_cost, first clause): sidx 17 per 12-byte
          reference, subs 13 n + 33 per entry of 6 + 8 n bytes, pssh 41 per 16-byte KID;
        - a REJECTED box costs at most 6 per byte seen + 1114095 = 17 * 65535: a 32-byte sidx whose 16-bit reference_count says
          65535 appends 65535 16-byte SidxRef (1 MiB) before it returns the reader's sticky error; a subs entry whose 16-bit
          subsample_count says 65535 appends 65535 12-byte entries (786 KiB) before the error check.  No count of these boxes
          is used for a make(): the allocation is bounded by a constant that does not grow with the input, and the error ends
          the whole decode, so it is paid ONCE.  It is not a finding (the property allows a*len + b).
        Hence the tree theorem with these leaves has the SAME factor and a constant larger by that one-time cost: two-constant
        leaf contract leaf_ok3 (a box: 7 * consumed + 20700; an error: 7 * remaining + 1200000), both child loops re-proved. ---- *)
Theorem C04_unguarded_leaf_cost : forall t body, unguarded t = true ->
  exists o e sz, run_x t body = Ok (o, e, sz) /\ r_pos e <= lenN body /\
    (o_ok o = true -> o_alloc o + o_iters o <= 6 * r_pos e) /\
    o_alloc o + o_iters o <= 6 * lenN body + 1114095.
Proof. exact run_x_ok. Qed.
Print Assumptions C04_unguarded_leaf_cost.

(* the runs are the prologue models of C04_alloc_sidx / _subs / _pssh with the final state kept *)
Theorem C04_unguarded_runs_are_prologues : forall hs hl body,
  alloc_sidx hs hl body = Ok (fst (fst (sidx_run body))) /\
  alloc_pssh hs hl body = Ok (fst (fst (pssh_run body))) /\
  alloc_subs hs hl body = match subs_total body with Ok (o, _, _) => Ok o | Err => Err | Panic => Panic | OutOfFuel => OutOfFuel end.
Proof. intros. split; [apply sidx_run_alloc | split; [apply pssh_run_alloc | apply subs_total_alloc]]. Qed.
Print Assumptions C04_unguarded_runs_are_prologues.

Theorem C04_tree_alloc_unguarded : forall other, leaf_ok other -> forall bs, small32 bs = true ->
  (exists r s', box_sr (mixx_leaves other) bs = (r, s') /\ (r = Err \/ exists t, r = Ok t) /\
                (alloc (scost s') <= 2600 * lenN bs + 1200040)%N /\ (ticks (scost s') <= 2600 * lenN bs + 1200040)%N) /\
  (exists r s', box_r (mixx_leaves other) bs = (r, s') /\ (r = Err \/ r = Ok BEof \/ exists t, r = Ok (BBox t)) /\
                (alloc (icost s') <= 2601 * lenN bs + 1200071)%N /\ (ticks (icost s') <= 2601 * lenN bs + 1200071)%N).
Proof. exact treex_alloc. Qed.
Print Assumptions C04_tree_alloc_unguarded.

Theorem C04_container_total3_sr : forall ld, leaf_ok3 ld -> forall bs, small32 bs = true ->
  exists r s', box_sr ld bs = (r, s') /\ (r = Err \/ exists t, r = Ok t) /\
               (tot (scost s') <= 2600 * lenN bs + 1200040)%N.
Proof. exact treex_total_sr. Qed.
Print Assumptions C04_container_total3_sr.

Theorem C04_container_total3_r : forall ld, leaf_ok3 ld -> forall bs, small32 bs = true ->
  exists r s', box_r ld bs = (r, s') /\ (r = Err \/ r = Ok BEof \/ exists t, r = Ok (BBox t)) /\
               (tot (icost s') <= 2601 * lenN bs + 1200071)%N.
Proof. exact treex_total_r. Qed.
Print Assumptions C04_container_total3_r.

Theorem C04_unguarded_leaves_ok : forall other, leaf_ok other -> leaf_ok3 (mixx_leaves other).
Proof. exact mixx_leaves_ok3. Qed.
Print Assumptions C04_unguarded_leaves_ok.

(* a sidx box that announces 8 bytes and one reference: on the SliceReader path it is accepted, reads 44 bytes and reports
   Size() = 44; on the io.Reader path (readBoxBody: an empty payload) it is an error.  A 32-byte sidx whose reference_count is
   65535 requests 1048560 bytes and is an error. *)
Example ex_sidx_beyond_box : list N :=
  [0;0;0;8;115;105;100;120; 0;0;0;0; 0;0;0;1; 0;0;3;232; 0;0;0;0; 0;0;0;0; 0;0;0;1; 0;0;0;100; 0;0;3;232; 144;0;0;0].
Example ex_sidx_count_65535 : list N :=
  [0;0;0;32;115;105;100;120; 0;0;0;0; 0;0;0;1; 0;0;3;232; 0;0;0;0; 0;0;0;0; 0;0;255;255].
Example ex_unguarded :
  leaf_ok std_leaves /\ small32 ex_sidx_beyond_box = true /\
  (match box_sr tblx_leaves ex_sidx_beyond_box with (Ok t, s) => tsize t = 44%N /\ rpos (sr s) = 44%Z /\ alloc (scost s) = 16%N | _ => False end) /\
  fst (box_r tblx_leaves ex_sidx_beyond_box) = Err /\
  (match box_sr tblx_leaves ex_sidx_count_65535 with (Err, s) => alloc (scost s) = 1048560%N | _ => False end).
Proof. split; [exact std_leaves_ok|]. vm_compute. repeat split; reflexivity. Qed.
