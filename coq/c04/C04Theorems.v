(* C04Theorems.v — the property theorems of C04 and nothing else.
   Models: C04Model.v (FixedSliceReader, box headers, DecodeBox/DecodeBoxSR, both container child loops,
   explicit Panic / cost semantics), C04AsmModel.v (file assembly, File.Encode/EncodeSW, File.Info over
   top-level box shapes; g = true is the repaired text, g = false the pinned text). *)
From V.lib Require Import Base.
From V.c04 Require Import C04Model C04AsmModel C04ReaderProofs C04ContainerProofs C04AsmProofs.

(* ---- (a) bits.FixedSliceReader: every method, every reachable state, under the caller guards ---- *)
Theorem C04_reader_safe : forall s o, rinv s = true -> rguard s o = true ->
  exists v s', rstep s o = Ok (v, s') /\ rinv s' = true /\ rbuf s' = rbuf s.
Proof. exact reader_safe. Qed.
Print Assumptions C04_reader_safe.

Theorem C04_reader_history_safe : forall ops s, rinv s = true -> guards_ok s ops = true ->
  exists vs s', run_rops s ops = Ok (vs, s') /\ rinv s' = true /\ rbuf s' = rbuf s.
Proof. exact reader_history_safe. Qed.
Print Assumptions C04_reader_history_safe.

(* without the guards: negative length, unchecked ReadPossiblyZeroTerminatedString, negative LookAhead
   offset panic at once; SkipBytes(negative), SkipBytes(overflowing) and SetPos(negative) leave pos < 0
   and the next read panics *)
Theorem C04_reader_neg_refuted :
  rinv s3 = true /\
  rstep s3 (RFixedStr (-1)) = Panic /\
  rstep s3 (RPZStr 5) = Panic /\
  rstep s3 (RLookAhead (-2) 1) = Panic /\
  (exists s', rstep s3 (RSkip (-2)) = Ok (VUnit, s') /\ rinv s' = false /\ rstep s' RU8 = Panic) /\
  (exists s', rstep s3 (RSkip (two63 - 1)) = Ok (VUnit, s') /\ rinv s' = false /\ rstep s' RU8 = Panic) /\
  (exists s', rstep s3 (RSetPos (-1)) = Ok (VUnit, s') /\ rinv s' = false /\ rstep s' RU8 = Panic).
Proof. exact reader_neg_refuted. Qed.
Print Assumptions C04_reader_neg_refuted.

(* ---- (b) box headers, DecodeBox / DecodeBoxSR and both container child loops, every byte string ---- *)
(* both header decoders never panic on any state of their byte source; the io.Reader one allocates <= 16 *)
Theorem C04_header_total :
  (forall s, IInv s -> exists r s', decode_header s = (r, s') /\ np r /\ T (icost s') <= T (icost s) + 16)%Z /\
  (forall s, Inv (sr s) -> exists r s', decode_header_sr s = (r, s') /\ np r /\ Inv (sr s') /\ scost s' = scost s).
Proof. exact header_total. Qed.
Print Assumptions C04_header_total.

(* SliceReader path: for every leaf decoder satisfying the contract and every byte string (Go slice lengths
   are < 2^63): a tree or an error, never Panic, never out of fuel len+1, ticks + alloc <= 2*len + 29
   (the constant covers the capped children listing of the size-mismatch error) *)
Theorem C04_container_total_sr : forall ld, leaf_ok ld -> forall bs, small bs = true ->
  exists r s', box_sr ld bs = (r, s') /\ (r = Err \/ exists t, r = Ok t) /\
               (tot (scost s') <= 2 * lenN bs + 29)%N.
Proof. exact container_total_sr. Qed.
Print Assumptions C04_container_total_sr.

(* io.Reader path: a tree, io.EOF or an error; ticks + alloc <= 6*len + 29 *)
Theorem C04_container_total_r : forall ld, leaf_ok ld -> forall bs, small bs = true ->
  exists r s', box_r ld bs = (r, s') /\ (r = Err \/ r = Ok BEof \/ exists t, r = Ok (BBox t)) /\
               (tot (icost s') <= 6 * lenN bs + 29)%N.
Proof. exact container_total_r. Qed.
Print Assumptions C04_container_total_r.

(* the contract is satisfiable: the leaves used by the correspondence (mdat, free/skip, unknown boxes) *)
Theorem C04_std_leaves_ok : leaf_ok std_leaves.
Proof. exact std_leaves_ok. Qed.
Print Assumptions C04_std_leaves_ok.

(* ---- (c) file assembly over shapes, all decode options, then Info and both encode modes ---- *)
Theorem C04_assembly_total : forall (o : opts) (boxes : list (topshape * N)),
  match assemble true o boxes with
  | Ok f => no_panic (info_file true f) /\ no_panic (encode_file true false f) /\ no_panic (encode_file true true f)
  | Err => True
  | Panic => False
  | OutOfFuel => False
  end.
Proof. exact assembly_total. Qed.
Print Assumptions C04_assembly_total.

(* the pinned text (f87a9e4) panics; each witness was replayed on the real code before the repair *)
Theorem C04_assembly_refuted_moov_without_trak :
  assemble false oR [(TMoov (MoovChain 0 0), 116)] = Panic.
Proof. exact assembly_refuted_moov_without_trak. Qed.
Print Assumptions C04_assembly_refuted_moov_without_trak.

Theorem C04_assembly_refuted_traf_without_tfhd :
  assemble false oR [(TFtyp, 32); (TMoov (MoovChain 5 0), 554);
                     (TMoof [mkTraf false (Some (SencUnparsed true)) None []], 56)] = Panic.
Proof. exact assembly_refuted_traf_without_tfhd. Qed.
Print Assumptions C04_assembly_refuted_traf_without_tfhd.

Theorem C04_assembly_refuted_saio_without_offsets :
  assemble false oR [(TMoof [mkTraf true (Some (SencUnparsed true)) (Some SaioEmpty) []], 88)] = Panic.
Proof. exact assembly_refuted_saio_without_offsets. Qed.
Print Assumptions C04_assembly_refuted_saio_without_offsets.

Theorem C04_assembly_refuted_no_segment_after_sidx :
  assemble false oR [(TSidx (mkSidx 1 [(false, 100)]), 44); (TMoof [full_traf], 68)] = Panic /\
  assemble false oR [(TSidx (mkSidx 1 [(false, 100)]), 44); (TEmsg, 40)] = Panic.
Proof. exact assembly_refuted_no_segment_after_sidx. Qed.
Print Assumptions C04_assembly_refuted_no_segment_after_sidx.

Theorem C04_assembly_refuted_tfra_entries :
  assemble false oISM [(TMoof [], 24); (TMdat 4, 12); (TMoof [], 24); (TMdat 4, 12); (TMfra [(1, [0])], 67)] = Panic.
Proof. exact assembly_refuted_tfra_entries. Qed.
Print Assumptions C04_assembly_refuted_tfra_entries.

Theorem C04_assembly_refuted_mfra_without_tfra :
  assemble false oISM [(TOther, 8); (TMfra [], 24)] = Panic.
Proof. exact assembly_refuted_mfra_without_tfra. Qed.
Print Assumptions C04_assembly_refuted_mfra_without_tfra.

Theorem C04_encode_refuted_nil_ftyp : exists f,
  assemble false oR [(TMoov (MoovChain 5 0), 554)] = Ok f /\ encode_file false false f = Panic.
Proof. exact encode_refuted_nil_ftyp. Qed.
Print Assumptions C04_encode_refuted_nil_ftyp.

Theorem C04_encode_refuted_moof_without_traf : exists f,
  assemble false oR [(TMoof [], 24); (TMdat 4, 12)] = Ok f /\
  encode_file false false f = Panic /\ encode_file false true f = Panic.
Proof. exact encode_refuted_moof_without_traf. Qed.
Print Assumptions C04_encode_refuted_moof_without_traf.

Theorem C04_encode_refuted_second_traf_zero_offset : exists f,
  assemble false oR [(TMoof [full_traf; mkTraf true None None [TrunZeroOffset]], 100); (TMdat 4, 12)] = Ok f /\
  encode_file false true f = Panic.
Proof. exact encode_refuted_second_traf_zero_offset. Qed.
Print Assumptions C04_encode_refuted_second_traf_zero_offset.

Theorem C04_info_refuted_saio_without_offsets : exists f,
  assemble false oR [(TMoof [mkTraf true None (Some SaioEmpty) []], 64)] = Ok f /\ info_file false f = Panic.
Proof. exact info_refuted_saio_without_offsets. Qed.
Print Assumptions C04_info_refuted_saio_without_offsets.

(* ---- non-vacuity ---- *)
Example ex_reader_state : rinv (mkR [0; 0; 0; 16; 102; 114; 101; 101]%N 4 false) = true.
Proof. reflexivity. Qed.
Example ex_reader_guard : rguard (mkR [0; 0; 0; 16; 102; 114; 101; 101]%N 4 false) (RFixedStr 4) = true.
Proof. reflexivity. Qed.
Example ex_reader_step :
  rstep (mkR [0; 0; 0; 16; 102; 114; 101; 101]%N 4 false) (RFixedStr 4)
  = Ok (VBytes [102; 114; 101; 101]%N, mkR [0; 0; 0; 16; 102; 114; 101; 101]%N 8 false).
Proof. vm_compute. reflexivity. Qed.
(* a fragmented file: ftyp moov(no samples) styp moof mdat moof mdat is accepted, grouped into one styp segment
   with two fragments, and encodes in both modes *)
Example ex_assembly :
  match assemble true oR [(TFtyp, 32); (TMoov (MoovChain 5 0), 554); (TStyp, 20);
                          (TMoof [full_traf], 68); (TMdat 4, 12); (TMoof [full_traf], 68); (TMdat 4, 12)] with
  | Ok f => f_frag f = true /\ map obs_segment (f_segs f) =
              [(586, true, 0, [(606, 2, true, true); (686, 2, true, true)])]
            /\ encode_file true false f = Ok tt /\ encode_file true true f = Ok tt /\ info_file true f = Ok tt
  | _ => False
  end.
Proof. vm_compute. repeat split; reflexivity. Qed.

(* moof{traf{}, free} decodes to the same tree on both paths (std leaves), within the cost bounds *)
Example ex_box_bytes : list N :=
  [0;0;0;24;109;111;111;102; 0;0;0;8;116;114;97;102; 0;0;0;8;102;114;101;101]%N.
Example ex_small : small ex_box_bytes = true.
Proof. reflexivity. Qed.
Example ex_box_sr : fst (box_sr std_leaves ex_box_bytes)
  = Ok (Node name_moof [Node name_traf []; Leaf name_free 8]).
Proof. vm_compute. reflexivity. Qed.
Example ex_box_r : fst (box_r std_leaves ex_box_bytes)
  = Ok (BBox (Node name_moof [Node name_traf []; Leaf name_free 8])).
Proof. vm_compute. reflexivity. Qed.
