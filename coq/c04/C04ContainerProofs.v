(* C04ContainerProofs.v — box headers, DecodeBox / DecodeBoxSR and both container child loops:
   for every byte string the result is a box, EOF or an error, never Panic, fuel len+1 suffices, and
   ticks + alloc <= 2*len + 29 (SliceReader) / 6*len + 29 (io.Reader).  Leaf bodies are opaque: any leaf decoder satisfying leaf_ok. *)
From V.lib Require Import Base.
From V.c04 Require Import C04Model C04ReaderProofs.
Open Scope Z_scope.

Definition np {A} (r : res A) : Prop := match r with Panic => False | OutOfFuel => False | _ => True end.
Definition T (c : cost) : Z := Z.of_N (tot c).
Definition rem (s : sst) : Z := rlen (sr s) - rpos (sr s).

Lemma T_tick n c : T (tick n c) = T c + Z.of_N n.
Proof. unfold T, tot, tick. cbn. lia. Qed.
Lemma T_alloc n c : T (allocn n c) = T c + Z.of_N n.
Proof. unfold T, tot, allocn. cbn. lia. Qed.

(* ---------------------------------------------------------------- exact behaviour of the fixed reads *)
Lemma read_fixed_spec k s : Inv s -> 0 <= k ->
  exists v s', read_fixed k s = Ok (v, s') /\ Inv s' /\ rbuf s' = rbuf s /\
    rpos s <= rpos s' /\ (rerr s' = false -> rpos s' = rpos s + k /\ rerr s = false).
Proof.
  intros HI Hk. unfold read_fixed. destruct (rerr s) eqn:Ee.
  { eexists _, _. split; [reflexivity|]. repeat split; try apply HI; try lia; congruence. }
  destruct (rpos s >? rlen s - k) eqn:E.
  { eexists _, _. split; [reflexivity|]. cbn. repeat split; try apply HI; try lia; discriminate. }
  destruct HI as [HI1 HI2].
  destruct (gslice_ok (rbuf s) (rpos s) (rpos s + k)) as [l Hl]; try (unfold rlen in *; lia).
  rewrite Hl. cbn [rbind]. eexists _, _. split; [reflexivity|].
  unfold Inv, with_pos, rlen in *. cbn. repeat split; try lia; assumption.
Qed.

Lemma read_fixed_string_spec n s : Inv s -> 0 <= n < two63 ->
  exists v s', read_fixed_string n s = Ok (v, s') /\ Inv s' /\ rbuf s' = rbuf s /\
    rpos s <= rpos s' /\ (rerr s' = false -> rpos s' = rpos s + n /\ rerr s = false).
Proof.
  intros HI Hn. unfold read_fixed_string. destruct (rerr s) eqn:Ee.
  { eexists _, _. split; [reflexivity|]. repeat split; try apply HI; try lia; congruence. }
  pose proof HI as [HI1 HI2].
  rewrite (w64_id (rlen s - n)) by (unfold two63 in *; lia).
  destruct (rpos s >? rlen s - n) eqn:E.
  { eexists _, _. split; [reflexivity|]. cbn. repeat split; try apply HI; try lia; discriminate. }
  rewrite (w64_id (rpos s + n)) by (unfold two63 in *; lia).
  destruct (gslice_ok (rbuf s) (rpos s) (rpos s + n)) as [l Hl]; try (unfold rlen in *; lia).
  rewrite Hl. cbn [rbind]. eexists _, _. split; [reflexivity|].
  unfold Inv, with_pos, rlen in *. cbn. repeat split; try lia; assumption.
Qed.

(* ---------------------------------------------------------------- DecodeHeaderSR *)
Definition hdr_wf (h : hdr) : Prop := (hlen h = 8%N \/ hlen h = 16%N).

Lemma decode_header_sr_spec s : Inv (sr s) ->
  exists r s', decode_header_sr s = (r, s') /\ np r /\ Inv (sr s') /\ rbuf (sr s') = rbuf (sr s) /\
    rpos (sr s) <= rpos (sr s') /\ scost s' = scost s /\
    (forall h, r = Ok h -> rpos (sr s) + 8 <= rpos (sr s') /\ rerr (sr s') = false /\ hdr_wf h).
Proof.
  intros HI. unfold decode_header_sr.
  destruct (read_fixed_spec 4 (sr s) HI ltac:(lia)) as [size [r1 [E1 [I1 [B1 [P1 Q1]]]]]]. rewrite E1.
  destruct (read_fixed_string_spec 4 r1 I1 ltac:(unfold two63; lia)) as [nm [r2 [E2 [I2 [B2 [P2 Q2]]]]]]. rewrite E2.
  destruct (size =? 1)%N.
  - destruct (read_fixed_spec 8 r2 I2 ltac:(lia)) as [size2 [r3 [E3 [I3 [B3 [P3 Q3]]]]]]. rewrite E3.
    destruct (size2 <? 16)%N.
    { eexists _, _. split; [reflexivity|]. cbn. repeat split; try apply I3; try congruence; try lia; intros; discriminate. }
    destruct (rerr r3) eqn:Ee.
    { eexists _, _. split; [reflexivity|]. cbn. repeat split; try apply I3; try congruence; try lia; intros; discriminate. }
    eexists _, _. split; [reflexivity|]. cbn.
    destruct (Q3 eq_refl) as [Q3a Q3b]. destruct (Q2 Q3b) as [Q2a Q2b]. destruct (Q1 Q2b) as [Q1a Q1b].
    split; [exact I|]. split; [exact I3|]. split; [congruence|]. split; [lia|]. split; [reflexivity|].
    intros h Hh. inversion Hh; subst. cbn. split; [lia|]. split; [exact Ee|right; reflexivity].
  - destruct (size =? 0)%N.
    { eexists _, _. split; [reflexivity|]. cbn. repeat split; try apply I2; try congruence; try lia; intros; discriminate. }
    destruct (size <? 8)%N.
    { eexists _, _. split; [reflexivity|]. cbn. repeat split; try apply I2; try congruence; try lia; intros; discriminate. }
    destruct (rerr r2) eqn:Ee.
    { eexists _, _. split; [reflexivity|]. cbn. repeat split; try apply I2; try congruence; try lia; intros; discriminate. }
    eexists _, _. split; [reflexivity|]. cbn.
    destruct (Q2 eq_refl) as [Q2a Q2b]. destruct (Q1 Q2b) as [Q1a Q1b].
    split; [exact I|]. split; [exact I2|]. split; [congruence|]. split; [lia|]. split; [reflexivity|].
    intros h Hh. inversion Hh; subst. cbn. split; [lia|]. split; [exact Ee|left; reflexivity].
Qed.

(* ---------------------------------------------------------------- the leaf contract *)
Record leaf_ok (ld : leafdec) : Prop := mkLeafOk {
  leaf_sr_ok : forall h s, Inv (sr s) ->
    exists r s', ld_sr ld h s = (r, s') /\ np r /\ Inv (sr s') /\ rbuf (sr s') = rbuf (sr s) /\
      rpos (sr s) <= rpos (sr s') /\ T (scost s') <= T (scost s) + (rpos (sr s') - rpos (sr s)) + 1;
  leaf_r_ok : forall h s, (ipos s <= lenN (ibuf s))%N ->
    exists r s', ld_r ld h s = (r, s') /\ np r /\ ibuf s' = ibuf s /\
      (ipos s <= ipos s' <= lenN (ibuf s))%N /\
      T (icost s') <= T (icost s) + (Z.of_N (ipos s') - Z.of_N (ipos s)) + 1 }.

(* ---------------------------------------------------------------- SR path *)
Section SR.
Variable ld : leafdec.
Hypothesis LD : leaf_ok ld.

(* result contracts *)
Definition box_post (s : sst) (r : res tree) (s' : sst) : Prop :=
  Inv (sr s') /\ rbuf (sr s') = rbuf (sr s) /\ rpos (sr s) <= rpos (sr s') /\
  T (scost s') <= T (scost s) + 2 * (rpos (sr s') - rpos (sr s)) + 29 /\
  (forall t, r = Ok t -> rpos (sr s) + 8 <= rpos (sr s') /\
                         T (scost s') <= T (scost s) + 2 * (rpos (sr s') - rpos (sr s)) - 2).
Definition kids_post (s : sst) (r : res (list tree)) (s' : sst) : Prop :=
  Inv (sr s') /\ rbuf (sr s') = rbuf (sr s) /\ rpos (sr s) <= rpos (sr s') /\
  T (scost s') <= T (scost s) + 2 * (rpos (sr s') - rpos (sr s)) + 36 /\
  (forall l, r = Ok l -> T (scost s') <= T (scost s) + 2 * (rpos (sr s') - rpos (sr s)) + 3).

Ltac fin := repeat match goal with x := _ |- _ => subst x end;
  unfold box_post, kids_post in *; cbn [scharge sr scost] in *; unfold Inv, rlen, err_msg_ticks in *; rewrite ?T_tick in *;
  repeat split; try congruence; try lia; try (intros; discriminate).

Lemma sr_loops : forall fuel,
  (forall sp s, Inv (sr s) ->
     exists r s', dec_box_sr ld fuel sp s = (r, s') /\ r <> Panic /\ (rem s < Z.of_nat fuel -> r <> OutOfFuel) /\
                  box_post s r s') /\
  (forall sp pos endPos initPos acc s, Inv (sr s) ->
     exists r s', children_sr ld fuel sp pos endPos initPos acc s = (r, s') /\ r <> Panic /\
                  (rem s + 1 < Z.of_nat fuel -> r <> OutOfFuel) /\ kids_post s r s').
Proof.
  induction fuel as [|f [IHb IHk]].
  { split; intros.
    - eexists _, _. split; [reflexivity|]. split; [discriminate|].
      split; [intros Hf; exfalso; unfold rem, Inv in *; lia|]. fin.
    - eexists _, _. split; [reflexivity|]. split; [discriminate|].
      split; [intros Hf; exfalso; unfold rem, Inv in *; lia|]. fin. }
  split.
  - (* dec_box_sr *)
    intros sp s0 HI. cbn [dec_box_sr]. fold (children_sr ld).
    set (s := scharge (tick 1) s0).
    assert (HIs : Inv (sr s)) by exact HI.
    destruct (decode_header_sr_spec s HIs) as [rh [s1 [Eh [NPh [I1 [B1 [P1 [C1 Q1]]]]]]]]. rewrite Eh.
    assert (TC1 : T (scost s1) = T (scost s0) + 1) by (rewrite C1; subst s; cbn [scharge scost]; rewrite T_tick; lia).
    change (sr s) with (sr s0) in *. clear C1 Eh.
    destruct rh as [h| | |]; try contradiction.
    2:{ eexists _, _. split; [reflexivity|]. split; [discriminate|]. split; [discriminate|]. fin. }
    destruct (Q1 h eq_refl) as [Q1a [Q1b Q1c]]. clear Q1.
    destruct ((addu64 (u64z (nr_remaining (sr s1))) (hlen h) <? hsize h)%N && negb (eqb_name (hname h) name_mdat)).
    { eexists _, _. split; [reflexivity|]. split; [discriminate|]. split; [discriminate|]. fin. }
    destruct (ld_kind ld (hname h)).
    + (* leaf *)
      destruct (leaf_sr_ok ld LD h s1 I1) as [rl [s2 [El [NPl [I2 [B2 [P2 C2]]]]]]]. rewrite El.
      destruct rl; try contradiction.
      * eexists _, _. split; [reflexivity|]. split; [discriminate|]. split; [discriminate|]. fin.
      * eexists _, _. split; [reflexivity|]. split; [discriminate|]. split; [discriminate|]. fin.
    + (* generic container *)
      set (s1' := scharge (allocn 8) s1).
      assert (T1 : T (scost s1') = T (scost s0) + 9) by (subst s1'; cbn [scharge scost]; rewrite T_alloc; lia).
      assert (I1' : Inv (sr s1')) by exact I1.
      destruct (IHk (addu64 sp 8) (addu64 sp 8) (addu64 sp (hsize h)) (rpos (sr s1)) [] s1' I1')
        as [rk [s2 [Ek [NPk [Fk [I2 [B2 [P2 [C2 Q2]]]]]]]]]. rewrite Ek.
      assert (HF : rem s0 < Z.of_nat (S f) -> rem s1' + 1 < Z.of_nat f).
      { unfold rem, rlen. change (sr s1') with (sr s1). rewrite B1. lia. }
      destruct rk; try contradiction.
      * eexists _, _. split; [reflexivity|]. split; [discriminate|]. split; [discriminate|]. fin.
      * eexists _, _. split; [reflexivity|]. split; [discriminate|]. split; [discriminate|]. fin.
      * eexists _, _. split; [reflexivity|]. split; [discriminate|].
        split; [intros Hf; exfalso; apply (Fk (HF Hf)); reflexivity|]. fin.
    + (* moov / moof *)
      set (s1' := scharge (allocn 8) s1).
      assert (T1 : T (scost s1') = T (scost s0) + 9) by (subst s1'; cbn [scharge scost]; rewrite T_alloc; lia).
      assert (I1' : Inv (sr s1')) by exact I1.
      destruct (IHk (addu64 sp 8) (addu64 sp 8) (addu64 sp (hsize h)) (rpos (sr s1)) [] s1' I1')
        as [rk [s2 [Ek [NPk [Fk [I2 [B2 [P2 [C2 Q2]]]]]]]]]. rewrite Ek.
      assert (HF : rem s0 < Z.of_nat (S f) -> rem s1' + 1 < Z.of_nat f).
      { unfold rem, rlen. change (sr s1') with (sr s1). rewrite B1. lia. }
      destruct rk; try contradiction.
      * destruct (accerr && rerr (sr s2)).
        -- eexists _, _. split; [reflexivity|]. split; [discriminate|]. split; [discriminate|]. fin.
        -- eexists _, _. split; [reflexivity|]. split; [discriminate|]. split; [discriminate|]. fin.
      * eexists _, _. split; [reflexivity|]. split; [discriminate|]. split; [discriminate|]. fin.
      * eexists _, _. split; [reflexivity|]. split; [discriminate|].
        split; [intros Hf; exfalso; apply (Fk (HF Hf)); reflexivity|]. fin.
  - (* children_sr *)
    intros sp pos endPos initPos acc s HI. cbn [children_sr]. fold (dec_box_sr ld). fold (children_sr ld).
    destruct (endPos <? pos)%N.
    { eexists _, _. split; [reflexivity|]. split; [discriminate|]. split; [discriminate|]. fin. }
    destruct (pos =? endPos)%N.
    { eexists _, _. split; [reflexivity|]. split; [discriminate|]. split; [discriminate|]. fin. }
    set (s0 := scharge (tick 1) s).
    assert (T0 : T (scost s0) = T (scost s) + 1) by (subst s0; cbn [scharge scost]; rewrite T_tick; lia).
    assert (R0 : rem s0 = rem s) by reflexivity.
    assert (HI0 : Inv (sr s0)) by exact HI.
    destruct (IHb pos s0 HI0) as [rb [s1 [Eb [NPb [Fb [I1 [B1 [P1 [C1 Q1]]]]]]]]]. rewrite Eb.
    change (sr s0) with (sr s) in *.
    destruct rb as [child| | |]; try contradiction.
    + destruct (Q1 child eq_refl) as [Q1a Q1b]. clear Q1.
      set (s2 := scharge (allocn 1) s1).
      assert (T2 : T (scost s2) = T (scost s1) + 1) by (subst s2; cbn [scharge scost]; rewrite T_alloc; lia).
      assert (I2' : Inv (sr s2)) by exact I1.
      destruct (int_of_u64 (subu64 (addu64 pos (tsize child)) sp) =? rpos (sr s2) - initPos).
      * destruct (IHk sp (addu64 pos (tsize child)) endPos initPos (child :: acc) s2 I2')
          as [rk [s3 [Ek [NPk [Fk [I3 [B3 [P3 [C3 Q3]]]]]]]]]. rewrite Ek.
        assert (R2 : rem s2 + 8 <= rem s) by (unfold rem, rlen; change (sr s2) with (sr s1); rewrite B1; lia).
        eexists _, _. split; [reflexivity|]. split; [assumption|].
        split; [intros Hf; apply Fk; lia|]. fin.
      * eexists _, _. split; [reflexivity|]. split; [discriminate|]. split; [discriminate|]. fin.
    + eexists _, _. split; [reflexivity|]. split; [discriminate|]. split; [discriminate|]. fin.
    + eexists _, _. split; [reflexivity|]. split; [discriminate|].
      split; [intros Hf; exfalso; apply Fb; [lia|reflexivity]|]. fin.
Qed.

End SR.

(* ---------------------------------------------------------------- io.Reader path *)
Definition ip (s : ist) : Z := Z.of_N (ipos s).
Definition il (s : ist) : Z := Z.of_N (lenN (ibuf s)).
Definition IInv (s : ist) : Prop := ip s <= il s /\ il s < two63.

Lemma length_firstn_skipn (l : list N) a b : (length (firstn a (skipn b l)) <= length l)%nat.
Proof. rewrite firstn_length, skipn_length. lia. Qed.

Lemma read_full_spec s : IInv s ->
  exists r s', read_full 8 s = (r, s') /\ ibuf s' = ibuf s /\ icost s' = icost s /\ ip s <= ip s' <= il s /\
    match r with RFOk bs => ip s' = ip s + 8 /\ length bs = 8%nat | _ => True end.
Proof.
  intros [H1 H2]. unfold read_full, iavail, ip, il in *. 
  destruct (lenN (ibuf s) - ipos s =? 0)%N eqn:E0.
  { eexists _, _. split; [reflexivity|]. repeat split; lia. }
  destruct (lenN (ibuf s) - ipos s <? 8)%N eqn:E1.
  { eexists _, _. split; [reflexivity|]. cbn. repeat split; lia. }
  eexists _, _. split; [reflexivity|]. cbn. repeat split; try lia.
  rewrite firstn_length, skipn_length. unfold lenN in *. lia.
Qed.

Definition hout_hdr (r : res hout) (h : hdr) : Prop := r = Ok (HHdr h).

Lemma decode_header_spec s : IInv s ->
  exists r s', decode_header s = (r, s') /\ np r /\ ibuf s' = ibuf s /\ ip s <= ip s' <= il s /\
    T (icost s') <= T (icost s) + 16 /\
    (forall h, r = Ok (HHdr h) -> ip s + 8 <= ip s' /\ hdr_wf h).
Proof.
  intros HI. unfold decode_header.
  set (s0 := icharge (allocn 8) s).
  assert (HI0 : IInv s0) by exact HI.
  assert (T0 : T (icost s0) = T (icost s) + 8) by (subst s0; cbn [icharge icost]; rewrite T_alloc; lia).
  destruct (read_full_spec s0 HI0) as [r [s1 [E1 [B1 [C1 [P1 Q1]]]]]]. rewrite E1.
  change (ip s0) with (ip s) in *. change (il s0) with (il s) in *. change (ibuf s0) with (ibuf s) in *.
  destruct r as [buf| |].
  2:{ eexists _, _. split; [reflexivity|]. rewrite C1. repeat split; try exact I; try assumption; try lia; intros; discriminate. }
  2:{ eexists _, _. split; [reflexivity|]. rewrite C1. repeat split; try exact I; try assumption; try lia; intros; discriminate. }
  destruct Q1 as [Q1 L1].
  destruct (gslice_ok buf 0 4) as [b4 H4]; try (unfold zlen; lia). rewrite H4.
  destruct (gslice_ok buf 4 8) as [nm H8]; try (unfold zlen; lia). rewrite H8.
  assert (HI1 : IInv s1) by (unfold IInv, il in *; rewrite B1; lia).
  destruct (be b4 0 =? 1)%N.
  - set (s2 := icharge (allocn 8) s1).
    assert (HI2 : IInv s2) by exact HI1.
    assert (T2 : T (icost s2) = T (icost s) + 16) by (subst s2; cbn [icharge icost]; rewrite T_alloc, C1; lia).
    destruct (read_full_spec s2 HI2) as [r2 [s3 [E3 [B3 [C3 [P3 Q3]]]]]]. rewrite E3.
    change (ip s2) with (ip s1) in *. change (il s2) with (il s1) in *.
    assert (L13 : il s1 = il s) by (unfold il; rewrite B1; reflexivity).
    assert (B31 : ibuf s3 = ibuf s) by (rewrite B3; exact B1).
    destruct r2 as [buf2| |].
    + destruct (be buf2 0 <? 16)%N.
      * eexists _, _. split; [reflexivity|]. rewrite C3. repeat split; try exact I; try assumption; try lia; intros; discriminate.
      * eexists _, _. split; [reflexivity|]. rewrite C3. split; [exact I|]. split; [assumption|]. split; [lia|]. split; [lia|].
        intros h Hh. inversion Hh; subst. cbn. split; [lia|right; reflexivity].
    + eexists _, _. split; [reflexivity|]. rewrite C3. repeat split; try exact I; try assumption; try lia; intros; discriminate.
    + eexists _, _. split; [reflexivity|]. rewrite C3. repeat split; try exact I; try assumption; try lia; intros; discriminate.
  - destruct (be b4 0 =? 0)%N.
    { eexists _, _. split; [reflexivity|]. rewrite C1. repeat split; try exact I; try assumption; try lia; intros; discriminate. }
    destruct (be b4 0 <? 8)%N.
    { eexists _, _. split; [reflexivity|]. rewrite C1. repeat split; try exact I; try assumption; try lia; intros; discriminate. }
    eexists _, _. split; [reflexivity|]. rewrite C1. split; [exact I|]. split; [assumption|]. split; [lia|]. split; [lia|].
    intros h Hh. inversion Hh; subst. cbn. split; [lia|left; reflexivity].
Qed.

Lemma read_limited_spec n s : IInv s ->
  exists data s', read_limited n s = (data, s') /\ ibuf s' = ibuf s /\ ip s <= ip s' <= il s /\
    zlen data = ip s' - ip s /\ T (icost s') = T (icost s) + (ip s' - ip s).
Proof.
  intros [H1 H2]. unfold read_limited. destruct (n <=? 0) eqn:E.
  { eexists _, _. split; [reflexivity|]. unfold zlen. cbn. repeat split; lia. }
  eexists _, _. split; [reflexivity|]. unfold ip, il, iavail, zlen in *. cbn [ibuf ipos icost].
  rewrite T_alloc. rewrite firstn_length, skipn_length. unfold lenN in *. repeat split; lia.
Qed.

Section RD.
Variable ld : leafdec.
Hypothesis LD : leaf_ok ld.

Definition K : Z := 6.
Definition rbox_post (s : ist) (r : res bout) (s' : ist) : Prop :=
  ibuf s' = ibuf s /\ ip s <= ip s' <= il s /\
  T (icost s') <= T (icost s) + K * (ip s' - ip s) + 29 /\
  (forall t, r = Ok (BBox t) -> ip s + 8 <= ip s' /\ T (icost s') <= T (icost s) + K * (ip s' - ip s) - 2) /\
  (r = Ok BEof -> T (icost s') <= T (icost s) + 17).
Definition rkids_post (s : ist) (r : res (list tree)) (s' : ist) : Prop :=
  ibuf s' = ibuf s /\ ip s <= ip s' <= il s /\
  T (icost s') <= T (icost s) + K * (ip s' - ip s) + 52 /\
  (forall l, r = Ok l -> T (icost s') <= T (icost s) + K * (ip s' - ip s) + 18).
Definition irem (s : ist) : Z := il s - ip s.

Ltac rfin := repeat match goal with x := _ |- _ => subst x end;
  unfold rbox_post, rkids_post, K, IInv, irem, err_msg_ticks, ip, il in *; cbn [icharge ibuf ipos icost] in *; rewrite ?T_tick in *;
  repeat split; try congruence; try lia; try (intros; discriminate).

Lemma r_loops : forall fuel,
  (forall sp s, IInv s ->
     exists r s', dec_box_r ld fuel sp s = (r, s') /\ r <> Panic /\ (irem s < Z.of_nat fuel -> r <> OutOfFuel) /\
                  rbox_post s r s') /\
  (forall pos endPos acc s, IInv s ->
     exists r s', children_r ld fuel pos endPos acc s = (r, s') /\ r <> Panic /\
                  (irem s + 1 < Z.of_nat fuel -> r <> OutOfFuel) /\ rkids_post s r s').
Proof.
  induction fuel as [|f [IHb IHk]].
  { split; intros.
    - eexists _, _. split; [reflexivity|]. split; [discriminate|].
      split; [intros Hf; exfalso; unfold irem, IInv in *; lia|]. rfin.
    - eexists _, _. split; [reflexivity|]. split; [discriminate|].
      split; [intros Hf; exfalso; unfold irem, IInv in *; lia|]. rfin. }
  split.
  - intros sp s0 HI. cbn [dec_box_r]. fold (children_r ld). 
    set (s := icharge (tick 1) s0).
    assert (HIs : IInv s) by exact HI.
    assert (Ts : T (icost s) = T (icost s0) + 1) by (subst s; cbn [icharge icost]; rewrite T_tick; lia).
    destruct (decode_header_spec s HIs) as [rh [s1 [Eh [NPh [B1 [P1 [C1 Q1]]]]]]]. rewrite Eh.
    change (ip s) with (ip s0) in *. change (il s) with (il s0) in *. change (ibuf s) with (ibuf s0) in *.
    assert (L1 : il s1 = il s0) by (unfold il; rewrite B1; reflexivity).
    assert (HI1 : IInv s1) by (unfold IInv in *; lia).
    destruct rh as [[|h]| | |]; try contradiction.
    { eexists _, _. split; [reflexivity|]. split; [discriminate|]. split; [discriminate|]. clear Eh. rfin. }
    2:{ eexists _, _. split; [reflexivity|]. split; [discriminate|]. split; [discriminate|]. clear Eh. rfin. }
    destruct (Q1 h eq_refl) as [Q1a Q1b]. clear Q1 Eh.
    destruct (ld_kind ld (hname h)).
    + destruct (leaf_r_ok ld LD h s1) as [rl [s2 [El [NPl [B2 [P2 C2]]]]]]; [unfold IInv, ip, il in *; lia|]. rewrite El.
      assert (P2' : ip s1 <= ip s2 <= il s1) by (unfold ip, il; lia).
      assert (C2' : T (icost s2) <= T (icost s1) + (ip s2 - ip s1) + 1) by (unfold ip; lia).
      clear P2 C2 El.
      destruct rl; try contradiction.
      * eexists _, _. split; [reflexivity|]. split; [discriminate|]. split; [discriminate|]. rfin.
      * eexists _, _. split; [reflexivity|]. split; [discriminate|]. split; [discriminate|]. rfin.
    + set (s1' := icharge (allocn 8) s1).
      assert (T1 : T (icost s1') = T (icost s1) + 8) by (subst s1'; cbn [icharge icost]; rewrite T_alloc; lia).
      assert (HI1' : IInv s1') by exact HI1.
      destruct (IHk (addu64 sp 8) (addu64 sp (hsize h)) [] s1' HI1') as [rk [s2 [Ek [NPk [Fk [B2 [P2 [C2 Q2]]]]]]]]. rewrite Ek.
      change (ip s1') with (ip s1) in *. change (il s1') with (il s1) in *. change (ibuf s1') with (ibuf s1) in *.
      assert (HF : irem s0 < Z.of_nat (S f) -> irem s1' + 1 < Z.of_nat f).
      { unfold irem. change (ip s1') with (ip s1). change (il s1') with (il s1). lia. }
      clear Ek.
      destruct rk; try contradiction.
      * specialize (Q2 _ eq_refl).
        eexists _, _. split; [reflexivity|]. split; [discriminate|]. split; [discriminate|]. rfin.
      * eexists _, _. split; [reflexivity|]. split; [discriminate|]. split; [discriminate|]. rfin.
      * eexists _, _. split; [reflexivity|]. split; [discriminate|].
        split; [intros Hf; exfalso; apply (Fk (HF Hf)); reflexivity|]. rfin.
    + destruct (read_limited_spec (payload_len h) s1 HI1) as [data [s2 [El [B2 [P2 [L2 C2]]]]]]. rewrite El.
      destruct (negb (zlen data =? payload_len h)).
      { eexists _, _. split; [reflexivity|]. split; [discriminate|]. split; [discriminate|]. clear El. rfin. }
      set (ss := mkS (rnew data) (allocn 8 (icost s2))).
      assert (HIss : Inv (sr ss)).
      { unfold Inv, rlen. change (rbuf (sr ss)) with data. change (rpos (sr ss)) with 0.
        assert (0 <= zlen data) by (unfold zlen; lia). unfold IInv, ip, il in *. lia. }
      destruct (sr_loops ld LD f) as [_ SK].
      destruct (SK (addu64 sp 8) (addu64 sp 8) (addu64 sp (hsize h)) 0 [] ss HIss)
        as [rk [ss' [Ek [NPk [Fk [I3 [B3 [P3 [C3 Q3]]]]]]]]]. rewrite Ek.
      assert (Tss : T (scost ss) = T (icost s2) + 8) by (subst ss; cbn [scost]; rewrite T_alloc; lia).
      assert (Rss : rpos (sr ss') <= zlen data).
      { unfold Inv, rlen in I3. rewrite B3 in I3. change (rbuf (sr ss)) with data in I3. lia. }
      assert (R0 : rpos (sr ss) = 0) by reflexivity.
      assert (HF : irem s0 < Z.of_nat (S f) -> rem ss + 1 < Z.of_nat f).
      { unfold irem, rem, rlen. change (rbuf (sr ss)) with data. change (rpos (sr ss)) with 0. unfold IInv, ip, il in *. lia. }
      clear Ek El.
      destruct rk; try contradiction.
      * eexists _, _. split; [reflexivity|]. split; [discriminate|]. split; [discriminate|].
        unfold rbox_post, K, ip, il in *. cbn [ibuf ipos icost]. repeat split; try congruence; try lia.
      * eexists _, _. split; [reflexivity|]. split; [discriminate|]. split; [discriminate|].
        unfold rbox_post, K, ip, il in *. cbn [ibuf ipos icost]. repeat split; try congruence; try lia; intros; discriminate.
      * eexists _, _. split; [reflexivity|]. split; [discriminate|].
        split; [intros Hf; exfalso; apply (Fk (HF Hf)); reflexivity|].
        unfold rbox_post, K, ip, il in *. cbn [ibuf ipos icost]. repeat split; try congruence; try lia; intros; discriminate.
  - intros pos endPos acc s HI. cbn [children_r]. fold (dec_box_r ld). fold (children_r ld).
    destruct (pos =? endPos)%N.
    { eexists _, _. split; [reflexivity|]. split; [discriminate|]. split; [discriminate|]. rfin. }
    destruct (endPos <? pos)%N.
    { eexists _, _. split; [reflexivity|]. split; [discriminate|]. split; [discriminate|]. rfin. }
    set (s0 := icharge (tick 1) s).
    assert (T0 : T (icost s0) = T (icost s) + 1) by (subst s0; cbn [icharge icost]; rewrite T_tick; lia).
    assert (HI0 : IInv s0) by exact HI.
    destruct (IHb pos s0 HI0) as [rb [s1 [Eb [NPb [Fb [B1 [P1 [C1 [Q1 QE]]]]]]]]]. rewrite Eb.
    change (ip s0) with (ip s) in *. change (il s0) with (il s) in *. change (ibuf s0) with (ibuf s) in *.
    assert (R0 : irem s0 = irem s) by reflexivity.
    assert (L1 : il s1 = il s) by (unfold il; rewrite B1; reflexivity).
    clear Eb.
    destruct rb as [[|child]| | |]; try contradiction.
    + specialize (QE eq_refl). eexists _, _. split; [reflexivity|]. split; [discriminate|]. split; [discriminate|]. rfin.
    + destruct (Q1 child eq_refl) as [Q1a Q1b]. clear Q1.
      set (s2 := icharge (allocn 1) s1).
      assert (T2 : T (icost s2) = T (icost s1) + 1) by (subst s2; cbn [icharge icost]; rewrite T_alloc; lia).
      assert (HI2 : IInv s2) by (unfold IInv in *; change (ip s2) with (ip s1); change (il s2) with (il s1); lia).
      destruct (IHk (addu64 pos (tsize child)) endPos (child :: acc) s2 HI2) as [rk [s3 [Ek [NPk [Fk [B3 [P3 [C3 Q3]]]]]]]]. rewrite Ek.
      change (ip s2) with (ip s1) in *. change (il s2) with (il s1) in *. change (ibuf s2) with (ibuf s1) in *.
      assert (R2 : irem s2 + 8 <= irem s) by (unfold irem; change (ip s2) with (ip s1); change (il s2) with (il s1); lia).
      clear Ek.
      eexists _, _. split; [reflexivity|]. split; [assumption|].
      split; [intros Hf; apply Fk; lia|].
      unfold rkids_post, K in *. repeat split; try congruence; try lia.
    + eexists _, _. split; [reflexivity|]. split; [discriminate|]. split; [discriminate|]. rfin.
    + eexists _, _. split; [reflexivity|]. split; [discriminate|].
      split; [intros Hf; exfalso; apply Fb; [lia|reflexivity]|]. rfin.
Qed.

End RD.

(* ---------------------------------------------------------------- the concrete leaves satisfy the contract *)
Lemma read_bytes_spec n s : Inv s ->
  exists v s', read_bytes n s = Ok (v, s') /\ Inv s' /\ rbuf s' = rbuf s /\ rpos s <= rpos s'.
Proof.
  intros HI. unfold read_bytes.
  destruct (n <? 0) eqn:En. { eexists _, _. split; [reflexivity|]. cbn. repeat split; try apply HI; lia. }
  destruct (rerr s). { eexists _, _. split; [reflexivity|]. repeat split; try apply HI; lia. }
  destruct (rpos s >? rlen s - n) eqn:E.
  { eexists _, _. split; [reflexivity|]. cbn. repeat split; try apply HI; lia. }
  pose proof HI as [HI1 HI2].
  destruct (gslice_ok (rbuf s) (rpos s) (rpos s + n)) as [l Hl]; try (unfold rlen in *; lia).
  rewrite Hl. cbn [rbind]. eexists _, _. split; [reflexivity|].
  unfold Inv, with_pos, rlen in *. cbn. repeat split; try lia; assumption.
Qed.

Lemma std_leaves_ok : leaf_ok std_leaves.
Proof.
  constructor.
  - intros h s HI. cbn [ld_sr std_leaves]. unfold std_sr.
    destruct (read_bytes_spec (payload_len h) (sr s) HI) as [body [r1 [E [I1 [B1 P1]]]]]. rewrite E.
    destruct (eqb_name (hname h) name_mdat).
    { eexists _, _. split; [reflexivity|]. cbn. repeat split; try apply I1; try assumption; lia. }
    destruct (rerr r1).
    { eexists _, _. split; [reflexivity|]. cbn. repeat split; try apply I1; try assumption; lia. }
    destruct (eqb_name (hname h) name_free || eqb_name (hname h) name_skip);
      eexists _, _; (split; [reflexivity|]); cbn; repeat split; try apply I1; try assumption; lia.
  - intros h s HI. cbn [ld_r std_leaves]. unfold std_r, read_box_body.
    destruct (hlen h =? hsize h)%N.
    { destruct (eqb_name (hname h) name_mdat); [|destruct (eqb_name (hname h) name_free || eqb_name (hname h) name_skip)];
        eexists _, _; (split; [reflexivity|]); cbn; repeat split; lia. }
    unfold read_limited.
    destruct (int_of_u64 (subu64 (hsize h) (hlen h)) <=? 0) eqn:En.
    { destruct (zlen (@nil N) =? int_of_u64 (subu64 (hsize h) (hlen h)));
        [destruct (eqb_name (hname h) name_mdat); [|destruct (eqb_name (hname h) name_free || eqb_name (hname h) name_skip)]|];
        eexists _, _; (split; [reflexivity|]); cbn; repeat split; lia. }
    set (k := N.min (Z.to_N (int_of_u64 (subu64 (hsize h) (hlen h)))) (iavail s)).
    assert (Hk : (k <= lenN (ibuf s) - ipos s)%N) by (subst k; unfold iavail; lia).
    match goal with |- context [zlen ?d =? ?x] => destruct (zlen d =? x) end;
      [destruct (eqb_name (hname h) name_mdat); [|destruct (eqb_name (hname h) name_free || eqb_name (hname h) name_skip)]|];
      eexists _, _; (split; [reflexivity|]); cbn [np ibuf ipos icost]; rewrite ?T_alloc; repeat split; try exact I; lia.
Qed.

(* ---------------------------------------------------------------- top-level statements *)
Definition small (bs : list N) : bool := zlen bs <? two63.     (* every Go slice *)

Theorem container_total_sr : forall ld, leaf_ok ld -> forall bs, small bs = true ->
  exists r s', box_sr ld bs = (r, s') /\ (r = Err \/ exists t, r = Ok t) /\
               (tot (scost s') <= 2 * lenN bs + 29)%N.
Proof.
  intros ld LD bs Hs. unfold box_sr, small in *.
  destruct (sr_loops ld LD (S (length bs))) as [HB _].
  assert (HI : Inv (sr (snew bs))) by (unfold Inv, rlen; cbn; unfold zlen in *; lia).
  destruct (HB 0%N (snew bs) HI) as [r [s' [E [NP [NF [I1 [B1 [P1 [C1 Q1]]]]]]]]].
  exists r, s'. split; [exact E|].
  assert (NF' : r <> OutOfFuel) by (apply NF; unfold rem, rlen; cbn; unfold zlen; lia).
  split; [destruct r; [right; eauto|left; reflexivity|contradiction|contradiction]|].
  unfold Inv, rlen in I1. rewrite B1 in I1. cbn [snew sr rnew rbuf rpos scost] in *.
  unfold T, tot in *. cbn [cost0 ticks alloc] in *. unfold zlen, lenN in *. lia.
Qed.

Theorem container_total_r : forall ld, leaf_ok ld -> forall bs, small bs = true ->
  exists r s', box_r ld bs = (r, s') /\ (r = Err \/ r = Ok BEof \/ exists t, r = Ok (BBox t)) /\
               (tot (icost s') <= 6 * lenN bs + 29)%N.
Proof.
  intros ld LD bs Hs. unfold box_r, small in *.
  destruct (r_loops ld LD (S (length bs))) as [HB _].
  assert (HI : IInv (inew bs)) by (unfold IInv, ip, il; cbn; unfold zlen, lenN in *; lia).
  destruct (HB 0%N (inew bs) HI) as [r [s' [E [NP [NF [B1 [P1 [C1 Q1]]]]]]]].
  exists r, s'. split; [exact E|].
  assert (NF' : r <> OutOfFuel) by (apply NF; unfold irem, ip, il; cbn; unfold lenN; lia).
  split; [destruct r as [[|t]| | |]; [right; left; reflexivity|right; right; eauto|left; reflexivity|contradiction|contradiction]|].
  unfold K, ip, il, T, tot in *. cbn [inew ibuf ipos icost cost0 ticks alloc] in *. unfold lenN in *. lia.
Qed.

(* both header decoders on every state of their byte source *)
Theorem header_total :
  (forall s, IInv s -> exists r s', decode_header s = (r, s') /\ np r /\ T (icost s') <= T (icost s) + 16) /\
  (forall s, Inv (sr s) -> exists r s', decode_header_sr s = (r, s') /\ np r /\ Inv (sr s') /\ scost s' = scost s).
Proof.
  split.
  - intros s HI. destruct (decode_header_spec s HI) as [r [s' [E [NP [_ [_ [C _]]]]]]]. eauto.
  - intros s HI. destruct (decode_header_sr_spec s HI) as [r [s' [E [NP [I1 [_ [_ [C _]]]]]]]]. eauto 6.
Qed.
