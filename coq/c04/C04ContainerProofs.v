(* C04ContainerProofs.v — box headers, DecodeBox / DecodeBoxSR and both container child loops:
   for every byte string the result is a box, EOF or an error, never Panic, fuel len+1 suffices, and
   ticks + alloc <= 2*len + 10.  Leaf bodies are opaque: any leaf decoder satisfying leaf_ok. *)
From V.lib Require Import Base.
From V.c04 Require Import C04Model C04ReaderProofs.
Open Scope Z_scope.

Definition np {A} (r : res A) : Prop := match r with Panic => False | OutOfFuel => False | _ => True end.
Definition T (c : cost) : Z := Z.of_N (tot c).
Definition rem (s : sst) : Z := rlen (sr s) - rpos (sr s).

Lemma T_tick n c : T (tick n c) = T c + Z.of_N n.
Proof. unfold T, tot, tick. cbn. lia. Qed.
Lemma T_alloc n c : T (allocn n c) = T c + Z.of_N n.
Proof. unfold T, tot, allocn. cbn. lia. Qed.

(* ---------------------------------------------------------------- exact behaviour of the fixed reads *)
Lemma read_fixed_spec k s : Inv s -> 0 <= k ->
  exists v s', read_fixed k s = Ok (v, s') /\ Inv s' /\ rbuf s' = rbuf s /\
    rpos s <= rpos s' /\ (rerr s' = false -> rpos s' = rpos s + k /\ rerr s = false).
Proof.
  intros HI Hk. unfold read_fixed. destruct (rerr s) eqn:Ee.
  { eexists _, _. split; [reflexivity|]. repeat split; try apply HI; try lia; congruence. }
  destruct (rpos s >? rlen s - k) eqn:E.
  { eexists _, _. split; [reflexivity|]. cbn. repeat split; try apply HI; try lia; discriminate. }
  destruct HI as [HI1 HI2].
  destruct (gslice_ok (rbuf s) (rpos s) (rpos s + k)) as [l Hl]; try (unfold rlen in *; lia).
  rewrite Hl. cbn [rbind]. eexists _, _. split; [reflexivity|].
  unfold Inv, with_pos, rlen in *. cbn. repeat split; try lia; assumption.
Qed.

Lemma read_fixed_string_spec n s : Inv s -> 0 <= n < two63 ->
  exists v s', read_fixed_string n s = Ok (v, s') /\ Inv s' /\ rbuf s' = rbuf s /\
    rpos s <= rpos s' /\ (rerr s' = false -> rpos s' = rpos s + n /\ rerr s = false).
Proof.
  intros HI Hn. unfold read_fixed_string. destruct (rerr s) eqn:Ee.
  { eexists _, _. split; [reflexivity|]. repeat split; try apply HI; try lia; congruence. }
  pose proof HI as [HI1 HI2].
  rewrite (w64_id (rlen s - n)) by (unfold two63 in *; lia).
  destruct (rpos s >? rlen s - n) eqn:E.
  { eexists _, _. split; [reflexivity|]. cbn. repeat split; try apply HI; try lia; discriminate. }
  rewrite (w64_id (rpos s + n)) by (unfold two63 in *; lia).
  destruct (gslice_ok (rbuf s) (rpos s) (rpos s + n)) as [l Hl]; try (unfold rlen in *; lia).
  rewrite Hl. cbn [rbind]. eexists _, _. split; [reflexivity|].
  unfold Inv, with_pos, rlen in *. cbn. repeat split; try lia; assumption.
Qed.

(* ---------------------------------------------------------------- DecodeHeaderSR *)
Definition hdr_wf (h : hdr) : Prop := (hlen h = 8%N \/ hlen h = 16%N).

Lemma decode_header_sr_spec s : Inv (sr s) ->
  exists r s', decode_header_sr s = (r, s') /\ np r /\ Inv (sr s') /\ rbuf (sr s') = rbuf (sr s) /\
    rpos (sr s) <= rpos (sr s') /\ scost s' = scost s /\
    (forall h, r = Ok h -> rpos (sr s) + 8 <= rpos (sr s') /\ rerr (sr s') = false /\ hdr_wf h).
Proof.
  intros HI. unfold decode_header_sr.
  destruct (read_fixed_spec 4 (sr s) HI ltac:(lia)) as [size [r1 [E1 [I1 [B1 [P1 Q1]]]]]]. rewrite E1.
  destruct (read_fixed_string_spec 4 r1 I1 ltac:(unfold two63; lia)) as [nm [r2 [E2 [I2 [B2 [P2 Q2]]]]]]. rewrite E2.
  destruct (size =? 1)%N.
  - destruct (read_fixed_spec 8 r2 I2 ltac:(lia)) as [size2 [r3 [E3 [I3 [B3 [P3 Q3]]]]]]. rewrite E3.
    destruct (size2 <? 16)%N.
    { eexists _, _. split; [reflexivity|]. cbn. repeat split; try apply I3; try congruence; try lia; intros; discriminate. }
    destruct (rerr r3) eqn:Ee.
    { eexists _, _. split; [reflexivity|]. cbn. repeat split; try apply I3; try congruence; try lia; intros; discriminate. }
    eexists _, _. split; [reflexivity|]. cbn.
    destruct (Q3 eq_refl) as [Q3a Q3b]. destruct (Q2 Q3b) as [Q2a Q2b]. destruct (Q1 Q2b) as [Q1a Q1b].
    split; [exact I|]. split; [exact I3|]. split; [congruence|]. split; [lia|]. split; [reflexivity|].
    intros h Hh. inversion Hh; subst. cbn. split; [lia|]. split; [exact Ee|right; reflexivity].
  - destruct (size =? 0)%N.
    { eexists _, _. split; [reflexivity|]. cbn. repeat split; try apply I2; try congruence; try lia; intros; discriminate. }
    destruct (size <? 8)%N.
    { eexists _, _. split; [reflexivity|]. cbn. repeat split; try apply I2; try congruence; try lia; intros; discriminate. }
    destruct (rerr r2) eqn:Ee.
    { eexists _, _. split; [reflexivity|]. cbn. repeat split; try apply I2; try congruence; try lia; intros; discriminate. }
    eexists _, _. split; [reflexivity|]. cbn.
    destruct (Q2 eq_refl) as [Q2a Q2b]. destruct (Q1 Q2b) as [Q1a Q1b].
    split; [exact I|]. split; [exact I2|]. split; [congruence|]. split; [lia|]. split; [reflexivity|].
    intros h Hh. inversion Hh; subst. cbn. split; [lia|]. split; [exact Ee|left; reflexivity].
Qed.

(* ---------------------------------------------------------------- the leaf contract *)
Record leaf_ok (ld : leafdec) : Prop := mkLeafOk {
  leaf_sr_ok : forall h s, Inv (sr s) ->
    exists r s', ld_sr ld h s = (r, s') /\ np r /\ Inv (sr s') /\ rbuf (sr s') = rbuf (sr s) /\
      rpos (sr s) <= rpos (sr s') /\ T (scost s') <= T (scost s) + (rpos (sr s') - rpos (sr s)) + 1;
  leaf_r_ok : forall h s, (ipos s <= lenN (ibuf s))%N ->
    exists r s', ld_r ld h s = (r, s') /\ np r /\ ibuf s' = ibuf s /\
      (ipos s <= ipos s' <= lenN (ibuf s))%N /\
      T (icost s') <= T (icost s) + (Z.of_N (ipos s') - Z.of_N (ipos s)) + 1 }.

(* ---------------------------------------------------------------- SR path *)
Section SR.
Variable ld : leafdec.
Hypothesis LD : leaf_ok ld.

(* result contracts *)
Definition box_post (s : sst) (r : res tree) (s' : sst) : Prop :=
  Inv (sr s') /\ rbuf (sr s') = rbuf (sr s) /\ rpos (sr s) <= rpos (sr s') /\
  T (scost s') <= T (scost s) + 2 * (rpos (sr s') - rpos (sr s)) + 2 /\
  (forall t, r = Ok t -> rpos (sr s) + 8 <= rpos (sr s') /\
                         T (scost s') <= T (scost s) + 2 * (rpos (sr s') - rpos (sr s)) - 2).
Definition kids_post (s : sst) (s' : sst) : Prop :=
  Inv (sr s') /\ rbuf (sr s') = rbuf (sr s) /\ rpos (sr s) <= rpos (sr s') /\
  T (scost s') <= T (scost s) + 2 * (rpos (sr s') - rpos (sr s)) + 3.

Ltac fin := unfold box_post, kids_post, Inv, rlen in *; repeat split; try congruence; try lia; try (intros; discriminate).

Lemma sr_loops : forall fuel,
  (forall sp s, Inv (sr s) ->
     exists r s', dec_box_sr ld fuel sp s = (r, s') /\ r <> Panic /\ (rem s < Z.of_nat fuel -> r <> OutOfFuel) /\
                  box_post s r s') /\
  (forall sp pos endPos initPos acc s, Inv (sr s) ->
     exists r s', children_sr ld fuel sp pos endPos initPos acc s = (r, s') /\ r <> Panic /\
                  (rem s + 1 < Z.of_nat fuel -> r <> OutOfFuel) /\ kids_post s s').
Proof.
  induction fuel as [|f [IHb IHk]].
  { split; intros.
    - eexists _, _. split; [reflexivity|]. split; [discriminate|].
      split; [intros Hf; exfalso; unfold rem, Inv in *; lia|]. fin.
    - eexists _, _. split; [reflexivity|]. split; [discriminate|].
      split; [intros Hf; exfalso; unfold rem, Inv in *; lia|]. fin. }
  split.
  - (* dec_box_sr *)
    intros sp s0 HI. cbn [dec_box_sr]. fold (children_sr ld).
    set (s := scharge (tick 1) s0).
    assert (HIs : Inv (sr s)) by exact HI.
    destruct (decode_header_sr_spec s HIs) as [rh [s1 [Eh [NPh [I1 [B1 [P1 [C1 Q1]]]]]]]]. rewrite Eh.
    assert (TC1 : T (scost s1) = T (scost s0) + 1) by (rewrite C1; subst s; cbn [scharge scost]; rewrite T_tick; lia).
    change (sr s) with (sr s0) in *. clearbody s. clear C1 Eh.
    destruct rh as [h| | |]; try contradiction.
    2:{ eexists _, _. split; [reflexivity|]. split; [discriminate|]. split; [discriminate|]. fin. }
    destruct (Q1 h eq_refl) as [Q1a [Q1b Q1c]]. clear Q1.
    destruct ((addu64 (u64z (nr_remaining (sr s1))) (hlen h) <? hsize h)%N && negb (eqb_name (hname h) name_mdat)).
    { eexists _, _. split; [reflexivity|]. split; [discriminate|]. split; [discriminate|]. fin. }
    destruct (ld_kind ld (hname h)).
    + (* leaf *)
      destruct (leaf_sr_ok ld LD h s1 I1) as [rl [s2 [El [NPl [I2 [B2 [P2 C2]]]]]]]. rewrite El.
      destruct rl; try contradiction.
      * eexists _, _. split; [reflexivity|]. split; [discriminate|]. split; [discriminate|]. fin.
      * eexists _, _. split; [reflexivity|]. split; [discriminate|]. split; [discriminate|]. fin.
    + (* generic container *)
      set (s1' := scharge (allocn 8) s1).
      assert (T1 : T (scost s1') = T (scost s0) + 9) by (subst s1'; cbn [scharge scost]; rewrite T_alloc; lia).
      assert (I1' : Inv (sr s1')) by exact I1.
      destruct (IHk (addu64 sp 8) (addu64 sp 8) (addu64 sp (hsize h)) (rpos (sr s1)) [] s1' I1')
        as [rk [s2 [Ek [NPk [Fk [I2 [B2 [P2 C2]]]]]]]]. rewrite Ek.
      assert (HF : rem s0 < Z.of_nat (S f) -> rem s1' + 1 < Z.of_nat f).
      { unfold rem, rlen. change (sr s1') with (sr s1). rewrite B1. lia. }
      change (sr s1') with (sr s1) in *. clearbody s1'.
      destruct rk; try contradiction.
      * eexists _, _. split; [reflexivity|]. split; [discriminate|]. split; [discriminate|]. fin.
      * eexists _, _. split; [reflexivity|]. split; [discriminate|]. split; [discriminate|]. fin.
      * eexists _, _. split; [reflexivity|]. split; [discriminate|].
        split; [intros Hf; exfalso; apply (Fk (HF Hf)); reflexivity|]. fin.
    + (* moov / moof *)
      set (s1' := scharge (allocn 8) s1).
      assert (T1 : T (scost s1') = T (scost s0) + 9) by (subst s1'; cbn [scharge scost]; rewrite T_alloc; lia).
      assert (I1' : Inv (sr s1')) by exact I1.
      destruct (IHk (addu64 sp 8) (addu64 sp 8) (addu64 sp (hsize h)) (rpos (sr s1)) [] s1' I1')
        as [rk [s2 [Ek [NPk [Fk [I2 [B2 [P2 C2]]]]]]]]. rewrite Ek.
      assert (HF : rem s0 < Z.of_nat (S f) -> rem s1' + 1 < Z.of_nat f).
      { unfold rem, rlen. change (sr s1') with (sr s1). rewrite B1. lia. }
      change (sr s1') with (sr s1) in *. clearbody s1'.
      destruct rk; try contradiction.
      * destruct (accerr && rerr (sr s2)).
        -- eexists _, _. split; [reflexivity|]. split; [discriminate|]. split; [discriminate|]. fin.
        -- eexists _, _. split; [reflexivity|]. split; [discriminate|]. split; [discriminate|]. fin.
      * eexists _, _. split; [reflexivity|]. split; [discriminate|]. split; [discriminate|]. fin.
      * eexists _, _. split; [reflexivity|]. split; [discriminate|].
        split; [intros Hf; exfalso; apply (Fk (HF Hf)); reflexivity|]. fin.
  - (* children_sr *)
    intros sp pos endPos initPos acc s HI. cbn [children_sr]. fold (dec_box_sr ld). fold (children_sr ld).
    destruct (endPos <? pos)%N.
    { eexists _, _. split; [reflexivity|]. split; [discriminate|]. split; [discriminate|]. fin. }
    destruct (pos =? endPos)%N.
    { eexists _, _. split; [reflexivity|]. split; [discriminate|]. split; [discriminate|]. fin. }
    set (s0 := scharge (tick 1) s).
    assert (T0 : T (scost s0) = T (scost s) + 1) by (subst s0; cbn [scharge scost]; rewrite T_tick; lia).
    assert (R0 : rem s0 = rem s) by reflexivity.
    assert (HI0 : Inv (sr s0)) by exact HI.
    destruct (IHb pos s0 HI0) as [rb [s1 [Eb [NPb [Fb [I1 [B1 [P1 [C1 Q1]]]]]]]]]. rewrite Eb.
    change (sr s0) with (sr s) in *. clearbody s0.
    destruct rb as [child| | |]; try contradiction.
    + destruct (Q1 child eq_refl) as [Q1a Q1b]. clear Q1.
      set (s2 := scharge (allocn 1) s1).
      assert (T2 : T (scost s2) = T (scost s1) + 1) by (subst s2; cbn [scharge scost]; rewrite T_alloc; lia).
      assert (I2' : Inv (sr s2)) by exact I1.
      destruct (int_of_u64 (subu64 (addu64 pos (tsize child)) sp) =? rpos (sr s2) - initPos).
      * destruct (IHk sp (addu64 pos (tsize child)) endPos initPos (child :: acc) s2 I2')
          as [rk [s3 [Ek [NPk [Fk [I3 [B3 [P3 C3]]]]]]]]. rewrite Ek.
        assert (R2 : rem s2 + 8 <= rem s) by (unfold rem, rlen; change (sr s2) with (sr s1); rewrite B1; lia).
        change (sr s2) with (sr s1) in *. clearbody s2.
        eexists _, _. split; [reflexivity|]. split; [assumption|].
        split; [intros Hf; apply Fk; lia|]. fin.
      * change (sr s2) with (sr s1) in *. clearbody s2.
        eexists _, _. split; [reflexivity|]. split; [discriminate|]. split; [discriminate|]. fin.
    + eexists _, _. split; [reflexivity|]. split; [discriminate|]. split; [discriminate|]. fin.
    + eexists _, _. split; [reflexivity|]. split; [discriminate|].
      split; [intros Hf; exfalso; apply Fb; [lia|reflexivity]|]. fin.
Qed.

End SR.
