(* C04TreeProofs.v — the container theorems with a leaf contract that admits the modelled table-box
   decoders (C04TreeModel.v):  a leaf may cost LA * (bytes it consumed) + LC when it returns a box and
   LA * (bytes remaining) + LC when it returns an error (the error ends the whole decode).  Both child loops
   are re-proved against this contract; C04ContainerProofs (contract: cost <= consumed + 1, which C03 imports)
   is unchanged and every leaf decoder satisfying it satisfies the new contract. *)
From V.lib Require Import Base.
From V.c04 Require Import C04Model C04ReaderProofs C04ContainerProofs C04AllocModel C04AllocProofs C04TreeModel.
Open Scope Z_scope.

Definition LA : Z := 6.
Definition LC : Z := 20700.
Definition K2 : Z := 2600.        (* 8 * K2 >= LC + 3: the constant of a leaf is paid by its 8 header bytes *)
Definition EB : Z := 20740.
Definition EK : Z := 20741.
Definition BIG : Z := 34359738360. (* 32 GiB - 16: excludes the one box size at which ctts wraps its count *)

Definition pre_sr (h : hdr) (s : sst) : Prop :=
  hdr_wf h /\ rerr (sr s) = false /\ rlen (sr s) < BIG /\
  (eqb_name (hname h) name_mdat = true \/ Z.of_N (hsize h) <= rem s + Z.of_N (hlen h)).

Record leaf_ok2 (ld : leafdec) : Prop := mkLeafOk2 {
  leaf2_sr : forall h s, Inv (sr s) -> pre_sr h s ->
    exists r s', ld_sr ld h s = (r, s') /\ np r /\ Inv (sr s') /\ rbuf (sr s') = rbuf (sr s) /\
      rpos (sr s) <= rpos (sr s') /\
      T (scost s') <= T (scost s) + LA * rem s + LC /\
      (forall sz, r = Ok sz -> T (scost s') <= T (scost s) + LA * (rpos (sr s') - rpos (sr s)) + LC);
  leaf2_r : forall h s, (ipos s <= lenN (ibuf s))%N -> hdr_wf h -> Z.of_N (lenN (ibuf s)) < BIG ->
    exists r s', ld_r ld h s = (r, s') /\ np r /\ ibuf s' = ibuf s /\
      (ipos s <= ipos s' <= lenN (ibuf s))%N /\
      T (icost s') <= T (icost s) + LA * (Z.of_N (ipos s') - Z.of_N (ipos s)) + LC }.

(* ---------------------------------------------------------------- the table leaves *)
Lemma guarded_bounded t p hs hl body : guarded t = true -> hs <> 34359738376%N ->
  exists o, alloc_table t p hs hl body = Ok o /\ (o_alloc o <= 4 * hs + 16384)%N /\ (o_iters o <= hs + 4096)%N.
Proof.
  intros G Hn. destruct t; try discriminate G; cbn [alloc_table].
  - destruct (alloc_trun_bounded p hs hl body) as (o & -> & ? & ?). exists o. split; [reflexivity|]. split; lia.
  - destruct (alloc_stts_bounded hs hl body) as (o & -> & ? & ?). exists o. split; [reflexivity|]. split; lia.
  - destruct (alloc_ctts_bounded hs hl body Hn) as (o & -> & ? & ?). exists o. split; [reflexivity|]. split; lia.
  - destruct (alloc_stsc_bounded hs hl body) as (o & -> & ? & ?). exists o. split; [reflexivity|]. split; lia.
  - destruct (alloc_stsz_bounded hs hl body) as (o & -> & ? & ?). exists o. split; [reflexivity|]. split; lia.
  - destruct (alloc_stco_bounded hs hl body) as (o & -> & ? & ?). exists o. split; [reflexivity|]. split; lia.
  - destruct (alloc_co64_bounded hs hl body) as (o & -> & ? & ?). exists o. split; [reflexivity|]. split; lia.
  - destruct (alloc_stss_bounded hs hl body) as (o & -> & ? & ?). exists o. split; [reflexivity|]. split; lia.
  - destruct (alloc_sdtp_bounded hs hl body) as (o & -> & ? & ?). exists o. split; [reflexivity|]. split; lia.
  - destruct (alloc_saiz_bounded hs hl body) as (o & -> & ? & ?). exists o. split; [reflexivity|]. split; lia.
  - destruct (alloc_saio_bounded hs hl body) as (o & -> & ? & ?). exists o. split; [reflexivity|]. split; lia.
  - destruct (alloc_sbgp_bounded hs hl body) as (o & -> & ? & ?). exists o. split; [reflexivity|]. split; lia.
  - destruct (alloc_elst_bounded hs hl body) as (o & -> & ? & ?). exists o. split; [reflexivity|]. split; lia.
  - destruct (alloc_tfra_bounded hs hl body) as (o & -> & ? & ?). exists o. split; [reflexivity|]. split; lia.
Qed.

Lemma T_charge o c : T (charge o c) = T c + Z.of_N (o_alloc o) + Z.of_N (o_iters o).
Proof. unfold charge. rewrite T_tick, T_alloc. lia. Qed.

Lemma leaf_reads_ge t h : hdr_wf h -> Z.of_N (hs64 h) - 16 <= leaf_reads t h /\ 0 <= leaf_reads t h.
Proof. intros [W|W]; unfold leaf_reads; destruct t; rewrite ?W; lia. Qed.

Lemma tbl_sr_ok t h s : guarded t = true -> Inv (sr s) -> hdr_wf h -> rlen (sr s) < BIG ->
  Z.of_N (hsize h) <= rem s + Z.of_N (hlen h) ->
  exists r s', tbl_sr t h s = (r, s') /\ np r /\ Inv (sr s') /\ rbuf (sr s') = rbuf (sr s) /\
    rpos (sr s) <= rpos (sr s') /\
    T (scost s') <= T (scost s) + LA * rem s + LC /\
    (forall sz, r = Ok sz -> T (scost s') <= T (scost s) + LA * (rpos (sr s') - rpos (sr s)) + LC).
Proof.
  intros G HI W HB HS. unfold tbl_sr.
  assert (Hl : Z.of_N (hlen h) <= 16) by (destruct W as [W|W]; rewrite W; lia).
  assert (Hs64 : hs64 h = hsize h).
  { unfold hs64. apply N.mod_small. unfold rem, BIG, Inv in *. lia. }
  destruct (leaf_reads_ge t h W) as [R1 R2]. rewrite Hs64 in *.
  assert (Hn : hsize h <> 34359738376%N) by (unfold rem, BIG, Inv in *; lia).
  destruct (guarded_bounded t true (hsize h) (hlen h) (skipn (Z.to_nat (rpos (sr s))) (rbuf (sr s))) G Hn)
    as (o & E & Ha & Hi). rewrite E.
  destruct (o_ok o).
  - eexists _, _. split; [reflexivity|]. cbn [np sr scost rbuf rpos rerr].
    unfold rem, Inv, rlen, LA, LC in *. cbn [rbuf rpos]. rewrite T_charge.
    repeat split; try lia; try (intros; lia).
  - eexists _, _. split; [reflexivity|]. cbn [np sr scost].
    unfold rem, Inv, rlen, LA, LC in *. rewrite T_charge.
    repeat split; try lia; try (intros; discriminate).
Qed.

Lemma body_len_hs hs hl : (hl = 8 \/ hl = 16)%N -> 0 <= int_of_u64 (subu64 hs hl) ->
  Z.of_N (hs mod 18446744073709551616) = int_of_u64 (subu64 hs hl) + Z.of_N hl.
Proof.
  intros W H. unfold int_of_u64, subu64, w64, two63, two64 in *.
  destruct W as [-> | ->]; lia.
Qed.

Lemma tbl_r_ok t h s : guarded t = true -> (ipos s <= lenN (ibuf s))%N -> hdr_wf h -> Z.of_N (lenN (ibuf s)) < BIG ->
  exists r s', tbl_r t h s = (r, s') /\ np r /\ ibuf s' = ibuf s /\
    (ipos s <= ipos s' <= lenN (ibuf s))%N /\
    T (icost s') <= T (icost s) + LA * (Z.of_N (ipos s') - Z.of_N (ipos s)) + LC.
Proof.
  intros G HI W HB. unfold tbl_r, read_box_body.
  assert (Hl : (hlen h <= 16)%N) by (destruct W as [W|W]; rewrite W; lia).
  destruct (hlen h =? hsize h)%N eqn:E0.
  { apply N.eqb_eq in E0.
    assert (Hs64 : hs64 h = hsize h) by (unfold hs64; apply N.mod_small; lia).
    assert (Hn : hs64 h <> 34359738376%N) by lia.
    destruct (guarded_bounded t false (hs64 h) (hlen h) [] G Hn) as (o & E & Ha & Hi). rewrite E.
    destruct (o_ok o); eexists _, _; (split; [reflexivity|]); cbn [np icharge ibuf ipos icost];
      rewrite T_charge; unfold LA, LC; repeat split; try lia. }
  unfold read_limited.
  destruct (int_of_u64 (subu64 (hsize h) (hlen h)) <=? 0) eqn:En.
  { destruct (zlen (@nil N) =? int_of_u64 (subu64 (hsize h) (hlen h))) eqn:Ez.
    - assert (Hz : int_of_u64 (subu64 (hsize h) (hlen h)) = 0) by (apply Z.eqb_eq in Ez; unfold zlen in Ez; cbn [length] in Ez; lia).
      pose proof (body_len_hs (hsize h) (hlen h) W ltac:(lia)) as HB2. fold (hs64 h) in HB2.
      assert (Hn : hs64 h <> 34359738376%N) by lia.
      destruct (guarded_bounded t false (hs64 h) (hlen h) [] G Hn) as (o & E & Ha & Hi). rewrite E.
      destruct (o_ok o); eexists _, _; (split; [reflexivity|]); cbn [np icharge ibuf ipos icost];
        rewrite T_charge; unfold LA, LC; repeat split; try lia.
    - eexists _, _. split; [reflexivity|]. cbn [np]. unfold LA, LC. repeat split; try lia. }
  set (k := N.min (Z.to_N (int_of_u64 (subu64 (hsize h) (hlen h)))) (iavail s)).
  assert (Hk : (k <= lenN (ibuf s) - ipos s)%N) by (subst k; unfold iavail; lia).
  set (body := firstn (N.to_nat k) (skipn (N.to_nat (ipos s)) (ibuf s))).
  assert (Lb : zlen body = Z.of_N k).
  { subst body. unfold zlen. rewrite firstn_length, skipn_length. unfold lenN in *. lia. }
  destruct (zlen body =? int_of_u64 (subu64 (hsize h) (hlen h))) eqn:Ez.
  - assert (Hz : int_of_u64 (subu64 (hsize h) (hlen h)) = Z.of_N k) by lia.
    pose proof (body_len_hs (hsize h) (hlen h) W ltac:(lia)) as HB2. fold (hs64 h) in HB2.
    assert (Hn : hs64 h <> 34359738376%N) by (unfold BIG in *; lia).
    destruct (guarded_bounded t false (hs64 h) (hlen h) body G Hn) as (o & E & Ha & Hi). rewrite E.
    destruct (o_ok o); eexists _, _; (split; [reflexivity|]); cbn [np icharge ibuf ipos icost];
      rewrite T_charge, T_alloc; unfold LA, LC; repeat split; try lia.
  - eexists _, _. split; [reflexivity|]. cbn [np ibuf ipos icost]. rewrite T_alloc. unfold LA, LC. repeat split; try lia.
Qed.

Lemma eqb_name_true a b : eqb_name a b = true -> a = b.
Proof.
  revert b. induction a as [|x a IH]; intros [|y b] H; try discriminate; [reflexivity|].
  cbn [eqb_name] in H. apply andb_true_iff in H. destruct H as [H1 H2].
  apply N.eqb_eq in H1. subst. f_equal. apply IH. exact H2.
Qed.

Lemma tbl_of_not_mdat nm t : tbl_of nm = Some t -> eqb_name nm name_mdat = false.
Proof.
  intros H. destruct (eqb_name nm name_mdat) eqn:E; [|reflexivity].
  apply eqb_name_true in E. subst. vm_compute in H. discriminate.
Qed.

Lemma tbl_of_guarded nm t : tbl_of nm = Some t -> guarded t = true.
Proof.
  unfold tbl_of. destruct (tbox_of nm) as [t'|]; [|discriminate].
  destruct (guarded t') eqn:G; [|discriminate]. intros H. inversion H; subst. exact G.
Qed.

(* every leaf decoder under the old contract, extended with the table leaves, satisfies the new one *)
Theorem mix_leaves_ok2 : forall other, leaf_ok other -> leaf_ok2 (mix_leaves other).
Proof.
  intros other LD. constructor.
  - intros h s HI (W & Er & HB & HS). cbn [ld_sr mix_leaves].
    destruct (tbl_of (hname h)) as [t|] eqn:Et.
    + pose proof (tbl_of_not_mdat _ _ Et) as Nm. destruct HS as [HS|HS]; [congruence|].
      apply tbl_sr_ok; auto. eapply tbl_of_guarded; eauto.
    + destruct (leaf_sr_ok other LD h s HI) as [r [s' [E [NP [I1 [B1 [P1 C1]]]]]]].
      exists r, s'. split; [exact E|]. split; [exact NP|]. split; [exact I1|]. split; [exact B1|]. split; [exact P1|].
      assert (rpos (sr s') <= rlen (sr s)) by (unfold Inv, rlen in *; rewrite B1 in I1; lia).
      unfold rem, LA, LC. split; [lia|]. intros; lia.
  - intros h s HI W HB. cbn [ld_r mix_leaves].
    destruct (tbl_of (hname h)) as [t|] eqn:Et.
    + apply tbl_r_ok; auto. eapply tbl_of_guarded; eauto.
    + destruct (leaf_r_ok other LD h s HI) as [r [s' [E [NP [B1 [P1 C1]]]]]].
      exists r, s'. split; [exact E|]. split; [exact NP|]. split; [exact B1|]. split; [exact P1|].
      unfold LA, LC. lia.
Qed.

(* ---------------------------------------------------------------- SR path *)
Section SR2.
Variable ld : leafdec.
Hypothesis LD : leaf_ok2 ld.

Definition box_post2 (s : sst) (r : res tree) (s' : sst) : Prop :=
  Inv (sr s') /\ rbuf (sr s') = rbuf (sr s) /\ rpos (sr s) <= rpos (sr s') /\
  T (scost s') <= T (scost s) + K2 * rem s + EB /\
  (forall t, r = Ok t -> rpos (sr s) + 8 <= rpos (sr s') /\
                         T (scost s') <= T (scost s) + K2 * (rpos (sr s') - rpos (sr s)) - 2).
Definition kids_post2 (s : sst) (r : res (list tree)) (s' : sst) : Prop :=
  Inv (sr s') /\ rbuf (sr s') = rbuf (sr s) /\ rpos (sr s) <= rpos (sr s') /\
  T (scost s') <= T (scost s) + K2 * rem s + EK /\
  (forall l, r = Ok l -> T (scost s') <= T (scost s) + K2 * (rpos (sr s') - rpos (sr s)) + 3).

Ltac lens := repeat match goal with
  | H : rbuf (sr ?a) = rbuf (sr ?b) |- _ =>
      lazymatch goal with
      | _ : zlen (rbuf (sr a)) = zlen (rbuf (sr b)) |- _ => fail
      | _ => assert (zlen (rbuf (sr a)) = zlen (rbuf (sr b))) by (rewrite H; reflexivity)
      end
  end.

Ltac fin2 := repeat match goal with x := _ |- _ => subst x end;
  unfold box_post2, kids_post2, rem, K2, EB, EK, LA, LC in *; cbn [scharge sr scost] in *; lens;
  unfold Inv, rlen, err_msg_ticks in *; rewrite ?T_tick in *;
  repeat split; try congruence; try lia; try (intros; discriminate).

Lemma maxsize_pre h s1 : Inv (sr s1) -> rerr (sr s1) = false -> hdr_wf h ->
  ((addu64 (u64z (nr_remaining (sr s1))) (hlen h) <? hsize h)%N && negb (eqb_name (hname h) name_mdat)) = false ->
  eqb_name (hname h) name_mdat = true \/ Z.of_N (hsize h) <= rem s1 + Z.of_N (hlen h).
Proof.
  intros HI Er W H. apply andb_false_iff in H. destruct H as [H|H].
  - right. apply N.ltb_ge in H. unfold nr_remaining in H. rewrite Er in H.
    unfold Inv in HI. unfold rem.
    rewrite w64_id in H by (unfold two63 in *; lia).
    unfold u64z, addu64, two64 in H.
    assert (Hl : (hlen h <= 16)%N) by (destruct W as [W|W]; rewrite W; lia).
    rewrite Z.mod_small in H by (unfold two63 in *; lia).
    rewrite N.mod_small in H by (unfold two63 in *; lia).
    lia.
  - left. apply negb_false_iff in H. exact H.
Qed.

Lemma sr_loops2 : forall fuel,
  (forall sp s, Inv (sr s) -> rlen (sr s) < BIG ->
     exists r s', dec_box_sr ld fuel sp s = (r, s') /\ r <> Panic /\ (rem s < Z.of_nat fuel -> r <> OutOfFuel) /\
                  box_post2 s r s') /\
  (forall sp pos endPos initPos acc s, Inv (sr s) -> rlen (sr s) < BIG ->
     exists r s', children_sr ld fuel sp pos endPos initPos acc s = (r, s') /\ r <> Panic /\
                  (rem s + 1 < Z.of_nat fuel -> r <> OutOfFuel) /\ kids_post2 s r s').
Proof.
  induction fuel as [|f [IHb IHk]].
  { split; intros.
    - eexists _, _. split; [reflexivity|]. split; [discriminate|].
      split; [intros Hf; exfalso; unfold rem, Inv in *; lia|]. fin2.
    - eexists _, _. split; [reflexivity|]. split; [discriminate|].
      split; [intros Hf; exfalso; unfold rem, Inv in *; lia|]. fin2. }
  split.
  - (* dec_box_sr *)
    intros sp s0 HI HB. cbn [dec_box_sr]. fold (children_sr ld).
    set (s := scharge (tick 1) s0).
    assert (HIs : Inv (sr s)) by exact HI.
    destruct (decode_header_sr_spec s HIs) as [rh [s1 [Eh [NPh [I1 [B1 [P1 [C1 Q1]]]]]]]]. rewrite Eh.
    assert (TC1 : T (scost s1) = T (scost s0) + 1) by (rewrite C1; subst s; cbn [scharge scost]; rewrite T_tick; lia).
    change (sr s) with (sr s0) in *. clear C1 Eh.
    assert (HB1 : rlen (sr s1) < BIG) by (unfold rlen in *; rewrite B1; exact HB).
    destruct rh as [h| | |]; try contradiction.
    2:{ eexists _, _. split; [reflexivity|]. split; [discriminate|]. split; [discriminate|]. fin2. }
    destruct (Q1 h eq_refl) as [Q1a [Q1b Q1c]]. clear Q1.
    destruct ((addu64 (u64z (nr_remaining (sr s1))) (hlen h) <? hsize h)%N && negb (eqb_name (hname h) name_mdat)) eqn:EM.
    { eexists _, _. split; [reflexivity|]. split; [discriminate|]. split; [discriminate|]. fin2. }
    pose proof (maxsize_pre h s1 I1 Q1b Q1c EM) as PRE. clear EM.
    destruct (ld_kind ld (hname h)).
    + (* leaf *)
      destruct (leaf2_sr ld LD h s1 I1 (conj Q1c (conj Q1b (conj HB1 PRE)))) as [rl [s2 [El [NPl [I2 [B2 [P2 [C2 D2]]]]]]]].
      rewrite El. clear PRE.
      destruct rl as [sz| | |]; try contradiction.
      * specialize (D2 sz eq_refl).
        eexists _, _. split; [reflexivity|]. split; [discriminate|]. split; [discriminate|]. fin2.
      * eexists _, _. split; [reflexivity|]. split; [discriminate|]. split; [discriminate|]. fin2.
    + (* generic container *)
      clear PRE.
      set (s1' := scharge (allocn 8) s1).
      assert (T1 : T (scost s1') = T (scost s0) + 9) by (subst s1'; cbn [scharge scost]; rewrite T_alloc; lia).
      assert (I1' : Inv (sr s1')) by exact I1.
      assert (HB1' : rlen (sr s1') < BIG) by exact HB1.
      destruct (IHk (addu64 sp 8) (addu64 sp 8) (addu64 sp (hsize h)) (rpos (sr s1)) [] s1' I1' HB1')
        as [rk [s2 [Ek [NPk [Fk [I2 [B2 [P2 [C2 Q2]]]]]]]]]. rewrite Ek.
      assert (HF : rem s0 < Z.of_nat (S f) -> rem s1' + 1 < Z.of_nat f).
      { unfold rem, rlen. change (sr s1') with (sr s1). rewrite B1. lia. }
      assert (R1 : rem s1' = rlen (sr s0) - rpos (sr s1)) by (unfold rem, rlen; change (sr s1') with (sr s1); rewrite B1; reflexivity).
      change (sr s1') with (sr s1) in *.
      destruct rk as [kids| | |]; try contradiction.
      * specialize (Q2 kids eq_refl).
        eexists _, _. split; [reflexivity|]. split; [discriminate|]. split; [discriminate|]. fin2.
      * eexists _, _. split; [reflexivity|]. split; [discriminate|]. split; [discriminate|]. fin2.
      * eexists _, _. split; [reflexivity|]. split; [discriminate|].
        split; [intros Hf; exfalso; apply (Fk (HF Hf)); reflexivity|]. fin2.
    + (* moov / moof *)
      clear PRE.
      set (s1' := scharge (allocn 8) s1).
      assert (T1 : T (scost s1') = T (scost s0) + 9) by (subst s1'; cbn [scharge scost]; rewrite T_alloc; lia).
      assert (I1' : Inv (sr s1')) by exact I1.
      assert (HB1' : rlen (sr s1') < BIG) by exact HB1.
      destruct (IHk (addu64 sp 8) (addu64 sp 8) (addu64 sp (hsize h)) (rpos (sr s1)) [] s1' I1' HB1')
        as [rk [s2 [Ek [NPk [Fk [I2 [B2 [P2 [C2 Q2]]]]]]]]]. rewrite Ek.
      assert (HF : rem s0 < Z.of_nat (S f) -> rem s1' + 1 < Z.of_nat f).
      { unfold rem, rlen. change (sr s1') with (sr s1). rewrite B1. lia. }
      assert (R1 : rem s1' = rlen (sr s0) - rpos (sr s1)) by (unfold rem, rlen; change (sr s1') with (sr s1); rewrite B1; reflexivity).
      change (sr s1') with (sr s1) in *.
      destruct rk as [kids| | |]; try contradiction.
      * specialize (Q2 kids eq_refl). destruct (accerr && rerr (sr s2)).
        -- eexists _, _. split; [reflexivity|]. split; [discriminate|]. split; [discriminate|]. fin2.
        -- eexists _, _. split; [reflexivity|]. split; [discriminate|]. split; [discriminate|]. fin2.
      * eexists _, _. split; [reflexivity|]. split; [discriminate|]. split; [discriminate|]. fin2.
      * eexists _, _. split; [reflexivity|]. split; [discriminate|].
        split; [intros Hf; exfalso; apply (Fk (HF Hf)); reflexivity|]. fin2.
  - (* children_sr *)
    intros sp pos endPos initPos acc s HI HB. cbn [children_sr]. fold (dec_box_sr ld). fold (children_sr ld).
    destruct (endPos <? pos)%N.
    { eexists _, _. split; [reflexivity|]. split; [discriminate|]. split; [discriminate|]. fin2. }
    destruct (pos =? endPos)%N.
    { eexists _, _. split; [reflexivity|]. split; [discriminate|]. split; [discriminate|]. fin2. }
    set (s0 := scharge (tick 1) s).
    assert (T0 : T (scost s0) = T (scost s) + 1) by (subst s0; cbn [scharge scost]; rewrite T_tick; lia).
    assert (R0 : rem s0 = rem s) by reflexivity.
    assert (HI0 : Inv (sr s0)) by exact HI.
    assert (HB0 : rlen (sr s0) < BIG) by exact HB.
    destruct (IHb pos s0 HI0 HB0) as [rb [s1 [Eb [NPb [Fb [I1 [B1 [P1 [C1 Q1]]]]]]]]]. rewrite Eb.
    change (sr s0) with (sr s) in *.
    destruct rb as [child| | |]; try contradiction.
    + destruct (Q1 child eq_refl) as [Q1a Q1b]. clear Q1.
      set (s2 := scharge (allocn 1) s1).
      assert (T2 : T (scost s2) = T (scost s1) + 1) by (subst s2; cbn [scharge scost]; rewrite T_alloc; lia).
      assert (I2' : Inv (sr s2)) by exact I1.
      assert (HB2 : rlen (sr s2) < BIG) by (change (sr s2) with (sr s1); unfold rlen in *; rewrite B1; exact HB).
      assert (L1 : rlen (sr s1) = rlen (sr s)) by (unfold rlen; rewrite B1; reflexivity).
      destruct (int_of_u64 (subu64 (addu64 pos (tsize child)) sp) =? rpos (sr s2) - initPos).
      * destruct (IHk sp (addu64 pos (tsize child)) endPos initPos (child :: acc) s2 I2' HB2)
          as [rk [s3 [Ek [NPk [Fk [I3 [B3 [P3 [C3 Q3]]]]]]]]]. rewrite Ek.
        assert (R2 : rem s2 + 8 <= rem s) by (unfold rem, rlen; change (sr s2) with (sr s1); rewrite B1; lia).
        assert (R2' : rem s2 = rlen (sr s) - rpos (sr s1)) by (unfold rem; change (sr s2) with (sr s1); lia).
        change (sr s2) with (sr s1) in *.
        eexists _, _. split; [reflexivity|]. split; [assumption|].
        split; [intros Hf; apply Fk; lia|].
        unfold kids_post2, K2, EK in *. unfold rem in *.
        split; [exact I3|]. split; [congruence|]. split; [lia|]. split; [lia|].
        intros l Hl. specialize (Q3 l Hl). lia.
      * eexists _, _. split; [reflexivity|]. split; [discriminate|]. split; [discriminate|].
        fin2.
    + eexists _, _. split; [reflexivity|]. split; [discriminate|]. split; [discriminate|]. fin2.
    + eexists _, _. split; [reflexivity|]. split; [discriminate|].
      split; [intros Hf; exfalso; apply Fb; [lia|reflexivity]|]. fin2.
Qed.

End SR2.

(* ---------------------------------------------------------------- io.Reader path *)
Section RD2.
Variable ld : leafdec.
Hypothesis LD : leaf_ok2 ld.

Definition KR : Z := 2601.
Definition ER : Z := 20771.
Definition ERK : Z := 20794.
Definition rbox_post2 (s : ist) (r : res bout) (s' : ist) : Prop :=
  ibuf s' = ibuf s /\ ip s <= ip s' <= il s /\
  T (icost s') <= T (icost s) + KR * (ip s' - ip s) + ER /\
  (forall t, r = Ok (BBox t) -> ip s + 8 <= ip s' /\ T (icost s') <= T (icost s) + KR * (ip s' - ip s) - 2) /\
  (r = Ok BEof -> T (icost s') <= T (icost s) + 17).
Definition rkids_post2 (s : ist) (r : res (list tree)) (s' : ist) : Prop :=
  ibuf s' = ibuf s /\ ip s <= ip s' <= il s /\
  T (icost s') <= T (icost s) + KR * (ip s' - ip s) + ERK /\
  (forall l, r = Ok l -> T (icost s') <= T (icost s) + KR * (ip s' - ip s) + 18).

Ltac rfin2 := repeat match goal with x := _ |- _ => subst x end;
  unfold rbox_post2, rkids_post2, KR, ER, ERK, LA, LC, IInv, irem, err_msg_ticks, ip, il in *;
  cbn [icharge ibuf ipos icost] in *; rewrite ?T_tick in *;
  repeat split; try congruence; try lia; try (intros; discriminate).

Lemma r_loops2 : forall fuel,
  (forall sp s, IInv s -> il s < BIG ->
     exists r s', dec_box_r ld fuel sp s = (r, s') /\ r <> Panic /\ (irem s < Z.of_nat fuel -> r <> OutOfFuel) /\
                  rbox_post2 s r s') /\
  (forall pos endPos acc s, IInv s -> il s < BIG ->
     exists r s', children_r ld fuel pos endPos acc s = (r, s') /\ r <> Panic /\
                  (irem s + 1 < Z.of_nat fuel -> r <> OutOfFuel) /\ rkids_post2 s r s').
Proof.
  induction fuel as [|f [IHb IHk]].
  { split; intros.
    - eexists _, _. split; [reflexivity|]. split; [discriminate|].
      split; [intros Hf; exfalso; unfold irem, IInv in *; lia|]. rfin2.
    - eexists _, _. split; [reflexivity|]. split; [discriminate|].
      split; [intros Hf; exfalso; unfold irem, IInv in *; lia|]. rfin2. }
  split.
  - intros sp s0 HI HB. cbn [dec_box_r]. fold (children_r ld).
    set (s := icharge (tick 1) s0).
    assert (HIs : IInv s) by exact HI.
    assert (Ts : T (icost s) = T (icost s0) + 1) by (subst s; cbn [icharge icost]; rewrite T_tick; lia).
    destruct (decode_header_spec s HIs) as [rh [s1 [Eh [NPh [B1 [P1 [C1 Q1]]]]]]]. rewrite Eh.
    change (ip s) with (ip s0) in *. change (il s) with (il s0) in *. change (ibuf s) with (ibuf s0) in *.
    assert (L1 : il s1 = il s0) by (unfold il; rewrite B1; reflexivity).
    assert (HI1 : IInv s1) by (unfold IInv in *; lia).
    destruct rh as [[|h]| | |]; try contradiction.
    { eexists _, _. split; [reflexivity|]. split; [discriminate|]. split; [discriminate|]. clear Eh. rfin2. }
    2:{ eexists _, _. split; [reflexivity|]. split; [discriminate|]. split; [discriminate|]. clear Eh. rfin2. }
    destruct (Q1 h eq_refl) as [Q1a Q1b]. clear Q1 Eh.
    destruct (ld_kind ld (hname h)).
    + destruct (leaf2_r ld LD h s1) as [rl [s2 [El [NPl [B2 [P2 C2]]]]]];
        [unfold IInv, ip, il in *; lia|exact Q1b|unfold il in *; lia|]. rewrite El.
      assert (P2' : ip s1 <= ip s2 <= il s1) by (unfold ip, il; lia).
      assert (C2' : T (icost s2) <= T (icost s1) + LA * (ip s2 - ip s1) + LC) by (unfold ip; lia).
      clear P2 C2 El.
      destruct rl; try contradiction.
      * eexists _, _. split; [reflexivity|]. split; [discriminate|]. split; [discriminate|]. rfin2.
      * eexists _, _. split; [reflexivity|]. split; [discriminate|]. split; [discriminate|]. rfin2.
    + set (s1' := icharge (allocn 8) s1).
      assert (T1 : T (icost s1') = T (icost s1) + 8) by (subst s1'; cbn [icharge icost]; rewrite T_alloc; lia).
      assert (HI1' : IInv s1') by exact HI1.
      assert (HB1' : il s1' < BIG) by (change (il s1') with (il s1); lia).
      destruct (IHk (addu64 sp 8) (addu64 sp (hsize h)) [] s1' HI1' HB1') as [rk [s2 [Ek [NPk [Fk [B2 [P2 [C2 Q2]]]]]]]]. rewrite Ek.
      change (ip s1') with (ip s1) in *. change (il s1') with (il s1) in *. change (ibuf s1') with (ibuf s1) in *.
      assert (HF : irem s0 < Z.of_nat (S f) -> irem s1' + 1 < Z.of_nat f).
      { unfold irem. change (ip s1') with (ip s1). change (il s1') with (il s1). lia. }
      clear Ek.
      destruct rk; try contradiction.
      * specialize (Q2 _ eq_refl).
        eexists _, _. split; [reflexivity|]. split; [discriminate|]. split; [discriminate|]. rfin2.
      * eexists _, _. split; [reflexivity|]. split; [discriminate|]. split; [discriminate|]. rfin2.
      * eexists _, _. split; [reflexivity|]. split; [discriminate|].
        split; [intros Hf; exfalso; apply (Fk (HF Hf)); reflexivity|]. rfin2.
    + destruct (read_limited_spec (payload_len h) s1 HI1) as [data [s2 [El [B2 [P2 [L2 C2]]]]]]. rewrite El.
      destruct (negb (zlen data =? payload_len h)).
      { eexists _, _. split; [reflexivity|]. split; [discriminate|]. split; [discriminate|]. clear El. rfin2. }
      set (ss := mkS (rnew data) (allocn 8 (icost s2))).
      assert (HIss : Inv (sr ss)).
      { unfold Inv, rlen. change (rbuf (sr ss)) with data. change (rpos (sr ss)) with 0.
        assert (0 <= zlen data) by (unfold zlen; lia). unfold IInv, ip, il in *. lia. }
      assert (HBss : rlen (sr ss) < BIG).
      { unfold rlen. change (rbuf (sr ss)) with data. unfold ip, il in *. lia. }
      destruct (sr_loops2 ld LD f) as [_ SK].
      destruct (SK (addu64 sp 8) (addu64 sp 8) (addu64 sp (hsize h)) 0 [] ss HIss HBss)
        as [rk [ss' [Ek [NPk [Fk [I3 [B3 [P3 [C3 Q3]]]]]]]]]. rewrite Ek.
      assert (Tss : T (scost ss) = T (icost s2) + 8) by (subst ss; cbn [scost]; rewrite T_alloc; lia).
      assert (Rss : rpos (sr ss') <= zlen data).
      { unfold Inv, rlen in I3. rewrite B3 in I3. change (rbuf (sr ss)) with data in I3. lia. }
      assert (R0 : rpos (sr ss) = 0) by reflexivity.
      assert (Rm : rem ss = zlen data) by (unfold rem, rlen; change (rbuf (sr ss)) with data; change (rpos (sr ss)) with 0; lia).
      assert (HF : irem s0 < Z.of_nat (S f) -> rem ss + 1 < Z.of_nat f).
      { unfold irem, rem, rlen. change (rbuf (sr ss)) with data. change (rpos (sr ss)) with 0. unfold IInv, ip, il in *. lia. }
      clear Ek El.
      destruct rk as [kids| | |]; try contradiction.
      * specialize (Q3 kids eq_refl).
        eexists _, _. split; [reflexivity|]. split; [discriminate|]. split; [discriminate|].
        unfold rbox_post2, KR, ER, K2, EK, ip, il in *. cbn [ibuf ipos icost]. repeat split; try congruence; try lia.
      * eexists _, _. split; [reflexivity|]. split; [discriminate|]. split; [discriminate|].
        unfold rbox_post2, KR, ER, K2, EK, ip, il in *. cbn [ibuf ipos icost]. repeat split; try congruence; try lia; intros; discriminate.
      * eexists _, _. split; [reflexivity|]. split; [discriminate|].
        split; [intros Hf; exfalso; apply (Fk (HF Hf)); reflexivity|].
        unfold rbox_post2, KR, ER, K2, EK, ip, il in *. cbn [ibuf ipos icost]. repeat split; try congruence; try lia; intros; discriminate.
  - intros pos endPos acc s HI HB. cbn [children_r]. fold (dec_box_r ld). fold (children_r ld).
    destruct (pos =? endPos)%N.
    { eexists _, _. split; [reflexivity|]. split; [discriminate|]. split; [discriminate|]. rfin2. }
    destruct (endPos <? pos)%N.
    { eexists _, _. split; [reflexivity|]. split; [discriminate|]. split; [discriminate|]. rfin2. }
    set (s0 := icharge (tick 1) s).
    assert (T0 : T (icost s0) = T (icost s) + 1) by (subst s0; cbn [icharge icost]; rewrite T_tick; lia).
    assert (HI0 : IInv s0) by exact HI.
    assert (HB0 : il s0 < BIG) by exact HB.
    destruct (IHb pos s0 HI0 HB0) as [rb [s1 [Eb [NPb [Fb [B1 [P1 [C1 [Q1 QE]]]]]]]]]. rewrite Eb.
    change (ip s0) with (ip s) in *. change (il s0) with (il s) in *. change (ibuf s0) with (ibuf s) in *.
    assert (R0 : irem s0 = irem s) by reflexivity.
    assert (L1 : il s1 = il s) by (unfold il; rewrite B1; reflexivity).
    clear Eb.
    destruct rb as [[|child]| | |]; try contradiction.
    + specialize (QE eq_refl). eexists _, _. split; [reflexivity|]. split; [discriminate|]. split; [discriminate|]. rfin2.
    + destruct (Q1 child eq_refl) as [Q1a Q1b]. clear Q1.
      set (s2 := icharge (allocn 1) s1).
      assert (T2 : T (icost s2) = T (icost s1) + 1) by (subst s2; cbn [icharge icost]; rewrite T_alloc; lia).
      assert (HI2 : IInv s2) by (unfold IInv in *; change (ip s2) with (ip s1); change (il s2) with (il s1); lia).
      assert (HB2 : il s2 < BIG) by (change (il s2) with (il s1); lia).
      destruct (IHk (addu64 pos (tsize child)) endPos (child :: acc) s2 HI2 HB2) as [rk [s3 [Ek [NPk [Fk [B3 [P3 [C3 Q3]]]]]]]]. rewrite Ek.
      change (ip s2) with (ip s1) in *. change (il s2) with (il s1) in *. change (ibuf s2) with (ibuf s1) in *.
      assert (R2 : irem s2 + 8 <= irem s) by (unfold irem; change (ip s2) with (ip s1); change (il s2) with (il s1); lia).
      clear Ek.
      eexists _, _. split; [reflexivity|]. split; [assumption|].
      split; [intros Hf; apply Fk; lia|].
      unfold rkids_post2, KR, ERK in *. repeat split; try congruence; try lia;
        try (intros l Hl; specialize (Q3 l Hl); lia).
    + eexists _, _. split; [reflexivity|]. split; [discriminate|]. split; [discriminate|]. rfin2.
    + eexists _, _. split; [reflexivity|]. split; [discriminate|].
      split; [intros Hf; exfalso; apply Fb; [lia|reflexivity]|]. rfin2.
Qed.

End RD2.

(* ---------------------------------------------------------------- top-level statements *)
Definition small32 (bs : list N) : bool := zlen bs <? BIG.

Theorem tree_total_sr : forall ld, leaf_ok2 ld -> forall bs, small32 bs = true ->
  exists r s', box_sr ld bs = (r, s') /\ (r = Err \/ exists t, r = Ok t) /\
               (tot (scost s') <= 2600 * lenN bs + 20740)%N.
Proof.
  intros ld LD bs Hs. unfold box_sr, small32 in *.
  destruct (sr_loops2 ld LD (S (length bs))) as [HB _].
  assert (HI : Inv (sr (snew bs))) by abstract (unfold Inv, rlen, BIG, two63 in *; cbn; unfold zlen in *; lia).
  assert (HS : rlen (sr (snew bs)) < BIG) by abstract (unfold rlen; cbn; lia).
  destruct (HB 0%N (snew bs) HI HS) as [r [s' [E [NP [NF [I1 [B1 [P1 [C1 Q1]]]]]]]]].
  exists r, s'. split; [exact E|].
  assert (NF' : r <> OutOfFuel) by abstract (apply NF; unfold rem, rlen; cbn; unfold zlen; lia).
  clear HB NF Q1 E.
  split; [destruct r; [right; eauto|left; reflexivity|contradiction|contradiction]|].
  unfold rem, rlen, K2, EB in C1. cbn [snew sr rnew rbuf rpos scost] in C1.
  unfold T, tot in C1. cbn [cost0 ticks alloc] in C1. unfold zlen in C1. unfold tot, lenN. lia.
Qed.

Theorem tree_total_r : forall ld, leaf_ok2 ld -> forall bs, small32 bs = true ->
  exists r s', box_r ld bs = (r, s') /\ (r = Err \/ r = Ok BEof \/ exists t, r = Ok (BBox t)) /\
               (tot (icost s') <= 2601 * lenN bs + 20771)%N.
Proof.
  intros ld LD bs Hs. unfold box_r, small32 in *.
  destruct (r_loops2 ld LD (S (length bs))) as [HB _].
  assert (HI : IInv (inew bs)) by abstract (unfold IInv, ip, il, BIG, two63 in *; cbn; unfold zlen, lenN in *; lia).
  assert (HS : il (inew bs) < BIG) by abstract (unfold il; cbn; unfold zlen, lenN in *; lia).
  destruct (HB 0%N (inew bs) HI HS) as [r [s' [E [NP [NF [B1 [P1 [C1 Q1]]]]]]]].
  exists r, s'. split; [exact E|].
  assert (NF' : r <> OutOfFuel) by abstract (apply NF; unfold irem, ip, il; cbn; unfold lenN; lia).
  clear HB NF Q1 E.
  split; [destruct r as [[|t]| | |]; [right; left; reflexivity|right; right; eauto|left; reflexivity|contradiction|contradiction]|].
  unfold KR, ER, ip, il, T, tot in C1, P1. cbn [inew ibuf ipos icost cost0 ticks alloc] in C1, P1. unfold tot, lenN in *. lia.
Qed.

(* the property's allocation clause over trees: every byte string below 32 GiB, any leaf decoder under the old
   contract for the types that are not table boxes *)
Theorem tree_alloc : forall other, leaf_ok other -> forall bs, small32 bs = true ->
  (exists r s', box_sr (mix_leaves other) bs = (r, s') /\ (r = Err \/ exists t, r = Ok t) /\
                (alloc (scost s') <= 2600 * lenN bs + 20740)%N /\ (ticks (scost s') <= 2600 * lenN bs + 20740)%N) /\
  (exists r s', box_r (mix_leaves other) bs = (r, s') /\ (r = Err \/ r = Ok BEof \/ exists t, r = Ok (BBox t)) /\
                (alloc (icost s') <= 2601 * lenN bs + 20771)%N /\ (ticks (icost s') <= 2601 * lenN bs + 20771)%N).
Proof.
  intros other LD bs Hs. pose proof (mix_leaves_ok2 other LD) as L2. split.
  - destruct (tree_total_sr _ L2 bs Hs) as [r [s' [E [R C]]]]. exists r, s'. unfold tot in C. repeat split; auto; lia.
  - destruct (tree_total_r _ L2 bs Hs) as [r [s' [E [R C]]]]. exists r, s'. unfold tot in C. repeat split; auto; lia.
Qed.
