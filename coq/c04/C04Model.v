(* C04Model.v — executable Gallina models (DEFINITIONS ONLY) of
     bits/fixedslicereader.go          every FixedSliceReader method, with explicit panic semantics
     mp4/box.go  DecodeHeader, DecodeBox, readBoxBody           (io.Reader path)
     mp4/boxsr.go DecodeHeaderSR, DecodeBoxSR                   (SliceReader path)
     mp4/container.go DecodeContainerChildren / ...SR           (both child loops)
   Go's `int` is 64 bit two's complement: arithmetic on caller-supplied ints is wrapped with w64.
   Every Go slice expression / index is the partial operation gslice / gindex (Panic when out of range).
   Cost semantics: `ticks` counts decoded boxes and loop iterations, `alloc` counts elements stored
   by the modelled functions (bytes of bodies read, child slots).  They are not seconds / heap bytes. *)
From V.lib Require Import Base.
Open Scope Z_scope.

Definition two63 : Z := 9223372036854775808.
Definition two64 : Z := 18446744073709551616.
(* wrap to Go int (int64) *)
Definition w64 (z : Z) : Z := (z + two63) mod two64 - two63.
Definition is_int (z : Z) : bool := (- two63 <=? z) && (z <? two63).

(* ------------------------------------------------------------------ Go slices *)
Definition zlen {A} (l : list A) : Z := Z.of_nat (length l).

(* b[lo:hi]  (cap = len: the harness hands exact-capacity slices to the reader) *)
Definition gslice (b : list N) (lo hi : Z) : res (list N) :=
  if (0 <=? lo) && (lo <=? hi) && (hi <=? zlen b)
  then Ok (firstn (Z.to_nat (hi - lo)) (skipn (Z.to_nat lo) b)) else Panic.
(* b[i] *)
Definition gindex (b : list N) (i : Z) : res N :=
  if (0 <=? i) && (i <? zlen b) then Ok (nth (Z.to_nat i) b 0%N) else Panic.

Fixpoint be (l : list N) (acc : N) : N :=
  match l with [] => acc | b :: t => be t (acc * 256 + b)%N end.

(* ------------------------------------------------------------------ FixedSliceReader *)
Record rstate := mkR { rbuf : list N; rpos : Z; rerr : bool }.
Definition rlen (s : rstate) : Z := zlen (rbuf s).
Definition with_pos (s : rstate) (p : Z) : rstate := mkR (rbuf s) p (rerr s).
Definition with_err (s : rstate) : rstate := mkR (rbuf s) (rpos s) true.
Definition rnew (b : list N) : rstate := mkR b 0 false.

(* ReadUint8/16/24/32/64 and the signed variants: k bytes big endian.
   (ReadUint8 indexes slice[pos], ReadUint24 slices [pos:pos+2] and indexes [pos+2]: same bounds.) *)
Definition read_fixed (k : Z) (s : rstate) : res (N * rstate) :=
  if rerr s then Ok (0%N, s)
  else if rpos s >? rlen s - k then Ok (0%N, with_err s)
  else do bs <- gslice (rbuf s) (rpos s) (rpos s + k);
       Ok (be bs 0, with_pos s (rpos s + k)).

Definition to_signed (bits : N) (v : N) : Z :=
  if (v <? 2 ^ (bits - 1))%N then Z.of_N v else Z.of_N v - Z.of_N (2 ^ bits).

(* ReadFixedLengthString(n) *)
Definition read_fixed_string (n : Z) (s : rstate) : res (list N * rstate) :=
  if rerr s then Ok ([], s)
  else if rpos s >? w64 (rlen s - n) then Ok ([], with_err s)
  else do bs <- gslice (rbuf s) (rpos s) (w64 (rpos s + n));
       Ok (bs, with_pos s (w64 (rpos s + n))).

(* ReadZeroTerminatedString(maxLen): the for loop, on fuel *)
Fixpoint zloop (fuel : nat) (b : list N) (start pos maxPos : Z) : res (option (list N) * Z) :=
  match fuel with
  | O => OutOfFuel
  | S f =>
      if pos >=? maxPos then Ok (None, pos)
      else do c <- gindex b pos;
           if (c =? 0)%N then do str <- gslice b start pos; Ok (Some str, pos + 1)
           else zloop f b start (pos + 1) maxPos
  end.

Definition read_zstring (maxLen : Z) (s : rstate) : res (list N * rstate) :=
  if rerr s then Ok ([], s)
  else
    let maxPos0 := w64 (rpos s + maxLen) in
    let maxPos := if maxPos0 >? rlen s then rlen s else maxPos0 in
    do r <- zloop (S (length (rbuf s))) (rbuf s) (rpos s) (rpos s) maxPos;
    match r with
    | (Some str, p) => Ok (str, with_pos s p)
    | (None, p) => Ok ([], mkR (rbuf s) p true)
    end.

(* ReadPossiblyZeroTerminatedString(maxLen): NO err check, NO bound check against len *)
Inductive pzout := PZ (str : list N) (ok : bool) (pos : Z) (seterr : bool).
Fixpoint pzloop (fuel : nat) (b : list N) (start pos maxPos : Z) : res pzout :=
  match fuel with
  | O => OutOfFuel
  | S f =>
      if pos =? maxPos then do str <- gslice b start pos; Ok (PZ str true pos false)
      else if pos >? maxPos then Ok (PZ [] false pos true)
      else do c <- gindex b pos;
           if (c =? 0)%N then do str <- gslice b start pos; Ok (PZ str true (pos + 1) false)
           else pzloop f b start (pos + 1) maxPos
  end.

Definition read_pzstring (maxLen : Z) (s : rstate) : res (list N * bool * rstate) :=
  do r <- pzloop (S (S (length (rbuf s)))) (rbuf s) (rpos s) (rpos s) (w64 (rpos s + maxLen));
  match r with
  | PZ str ok p seterr => Ok (str, ok, mkR (rbuf s) p (rerr s || seterr))
  end.

(* ReadBytes(n) *)
Definition read_bytes (n : Z) (s : rstate) : res (list N * rstate) :=
  if n <? 0 then Ok ([], with_err s)
  else if rerr s then Ok ([], s)
  else if rpos s >? rlen s - n then Ok ([], with_err s)
  else do bs <- gslice (rbuf s) (rpos s) (rpos s + n);
       Ok (bs, with_pos s (rpos s + n)).

(* RemainingBytes *)
Definition remaining_bytes (s : rstate) : res (list N * rstate) :=
  if rerr s then Ok ([], s)
  else do bs <- gslice (rbuf s) (rpos s) (rlen s); Ok (bs, with_pos s (rlen s)).

(* NrRemainingBytes *)
Definition nr_remaining (s : rstate) : Z := if rerr s then 0 else w64 (rlen s - rpos s).   (* int subtraction wraps *)

(* SkipBytes(n) *)
Definition skip_bytes (n : Z) (s : rstate) : rstate :=
  if rerr s then s
  else if w64 (rpos s + n) >? rlen s then with_err s
  else with_pos s (w64 (rpos s + n)).

(* SetPos(pos): no err check, no lower bound *)
Definition set_pos (p : Z) (s : rstate) : rstate :=
  if p >? rlen s then with_err s else with_pos s p.

(* LookAhead(offset, data) with len(data) = dlen; returns (error?, bytes copied); s.err untouched *)
Definition look_ahead (off : Z) (dlen : N) (s : rstate) : res (option (list N)) :=
  if w64 (w64 (rpos s + off) + Z.of_N dlen) >? rlen s then Ok None
  else do bs <- gslice (rbuf s) (w64 (rpos s + off)) (rlen s);
       Ok (Some (firstn (N.to_nat dlen) bs)).

Inductive rop :=
| RU8 | RU16 | RI16 | RU24 | RU32 | RI32 | RU64 | RI64
| RFixedStr (n : Z) | RZStr (m : Z) | RPZStr (m : Z) | RBytes (n : Z)
| RRemaining | RNrRemaining | RSkip (n : Z) | RSetPos (p : Z) | RGetPos | RLength
| RLookAhead (off : Z) (dlen : N) | RAccError.

Inductive rval :=
| VN (n : N) | VZ (z : Z) | VBytes (l : list N) | VStr (l : list N) (ok : bool)
| VLook (r : option (list N)) | VBool (b : bool) | VUnit.

Definition rstep (s : rstate) (o : rop) : res (rval * rstate) :=
  match o with
  | RU8 => do r <- read_fixed 1 s; Ok (VN (fst r), snd r)
  | RU16 => do r <- read_fixed 2 s; Ok (VN (fst r), snd r)
  | RI16 => do r <- read_fixed 2 s; Ok (VZ (to_signed 16 (fst r)), snd r)
  | RU24 => do r <- read_fixed 3 s; Ok (VN (fst r), snd r)
  | RU32 => do r <- read_fixed 4 s; Ok (VN (fst r), snd r)
  | RI32 => do r <- read_fixed 4 s; Ok (VZ (to_signed 32 (fst r)), snd r)
  | RU64 => do r <- read_fixed 8 s; Ok (VN (fst r), snd r)
  | RI64 => do r <- read_fixed 8 s; Ok (VZ (to_signed 64 (fst r)), snd r)
  | RFixedStr n => do r <- read_fixed_string n s; Ok (VBytes (fst r), snd r)
  | RZStr m => do r <- read_zstring m s; Ok (VBytes (fst r), snd r)
  | RPZStr m => do r <- read_pzstring m s; Ok (VStr (fst (fst r)) (snd (fst r)), snd r)
  | RBytes n => do r <- read_bytes n s; Ok (VBytes (fst r), snd r)
  | RRemaining => do r <- remaining_bytes s; Ok (VBytes (fst r), snd r)
  | RNrRemaining => Ok (VZ (nr_remaining s), s)
  | RSkip n => Ok (VUnit, skip_bytes n s)
  | RSetPos p => Ok (VUnit, set_pos p s)
  | RGetPos => Ok (VZ (rpos s), s)
  | RLength => Ok (VZ (rlen s), s)
  | RLookAhead off dlen => do r <- look_ahead off dlen s; Ok (VLook r, s)
  | RAccError => Ok (VBool (rerr s), s)
  end.

(* a whole history: stops at the first Panic *)
Fixpoint run_rops (s : rstate) (ops : list rop) : res (list rval * rstate) :=
  match ops with
  | [] => Ok ([], s)
  | o :: t => do r <- rstep s o; do r2 <- run_rops (snd r) t; Ok (fst r :: fst r2, snd r2)
  end.

(* the invariant of every reachable Go state, and the caller obligations (boolean) *)
Definition rinv (s : rstate) : bool := (0 <=? rpos s) && (rpos s <=? rlen s) && (rlen s <? two63).

Definition rguard (s : rstate) (o : rop) : bool :=
  match o with
  | RFixedStr n => (0 <=? n) && (n <? two63)
  | RZStr m => is_int m
  | RBytes n => is_int n
  | RPZStr m => is_int m && ((m <? 0) || (rpos s + m <=? rlen s))
  | RSkip n => (0 <=? n) && (rpos s + n <? two63)
  | RSetPos p => 0 <=? p
  | RLookAhead off dlen => (0 <=? off) && (rpos s + off + Z.of_N dlen <? two63)
  | _ => true
  end.

(* ------------------------------------------------------------------ cost *)
Record cost := mkC { ticks : N; alloc : N }.
Definition cost0 : cost := mkC 0 0.
Definition tick (n : N) (c : cost) : cost := mkC (ticks c + n) (alloc c).
Definition allocn (n : N) (c : cost) : cost := mkC (ticks c) (alloc c + n).
Definition tot (c : cost) : N := (ticks c + alloc c)%N.

(* ------------------------------------------------------------------ box headers, trees *)
Record hdr := mkH { hname : list N; hsize : N; hlen : N }.

Definition u64z (z : Z) : N := Z.to_N (z mod two64).
Definition addu64 (a b : N) : N := ((a + b) mod 18446744073709551616)%N.
Definition subu64 (a b : N) : N := ((a + 18446744073709551616 - b mod 18446744073709551616) mod 18446744073709551616)%N.
(* int(x) for a uint64 x *)
Definition int_of_u64 (x : N) : Z := w64 (Z.of_N x).
(* BoxHeader.payloadLen() = int(b.Size) - b.Hdrlen *)
Definition payload_len (h : hdr) : Z := w64 (int_of_u64 (hsize h) - Z.of_N (hlen h)).

Inductive tree :=
| Leaf (name : list N) (size : N)            (* Size() as reported by the decoded leaf *)
| Node (name : list N) (kids : list tree).

Fixpoint tsize (t : tree) : N :=
  match t with
  | Leaf _ sz => sz
  | Node _ kids =>
      (* containerSize: contentSize += child.Size(); boxHeaderSize + contentSize (uint64) *)
      addu64 8 ((fix go (l : list tree) : N := match l with [] => 0%N | c :: r => addu64 (tsize c) (go r) end) kids)
  end.
Definition tname (t : tree) : list N := match t with Leaf n _ => n | Node n _ => n end.

(* dispatch: what the two decoder tables do with a box type *)
Inductive kind :=
| KLeaf                     (* leaf decoder (opaque body) or unknown box *)
| KCont                     (* DecodeContainerChildren on the same reader / ...SR, returns nil error *)
| KContBody (accerr : bool). (* moov/moof: reader path reads the body then uses the SR loop;
                               SR path: moof returns sr.AccError() (accerr = true), moov does not *)

(* ------------------------------------------------------------------ io.Reader path *)
Record ist := mkI { ibuf : list N; ipos : N; icost : cost }.
Definition inew (b : list N) : ist := mkI b 0 cost0.
Definition icharge (f : cost -> cost) (s : ist) : ist := mkI (ibuf s) (ipos s) (f (icost s)).
Definition iavail (s : ist) : N := (lenN (ibuf s) - ipos s)%N.

Inductive rfull := RFOk (bs : list N) | RFEof | RFUnexpected.
(* io.ReadFull(r, buf) with len(buf) = k > 0 on a bytes.Reader *)
Definition read_full (k : N) (s : ist) : rfull * ist :=
  if (iavail s =? 0)%N then (RFEof, s)
  else if (iavail s <? k)%N then (RFUnexpected, mkI (ibuf s) (lenN (ibuf s)) (icost s))
  else (RFOk (firstn (N.to_nat k) (skipn (N.to_nat (ipos s)) (ibuf s))), mkI (ibuf s) (ipos s + k)%N (icost s)).

Inductive hout := HEof | HHdr (h : hdr).

(* func DecodeHeader(r io.Reader) (BoxHeader, error) *)
Definition decode_header (s0 : ist) : res hout * ist :=
  let s := icharge (allocn 8) s0 in
  match read_full 8 s with
  | (RFEof, s1) => (Ok HEof, s1)
  | (RFUnexpected, s1) => (Err, s1)
  | (RFOk buf, s1) =>
      match gslice buf 0 4, gslice buf 4 8 with
      | Ok b4, Ok nm =>
          let size := be b4 0 in
          if (size =? 1)%N then
            let s2 := icharge (allocn 8) s1 in
            match read_full 8 s2 with
            | (RFEof, s3) => (Ok HEof, s3)          (* io.EOF of the 2nd ReadFull is returned unwrapped *)
            | (RFUnexpected, s3) => (Err, s3)
            | (RFOk buf2, s3) =>
                let size := be buf2 0 in
                if (size <? 16)%N then (Err, s3) else (Ok (HHdr (mkH nm size 16)), s3)
            end
          else if (size =? 0)%N then (Err, s1)
          else if (size <? 8)%N then (Err, s1)
          else (Ok (HHdr (mkH nm size 8)), s1)
      | _, _ => (Panic, s1)
      end
  end.

(* io.ReadAll(io.LimitReader(r, n)): reads min(n, avail) bytes (n <= 0: nothing) *)
Definition read_limited (n : Z) (s : ist) : list N * ist :=
  if n <=? 0 then ([], s)
  else
    let k := N.min (Z.to_N n) (iavail s) in
    (firstn (N.to_nat k) (skipn (N.to_nat (ipos s)) (ibuf s)),
     mkI (ibuf s) (ipos s + k)%N (allocn k (icost s))).

(* func readBoxBody(r, h) ([]byte, error) *)
Definition read_box_body (h : hdr) (s : ist) : res (list N) * ist :=
  if (hlen h =? hsize h)%N then (Ok [], s)
  else
    let bodyLen := subu64 (hsize h) (hlen h) in
    let '(body, s1) := read_limited (int_of_u64 bodyLen) s in
    if zlen body =? int_of_u64 bodyLen then (Ok body, s1) else (Err, s1).

(* ------------------------------------------------------------------ SliceReader path *)
Record sst := mkS { sr : rstate; scost : cost }.
Definition snew (b : list N) : sst := mkS (rnew b) cost0.
Definition scharge (f : cost -> cost) (s : sst) : sst := mkS (sr s) (f (scost s)).

(* func DecodeHeaderSR(sr) (BoxHeader, error) *)
Definition decode_header_sr (s : sst) : res hdr * sst :=
  match read_fixed 4 (sr s) with
  | Ok (size, r1) =>
      match read_fixed_string 4 r1 with
      | Ok (nm, r2) =>
          if (size =? 1)%N then
            match read_fixed 8 r2 with
            | Ok (size, r3) =>
                if (size <? 16)%N then (Err, mkS r3 (scost s))
                else if rerr r3 then (Err, mkS r3 (scost s))
                else (Ok (mkH nm size 16), mkS r3 (scost s))
            | Err => (Err, s) | Panic => (Panic, s) | OutOfFuel => (OutOfFuel, s)
            end
          else if (size =? 0)%N then (Err, mkS r2 (scost s))
          else if (size <? 8)%N then (Err, mkS r2 (scost s))
          else if rerr r2 then (Err, mkS r2 (scost s))
          else (Ok (mkH nm size 8), mkS r2 (scost s))
      | Err => (Err, s) | Panic => (Panic, s) | OutOfFuel => (OutOfFuel, s)
      end
  | Err => (Err, s) | Panic => (Panic, s) | OutOfFuel => (OutOfFuel, s)
  end.

(* ------------------------------------------------------------------ leaves (opaque bodies) *)
(* A leaf decoder reports the Size() of the box it built.  Both paths. *)
Record leafdec := mkLD {
  ld_kind : list N -> kind;
  ld_r  : hdr -> ist -> res N * ist;
  ld_sr : hdr -> sst -> res N * sst }.

Definition name_mdat : list N := [109; 100; 97; 116]%N.
Definition name_free : list N := [102; 114; 101; 101]%N.
Definition name_skip : list N := [115; 107; 105; 112]%N.
Definition name_moov : list N := [109; 111; 111; 118]%N.
Definition name_moof : list N := [109; 111; 111; 102]%N.
Definition name_traf : list N := [116; 114; 97; 102]%N.
Definition name_mfra : list N := [109; 102; 114; 97]%N.
Definition name_udta : list N := [117; 100; 116; 97]%N.
Definition name_dinf : list N := [100; 105; 110; 102]%N.

Fixpoint eqb_name (a b : list N) : bool :=
  match a, b with
  | [], [] => true
  | x :: a', y :: b' => (x =? y)%N && eqb_name a' b'
  | _, _ => false
  end.

(* the concrete leaves of the correspondence: mdat, free/skip, unknown boxes *)
Definition max_normal_payload : N := 4294967287.   (* (1<<32) - 1 - 8 *)
Definition mdat_size (dataLen : N) (largeHdr : bool) : N :=
  let large := largeHdr || (max_normal_payload <? dataLen)%N in
  addu64 (addu64 8 dataLen) (if large then 8 else 0)%N.

Definition std_kind (nm : list N) : kind :=
  if eqb_name nm name_moov then KContBody false
  else if eqb_name nm name_moof then KContBody true
  else if eqb_name nm name_traf || eqb_name nm name_mfra || eqb_name nm name_udta || eqb_name nm name_dinf
  then KCont else KLeaf.

Definition std_r (h : hdr) (s : ist) : res N * ist :=
  let '(r, s1) := read_box_body h s in
  match r with
  | Ok body =>
      if eqb_name (hname h) name_mdat then (Ok (mdat_size (lenN body) (8 <? hlen h)%N), s1)
      else if eqb_name (hname h) name_free || eqb_name (hname h) name_skip
      then (Ok (addu64 8 (lenN body)), s1)       (* FreeBox.Size() = 8 + len(notDecoded) *)
      else (Ok (hsize h), s1)                    (* UnknownBox.Size() = hdr.Size *)
  | Err => (Err, s1) | Panic => (Panic, s1) | OutOfFuel => (OutOfFuel, s1)
  end.

Definition std_sr (h : hdr) (s : sst) : res N * sst :=
  match read_bytes (payload_len h) (sr s) with
  | Ok (body, r1) =>
      let s1 := mkS r1 (scost s) in
      if eqb_name (hname h) name_mdat then (Ok (mdat_size (lenN body) (8 <? hlen h)%N), s1)  (* DecodeMdatSR: error ignored *)
      else if rerr r1 then (Err, s1)
      else if eqb_name (hname h) name_free || eqb_name (hname h) name_skip
      then (Ok (addu64 8 (lenN body)), s1)
      else (Ok (hsize h), s1)
  | Err => (Err, s) | Panic => (Panic, s) | OutOfFuel => (OutOfFuel, s)
  end.

Definition std_leaves : leafdec := mkLD std_kind std_r std_sr.

(* the "non-matching children box sizes" error lists the children: a loop of at most 32 iterations + 1
   (681e0c4; the pinned text concatenated one string per child: quadratic, found by the mutation search) *)
Definition err_msg_ticks : N := 33.

(* ------------------------------------------------------------------ SR: DecodeBoxSR + DecodeContainerChildrenSR *)
Section Loops.
Variable ld : leafdec.

Fixpoint dec_box_sr (fuel : nat) (startPos : N) (s0 : sst) {struct fuel} : res tree * sst :=
  match fuel with
  | O => (OutOfFuel, s0)
  | S f =>
      let s := scharge (tick 1) s0 in
      match decode_header_sr s with
      | (Ok h, s1) =>
          let maxSize := addu64 (u64z (nr_remaining (sr s1))) (hlen h) in
          if (maxSize <? hsize h)%N && negb (eqb_name (hname h) name_mdat) then (Err, s1)
          else
            match ld_kind ld (hname h) with
            | KLeaf =>
                match ld_sr ld h s1 with
                | (Ok sz, s2) => (Ok (Leaf (hname h) sz), s2)
                | (Err, s2) => (Err, s2) | (Panic, s2) => (Panic, s2) | (OutOfFuel, s2) => (OutOfFuel, s2)
                end
            | KCont =>
                match children_sr f (addu64 startPos 8) (addu64 startPos 8) (addu64 startPos (hsize h))
                                  (rpos (sr s1)) [] (scharge (allocn 8) s1) with
                | (Ok kids, s2) => (Ok (Node (hname h) kids), s2)
                | (Err, s2) => (Err, s2) | (Panic, s2) => (Panic, s2) | (OutOfFuel, s2) => (OutOfFuel, s2)
                end
            | KContBody accerr =>
                match children_sr f (addu64 startPos 8) (addu64 startPos 8) (addu64 startPos (hsize h))
                                  (rpos (sr s1)) [] (scharge (allocn 8) s1) with
                | (Ok kids, s2) =>
                    if accerr && rerr (sr s2) then (Err, s2) else (Ok (Node (hname h) kids), s2)
                | (Err, s2) => (Err, s2) | (Panic, s2) => (Panic, s2) | (OutOfFuel, s2) => (OutOfFuel, s2)
                end
            end
      | (Err, s1) => (Err, s1) | (Panic, s1) => (Panic, s1) | (OutOfFuel, s1) => (OutOfFuel, s1)
      end
  end
(* pos/endPos are uint64, initPos is sr.GetPos() at entry; acc is the children slice, reversed *)
with children_sr (fuel : nat) (startPos pos endPos : N) (initPos : Z) (acc : list tree) (s : sst)
       {struct fuel} : res (list tree) * sst :=
  match fuel with
  | O => (OutOfFuel, s)
  | S f =>
      if (endPos <? pos)%N then (Err, scharge (tick err_msg_ticks) s)
      else if (pos =? endPos)%N then (Ok (rev acc), s)
      else
        match dec_box_sr f pos (scharge (tick 1) s) with
        | (Ok child, s1) =>
            let s2 := scharge (allocn 1) s1 in
            let pos' := addu64 pos (tsize child) in
            let relPosFromSize := rpos (sr s2) - initPos in
            if int_of_u64 (subu64 pos' startPos) =? relPosFromSize
            then children_sr f startPos pos' endPos initPos (child :: acc) s2
            else (Err, s2)                     (* fmt.Errorf with two numbers: constant *)
        | (Err, s1) => (Err, s1) | (Panic, s1) => (Panic, s1) | (OutOfFuel, s1) => (OutOfFuel, s1)
        end
  end.

(* ------------------------------------------------------------------ io.Reader: DecodeBox + DecodeContainerChildren *)
Inductive bout := BEof | BBox (t : tree).

Fixpoint dec_box_r (fuel : nat) (startPos : N) (s0 : ist) {struct fuel} : res bout * ist :=
  match fuel with
  | O => (OutOfFuel, s0)
  | S f =>
      let s := icharge (tick 1) s0 in
      match decode_header s with
      | (Ok HEof, s1) => (Ok BEof, s1)
      | (Ok (HHdr h), s1) =>
          match ld_kind ld (hname h) with
          | KLeaf =>
              match ld_r ld h s1 with
              | (Ok sz, s2) => (Ok (BBox (Leaf (hname h) sz)), s2)
              | (Err, s2) => (Err, s2) | (Panic, s2) => (Panic, s2) | (OutOfFuel, s2) => (OutOfFuel, s2)
              end
          | KCont =>
              match children_r f (addu64 startPos 8) (addu64 startPos (hsize h)) [] (icharge (allocn 8) s1) with
              | (Ok kids, s2) => (Ok (BBox (Node (hname h) kids)), s2)
              | (Err, s2) => (Err, s2) | (Panic, s2) => (Panic, s2) | (OutOfFuel, s2) => (OutOfFuel, s2)
              end
          | KContBody _ =>
              (* data, err := io.ReadAll(io.LimitReader(r, int64(hdr.payloadLen()))); length check;
                 then DecodeContainerChildrenSR on a fresh FixedSliceReader over data *)
              let '(data, s2) := read_limited (payload_len h) s1 in
              if negb (zlen data =? payload_len h) then (Err, s2)
              else
                match children_sr f (addu64 startPos 8) (addu64 startPos 8) (addu64 startPos (hsize h)) 0 []
                                  (mkS (rnew data) (allocn 8 (icost s2))) with
                | (Ok kids, ss) => (Ok (BBox (Node (hname h) kids)), mkI (ibuf s2) (ipos s2) (scost ss))
                | (Err, ss) => (Err, mkI (ibuf s2) (ipos s2) (scost ss))
                | (Panic, ss) => (Panic, mkI (ibuf s2) (ipos s2) (scost ss))
                | (OutOfFuel, ss) => (OutOfFuel, mkI (ibuf s2) (ipos s2) (scost ss))
                end
          end
      | (Err, s1) => (Err, s1) | (Panic, s1) => (Panic, s1) | (OutOfFuel, s1) => (OutOfFuel, s1)
      end
  end
with children_r (fuel : nat) (pos endPos : N) (acc : list tree) (s : ist) {struct fuel} : res (list tree) * ist :=
  match fuel with
  | O => (OutOfFuel, s)
  | S f =>
      (* 9d05608: position compared with the container end BEFORE decoding a child *)
      if (pos =? endPos)%N then (Ok (rev acc), s)
      else if (endPos <? pos)%N then (Err, icharge (tick err_msg_ticks) s)
      else
        match dec_box_r f pos (icharge (tick 1) s) with
        | (Ok BEof, s1) => (Ok (rev acc), s1)          (* err == io.EOF: return children, nil *)
        | (Ok (BBox child), s1) =>
            children_r f (addu64 pos (tsize child)) endPos (child :: acc) (icharge (allocn 1) s1)
        | (Err, s1) => (Err, s1) | (Panic, s1) => (Panic, s1) | (OutOfFuel, s1) => (OutOfFuel, s1)
        end
  end.

End Loops.

(* entry points used by the correspondence and the theorems: fuel = len + 1 *)
Definition box_sr (ld : leafdec) (bs : list N) : res tree * sst :=
  dec_box_sr ld (S (length bs)) 0 (snew bs).
Definition box_r (ld : leafdec) (bs : list N) : res bout * ist :=
  dec_box_r ld (S (length bs)) 0 (inew bs).
