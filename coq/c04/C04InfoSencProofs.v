(* C04InfoSencProofs.v — the state SencBox.ParseReadBox leaves satisfies the relations Info relies on:
   derived from the loops of C04AllocModel.senc_parse / senc_fill_loop (parseAndFillSamples). *)
From V.lib Require Import Base.
From V.c04 Require Import C04AllocModel C04AllocProofs C04XrefModel C04InfoModel C04InfoProofs.
Open Scope N_scope.

(* one successful run of parseAndFillSamples from sample i: the sub-sample counts it reads are those of
   senc_sub_counts, one IV per sample when iv > 0, and the reader advances by exactly the bytes of the samples *)
Lemma senc_fill_loop_ok raw iv cnt : forall fuel i s nIV al it nIV' al' it' s',
  senc_fill_loop raw fuel iv cnt i s nIV al it = Ok (true, nIV', al', it', s') ->
  i <= cnt -> r_err s = false -> r_pos s <= lenN raw ->
  forall fuel2 : nat, (N.to_nat (cnt - i) <= fuel2)%nat ->
  let subs := senc_sub_counts raw fuel2 iv cnt i s in
  lenN subs = cnt - i /\
  nIV' = nIV + (if 0 <? iv then cnt - i else 0) /\
  r_pos s' = r_pos s + (cnt - i) * iv + 2 * (cnt - i) + 6 * sumN subs /\
  r_err s' = false /\ r_pos s' <= lenN raw.
Proof.
  induction fuel as [|f IH]; intros i s nIV al it nIV' al' it' s' H Hi He Hp fuel2 Hf; cbn [senc_fill_loop] in H; [discriminate|].
  destruct (cnt <=? i) eqn:Ec.
  { injection H as <- <- <- <-. bools. assert (i = cnt) as -> by lia.
    replace (cnt - cnt) with 0 by lia.
    assert (Hs : senc_sub_counts raw fuel2 iv cnt cnt s = []).
    { destruct fuel2; cbn [senc_sub_counts]; [reflexivity|]. rewrite N.leb_refl. reflexivity. }
    cbn zeta. rewrite Hs. rewrite lenN_nil. unfold sumN. cbn [fold_right].
    destruct (0 <? iv); repeat split; try lia; assumption. }
  bools.
  destruct ((0 <? iv) && (rem_of raw s <? iv)) eqn:Eg; [discriminate|].
  (* the IV *)
  set (s1 := if 0 <? iv then rd_skip raw iv s else s) in *.
  assert (S1 : r_err s1 = false /\ r_pos s1 = r_pos s + iv /\ r_pos s1 <= lenN raw).
  { subst s1. destruct (0 <? iv) eqn:Ei.
    - cbn [andb] in Eg. unfold rem_of in Eg. bools.
      pose proof (rd_skip_state raw iv s) as St. cbn zeta in St.
      destruct St as [(St & _)|(St1 & _ & St2 & St3)]; [|auto].
      exfalso. unfold rd_skip in St. rewrite He in St. destruct (lenN raw <? r_pos s + iv) eqn:El; [bools; lia|]. cbn in St. discriminate.
    - bools. assert (iv = 0) as -> by lia. repeat split; auto; lia. }
  destruct S1 as (E1 & P1 & L1).
  assert (Hlet : (let '(s0, nIV0, al0) := if 0 <? iv then (rd_skip raw iv s, nIV + 1, al + 24) else (s, nIV, al) in
                  if rem_of raw s0 <? 2 then Ok (false, nIV0, al0, it + 1, s0)
                  else let '(ssc, s2) := rd_n raw 2 s0 in
                       if rem_of raw s2 <? ssc * 6 then Ok (false, nIV0, al0, it + 1, s2)
                       else senc_fill_loop raw f iv cnt (i + 1) (rd_loop raw ssc 6 s2) nIV0 (al0 + 8 * ssc) (it + 1 + ssc))
                 = Ok (true, nIV', al', it', s')) by exact H.
  clear H.
  assert (Hlet2 : exists nIV0 al0,
     nIV0 = nIV + (if 0 <? iv then 1 else 0) /\
     (if rem_of raw s1 <? 2 then Ok (false, nIV0, al0, it + 1, s1)
      else let '(ssc, s2) := rd_n raw 2 s1 in
           if rem_of raw s2 <? ssc * 6 then Ok (false, nIV0, al0, it + 1, s2)
           else senc_fill_loop raw f iv cnt (i + 1) (rd_loop raw ssc 6 s2) nIV0 (al0 + 8 * ssc) (it + 1 + ssc))
     = Ok (true, nIV', al', it', s')).
  { subst s1. destruct (0 <? iv); [exists (nIV + 1), (al + 24) | exists nIV, al]; (split; [lia | exact Hlet]). }
  clear Hlet. destruct Hlet2 as (nIV0 & al0 & HnIV & H).
  destruct (rem_of raw s1 <? 2) eqn:E2; [discriminate|]. unfold rem_of in E2. bools.
  pose proof (rd_n_state raw 2 s1) as St2.
  destruct (rd_n raw 2 s1) as [ssc s2] eqn:Er. cbn [snd] in St2.
  destruct St2 as [(St2 & _)|(E2' & _ & P2 & L2)].
  { exfalso. unfold rd_n in Er. rewrite E1 in Er. destruct (lenN raw <? r_pos s1 + 2) eqn:El; [bools; lia|].
    injection Er as _ <-. cbn in St2. discriminate. }
  destruct (rem_of raw s2 <? ssc * 6) eqn:E3; [discriminate|]. unfold rem_of in E3. bools.
  pose proof (rd_loop_state raw ssc 6 s2) as St3. cbn zeta in St3.
  destruct St3 as [St3|(E3' & _ & P3 & L3)].
  { exfalso. unfold rd_loop in St3. rewrite E2' in St3. destruct ((6 =? 0) || (ssc =? 0)); [congruence|].
    destruct (lenN raw <? r_pos s2 + ssc * 6) eqn:El; [bools; lia|]. cbn in St3. discriminate. }
  specialize (L3 L2).
  (* the sub-sample counts of the specification function take the same steps *)
  destruct fuel2 as [|f2]; [lia|].
  cbn [senc_sub_counts]. destruct (cnt <=? i) eqn:Ec2; [bools; lia|].
  fold s1. rewrite Er.
  specialize (IH (i + 1) (rd_loop raw ssc 6 s2) nIV0 (al0 + 8 * ssc) (it + 1 + ssc) nIV' al' it' s' H ltac:(lia) E3' L3 f2 ltac:(lia)).
  cbn zeta in IH. destruct IH as (I1 & I2 & I3 & I4 & I5).
  cbn zeta. rewrite lenN_cons. unfold sumN in *. cbn [fold_right].
  split; [lia|]. split; [destruct (0 <? iv); lia|]. split; [|split; assumption].
  rewrite I3, P3, P2, P1. nia.
Qed.

Lemma senc_fill_ok raw iv cnt a b al it : senc_fill raw iv cnt = Ok (true, a, b, al, it) ->
  let subs := senc_sub_counts raw (N.to_nat cnt) iv cnt 0 rd0 in
  b = cnt /\ a = (if 0 <? iv then cnt else 0) /\ lenN subs = cnt /\ cnt * iv + 2 * cnt + 6 * sumN subs = lenN raw.
Proof.
  unfold senc_fill.
  destruct (senc_fill_loop raw (S (length raw)) iv cnt 0 rd0 0 (24 * cnt) 0) as [[[[[ok nIV] al0] it0] s]| | |] eqn:E; try discriminate.
  destruct ok; cbn [negb orb]; [|discriminate].
  destruct (rem_of raw s =? 0) eqn:Er; cbn [negb]; [|discriminate].
  intros [= <- <- <- <-].
  pose proof (senc_fill_loop_ok raw iv cnt _ _ _ _ _ _ _ _ _ _ E ltac:(lia) eq_refl ltac:(cbn; lia) (N.to_nat cnt) ltac:(lia)) as H.
  cbn zeta in H. rewrite N.sub_0_r in H. destruct H as (H1 & H2 & H3 & H4 & H5).
  unfold rem_of in Er. bools. cbn [r_pos rd0] in H3. cbn zeta.
  repeat split; try assumption; try lia; destruct (0 <? iv); lia.
Qed.

Lemma senc_parsed_wf fl cnt raw iv_in nivs nsub al it :
  senc_parse fl cnt raw iv_in = Ok (true, nivs, nsub, al, it) ->
  ibox_wf (ISenc fl cnt (senc_iv_used fl cnt raw iv_in) nivs
                 (if has fl 2 then senc_sub_counts raw (N.to_nat cnt) (senc_iv_used fl cnt raw iv_in) cnt 0 rd0 else [])
                 (lenN raw)) = true.
Proof.
  unfold senc_parse, senc_iv_used.
  destruct ((cnt =? 0) || (lenN raw =? 0)) eqn:E0; [discriminate|].
  apply orb_false_iff in E0. destruct E0 as (Ec & El). bools.
  destruct (has fl 2) eqn:Ef; cbn [negb].
  - (* sub-sample encryption: parseAndFillSamples *)
    assert (Hfin : forall iv a b al' it', senc_fill raw iv cnt = Ok (true, a, b, al', it') ->
              ibox_wf (ISenc fl cnt iv a (senc_sub_counts raw (N.to_nat cnt) iv cnt 0 rd0) (lenN raw)) = true).
    { intros iv a b al' it' H. destruct (senc_fill_ok raw iv cnt a b al' it' H) as (_ & Ha & Hl & Hs).
      cbn [ibox_wf]. unfold senc_sub. rewrite Ef. cbn [orb negb].
      apply andb_true_iff. split; [apply andb_true_iff; split|].
      - destruct (iv =? 0) eqn:Ei; [reflexivity|]. bools. cbn [orb]. apply N.leb_le. rewrite Ha.
        destruct (0 <? iv) eqn:E; bools; lia.
      - apply N.eqb_eq. exact Hl.
      - apply N.leb_le. lia. }
    destruct (iv_in =? 0) eqn:Ei; cbn [negb].
    + destruct (senc_fill raw 0 cnt) as [[[[[ok0 a0] b0] al0] it0]| | |] eqn:F0; try discriminate.
      destruct ok0.
      * intros [= <- <- <- <-]. eapply Hfin. exact F0.
      * destruct (senc_fill raw 8 cnt) as [[[[[ok1 a1] b1] al1] it1]| | |] eqn:F1; try discriminate.
        destruct ok1.
        -- intros [= <- <- <- <-]. eapply Hfin. exact F1.
        -- destruct (senc_fill raw 16 cnt) as [[[[[ok2 a2] b2] al2] it2]| | |] eqn:F2; try discriminate.
           intros [= -> <- <- <- <-]. eapply Hfin. exact F2.
    + intros H. eapply Hfin. exact H.
  - (* no sub-samples: IVs only *)
    set (left := lenN raw mod 4294967296).
    assert (Hleft : left <= lenN raw) by (subst left; apply N.mod_le; discriminate).
    set (iv := if iv_in =? 0 then (left / cnt) mod 256 else iv_in).
    destruct (iv * cnt =? left) eqn:Eg; cbn [negb]; [|discriminate]. bools.
    cbn [ibox_wf]. unfold senc_sub. rewrite Ef. cbn [existsb orb negb].
    destruct (iv =? 0) eqn:Ei.
    + intros [= <- <- <- <-]. cbn [orb andb]. bools. rewrite Ei. apply N.leb_le. lia.
    + destruct ((iv =? 8) || (iv =? 16)); [|discriminate].
      intros [= <- <- <- <-]. cbn [orb]. rewrite N.leb_refl. cbn [andb]. apply N.leb_le. nia.
Qed.

(* the run-time check of senc_parsed_state never fails *)
Lemma senc_parsed_state_defined fl cnt raw iv_in nivs nsub al it :
  senc_parse fl cnt raw iv_in = Ok (true, nivs, nsub, al, it) ->
  exists st, senc_parsed_state fl cnt raw iv_in = Some st /\ ibox_wf st = true.
Proof.
  intros H. unfold senc_parsed_state. rewrite H. rewrite (senc_parsed_wf _ _ _ _ _ _ _ _ H).
  eexists. split; [reflexivity|]. exact (senc_parsed_wf _ _ _ _ _ _ _ _ H).
Qed.
