(* C04ReaderProofs.v — bits.FixedSliceReader: every method keeps 0 <= pos <= len and never panics
   under the caller guards; refutations without them. *)
From V.lib Require Import Base.
From V.c04 Require Import C04Model.
Open Scope Z_scope.

Lemma w64_id z : - two63 <= z < two63 -> w64 z = z.
Proof. unfold w64, two63, two64. intros H. rewrite Z.mod_small; lia. Qed.

Lemma gslice_ok b lo hi : 0 <= lo -> lo <= hi -> hi <= zlen b -> exists l, gslice b lo hi = Ok l.
Proof.
  intros H1 H2 H3. unfold gslice.
  replace ((0 <=? lo) && (lo <=? hi) && (hi <=? zlen b))%bool with true by lia.
  eauto.
Qed.

Lemma gindex_ok b i : 0 <= i -> i < zlen b -> exists c, gindex b i = Ok c.
Proof.
  intros H1 H2. unfold gindex. replace ((0 <=? i) && (i <? zlen b))%bool with true by lia. eauto.
Qed.

Definition Inv (s : rstate) : Prop := 0 <= rpos s <= rlen s /\ rlen s < two63.
Lemma rinv_Inv s : rinv s = true <-> Inv s.
Proof. unfold rinv, Inv. lia. Qed.

(* result shape shared by all ops *)
Definition good (s : rstate) (r : rstate) : Prop := Inv r /\ rbuf r = rbuf s.

Lemma good_refl s : Inv s -> good s s.
Proof. split; auto. Qed.
Lemma good_err s : Inv s -> good s (with_err s).
Proof. unfold good, Inv, with_err, rlen. cbn. auto. Qed.
Lemma good_pos s p : Inv s -> 0 <= p <= rlen s -> good s (with_pos s p).
Proof. unfold good, Inv, with_pos, rlen. cbn. intros [H1 H2] H3. auto. Qed.

Lemma read_fixed_safe k s : Inv s -> 0 <= k ->
  exists v s', read_fixed k s = Ok (v, s') /\ good s s'.
Proof.
  intros HI Hk. unfold read_fixed.
  destruct (rerr s). { eexists _, _. split; [reflexivity|apply good_refl; assumption]. }
  destruct (rpos s >? rlen s - k) eqn:E.
  { eexists _, _. split; [reflexivity|apply good_err; assumption]. }
  destruct HI as [HI1 HI2].
  destruct (gslice_ok (rbuf s) (rpos s) (rpos s + k)) as [l Hl]; try (unfold rlen in *; lia).
  rewrite Hl. cbn [rbind]. eexists _, _. split; [reflexivity|].
  apply good_pos; [split; assumption|lia].
Qed.

Lemma read_fixed_string_safe n s : Inv s -> 0 <= n < two63 ->
  exists v s', read_fixed_string n s = Ok (v, s') /\ good s s'.
Proof.
  intros HI Hn. unfold read_fixed_string.
  destruct (rerr s). { eexists _, _. split; [reflexivity|apply good_refl; assumption]. }
  pose proof HI as [HI1 HI2].
  rewrite (w64_id (rlen s - n)) by (unfold two63 in *; lia).
  destruct (rpos s >? rlen s - n) eqn:E.
  { eexists _, _. split; [reflexivity|apply good_err; assumption]. }
  rewrite (w64_id (rpos s + n)) by (unfold two63 in *; lia).
  destruct (gslice_ok (rbuf s) (rpos s) (rpos s + n)) as [l Hl]; try (unfold rlen in *; lia).
  rewrite Hl. cbn [rbind]. eexists _, _. split; [reflexivity|].
  apply good_pos; [assumption|lia].
Qed.

Lemma read_bytes_safe n s : Inv s ->
  exists v s', read_bytes n s = Ok (v, s') /\ good s s'.
Proof.
  intros HI. unfold read_bytes.
  destruct (n <? 0) eqn:En. { eexists _, _. split; [reflexivity|apply good_err; assumption]. }
  destruct (rerr s). { eexists _, _. split; [reflexivity|apply good_refl; assumption]. }
  destruct (rpos s >? rlen s - n) eqn:E.
  { eexists _, _. split; [reflexivity|apply good_err; assumption]. }
  pose proof HI as [HI1 HI2].
  destruct (gslice_ok (rbuf s) (rpos s) (rpos s + n)) as [l Hl]; try (unfold rlen in *; lia).
  rewrite Hl. cbn [rbind]. eexists _, _. split; [reflexivity|].
  apply good_pos; [assumption|lia].
Qed.

Lemma zloop_safe fuel b start : forall pos maxPos,
  0 <= start <= pos -> pos <= zlen b -> maxPos <= zlen b -> maxPos - pos < Z.of_nat fuel -> 0 < Z.of_nat fuel ->
  exists r p, zloop fuel b start pos maxPos = Ok (r, p) /\ pos <= p <= zlen b.
Proof.
  induction fuel as [|f IH]; intros pos maxPos Hs Hp Hm Hf Hf0; [lia|].
  cbn [zloop]. destruct (pos >=? maxPos) eqn:E.
  { eexists _, _. split; [reflexivity|lia]. }
  destruct (gindex_ok b pos) as [c Hc]; try lia. rewrite Hc. cbn [rbind].
  destruct (c =? 0)%N.
  - destruct (gslice_ok b start pos) as [l Hl]; try lia. rewrite Hl. cbn [rbind].
    eexists _, _. split; [reflexivity|lia].
  - destruct (IH (pos + 1) maxPos) as [r [p [H1 H2]]]; try lia.
    rewrite H1. eexists _, _. split; [reflexivity|lia].
Qed.

Lemma read_zstring_safe m s : Inv s ->
  exists v s', read_zstring m s = Ok (v, s') /\ good s s'.
Proof.
  intros HI. unfold read_zstring.
  destruct (rerr s). { eexists _, _. split; [reflexivity|apply good_refl; assumption]. }
  pose proof HI as [HI1 HI2].
  set (maxPos := if w64 (rpos s + m) >? rlen s then rlen s else w64 (rpos s + m)).
  assert (Hmax : maxPos <= rlen s) by (subst maxPos; destruct (w64 (rpos s + m) >? rlen s) eqn:E; lia).
  destruct (zloop_safe (S (length (rbuf s))) (rbuf s) (rpos s) (rpos s) maxPos) as [r [p [H1 H2]]];
    try (unfold rlen, zlen in *; lia).
  rewrite H1. cbn [rbind]. destruct r as [str|].
  - eexists _, _. split; [reflexivity|]. apply good_pos; [assumption|unfold rlen; lia].
  - eexists _, _. split; [reflexivity|]. unfold good, Inv, rlen, zlen in *; cbn; repeat split; try reflexivity; lia.
Qed.

Lemma pzloop_safe fuel b start : forall pos maxPos,
  0 <= start <= pos -> pos <= zlen b -> maxPos <= zlen b -> maxPos - pos < Z.of_nat fuel -> 0 < Z.of_nat fuel ->
  exists str ok p se, pzloop fuel b start pos maxPos = Ok (PZ str ok p se) /\ pos <= p <= zlen b.
Proof.
  induction fuel as [|f IH]; intros pos maxPos Hs Hp Hm Hf Hf0; [lia|].
  cbn [pzloop]. destruct (pos =? maxPos) eqn:E.
  { destruct (gslice_ok b start pos) as [l Hl]; try lia. rewrite Hl. cbn [rbind].
    eexists _, _, _, _. split; [reflexivity|lia]. }
  destruct (pos >? maxPos) eqn:E2.
  { eexists _, _, _, _. split; [reflexivity|lia]. }
  destruct (gindex_ok b pos) as [c Hc]; try lia. rewrite Hc. cbn [rbind].
  destruct (c =? 0)%N.
  - destruct (gslice_ok b start pos) as [l Hl]; try lia. rewrite Hl. cbn [rbind].
    eexists _, _, _, _. split; [reflexivity|lia].
  - destruct (IH (pos + 1) maxPos) as [str [ok [p [se [H1 H2]]]]]; try lia.
    rewrite H1. eexists _, _, _, _. split; [reflexivity|lia].
Qed.

Lemma read_pzstring_safe m s : Inv s -> is_int m = true -> (m < 0 \/ rpos s + m <= rlen s) ->
  exists v s', read_pzstring m s = Ok (v, s') /\ good s s'.
Proof.
  intros HI Hi Hg. unfold read_pzstring. pose proof HI as [HI1 HI2].
  unfold is_int in Hi.
  rewrite (w64_id (rpos s + m)) by (unfold two63 in *; lia).
  destruct (Z_lt_dec m 0) as [Hneg|Hpos].
  - (* maxPos < pos: second test of the first iteration *)
    cbn [pzloop]. replace (rpos s =? rpos s + m) with false by lia.
    replace (rpos s >? rpos s + m) with true by lia. cbn [rbind].
    eexists _, _. split; [reflexivity|]. unfold good, Inv, rlen, zlen in *; cbn; repeat split; try reflexivity; lia.
  - destruct (pzloop_safe (S (S (length (rbuf s)))) (rbuf s) (rpos s) (rpos s) (rpos s + m))
      as [str [ok [p [se [H1 H2]]]]]; try (unfold rlen, zlen in *; lia).
    rewrite H1. cbn [rbind]. eexists _, _. split; [reflexivity|].
    unfold good, Inv, rlen, zlen in *; cbn; repeat split; try reflexivity; lia.
Qed.

Lemma remaining_safe s : Inv s -> exists v s', remaining_bytes s = Ok (v, s') /\ good s s'.
Proof.
  intros HI. unfold remaining_bytes.
  destruct (rerr s). { eexists _, _. split; [reflexivity|apply good_refl; assumption]. }
  pose proof HI as [HI1 HI2].
  destruct (gslice_ok (rbuf s) (rpos s) (rlen s)) as [l Hl]; try (unfold rlen in *; lia).
  rewrite Hl. cbn [rbind]. eexists _, _. split; [reflexivity|]. apply good_pos; [assumption|lia].
Qed.

Lemma skip_safe n s : Inv s -> 0 <= n -> rpos s + n < two63 -> good s (skip_bytes n s).
Proof.
  intros HI Hn Ho. unfold skip_bytes. destruct (rerr s); [apply good_refl; assumption|].
  pose proof HI as [HI1 HI2].
  rewrite (w64_id (rpos s + n)) by (unfold two63 in *; lia).
  destruct (rpos s + n >? rlen s) eqn:E; [apply good_err; assumption|].
  apply good_pos; [assumption|lia].
Qed.

Lemma set_pos_safe p s : Inv s -> 0 <= p -> good s (set_pos p s).
Proof.
  intros HI Hp. unfold set_pos. destruct (p >? rlen s) eqn:E; [apply good_err; assumption|].
  apply good_pos; [assumption|lia].
Qed.

Lemma look_ahead_safe off dlen s : Inv s -> 0 <= off -> rpos s + off + Z.of_N dlen < two63 ->
  exists r, look_ahead off dlen s = Ok r.
Proof.
  intros HI Ho Hb. unfold look_ahead. pose proof HI as [HI1 HI2].
  rewrite (w64_id (rpos s + off)) by (unfold two63 in *; lia).
  rewrite (w64_id (rpos s + off + Z.of_N dlen)) by (unfold two63 in *; lia).
  destruct (rpos s + off + Z.of_N dlen >? rlen s) eqn:E; [eauto|].
  destruct (gslice_ok (rbuf s) (rpos s + off) (rlen s)) as [l Hl]; try (unfold rlen in *; lia).
  rewrite Hl. cbn [rbind]. eauto.
Qed.

Theorem reader_safe : forall s o, rinv s = true -> rguard s o = true ->
  exists v s', rstep s o = Ok (v, s') /\ rinv s' = true /\ rbuf s' = rbuf s.
Proof.
  intros s o HI HG. apply rinv_Inv in HI.
  assert (G : forall s', good s s' -> rinv s' = true /\ rbuf s' = rbuf s).
  { intros s' [H1 H2]. split; [apply rinv_Inv; assumption|assumption]. }
  destruct o; cbn [rstep rguard] in *;
    try (match goal with
         | |- context [read_fixed ?k s] =>
             destruct (read_fixed_safe k s HI ltac:(lia)) as [v [s' [H1 H2]]]; rewrite H1; cbn [rbind fst snd];
             eexists _, _; split; [reflexivity|apply G; assumption]
         end).
  - destruct (read_fixed_string_safe n s HI ltac:(lia)) as [v [s' [H1 H2]]]. rewrite H1. cbn [rbind fst snd].
    eexists _, _. split; [reflexivity|apply G; assumption].
  - destruct (read_zstring_safe m s HI) as [v [s' [H1 H2]]]. rewrite H1. cbn [rbind fst snd].
    eexists _, _. split; [reflexivity|apply G; assumption].
  - apply andb_prop in HG. destruct HG as [G1 G2].
    destruct (read_pzstring_safe m s HI G1 ltac:(lia)) as [v [s' [H1 H2]]]. rewrite H1. cbn [rbind fst snd].
    eexists _, _. split; [reflexivity|apply G; assumption].
  - destruct (read_bytes_safe n s HI) as [v [s' [H1 H2]]]. rewrite H1. cbn [rbind fst snd].
    eexists _, _. split; [reflexivity|apply G; assumption].
  - destruct (remaining_safe s HI) as [v [s' [H1 H2]]]. rewrite H1. cbn [rbind fst snd].
    eexists _, _. split; [reflexivity|apply G; assumption].
  - eexists _, _. split; [reflexivity|apply G, good_refl; assumption].
  - eexists _, _. split; [reflexivity|apply G, skip_safe; [assumption|lia|lia]].
  - eexists _, _. split; [reflexivity|apply G, set_pos_safe; [assumption|lia]].
  - eexists _, _. split; [reflexivity|apply G, good_refl; assumption].
  - eexists _, _. split; [reflexivity|apply G, good_refl; assumption].
  - destruct (look_ahead_safe off dlen s HI ltac:(lia) ltac:(lia)) as [r Hr]. rewrite Hr. cbn [rbind].
    eexists _, _. split; [reflexivity|apply G, good_refl; assumption].
  - eexists _, _. split; [reflexivity|apply G, good_refl; assumption].
Qed.

(* whole histories: guards are checked against the state each op is applied to *)
Fixpoint guards_ok (s : rstate) (ops : list rop) : bool :=
  match ops with
  | [] => true
  | o :: t => rguard s o && match rstep s o with Ok (_, s') => guards_ok s' t | _ => false end
  end.

Theorem reader_history_safe : forall ops s, rinv s = true -> guards_ok s ops = true ->
  exists vs s', run_rops s ops = Ok (vs, s') /\ rinv s' = true /\ rbuf s' = rbuf s.
Proof.
  induction ops as [|o t IH]; intros s HI HG.
  - cbn. eexists _, _. split; [reflexivity|auto].
  - cbn [guards_ok] in HG. apply andb_prop in HG. destruct HG as [G1 G2].
    destruct (reader_safe s o HI G1) as [v [s' [H1 [H2 H3]]]].
    rewrite H1 in G2. cbn [run_rops]. rewrite H1. cbn [rbind fst snd].
    destruct (IH s' H2 G2) as [vs [s'' [K1 [K2 K3]]]]. rewrite K1. cbn [rbind fst snd].
    eexists _, _. split; [reflexivity|]. split; [assumption|congruence].
Qed.

(* ---- refutations: what happens without the guards *)
Definition s3 : rstate := mkR [1; 2; 3]%N 1 false.

Theorem reader_neg_refuted :
  rinv s3 = true /\
  rstep s3 (RFixedStr (-1)) = Panic /\                                  (* slice[1:0] *)
  rstep s3 (RPZStr 5) = Panic /\                                         (* index 3 of 3 *)
  rstep s3 (RLookAhead (-2) 1) = Panic /\                                (* slice[-1:] *)
  (exists s', rstep s3 (RSkip (-2)) = Ok (VUnit, s') /\ rinv s' = false /\ rstep s' RU8 = Panic) /\
  (exists s', rstep s3 (RSkip (two63 - 1)) = Ok (VUnit, s') /\ rinv s' = false /\ rstep s' RU8 = Panic) /\
  (exists s', rstep s3 (RSetPos (-1)) = Ok (VUnit, s') /\ rinv s' = false /\ rstep s' RU8 = Panic).
Proof.
  split; [reflexivity|]. split; [vm_compute; reflexivity|]. split; [vm_compute; reflexivity|].
  split; [vm_compute; reflexivity|].
  split; [eexists; split; [vm_compute; reflexivity|split; vm_compute; reflexivity]|].
  split; [eexists; split; [vm_compute; reflexivity|split; vm_compute; reflexivity]|].
  eexists; split; [vm_compute; reflexivity|split; vm_compute; reflexivity].
Qed.
