(* C04InfoProofs.v — Info of the table boxes: no out-of-range access on the states the decoders produce, and a
   number of lines bounded linearly in the box size, at every level. *)
From V.lib Require Import Base.
From V.c04 Require Import C04AllocModel C04XrefModel C04XrefProofs C04InfoModel.
Open Scope N_scope.

(* ------------------------------------------------------------------ loops *)
Lemma iloop_const1 body : forall fuel i acc,
  (forall j, i <= j < i + N.of_nat fuel -> body j = Ok 1) ->
  iloop fuel i body acc = Ok (acc + N.of_nat fuel).
Proof.
  induction fuel as [|f IH]; intros i acc H; cbn [iloop].
  - f_equal. lia.
  - rewrite (H i) by lia. cbn [rbind]. rewrite IH.
    + f_equal. lia.
    + intros j Hj. apply H. lia.
Qed.

Lemma for_n_const1 n body : (forall j, j < n -> body j = Ok 1) -> for_n n body = Ok n.
Proof.
  intros H. unfold for_n. rewrite iloop_const1.
  - f_equal. lia.
  - intros j Hj. apply H. lia.
Qed.

(* a loop that stops at the first out-of-range index *)
Lemma iloop_panics body : forall fuel i acc j,
  i <= j < i + N.of_nat fuel -> (forall k, i <= k < j -> exists m, body k = Ok m) -> body j = Panic ->
  iloop fuel i body acc = Panic.
Proof.
  induction fuel as [|f IH]; intros i acc j Hj Hok Hp; [lia|]. cbn [iloop].
  destruct (N.eq_dec i j) as [->|Hne].
  - rewrite Hp. reflexivity.
  - destruct (Hok i) as (m & ->); [lia|]. cbn [rbind].
    apply (IH (i + 1) (acc + m) j); [lia | intros k Hk; apply Hok; lia | exact Hp].
Qed.

(* body i = Ok (1 + l[i]) over a whole list *)
Lemma iloop_list body : forall (l : list N) i acc,
  (forall j, j < lenN l -> exists m, idxN l j = Ok m /\ body (i + j) = Ok (1 + m)) ->
  iloop (length l) i body acc = Ok (acc + lenN l + sumN l).
Proof.
  induction l as [|x t IH]; intros i acc H; cbn [length iloop].
  - rewrite lenN_nil. cbn [sumN]. f_equal. unfold sumN. cbn. lia.
  - destruct (H 0) as (m & Hm & Hb); [rewrite lenN_cons; lia|].
    cbn [idxN] in Hm. rewrite N.eqb_refl in Hm. injection Hm as <-.
    rewrite N.add_0_r in Hb. rewrite Hb. cbn [rbind].
    rewrite (IH (i + 1) (acc + (1 + x))).
    + f_equal. rewrite lenN_cons. unfold sumN. cbn [fold_right]. fold (sumN t). lia.
    + intros j Hj. destruct (H (j + 1)) as (m & Hm & Hb'); [rewrite lenN_cons; lia|].
      exists m. split.
      * cbn [idxN] in Hm. destruct (j + 1 =? 0) eqn:E; [lia|]. replace (j + 1 - 1) with j in Hm by lia. exact Hm.
      * replace (i + 1 + j) with (i + (j + 1)) by lia. exact Hb'.
Qed.

Lemma idxN_total_list (l : list N) j : j < lenN l -> exists m, idxN l j = Ok m.
Proof. intros H. destruct (idxN_in_range l j H) as (m & Hm & _). eauto. Qed.

Lemma at_ok len i : i < len -> at_ len i = Ok tt.
Proof. intros H. unfold at_. destruct (i <? len) eqn:E; [reflexivity | lia]. Qed.
Lemma at_panic len i : len <= i -> at_ len i = Panic.
Proof. intros H. unfold at_. destruct (i <? len) eqn:E; [lia | reflexivity]. Qed.

(* ------------------------------------------------------------------ the theorem *)
Definition info_bound (b : ibox) : N := isize b + 1030.

Lemma trun_lines_bound fl n : (negb (trun_per_sample fl =? 0) || (n <=? 1024)) = true ->
  n <= n * trun_per_sample fl + 1024.
Proof.
  intros H. destruct (trun_per_sample fl =? 0) eqn:E; cbn [negb orb] in H.
  - lia.
  - assert (1 <= trun_per_sample fl) by lia. nia.
Qed.

Lemma info_total b level : ibox_wf b = true ->
  exists n, info_lines b level = Ok n /\ n <= info_bound b.
Proof.
  unfold info_bound. intros Hwf. destruct b; cbn [ibox_wf] in Hwf; cbn [info_lines isize].
  - (* stsc *)
    destruct (lvl1 level).
    + rewrite for_n_const1.
      * cbn [rbind]. eexists; split; [reflexivity|]. unfold bN. destruct (0 <? n); lia.
      * intros j Hj. destruct (single =? 0) eqn:E; cbn [negb orb] in Hwf |- *; [|reflexivity].
        rewrite at_ok by lia. reflexivity.
    + cbn [rbind]. eexists; split; [reflexivity|]. unfold bN. destruct (0 <? n); lia.
  - (* trun *)
    pose proof (trun_lines_bound fl n Hwf) as Hb. unfold trun_expected.
    destruct (lvl1 level).
    + rewrite for_n_const1 by (intros; reflexivity). cbn [rbind]. eexists; split; [reflexivity|].
      unfold bN. destruct (has fl 1), (has fl 4); lia.
    + cbn [rbind]. eexists; split; [reflexivity|]. lia.
  - (* senc, not parsed *)
    eexists; split; [reflexivity|]. lia.
  - (* senc, parsed *)
    apply andb_true_iff in Hwf. destruct Hwf as (Hwf & Hraw). apply andb_true_iff in Hwf. destruct Hwf as (Hiv & Hsub).
    destruct (lvl1 level && ((0 <? iv) || senc_sub fl subs)) eqn:Ec.
    2:{ cbn [rbind]. eexists; split; [reflexivity|]. lia. }
    apply andb_true_iff in Ec. destruct Ec as (_ & Ec).
    assert (Hat : forall j, j < count -> (if 0 <? iv then at_ ivs j else Ok tt) = Ok tt).
    { intros j Hj. destruct (0 <? iv) eqn:E; [|reflexivity].
      destruct (iv =? 0) eqn:E0; [lia|]. cbn [orb] in Hiv. apply at_ok. lia. }
    destruct (senc_sub fl subs) eqn:Es.
    + cbn [negb orb] in Hsub. apply N.eqb_eq in Hsub.
      unfold for_n. replace (N.to_nat count) with (length subs) by (unfold lenN in Hsub; lia).
      rewrite iloop_list.
      * cbn [rbind]. eexists; split; [reflexivity|]. nia.
      * intros j Hj. destruct (idxN_total_list subs j Hj) as (m & Hm). exists m. split; [exact Hm|].
        cbn [N.add]. rewrite Hat by lia. cbn [rbind]. rewrite Hm. reflexivity.
    + rewrite orb_false_r in Ec.
      rewrite for_n_const1.
      * cbn [rbind]. eexists; split; [reflexivity|]. assert (1 <= iv) by lia. nia.
      * intros j Hj. rewrite Hat by lia. reflexivity.
  - (* tfra *) eexists; split; [reflexivity|]. unfold tfra_entry. destruct (lvl1 level); [|lia].
    assert (1 <= (if ver =? 1 then 16 else 8) + (1 + sizes / 16 mod 4) + (1 + sizes / 4 mod 4) + (1 + sizes mod 4)) by (destruct (ver =? 1); lia). nia.
  - (* sidx *) eexists; split; [reflexivity|]. destruct (lvl1 level), (ver =? 0); lia.
  - (* saiz *)
    destruct (lvl1 level && (dflt =? 0)) eqn:Ec.
    + apply andb_true_iff in Ec. destruct Ec as (_ & Ed). rewrite Ed in Hwf |- *. cbn [negb orb] in Hwf.
      rewrite for_n_const1.
      * cbn [rbind]. eexists; split; [reflexivity|]. unfold bN. destruct (has fl 1); lia.
      * intros j Hj. rewrite at_ok by lia. reflexivity.
    + cbn [rbind]. eexists; split; [reflexivity|]. unfold bN. destruct (has fl 1), (dflt =? 0); lia.
  - (* ctts *)
    destruct (lvl1 level).
    + rewrite for_n_const1.
      * cbn [rbind]. eexists; split; [reflexivity|]. lia.
      * intros j Hj. rewrite !at_ok by lia. reflexivity.
    + cbn [rbind]. eexists; split; [reflexivity|]. lia.
  - (* stts *)
    destruct (lvl1 level).
    + rewrite for_n_const1.
      * cbn [rbind]. eexists; split; [reflexivity|]. unfold bN. destruct (0 <? counts); lia.
      * intros j Hj. rewrite at_ok by lia. reflexivity.
    + cbn [rbind]. eexists; split; [reflexivity|]. unfold bN. destruct (0 <? counts); lia.
  - (* sbgp *)
    destruct (lvl1 level).
    + rewrite for_n_const1.
      * cbn [rbind]. eexists; split; [reflexivity|]. unfold bN. destruct (ver =? 1); lia.
      * intros j Hj. rewrite at_ok by lia. reflexivity.
    + cbn [rbind]. eexists; split; [reflexivity|]. unfold bN. destruct (ver =? 1); lia.
  - (* saio *) eexists; split; [reflexivity|]. unfold bN. destruct (has fl 1), (0 <? n), (lvl1 level), (ver =? 0); lia.
  - (* stsz *) destruct (number =? 0); (eexists; split; [reflexivity|]); [lia|]. destruct (sizes =? 0), (lvl1 level); lia.
  - (* stss *) eexists; split; [reflexivity|]. unfold bN. destruct (0 <? n), (lvl1 level); lia.
  - (* stco *) eexists; split; [reflexivity|]. unfold bN. destruct (0 <? n), (lvl1 level); lia.
  - (* co64 *) eexists; split; [reflexivity|]. unfold bN. destruct (0 <? n), (lvl1 level); lia.
  - (* elst *) eexists; split; [reflexivity|]. destruct (ver =? 1); lia.
  - (* sdtp *) eexists; split; [reflexivity|]. destruct (lvl1 level); lia.
  - (* subs *) eexists; split; [reflexivity|]. destruct (lvl1 level), (ver =? 1); lia.
Qed.

(* with getInfoLevel in front: any token list *)
Lemma info_total_levels b bt toks : ibox_wf b = true ->
  exists n, info_lines b (get_info_level bt toks) = Ok n /\ n <= info_bound b.
Proof. apply info_total. Qed.

(* ------------------------------------------------------------------ the relations are needed *)
Lemma info_wf_needed :
  info_lines (IStts 2 1) 1 = Panic /\ info_lines (ICtts 1 1) 1 = Panic /\ info_lines (ISbgp 0 2 1) 1 = Panic /\
  info_lines (IStsc 2 0 1) 1 = Panic /\ info_lines (ISaiz 0 0 3 2) 1 = Panic /\
  info_lines (ISenc 0 2 8 1 [] 16) 1 = Panic /\ info_lines (ISenc 2 2 0 0 [1] 20) 1 = Panic /\
  (* at level 0 the same states print *)
  info_lines (IStts 2 1) 0 = Ok 2 /\ info_lines (ISenc 2 2 0 0 [1] 20) 0 = Ok 3.
Proof. vm_compute. repeat split; reflexivity. Qed.

(* exactly: the stts loop panics at level >= 1 iff SampleTimeDelta is shorter than SampleCount *)
Lemma info_stts_panics_iff counts deltas level : (1 <= level)%Z ->
  (info_lines (IStts counts deltas) level = Panic <-> deltas < counts).
Proof.
  intros Hl. cbn [info_lines]. unfold lvl1. destruct (1 <=? level)%Z eqn:E; [|lia].
  split.
  - intros H. destruct (N.lt_ge_cases deltas counts) as [?|Hge]; [assumption|].
    rewrite for_n_const1 in H; [discriminate|]. intros j Hj. rewrite at_ok by lia. reflexivity.
  - intros Hlt. unfold for_n. rewrite (iloop_panics _ (N.to_nat counts) 0 0 deltas).
    + reflexivity.
    + lia.
    + intros k Hk. rewrite at_ok by lia. eexists; reflexivity.
    + rewrite at_panic by lia. reflexivity.
Qed.

(* ------------------------------------------------------------------ decoded states are well formed *)
Lemma stsc_ids_inv : forall sdis i single alloc,
  forallb (fun x => negb (x =? 0)) sdis = true ->
  (i = 0 \/ (negb (single =? 0) || alloc) = true) ->
  let '(s', a') := stsc_ids sdis i single alloc in
  (sdis = [] /\ i = 0) \/ (negb (s' =? 0) || a') = true.
Proof.
  induction sdis as [|sdi rest IH]; intros i single alloc Hnz Hinv; cbn [stsc_ids].
  - destruct Hinv as [->|H]; [left; auto | right; exact H].
  - cbn [forallb] in Hnz. apply andb_true_iff in Hnz. destruct Hnz as (Hs & Hr).
    destruct (i =? 0) eqn:Ei.
    + specialize (IH (i + 1) sdi alloc Hr). destruct (stsc_ids rest (i + 1) sdi alloc) as (s', a').
      destruct IH as [(_ & H0)|H]; [right; rewrite Hs; reflexivity | lia | right; exact H].
    + destruct Hinv as [->|Hinv]; [discriminate|].
      destruct (sdi =? single) eqn:Eq; cbn [negb].
      * specialize (IH (i + 1) single alloc Hr). destruct (stsc_ids rest (i + 1) single alloc) as (s', a').
        destruct IH as [(_ & H0)|H]; [right; exact Hinv | lia | right; exact H].
      * destruct (single =? 0) eqn:E0; cbn [negb].
        -- specialize (IH (i + 1) single alloc Hr). destruct (stsc_ids rest (i + 1) single alloc) as (s', a').
           destruct IH as [(_ & H0)|H]; [right; rewrite E0; exact Hinv | lia | right; exact H].
        -- specialize (IH (i + 1) 0 true Hr). destruct (stsc_ids rest (i + 1) 0 true) as (s', a').
           destruct IH as [(_ & H0)|H]; [right; reflexivity | lia | right; exact H].
Qed.

Lemma existsb_zero_false (l : list N) : existsb (fun x => x =? 0) l = false -> forallb (fun x => negb (x =? 0)) l = true.
Proof.
  induction l as [|x t IH]; cbn [existsb forallb]; [reflexivity|].
  intros H. apply orb_false_iff in H. destruct H as (-> & Ht). cbn [negb andb]. apply IH. exact Ht.
Qed.

Lemma state_of_box_wf sr bs st : state_of_box sr bs = Some (Some st) -> ibox_wf st = true.
Proof.
  unfold state_of_box.
  destruct (hdr_of bs) as [[hs hl]|]; [|destruct (if sr then alloc_box_sr bs else alloc_box_r bs); discriminate].
  destruct (if sr then alloc_box_sr bs else alloc_box_r bs) as [[o| | |]|]; try discriminate.
  destruct (o_ok o); cbn [negb]; [|discriminate].
  destruct (rd_n (skipn (N.to_nat hl) bs) 4 rd0) as (vf, s4).
  set (body := skipn (N.to_nat hl) bs). set (n := o_count o).
  repeat match goal with |- context [if nm ?x bs then _ else _] => destruct (nm x bs) end; try discriminate.
  - (* stsc *)
    destruct (existsb (fun x => x =? 0) (stsc_read_ids body (N.to_nat n) 8)) eqn:Ez; [discriminate|].
    pose proof (stsc_ids_inv (stsc_read_ids body (N.to_nat n) 8) 0 0 false (existsb_zero_false _ Ez) (or_introl eq_refl)) as H.
    destruct (stsc_ids (stsc_read_ids body (N.to_nat n) 8) 0 0 false) as (single, alloc).
    intros [= <-]. cbn [ibox_wf].
    destruct H as [(-> & _)|H].
    + destruct (single =? 0), alloc; reflexivity.
    + destruct (single =? 0); cbn [negb orb] in H |- *; [|reflexivity]. rewrite H. apply N.leb_refl.
  - (* trun *)
    destruct ((1024 <? n) && (trun_per_sample (flags_of vf) =? 0)) eqn:E; [discriminate|].
    intros [= <-]. cbn [ibox_wf]. destruct (trun_per_sample (flags_of vf) =? 0); cbn [negb orb]; [|reflexivity].
    rewrite andb_true_r in E. apply N.leb_le. apply N.ltb_ge in E. exact E.
  - (* senc *)
    destruct (has (flags_of vf) 2 && (Z.to_N (apayload_len hs hl - 8) <? 2 * n)) eqn:E; [discriminate|].
    destruct ((n =? 0) || (Z.to_N (apayload_len hs hl - 8) =? 0)) eqn:E2; intros [= <-]; [|reflexivity].
    cbn [ibox_wf]. unfold senc_sub. cbn [existsb]. rewrite orb_false_r. rewrite N.eqb_refl. cbn [orb andb].
    destruct (has (flags_of vf) 2) eqn:Ef; cbn [negb orb andb] in E |- *.
    + apply N.ltb_ge in E. rewrite lenN_nil. unfold sumN. cbn [fold_right].
      apply orb_true_iff in E2. destruct E2 as [E2|E2]; apply N.eqb_eq in E2.
      * rewrite E2. cbn. apply N.leb_le. lia.
      * assert (n = 0) as -> by lia. cbn. apply N.leb_le. lia.
    + apply N.leb_le. lia.
  - (* tfra *) destruct (rd_n body 4 (rd_skip body 4 s4)). intros [= <-]. reflexivity.
  - intros [= <-]. reflexivity.
  - (* saiz *)
    destruct (rd_n body 1 (if has (flags_of vf) 1 then rd_skip body 8 s4 else s4)) as (dflt, s).
    destruct (rd_n body 4 s) as (cnt, s'). intros [= <-]. cbn [ibox_wf].
    destruct (dflt =? 0); cbn [negb orb]; [apply N.leb_refl | reflexivity].
  - intros [= <-]. cbn [ibox_wf]. apply N.leb_refl.
  - intros [= <-]. cbn [ibox_wf]. apply N.leb_refl.
  - intros [= <-]. cbn [ibox_wf]. apply N.leb_refl.
  - intros [= <-]. reflexivity.
  - destruct (rd_n body 4 s4) as (u, s). destruct (rd_n body 4 s). intros [= <-]. reflexivity.
  - intros [= <-]. reflexivity.
  - intros [= <-]. reflexivity.
  - intros [= <-]. reflexivity.
  - intros [= <-]. reflexivity.
  - intros [= <-]. reflexivity.
  - destruct (rd_n body 4 s4) as (cnt, s). intros [= <-]. reflexivity.
Qed.

Lemma senc_parsed_state_wf fl cnt raw iv st : senc_parsed_state fl cnt raw iv = Some st -> ibox_wf st = true.
Proof.
  unfold senc_parsed_state. destruct (senc_parse fl cnt raw iv) as [[[[[[|] a] b] al] it]| | |]; try discriminate.
  match goal with |- context [if ibox_wf ?s then _ else _] => destruct (ibox_wf s) eqn:E end; [|discriminate].
  intros [= <-]. exact E.
Qed.

(* every box the decoders return prints at every level *)
Lemma info_decoded_total sr bs st bt toks : state_of_box sr bs = Some (Some st) ->
  exists n, info_lines st (get_info_level bt toks) = Ok n /\ n <= info_bound st.
Proof. intros H. apply info_total. exact (state_of_box_wf sr bs st H). Qed.
