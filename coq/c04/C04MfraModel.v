(* C04MfraModel.v — the trailing-index look-back of mp4/file.go File.findAndReadMfra (the DecISMFlag
   pre-pass of DecodeFile) over EXTENDED top-level shapes (DEFINITIONS ONLY).

   C04AsmModel.find_and_read_mfra only knows files whose last box is an mfra with a well-formed mfro.
   The Go text works on bytes: the last 16 bytes are tried as an mfro box (TryDecodeMfro); its
   ParentSize is subtracted from the file length (Seek(-ParentSize, SeekEnd)); whatever box starts
   there is decoded with DecodeBox and must be an mfra; then every later tfra is compared with the
   first one (track id, number of entries, every moof offset).  The extended shapes say where an mfro
   is, what its ParentSize field holds, and where an mfra starts (top level, or inside an mdat payload):
   exactly what that text branches on.  topshape / assemble of C04AsmModel are unchanged (C03 imports them);
   assemble_x on embedded old shapes is assemble (C04MfraProofs.assemble_x_embed). *)
From V.lib Require Import Base.
From V.c04 Require Import C04AsmModel.
Open Scope N_scope.

Definition tfrashape := (N * list N)%type.          (* TrackID, MoofOffset of every entry *)

Inductive xshape :=
| XTop (t : topshape)                                (* as in C04AsmModel; TMfra there ends with an mfro whose ParentSize is the mfra size *)
| XMfra (tfras : list tfrashape) (mfro : option N)   (* mfra{tfra..., [mfro(ParentSize)]} *)
| XMfro (p : N)                                      (* a stand-alone top-level mfro box (16 bytes) *)
| XMdatMfra (pre : N) (tfras : list tfrashape) (mfro : option N).
                                                     (* mdat whose payload is pre bytes followed by a whole mfra box *)

(* what the main loop of DecodeFile sees *)
Definition top_of (x : xshape) (size : N) : topshape :=
  match x with
  | XTop t => t
  | XMfra tfras _ => TMfra tfras
  | XMfro _ => TOther
  | XMdatMfra _ _ _ => TMdat (size - 8)
  end.
Definition tops (boxes : list (xshape * N)) : list (topshape * N) :=
  map (fun b => (top_of (fst b) (snd b), snd b)) boxes.

(* TryDecodeMfro on the last 16 bytes: ParentSize if they are size=16 'mfro' version/flags ParentSize *)
Definition tail_mfro (boxes : list (xshape * N)) : option N :=
  match rev boxes with
  | (XTop (TMfra _), sz) :: _ => Some sz
  | (XMfra _ (Some p), _) :: _ => Some p
  | (XMfro p, _) :: _ => Some p
  | (XMdatMfra _ _ (Some p), _) :: _ => Some p
  | _ => None
  end.

(* DecodeBox at byte offset off (0 <= off <= file length): end of file, an mfra, or anything else
   (another box, or an error: both end in an error of findAndReadMfra) *)
Inductive look := LEnd | LMfra (tfras : list tfrashape) | LNot.
Fixpoint look_at (boxes : list (xshape * N)) (off : N) : look :=
  match boxes with
  | [] => if off =? 0 then LEnd else LNot
  | (x, sz) :: rest =>
      if off =? 0 then
        match x with
        | XTop (TMfra t) => LMfra t
        | XMfra t _ => LMfra t
        | _ => LNot
        end
      else if off <? sz then
        match x with
        | XMdatMfra pre t _ => if off =? 8 + pre then LMfra t else LNot
        | _ => LNot
        end
      else look_at rest (off - sz)
  end.

(* for j := 0; j < len(mfra.Tfras[i].Entries); j++ { if ...Entries[j].MoofOffset != f.tfra.Entries[j].MoofOffset {error} }
   f.tfra.Entries[j] is an index expression: Panic when j is out of range *)
Fixpoint offs_loop (other first : list N) (j : nat) : res unit :=
  match other with
  | [] => Ok tt
  | o :: rest =>
      match nth_error first j with
      | None => Panic
      | Some f => if o =? f then offs_loop rest first (S j) else Err
      end
  end.

(* the body of `for i := 1; i < len(mfra.Tfras); i++`: same track id, different number of entries,
   different moof offset are errors, in this order *)
Definition tfra_check (first t : tfrashape) : res unit :=
  if fst t =? fst first then Err
  else if negb (length (snd t) =? length (snd first))%nat then Err
  else offs_loop (snd t) (snd first) 0.

Fixpoint tfras_loop (first : tfrashape) (rest : list tfrashape) : res unit :=
  match rest with
  | [] => Ok tt
  | t :: r => do _ <- tfra_check first t; tfras_loop first r
  end.

Definition find_and_read_mfra_x (g : bool) (boxes : list (xshape * N)) : res (option (list N)) :=
  let total := sumN (map snd boxes) in
  if total <? 16 then Err                                    (* Seek(-16, SeekEnd) *)
  else
    match tail_mfro boxes with
    | None => Ok None                                         (* not an mfro: Seek(0, SeekStart), nil *)
    | Some p =>
        if total <? p then Err                                (* Seek(-ParentSize, SeekEnd): negative position *)
        else
          match look_at boxes (total - p) with
          | LMfra tfras =>
              match tfras with
              | [] => if g then Ok None else Panic            (* mfra.Tfras[0] *)
              | first :: rest => do _ <- tfras_loop first rest; Ok (Some (snd first))
              end
          | LEnd => Err                                       (* DecodeBox: io.EOF *)
          | LNot => Err                                       (* decode error, or "expecting mfra box" *)
          end
    end.

(* DecodeFile / DecodeFileSR over extended shapes *)
Definition assemble_x (g : bool) (o : opts) (boxes : list (xshape * N)) : res fstate :=
  if o_sr o then
    if o_lazy o then Err
    else decode_loop g (mkO true false false (o_start_on_moof o)) f0 BNone 0 (tops boxes)
  else
    do tf <- (if o_ism o then find_and_read_mfra_x g boxes else Ok None);
    do f <- decode_loop g o (mkF false None None None [] tf false [] [] false) BNone 0 (tops boxes);
    Ok (mkF (f_ftyp f) (f_moov f) (f_mdat f) (f_init f) (f_sidxs f) None (f_mfra f) (f_segs f) (f_children f) (f_frag f)).

Definition embed (boxes : list (topshape * N)) : list (xshape * N) :=
  map (fun b => (XTop (fst b), snd b)) boxes.
