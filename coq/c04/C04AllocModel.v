(* C04AllocModel.v — the count-guard-then-allocate prologues of the table-box decoders of mp4/*.go,
   transcribed from the Go text (DEFINITIONS ONLY).

   Every decoder below is given the box header (hs = hdr.Size, hl = hdr.Hdrlen) and the bytes its
   SliceReader sees after the header:
     - io.Reader path  : readBoxBody -> exactly hs - hl bytes in a fresh FixedSliceReader
     - SliceReader path: ALL remaining bytes of the enclosing slice (DecodeBoxSR has checked hs <= remaining + hl)
   and returns what the Go function does before / while it fills its table:
     o_ok    : the decoder returns a box (false: it returns an error)
     o_count : number of decoded entries (len of the table) when o_ok
     o_alloc : bytes requested with make([]T, n) / appended (n * sizeof T, Go 64-bit struct layout), counted
               even when an error is returned afterwards
     o_iters : iterations of the entry loop(s)
   Panic = the Go code would panic.  sizes are uint64 in Go: all counts read are < 2^32 and per-entry sizes
   <= 64, so the expectedSize arithmetic below cannot wrap (lemma exp_no_wrap in C04AllocProofs.v).

   The entry loops read fixed-width fields with an accumulated-error reader: once a read does not fit, every
   later read returns 0 (bits/fixedslicereader.go).  rd_loop is the closed form of `for i < cnt { fixed reads
   totalling e bytes }`; rd_loop_x of the same loop with `if sr.AccError() != nil { return nil, err }` inside. *)
From V.lib Require Import Base.

Record aout := mkO { o_ok : bool; o_count : N; o_alloc : N; o_iters : N }.
Definition rej : res aout := Ok (mkO false 0 0 0).

(* ---- the accumulated-error reader: position + sticky error ---- *)
Record rd := mkRd { r_pos : N; r_err : bool }.
Definition rd0 : rd := mkRd 0 false.

Fixpoint abe (l : list N) (acc : N) : N :=
  match l with [] => acc | b :: t => abe t (acc * 256 + b mod 256) end.

(* ReadUint8/16/24/32/64, ReadFixedLengthString(w): 0 and sticky error when pos > len - w *)
Definition rd_n (body : list N) (w : N) (s : rd) : N * rd :=
  if r_err s then (0, s)
  else if lenN body <? r_pos s + w then (0, mkRd (r_pos s) true)
  else (abe (firstn (N.to_nat w) (skipn (N.to_nat (r_pos s)) body)) 0, mkRd (r_pos s + w) false).

(* ReadBytes(n) / SkipBytes(n) with n >= 0 known: the state of rd_n without the value (rd_skip_eq) *)
Definition rd_skip (body : list N) (w : N) (s : rd) : rd :=
  if r_err s then s
  else if lenN body <? r_pos s + w then mkRd (r_pos s) true
  else mkRd (r_pos s + w) false.

(* ReadBytes(n) with a Go int n that may be negative: error "attempt to read negative number of bytes" *)
Definition rd_bytes_z (body : list N) (n : Z) (s : rd) : rd :=
  if (n <? 0)%Z then mkRd (r_pos s) true else rd_skip body (Z.to_N n) s.

(* for i := 0; i < cnt; i++ { reads of e bytes in total }  (no exit on error) *)
Definition rd_loop (body : list N) (cnt e : N) (s : rd) : rd :=
  if r_err s then s
  else if (e =? 0) || (cnt =? 0) then s
  else if lenN body <? r_pos s + cnt * e then mkRd (r_pos s + ((lenN body - r_pos s) / e) * e) true
  else mkRd (r_pos s + cnt * e) false.

(* the same loop leaving at the first iteration that ends with AccError() != nil: (iterations, state) *)
Definition rd_loop_x (body : list N) (cnt e : N) (s : rd) : N * rd :=
  if (cnt =? 0) then (0, s)
  else if r_err s then (1, s)
  else if e =? 0 then (cnt, s)
  else if lenN body <? r_pos s + cnt * e
       then ((lenN body - r_pos s) / e + 1, mkRd (r_pos s + ((lenN body - r_pos s) / e) * e) true)
       else (cnt, mkRd (r_pos s + cnt * e) false).

Definition has (fl m : N) : bool := negb (N.land fl m =? 0).
Definition flags_of (vf : N) : N := vf mod 16777216.
Definition version_of (vf : N) : N := vf / 16777216.
Definition bN (b : bool) (n : N) : N := if b then n else 0.
Definition apayload_len (hs hl : N) : Z := (Z.of_N hs - Z.of_N hl)%Z.

(* finish: `return b, sr.AccError()` (acc = true) or `return b, nil` *)
Definition afin (acc : bool) (s : rd) (count alloc iters : N) : res aout :=
  Ok (mkO (negb (acc && r_err s)) count alloc iters).

(* ---- trun (mp4/trun.go DecodeTrun / DecodeTrunSR) ---- *)
Definition trun_per_sample (fl : N) : N :=
  bN (has fl 256) 4 + bN (has fl 512) 4 + bN (has fl 1024) 4 + bN (has fl 2048) 4.
Definition trun_expected (fl cnt : N) : N :=
  16 + bN (has fl 1) 4 + bN (has fl 4) 4 + cnt * trun_per_sample fl.
Definition alloc_trun (sr_path : bool) (hs hl : N) (body : list N) : res aout :=
  let '(vf, s) := rd_n body 4 rd0 in
  let '(cnt, s) := rd_n body 4 s in
  let fl := flags_of vf in
  if negb (hs =? trun_expected fl cnt) then rej
  else if (1024 <? cnt) && negb (has fl 256) && negb (has fl 512) && negb (has fl 1024) && negb (has fl 2048) then rej
  else
    (* t.Samples = make([]Sample, 0, sampleCount): Sample is 4 x 32 bit *)
    let s := if has fl 1 then rd_skip body 4 s else s in
    let s := if has fl 4 then rd_skip body 4 s else s in
    let s := rd_loop body cnt (trun_per_sample fl) s in
    (* DecodeTrun returns t, nil; DecodeTrunSR returns t, sr.AccError() *)
    afin sr_path s cnt (16 * cnt) cnt.

(* ---- stts ---- *)
Definition alloc_stts (hs hl : N) (body : list N) : res aout :=
  let '(vf, s) := rd_n body 4 rd0 in
  let '(cnt, s) := rd_n body 4 s in
  if negb (hs =? 16 + cnt * 8) then rej
  else let s := rd_loop body cnt 8 s in
       afin false s cnt (4 * cnt + 4 * cnt) cnt.

(* ---- ctts: b.EndSampleNr = make([]uint32, entryCount+1) with entryCount+1 computed in uint32, then
        b.EndSampleNr[0] = 0: an index panic when entryCount = 2^32-1 (only reachable with a 32 GiB box) ---- *)
Definition alloc_ctts (hs hl : N) (body : list N) : res aout :=
  let '(vf, s) := rd_n body 4 rd0 in
  let '(cnt, s) := rd_n body 4 s in
  if negb (hs =? 16 + cnt * 8) then rej
  else
    let n1 := (cnt + 1) mod 4294967296 in
    if n1 =? 0 then Panic
    else let s := rd_loop body cnt 8 s in
         afin true s cnt (4 * n1 + 4 * cnt) cnt.

(* ---- stsc: the loop is value dependent (sample description id 0 is an error; a second make when the ids differ) ---- *)
Fixpoint stsc_loop (body : list N) (n : nat) (i : N) (single : N) (extra : bool) (s : rd) : option (bool * rd) :=
  match n with
  | O => Some (extra, s)
  | S n' =>
    let '(_, s) := rd_n body 4 s in
    let '(_, s) := rd_n body 4 s in
    let '(sdi, s) := rd_n body 4 s in
    if sdi =? 0 then None
    else if i =? 0 then stsc_loop body n' (i + 1) sdi extra s
    else if negb (sdi =? single)
         then (if negb (single =? 0) then stsc_loop body n' (i + 1) 0 true s
               else stsc_loop body n' (i + 1) single extra s)
         else stsc_loop body n' (i + 1) single extra s
  end.
Definition alloc_stsc (hs hl : N) (body : list N) : res aout :=
  let '(vf, s) := rd_n body 4 rd0 in
  let '(cnt, s) := rd_n body 4 s in
  if negb (hs =? 16 + cnt * 12) then rej
  else
    (* b.Entries = make([]StscEntry, entryCount): 3 x uint32 *)
    match stsc_loop body (N.to_nat cnt) 0 0 false s with
    | None => Ok (mkO false 0 (12 * cnt + 4 * cnt) cnt)
    | Some (extra, s) => afin false s cnt (12 * cnt + bN extra (4 * cnt)) cnt
    end.

(* ---- stsz ---- *)
Definition alloc_stsz (hs hl : N) (body : list N) : res aout :=
  let '(vf, s) := rd_n body 4 rd0 in
  let '(uniform, s) := rd_n body 4 s in
  let '(number, s) := rd_n body 4 s in
  if negb (hs =? (if 0 <? uniform then 20 else 20 + number * 4)) then rej
  else if uniform =? 0
       then let s := rd_loop body number 4 s in afin true s number (4 * number) number
       else afin true s 0 0 0.

(* ---- stco / co64 / stss ---- *)
Definition alloc_stco (hs hl : N) (body : list N) : res aout :=
  let '(vf, s) := rd_n body 4 rd0 in
  let '(cnt, s) := rd_n body 4 s in
  if negb (hs =? 16 + cnt * 4) then rej
  else let s := rd_loop body cnt 4 s in afin true s cnt (4 * cnt) cnt.

Definition alloc_co64 (hs hl : N) (body : list N) : res aout :=
  let '(vf, s) := rd_n body 4 rd0 in
  let '(cnt, s) := rd_n body 4 s in
  if negb (hs =? 16 + cnt * 8) then rej
  else let '(it, s) := rd_loop_x body cnt 8 s in afin true s cnt (8 * cnt) it.

Definition alloc_stss (hs hl : N) (body : list N) : res aout :=
  let '(vf, s) := rd_n body 4 rd0 in
  let '(cnt, s) := rd_n body 4 s in
  if negb (hs =? 16 + cnt * 4) then rej
  else let s := rd_loop body cnt 4 s in afin false s cnt (4 * cnt) cnt.

(* ---- sdtp: entries := make([]SdtpEntry, hdr.payloadLen()-4) ---- *)
Definition alloc_sdtp (hs hl : N) (body : list N) : res aout :=
  let '(vf, s) := rd_n body 4 rd0 in
  if (apayload_len hs hl <? 4)%Z then rej
  else let n := Z.to_N (apayload_len hs hl - 4) in
       let s := rd_loop body n 1 s in afin true s n n n.

(* ---- saiz ---- *)
Definition alloc_saiz (hs hl : N) (body : list N) : res aout :=
  let '(vf, s) := rd_n body 4 rd0 in
  let fl := flags_of vf in
  let s := if has fl 1 then rd_skip body 4 (rd_skip body 4 s) else s in
  let '(dsis, s) := rd_n body 1 s in
  let '(cnt, s) := rd_n body 4 s in
  if negb (hs =? 17 + bN (has fl 1) 8 + bN (dsis =? 0) cnt) then rej
  else if dsis =? 0
       then let s := rd_loop body cnt 1 s in afin true s cnt cnt cnt
       else afin true s 0 0 0.

(* ---- saio: append in a loop that leaves on AccError ---- *)
Definition alloc_saio (hs hl : N) (body : list N) : res aout :=
  let '(vf, s) := rd_n body 4 rd0 in
  let fl := flags_of vf in
  let v := version_of vf in
  let s := if has fl 1 then rd_skip body 4 (rd_skip body 4 s) else s in
  let '(cnt, s) := rd_n body 4 s in
  let e := if v =? 0 then 4 else 8 in
  if negb (hs =? 16 + bN (has fl 1) 8 + e * cnt) then rej
  else let '(it, s) := rd_loop_x body cnt e s in afin true s cnt (8 * it) it.

(* ---- senc first phase (DecodeSencSR / DecodeSenc): rawData is a sub-slice, nothing is allocated from the count ---- *)
Definition alloc_senc_from (s0 : rd) (sr_path : bool) (hs hl : N) (body : list N) : res aout :=
  if hs <? 16 then rej
  else if negb sr_path && (lenN body <? 8) then rej
  else
    let '(vf, s) := rd_n body 4 s0 in
    if 0 <? version_of vf then rej
    else
      let '(cnt, s) := rd_n body 4 s in
      let fl := flags_of vf in
      if sr_path then
        (* nrDataBytes := hdr.payloadLen() - 8 (b8f1424: the header may be 16 bytes long) *)
        if (apayload_len hs hl - 8 <? 0)%Z then rej
        else if has fl 2 && (Z.to_N (apayload_len hs hl - 8) <? 2 * cnt) then rej
        else let s := rd_bytes_z body (apayload_len hs hl - 8) s in afin true s cnt 0 0
      else
        if has fl 2 && (lenN body - 8 <? 2 * cnt) then rej
        else afin false s cnt 0 0.
Definition alloc_senc (sr_path : bool) (hs hl : N) (body : list N) : res aout := alloc_senc_from rd0 sr_path hs hl body.

(* ---- sbgp ---- *)
Definition alloc_sbgp (hs hl : N) (body : list N) : res aout :=
  let '(vf, s) := rd_n body 4 rd0 in
  let v := version_of vf in
  let s := rd_skip body 4 s in
  let s := if v =? 1 then rd_skip body 4 s else s in
  let '(cnt, s) := rd_n body 4 s in
  if negb (hs =? 20 + bN (v =? 1) 4 + 8 * cnt) then rej
  else let '(it, s) := rd_loop_x body cnt 8 s in afin true s cnt (8 * it) it.

(* ---- subs: NO size guard.  for i < entryCount { delta u32; n u16; for j < n { (v1 ? u32 : u16) u8 u8 u32; append }
        if sr.AccError() != nil { return nil, err }; append }.  SubsSample = 2 x uint32 + 2 x uint8 = 12 bytes,
        SubsEntry = uint32 + slice header = 32 bytes.  Fuel: every iteration that does not leave consumes >= 6 bytes.
        Result: (ok, entries, bytes requested, iterations of both loops) ---- *)
Fixpoint subs_loop (body : list N) (fuel : nat) (esz cnt i : N) (s : rd) (al it : N) : res (bool * N * N * N) :=
  match fuel with
  | O => OutOfFuel
  | S f =>
    if cnt <=? i then Ok (true, i, al, it)
    else
      let '(_, s) := rd_n body 4 s in
      let '(ssc, s) := rd_n body 2 s in
      let s := rd_loop body ssc esz s in
      if r_err s then Ok (false, i, al + 12 * ssc, it + 1 + ssc)
      else subs_loop body f esz cnt (i + 1) s (al + 12 * ssc + 32) (it + 1 + ssc)
  end.
Definition alloc_subs (hs hl : N) (body : list N) : res aout :=
  let '(vf, s) := rd_n body 4 rd0 in
  let v := version_of vf in
  let '(cnt, s) := rd_n body 4 s in
  match subs_loop body (S (length body)) (if v =? 1 then 10 else 8) cnt 0 s 0 0 with
  | Ok (ok, n, al, it) => Ok (mkO (ok && negb (r_err s)) n al it)
  | Err => Err | Panic => Panic | OutOfFuel => OutOfFuel
  end.

(* ---- elst: make([]ElstEntry, entryCount) (uint64, int64, int16, int16 = 24 bytes) BEFORE the version switch ---- *)
Definition alloc_elst (hs hl : N) (body : list N) : res aout :=
  let '(vf, s) := rd_n body 4 rd0 in
  let v := version_of vf in
  let '(cnt, s) := rd_n body 4 s in
  if negb (hs =? 16 + cnt * (if v =? 1 then 20 else 12)) then rej
  else if v =? 1 then let s := rd_loop body cnt 20 s in afin true s cnt (24 * cnt) cnt
  else if v =? 0 then let s := rd_loop body cnt 12 s in afin true s cnt (24 * cnt) cnt
  else Ok (mkO false 0 (24 * cnt) 0).

(* ---- tfra: TfraEntry = 2 x uint64 + 3 x uint32 = 32 bytes ---- *)
Definition tfra_entry (v sizes : N) : N :=
  (if v =? 1 then 16 else 8) + (1 + (sizes / 16) mod 4) + (1 + (sizes / 4) mod 4) + (1 + sizes mod 4).
Definition alloc_tfra (hs hl : N) (body : list N) : res aout :=
  let '(vf, s) := rd_n body 4 rd0 in
  let v := version_of vf in
  let s := rd_skip body 4 s in
  let '(sizes, s) := rd_n body 4 s in
  let '(cnt, s) := rd_n body 4 s in
  if negb (hs =? 24 + cnt * tfra_entry v sizes) then rej
  else let s := rd_loop body cnt (tfra_entry v sizes) s in afin true s cnt (32 * cnt) cnt.

(* ---- sidx: no size guard; reference_count is 16 bit; SidxRef = 3 x uint32 + 3 x uint8 = 16 bytes, appended ---- *)
Definition alloc_sidx (hs hl : N) (body : list N) : res aout :=
  let '(vf, s) := rd_n body 4 rd0 in
  let v := version_of vf in
  let s := rd_skip body 4 (rd_skip body 4 s) in
  let s := if v =? 0 then rd_skip body 4 (rd_skip body 4 s) else rd_skip body 8 (rd_skip body 8 s) in
  let s := rd_skip body 2 s in
  let '(cnt, s) := rd_n body 2 s in
  let s := rd_loop body cnt 12 s in
  afin true s cnt (16 * cnt) cnt.

(* ---- pssh: KIDs appended in a loop that leaves on AccError; UUID is a 16-byte []byte (24-byte header) ---- *)
Definition alloc_pssh (hs hl : N) (body : list N) : res aout :=
  let '(vf, s) := rd_n body 4 rd0 in
  let v := version_of vf in
  let s := rd_skip body 16 s in
  if 0 <? v then
    let '(cnt, s) := rd_n body 4 s in
    let '(it, s) := rd_loop_x body cnt 16 s in
    if r_err s then Ok (mkO false 0 (40 * it) it)
    else
      let '(dl, s) := rd_n body 4 s in
      let s := if 0 <? dl then rd_skip body dl s else s in
      afin true s cnt (40 * it) it
  else
    let '(dl, s) := rd_n body 4 s in
    let s := if 0 <? dl then rd_skip body dl s else s in
    afin true s 0 0 0.

(* ---- ssix: counts checked against the box size; only the first allocation (make([]SubSegment, n), 24-byte
        elements) is modelled, the per-sub-segment ranges are value dependent ---- *)
Definition alloc_ssix (hs hl : N) (body : list N) : res aout :=
  let '(vf, s) := rd_n body 4 rd0 in
  if hs <? 16 then rej
  else
    let '(cnt, s) := rd_n body 4 s in
    (* subSegmentCount > uint32(sizeLeft/8) *)
    if ((hs - 16) / 8) mod 4294967296 <? cnt then rej
    else Ok (mkO true cnt (24 * cnt) cnt).

(* ---- tref type boxes: nrIds := hdr.payloadLen() / 4 ---- *)
Definition alloc_treftype (hs hl : N) (body : list N) : res aout :=
  let n := Z.to_N (apayload_len hs hl / 4) in
  let s := rd_loop body n 4 rd0 in
  afin true s n (4 * n) n.

(* ---- leva: level_count is 8 bit; LevaLevel = 4 x uint32 + uint8 = 20 bytes ---- *)
Definition alloc_leva_prologue (hs hl : N) (body : list N) : res aout :=
  let '(vf, s) := rd_n body 4 rd0 in
  let '(cnt, s) := rd_n body 1 s in
  Ok (mkO true cnt (20 * cnt) cnt).

(* ---- sgpd with grouping type alst (mp4/samplegroupentries.go DecodeAlstSampleGroupEntry), one entry:
        remaining := int(length-uint32(entry.Size())) / 4 in uint32 arithmetic, then two make([]uint16, remaining).
        g = false: pinned text (no check); g = true: the repaired text (26a2e48) returns the accumulated error, checks
        length >= 4 + 4*roll_count and remaining <= bytes left / 4 ---- *)
Definition alloc_alst_entry (g : bool) (body : list N) (length : N) (s : rd) : res (bool * N * N * rd) :=
  let '(roll, s) := rd_n body 2 s in
  let '(_, s) := rd_n body 2 s in
  (* make([]uint32, roll_count) *)
  let s := rd_loop body roll 4 s in
  let size := 4 + 4 * roll in
  if g && (r_err s) then Ok (false, 4 * roll, roll, s)
  else if g && (length <? size) then Ok (false, 4 * roll, roll, s)
  else
    let remaining := ((length + 4294967296 - size) mod 4294967296) / 4 in
    if remaining =? 0 then Ok (negb (r_err s), 4 * roll, roll, s)
    else if g && ((lenN body - r_pos s) / 4 <? remaining) then Ok (false, 4 * roll, roll, s)
    else
      let s := rd_loop body remaining 4 s in
      Ok (negb (r_err s), 4 * roll + 2 * remaining + 2 * remaining, roll + remaining, s).

(* sgpd version 1 with default_length, grouping type alst, first entry only (the loop leaves on any entry error) *)
Definition alloc_sgpd_alst (g : bool) (hs hl : N) (body : list N) : res aout :=
  let '(vf, s) := rd_n body 4 rd0 in
  let v := version_of vf in
  let s := rd_skip body 4 s in
  let '(dlen, s) := if 1 <=? v then rd_n body 4 s else (0, s) in
  let s := if 2 <=? v then rd_skip body 4 s else s in
  let '(cnt, s) := rd_n body 4 s in
  if cnt =? 0 then afin true s 0 0 0
  else
    let '(len1, s) := if (1 <=? v) && (dlen =? 0) then rd_n body 4 s else (dlen, s) in
    if len1 =? 0 then rej
    else
      match alloc_alst_entry g body len1 s with
      | Ok (ok, al, it, s) => Ok (mkO false 0 al it)   (* o_ok is not predicted: later entries are not modelled *)
      | Err => Err | Panic => Panic | OutOfFuel => OutOfFuel
      end.

(* ---- box level: header, the size guard of DecodeBoxSR / the body read of readBoxBody, dispatch on the type ---- *)
Definition name_of (bs : list N) : list N := firstn 4 (skipn 4 bs).

Inductive tbox := TbTrun | TbStts | TbCtts | TbStsc | TbStsz | TbStco | TbCo64 | TbStss | TbSdtp | TbSaiz | TbSaio | TbSenc
                | TbSbgp | TbSubs | TbElst | TbTfra | TbSidx | TbSgpd | TbPssh | TbSsix | TbTrefType | TbLeva | TbUuid | TbFtyp | TbStyp | TbHvcC | TbAvcC | TbLou.

Definition aeqb_name (a b : list N) : bool :=
  match a, b with
  | [a0; a1; a2; a3], [b0; b1; b2; b3] => (a0 =? b0) && (a1 =? b1) && (a2 =? b2) && (a3 =? b3)
  | _, _ => false
  end.

(* ---- hvcC (mp4/hvcc.go + hevc/hevcdecoderconfigurationrecord.go DecodeHEVCDecConfRec) on the payload bytes.
        numOfArrays is 8 bit, numNalus and naluLength 16 bit; the inner loop appends the NALU slice (24-byte header) and
        THEN leaves on the accumulated error; NaluArray = byte + slice header = 32 bytes.
        Inner result: (failed, nalus, alloc, iters, reader). Fuel: an accepted NALU consumes >= 2 bytes. ---- *)
Fixpoint hvcc_nalus (raw : list N) (fuel : nat) (n i : N) (s : rd) (al it : N) : res (bool * N * N * rd) :=
  match fuel with
  | O => OutOfFuel
  | S f =>
    if n <=? i then Ok (false, al, it, s)
    else
      let '(len, s) := rd_n raw 2 s in
      let s := rd_skip raw len s in
      if r_err s then Ok (true, al + 24, it + 1, s)
      else hvcc_nalus raw f n (i + 1) s (al + 24) (it + 1)
  end.

Fixpoint hvcc_arrays (raw : list N) (n : nat) (s : rd) (arrays al it : N) : res (bool * N * N * N * rd) :=
  match n with
  | O => Ok (false, arrays, al, it, s)
  | S n' =>
    let s := rd_skip raw 1 s in
    let '(nn, s) := rd_n raw 2 s in
    match hvcc_nalus raw (S (length raw)) nn 0 s al (it + 1) with
    | Ok (true, al, it, s) => Ok (true, arrays, al, it, s)
    | Ok (false, al, it, s) => hvcc_arrays raw n' s (arrays + 1) (al + 32) it
    | Err => Err | Panic => Panic | OutOfFuel => OutOfFuel
    end
  end.

Definition hvcc_record (raw : list N) : res aout :=
  let '(ver, s) := rd_n raw 1 rd0 in
  if negb (ver =? 1) then rej
  else
    let s := rd_skip raw 1 s in
    let s := rd_skip raw 4 s in
    let s := rd_skip raw 2 (rd_skip raw 4 s) in
    let s := rd_skip raw 1 s in
    let s := rd_skip raw 2 s in
    let s := rd_skip raw 1 (rd_skip raw 1 (rd_skip raw 1 (rd_skip raw 1 s))) in
    let s := rd_skip raw 2 s in
    let '(ab, s) := rd_n raw 1 s in
    if negb (ab mod 4 =? 3) then rej
    else
      let '(na, s) := rd_n raw 1 s in
      match hvcc_arrays raw (N.to_nat na) s 0 0 0 with
      | Ok (failed, arrays, al, it, s) => Ok (mkO (negb failed && negb (r_err s)) arrays al it)
      | Err => Err | Panic => Panic | OutOfFuel => OutOfFuel
      end.

(* DecodeHvcCSR: the record is decoded from sr.ReadBytes(hdr.payloadLen()) (an empty slice when that fails);
   DecodeHvcC: from the body *)
Definition alloc_hvcc (sr_path : bool) (hs hl : N) (body : list N) : res aout :=
  if sr_path then
    let s := rd_bytes_z body (apayload_len hs hl) rd0 in
    hvcc_record (if r_err s then [] else firstn (Z.to_nat (apayload_len hs hl)) body)
  else hvcc_record body.

(* ---- tlou / alou (mp4/lou.go DecodeLoudnessBaseBoxSR): base count is 6 bit (version >= 1) or 1, measurement count
        8 bit; no exit on error and the function returns a nil error.  []*LoudnessBase: 8 bytes per pointer,
        LoudnessBase = 40 bytes, LoudnessMeasurement = 4 bytes ---- *)
Fixpoint lou_loop (raw : list N) (n : nat) (v : N) (s : rd) (al it : N) : N * N * rd :=
  match n with
  | O => (al, it, s)
  | S n' =>
    let s := if 1 <=? v then rd_skip raw 1 s else s in
    let s := rd_skip raw 1 (rd_skip raw 3 (rd_skip raw 2 s)) in
    let '(mc, s) := rd_n raw 1 s in
    let s := rd_loop raw mc 3 s in
    lou_loop raw n' v s (al + 40 + 4 * mc) (it + 1 + mc)
  end.
Definition alloc_lou (hs hl : N) (body : list N) : res aout :=
  let '(vf, s) := rd_n body 4 rd0 in
  let v := version_of vf in
  if 1 <=? v then
    let '(b, s) := rd_n body 1 s in
    if negb ((b / 64) mod 4 =? 0) then rej
    else
      let cnt := b mod 64 in
      let '(al, it, s) := lou_loop body (N.to_nat cnt) v s (8 * cnt) 0 in
      Ok (mkO true cnt al it)
  else
    let '(al, it, s) := lou_loop body 1 v s 8 0 in
    Ok (mkO true 1 al it).

(* ---- avcC (mp4/avcc.go + avc/avcdecoderconfigurationrecord.go DecodeAVCDecConfRec): explicit index checks,
        numSPS is 5 bit, numPPS 8 bit, NALU lengths 16 bit; each NALU appended is a 24-byte slice header.
        Loop result: None = error return, Some (pos, nalus) ---- *)
Definition byte_at (raw : list N) (i : N) : N := nth (N.to_nat i) raw 0 mod 256.
Fixpoint avcc_nalus (raw : list N) (n : nat) (pos cnt : N) : option (N * N) :=
  match n with
  | O => Some (pos, cnt)
  | S n' =>
    if lenN raw <? pos + 2 then None
    else
      let nl := byte_at raw pos * 256 + byte_at raw (pos + 1) in
      let pos := pos + 2 in
      if lenN raw <? pos + nl then None
      else avcc_nalus raw n' (pos + nl) (cnt + 1)
  end.
Definition avcc_record (raw : list N) : res aout :=
  if lenN raw <? 6 then rej
  else if negb (byte_at raw 0 =? 1) then rej
  else if negb (byte_at raw 4 mod 4 =? 3) then rej
  else
    let nsps := byte_at raw 5 mod 32 in
    match avcc_nalus raw (N.to_nat nsps) 6 0 with
    | None => Ok (mkO false 0 (24 + 24 * nsps) nsps)
    | Some (pos, c1) =>
      if lenN raw <=? pos then Ok (mkO false 0 (24 + 24 * c1) c1)
      else
        let npps := byte_at raw pos in
        match avcc_nalus raw (N.to_nat npps) (pos + 1) 0 with
        | None => Ok (mkO false 0 (48 + 24 * c1 + 24 * npps) (c1 + npps))
        | Some (pos, c2) =>
          let al := 48 + 24 * c1 + 24 * c2 in
          let prof := byte_at raw 1 in
          if (prof =? 66) || (prof =? 77) || (prof =? 88) then Ok (mkO true (c1 + c2) al (c1 + c2))
          else if pos =? lenN raw then Ok (mkO true (c1 + c2) al (c1 + c2))
          else if lenN raw <? pos + 4 then Ok (mkO false 0 al (c1 + c2))
          else if negb (byte_at raw (pos + 3) =? 0) then Ok (mkO false 0 al (c1 + c2))
          else Ok (mkO true (c1 + c2) al (c1 + c2))
        end
    end.
Definition alloc_avcc (sr_path : bool) (hs hl : N) (body : list N) : res aout :=
  if sr_path then
    let s := rd_bytes_z body (apayload_len hs hl) rd0 in
    avcc_record (if r_err s then [] else firstn (Z.to_nat (apayload_len hs hl)) body)
  else avcc_record body.
(* ---- uuid (mp4/uuid.go DecodeUUIDBoxSR, used by both paths): tfxd, tfrf (fragment count is 8 bit, two uint64
        appended per fragment, no size guard), PIFF senc (DecodeSencSR on a sub-header of size hs-16), anything else
        (payload = ReadBytes(hs - 24)) ---- *)
Definition uuid_tfxd : list N := [109;29;155;5;66;213;68;230;128;226;20;29;175;247;87;178].
Definition uuid_tfrf : list N := [212;128;126;242;202;57;70;149;142;84;38;203;158;70;167;159].
Definition uuid_piff : list N := [162;57;79;82;90;155;79;20;162;68;108;66;124;100;141;244].
Fixpoint eqb_bytes (a b : list N) : bool :=
  match a, b with
  | [], [] => true
  | x :: a', y :: b' => (x mod 256 =? y) && eqb_bytes a' b'
  | _, _ => false
  end.
Definition alloc_uuid (hs hl : N) (body : list N) : res aout :=
  let s := rd_skip body 16 rd0 in
  let u := if r_err s then [] else firstn 16 body in
  if eqb_bytes u uuid_tfxd then
    let '(vf, s) := rd_n body 4 s in
    let s := if version_of vf =? 0 then rd_skip body 4 (rd_skip body 4 s) else rd_skip body 8 (rd_skip body 8 s) in
    afin true s 0 40 0
  else if eqb_bytes u uuid_tfrf then
    let '(vf, s) := rd_n body 4 s in
    let '(cnt, s) := rd_n body 1 s in
    let s := rd_loop body cnt (if version_of vf =? 0 then 8 else 16) s in
    afin true s cnt (16 * cnt + 64) cnt
  else if eqb_bytes u uuid_piff then
    if hs <? 16 then rej
    else
      match alloc_senc_from s true (hs - 16) 8 body with
      | Ok o => Ok (mkO (o_ok o) (o_count o) (o_alloc o) (o_iters o))
      | r => r
      end
  else
    if hs <? 24 then rej
    else let s := rd_bytes_z body (Z.of_N hs - 24) s in afin true s 0 0 0.

(* ---- ftyp / styp: the payload is kept as a sub-slice; the compatible brands are cut out on demand ---- *)
Definition alloc_ftyp (hs hl : N) (body : list N) : res aout :=
  if (apayload_len hs hl <? 8)%Z then rej
  else let s := rd_bytes_z body (apayload_len hs hl) rd0 in
       afin true s (Z.to_N ((apayload_len hs hl - 8) / 4)) 0 0.
(* DecodeStyp (reader path) checks len(data) < 8 and returns nil error; DecodeStypSR as ftyp *)
Definition alloc_styp (sr_path : bool) (hs hl : N) (body : list N) : res aout :=
  if sr_path then alloc_ftyp hs hl body
  else if lenN body <? 8 then rej else Ok (mkO true ((lenN body - 8) / 4) 0 0).

(* ---- sgpd, the whole entry loop (mp4/sgpd.go DecodeSgpdSR + samplegroupentries.go), repaired text.
        Entry decoders: seig (20 bytes + optional constant IV), roll (2), rap (1), alst, any other type (ReadBytes).
        An entry returns (ok, Size(), bytes requested, inner iterations, reader).  The sgpd loop leaves on the first
        entry error and when Size() differs from the description length.  Fuel: an accepted entry consumes >= 1 byte. ---- *)
Inductive sgkind := SgSeig | SgRoll | SgRap | SgAlst | SgOther.
Definition sgkind_of (gt : list N) : sgkind :=
  if aeqb_name gt [115;101;105;103] then SgSeig else
  if aeqb_name gt [114;111;108;108] then SgRoll else
  if aeqb_name gt [114;97;112;32] then SgRap else
  if aeqb_name gt [97;108;115;116] then SgAlst else SgOther.

Definition sg_entry (k : sgkind) (body : list N) (len1 : N) (s : rd) : bool * N * N * N * rd :=
  match k with
  | SgRoll => let s := rd_skip body 2 s in (negb (r_err s), 2, 8, 0, s)
  | SgRap => let s := rd_skip body 1 s in (negb (r_err s), 1, 8, 0, s)
  | SgSeig =>
    let s := rd_skip body 1 (rd_skip body 1 s) in
    let '(prot, s) := rd_n body 1 s in
    let '(piv, s) := rd_n body 1 s in
    let s := rd_skip body 16 s in
    if (prot =? 1) && (piv =? 0) then
      let '(civ, s) := rd_n body 1 s in
      let s := rd_skip body civ s in
      let size := 21 + (if r_err s then 0 else civ) in
      if negb (len1 =? size) then (false, size, 64, 0, s) else (negb (r_err s), size, 64, 0, s)
    else if negb (len1 =? 20) then (false, 20, 64, 0, s) else (negb (r_err s), 20, 64, 0, s)
  | SgAlst =>
    match alloc_alst_entry true body len1 s with
    | Ok (ok, al, it, s) => (ok, 4 + 4 * it, al + 56, it, s)
    | _ => (false, 0, 0, 0, s)
    end
  | SgOther =>
    let s' := rd_skip body len1 s in
    (negb (r_err s'), (if r_err s' then 0 else len1), 48, 0, s')
  end.

Fixpoint sgpd_loop (body : list N) (fuel : nat) (k : sgkind) (v dlen cnt i : N) (s : rd) (al it : N) : res (bool * N * N * N) :=
  match fuel with
  | O => OutOfFuel
  | S f =>
    if cnt <=? i then Ok (true, i, al, it)
    else
      let '(len1, s, al) := if (1 <=? v) && (dlen =? 0) then (let '(l, s) := rd_n body 4 s in (l, s, al + 4)) else (dlen, s, al) in
      if len1 =? 0 then Ok (false, i, al, it + 1)
      else
        let '(ok, size, a, its, s) := sg_entry k body len1 s in
        if negb ok then Ok (false, i, al + a, it + 1 + its)
        else if negb (size =? len1) then Ok (false, i, al + a, it + 1 + its)
        else sgpd_loop body f k v dlen cnt (i + 1) s (al + a + 16) (it + 1 + its)
  end.

Definition alloc_sgpd (hs hl : N) (body : list N) : res aout :=
  let '(vf, s) := rd_n body 4 rd0 in
  let v := version_of vf in
  let k := sgkind_of (firstn 4 (skipn 4 body)) in
  let s := rd_skip body 4 s in
  let '(dlen, s) := if 1 <=? v then rd_n body 4 s else (0, s) in
  let s := if 2 <=? v then rd_skip body 4 s else s in
  let '(cnt, s) := rd_n body 4 s in
  match sgpd_loop body (S (length body)) k v dlen cnt 0 s 0 0 with
  | Ok (ok, n, al, it) => Ok (mkO (ok && negb (r_err s)) n al it)
  | Err => Err | Panic => Panic | OutOfFuel => OutOfFuel
  end.

Definition tbox_of (nm : list N) : option tbox :=
  if aeqb_name nm [116;114;117;110] then Some TbTrun else
  if aeqb_name nm [115;116;116;115] then Some TbStts else
  if aeqb_name nm [99;116;116;115] then Some TbCtts else
  if aeqb_name nm [115;116;115;99] then Some TbStsc else
  if aeqb_name nm [115;116;115;122] then Some TbStsz else
  if aeqb_name nm [115;116;99;111] then Some TbStco else
  if aeqb_name nm [99;111;54;52] then Some TbCo64 else
  if aeqb_name nm [115;116;115;115] then Some TbStss else
  if aeqb_name nm [115;100;116;112] then Some TbSdtp else
  if aeqb_name nm [115;97;105;122] then Some TbSaiz else
  if aeqb_name nm [115;97;105;111] then Some TbSaio else
  if aeqb_name nm [115;101;110;99] then Some TbSenc else
  if aeqb_name nm [115;98;103;112] then Some TbSbgp else
  if aeqb_name nm [115;117;98;115] then Some TbSubs else
  if aeqb_name nm [101;108;115;116] then Some TbElst else
  if aeqb_name nm [116;102;114;97] then Some TbTfra else
  if aeqb_name nm [115;105;100;120] then Some TbSidx else
  if aeqb_name nm [115;103;112;100] then Some TbSgpd else
  if aeqb_name nm [112;115;115;104] then Some TbPssh else
  if aeqb_name nm [115;115;105;120] then Some TbSsix else
  if aeqb_name nm [104;105;110;116] then Some TbTrefType else   (* hint; cdsc font hind vdep vplx subt share the decoder *)
  if aeqb_name nm [108;101;118;97] then Some TbLeva else
  if aeqb_name nm [117;117;105;100] then Some TbUuid else
  if aeqb_name nm [102;116;121;112] then Some TbFtyp else
  if aeqb_name nm [115;116;121;112] then Some TbStyp else
  if aeqb_name nm [104;118;99;67] then Some TbHvcC else
  if aeqb_name nm [97;118;99;67] then Some TbAvcC else
  if aeqb_name nm [116;108;111;117] || aeqb_name nm [97;108;111;117] then Some TbLou else
  None.

Definition alloc_table (t : tbox) (sr_path : bool) (hs hl : N) (body : list N) : res aout :=
  match t with
  | TbTrun => alloc_trun sr_path hs hl body
  | TbStts => alloc_stts hs hl body
  | TbCtts => alloc_ctts hs hl body
  | TbStsc => alloc_stsc hs hl body
  | TbStsz => alloc_stsz hs hl body
  | TbStco => alloc_stco hs hl body
  | TbCo64 => alloc_co64 hs hl body
  | TbStss => alloc_stss hs hl body
  | TbSdtp => alloc_sdtp hs hl body
  | TbSaiz => alloc_saiz hs hl body
  | TbSaio => alloc_saio hs hl body
  | TbSenc => alloc_senc sr_path hs hl body
  | TbSbgp => alloc_sbgp hs hl body
  | TbSubs => alloc_subs hs hl body
  | TbElst => alloc_elst hs hl body
  | TbTfra => alloc_tfra hs hl body
  | TbSidx => alloc_sidx hs hl body
  | TbSgpd => alloc_sgpd hs hl body
  | TbPssh => alloc_pssh hs hl body
  | TbSsix => alloc_ssix hs hl body
  | TbTrefType => alloc_treftype hs hl body
  | TbLeva => alloc_leva_prologue hs hl body
  | TbUuid => alloc_uuid hs hl body
  | TbFtyp => alloc_ftyp hs hl body
  | TbStyp => alloc_styp sr_path hs hl body
  | TbHvcC => alloc_hvcc sr_path hs hl body
  | TbAvcC => alloc_avcc sr_path hs hl body
  | TbLou => alloc_lou hs hl body
  end.

(* DecodeHeaderSR / DecodeHeader on the first bytes: (size, header length); size 0 and size < header are errors *)
Definition hdr_of (bs : list N) : option (N * N) :=
  if lenN bs <? 8 then None
  else
    let size := abe (firstn 4 bs) 0 in
    if size =? 1 then
      if lenN bs <? 16 then None
      else let size := abe (firstn 8 (skipn 8 bs)) 0 in
           if size <? 16 then None else Some (size, 16)
    else if size =? 0 then None
    else if size <? 8 then None else Some (size, 8).

(* an sgpd box whose grouping type is alst *)
Definition is_sgpd_alst (bs : list N) (hl : N) : bool :=
  aeqb_name (name_of bs) [115;103;112;100] && aeqb_name (firstn 4 (skipn (N.to_nat hl + 4) bs)) [97;108;115;116].

(* DecodeBoxSR(0, NewFixedSliceReader(bs)) restricted to the table boxes (None: another box type) *)
Definition alloc_box_sr (bs : list N) : option (res aout) :=
  match hdr_of bs with
  | None => Some rej
  | Some (hs, hl) =>
    match tbox_of (name_of bs) with
    | None => None
    | Some t =>
      (* maxSize := remaining + Hdrlen; h.Size > maxSize is an error *)
      if lenN bs <? hs then Some rej
      else Some (alloc_table t true hs hl (skipn (N.to_nat hl) bs))
    end
  end.

(* DecodeBox(0, bytes.NewReader(bs)): readBoxBody needs hs - hl bytes *)
Definition alloc_box_r (bs : list N) : option (res aout) :=
  match hdr_of bs with
  | None => Some rej
  | Some (hs, hl) =>
    match tbox_of (name_of bs) with
    | None => None
    | Some t =>
      if lenN bs <? hs then Some rej
      else Some (alloc_table t false hs hl (firstn (N.to_nat (hs - hl)) (skipn (N.to_nat hl) bs)))
    end
  end.

(* ---- senc second phase (mp4/senc.go ParseReadBox + parseAndFillSamples) on the rawData kept by the first phase.
        perSampleIVSize iv is given by the caller (0 = unknown: inferred, or the sizes 0, 8, 16 are tried in turn).
        Result: (ok, len(IVs), len(SubSamples), bytes requested, loop iterations).
        InitializationVector and []SubSamplePattern are slice headers (24 bytes), SubSamplePattern is 8 bytes. ---- *)
Definition rem_of (raw : list N) (s : rd) : N := lenN raw - r_pos s.

(* parseAndFillSamples after make([][]SubSamplePattern, SampleCount); every read is guarded by NrRemainingBytes.
   Fuel: an iteration that does not leave consumes >= 2 bytes. *)
Fixpoint senc_fill_loop (raw : list N) (fuel : nat) (iv cnt i : N) (s : rd) (nIV al it : N) : res (bool * N * N * N * rd) :=
  match fuel with
  | O => OutOfFuel
  | S f =>
    if cnt <=? i then Ok (true, nIV, al, it, s)
    else if (0 <? iv) && (rem_of raw s <? iv) then Ok (false, nIV, al, it + 1, s)
    else
      let '(s, nIV, al) := if 0 <? iv then (rd_skip raw iv s, nIV + 1, al + 24) else (s, nIV, al) in
      if rem_of raw s <? 2 then Ok (false, nIV, al, it + 1, s)
      else
        let '(ssc, s) := rd_n raw 2 s in
        if rem_of raw s <? ssc * 6 then Ok (false, nIV, al, it + 1, s)
        else senc_fill_loop raw f iv cnt (i + 1) (rd_loop raw ssc 6 s) nIV (al + 8 * ssc) (it + 1 + ssc)
  end.

(* one call of parseAndFillSamples from position 0: (ok, len(IVs), len(SubSamples), alloc, iters) *)
Definition senc_fill (raw : list N) (iv cnt : N) : res (bool * N * N * N * N) :=
  match senc_fill_loop raw (S (length raw)) iv cnt 0 rd0 0 (24 * cnt) 0 with
  | Ok (ok, nIV, al, it, s) =>
    if negb ok || negb (rem_of raw s =? 0) then Ok (false, 0, 0, al, it) else Ok (true, nIV, cnt, al, it)
  | Err => Err | Panic => Panic | OutOfFuel => OutOfFuel
  end.

Definition senc_parse (fl cnt : N) (raw : list N) (iv_in : N) : res (bool * N * N * N * N) :=
  (* readButNotParsed is false when SampleCount == 0 or there is no raw data: "senc box already parsed" *)
  if (cnt =? 0) || (lenN raw =? 0) then Ok (false, 0, 0, 0, 0)
  else
    let left := lenN raw mod 4294967296 in
    if negb (has fl 2) then
      let iv := if iv_in =? 0 then (left / cnt) mod 256 else iv_in in
      (* /repo 4cf4f8b: uint64(perSampleIVSize)*uint64(SampleCount) != uint64(nrBytesLeft): the IVs must fill the data exactly *)
      if negb (iv * cnt =? left) then Ok (false, 0, 0, 0, 0)
      else
        let nrIVs := if iv =? 0 then 0 else cnt in
        if iv =? 0 then Ok (true, 0, 0, 24 * nrIVs, 0)
        else if (iv =? 8) || (iv =? 16) then Ok (true, cnt, 0, 24 * nrIVs, cnt)
        else Ok (false, 0, 0, 24 * nrIVs, 0)
    else if negb (iv_in =? 0) then senc_fill raw iv_in cnt
    else
      match senc_fill raw 0 cnt with
      | Ok (true, a, b, al, it) => Ok (true, a, b, al, it)
      | Ok (false, _, _, al0, it0) =>
        match senc_fill raw 8 cnt with
        | Ok (true, a, b, al, it) => Ok (true, a, b, al0 + al, it0 + it)
        | Ok (false, _, _, al1, it1) =>
          match senc_fill raw 16 cnt with
          | Ok (ok, a, b, al, it) => Ok (ok, a, b, al0 + al1 + al, it0 + it1 + it)
          | r => r
          end
        | r => r
        end
      | r => r
      end.

(* both phases on a senc box body: DecodeSenc / DecodeSencSR, then ParseReadBox(iv, nil) when a box was returned.
   o_count = len(IVs) + 2^32 * len(SubSamples) is not used: the result carries both *)
Definition senc_two_phase (sr_path : bool) (hs hl : N) (body : list N) (iv_in : N) : res (bool * bool * N * N * N * N) :=
  match alloc_senc sr_path hs hl body with
  | Ok o =>
    if negb (o_ok o) then Ok (false, false, 0, 0, 0, 0)
    else
      let '(vf, _) := rd_n body 4 rd0 in
      let raw := firstn (Z.to_nat (apayload_len hs hl - 8)) (skipn 8 body) in
      match senc_parse (flags_of vf) (o_count o) raw iv_in with
      | Ok (ok, a, b, al, it) => Ok (true, ok, a, b, al, it)
      | Err => Err | Panic => Panic | OutOfFuel => OutOfFuel
      end
  | Err => Err | Panic => Panic | OutOfFuel => OutOfFuel
  end.

(* box level for the correspondence: a senc box on one path *)
Definition senc_box (sr_path : bool) (bs : list N) (iv_in : N) : option (res (bool * bool * N * N * N * N)) :=
  match hdr_of bs with
  | None => Some (Ok (false, false, 0, 0, 0, 0))
  | Some (hs, hl) =>
    if negb (aeqb_name (name_of bs) [115;101;110;99]) then None
    else if lenN bs <? hs then Some (Ok (false, false, 0, 0, 0, 0))
    else Some (senc_two_phase sr_path hs hl
                 (if sr_path then skipn (N.to_nat hl) bs else firstn (N.to_nat (hs - hl)) (skipn (N.to_nat hl) bs)) iv_in)
  end.



