(* C04InfoModel.v — the Info methods of the table boxes (DEFINITIONS ONLY).

   mp4/infodumper.go getInfoLevel + the Info bodies of mp4/stsc.go trun.go senc.go tfra.go sidx.go saiz.go ctts.go
   stts.go sbgp.go saio.go stsz.go stss.go stco.go co64.go elst.go sdtp.go subs.go.  A box STATE is what the Info
   text reads: the lengths of the slices it ranges over or indexes (parallel slices are separate lengths: an
   API-built box may have different ones), the flags that switch lines on, the counts decoded earlier.
   info_lines: the number of lines written (calls of infoDumper.write incl. the header line of newInfoDumper),
   Panic where an index expression is out of range.  Loops are the Go loops (for_n: `for i := 0; i < n; i++`).
   state_of_box: the state the DECODERS produce for a box given as bytes (through the prologue models of
   C04AllocModel); ibox_wf: the relations between the lengths that the decoders establish. *)
From V.lib Require Import Base.
From V.c04 Require Import C04AllocModel C04XrefModel.
Open Scope N_scope.

(* ------------------------------------------------------------------ getInfoLevel *)
(* specificBoxLevels split at "," and ":" (strings.Split / strings.Index are trusted): a token is
   (box type, Some level) or (box type, None) when strconv.Atoi fails; tokens without ":" or with an empty
   type are skipped by the Go text and are not in the list *)
Definition name := list N.
Fixpoint eqb_name (a b : name) : bool :=
  match a, b with
  | [], [] => true
  | x :: a', y :: b' => (x =? y) && eqb_name a' b'
  | _, _ => false
  end.
Definition n_all : name := [97; 108; 108].

Fixpoint get_level_from (bt : name) (toks : list (name * option Z)) (level : Z) : Z :=
  match toks with
  | [] => level
  | (t, v) :: rest =>
      let l := match v with Some z => z | None => 0%Z end in
      if eqb_name t bt then l                                       (* case boxType: return level *)
      else if eqb_name t n_all then get_level_from bt rest l        (* case "all": level = ... and go on *)
      else get_level_from bt rest level
  end.
Definition get_info_level (bt : name) (toks : list (name * option Z)) : Z := get_level_from bt toks 0.

(* ------------------------------------------------------------------ loops and index expressions *)
Fixpoint iloop (fuel : nat) (i : N) (body : N -> res N) (acc : N) : res N :=
  match fuel with
  | O => Ok acc
  | S f => do k <- body i; iloop f (i + 1) body (acc + k)
  end.
(* for i := 0; i < n; i++ { body(i) }: the lines written *)
Definition for_n (n : N) (body : N -> res N) : res N := iloop (N.to_nat n) 0 body 0.
(* a[i] on a slice of length len *)
Definition at_ (len i : N) : res unit := if i <? len then Ok tt else Panic.

(* ------------------------------------------------------------------ box states *)
Inductive ibox :=
| IStsc (n single sdi : N)                 (* len(Entries), singleSampleDescriptionID, len(SampleDescriptionID) *)
| ITrun (fl n : N)                         (* Flags, len(Samples) *)
| ISencUnparsed (raw : N)                  (* readButNotParsed *)
| ISenc (fl count iv ivs : N) (subs : list N) (raw : N)
                                           (* Flags, SampleCount, perSampleIVSize, len(IVs), len(SubSamples[i]) for every i, len(rawData) *)
| ITfra (ver sizes n : N)
| ISidx (ver n : N)
| ISaiz (fl dflt count info : N)           (* Flags, DefaultSampleInfoSize, SampleCount, len(SampleInfo) *)
| ICtts (offs endnr : N)                   (* len(SampleOffset), len(EndSampleNr) *)
| IStts (counts deltas : N)                (* len(SampleCount), len(SampleTimeDelta) *)
| ISbgp (ver counts idxs : N)              (* Version, len(SampleCounts), len(GroupDescriptionIndices) *)
| ISaio (ver fl n : N)
| IStsz (number sizes : N)                 (* SampleNumber, len(SampleSize) *)
| IStss (n : N) | IStco (n : N) | ICo64 (n : N)
| IElst (ver n : N)
| ISdtp (n : N)
| ISubs (ver : N) (entries : list N).      (* len(e.SubSamples) for every entry *)

Definition lvl1 (level : Z) : bool := (1 <=? level)%Z.              (* `level >= 1` and `level > 0` on an int *)

Definition senc_sub (fl : N) (subs : list N) : bool := has fl 2 || existsb (fun k => 0 <? k) subs.

Definition info_lines (b : ibox) (level : Z) : res N :=
  match b with
  | IStsc n single sdi =>
      do k <- (if lvl1 level
               then for_n n (fun i => if negb (single =? 0) then Ok 1          (* entrySampleDescriptionID(i) *)
                                      else do _ <- at_ sdi i; Ok 1)
               else Ok 0);
      Ok (1 + bN (0 <? n) 1 + k)
  | ITrun fl n =>
      do k <- (if lvl1 level then for_n n (fun _ => Ok 1) else Ok 0);          (* i < SampleCount() = len(Samples) *)
      Ok (2 + (if lvl1 level then bN (has fl 1) 1 + bN (has fl 4) 1 else 0) + k)
  | ISencUnparsed _ => Ok 3
  | ISenc fl count iv ivs subs _ =>
      let sub := senc_sub fl subs in                                           (* s.Flags |= UseSubSampleEncryption *)
      do k <- (if lvl1 level && ((0 <? iv) || sub)
               then for_n count (fun i =>
                      do _ <- (if 0 <? iv then at_ ivs i else Ok tt);          (* s.IVs[i] *)
                      if sub then do m <- idxN subs i; Ok (1 + m)              (* range s.SubSamples[i] *)
                      else Ok 1)
               else Ok 0);
      Ok (3 + k)
  | ITfra _ _ n => Ok (3 + (if lvl1 level then n else 0))
  | ISidx _ n => Ok (5 + (if lvl1 level then n else 0))
  | ISaiz fl dflt count info =>
      do k <- (if lvl1 level && (dflt =? 0)
               then for_n count (fun i => do _ <- at_ info i; Ok 1)            (* b.SampleInfo[i], i < b.SampleCount *)
               else Ok 0);
      Ok (3 + bN (has fl 1) 2 + k)
  | ICtts offs endnr =>
      do k <- (if lvl1 level
               then for_n offs (fun i => do _ <- at_ endnr (i + 1); do _ <- at_ endnr i; Ok 1)
               else Ok 0);                                                     (* EndSampleNr[i+1]-EndSampleNr[i], SampleOffset[i] *)
      Ok (2 + k)
  | IStts counts deltas =>
      do k <- (if lvl1 level then for_n counts (fun i => do _ <- at_ deltas i; Ok 1) else Ok 0);
      Ok (1 + bN (0 <? counts) 1 + k)
  | ISbgp ver counts idxs =>
      do k <- (if lvl1 level then for_n counts (fun i => do _ <- at_ idxs i; Ok 1) else Ok 0);
      Ok (3 + bN (ver =? 1) 1 + k)
  | ISaio _ fl n =>
      Ok (2 + bN (has fl 1) 2 + bN (0 <? n) 1 + (if lvl1 level then n - 1 else 0))   (* Offset[0] under len > 0; i := 1 *)
  | IStsz number sizes =>
      if number =? 0 then Ok 1
      else Ok (1 + (if sizes =? 0 then 2 else 1) + (if lvl1 level then sizes else 0))
  | IStss n | IStco n | ICo64 n => Ok (1 + bN (0 <? n) 1 + (if lvl1 level then n else 0))
  | IElst _ n => Ok (1 + n)
  | ISdtp n => Ok (1 + (if lvl1 level then n else 0))
  | ISubs _ entries => Ok (1 + (if lvl1 level then lenN entries + sumN entries else 0))
  end.

(* Size() of the box in that state (expectedSize of the Go files; senc: readBoxSize = 16 + len(rawData)) *)
Definition isize (b : ibox) : N :=
  match b with
  | IStsc n _ _ => 16 + 12 * n
  | ITrun fl n => trun_expected fl n
  | ISencUnparsed raw => 16 + raw
  | ISenc _ _ _ _ _ raw => 16 + raw
  | ITfra ver sizes n => 24 + n * tfra_entry ver sizes
  | ISidx ver n => (if ver =? 0 then 32 else 40) + 12 * n
  | ISaiz fl dflt count _ => 17 + bN (has fl 1) 8 + bN (dflt =? 0) count
  | ICtts offs _ => 16 + 8 * offs
  | IStts counts _ => 16 + 8 * counts
  | ISbgp ver counts _ => 20 + bN (ver =? 1) 4 + 8 * counts
  | ISaio ver fl n => 16 + bN (has fl 1) 8 + (if ver =? 0 then 4 else 8) * n
  | IStsz _ sizes => 20 + 4 * sizes
  | IStss n | IStco n => 16 + 4 * n
  | ICo64 n => 16 + 8 * n
  | IElst ver n => 16 + (if ver =? 1 then 20 else 12) * n
  | ISdtp n => 12 + n
  | ISubs ver entries => 16 + 6 * lenN entries + (if ver =? 1 then 10 else 8) * sumN entries
  end.

(* what the decoders establish *)
Definition ibox_wf (b : ibox) : bool :=
  match b with
  | IStsc n single sdi => negb (single =? 0) || (n <=? sdi)
  | ITrun fl n => negb (trun_per_sample fl =? 0) || (n <=? 1024)
  | ISenc fl count iv ivs subs raw =>
      ((iv =? 0) || (count <=? ivs))
      && (negb (senc_sub fl subs) || (lenN subs =? count))
      && (count * iv + (if senc_sub fl subs then 2 * count + 6 * sumN subs else 0) <=? raw)
  | ISaiz _ dflt count info => negb (dflt =? 0) || (count <=? info)
  | ICtts offs endnr => offs + 1 <=? endnr
  | IStts counts deltas => counts <=? deltas
  | ISbgp _ counts idxs => counts <=? idxs
  | _ => true
  end.

(* ------------------------------------------------------------------ the state a decoder leaves *)
(* DecodeStscSR: singleSampleDescriptionID / SampleDescriptionID after the entries with these ids (all non-zero) *)
Fixpoint stsc_ids (sdis : list N) (i : N) (single : N) (alloc : bool) : N * bool :=
  match sdis with
  | [] => (single, alloc)
  | sdi :: rest =>
      if i =? 0 then stsc_ids rest (i + 1) sdi alloc
      else if negb (sdi =? single)
           then (if negb (single =? 0) then stsc_ids rest (i + 1) 0 true else stsc_ids rest (i + 1) single alloc)
           else stsc_ids rest (i + 1) single alloc
  end.

Fixpoint stsc_read_ids (body : list N) (n : nat) (pos : N) : list N :=
  match n with
  | O => []
  | S n' => fst (rd_n body 4 (mkRd (pos + 8) false)) :: stsc_read_ids body n' (pos + 12)
  end.

(* the sub-sample counts of the entries of a subs box that decoded without error *)
Fixpoint subs_counts (body : list N) (fuel : nat) (esz cnt i : N) (s : rd) : list N :=
  match fuel with
  | O => []
  | S f =>
    if cnt <=? i then []
    else
      let '(_, s) := rd_n body 4 s in
      let '(ssc, s) := rd_n body 2 s in
      let s := rd_loop body ssc esz s in
      if r_err s then [] else ssc :: subs_counts body f esz cnt (i + 1) s
  end.

Definition nm (s : list N) (bs : list N) : bool := aeqb_name (name_of bs) s.

(* DecodeBoxSR / DecodeBox on the bytes of ONE box: None = not a modelled kind, Some None = the decoder returns an
   error (or panics: the allocation theorems exclude it), Some (Some st) = the state of the box returned *)
Definition state_of_box (sr_path : bool) (bs : list N) : option (option ibox) :=
  match hdr_of bs, (if sr_path then alloc_box_sr bs else alloc_box_r bs) with
  | Some (hs, hl), Some (Ok o) =>
    if negb (o_ok o) then Some None
    else
      let body := skipn (N.to_nat hl) bs in
      let '(vf, s4) := rd_n body 4 rd0 in
      let fl := flags_of vf in
      let ver := version_of vf in
      let n := o_count o in
      if nm [115;116;115;99] bs then
        let sdis := stsc_read_ids body (N.to_nat n) 8 in
        if existsb (fun x => x =? 0) sdis then Some None               (* "stsc sample description id is 0" *)
        else
          let '(single, alloc) := stsc_ids sdis 0 0 false in
          Some (Some (IStsc (lenN sdis) single (if alloc then lenN sdis else 0)))
      else if nm [116;114;117;110] bs then
        if (1024 <? n) && (trun_per_sample fl =? 0) then Some None     (* "sampleCount is big but no sample data present" *)
        else Some (Some (ITrun fl n))
      else if nm [115;101;110;99] bs then
        let raw := Z.to_N (apayload_len hs hl - 8) in
        if has fl 2 && (raw <? 2 * n) then Some None                   (* "too small for ... subSampleEncryption" *)
        else if (n =? 0) || (raw =? 0) then Some (Some (ISenc fl n 0 0 [] raw)) else Some (Some (ISencUnparsed raw))
      else if nm [116;102;114;97] bs then
        let '(sizes, _) := rd_n body 4 (rd_skip body 4 s4) in Some (Some (ITfra ver sizes n))
      else if nm [115;105;100;120] bs then Some (Some (ISidx ver n))
      else if nm [115;97;105;122] bs then
        let s := if has fl 1 then rd_skip body 8 s4 else s4 in
        let '(dflt, s) := rd_n body 1 s in
        let '(cnt, _) := rd_n body 4 s in
        Some (Some (ISaiz fl dflt cnt (if dflt =? 0 then cnt else 0)))
      else if nm [99;116;116;115] bs then Some (Some (ICtts n (n + 1)))
      else if nm [115;116;116;115] bs then Some (Some (IStts n n))
      else if nm [115;98;103;112] bs then Some (Some (ISbgp ver n n))
      else if nm [115;97;105;111] bs then Some (Some (ISaio ver fl n))
      else if nm [115;116;115;122] bs then
        let '(uniform, s) := rd_n body 4 s4 in
        let '(number, _) := rd_n body 4 s in
        Some (Some (IStsz number (if uniform =? 0 then number else 0)))
      else if nm [115;116;115;115] bs then Some (Some (IStss n))
      else if nm [115;116;99;111] bs then Some (Some (IStco n))
      else if nm [99;111;54;52] bs then Some (Some (ICo64 n))
      else if nm [101;108;115;116] bs then Some (Some (IElst ver n))
      else if nm [115;100;116;112] bs then Some (Some (ISdtp n))
      else if nm [115;117;98;115] bs then
        let '(cnt, s) := rd_n body 4 s4 in
        Some (Some (ISubs ver (subs_counts body (S (length body)) (if ver =? 1 then 10 else 8) cnt 0 s)))
      else None
  | None, Some _ => Some None
  | _, Some _ => Some None
  | _, None => None
  end.

(* a senc parsed by the second pass (C04XrefModel / C04AllocModel.senc_parse): the state ParseReadBox leaves.
   subs: the per-sample sub-sample counts read by parseAndFillSamples *)
Fixpoint senc_sub_counts (raw : list N) (fuel : nat) (iv cnt i : N) (s : rd) : list N :=
  match fuel with
  | O => []
  | S f =>
    if cnt <=? i then []
    else
      let s := if 0 <? iv then rd_skip raw iv s else s in
      let '(ssc, s) := rd_n raw 2 s in
      ssc :: senc_sub_counts raw f iv cnt (i + 1) (rd_loop raw ssc 6 s)
  end.

(* iv_used: the perSampleIVSize ParseReadBox ended with (given, inferred, or the first of 0 / 8 / 16 that parses) *)
Definition senc_iv_used (fl cnt : N) (raw : list N) (iv_in : N) : N :=
  if negb (has fl 2) then (if iv_in =? 0 then ((lenN raw mod 4294967296) / cnt) mod 256 else iv_in)
  else if negb (iv_in =? 0) then iv_in
  else match senc_fill raw 0 cnt with
       | Ok (true, _, _, _, _) => 0
       | _ => match senc_fill raw 8 cnt with
              | Ok (true, _, _, _, _) => 8
              | _ => 16
              end
       end.

(* the relations of ibox_wf between len(IVs), len(SubSamples) and the data consumed hold for the state computed from
   senc_parse: the check below never fails (C04InfoSencProofs.senc_parsed_state_defined) *)
Definition senc_parsed_state (fl cnt : N) (raw : list N) (iv_in : N) : option ibox :=
  match senc_parse fl cnt raw iv_in with
  | Ok (true, nivs, nsub, _, _) =>
      let iv := senc_iv_used fl cnt raw iv_in in
      let st := ISenc fl cnt iv nivs
                  (if has fl 2 then senc_sub_counts raw (N.to_nat cnt) iv cnt 0 rd0 else []) (lenN raw) in
      if ibox_wf st then Some st else None
  | _ => None
  end.
