(* C04AsmModel.v — executable model (DEFINITIONS ONLY) of the file-assembly state machine
     mp4/file.go   DecodeFile loop, File.AddChild, startSegmentIfNeeded, findAndReadMfra, AddSidx,
                   File.Encode / EncodeSW, File.Info
     mp4/boxsr.go  DecodeFileSR loop
     mp4/traf.go   ContainsSencBox, ParseReadSenc            mp4/moof.go MoofBox.Encode(SW)
     mp4/fragment.go Fragment.AddChild/Encode/SetTrunDataOffsets   mp4/mediasegment.go, initsegment.go
   over an abstract alphabet of top-level box SHAPES: exactly the information the Go code branches on
   or dereferences (which typed child pointers are nil, how many entries).  Leaf bodies are opaque.
   `g : bool` selects the text: g = false is the PINNED tree (f87a9e4), g = true the REPAIRED tree
   (the `fix:` commits listed in known_findings/C04.json).  Nil dereferences / index expressions are
   the explicit partial operations deref / Panic. *)
From V.lib Require Import Base.
Open Scope N_scope.

Definition addu (a b : N) : N := (a + b) mod 18446744073709551616.

(* ------------------------------------------------------------------ shapes *)
Inductive sencshape := SencParsed | SencUnparsed (parse_ok : bool).
(* saio: no offsets / Offset[0]+moofStart = senc.StartPos+16 / different *)
Inductive saioshape := SaioEmpty | SaioMatch | SaioMismatch.
(* trun: data-offset-present flag clear / set with DataOffset = 0 / set with DataOffset <> 0 *)
Inductive trunshape := TrunNoOffset | TrunZeroOffset | TrunOffset.
Record trafshape := mkTraf { t_tfhd : bool; t_senc : option sencshape; t_saio : option saioshape;
                             t_truns : list trunshape }.
(* moov{mvhd, trak...}: how many of Trak, Mdia, Minf, Stbl, Stts are present (0..5) and the number
   of stts entries; all shapes carry clear (non-encrypted) sample entries *)
Inductive moovshape := MoovChain (depth : nat) (stts : N).
Record sidxshape := mkSidx { sx_first : N; sx_refs : list (bool * N) }.   (* (reference_type = 1, size) *)
Inductive topshape :=
| TFtyp | TMoov (m : moovshape) | TStyp | TSidx (x : sidxshape) | TEmsg
| TMoof (trafs : list trafshape) | TMdat (payload : N)
| TMfra (tfras : list (N * list N))          (* per tfra: track id, moof offsets *)
| TOther.

Inductive btype := BFtyp | BMoov | BStyp | BSidx | BEmsg | BMoof | BMdat | BMfra | BOther | BNone.
Definition btype_of (t : topshape) : btype :=
  match t with TFtyp => BFtyp | TMoov _ => BMoov | TStyp => BStyp | TSidx _ => BSidx | TEmsg => BEmsg
             | TMoof _ => BMoof | TMdat _ => BMdat | TMfra _ => BMfra | TOther => BOther end.
Definition is_moof (b : btype) : bool := match b with BMoof => true | _ => false end.

(* ------------------------------------------------------------------ the File structure *)
Inductive fchild := FCEmsg | FCMoof (trafs : list trafshape) | FCMdat.
(* lists kept in REVERSE order (last element first) *)
Record fragment := mkFrag { fr_moof : option (list trafshape); fr_mdat : bool;
                            fr_children : list fchild; fr_start : N }.
Record segment := mkSeg { sg_styp : bool; sg_nsidx : N; sg_frags : list fragment; sg_start : N }.
Inductive initchild := ICFtyp | ICNilFtyp | ICMoov.

Record fstate := mkF {
  f_ftyp : bool;
  f_moov : option moovshape;
  f_mdat : option N;                        (* payload size of f.Mdat *)
  f_init : option (list initchild);         (* in order *)
  f_sidxs : list (N * sidxshape);           (* (AnchorPoint, sidx) in order; f.Sidx = head *)
  f_tfra : option (list N);
  f_mfra : bool;
  f_segs : list segment;                    (* reversed *)
  f_children : list topshape;               (* reversed *)
  f_frag : bool }.

Definition f0 : fstate := mkF false None None None [] None false [] [] false.

Record opts := mkO { o_sr : bool; o_lazy : bool; o_ism : bool; o_start_on_moof : bool }.

(* ------------------------------------------------------------------ startSegmentIfNeeded *)
Fixpoint refs_scan (refs : list (bool * N)) (boxStart startPos idx segIdx : N) : bool * N :=
  match refs with
  | [] => (false, idx)
  | (typ, sz) :: t =>
      if typ then (false, idx)                                  (* continue sidxLoop *)
      else if (boxStart =? startPos) && (idx =? segIdx) then (true, idx)
      else refs_scan t boxStart (addu startPos sz) (idx + 1) segIdx
  end.
Fixpoint sidx_scan (sx : list (N * sidxshape)) (boxStart idx segIdx : N) : bool :=
  match sx with
  | [] => false
  | (anchor, x) :: t =>
      let '(found, idx') := refs_scan (sx_refs x) boxStart anchor idx segIdx in
      if found then true else sidx_scan t boxStart idx' segIdx
  end.

Definition set_segs (f : fstate) (segs : list segment) (frag : bool) : fstate :=
  mkF (f_ftyp f) (f_moov f) (f_mdat f) (f_init f) (f_sidxs f) (f_tfra f) (f_mfra f) segs (f_children f) frag.

(* the switch of startSegmentIfNeeded *)
Definition seg_start_raw (g : bool) (o : opts) (f : fstate) (boxStart : N) : res bool :=
  let segIdx := lenN (f_segs f) in
  match f_sidxs f with
  | _ :: _ => Ok (sidx_scan (f_sidxs f) boxStart 0 segIdx)
  | [] =>
      match f_tfra f with
      | Some entries =>
          match nth_error entries (N.to_nat segIdx) with
          | Some off => Ok (boxStart =? off)
          | None => if g then Ok false else Panic          (* f.tfra.Entries[segIdx] *)
          end
      | None =>
          if o_start_on_moof o then
            (* every moof, unless the current segment was started by a styp, or the box continues a
               fragment opened by an emsg (08b2548) *)
            match f_segs f with
            | [] => Ok true
            | sg :: _ =>
                Ok (negb (sg_styp sg || match sg_frags sg with
                                        | fr :: _ => match fr_moof fr with None => true | Some _ => false end
                                        | [] => false end))
            end
          else Ok (segIdx =? 0)
      end
  end.

Definition start_segment_if_needed (g : bool) (o : opts) (f : fstate) (boxStart : N) : res fstate :=
  do segStart <- seg_start_raw g o f boxStart;
  (* fddf73c: if !segStart && len(f.Segments) == 0 { segStart = true } *)
  let segStart := if g then segStart || match f_segs f with [] => true | _ => false end else segStart in
  if segStart then Ok (set_segs f (mkSeg false 0 [] boxStart :: f_segs f) true) else Ok f.

(* ------------------------------------------------------------------ File.AddChild *)
Definition deref {A} (o : option A) : res A := match o with Some a => Ok a | None => Panic end.

Definition moov_stts (g : bool) (m : moovshape) : res (option N) :=
  match m with
  | MoovChain depth n =>
      if (depth <? 5)%nat then (if g then Ok None else Panic)     (* f.Moov.Trak.Mdia.Minf.Stbl.Stts *)
      else Ok (Some n)
  end.

Definition push_child (f : fstate) (t : topshape) : fstate :=
  mkF (f_ftyp f) (f_moov f) (f_mdat f) (f_init f) (f_sidxs f) (f_tfra f) (f_mfra f) (f_segs f)
      (t :: f_children f) (f_frag f).

Definition frag_add (fr : fragment) (c : fchild) : fragment :=
  match c with
  | FCEmsg => mkFrag (fr_moof fr) (fr_mdat fr) (c :: fr_children fr) (fr_start fr)
  | FCMoof trafs => mkFrag (Some trafs) (fr_mdat fr) (c :: fr_children fr) (fr_start fr)
  | FCMdat => mkFrag (fr_moof fr) true (c :: fr_children fr) (fr_start fr)
  end.

Definition add_child (g : bool) (o : opts) (f : fstate) (t : topshape) (size boxStart : N) : res fstate :=
  do f1 <-
    match t with
    | TFtyp => Ok (mkF true (f_moov f) (f_mdat f) (f_init f) (f_sidxs f) (f_tfra f) (f_mfra f) (f_segs f) (f_children f) (f_frag f))
    | TMoov m =>
        do n <- moov_stts g m;
        match n with
        | Some 0 =>
            let init := (if f_ftyp f then [ICFtyp] else if g then [] else [ICNilFtyp]) ++ [ICMoov] in
            Ok (mkF (f_ftyp f) (Some m) (f_mdat f) (Some init) (f_sidxs f) (f_tfra f) (f_mfra f) (f_segs f) (f_children f) true)
        | _ => Ok (mkF (f_ftyp f) (Some m) (f_mdat f) (f_init f) (f_sidxs f) (f_tfra f) (f_mfra f) (f_segs f) (f_children f) (f_frag f))
        end
    | TSidx x =>
        match f_segs f with
        | [] => Ok (mkF (f_ftyp f) (f_moov f) (f_mdat f) (f_init f)
                        (f_sidxs f ++ [(addu (addu boxStart (sx_first x)) size, x)])
                        (f_tfra f) (f_mfra f) (f_segs f) (f_children f) (f_frag f))
        | sg :: rest => Ok (set_segs f (mkSeg (sg_styp sg) (sg_nsidx sg + 1) (sg_frags sg) (sg_start sg) :: rest) (f_frag f))
        end
    | TStyp => Ok (set_segs f (mkSeg true 0 [] boxStart :: f_segs f) true)
    | TEmsg =>
        do f' <- start_segment_if_needed g o f boxStart;
        match f_segs f' with
        | [] => Panic                                              (* len(lastSeg.Fragments) on nil *)
        | sg :: rest =>
            let frs := match sg_frags sg with [] => [mkFrag None false [] boxStart] | l => l end in
            match frs with
            | [] => Panic
            | fr :: frest =>
                Ok (set_segs f' (mkSeg (sg_styp sg) (sg_nsidx sg) (frag_add fr FCEmsg :: frest) (sg_start sg) :: rest) (f_frag f'))
            end
        end
    | TMoof trafs =>
        do f' <- start_segment_if_needed g o (set_segs f (f_segs f) true) boxStart;
        match f_segs f' with
        | [] => Panic                                              (* currSeg.LastFragment() on nil *)
        | sg :: rest =>
            let frs := match sg_frags sg with
                       | [] => [mkFrag None false [] boxStart]
                       | fr :: _ => match fr_moof fr with
                                    | Some _ => mkFrag None false [] boxStart :: sg_frags sg
                                    | None => sg_frags sg end
                       end in
            match frs with
            | [] => Panic
            | fr :: frest =>
                Ok (set_segs f' (mkSeg (sg_styp sg) (sg_nsidx sg) (frag_add fr (FCMoof trafs) :: frest) (sg_start sg) :: rest) (f_frag f'))
            end
        end
    | TMdat p =>
        if negb (f_frag f) then
          match f_mdat f with
          | None => Ok (mkF (f_ftyp f) (f_moov f) (Some p) (f_init f) (f_sidxs f) (f_tfra f) (f_mfra f) (f_segs f) (f_children f) (f_frag f))
          | Some 0 => Ok (mkF (f_ftyp f) (f_moov f) (Some p) (f_init f) (f_sidxs f) (f_tfra f) (f_mfra f) (f_segs f) (f_children f) (f_frag f))
          | Some _ => Ok f
          end
        else
          match f_segs f with
          | [] => Panic                                            (* f.LastSegment().LastFragment() *)
          | sg :: rest =>
              match sg_frags sg with
              | [] => Panic                                        (* currentFragment.AddChild on nil *)
              | fr :: frest =>
                  Ok (set_segs f (mkSeg (sg_styp sg) (sg_nsidx sg) (frag_add fr FCMdat :: frest) (sg_start sg) :: rest) (f_frag f))
              end
          end
    | TMfra _ => Ok (mkF (f_ftyp f) (f_moov f) (f_mdat f) (f_init f) (f_sidxs f) (f_tfra f) true (f_segs f) (f_children f) (f_frag f))
    | TOther => Ok f
    end;
  Ok (push_child f1 t).

(* ------------------------------------------------------------------ the moof case of the decode loops *)
(* TrafBox.ParseReadSenc(defaultIVSize, moofStartPos); sbgp/sgpd are absent in the shapes *)
Definition parse_read_senc (g : bool) (tr : trafshape) (pok : bool) : res unit :=
  do _ <- match t_saio tr with
          | None => Ok tt
          | Some SaioEmpty => if g then Err else Panic            (* t.Saio.Offset[0] *)
          | Some SaioMatch => Ok tt
          | Some SaioMismatch => Err
          end;
  if pok then Ok tt else Err.

Fixpoint moof_senc_pass (g : bool) (f : fstate) (trafs : list trafshape) : res unit :=
  match trafs with
  | [] => Ok tt
  | tr :: rest =>
      do _ <- match t_senc tr with
              | Some (SencUnparsed pok) =>
                  match f_moov f with
                  | Some _ =>
                      (* trackID := traf.Tfhd.TrackID; the shapes' tracks are clear: isEncrypted = false *)
                      if t_tfhd tr then Ok tt else if g then Err else Panic
                  | None => parse_read_senc g tr pok
                  end
              | _ => Ok tt
              end;
      moof_senc_pass g f rest
  end.

(* ------------------------------------------------------------------ findAndReadMfra *)
Fixpoint tfras_consistent (first : N * list N) (rest : list (N * list N)) : bool :=
  match rest with
  | [] => true
  | (tid, offs) :: t =>
      negb (tid =? fst first) && (length offs =? length (snd first))%nat
      && forallb (fun p => fst p =? snd p) (combine offs (snd first))
      && tfras_consistent first t
  end.

Definition find_and_read_mfra (g : bool) (boxes : list (topshape * N)) : res (option (list N)) :=
  if sumN (map snd boxes) <? 16 then Err                          (* Seek(-16, SeekEnd) fails *)
  else
    match rev boxes with
    | (TMfra tfras, _) :: _ =>
        match tfras with
        | [] => if g then Ok None else Panic                      (* mfra.Tfras[0] *)
        | first :: rest => if tfras_consistent first rest then Ok (Some (snd first)) else Err
        end
    | _ => Ok None
    end.

(* ------------------------------------------------------------------ DecodeFile / DecodeFileSR *)
Definition moov_complete (m : moovshape) : bool := match m with MoovChain d _ => (5 <=? d)%nat end.

Fixpoint decode_loop (g : bool) (o : opts) (f : fstate) (last : btype) (pos : N)
         (boxes : list (topshape * N)) : res fstate :=
  match boxes with
  | [] => Ok f
  | (t, size) :: rest =>
      do _ <-
        match t with
        | TMoov m => if g && negb (moov_complete m) then Err else Ok tt
        | TMdat p =>
            if f_frag f then (if is_moof last then Ok tt else Err)
            else match f_mdat f with
                 | Some old => if (0 <? old) && (0 <? p) then Err else Ok tt
                 | None => Ok tt
                 end
        | TMoof trafs => moof_senc_pass g f trafs
        | _ => Ok tt
        end;
      do f' <- add_child g o f t size pos;
      decode_loop g o f' (btype_of t) (addu pos size) rest
  end.

Definition assemble (g : bool) (o : opts) (boxes : list (topshape * N)) : res fstate :=
  if o_sr o then
    if o_lazy o then Err
    else decode_loop g (mkO true false false (o_start_on_moof o)) f0 BNone 0 boxes
  else
    do tf <- (if o_ism o then find_and_read_mfra g boxes else Ok None);
    do f <- decode_loop g o (mkF false None None None [] tf false [] [] false) BNone 0 boxes;
    (* f.tfra = nil *)
    Ok (mkF (f_ftyp f) (f_moov f) (f_mdat f) (f_init f) (f_sidxs f) None (f_mfra f) (f_segs f) (f_children f) (f_frag f)).

(* ------------------------------------------------------------------ Encode (both writers have the same text) *)
Definition count_truns (trafs : list trafshape) : nat := length (flat_map t_truns trafs).
Definition is_zero_trun (t : trunshape) : bool := match t with TrunZeroOffset => true | _ => false end.
Definition has_zero_trun (trafs : list trafshape) : bool := existsb is_zero_trun (flat_map t_truns trafs).

(* MoofBox.Encode on a decoded moof; offsets_set = SetTrunDataOffsets has just assigned every DataOffset *)
Definition encode_moof (g : bool) (offsets_set : bool) (trafs : list trafshape) : res unit :=
  if g then
    if negb offsets_set && has_zero_trun trafs then Err else Ok tt
  else
    match trafs with
    | [] => Panic                                                  (* m.Traf.Truns on nil *)
    | first :: rest =>
        if negb offsets_set && existsb is_zero_trun (t_truns first) then Err
        else if negb offsets_set && has_zero_trun rest then Panic  (* TrunBox.EncodeSW: panic("trun data offset not set") *)
        else Ok tt
    end.

Definition encode_top (g : bool) (t : topshape) : res unit :=
  match t with
  | TMoof trafs => encode_moof g false trafs
  | _ => Ok tt
  end.

Fixpoint encode_all {A} (enc : A -> res unit) (l : list A) : res unit :=
  match l with [] => Ok tt | x :: r => do _ <- enc x; encode_all enc r end.

(* Fragment.Encode (EncOptimize = OptimizeNone after decoding) *)
Definition encode_fragment (g : bool) (fr : fragment) : res unit :=
  match fr_moof fr with
  | None => Err
  | Some trafs =>
      if negb (fr_mdat fr) then Err
      else
        (* SetTrunDataOffsets: returns early if no write order is set and there is more than one trun *)
        let offsets_set := (count_truns trafs <=? 1)%nat in
        encode_all (fun c => match c with
                             | FCMoof tr => encode_moof g offsets_set tr
                             | _ => Ok tt end) (rev (fr_children fr))
  end.

Definition encode_segment (g : bool) (sg : segment) : res unit :=
  encode_all (encode_fragment g) (rev (sg_frags sg)).

Definition encode_init (l : list initchild) : res unit :=
  encode_all (fun c => match c with ICNilFtyp => Panic | _ => Ok tt end) l.

(* File.Encode / File.EncodeSW; boxtree = FragEncMode is EncModeBoxTree *)
Definition encode_file (g : bool) (boxtree : bool) (f : fstate) : res unit :=
  if f_frag f && negb boxtree then
    do _ <- match f_init f with Some l => encode_init l | None => Ok tt end;
    encode_all (encode_segment g) (rev (f_segs f))
  else encode_all (encode_top g) (rev (f_children f)).

(* ------------------------------------------------------------------ Info *)
Definition info_traf (g : bool) (tr : trafshape) : res unit :=
  match t_saio tr with
  | Some SaioEmpty => if g then Ok tt else Panic                   (* b.Offset[0] in SaioBox.Info *)
  | _ => Ok tt
  end.
Definition info_top (g : bool) (t : topshape) : res unit :=
  match t with
  | TMoof trafs => encode_all (info_traf g) trafs
  | _ => Ok tt
  end.
Definition info_file (g : bool) (f : fstate) : res unit := encode_all (info_top g) (rev (f_children f)).

(* ------------------------------------------------------------------ observables of an assembled file *)
Definition obs_fragment (fr : fragment) : N * N * bool * bool :=
  (fr_start fr, lenN (fr_children fr), match fr_moof fr with Some _ => true | None => false end, fr_mdat fr).
Definition obs_segment (sg : segment) : N * bool * N * list (N * N * bool * bool) :=
  (sg_start sg, sg_styp sg, sg_nsidx sg, map obs_fragment (rev (sg_frags sg))).
