(* C04XrefModel.v — the cross-box references of the second senc pass (DEFINITIONS ONLY).

   mp4/file.go DecodeFile / mp4/boxsr.go DecodeFileSR, case "moof": for every traf whose FIRST senc-like child
   (senc, or PIFF uuid of sub-type senc) is not parsed yet, the track of tfhd.track_ID is looked up in the moov
   (MoovBox.IsEncrypted / GetSinf: first trak whose tkhd has that id AND whose first sample entry is a visual or
   audio one), and TrafBox.ParseReadSenc (mp4/traf.go) runs on the LAST senc (else the last PIFF senc):
     saio.Offset[0] + moof.StartPos must equal senc.StartPos + 16,
     the per-sample IV size comes from the sgpd entry that the single sbgp entry's group_description_index
     refers to (both of grouping type seig; the index must be 65536 + 1; the entry must be a seig entry),
     else from tenc, else 0; then SencBox.ParseReadBox (C04AllocModel.senc_parse).
   C04AsmModel.trafshape carries no sbgp / sgpd / track ids (C03 imports it: unchanged); the extended traf
   below carries exactly what this text branches on or indexes.  Index expressions are the partial operation
   idxN (Panic when out of range).  group_lookup_gen is the GENERALISED text ("any fragment-local index")
   with a strict / off-by-one range check: the refuted variant of the theorem. *)
From V.lib Require Import Base.
From V.c04 Require Import C04AsmModel C04AllocModel.
Open Scope N_scope.

(* Go l[i] for an unsigned i *)
Fixpoint idxN {A} (l : list A) (i : N) : res A :=
  match l with
  | [] => Panic
  | a :: t => if i =? 0 then Ok a else idxN t (i - 1)
  end.

Definition u32sub (a b : N) : N := (a mod 4294967296 + 4294967296 - b mod 4294967296) mod 4294967296.

(* ------------------------------------------------------------------ sbgp / sgpd contents *)
(* SbgpBox: GroupingType == "seig", the two parallel slices SampleCounts / GroupDescriptionIndices *)
Record sbgpc := mkSbgp { sb_seig : bool; sb_counts : list N; sb_idx : list N }.
(* DecodeSbgpSR appends to both slices in the same iteration *)
Definition sbgp_decoded (seig : bool) (entries : list (N * N)) : sbgpc :=
  mkSbgp seig (map fst entries) (map snd entries).

Inductive sgentry := SGSeig (iv : N) | SGOther.      (* *SeigSampleGroupEntry with PerSampleIVSize / any other entry *)
Record sgpdc := mkSgpd { sg_seig : bool; sg_entries : list sgentry }.

(* the body of `if sbgp != nil && sbgp.GroupingType == "seig" && sgpd != nil && sgpd.GroupingType == "seig"` *)
Definition group_lookup (sb : sbgpc) (sg : sgpdc) : res N :=
  if negb (lenN (sb_counts sb) =? 1) then Err                       (* nrSbgpEntries != 1 *)
  else
    do nr <- idxN (sb_idx sb) 0;                                    (* sbgp.GroupDescriptionIndices[0] *)
    if negb (nr =? 65537) then Err                                  (* sgpdEntryNr != sbgpInsideOffset+1 *)
    else if lenN (sg_entries sg) =? 0 then Err
    else
      do e <- idxN (sg_entries sg) (u32sub (u32sub nr 65536) 1);    (* sgpd.SampleGroupEntries[nr-65536-1], uint32 *)
      match e with SGSeig iv => Ok iv | SGOther => Err end.

(* the generalised text: any fragment-local index; strict = true: `idx >= len` is an error,
   strict = false: `idx > len` is an error (off by one) *)
Definition group_lookup_gen (strict : bool) (sb : sbgpc) (sg : sgpdc) : res N :=
  if negb (lenN (sb_counts sb) =? 1) then Err
  else
    do nr <- idxN (sb_idx sb) 0;
    if nr <=? 65536 then Err
    else if lenN (sg_entries sg) =? 0 then Err
    else
      let i := u32sub (u32sub nr 65536) 1 in
      if (if strict then lenN (sg_entries sg) <=? i else lenN (sg_entries sg) <? i) then Err
      else
        do e <- idxN (sg_entries sg) i;
        match e with SGSeig iv => Ok iv | SGOther => Err end.

Definition per_sample_iv (default : N) (sb : option sbgpc) (sg : option sgpdc) : res N :=
  match sb, sg with
  | Some b, Some g => if sb_seig b && sg_seig g then group_lookup b g else Ok default
  | _, _ => Ok default
  end.

(* ------------------------------------------------------------------ the extended traf *)
(* a senc-like child: PIFF uuid or plain senc, start offset of the BOX in the file, and what the first
   phase kept: flags, SampleCount, rawData *)
Record sencc := mkSenc { se_piff : bool; se_off : N; se_flags : N; se_count : N; se_raw : list N }.
(* SencBox.StartPos: the uuid decoder hands b.StartPos+16 to DecodeSencSR *)
Definition se_start (s : sencc) : N := if se_piff s then addu (se_off s) 16 else se_off s.
(* readButNotParsed after the first phase *)
Definition se_unparsed (s : sencc) : bool := negb ((se_count s =? 0) || (lenN (se_raw s) =? 0)).

Record xtraf := mkXT {
  xt_tfhd : option N;                       (* Tfhd.TrackID *)
  xt_saio : option (list N);                (* Saio.Offset, int64 as two's complement *)
  xt_sbgp : option sbgpc;                   (* the LAST sbgp / sgpd child (AddChild overwrites) *)
  xt_sgpd : option sgpdc;
  xt_sencs : list sencc }.                  (* the senc-like children in order *)

Fixpoint last_senc (piff : bool) (l : list sencc) (acc : option sencc) : option sencc :=
  match l with
  | [] => acc
  | s :: t => last_senc piff t (if Bool.eqb (se_piff s) piff then Some s else acc)
  end.

(* ContainsSencBox: the first senc-like child decides *)
Definition contains_senc (tr : xtraf) : bool * bool :=
  match xt_sencs tr with
  | [] => (false, false)
  | s :: _ => (true, negb (se_unparsed s))
  end.

(* `senc = t.Senc` if there is one, else `t.UUIDSenc.Senc` *)
Definition picked_senc (tr : xtraf) : option sencc :=
  match last_senc false (xt_sencs tr) None with
  | Some s => Some s
  | None => last_senc true (xt_sencs tr) None
  end.

(* TrafBox.ParseReadSenc(defaultIVSize, moofStartPos): (len(IVs), len(SubSamples)) of the parsed senc and the
   perSampleIVSize handed to ParseReadBox *)
Definition parse_read_senc_x (tr : xtraf) (defaultIV moofStart : N) : res (N * N * N) :=
  match picked_senc tr with
  | None => Err                                                    (* no senc box or uuid senc box *)
  | Some senc =>
      do _ <- match xt_saio tr with
              | None => Ok tt
              | Some offs =>
                  if lenN offs =? 0 then Err                       (* saio box without offsets *)
                  else
                    do o <- idxN offs 0;                           (* t.Saio.Offset[0] *)
                    if addu o moofStart =? addu (se_start senc) 16 then Ok tt else Err
              end;
      do iv <- per_sample_iv defaultIV (xt_sbgp tr) (xt_sgpd tr);
      (* senc.ParseReadBox(perSampleIVSize, t.Saiz): "already parsed" is an error *)
      if negb (se_unparsed senc) then Err
      else
        match senc_parse (se_flags senc) (se_count senc) (se_raw senc) (iv mod 256) with
        | Ok (true, nivs, nsub, _, _) => Ok (nivs, nsub, iv mod 256)
        | Ok (false, _, _, _, _) => Err
        | Err => Err | Panic => Panic | OutOfFuel => OutOfFuel
        end
  end.

(* ------------------------------------------------------------------ the moov context *)
(* per trak: Tkhd.TrackID (None: no tkhd), and the first sample entry: visual / audio (is it encv / enca,
   DefaultPerSampleIVSize when sinf.schi.tenc is there) or anything else (no chain, empty stsd, other box) *)
Inductive entryk := EAV (enc : bool) (tenc : option N) | ENone.
Definition moovctx := list (option N * entryk).

(* MoovBox.IsEncrypted / GetSinf share the loop: the first trak with that id AND a visual / audio entry answers *)
Fixpoint moov_find (m : moovctx) (tid : N) : option (bool * option N) :=
  match m with
  | [] => None
  | (tk, e) :: rest =>
      match tk, e with
      | Some id, EAV enc tenc => if id =? tid then Some (enc, tenc) else moov_find rest tid
      | _, _ => moov_find rest tid
      end
  end.

(* the body of `for _, traf := range moof.Trafs`: Some = ParseReadSenc ran (and succeeded) on this traf *)
Definition traf_pass_x (moov : option moovctx) (moofStart : N) (tr : xtraf) : res (option (N * N * N)) :=
  let '(has, parsed) := contains_senc tr in
  if has && negb parsed then
    match moov with
    | Some m =>
        match xt_tfhd tr with
        | None => Err                                              (* traf box without tfhd *)
        | Some tid =>
            match moov_find m tid with
            | Some (true, tenc) =>
                do x <- parse_read_senc_x tr (match tenc with Some iv => iv | None => 0 end) moofStart;
                Ok (Some x)
            | _ => Ok None                                         (* isEncrypted = false *)
            end
        end
    | None => do x <- parse_read_senc_x tr 0 moofStart; Ok (Some x)
    end
  else Ok None.

Fixpoint moof_senc_pass_x (moov : option moovctx) (moofStart : N) (trafs : list xtraf) : res (list (option (N * N * N))) :=
  match trafs with
  | [] => Ok []
  | tr :: rest =>
      do r <- traf_pass_x moov moofStart tr;
      do r' <- moof_senc_pass_x moov moofStart rest;
      Ok (r :: r')
  end.
