(* C04XrefProofs.v — the group lookup and the second senc pass over extended trafs never index out of range. *)
From V.lib Require Import Base.
From V.c04 Require Import C04AsmModel C04AllocModel C04AllocProofs C04XrefModel.
Open Scope N_scope.

(* ------------------------------------------------------------------ idxN *)
Lemma idxN_in_range {A} (l : list A) : forall i, i < lenN l -> exists a, idxN l i = Ok a /\ In a l.
Proof.
  induction l as [|a t IH]; intros i Hi.
  - rewrite lenN_nil in Hi. lia.
  - cbn [idxN]. destruct (i =? 0) eqn:E.
    + exists a. split; [reflexivity | left; reflexivity].
    + rewrite lenN_cons in Hi. destruct (IH (i - 1)) as (x & Hx & Hin); [lia|].
      exists x. split; [exact Hx | right; exact Hin].
Qed.

Lemma idxN_out_of_range {A} (l : list A) : forall i, lenN l <= i -> idxN l i = Panic.
Proof.
  induction l as [|a t IH]; intros i Hi; cbn [idxN]; [reflexivity|].
  rewrite lenN_cons in Hi. destruct (i =? 0) eqn:E; [lia|]. apply IH. lia.
Qed.

Lemma idxN_panic_iff {A} (l : list A) i : idxN l i = Panic <-> lenN l <= i.
Proof.
  split; [|apply idxN_out_of_range].
  intros H. destruct (N.lt_ge_cases i (lenN l)) as [Hlt|Hge]; [|exact Hge].
  destruct (idxN_in_range l i Hlt) as (a & Ha & _). congruence.
Qed.

Lemma idxN_no_err {A} (l : list A) i : idxN l i <> Err /\ idxN l i <> OutOfFuel.
Proof.
  revert i. induction l as [|a t IH]; intros i; cbn [idxN]; [split; discriminate|].
  destruct (i =? 0); [split; discriminate | apply IH].
Qed.

(* ------------------------------------------------------------------ the group lookup *)
Definition returns {A} (r : res A) : Prop := (exists a, r = Ok a) \/ r = Err.

Definition sbgp_wf (sb : sbgpc) : bool := lenN (sb_counts sb) =? lenN (sb_idx sb).

Lemma sbgp_decoded_wf seig entries : sbgp_wf (sbgp_decoded seig entries) = true.
Proof. unfold sbgp_wf, sbgp_decoded, lenN. cbn [sb_counts sb_idx]. rewrite !map_length. apply N.eqb_refl. Qed.

Lemma u32sub_65537 : u32sub (u32sub 65537 65536) 1 = 0.
Proof. reflexivity. Qed.

(* the pinned text: only 65536+1 passes, then index 0 of a non-empty slice *)
Lemma group_lookup_total sb sg : sbgp_wf sb = true -> returns (group_lookup sb sg).
Proof.
  unfold sbgp_wf, group_lookup, returns. intros Hwf. apply N.eqb_eq in Hwf.
  destruct (lenN (sb_counts sb) =? 1) eqn:E1; cbn [negb]; [|right; reflexivity].
  apply N.eqb_eq in E1.
  destruct (idxN_in_range (sb_idx sb) 0) as (nr & -> & _); [lia|]. cbn [rbind].
  destruct (nr =? 65537) eqn:E2; cbn [negb]; [|right; reflexivity].
  apply N.eqb_eq in E2. subst nr. rewrite u32sub_65537.
  destruct (lenN (sg_entries sg) =? 0) eqn:E3; [right; reflexivity|].
  destruct (idxN_in_range (sg_entries sg) 0) as (e & -> & _); [lia|]. cbn [rbind].
  destruct e; [left; eexists; reflexivity | right; reflexivity].
Qed.

(* without the wf hypothesis (an API-built sbgp whose slices differ) the first index expression is partial *)
Lemma group_lookup_api_panics : group_lookup (mkSbgp true [1] []) (mkSgpd true [SGSeig 8]) = Panic.
Proof. reflexivity. Qed.

Lemma group_lookup_accepts sb sg iv : group_lookup sb sg = Ok iv ->
  lenN (sb_counts sb) = 1 /\ idxN (sb_idx sb) 0 = Ok 65537 /\ idxN (sg_entries sg) 0 = Ok (SGSeig iv).
Proof.
  unfold group_lookup.
  destruct (lenN (sb_counts sb) =? 1) eqn:E1; cbn [negb]; [|discriminate].
  destruct (idxN (sb_idx sb) 0) as [nr| | |] eqn:E0; cbn [rbind]; try discriminate.
  destruct (nr =? 65537) eqn:E2; cbn [negb]; [|discriminate].
  apply N.eqb_eq in E2. subst nr. rewrite u32sub_65537.
  destruct (lenN (sg_entries sg) =? 0); [discriminate|].
  destruct (idxN (sg_entries sg) 0) as [e| | |] eqn:E4; cbn [rbind]; try discriminate.
  destruct e; [|discriminate]. intros [= ->]. apply N.eqb_eq in E1. auto.
Qed.

(* the generalised text with the right comparison *)
Lemma group_lookup_gen_strict_total sb sg : sbgp_wf sb = true -> returns (group_lookup_gen true sb sg).
Proof.
  unfold sbgp_wf, group_lookup_gen, returns. intros Hwf. apply N.eqb_eq in Hwf.
  destruct (lenN (sb_counts sb) =? 1) eqn:E1; cbn [negb]; [|right; reflexivity].
  apply N.eqb_eq in E1.
  destruct (idxN_in_range (sb_idx sb) 0) as (nr & -> & _); [lia|]. cbn [rbind].
  destruct (nr <=? 65536); [right; reflexivity|].
  destruct (lenN (sg_entries sg) =? 0); [right; reflexivity|].
  destruct (lenN (sg_entries sg) <=? u32sub (u32sub nr 65536) 1) eqn:E3; [right; reflexivity|].
  destruct (idxN_in_range (sg_entries sg) (u32sub (u32sub nr 65536) 1)) as (e & -> & _); [lia|]. cbn [rbind].
  destruct e; [left; eexists; reflexivity | right; reflexivity].
Qed.

(* the off-by-one text panics exactly when the index is one past the last entry *)
Lemma group_lookup_gen_off_by_one_panics sb sg : sbgp_wf sb = true ->
  (group_lookup_gen false sb sg = Panic <->
   lenN (sb_counts sb) = 1 /\ lenN (sg_entries sg) <> 0 /\
   exists nr, idxN (sb_idx sb) 0 = Ok nr /\ 65536 < nr /\ u32sub (u32sub nr 65536) 1 = lenN (sg_entries sg)).
Proof.
  unfold sbgp_wf, group_lookup_gen. intros Hwf. apply N.eqb_eq in Hwf.
  destruct (lenN (sb_counts sb) =? 1) eqn:E1; cbn [negb].
  2:{ split; [discriminate|]. intros (H & _). apply N.eqb_neq in E1. contradiction. }
  apply N.eqb_eq in E1.
  destruct (idxN_in_range (sb_idx sb) 0) as (nr & Hnr & _); [lia|]. rewrite Hnr. cbn [rbind].
  destruct (nr <=? 65536) eqn:E2.
  { split; [discriminate|]. intros (_ & _ & nr' & [= <-] & Hlt & _). lia. }
  destruct (lenN (sg_entries sg) =? 0) eqn:E3.
  { split; [discriminate|]. intros (_ & Hn & _). apply N.eqb_eq in E3. contradiction. }
  set (i := u32sub (u32sub nr 65536) 1).
  destruct (lenN (sg_entries sg) <? i) eqn:E4.
  { split; [discriminate|]. intros (_ & _ & nr' & [= <-] & _ & He). fold i in He. lia. }
  destruct (N.eq_dec i (lenN (sg_entries sg))) as [Heq|Hne].
  - rewrite (idxN_out_of_range (sg_entries sg) i) by lia. cbn [rbind].
    split; [|reflexivity]. intros _. repeat split; [exact E1 | lia |].
    exists nr. repeat split; [lia | exact Heq].
  - destruct (idxN_in_range (sg_entries sg) i) as (e & -> & _); [lia|]. cbn [rbind].
    split; [destruct e; discriminate|]. intros (_ & _ & nr' & [= <-] & _ & He). fold i in He. contradiction.
Qed.

Lemma group_lookup_gen_refuted :
  exists sb sg, sbgp_wf sb = true /\ group_lookup_gen false sb sg = Panic.
Proof. exists (sbgp_decoded true [(96, 65538)]), (mkSgpd true [SGSeig 8]). split; reflexivity. Qed.

(* on everything the pinned text accepts the generalised text gives the same answer *)
Lemma group_lookup_gen_extends strict sb sg iv :
  group_lookup sb sg = Ok iv -> group_lookup_gen strict sb sg = Ok iv.
Proof.
  intros H. destruct (group_lookup_accepts sb sg iv H) as (H1 & H2 & H3).
  unfold group_lookup_gen. rewrite H1, H2. cbn [N.eqb Pos.eqb negb rbind].
  change (65537 <=? 65536) with false. cbn iota. rewrite u32sub_65537.
  assert (Hl : 0 < lenN (sg_entries sg)).
  { destruct (N.lt_ge_cases 0 (lenN (sg_entries sg))) as [?|Hge]; [assumption|].
    rewrite (idxN_out_of_range (sg_entries sg) 0) in H3 by lia. discriminate. }
  destruct (lenN (sg_entries sg) =? 0) eqn:E; [lia|].
  assert ((if strict then lenN (sg_entries sg) <=? 0 else lenN (sg_entries sg) <? 0) = false) as ->.
  { destruct strict; [apply N.leb_gt | apply N.ltb_ge]; lia. }
  rewrite H3. reflexivity.
Qed.

Lemma per_sample_iv_total d sb sg :
  (forall b, sb = Some b -> sbgp_wf b = true) -> returns (per_sample_iv d sb sg).
Proof.
  intros Hwf. unfold per_sample_iv.
  destruct sb as [b|]; [|left; eexists; reflexivity].
  destruct sg as [g|]; [|left; eexists; reflexivity].
  destruct (sb_seig b && sg_seig g); [|left; eexists; reflexivity].
  apply group_lookup_total. apply Hwf. reflexivity.
Qed.

(* ------------------------------------------------------------------ the second pass *)
(* what the decoders guarantee: parallel sbgp slices; the first senc phase accepted 2*count <= len(rawData) *)
Definition senc_wf (s : sencc) : bool := negb (has (se_flags s) 2) || (2 * se_count s <=? lenN (se_raw s)).
Definition xtraf_wf (tr : xtraf) : bool :=
  match xt_sbgp tr with Some b => sbgp_wf b | None => true end && forallb senc_wf (xt_sencs tr).

Lemma last_senc_in piff : forall l acc s, last_senc piff l acc = Some s -> In s l \/ acc = Some s.
Proof.
  induction l as [|x t IH]; intros acc s H; cbn [last_senc] in H; [right; exact H|].
  destruct (IH _ _ H) as [Hin|Hacc]; [left; right; exact Hin|].
  destruct (Bool.eqb (se_piff x) piff); [left; left; congruence | right; exact Hacc].
Qed.

Lemma parse_read_senc_x_total tr d ms : xtraf_wf tr = true -> returns (parse_read_senc_x tr d ms).
Proof.
  unfold xtraf_wf. intros Hwf. apply andb_true_iff in Hwf. destruct Hwf as (Hsb & Hse).
  unfold parse_read_senc_x.
  destruct (picked_senc tr) as [senc|] eqn:Es; [|right; reflexivity].
  unfold picked_senc in Es.
  assert (Hin : In senc (xt_sencs tr)).
  { destruct (last_senc false (xt_sencs tr) None) as [s0|] eqn:E0.
    - injection Es as <-. destruct (last_senc_in _ _ _ _ E0) as [?|?]; [assumption | discriminate].
    - destruct (last_senc_in _ _ _ _ Es) as [?|?]; [assumption | discriminate]. }
  assert (Hs : senc_wf senc = true) by (rewrite forallb_forall in Hse; apply Hse; exact Hin).
  assert (Hsaio : returns (match xt_saio tr with
              | None => Ok tt
              | Some offs => if lenN offs =? 0 then Err
                             else do o <- idxN offs 0; if addu o ms =? addu (se_start senc) 16 then Ok tt else Err end)).
  { destruct (xt_saio tr) as [offs|]; [|left; eexists; reflexivity].
    destruct (lenN offs =? 0) eqn:E; [right; reflexivity|].
    destruct (idxN_in_range offs 0) as (o & -> & _); [lia|]. cbn [rbind].
    destruct (addu o ms =? addu (se_start senc) 16); [left; eexists; reflexivity | right; reflexivity]. }
  destruct Hsaio as [(u & ->)| ->]; cbn [rbind]; [|right; reflexivity].
  destruct (per_sample_iv_total d (xt_sbgp tr) (xt_sgpd tr)) as [(iv & ->)| ->]; cbn [rbind]; [| |right; reflexivity].
  { intros b Hb. rewrite Hb in Hsb. exact Hsb. }
  destruct (se_unparsed senc); cbn [negb]; [|right; reflexivity].
  destruct (senc_parse_bounded (se_flags senc) (se_count senc) (se_raw senc) (iv mod 256))
    as (ok & a & b & al & it & -> & _ & _).
  { intros Hf. unfold senc_wf in Hs. rewrite Hf in Hs. cbn [negb orb] in Hs. lia. }
  destruct ok; [left; eexists; reflexivity | right; reflexivity].
Qed.

Lemma traf_pass_x_total moov ms tr : xtraf_wf tr = true -> returns (traf_pass_x moov ms tr).
Proof.
  intros Ht. unfold traf_pass_x. destruct (contains_senc tr) as (has, parsed).
  destruct (has && negb parsed); [|left; eexists; reflexivity].
  destruct moov as [m|].
  - destruct (xt_tfhd tr) as [tid|]; [|right; reflexivity].
    destruct (moov_find m tid) as [[[|] tenc]|]; try (left; eexists; reflexivity).
    destruct (parse_read_senc_x_total tr (match tenc with Some iv => iv | None => 0 end) ms Ht) as [(x & ->)| ->];
      cbn [rbind]; [left; eexists; reflexivity | right; reflexivity].
  - destruct (parse_read_senc_x_total tr 0 ms Ht) as [(x & ->)| ->];
      cbn [rbind]; [left; eexists; reflexivity | right; reflexivity].
Qed.

Lemma moof_senc_pass_x_total moov ms : forall trafs,
  forallb xtraf_wf trafs = true -> returns (moof_senc_pass_x moov ms trafs).
Proof.
  induction trafs as [|tr rest IH]; intros Hwf; cbn [moof_senc_pass_x]; [left; eexists; reflexivity|].
  cbn [forallb] in Hwf. apply andb_true_iff in Hwf. destruct Hwf as (Ht & Hr).
  destruct (traf_pass_x_total moov ms tr Ht) as [(r & ->)| ->]; cbn [rbind]; [|right; reflexivity].
  destruct (IH Hr) as [(r' & ->)| ->]; cbn [rbind]; [left; eexists; reflexivity | right; reflexivity].
Qed.
