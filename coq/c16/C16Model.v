(* C16Model.v — executable Gallina models of the length-field NAL-unit walkers of avc and hevc
   (avc/nalus.go, avc/avc.go, avc/annexb.go ConvertSampleToByteStream, hevc/hevc.go) as they stand
   after the `fix:` commits ed8c34e, 0a67aa6, 4050461, cceae21 in /repo (the pinned text walked with
   a uint32 position and wrapped; see known_findings/C16.json).
   Definitions only: this file must keep running when a proof breaks.

   Conventions.  A sample is a `list N` (bytes).  Go `int` positions are `Z` (64-bit int: no value
   here exceeds len + 2^32 + 4, so no wrap is possible and none is modelled); the 32-bit length
   field is a `Z` in [0, 2^32).  Indexing and slicing are PARTIAL: out of range gives `Panic`.
   Every loop carries fuel (`OutOfFuel` = would not terminate within the bound) and counts its
   iterations (`ticks`).  Appends are counted by the length of the produced list. *)
From V.lib Require Import Base.

Definition lenZ (bs : list N) : Z := Z.of_nat (length bs).

(* sample[i] *)
Definition idx (bs : list N) (i : Z) : res N :=
  if ((0 <=? i) && (i <? lenZ bs))%Z then
    match nth_error bs (Z.to_nat i) with Some b => Ok b | None => Panic end
  else Panic.

(* sample[lo:hi]  (cap = len in the harness: inputs are exact-capacity copies) *)
Definition slice (bs : list N) (lo hi : Z) : res (list N) :=
  if ((0 <=? lo) && (lo <=? hi) && (hi <=? lenZ bs))%Z
  then Ok (firstn (Z.to_nat (hi - lo)) (skipn (Z.to_nat lo) bs))
  else Panic.

(* binary.BigEndian.Uint32(b): `_ = b[3]` panics on fewer than 4 bytes *)
Definition be32 (b : list N) : res Z :=
  match b with
  | a :: b :: c :: d :: _ => Ok (Z.of_N (((a * 256 + b) * 256 + c) * 256 + d))
  | _ => Panic
  end.

(* ------------------------------------------------------------------ the common loop shape
     pos := 0
     for pos < length-4 {
         naluLength := binary.BigEndian.Uint32(sample[pos : pos+4])
         pos += 4
         BODY            // continues with a new pos, or break / return
     }
   `body pos nl st` is the loop body after `pos += 4`. *)
Inductive ctl (St : Type) : Type :=
| Cont (pos : Z) (s : St)     (* next iteration *)
| Stop (s : St).              (* break / return *)
Arguments Cont {St} pos s.
Arguments Stop {St} s.

Fixpoint walk {St : Type} (body : Z -> Z -> St -> res (ctl St)) (fuel : nat) (bs : list N)
         (pos : Z) (st : St) (ticks : N) : res (St * N) :=
  match fuel with
  | O => OutOfFuel
  | S f =>
      if (pos <? lenZ bs - 4)%Z then
        do hdr <- slice bs pos (pos + 4);
        do nl <- be32 hdr;
        do c <- body (pos + 4)%Z nl st;
        match c with
        | Cont pos' st' => walk body f bs pos' st' (ticks + 1)
        | Stop st' => Ok (st', ticks + 1)
        end
      else Ok (st, ticks)
  end.

Definition walk_fuel (bs : list N) : nat := S (length bs).

(* `int64(naluLength) > int64(length-pos)` *)
Definition past_end (bs : list N) (pos nl : Z) : bool := (nl >? lenZ bs - pos)%Z.

(* ------------------------------------------------------------------ avc *)
Definition avc_nalu_type (b : N) : N := N.land b 31.          (* naluHeader & 0x1f *)
Definition avc_is_video (t : N) : bool := t <=? 5.

(* avc.GetNalusFromSample; the list is accumulated in reverse *)
Definition avc_nalus_body (bs : list N) (pos nl : Z) (acc : list (list N)) : res (ctl (list (list N))) :=
  if past_end bs pos nl then Err
  else do nalu <- slice bs pos (pos + nl); Ok (Cont (pos + nl)%Z (nalu :: acc)).

Definition avc_get_nalus_from_sample (bs : list N) : res (list (list N) * N) :=
  if (lenZ bs <? 4)%Z then Err
  else do r <- walk (avc_nalus_body bs) (walk_fuel bs) bs 0 [] 0; Ok (rev (fst r), snd r).

(* avc.FindNaluTypes / hevc.FindNaluTypes (type extraction is the parameter) *)
Definition types_body (ty : N -> N) (bs : list N) (pos nl : Z) (acc : list N) : res (ctl (list N)) :=
  do b <- idx bs pos;
  let acc' := ty b :: acc in
  if past_end bs pos nl then Ok (Stop acc') else Ok (Cont (pos + nl)%Z acc').

Definition find_nalu_types (ty : N -> N) (bs : list N) : res (list N * N) :=
  if (lenZ bs <? 4)%Z then Ok ([], 0)
  else do r <- walk (types_body ty bs) (walk_fuel bs) bs 0 [] 0; Ok (rev (fst r), snd r).

Definition avc_find_nalu_types := find_nalu_types avc_nalu_type.

(* FindNaluTypesUpToFirstVideoNALU *)
Definition types_upto_body (ty : N -> N) (isvid : N -> bool) (bs : list N) (pos nl : Z) (acc : list N)
  : res (ctl (list N)) :=
  do b <- idx bs pos;
  let t := ty b in
  let acc' := t :: acc in
  if past_end bs pos nl then Ok (Stop acc')
  else if isvid t then Ok (Stop acc') else Ok (Cont (pos + nl)%Z acc').

Definition find_nalu_types_upto (ty : N -> N) (isvid : N -> bool) (bs : list N) : res (list N * N) :=
  if (lenZ bs <? 4)%Z then Ok ([], 0)
  else do r <- walk (types_upto_body ty isvid bs) (walk_fuel bs) bs 0 [] 0; Ok (rev (fst r), snd r).

Definition avc_find_nalu_types_upto := find_nalu_types_upto avc_nalu_type avc_is_video.

(* ContainsNaluType (the avc text has no `length < 4` return: with int positions the loop
   condition 0 < length-4 is false for short samples; hevc returns false first: same value) *)
Definition contains_body (ty : N -> N) (want : N) (bs : list N) (pos nl : Z) (found : bool) : res (ctl bool) :=
  do b <- idx bs pos;
  if ty b =? want then Ok (Stop true)
  else if past_end bs pos nl then Ok (Stop false) else Ok (Cont (pos + nl)%Z false).

Definition avc_contains_nalu_type (bs : list N) (want : N) : res (bool * N) :=
  walk (contains_body avc_nalu_type want bs) (walk_fuel bs) bs 0 false 0.

Definition avc_is_idr_sample (bs : list N) : res (bool * N) := avc_contains_nalu_type bs 5.

(* HasParameterSets: a second loop over the type list (bounded by the list: structural) *)
Fixpoint avc_has_ps_scan (l : list N) (hasSPS hasPPS : bool) : bool :=
  match l with
  | [] => false
  | t :: r =>
      let hasSPS := hasSPS || (t =? 7) in
      let hasPPS := hasPPS || (t =? 8) in
      if hasSPS && hasPPS then true else avc_has_ps_scan r hasSPS hasPPS
  end.

Definition avc_has_parameter_sets (bs : list N) : res (bool * N) :=
  do r <- avc_find_nalu_types_upto bs;
  Ok (avc_has_ps_scan (fst r) false false, snd r + lenN (fst r)).

(* avc.GetParameterSets: state = (sps, pps) reversed *)
Definition avc_ps_body (bs : list N) (pos nl : Z) (st : list (list N) * list (list N))
  : res (ctl (list (list N) * list (list N))) :=
  if past_end bs pos nl then Ok (Stop st)
  else
    let e := (pos + nl)%Z in
    do hdr <- idx bs pos;
    let t := avc_nalu_type hdr in
    if t =? 7 then do s <- slice bs pos e; Ok (Cont e (s :: fst st, snd st))
    else if t =? 8 then do s <- slice bs pos e; Ok (Cont e (fst st, s :: snd st))
    else if avc_is_video t then Ok (Stop st)
    else Ok (Cont e st).

Definition avc_get_parameter_sets (bs : list N) : res ((list (list N) * list (list N)) * N) :=
  do r <- walk (avc_ps_body bs) (walk_fuel bs) bs 0 ([], []) 0;
  Ok ((rev (fst (fst r)), rev (snd (fst r))), snd r).

(* ------------------------------------------------------------------ hevc *)
Definition hevc_nalu_type (b : N) : N := N.land (N.shiftr b 1) 63.   (* (b >> 1) & 0x3f *)
Definition hevc_is_video (t : N) : bool := t <=? 31.

Definition hevc_find_nalu_types := find_nalu_types hevc_nalu_type.
Definition hevc_find_nalu_types_upto := find_nalu_types_upto hevc_nalu_type hevc_is_video.

Definition hevc_contains_nalu_type (bs : list N) (want : N) : res (bool * N) :=
  if (lenZ bs <? 4)%Z then Ok (false, 0)
  else walk (contains_body hevc_nalu_type want bs) (walk_fuel bs) bs 0 false 0.

(* IsRAPSample / IsIDRSample: range over FindNaluTypes *)
Definition in_range (lo hi : N) (t : N) : bool := (lo <=? t) && (t <=? hi).

Definition hevc_is_rap_sample (bs : list N) : res (bool * N) :=
  do r <- hevc_find_nalu_types bs; Ok (existsb (in_range 16 23) (fst r), snd r + lenN (fst r)).

Definition hevc_is_idr_sample (bs : list N) : res (bool * N) :=
  do r <- hevc_find_nalu_types bs; Ok (existsb (in_range 19 20) (fst r), snd r + lenN (fst r)).

Fixpoint hevc_has_ps_scan (l : list N) (v s p : bool) : bool :=
  match l with
  | [] => false
  | t :: r =>
      let v := v || (t =? 32) in
      let s := s || (t =? 33) in
      let p := p || (t =? 34) in
      if v && s && p then true else hevc_has_ps_scan r v s p
  end.

Definition hevc_has_parameter_sets (bs : list N) : res (bool * N) :=
  do r <- hevc_find_nalu_types_upto bs;
  Ok (hevc_has_ps_scan (fst r) false false false, snd r + lenN (fst r)).

Definition ps3 : Type := (list (list N) * list (list N) * list (list N))%type.

Definition hevc_ps_body (bs : list N) (pos nl : Z) (st : ps3) : res (ctl ps3) :=
  if past_end bs pos nl then Ok (Stop st)
  else
    let e := (pos + nl)%Z in
    do hdr <- idx bs pos;
    let t := hevc_nalu_type hdr in
    let '(v, s, p) := st in
    if t =? 32 then do x <- slice bs pos e; Ok (Cont e (x :: v, s, p))
    else if t =? 33 then do x <- slice bs pos e; Ok (Cont e (v, x :: s, p))
    else if t =? 34 then do x <- slice bs pos e; Ok (Cont e (v, s, x :: p))
    else if hevc_is_video t then Ok (Stop st)
    else Ok (Cont e st).

Definition hevc_get_parameter_sets (bs : list N) : res (ps3 * N) :=
  do r <- walk (hevc_ps_body bs) (walk_fuel bs) bs 0 ([], [], []) 0;
  let '(v, s, p) := fst r in
  Ok ((rev v, rev s, rev p), snd r).

(* ------------------------------------------------------------------ avc.ConvertSampleToByteStream
     pos := 0
     for pos <= length-4 {
         naluLength := Uint32(sample[pos:pos+4]); copy(sample[pos:pos+4], {0,0,0,1}); pos += 4
         if int64(naluLength) > int64(length-pos) { break }
         pos += int(naluLength)
     }
   The buffer is rewritten in place and later reads see the rewritten bytes. *)
Definition put4 (buf : list N) (pos : Z) (v : list N) : res (list N) :=
  if ((0 <=? pos) && (pos + 4 <=? lenZ buf))%Z
  then Ok (firstn (Z.to_nat pos) buf ++ v ++ skipn (Z.to_nat (pos + 4)) buf)
  else Panic.

Fixpoint convert_loop (fuel : nat) (buf : list N) (pos : Z) (ticks : N) : res (list N * N) :=
  match fuel with
  | O => OutOfFuel
  | S f =>
      if (pos <=? lenZ buf - 4)%Z then
        do hdr <- slice buf pos (pos + 4);
        do nl <- be32 hdr;
        do buf' <- put4 buf pos [0; 0; 0; 1];
        let pos := (pos + 4)%Z in
        if past_end buf' pos nl then Ok (buf', ticks + 1)
        else convert_loop f buf' (pos + nl)%Z (ticks + 1)
      else Ok (buf, ticks)
  end.

Definition convert_sample_to_byte_stream (bs : list N) : res (list N * N) :=
  convert_loop (walk_fuel bs) bs 0 0.

(* ================================================================== stage 2 *)
(* sei.DecodePicTimingHevcSEI (sei/sei1_hevc.go after fix 2b4b54d) over the EBSP reader model of
   C13 (imported read-only): fixed-width reads whose widths come from the caller, then a loop driven
   by an UNTRUSTED ue(v) count that appends per iteration and breaks at the first read error.
   `du_loop` is the shape of every count-driven loop repaired by the C16 fix: commits. *)
From V.c13 Require Import C13Model.

Record hpt_params := mkHP {
  hp_ffi : bool; hp_cpb : bool; hp_subpic : bool; hp_subpic_in_pt : bool;
  hp_la : N; hp_lb : N; hp_lc : N; hp_ld : N }.   (* the four *_length_minus1 values *)

(*  for i := uint64(0); i <= uint64(N); i++ {
        nal = append(nal, uint32(ue)); if !common && i < N { inc = append(inc, uint32(Read(w))) }
        if br.AccError() != nil { break } }                                     *)
Fixpoint du_loop (fuel : nat) (count i : N) (common : bool) (w : N) (s : rstate)
         (nal inc : list N) (ticks : N) : res (list N * list N * rstate * N) :=
  match fuel with
  | O => OutOfFuel
  | S f =>
      if i <=? count then
        let '(v, s1) := read_ue s in
        let nal' := u32 v :: nal in
        let '(inc', s2) :=
          if negb common && (i <? count) then let '(x, s2) := read s1 w in (u32 x :: inc, s2)
          else (inc, s1) in
        if rerr s2 then Ok (nal', inc', s2, ticks + 1)
        else du_loop f count (i + 1) common w s2 nal' inc' (ticks + 1)
      else Ok (nal, inc, s, ticks)
  end.

Definition du_fuel (data : list N) : nat := S (S (8 * length data + 8)).

(* result: the nine scalar fields, NumNalusInDuMinus1, DuCpbRemovalDelayIncrementMinus1, error flag, ticks *)
Definition decode_pic_timing_hevc (p : hpt_params) (payload : list N)
  : res (list N * list N * list N * bool * N) :=
  let s := rinit payload in
  let '(ps, sst, dup, s) :=
    if hp_ffi p then
      let '(a, s) := read s 4 in let '(b, s) := read s 2 in let '(c, s) := read_flag s in
      (u8 a, u8 b, c, s)
    else (0, 0, false, s) in
  if hp_cpb p then
    let '(au, s) := read s (hp_la p + 1) in
    let '(dpb, s) := read s (hp_lb p + 1) in
    if hp_subpic p then
      let '(dud, s) := read s (hp_lc p + 1) in
      if hp_subpic_in_pt p then
        let '(ndu, s) := read_ue s in
        let ndu := u32 ndu in
        let '(common, s) := read_flag s in
        let '(cinc, s) := if common then read s (hp_ld p + 1) else (0, s) in
        do r <- du_loop (du_fuel payload) ndu 0 common (hp_ld p + 1) s [] [] 0;
        let '(nal, inc, s, t) := r in
        Ok ([ps; sst; if dup then 1 else 0; u32 au; u32 dpb; u32 dud; ndu; if common then 1 else 0; u32 cinc],
            rev nal, rev inc, rerr s, t)
      else Ok ([ps; sst; if dup then 1 else 0; u32 au; u32 dpb; u32 dud; 0; 0; 0], [], [], rerr s, 0)
    else Ok ([ps; sst; if dup then 1 else 0; u32 au; u32 dpb; 0; 0; 0; 0], [], [], rerr s, 0)
  else Ok ([ps; sst; if dup then 1 else 0; 0; 0; 0; 0; 0; 0], [], [], rerr s, 0).
