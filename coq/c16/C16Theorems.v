(* C16Theorems.v — the property theorems of C16 and nothing else.  Each is closed by
   `exact <lemma>` and followed by Print Assumptions (audited by ./check on every run).

   Shape: for EVERY byte list `bs` (no bound on its length, no well-formedness hypothesis, elements
   need not even be < 256) the modelled function returns a value (or, where Go returns an error,
   `Err`): never `Panic`, never `OutOfFuel`; the number of loop iterations `t` is linear in
   |bs| and the number of appended elements is at most `t`. *)
From V.lib Require Import Base.
From V.c13 Require Import C13Model.
From V.c16 Require Import C16Model C16WalkProofs C16ReaderProofs C16SeiProofs.

(* ------------------------------------------------------------------ avc *)
Theorem C16_avc_GetNalusFromSample_total : forall bs : list N,
  avc_get_nalus_from_sample bs = Err \/
  exists nalus t, avc_get_nalus_from_sample bs = Ok (nalus, t) /\ 4 * t <= lenN bs /\ lenN nalus <= t.
Proof. exact avc_get_nalus_total. Qed.
Print Assumptions C16_avc_GetNalusFromSample_total.

Theorem C16_avc_FindNaluTypes_total : forall bs : list N,
  exists types t, avc_find_nalu_types bs = Ok (types, t) /\ 4 * t <= 1 * lenN bs /\ lenN types <= t.
Proof. exact (find_nalu_types_total avc_nalu_type). Qed.
Print Assumptions C16_avc_FindNaluTypes_total.

Theorem C16_avc_FindNaluTypesUpToFirstVideoNALU_total : forall bs : list N,
  exists types t, avc_find_nalu_types_upto bs = Ok (types, t) /\ 4 * t <= 1 * lenN bs /\ lenN types <= t.
Proof. exact (find_nalu_types_upto_total avc_nalu_type avc_is_video). Qed.
Print Assumptions C16_avc_FindNaluTypesUpToFirstVideoNALU_total.

Theorem C16_avc_ContainsNaluType_total : forall (bs : list N) (want : N),
  exists b t, avc_contains_nalu_type bs want = Ok (b, t) /\ 4 * t <= 1 * lenN bs /\ 0 <= t.
Proof. exact avc_contains_total. Qed.
Print Assumptions C16_avc_ContainsNaluType_total.

Theorem C16_avc_IsIDRSample_total : forall bs : list N,
  exists b t, avc_is_idr_sample bs = Ok (b, t) /\ 4 * t <= 1 * lenN bs /\ 0 <= t.
Proof. exact (fun bs => avc_contains_total bs 5). Qed.
Print Assumptions C16_avc_IsIDRSample_total.

Theorem C16_avc_HasParameterSets_total : forall bs : list N,
  exists b t, avc_has_parameter_sets bs = Ok (b, t) /\ 4 * t <= 2 * lenN bs /\ 0 <= t.
Proof. exact avc_has_ps_total. Qed.
Print Assumptions C16_avc_HasParameterSets_total.

Theorem C16_avc_GetParameterSets_total : forall bs : list N,
  exists ps t, avc_get_parameter_sets bs = Ok (ps, t) /\ 4 * t <= 1 * lenN bs /\
               lenN (fst ps) + lenN (snd ps) <= t.
Proof. exact avc_get_ps_total. Qed.
Print Assumptions C16_avc_GetParameterSets_total.

Theorem C16_avc_ConvertSampleToByteStream_total : forall bs : list N,
  exists out t, convert_sample_to_byte_stream bs = Ok (out, t) /\ 4 * t <= lenN bs /\ lenN out = lenN bs.
Proof. exact convert_total. Qed.
Print Assumptions C16_avc_ConvertSampleToByteStream_total.

(* ------------------------------------------------------------------ hevc *)
Theorem C16_hevc_FindNaluTypes_total : forall bs : list N,
  exists types t, hevc_find_nalu_types bs = Ok (types, t) /\ 4 * t <= 1 * lenN bs /\ lenN types <= t.
Proof. exact (find_nalu_types_total hevc_nalu_type). Qed.
Print Assumptions C16_hevc_FindNaluTypes_total.

Theorem C16_hevc_FindNaluTypesUpToFirstVideoNalu_total : forall bs : list N,
  exists types t, hevc_find_nalu_types_upto bs = Ok (types, t) /\ 4 * t <= 1 * lenN bs /\ lenN types <= t.
Proof. exact (find_nalu_types_upto_total hevc_nalu_type hevc_is_video). Qed.
Print Assumptions C16_hevc_FindNaluTypesUpToFirstVideoNalu_total.

Theorem C16_hevc_ContainsNaluType_total : forall (bs : list N) (want : N),
  exists b t, hevc_contains_nalu_type bs want = Ok (b, t) /\ 4 * t <= 1 * lenN bs /\ 0 <= t.
Proof. exact hevc_contains_total. Qed.
Print Assumptions C16_hevc_ContainsNaluType_total.

Theorem C16_hevc_IsRAPSample_total : forall bs : list N,
  exists b t, hevc_is_rap_sample bs = Ok (b, t) /\ 4 * t <= 2 * lenN bs /\ 0 <= t.
Proof. exact hevc_is_rap_total. Qed.
Print Assumptions C16_hevc_IsRAPSample_total.

Theorem C16_hevc_IsIDRSample_total : forall bs : list N,
  exists b t, hevc_is_idr_sample bs = Ok (b, t) /\ 4 * t <= 2 * lenN bs /\ 0 <= t.
Proof. exact hevc_is_idr_total. Qed.
Print Assumptions C16_hevc_IsIDRSample_total.

Theorem C16_hevc_HasParameterSets_total : forall bs : list N,
  exists b t, hevc_has_parameter_sets bs = Ok (b, t) /\ 4 * t <= 2 * lenN bs /\ 0 <= t.
Proof. exact hevc_has_ps_total. Qed.
Print Assumptions C16_hevc_HasParameterSets_total.

Theorem C16_hevc_GetParameterSets_total : forall bs : list N,
  exists ps t, hevc_get_parameter_sets bs = Ok (ps, t) /\ 4 * t <= 1 * lenN bs /\ ps3_size ps <= t.
Proof. exact hevc_get_ps_total. Qed.
Print Assumptions C16_hevc_GetParameterSets_total.

(* ------------------------------------------------------------------ the EBSP bit reader (model of C13)
   rwf s: position inside the data and fewer than 8 pending bits (true initially, preserved by reads) *)
(* Read(n) on any well-formed, error-free state: the byte-fill loop never runs out of fuel; the result
   is the sticky error or a well-formed state with at least n fewer unread bits *)
Theorem C16_reader_Read_total : forall (esc : bool) (s : rstate) (n : N),
  rwf s -> rerr s = false ->
  let '(v, s1) := read_gen esc s n in
  rdata s1 = rdata s /\
  (rerr s1 = true \/ (rerr s1 = false /\ rwf s1 /\ bits_left s1 + n <= bits_left s)).
Proof. exact read_gen_inv. Qed.
Print Assumptions C16_reader_Read_total.

(* ReadExpGolomb: the leading-zero loop ends before its fuel (lz_loop <> None) after at most
   bits_left iterations, for every input; the state ends in error or with strictly fewer bits *)
Theorem C16_reader_ReadExpGolomb_total : forall s : rstate,
  rwf s -> rerr s = false ->
  exists lz s1, lz_loop (S (8 * length (rdata s) + 8)) s 0 = Some (lz, s1) /\ lz <= bits_left s /\
  let '(v, s2) := read_ue s in
  rdata s2 = rdata s /\ (rerr s2 = true \/ (rerr s2 = false /\ rwf s2 /\ bits_left s2 < bits_left s)).
Proof. exact read_ue_total. Qed.
Print Assumptions C16_reader_ReadExpGolomb_total.

(* after the first error every read returns 0 in O(1) and leaves the state alone *)
Theorem C16_reader_sticky_error : forall (esc : bool) (s : rstate) (n : N),
  rerr s = true -> read_gen esc s n = (0, s) /\ read_ue s = (0, s).
Proof. exact (fun esc s n H => conj (read_gen_after_error esc s n H) (read_ue_after_error s H)). Qed.
Print Assumptions C16_reader_sticky_error.

(* ------------------------------------------------------------------ count-driven loops
   the repaired shape `for i <= count { read...; append; if AccError != nil { break } }` is total for
   EVERY count: iterations and appends are bounded by the unread bits, not by the count *)
Theorem C16_guarded_count_loop_total : forall fuel count i common w s nal inc t,
  rok s -> (rerr s = false -> bits_left s + 1 < N.of_nat fuel) -> (0 < fuel)%nat ->
  exists nal' inc' s' t',
    du_loop fuel count i common w s nal inc t = Ok (nal', inc', s', t') /\
    rdata s' = rdata s /\ t <= t' /\
    (rerr s = false -> t' - t <= bits_left s + 1) /\ (rerr s = true -> t' - t <= 1) /\
    lenN nal' <= lenN nal + (t' - t) /\ lenN inc' <= lenN inc + (t' - t).
Proof. exact du_loop_total. Qed.
Print Assumptions C16_guarded_count_loop_total.

(* the pinned shape (no break) is refuted: empty payload, count 2^20, fuel 100x linear *)
Theorem C16_unguarded_count_loop_refuted :
  exists payload count, du_loop_unguarded (du_fuel payload * 100) count 0 (rinit payload) [] = OutOfFuel.
Proof. exact du_loop_unguarded_refuted. Qed.
Print Assumptions C16_unguarded_count_loop_refuted.

(* sei.DecodePicTimingHevcSEI: every payload, every external parameter set *)
Theorem C16_sei_DecodePicTimingHevcSEI_total : forall (p : hpt_params) (payload : list N),
  exists fields nal inc e t,
    decode_pic_timing_hevc p payload = Ok (fields, nal, inc, e, t) /\
    t <= 8 * lenN payload + 8 /\ lenN nal <= t /\ lenN inc <= t.
Proof. exact decode_pic_timing_hevc_total. Qed.
Print Assumptions C16_sei_DecodePicTimingHevcSEI_total.

(* ------------------------------------------------------------------ the statements are not vacuous:
   the model computes on the hostile witnesses of DESIGN Appendix A and on a well-formed sample *)
Example ex_wrap_witness_is_error :
  avc_get_nalus_from_sample [255; 255; 255; 252; 0; 0; 0; 0; 0] = Err.
Proof. vm_compute. reflexivity. Qed.

Example ex_wrap_witness_types_stop :
  avc_find_nalu_types [255; 255; 255; 252; 0; 0; 0; 0; 0] = Ok ([0], 1).
Proof. vm_compute. reflexivity. Qed.

Example ex_short_samples :
  avc_contains_nalu_type [] 5 = Ok (false, 0) /\
  avc_get_parameter_sets [0; 0; 1] = Ok (([], []), 0) /\
  convert_sample_to_byte_stream [0; 0; 1] = Ok ([0; 0; 1], 0).
Proof. vm_compute. repeat split. Qed.

(* SPS(2 bytes) PPS(1 byte) IDR(3 bytes) *)
Example ex_well_formed :
  let s := [0;0;0;2; 103;66;  0;0;0;1; 104;  0;0;0;3; 101;136;128] in
  avc_get_nalus_from_sample s = Ok ([[103;66]; [104]; [101;136;128]], 3) /\
  avc_find_nalu_types s = Ok ([7; 8; 5], 3) /\
  avc_has_parameter_sets s = Ok (true, 6) /\
  avc_get_parameter_sets s = Ok (([[103;66]], [[104]]), 3) /\
  avc_is_idr_sample s = Ok (true, 3) /\
  convert_sample_to_byte_stream s = Ok ([0;0;0;1; 103;66;  0;0;0;1; 104;  0;0;0;1; 101;136;128], 3).
Proof. vm_compute. repeat split. Qed.

(* a hostile count of 2^31-1 in a 9-byte payload: one iteration, then the read error ends the loop *)
Example ex_pic_timing_hostile_count :
  decode_pic_timing_hevc (mkHP false true true true 0 0 0 0) [0; 0; 0; 0; 32; 0; 0; 0; 0] =
  Ok ([0; 0; 0; 0; 0; 0; 2147483647; 0; 0], [0], [0], true, 1).
Proof. vm_compute. reflexivity. Qed.

Example ex_rwf_initial : rwf (rinit [1; 2; 3]) /\ rerr (rinit [1; 2; 3]) = false.
Proof. split; [apply rwf_init|reflexivity]. Qed.
