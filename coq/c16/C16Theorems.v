(* C16Theorems.v — the property theorems of C16 and nothing else.  Each is closed by
   `exact <lemma>` and followed by Print Assumptions (audited by ./check on every run).

   Shape: for EVERY byte list `bs` (no bound on its length, no well-formedness hypothesis, elements
   need not even be < 256) the modelled function returns a value (or, where Go returns an error,
   `Err`): never `Panic`, never `OutOfFuel`; the number of loop iterations `t` is linear in
   |bs| and the number of appended elements is at most `t`. *)
From V.lib Require Import Base.
From V.c16 Require Import C16Model C16WalkProofs.

(* ------------------------------------------------------------------ avc *)
Theorem C16_avc_GetNalusFromSample_total : forall bs : list N,
  avc_get_nalus_from_sample bs = Err \/
  exists nalus t, avc_get_nalus_from_sample bs = Ok (nalus, t) /\ 4 * t <= lenN bs /\ lenN nalus <= t.
Proof. exact avc_get_nalus_total. Qed.
Print Assumptions C16_avc_GetNalusFromSample_total.

Theorem C16_avc_FindNaluTypes_total : forall bs : list N,
  exists types t, avc_find_nalu_types bs = Ok (types, t) /\ 4 * t <= 1 * lenN bs /\ lenN types <= t.
Proof. exact (find_nalu_types_total avc_nalu_type). Qed.
Print Assumptions C16_avc_FindNaluTypes_total.

Theorem C16_avc_FindNaluTypesUpToFirstVideoNALU_total : forall bs : list N,
  exists types t, avc_find_nalu_types_upto bs = Ok (types, t) /\ 4 * t <= 1 * lenN bs /\ lenN types <= t.
Proof. exact (find_nalu_types_upto_total avc_nalu_type avc_is_video). Qed.
Print Assumptions C16_avc_FindNaluTypesUpToFirstVideoNALU_total.

Theorem C16_avc_ContainsNaluType_total : forall (bs : list N) (want : N),
  exists b t, avc_contains_nalu_type bs want = Ok (b, t) /\ 4 * t <= 1 * lenN bs /\ 0 <= t.
Proof. exact avc_contains_total. Qed.
Print Assumptions C16_avc_ContainsNaluType_total.

Theorem C16_avc_IsIDRSample_total : forall bs : list N,
  exists b t, avc_is_idr_sample bs = Ok (b, t) /\ 4 * t <= 1 * lenN bs /\ 0 <= t.
Proof. exact (fun bs => avc_contains_total bs 5). Qed.
Print Assumptions C16_avc_IsIDRSample_total.

Theorem C16_avc_HasParameterSets_total : forall bs : list N,
  exists b t, avc_has_parameter_sets bs = Ok (b, t) /\ 4 * t <= 2 * lenN bs /\ 0 <= t.
Proof. exact avc_has_ps_total. Qed.
Print Assumptions C16_avc_HasParameterSets_total.

Theorem C16_avc_GetParameterSets_total : forall bs : list N,
  exists ps t, avc_get_parameter_sets bs = Ok (ps, t) /\ 4 * t <= 1 * lenN bs /\
               lenN (fst ps) + lenN (snd ps) <= t.
Proof. exact avc_get_ps_total. Qed.
Print Assumptions C16_avc_GetParameterSets_total.

Theorem C16_avc_ConvertSampleToByteStream_total : forall bs : list N,
  exists out t, convert_sample_to_byte_stream bs = Ok (out, t) /\ 4 * t <= lenN bs /\ lenN out = lenN bs.
Proof. exact convert_total. Qed.
Print Assumptions C16_avc_ConvertSampleToByteStream_total.

(* ------------------------------------------------------------------ hevc *)
Theorem C16_hevc_FindNaluTypes_total : forall bs : list N,
  exists types t, hevc_find_nalu_types bs = Ok (types, t) /\ 4 * t <= 1 * lenN bs /\ lenN types <= t.
Proof. exact (find_nalu_types_total hevc_nalu_type). Qed.
Print Assumptions C16_hevc_FindNaluTypes_total.

Theorem C16_hevc_FindNaluTypesUpToFirstVideoNalu_total : forall bs : list N,
  exists types t, hevc_find_nalu_types_upto bs = Ok (types, t) /\ 4 * t <= 1 * lenN bs /\ lenN types <= t.
Proof. exact (find_nalu_types_upto_total hevc_nalu_type hevc_is_video). Qed.
Print Assumptions C16_hevc_FindNaluTypesUpToFirstVideoNalu_total.

Theorem C16_hevc_ContainsNaluType_total : forall (bs : list N) (want : N),
  exists b t, hevc_contains_nalu_type bs want = Ok (b, t) /\ 4 * t <= 1 * lenN bs /\ 0 <= t.
Proof. exact hevc_contains_total. Qed.
Print Assumptions C16_hevc_ContainsNaluType_total.

Theorem C16_hevc_IsRAPSample_total : forall bs : list N,
  exists b t, hevc_is_rap_sample bs = Ok (b, t) /\ 4 * t <= 2 * lenN bs /\ 0 <= t.
Proof. exact hevc_is_rap_total. Qed.
Print Assumptions C16_hevc_IsRAPSample_total.

Theorem C16_hevc_IsIDRSample_total : forall bs : list N,
  exists b t, hevc_is_idr_sample bs = Ok (b, t) /\ 4 * t <= 2 * lenN bs /\ 0 <= t.
Proof. exact hevc_is_idr_total. Qed.
Print Assumptions C16_hevc_IsIDRSample_total.

Theorem C16_hevc_HasParameterSets_total : forall bs : list N,
  exists b t, hevc_has_parameter_sets bs = Ok (b, t) /\ 4 * t <= 2 * lenN bs /\ 0 <= t.
Proof. exact hevc_has_ps_total. Qed.
Print Assumptions C16_hevc_HasParameterSets_total.

Theorem C16_hevc_GetParameterSets_total : forall bs : list N,
  exists ps t, hevc_get_parameter_sets bs = Ok (ps, t) /\ 4 * t <= 1 * lenN bs /\ ps3_size ps <= t.
Proof. exact hevc_get_ps_total. Qed.
Print Assumptions C16_hevc_GetParameterSets_total.

(* ------------------------------------------------------------------ the statements are not vacuous:
   the model computes on the hostile witnesses of DESIGN Appendix A and on a well-formed sample *)
Example ex_wrap_witness_is_error :
  avc_get_nalus_from_sample [255; 255; 255; 252; 0; 0; 0; 0; 0] = Err.
Proof. vm_compute. reflexivity. Qed.

Example ex_wrap_witness_types_stop :
  avc_find_nalu_types [255; 255; 255; 252; 0; 0; 0; 0; 0] = Ok ([0], 1).
Proof. vm_compute. reflexivity. Qed.

Example ex_short_samples :
  avc_contains_nalu_type [] 5 = Ok (false, 0) /\
  avc_get_parameter_sets [0; 0; 1] = Ok (([], []), 0) /\
  convert_sample_to_byte_stream [0; 0; 1] = Ok ([0; 0; 1], 0).
Proof. vm_compute. repeat split. Qed.

(* SPS(2 bytes) PPS(1 byte) IDR(3 bytes) *)
Example ex_well_formed :
  let s := [0;0;0;2; 103;66;  0;0;0;1; 104;  0;0;0;3; 101;136;128] in
  avc_get_nalus_from_sample s = Ok ([[103;66]; [104]; [101;136;128]], 3) /\
  avc_find_nalu_types s = Ok ([7; 8; 5], 3) /\
  avc_has_parameter_sets s = Ok (true, 6) /\
  avc_get_parameter_sets s = Ok (([[103;66]], [[104]]), 3) /\
  avc_is_idr_sample s = Ok (true, 3) /\
  convert_sample_to_byte_stream s = Ok ([0;0;0;1; 103;66;  0;0;0;1; 104;  0;0;0;1; 101;136;128], 3).
Proof. vm_compute. repeat split. Qed.
