(* C16TheoremsHevc.v — C16 theorems for the HEVC parameter-set and slice-segment-header parsers (fifth
   theorems file of C16).  Each theorem is closed by `exact <lemma>` and followed by Print Assumptions.

   Models: coq/c15/C15HevcModel.v (imported read-only, frozen at /verif ad13f0a; tied to /repo by C15's
   value correspondence) through the wrappers of C16HevcParseModel.v, which are GENERATED from C15's text
   with its constant loop caps (2^16 counts, 4096 extension flags) replaced by fuel taken from the input:
   hevc_fuel nalu = 8*|nalu| + 10.  `c16_hparse_*` run over ER, the C13 model of bits.EBSPReader.
   For EVERY byte list: Err or Ok, never Panic (the one index expression sets[idx - deltaIdx] of
   parseShortTermRPS is shown in range), never OutOfFuel except where stated: never OutOfFuel IS the
   iteration bound (each data-driven loop runs at most 8*|nalu| + 10 times).
   Parameter-set maps: the slice-header theorem holds for EVERY map whose entries satisfy the boolean
   well-formedness predicates hsps_wfb / hpps_wfb (st_ref_pic_set list at least as long as announced, uint8
   ranges of the Go fields); the SPS and PPS theorems show that the parsers only return such values, and
   C16_hevc_ParsePSAndSlice_total composes the three stages for hostile input at every stage. *)
From V.lib Require Import Base.
From V.c13 Require Import C13Model.
From V.c15 Require Import C15Model C15HevcModel.
From V.c16 Require Import C16HevcParseModel C16HevcPipeModel C16ParseProofs C16HevcErProofs C16ParseSimProofs.

Theorem C16_hevc_ParseSPSNALUnit_total : forall nalu : list N,
  c16_hparse_sps nalu = Err \/ exists s, c16_hparse_sps nalu = Ok s /\ hsps_wfb s = true.
Proof. exact c16_hparse_sps_total_b. Qed.
Print Assumptions C16_hevc_ParseSPSNALUnit_total.

(* OutOfFuel here means exactly: the PPS selects pps_multilayer_extension or pps_3d_extension, which the C15
   model does not cover (hparse_pps: `if mf || df then out_of_fuel`); nothing is proved about those
   extension bodies (search only).  Hence _partial.  Full statement wanted: Err \/ exists p, ... Ok p. *)
Theorem C16_hevc_ParsePPSNALUnit_total_partial : forall (spsmap : N -> bool) (nalu : list N),
  c16_hparse_pps spsmap nalu = Err \/ c16_hparse_pps spsmap nalu = OutOfFuel \/
  exists p, c16_hparse_pps spsmap nalu = Ok p /\ hpps_wfb p = true.
Proof. exact c16_hparse_pps_total_b. Qed.
Print Assumptions C16_hevc_ParsePPSNALUnit_total_partial.

Theorem C16_hevc_ParseSliceHeader_total :
  forall (spsmap : N -> option hsps) (ppsmap : N -> option hpps) (nalu : list N),
  (forall id sp, spsmap id = Some sp -> hsps_wfb sp = true) ->
  (forall id pp, ppsmap id = Some pp -> hpps_wfb pp = true) ->
  c16_hparse_slice spsmap ppsmap nalu = Err \/ exists h, c16_hparse_slice spsmap ppsmap nalu = Ok h.
Proof. exact c16_hparse_slice_total_b. Qed.
Print Assumptions C16_hevc_ParseSliceHeader_total.

(* hostile SPS -> hostile PPS parsed against it -> slice header parsed against both maps (the pipeline of
   mp4ff-nallister; cs / cp: reference sets already in the maps) *)
Theorem C16_hevc_ParsePSAndSlice_total : forall (cs : list hsps) (cp : list hpps) (a b rest : list N),
  forallb hsps_wfb cs = true -> forallb hpps_wfb cp = true ->
  hevc_ps_and_slice cs cp a b rest = Err \/ hevc_ps_and_slice cs cp a b rest = OutOfFuel \/
  exists h, hevc_ps_and_slice cs cp a b rest = Ok h.
Proof. exact hevc_ps_and_slice_total. Qed.
Print Assumptions C16_hevc_ParsePSAndSlice_total.

(* hostile SPS -> SEI NAL unit decoded with the HEVCPicTimingParams derived from that SPS (VUI / HRD lengths) *)
Theorem C16_hevc_ParseSPSAndSEI_total : forall a rest : list N,
  hevc_sps_and_sei a rest = Err \/
  exists n miss, hevc_sps_and_sei a rest = Ok (n, miss) /\ 2 * n <= lenN rest.
Proof. exact hevc_sps_and_sei_total. Qed.
Print Assumptions C16_hevc_ParseSPSAndSEI_total.

(* decoder configuration record -> its SPS and PPS NAL units -> slice segment header *)
Theorem C16_hevc_DecConfRecAndSlice_total : forall recb rest : list N,
  hevc_confrec_and_slice recb rest = Err \/ hevc_confrec_and_slice recb rest = OutOfFuel \/
  exists h, hevc_confrec_and_slice recb rest = Ok h.
Proof. exact hevc_confrec_and_slice_total. Qed.
Print Assumptions C16_hevc_DecConfRecAndSlice_total.

(* the wrappers compute what the C15 models compute wherever those are defined *)
Theorem C16_hevc_ParseSPSNALUnit_agrees_with_C15_model : forall nalu : list N,
  hparse_sps_er nalu <> OutOfFuel -> c16_hparse_sps nalu = hparse_sps_er nalu.
Proof. exact c16_hparse_sps_agrees. Qed.
Print Assumptions C16_hevc_ParseSPSNALUnit_agrees_with_C15_model.

Theorem C16_hevc_ParsePPSNALUnit_agrees_with_C15_model : forall (spsmap : N -> bool) (nalu : list N),
  c16_hparse_pps spsmap nalu <> OutOfFuel -> hparse_pps_er spsmap nalu <> OutOfFuel ->
  c16_hparse_pps spsmap nalu = hparse_pps_er spsmap nalu.
Proof. exact c16_hparse_pps_agrees. Qed.
Print Assumptions C16_hevc_ParsePPSNALUnit_agrees_with_C15_model.

Theorem C16_hevc_ParseSliceHeader_agrees_with_C15_model :
  forall (spsmap : N -> option hsps) (ppsmap : N -> option hpps) (nalu : list N),
  (forall id sp, spsmap id = Some sp -> hsps_wf sp) ->
  (forall id pp, ppsmap id = Some pp -> hpps_wf pp) ->
  hparse_slice_er spsmap ppsmap nalu <> OutOfFuel ->
  c16_hparse_slice spsmap ppsmap nalu = hparse_slice_er spsmap ppsmap nalu.
Proof. exact c16_hparse_slice_agrees. Qed.
Print Assumptions C16_hevc_ParseSliceHeader_agrees_with_C15_model.

(* ------------------------------------------------------------------ not vacuous: blackframe.265 *)
Definition ex_hsps : list N := [66; 1; 1; 1; 96; 0; 0; 3; 0; 144; 0; 0; 3; 0; 0; 3; 0; 30; 160; 20; 32; 121; 101; 149; 154; 73; 50; 188; 5; 160; 32; 0; 0; 3; 0; 32; 0; 0; 3; 3; 33].
Definition ex_hpps : list N := [68; 1; 193; 114; 180; 98; 64].
Definition ex_hslice : list N := [2; 1; 208; 41; 75; 225; 12; 99; 137; 80; 249; 130; 144; 162; 233; 77].
Example ex_hevc_sps_parses :
  exists s, c16_hparse_sps ex_hsps = Ok s /\ h_width s = 160 /\ h_height s = 120 /\ hsps_wfb s = true.
Proof. eexists. split; [vm_compute; reflexivity|]. repeat split. Qed.

Example ex_hevc_pipeline_parses :
  exists h, hevc_ps_and_slice [] [] ex_hsps ex_hpps ex_hslice = Ok h /\ s_type h = 1 /\ s_size h = 10.
Proof. eexists. split; [vm_compute; reflexivity|]. split; reflexivity. Qed.

(* the two cooperating hostile units of seeded change C16-c16b: a PPS whose
   num_ref_idx_l0_default_active_minus1 is 255 (weighted prediction on) parses, and the P slice that inherits
   the default is an ERROR (range check 0..14 on the inherited values) - not a panic *)
Definition ex_hpps_255 : list N := [68; 1; 193; 0; 64; 50; 180; 98; 64].
Example ex_hevc_pps_default_255 :
  (exists p, c16_hparse_pps (fun _ => true) ex_hpps_255 = Ok p /\ pp_l0 p = 255 /\ pp_weighted_pred p = true) /\
  hevc_ps_and_slice [] [] ex_hsps ex_hpps_255 ex_hslice = Err.
Proof. split; [eexists; split; [vm_compute; reflexivity|split; reflexivity]|vm_compute; reflexivity]. Qed.

Example ex_hevc_short : c16_hparse_sps [] = Err /\ c16_hparse_pps (fun _ => true) [68] = Err /\
  c16_hparse_slice (fun _ => None) (fun _ => None) [2; 1; 208] = Err.
Proof. vm_compute. repeat split. Qed.
