(* C16TheoremsHevc.v — C16 theorems for the HEVC parameter-set and slice-segment-header parsers (fifth
   theorems file of C16).  Each theorem is closed by `exact <lemma>` and followed by Print Assumptions.

   Models: coq/c15/C15HevcModel.v (imported read-only, frozen at /verif ad13f0a; tied to /repo by C15's
   value correspondence) through the wrappers of C16HevcParseModel.v, which are GENERATED from C15's text
   with its constant loop caps (2^16 counts, 4096 extension flags) replaced by fuel taken from the input:
   hevc_fuel nalu = 8*|nalu| + 10.  `c16_hparse_*` run over ER, the C13 model of bits.EBSPReader.
   For EVERY byte list: Err or Ok, never Panic (the one index expression sets[idx - deltaIdx] of
   parseShortTermRPS is shown in range), never OutOfFuel: never OutOfFuel IS the iteration bound (each data-driven
   loop runs at most 8*|nalu| + 10 times).  The PPS multilayer / 3D extension bodies, which C15 does not model,
   are C16's own skeletons of hevc/pps.go.
   Parameter-set maps: the slice-header theorem holds for EVERY map whose entries satisfy the boolean
   well-formedness predicates hsps_wfb / hpps_wfb (st_ref_pic_set list at least as long as announced, every
   NumDeltaPocs <= 254, uint8 range of num_extra_slice_header_bits); the SPS and PPS theorems show that the parsers only return such values, and
   C16_hevc_ParsePSAndSlice_total composes the three stages for hostile input at every stage. *)
From V.lib Require Import Base.
From V.c13 Require Import C13Model.
From V.c15 Require Import C15Model C15HevcModel.
From V.c16 Require Import C16HevcParseModel C16HevcPipeModel C16ParseProofs C16HevcErProofs C16ParseSimProofs.

Theorem C16_hevc_ParseSPSNALUnit_total : forall nalu : list N,
  c16_hparse_sps nalu = Err \/ exists s, c16_hparse_sps nalu = Ok s /\ hsps_wfb s = true.
Proof. exact c16_hparse_sps_total_b. Qed.
Print Assumptions C16_hevc_ParseSPSNALUnit_total.

(* every SPS the parser returns has at most 64 short-term reference picture sets, exactly as many as announced, and
   every NumDeltaPocs is at most 95 = 16 + 16 + 63 (an inter-predicted set has at most one entry more than its
   reference).  NumDeltaPocs is a uint8 and hevc.parseShortTermRPS loops `for j := byte(0); j <= numDeltaPocs; j++`,
   which never ends for 255: the guard constants 64 and 16 of hevc/sps.go are what keeps 255 out of reach
   (with the first guard at 255 instead of 64 a chain of 225 sets reaches it: the search has that unit). *)
Theorem C16_hevc_ParseSPSNALUnit_rps_bound : forall (nalu : list N) (s : hsps),
  c16_hparse_sps nalu = Ok s ->
  h_num_st_rps s <= 64 /\ lenN (h_st_rps s) = h_num_st_rps s /\
  Forall (fun r => rps_ndelta r <= 95) (h_st_rps s).
Proof. exact c16_hparse_sps_rps_bound. Qed.
Print Assumptions C16_hevc_ParseSPSNALUnit_rps_bound.

(* EVERY PPS, the range, multilayer (with the colour mapping table and its recursive octants), 3D (depth look-up
   tables) and SCC extension bodies included: Err or Ok.  The multilayer / 3D bodies are C16's own skeletons of
   hevc/pps.go (C16HevcParseModel.v): reads, conditions, loop counts and error exits; their decoded values are not
   kept (the slice-header parser does not use them). *)
Theorem C16_hevc_ParsePPSNALUnit_total : forall (spsmap : N -> bool) (nalu : list N),
  c16_hparse_pps spsmap nalu = Err \/ exists p, c16_hparse_pps spsmap nalu = Ok p /\ hpps_wfb p = true.
Proof. exact c16_hparse_pps_total_b. Qed.
Print Assumptions C16_hevc_ParsePPSNALUnit_total.

Theorem C16_hevc_ParseSliceHeader_total :
  forall (spsmap : N -> option hsps) (ppsmap : N -> option hpps) (nalu : list N),
  (forall id sp, spsmap id = Some sp -> hsps_wfb sp = true) ->
  (forall id pp, ppsmap id = Some pp -> hpps_wfb pp = true) ->
  c16_hparse_slice spsmap ppsmap nalu = Err \/ exists h, c16_hparse_slice spsmap ppsmap nalu = Ok h.
Proof. exact c16_hparse_slice_total_b. Qed.
Print Assumptions C16_hevc_ParseSliceHeader_total.

(* hostile SPS -> hostile PPS parsed against it -> slice header parsed against both maps (the pipeline of
   mp4ff-nallister; cs / cp: reference sets already in the maps) *)
Theorem C16_hevc_ParsePSAndSlice_total : forall (cs : list hsps) (cp : list hpps) (a b rest : list N),
  forallb hsps_wfb cs = true -> forallb hpps_wfb cp = true ->
  hevc_ps_and_slice cs cp a b rest = Err \/ exists h, hevc_ps_and_slice cs cp a b rest = Ok h.
Proof. exact hevc_ps_and_slice_total. Qed.
Print Assumptions C16_hevc_ParsePSAndSlice_total.

(* hostile SPS -> SEI NAL unit decoded with the HEVCPicTimingParams derived from that SPS (VUI / HRD lengths) *)
Theorem C16_hevc_ParseSPSAndSEI_total : forall a rest : list N,
  hevc_sps_and_sei a rest = Err \/
  exists n miss, hevc_sps_and_sei a rest = Ok (n, miss) /\ 2 * n <= lenN rest.
Proof. exact hevc_sps_and_sei_total. Qed.
Print Assumptions C16_hevc_ParseSPSAndSEI_total.

(* decoder configuration record -> its SPS and PPS NAL units -> slice segment header *)
Theorem C16_hevc_DecConfRecAndSlice_total : forall recb rest : list N,
  hevc_confrec_and_slice recb rest = Err \/ exists h, hevc_confrec_and_slice recb rest = Ok h.
Proof. exact hevc_confrec_and_slice_total. Qed.
Print Assumptions C16_hevc_DecConfRecAndSlice_total.

(* the wrappers compute what the C15 models compute wherever those are defined *)
Theorem C16_hevc_ParseSPSNALUnit_agrees_with_C15_model : forall nalu : list N,
  hparse_sps_er nalu <> OutOfFuel -> c16_hparse_sps nalu = hparse_sps_er nalu.
Proof. exact c16_hparse_sps_agrees. Qed.
Print Assumptions C16_hevc_ParseSPSNALUnit_agrees_with_C15_model.

Theorem C16_hevc_ParsePPSNALUnit_agrees_with_C15_model : forall (spsmap : N -> bool) (nalu : list N),
  hparse_pps_er spsmap nalu <> OutOfFuel -> c16_hparse_pps spsmap nalu = hparse_pps_er spsmap nalu.
Proof. exact c16_hparse_pps_agrees. Qed.
Print Assumptions C16_hevc_ParsePPSNALUnit_agrees_with_C15_model.

Theorem C16_hevc_ParseSliceHeader_agrees_with_C15_model :
  forall (spsmap : N -> option hsps) (ppsmap : N -> option hpps) (nalu : list N),
  (forall id sp, spsmap id = Some sp -> hsps_wf sp) ->
  (forall id pp, ppsmap id = Some pp -> hpps_wf pp) ->
  hparse_slice_er spsmap ppsmap nalu <> OutOfFuel ->
  c16_hparse_slice spsmap ppsmap nalu = hparse_slice_er spsmap ppsmap nalu.
Proof. exact c16_hparse_slice_agrees. Qed.
Print Assumptions C16_hevc_ParseSliceHeader_agrees_with_C15_model.

(* ------------------------------------------------------------------ not vacuous: blackframe.265 *)
Definition ex_hsps : list N := [66; 1; 1; 1; 96; 0; 0; 3; 0; 144; 0; 0; 3; 0; 0; 3; 0; 30; 160; 20; 32; 121; 101; 149; 154; 73; 50; 188; 5; 160; 32; 0; 0; 3; 0; 32; 0; 0; 3; 3; 33].
Definition ex_hpps : list N := [68; 1; 193; 114; 180; 98; 64].
Definition ex_hslice : list N := [2; 1; 208; 41; 75; 225; 12; 99; 137; 80; 249; 130; 144; 162; 233; 77].
Example ex_hevc_sps_parses :
  exists s, c16_hparse_sps ex_hsps = Ok s /\ h_width s = 160 /\ h_height s = 120 /\ hsps_wfb s = true.
Proof. eexists. split; [vm_compute; reflexivity|]. repeat split. Qed.

Example ex_hevc_pipeline_parses :
  exists h, hevc_ps_and_slice [] [] ex_hsps ex_hpps ex_hslice = Ok h /\ s_type h = 1 /\ s_size h = 10.
Proof. eexists. split; [vm_compute; reflexivity|]. split; reflexivity. Qed.

(* the two cooperating hostile units of seeded change C16-c16b: a PPS whose
   num_ref_idx_l0_default_active_minus1 is 255 (weighted prediction on) parses, and the P slice that inherits
   the default is an ERROR (range check 0..14 on the inherited values) - not a panic *)
Definition ex_hpps_255 : list N := [68; 1; 193; 0; 64; 50; 180; 98; 64].
Example ex_hevc_pps_default_255 :
  (exists p, c16_hparse_pps (fun _ => true) ex_hpps_255 = Ok p /\ pp_l0 p = 255 /\ pp_weighted_pred p = true) /\
  hevc_ps_and_slice [] [] ex_hsps ex_hpps_255 ex_hslice = Err.
Proof. split; [eexists; split; [vm_compute; reflexivity|split; reflexivity]|vm_compute; reflexivity]. Qed.

Example ex_hevc_short : c16_hparse_sps [] = Err /\ c16_hparse_pps (fun _ => true) [68] = Err /\
  c16_hparse_slice (fun _ => None) (fun _ => None) [2; 1; 208] = Err.
Proof. vm_compute. repeat split. Qed.

(* the fourth reference PPS of the harness selects the multilayer extension (C15's model: OutOfFuel) *)
Definition ex_hpps_ext : list N := [68; 1; 193; 245; 129; 29; 2; 160].
Example ex_hevc_pps_multilayer :
  (exists p, c16_hparse_pps (fun _ => true) ex_hpps_ext = Ok p /\ pp_ml_flag p = true) /\
  hparse_pps_er (fun _ => true) ex_hpps_ext = OutOfFuel.
Proof. split; [eexists; split; [vm_compute; reflexivity|reflexivity]|vm_compute; reflexivity]. Qed.

(* hand-written PPS selecting BOTH extensions: one ref_loc_offset entry with a resample phase set, a colour mapping
   table (octant depth 1, no split, one coded residual with 9-bit res_coeff_r), a depth look-up table coded as delta
   DLT (num_val 3, max_diff 4, two 2-bit differences); hevc.ParsePPSNALUnit returns it without error; one byte less is
   an error *)
Definition ex_hpps_ml_3d : list N :=
  [68; 1; 192; 113; 128; 21; 128; 64; 159; 192; 79; 13; 128; 32; 8; 0; 64; 8; 6; 8; 0; 26].
Example ex_hevc_pps_ml_3d :
  (exists p, c16_hparse_pps (fun _ => true) ex_hpps_ml_3d = Ok p /\ pp_ml_flag p = true /\ pp_3d_flag p = true) /\
  c16_hparse_pps (fun _ => true) (removelast ex_hpps_ml_3d) = Err.
Proof. split; [eexists; split; [vm_compute; reflexivity|split; reflexivity]|vm_compute; reflexivity]. Qed.

(* luma_bit_depth_cm_input_minus8 = 2^32 - 1 and 2^63 - 9 in the same unit: resLsBits = 2^32 + 8 resp. about 2^63, the
   read of res_coeff_r runs into the end of the data: Err (as in Go), and the model does not iterate over the width *)
Example ex_hevc_pps_wide_read :
  c16_hparse_pps (fun _ => true) [68; 1; 192; 113; 128; 21; 128; 64; 159; 192; 64; 0; 0; 3; 0; 8; 0; 0; 3; 0; 7; 13; 128; 32;
                                  8; 0; 64; 8; 6; 8; 0; 26] = Err /\
  c16_hparse_pps (fun _ => true) [68; 1; 192; 113; 128; 21; 128; 64; 159; 192; 64; 0; 0; 3; 0; 0; 3; 0; 0; 3; 0; 63; 255; 255;
                                  255; 255; 255; 255; 252; 112; 216; 2; 0; 128; 4; 0; 128; 96; 128; 1; 160] = Err.
Proof. vm_compute. split; reflexivity. Qed.
