(* C16SeiStrModel.v — the String / Payload / Size methods of the SEI messages that were exercised by the search only
   (sei/sei.go SEIData, sei/sei1_hevc.go PicTimingHevcSEI, sei/sei4.go RegisteredSEI / CEA608sei, sei/sei137.go,
   sei/sei144.go).  DEFINITIONS ONLY.  (TimeCodeSEI, PicTimingAvcSEI and UnregisteredSEI, whose String methods index
   by decoded values, are in C16AuxModel.v.)

   What these methods can do wrong is (a) a slice expression or index out of range: the two Payload methods that
   fill a fixed buffer through sub-slices pl[pos:pos+2] / pl[pos:pos+4] with a running position, modelled with the
   PARTIAL operations of C16AuxModel (pslice; binary.BigEndian.PutUint16/32 panic on a short slice); (b) memory: the
   String methods render the payload with hex.EncodeToString / %q / %v, modelled by the number of bytes rendered
   (`render cost`): hex = 2 per byte, %q of a string at most 4 per byte + 2 quotes (\xNN), %v of a byte slice at most
   4 per byte + 2 brackets ("255 "), every %d of a 64-bit integer at most 20. *)
From V.lib Require Import Base.
From V.c17 Require Import C17TypedModel.
From V.c16 Require Import C16AuxModel.

(* binary.BigEndian.PutUint16(pl[lo:lo+2], v): the sub-slice aliases the buffer *)
Definition put_at (pl : list N) (lo : Z) (k : nat) (bytes : list N) : res (list N) :=
  do s <- pslice pl lo (lo + Z.of_nat k);
  if (length s <? k)%nat then Panic      (* `_ = b[k-1]` *)
  else Ok (firstn (Z.to_nat lo) pl ++ bytes ++ skipn (Z.to_nat lo + k) pl).

(* MasteringDisplayColourVolumeSEI.Payload(): pl := make([]byte, 24); pos := 0; for i < 3 { put X[i]; pos += 2;
   put Y[i]; pos += 2 }; white point; two uint32 (the [3]uint16 arrays are indexed by the loop counter i < 3) *)
Definition mdcv_payload_p (m : mdcv) : res (list N) :=
  let pl := repeat 0 24 in
  do pl <- put_at pl 0 2 (be16 (md_x0 m));  do pl <- put_at pl 2 2 (be16 (md_y0 m));
  do pl <- put_at pl 4 2 (be16 (md_x1 m));  do pl <- put_at pl 6 2 (be16 (md_y1 m));
  do pl <- put_at pl 8 2 (be16 (md_x2 m));  do pl <- put_at pl 10 2 (be16 (md_y2 m));
  do pl <- put_at pl 12 2 (be16 (md_wx m)); do pl <- put_at pl 14 2 (be16 (md_wy m));
  do pl <- put_at pl 16 4 (be32 (md_max m)); do pl <- put_at pl 20 4 (be32 (md_min m));
  Ok pl.

(* ContentLightLevelInformationSEI.Payload(): pl := make([]byte, 4); PutUint16(pl[:2], ..); PutUint16(pl[2:4], ..) *)
Definition cll_payload_p (m : cll) : res (list N) :=
  let pl := repeat 0 4 in
  do pl <- put_at pl 0 2 (be16 (cl_max m)); do pl <- put_at pl 2 2 (be16 (cl_avg m));
  Ok pl.

(* ---- render costs of the String methods (bytes of the string built; c = the fixed text and the %d fields) *)
Definition int_w : N := 20.
(* SEIData.String: Sprintf("%s, size=%d, %q", type name, size, hex(payload)): the hex text quoted *)
Definition sei_data_string_cost (pl : list N) : N := 64 + int_w + (2 * lenN pl + 2).
(* RegisteredSEI.String: Sprintf("SEI type %d, size=%d, %v", .., .., ITUTData): three small integers *)
Definition registered_string_cost (pl : list N) : N := 32 + 5 * int_w.
(* CEA608sei.String: the two fields in hex, quoted *)
Definition cea608_string_cost (f1 f2 : list N) : N := 64 + 2 * int_w + (2 * lenN f1 + 2) + (2 * lenN f2 + 2).
(* UnregisteredSEI.String: hex(uuid) quoted + string(payload[16:]) with %q *)
Definition unregistered_string_cost (uuid rest : list N) : N := 64 + 2 * int_w + (2 * lenN uuid + 2) + (4 * lenN rest + 2).

(* String of a pass-through message as decoded: Err stands for "not that kind" *)
Definition pass_string_cost (m : passthrough) : res N :=
  match ps_kind m with
  | KRegistered => Ok (registered_string_cost (ps_payload m))
  | KCea608 f1 f2 => Ok (cea608_string_cost f1 f2)
  | KUnregistered u => do rest <- unregistered_string_accesses m; Ok (unregistered_string_cost u rest)
  | KPicTimingHevc => Ok (64 + 8 * int_w)     (* FrameFieldInfo is dereferenced only when non-nil *)
  end.
