(* C16ParseSimProofs.v — the C16 wrappers (C16ParseModel.v) REFINE the C15 parser models they were
   derived from: whenever a wrapper returns Ok or Err and the C15 model does not give up with
   OutOfFuel (its constant 2^16 cap), both return the same result.  Together with totality
   (C16ParseErProofs.v) this gives: on every NAL unit on which C15Model.parse_pps / parse_slice_header
   is defined, the C16 wrapper computes exactly the value that C15's own value correspondence ties
   to /repo.  Purely structural: holds for every reader.  No axioms. *)
From V.lib Require Import Base.
From V.c13 Require Import C13Model.
From V.c15 Require Import C15Model C15Avc2Model C15HevcModel.
From V.c16 Require Import C16Model C16ReaderProofs C16SeiProofs C16ParseModel C16HevcParseModel C16ParseProofs C16ParseErProofs
  C16ReaderMoreProofs C16HevcErProofs.

Definition okerr {A} (r : res A) : Prop := r = Err \/ exists x, r = Ok x.

Section Sim.
  Context {St : Type} (R : reader St).

  (* P' (the wrapper) refines P (the C15 model) *)
  Definition refines {A} (P' P : @M St A) : Prop :=
    forall s r, P' s = r -> okerr r -> P s <> OutOfFuel -> P s = r.

  Lemma refines_refl {A} (P : @M St A) : refines P P.
  Proof. intros s r E _ _. exact E. Qed.

  Lemma refines_oof_r {A} (P' : @M St A) : refines P' out_of_fuel.
  Proof. intros s r _ _ H. exfalso. apply H. reflexivity. Qed.

  Lemma refines_oof_l {A} (P : @M St A) : refines out_of_fuel P.
  Proof. intros s r E [H|[x H]]; unfold out_of_fuel in E; congruence. Qed.

  Lemma refines_bind {A B} (m' m : @M St A) (k' k : A -> @M St B) :
    refines m' m -> (forall a, refines (k' a) (k a)) -> refines (bind m' k') (bind m k).
  Proof.
    intros Hm Hk s r E Hr Hn. unfold bind in *.
    destruct (m' s) as [[a s1]| | |] eqn:E'.
    - assert (Hmn : m s <> OutOfFuel) by (intros X; rewrite X in Hn; congruence).
      rewrite (Hm s _ E' (or_intror (ex_intro _ _ eq_refl)) Hmn) in *.
      apply (Hk a s1 r E Hr Hn).
    - assert (Hmn : m s <> OutOfFuel) by (intros X; rewrite X in Hn; congruence).
      rewrite (Hm s _ E' (or_introl eq_refl) Hmn). exact E.
    - destruct Hr as [H|[x H]]; congruence.
    - destruct Hr as [H|[x H]]; congruence.
  Qed.

  (* the guarded count loop *)
  Lemma rep_break_f_rep_break {A} (body : @M St A) : forall fuel n s r,
    rep_break_f R fuel n body s = r -> okerr r -> rep_break R (N.to_nat n) body s = r.
  Proof.
    induction fuel as [|f IH]; intros n s r E Hr.
    - cbn [rep_break_f] in E. unfold out_of_fuel in E. destruct Hr as [H|[x H]]; congruence.
    - cbn [rep_break_f] in E. destruct (n =? 0) eqn:Hn.
      + apply N.eqb_eq in Hn. subst n. exact E.
      + apply N.eqb_neq in Hn. replace (N.to_nat n) with (S (N.to_nat (n - 1))) by lia.
        cbn [rep_break]. rewrite bind_get_err in *. destruct (r_err R s); [exact E|].
        unfold bind in *. destruct (body s) as [[x s1]| | |]; try exact E.
        destruct (rep_break_f R f (n - 1) body s1) as [[t s2]| | |] eqn:E2.
        * rewrite (IH (n - 1) s1 _ E2 (or_intror (ex_intro _ _ eq_refl))). exact E.
        * rewrite (IH (n - 1) s1 _ E2 (or_introl eq_refl)). exact E.
        * destruct Hr as [H|[y H]]; congruence.
        * destruct Hr as [H|[y H]]; congruence.
  Qed.

  Lemma refines_rep_break {A} (body : @M St A) fuel n :
    refines (rep_break_f R fuel n body) (rep_break_n R n body).
  Proof.
    intros s r E Hr Hn. unfold rep_break_n in *. destruct (n <=? loop_bound).
    - apply (rep_break_f_rep_break body fuel n s r E Hr).
    - exfalso. apply Hn. reflexivity.
  Qed.

  Ltac rstep :=
    lazymatch goal with
    | |- refines ?a ?b =>
        first [ constr_eq a b; apply refines_refl
              | lazymatch goal with
                | |- refines (bind _ _) (bind _ _) => apply refines_bind; [ | intro ]
                | |- refines (if ?c then _ else _) (if ?c then _ else _) => destruct c
                | |- refines (match ?x with Some _ => _ | None => _ end) _ => destruct x
                | |- refines (match ?p with pair _ _ => _ end) _ => destruct p
                | |- refines (let _ := _ in _) _ => cbv zeta
                | |- refines (rep_break_f R _ _ _) (rep_break_n R _ _) => apply refines_rep_break
                end ]
    end.

  (* the two `for { }` loops: the result does not depend on the fuel as long as it is not exhausted *)
  Lemma refines_rplm : forall f1 f2 st, refines (rplm_loop R f1 st) (rplm_loop R f2 st).
  Proof.
    induction f1 as [|f1 IH]; intros f2 st.
    - cbn [rplm_loop]. apply refines_oof_l.
    - destruct f2 as [|f2]; [cbn [rplm_loop]; apply refines_oof_r|].
      cbn [rplm_loop]. destruct st as [[[i0 ad] lt] av].
      repeat first [ apply IH | rstep ].
  Qed.

  Lemma refines_mmco : forall f1 f2 st, refines (mmco_loop R f1 st) (mmco_loop R f2 st).
  Proof.
    induction f1 as [|f1 IH]; intros f2 st.
    - cbn [mmco_loop]. apply refines_oof_l.
    - destruct f2 as [|f2]; [cbn [mmco_loop]; apply refines_oof_r|].
      cbn [mmco_loop]. destruct st as [[[df lt] fi] mx].
      repeat first [ apply IH | rstep ].
  Qed.

  Lemma refines_pps fuel spsmap : refines (parse_pps_d R fuel spsmap) (parse_pps R spsmap).
  Proof.
    unfold parse_pps_d, parse_pps, parse_pps_pre_d, parse_pps_pre,
      parse_pps_slice_groups_d, parse_pps_slice_groups.
    repeat rstep.
  Qed.

  Lemma refines_slice fuel spsmap ppsmap :
    refines (parse_slice_header_d R fuel spsmap ppsmap) (parse_slice_header2 R spsmap ppsmap).
  Proof.
    unfold parse_slice_header_d, parse_slice_header2.
    repeat first [ apply refines_rplm | apply refines_mmco | rstep ].
  Qed.
  (* ================================================================== HEVC *)
  Lemma refines_if_oof {A} (c : bool) (P' P : @M St A) : refines P' P -> refines P' (if c then out_of_fuel else P).
  Proof. intros H. destruct c; [apply refines_oof_r|exact H]. Qed.

  Lemma rep_until_err_f_struct {A} (body : @M St A) : forall fl n s r,
    rep_until_err_f R fl n body s = r -> okerr r -> rep_until_err R (N.to_nat n) body s = r.
  Proof.
    induction fl as [|f IH]; intros n s r E Hr.
    - cbn [rep_until_err_f] in E. unfold out_of_fuel in E. destruct Hr as [H|[x H]]; congruence.
    - cbn [rep_until_err_f] in E. destruct (n =? 0) eqn:Hn.
      + apply N.eqb_eq in Hn. subst n. exact E.
      + apply N.eqb_neq in Hn. replace (N.to_nat n) with (S (N.to_nat (n - 1))) by lia.
        cbn [rep_until_err]. unfold bind in *. destruct (body s) as [[x s1]| | |]; try exact E.
        unfold get_err in *. destruct (r_err R s1); [exact E|].
        destruct (rep_until_err_f R f (n - 1) body s1) as [[t s2]| | |] eqn:E2.
        * rewrite (IH (n - 1) s1 _ E2 (or_intror (ex_intro _ _ eq_refl))). exact E.
        * rewrite (IH (n - 1) s1 _ E2 (or_introl eq_refl)). exact E.
        * destruct Hr as [H|[y H]]; congruence.
        * destruct Hr as [H|[y H]]; congruence.
  Qed.

  Lemma refines_rep_until_err {A} (body : @M St A) fl n :
    refines (rep_until_err_f R fl n body) (rep_until_err_n R n body).
  Proof.
    intros s r E Hr Hn. unfold rep_until_err_n in *. destruct (n <=? loop_bound).
    - apply (rep_until_err_f_struct body fl n s r E Hr).
    - exfalso. apply Hn. reflexivity.
  Qed.

  Ltac rstep2 :=
    lazymatch goal with
    | |- refines ?a ?b =>
        first [ constr_eq a b; apply refines_refl
              | lazymatch goal with
                | |- refines (bind _ _) (bind _ _) => apply refines_bind; [ | intro ]
                | |- refines (if ?c then _ else _) (if ?c then _ else _) => destruct c
                | |- refines _ (if _ then out_of_fuel else _) => apply refines_if_oof
                | |- refines (match ?x with Some _ => _ | None => _ end) _ => destruct x
                | |- refines (match ?p with pair _ _ => _ end) _ => destruct p
                | |- refines (let _ := _ in _) _ => cbv zeta
                | |- refines (rep_until_err_f R _ _ _) (rep_until_err_n R _ _) => apply refines_rep_until_err
                end ]
    end.

  Lemma refines_hext : forall f1 f2 acc, refines (hext_data_loop R f1 acc) (hext_data_loop R f2 acc).
  Proof.
    induction f1 as [|f1 IH]; intros f2 acc.
    - cbn [hext_data_loop]. apply refines_oof_l.
    - destruct f2 as [|f2]; [cbn [hext_data_loop]; apply refines_oof_r|].
      cbn [hext_data_loop]. repeat first [ apply IH | rstep2 ].
  Qed.

  Lemma refines_hlt : forall fl cnt i nlsps sp acc npt,
    refines (hlt_loop_f R fl cnt i nlsps sp acc npt) (hlt_loop R (N.to_nat cnt) i nlsps sp acc npt).
  Proof.
    induction fl as [|f IH]; intros cnt i nlsps sp acc npt.
    - cbn [hlt_loop_f]. apply refines_oof_l.
    - cbn [hlt_loop_f]. destruct (cnt =? 0) eqn:Hc.
      + apply N.eqb_eq in Hc. subst cnt. cbn [N.to_nat hlt_loop]. apply refines_refl.
      + apply N.eqb_neq in Hc. replace (N.to_nat cnt) with (S (N.to_nat (cnt - 1))) by lia.
        cbn [hlt_loop]. repeat first [ apply IH | rstep2 ].
  Qed.

  Lemma refines_hsps fuel : refines (hparse_sps_d R fuel) (hparse_sps R).
  Proof.
    unfold hparse_sps_d, hparse_sps, hparse_sps_ext_d, hparse_sps_ext, hparse_sps_scc_d, hparse_sps_scc.
    repeat first [ apply refines_hext | rstep2 ].
  Qed.

  (* where C15 gives up (`if mf || df then out_of_fuel`) the wrapper runs its own skeletons of the two extension
     parsers; where C15 goes on, the wrapper's extra step is `ret tt` *)
  Lemma refines_ext_skeleton {A} (c : bool) (X : @M St unit) (K' K : @M St A) : refines K' K ->
    refines (bind (if c then X else ret tt) (fun _ => K')) (if c then out_of_fuel else K).
  Proof.
    intros H. destruct c; [apply refines_oof_r|].
    intros s r E Hr Hn. apply (H s r); [|exact Hr|exact Hn]. exact E.
  Qed.

  Lemma refines_hpps fuel spsmap : refines (hparse_pps_d R fuel spsmap) (hparse_pps R spsmap).
  Proof.
    unfold hparse_pps_d, hparse_pps, hparse_pps_range_d, hparse_pps_range, hparse_pps_scc_d, hparse_pps_scc.
    repeat first [ apply refines_hext | apply refines_ext_skeleton | rstep2 ].
  Qed.

  Lemma refines_hslice bib fuel spsmap ppsmap :
    refines (hparse_slice_d R bib fuel spsmap ppsmap) (hparse_slice R bib spsmap ppsmap).
  Proof.
    unfold hparse_slice_d, hparse_slice, hparse_slice_main_d, hparse_slice_main.
    repeat first [ apply refines_hlt | rstep2 ].
  Qed.
End Sim.

Lemma run_okerr {St A} (m : St -> res (A * St)) s : okerr (run m s) -> okerr (m s).
Proof.
  unfold run, okerr. destruct (m s) as [[a s']| | |]; intros [H|[x H]]; try congruence; eauto.
Qed.

Lemma c16_parse_pps_agrees spsmap nalu :
  parse_pps_er spsmap nalu <> OutOfFuel -> c16_parse_pps spsmap nalu = parse_pps_er spsmap nalu.
Proof.
  intros Hn. unfold c16_parse_pps, parse_pps_er in *.
  assert (Hr : okerr (run (parse_pps_d ER (parse_fuel nalu) spsmap) (rinit nalu))).
  { destruct (c16_parse_pps_total spsmap nalu) as [E|(a & E & _)]; unfold c16_parse_pps in E; rewrite E;
      [left; reflexivity|right; eauto]. }
  apply run_okerr in Hr.
  assert (Hm : parse_pps ER spsmap (rinit nalu) <> OutOfFuel).
  { intros X. apply Hn. unfold run. rewrite X. reflexivity. }
  unfold run. rewrite (refines_pps ER (parse_fuel nalu) spsmap (rinit nalu) _ eq_refl Hr Hm). reflexivity.
Qed.

Lemma c16_parse_slice_agrees spsmap ppsmap nalu :
  parse_slice2_er spsmap ppsmap nalu <> OutOfFuel ->
  c16_parse_slice spsmap ppsmap nalu = parse_slice2_er spsmap ppsmap nalu.
Proof.
  intros Hn. unfold c16_parse_slice, parse_slice2_er in *.
  assert (Hr : okerr (run (parse_slice_header_d ER (parse_fuel nalu) spsmap ppsmap) (rinit nalu))).
  { destruct (c16_parse_slice_total spsmap ppsmap nalu) as [E|(a & E)]; unfold c16_parse_slice in E; rewrite E;
      [left; reflexivity|right; eauto]. }
  apply run_okerr in Hr.
  assert (Hm : parse_slice_header2 ER spsmap ppsmap (rinit nalu) <> OutOfFuel).
  { intros X. apply Hn. unfold run. rewrite X. reflexivity. }
  unfold run. rewrite (refines_slice ER (parse_fuel nalu) spsmap ppsmap (rinit nalu) _ eq_refl Hr Hm). reflexivity.
Qed.

(* ------------------------------------------------------------------ HEVC: the wrappers agree with the C15 models *)
Lemma c16_hparse_sps_agrees nalu :
  hparse_sps_er nalu <> OutOfFuel -> c16_hparse_sps nalu = hparse_sps_er nalu.
Proof.
  intros Hn. unfold c16_hparse_sps, hparse_sps_er in *.
  assert (Hr : okerr (run (hparse_sps_d ER (hevc_fuel nalu)) (rinit nalu))).
  { destruct (c16_hparse_sps_total nalu) as [E|(a & E & _)]; unfold c16_hparse_sps in E; rewrite E;
      [left; reflexivity|right; eauto]. }
  apply run_okerr in Hr.
  assert (Hm : hparse_sps ER (rinit nalu) <> OutOfFuel).
  { intros X. apply Hn. unfold run. rewrite X. reflexivity. }
  unfold run. rewrite (refines_hsps ER (hevc_fuel nalu) (rinit nalu) _ eq_refl Hr Hm). reflexivity.
Qed.

Lemma c16_hparse_slice_agrees spsmap ppsmap nalu :
  (forall id sp, spsmap id = Some sp -> hsps_wf sp) ->
  (forall id pp, ppsmap id = Some pp -> hpps_wf pp) ->
  hparse_slice_er spsmap ppsmap nalu <> OutOfFuel ->
  c16_hparse_slice spsmap ppsmap nalu = hparse_slice_er spsmap ppsmap nalu.
Proof.
  intros H1 H2 Hn. unfold c16_hparse_slice, hparse_slice_er in *.
  assert (Hr : okerr (run (hparse_slice_d ER er_bib (hevc_fuel nalu) spsmap ppsmap) (rinit nalu))).
  { destruct (c16_hparse_slice_total spsmap ppsmap nalu H1 H2) as [E|(a & E)]; unfold c16_hparse_slice in E; rewrite E;
      [left; reflexivity|right; eauto]. }
  apply run_okerr in Hr.
  assert (Hm : hparse_slice ER er_bib spsmap ppsmap (rinit nalu) <> OutOfFuel).
  { intros X. apply Hn. unfold run. rewrite X. reflexivity. }
  unfold run. rewrite (refines_hslice ER er_bib (hevc_fuel nalu) spsmap ppsmap (rinit nalu) _ eq_refl Hr Hm). reflexivity.
Qed.

(* PPS: where C15's model is defined (no multilayer / 3D extension, counts below its caps) the wrapper equals it *)
Lemma c16_hparse_pps_agrees spsmap nalu :
  hparse_pps_er spsmap nalu <> OutOfFuel -> c16_hparse_pps spsmap nalu = hparse_pps_er spsmap nalu.
Proof.
  intros Hn. unfold c16_hparse_pps, hparse_pps_er in *.
  assert (Hr : okerr (run (hparse_pps_d ER (hevc_fuel nalu) spsmap) (rinit nalu))).
  { destruct (c16_hparse_pps_total spsmap nalu) as [E|(a & E & _)]; unfold c16_hparse_pps in E; rewrite E;
      [left; reflexivity|right; eauto]. }
  apply run_okerr in Hr.
  assert (Hm : hparse_pps ER spsmap (rinit nalu) <> OutOfFuel).
  { intros X. apply Hn. unfold run. rewrite X. reflexivity. }
  unfold run. rewrite (refines_hpps ER (hevc_fuel nalu) spsmap (rinit nalu) _ eq_refl Hr Hm). reflexivity.
Qed.
