(* Extraction of the C16 models for the correspondence check. ExtrOcamlBasic only. *)
From V.lib Require Import Base.
From V.c13 Require Import C13Model.
From V.c15 Require Import C15Model.
From V.c16 Require Import C16Model C16ParseModel.
Require Import ExtrOcamlBasic.
Separate Extraction
  avc_get_nalus_from_sample avc_find_nalu_types avc_find_nalu_types_upto
  avc_contains_nalu_type avc_is_idr_sample avc_has_parameter_sets avc_get_parameter_sets
  convert_sample_to_byte_stream
  hevc_find_nalu_types hevc_find_nalu_types_upto hevc_contains_nalu_type
  hevc_is_rap_sample hevc_is_idr_sample hevc_has_parameter_sets hevc_get_parameter_sets
  hpt_params decode_pic_timing_hevc
  c16_parse_sps c16_parse_pps c16_parse_slice sps_lookup pps_lookup chroma_lookup get_slice_type.
