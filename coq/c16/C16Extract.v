(* Extraction of the C16 models for the correspondence check. ExtrOcamlBasic only. *)
From V.lib Require Import Base.
From V.c13 Require Import C13Model.
From V.c14 Require Import C14Model.
From V.c15 Require Import C15Model C15HevcModel.
From V.c17 Require Import C17Spec C17Model C17TypedModel.
From V.c18 Require Import C18Model.
From V.c16 Require Import C16Model C16ParseModel C16AuxModel C16SeiNaluModel C16ConfRecModel C16HevcParseModel C16HevcPipeModel C16Av1EncModel C16SeiStrModel C16SeiFswModel.
Require Import ExtrOcamlBasic.
Separate Extraction
  avc_get_nalus_from_sample avc_find_nalu_types avc_find_nalu_types_upto
  avc_contains_nalu_type avc_is_idr_sample C16Model.avc_has_parameter_sets C16Model.avc_get_parameter_sets
  convert_sample_to_byte_stream
  hevc_find_nalu_types hevc_find_nalu_types_upto hevc_contains_nalu_type
  hevc_is_rap_sample hevc_is_idr_sample C16Model.hevc_has_parameter_sets C16Model.hevc_get_parameter_sets
  C16Model.hpt_params C16Model.decode_pic_timing_hevc
  c16_parse_sps c16_parse_pps c16_parse_slice sps_lookup pps_lookup chroma_lookup get_slice_type
  parse_cea608_p decode_registered_p extract_cea608_p decode_unregistered_p mdcv_decode_p cll_decode_p
  mdcv_payload_p cll_payload_p pass_string_cost
  tc_payload_p pt_payload_p tc_value_of_bytes pt_value_of_bytes C17TypedModel.tc_size C17TypedModel.pt_size
  C17TypedModel.tc_payload C17TypedModel.pt_payload
  extract_sei_data_go C17TypedModel.tc_decode C17TypedModel.pt_decode
  avc_pt_of_sps avc_parse_sei_nalu hevc_parse_sei_nalu
  avc_decode_dec_conf_rec hevc_decode_dec_conf_rec hevc_decode_full av1_decode_codec_conf_rec
  hevc_arr_complete hevc_arr_type av1_encode av1_decode_encode av1_size
  c16_hparse_sps c16_hparse_pps c16_hparse_slice hsps_lookup hpps_lookup hsps_has hevc_ps_and_slice
  hevc_sps_and_sei hevc_confrec_and_slice parse_hsps_list parse_hpps_list
  decode_adts_t C18Model.decode_asc
  C14Model.extract_nalus_from_byte_stream C14Model.to_nalu_sample C14Model.avc_get_first_video_nalu
  C14Model.avc_extract_nalus_of_type C14Model.hevc_extract_nalus_of_type
  C14Model.avc_get_parameter_sets_from_byte_stream C14Model.hevc_get_parameter_sets_from_byte_stream.
