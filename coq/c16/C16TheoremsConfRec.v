(* C16TheoremsConfRec.v — C16 theorems for the decoder configuration record decoders
     avc.DecodeAVCDecConfRec, hevc.DecodeHEVCDecConfRec, av1.DecodeAV1CodecConfRec
   (models: C16ConfRecModel.v, tied to /repo by the value correspondence of the harness targets
   "<name>#v"; lemmas: C16ConfRecProofs.v).  Each theorem is closed by `exact <lemma>` and followed by
   Print Assumptions.

   Shape: for EVERY byte list (no hypothesis; elements need not be < 256) the result is Err or Ok:
   never Panic, never OutOfFuel (the fuel of the loops that consume input is |data| + 1, that of the
   HEVC array loop 256: its count is a byte); the number of loop iterations `t` is linear in |data|; the
   NAL units built fit in the input:
     cr_bytes l = total number of bytes of the units of l,   cr_cost l = 2 * |l| + cr_bytes l
     hevc_arrs_cost a = sum over the arrays of (3 + cr_cost units)   (the bytes the record spends on them).
   NOT bounded by the input length: the number of (empty) arrays hevc.DecodeHEVCDecConfRec appends
   after a read error in an array header; it is bounded by 255 (C16_hevc_confrec_arrays_le_len_refuted). *)
From V.lib Require Import Base.
From V.c16 Require Import C16ConfRecModel C16ConfRecProofs C16Av1EncModel C16Av1EncProofs.

(* ------------------------------------------------------------------ avc *)
(* the SPS / PPS loop from ANY state inside the record and for ANY count (not only one read from a
   byte), failing exits included: it returns, stays inside the record, iterates at most once per two
   bytes consumed (+ the failing iteration), and what it appended fits in what it consumed *)
Theorem C16_avc_confrec_loop_total : forall fuel data i n pos acc t,
  (0 <= pos <= cr_len data)%Z -> (cr_len data - pos < Z.of_nat fuel)%Z ->
  exists fl pos' acc' t',
    avc_ps_loop fuel data i n pos acc t = Ok (fl, pos', acc', t') /\
    (pos <= pos' <= cr_len data)%Z /\
    (Z.of_N (cr_cost acc') - Z.of_N (cr_cost acc) <= pos' - pos)%Z /\
    (Z.of_N t <= Z.of_N t')%Z /\
    (2 * (Z.of_N t' - Z.of_N t) <= pos' - pos + 2 * b2z fl)%Z /\
    (Z.of_N (lenN acc') - Z.of_N (lenN acc) <= Z.of_N t' - Z.of_N t)%Z.
Proof. exact avc_ps_loop_total. Qed.
Print Assumptions C16_avc_confrec_loop_total.

Theorem C16_avc_DecodeAVCDecConfRec_total : forall data : list N,
  avc_decode_dec_conf_rec data = Err \/
  exists r t, avc_decode_dec_conf_rec data = Ok (r, t) /\
    2 * t + 7 <= lenN data /\
    lenN (ar_sps r) + lenN (ar_pps r) <= t /\
    7 + cr_cost (ar_sps r) + cr_cost (ar_pps r) <= lenN data.
Proof. exact avc_confrec_total. Qed.
Print Assumptions C16_avc_DecodeAVCDecConfRec_total.

(* ------------------------------------------------------------------ hevc *)
(* every path, the ones returning an error with the partly filled record included:
   (record, error?, iterations of both loops, units appended to an array dropped by the early return) *)
Theorem C16_hevc_confrec_full_total : forall data : list N,
  exists r e t dropped,
    hevc_decode_full data = Ok (r, e, t, dropped) /\
    lenN (hr_arrays r) <= 255 /\
    2 * t <= lenN data + 512 /\
    hevc_arrs_units (hr_arrays r) + lenN dropped <= t /\
    hevc_arrs_bytes (hr_arrays r) + cr_bytes dropped <= lenN data /\
    (e = false -> dropped = [] /\ 23 + hevc_arrs_cost (hr_arrays r) <= lenN data).
Proof. exact hevc_full_total. Qed.
Print Assumptions C16_hevc_confrec_full_total.

Theorem C16_hevc_DecodeHEVCDecConfRec_total : forall data : list N,
  hevc_decode_dec_conf_rec data = Err \/
  exists r t, hevc_decode_dec_conf_rec data = Ok (r, t) /\
    lenN (hr_arrays r) <= 255 /\ 2 * t <= lenN data + 512 /\
    hevc_arrs_units (hr_arrays r) <= t /\
    23 + hevc_arrs_cost (hr_arrays r) <= lenN data.
Proof. exact hevc_confrec_total. Qed.
Print Assumptions C16_hevc_DecodeHEVCDecConfRec_total.

(* "number of arrays <= |data|" is false on the error path: 23 bytes, 255 arrays (reproduced on the
   real code: hevc.DecodeHEVCDecConfRec returns 255 NaluArrays together with the read error).
   The guard that excludes it is `e = false` above: 23 + 3 * arrays <= 23 + hevc_arrs_cost <= |data|. *)
Theorem C16_hevc_confrec_arrays_le_len_refuted :
  exists data r e t d, hevc_decode_full data = Ok (r, e, t, d) /\ e = true /\
    lenN data = 23 /\ lenN (hr_arrays r) = 255.
Proof. exact hevc_arrays_le_len_refuted. Qed.
Print Assumptions C16_hevc_confrec_arrays_le_len_refuted.

(* ------------------------------------------------------------------ av1 *)
Theorem C16_av1_DecodeAV1CodecConfRec_total : forall data : list N,
  av1_decode_codec_conf_rec data = Err \/
  exists r, av1_decode_codec_conf_rec data = Ok r /\ 4 + lenN (av_config_obus r) = lenN data.
Proof. exact av1_confrec_total. Qed.
Print Assumptions C16_av1_DecodeAV1CodecConfRec_total.

(* the rest of the av1 package: CodecConfRec.Size / Encode / EncodeSW (C16Av1EncModel.v; the package has no String).
   For EVERY record value (fields outside their bit widths included) Encode returns bytes, never the writer's
   error: the bits.FixedSliceWriter of Size() bytes is exactly filled *)
Theorem C16_av1_Encode_total : forall r : av1_rec,
  av1_encode r = Ok (av1_header r ++ av_config_obus r) /\ lenN (av1_header r ++ av_config_obus r) = av1_size r.
Proof. exact av1_encode_total. Qed.
Print Assumptions C16_av1_Encode_total.

(* and for every byte input the decoder accepts, Encode gives the input back and Size is its length: memory of the
   decode + encode pair is 2 |data| *)
Theorem C16_av1_DecodeEncode_roundtrip : forall (data : list N) (r : av1_rec),
  Forall (fun b => b < 256) data -> av1_decode_codec_conf_rec data = Ok r ->
  av1_encode r = Ok data /\ av1_size r = lenN data.
Proof. exact av1_decode_encode_roundtrip. Qed.
Print Assumptions C16_av1_DecodeEncode_roundtrip.

(* ------------------------------------------------------------------ examples *)
(* avcC of avc/avcdecoderconfig_test.go (High profile, one SPS, one PPS, trailing info) *)
Example ex_avc_confrec_valid :
  avc_decode_dec_conf_rec
    [1; 100; 0; 30; 255; 225; 0; 25; 103; 100; 0; 30; 172; 217; 64; 160; 47; 249; 97; 0; 0; 3; 0; 1; 0; 0;
     3; 0; 60; 143; 22; 45; 150; 1; 0; 5; 104; 235; 236; 178; 44; 253; 248; 248; 0] =
  Ok (mkAvcRec 100 0 30
        [[103; 100; 0; 30; 172; 217; 64; 160; 47; 249; 97; 0; 0; 3; 0; 1; 0; 0; 3; 0; 60; 143; 22; 45; 150]]
        [[104; 235; 236; 178; 44]] 1 0 0 0 false, 2).
Proof. vm_compute. reflexivity. Qed.

(* empty input; numSPS = 31 with nothing behind; numPPS = 255 with nothing behind; an SPS length field
   0xffff with nothing behind; no trailing info (accepted: NoTrailingInfo) *)
Example ex_avc_confrec_hostile :
  avc_decode_dec_conf_rec [] = Err /\
  avc_decode_dec_conf_rec [1; 100; 0; 30; 255; 255] = Err /\
  avc_decode_dec_conf_rec [1; 100; 0; 30; 255; 224; 255] = Err /\
  avc_decode_dec_conf_rec [1; 100; 0; 30; 255; 225; 255; 255] = Err /\
  avc_ps_loop (cr_fuel [255; 255]) [255; 255] 0 255 0 [] 0 = Ok (true, 2%Z, [], 1) /\
  avc_decode_dec_conf_rec [1; 100; 0; 30; 255; 224; 0] = Ok (mkAvcRec 100 0 30 [] [] 0 0 0 0 true, 0).
Proof. vm_compute. repeat split. Qed.

(* hvcC built by hevc.CreateHEVCDecConfRec from the VPS/SPS/PPS of hevc/hevcdecoderconfigurationrecord_test.go *)
Example ex_hevc_confrec_valid :
  let data :=
    [1; 1; 96; 0; 0; 0; 144; 0; 0; 0; 0; 0; 120; 240; 0; 252; 253; 248; 248; 0; 0; 3; 3; 160; 0; 1; 0; 24; 64;
     1; 12; 1; 255; 255; 1; 96; 0; 0; 3; 0; 144; 0; 0; 3; 0; 0; 3; 0; 120; 149; 152; 9; 161; 0; 1; 0; 45; 66;
     1; 1; 1; 96; 0; 0; 3; 0; 144; 0; 0; 3; 0; 0; 3; 0; 120; 160; 5; 2; 1; 105; 101; 149; 154; 73; 50; 188; 5;
     168; 8; 8; 8; 32; 0; 0; 3; 0; 32; 0; 0; 3; 3; 33; 162; 0; 1; 0; 7; 68; 1; 193; 114; 180; 98; 64] in
  exists r, hevc_decode_dec_conf_rec data = Ok (r, 6) /\
    map (fun a => (hevc_arr_complete (fst a), hevc_arr_type (fst a), lenN (snd a), cr_bytes (snd a))) (hr_arrays r)
      = [(1, 32, 1, 24); (1, 33, 1, 45); (1, 34, 1, 7)] /\
    hr_profile_idc r = 1 /\ hr_level_idc r = 120 /\ hr_compat_flags r = 1610612736 /\
    23 + hevc_arrs_cost (hr_arrays r) = lenN data.
Proof. eexists. vm_compute. repeat split. Qed.

(* empty input; numArrays = 255 with nothing behind (error, 255 empty arrays in the returned record);
   numNalus = 0xffff with nothing behind: ONE iteration of the unit loop, then the early return (before
   fix 2768e90: 65535 iterations, each appending an empty unit); a unit length 0xffff with nothing behind *)
Example ex_hevc_confrec_hostile :
  hevc_decode_dec_conf_rec [] = Err /\
  hevc_decode_dec_conf_rec [1; 1; 96; 0; 0; 0; 144; 0; 0; 0; 0; 0; 120; 240; 0; 252; 253; 248; 248; 0; 0; 15; 255] = Err /\
  (exists r, hevc_decode_full [1; 1; 96; 0; 0; 0; 144; 0; 0; 0; 0; 0; 120; 240; 0; 252; 253; 248; 248; 0; 0; 15; 255]
             = Ok (r, true, 255, []) /\ lenN (hr_arrays r) = 255) /\
  (exists r, hevc_decode_full [1; 1; 96; 0; 0; 0; 144; 0; 0; 0; 0; 0; 120; 240; 0; 252; 253; 248; 248; 0; 0; 15; 1; 160; 255; 255]
             = Ok (r, true, 2, [[]]) /\ hr_arrays r = []) /\
  (exists r, hevc_decode_full [1; 1; 96; 0; 0; 0; 144; 0; 0; 0; 0; 0; 120; 240; 0; 252; 253; 248; 248; 0; 0; 15; 1; 160; 0; 1; 255; 255]
             = Ok (r, true, 2, [[]]) /\ hr_arrays r = []).
Proof. vm_compute. repeat split; eexists; split; reflexivity. Qed.

(* av1C of av1/av1codecconfigurationrecord_test.go *)
Example ex_av1_confrec_valid :
  av1_decode_codec_conf_rec [129; 9; 76; 0; 10; 11; 0; 0; 0; 74; 171; 191; 195; 119; 255; 231; 1] =
  Ok (mkAv1Rec 1 0 9 0 1 0 0 1 1 0 0 0 [10; 11; 0; 0; 0; 74; 171; 191; 195; 119; 255; 231; 1]).
Proof. vm_compute. reflexivity. Qed.

Example ex_av1_encode :
  av1_decode_encode [129; 9; 76; 0; 10; 11; 0; 0; 0; 74; 171; 191; 195; 119; 255; 231; 1] =
    Ok [129; 9; 76; 0; 10; 11; 0; 0; 0; 74; 171; 191; 195; 119; 255; 231; 1] /\
  (* field values beyond their widths are masked, not an error *)
  av1_encode (mkAv1Rec 255 9 33 2 1 0 0 1 1 7 1 31 [7]) = Ok [255; 33; 79; 31; 7].
Proof. vm_compute. split; reflexivity. Qed.

Example ex_av1_confrec_hostile :
  av1_decode_codec_conf_rec [] = Err /\
  av1_decode_codec_conf_rec [129; 9; 76] = Err /\
  av1_decode_codec_conf_rec [1; 9; 76; 0] = Err /\
  av1_decode_codec_conf_rec [129; 9; 76; 32] = Err /\
  av1_decode_codec_conf_rec [129; 9; 76; 15] = Err /\
  av1_decode_codec_conf_rec [129; 255; 255; 31] = Ok (mkAv1Rec 1 7 31 1 1 1 1 1 1 3 1 15 []).
Proof. vm_compute. repeat split. Qed.
