(* C16Av1EncModel.v — the rest of the av1 package surface (av1/av1codecconfigurationrecord.go): CodecConfRec.Size,
   Encode / EncodeSW.  DEFINITIONS ONLY.  (The package has no String method; DecodeAV1CodecConfRec is in
   C16ConfRecModel.v.)

   Encode allocates a bits.FixedSliceWriter of Size() = 4 + len(ConfigOBUs) bytes and writes twelve bit fields that
   fill exactly four bytes (1+7, 3+5, 1+1+1+1+1+1+2, 3+1+4 bits), then the OBU bytes with WriteBytes.  The writer is
   modelled at the BYTE level: WriteBits(v, n) contributes the low n bits of v (`bits & Mask(n)`), most significant
   field first; a byte is stored when eight bits are there (WriteUint8: error if the buffer is full); WriteBytes
   checks off + len <= cap.  The bit-level accumulator of bits.FixedSliceWriter is C13's subject; here its packing
   is tied to /repo by the correspondence (Encode's bytes are compared on exhaustive sweeps of each header byte). *)
From V.lib Require Import Base.
From V.c16 Require Import C16ConfRecModel.

(* uint64(4 + len(a.ConfigOBUs)) *)
Definition av1_size (r : av1_rec) : N := 4 + lenN (av_config_obus r).

Definition av1_header (r : av1_rec) : list N :=
  [ 128 + av_version r mod 128;
    (av_seq_profile r mod 8) * 32 + av_seq_level_idx0 r mod 32;
    (av_seq_tier0 r mod 2) * 128 + (av_high_bitdepth r mod 2) * 64 + (av_twelve_bit r mod 2) * 32 +
      (av_monochrome r mod 2) * 16 + (av_subsampling_x r mod 2) * 8 + (av_subsampling_y r mod 2) * 4 +
      av_sample_position r mod 4;
    (av_ipd_present r mod 2) * 16 + (if av_ipd_present r =? 1 then av_ipd_minus_one r mod 16 else 0) ].

(* a writer of capacity cap: bytes stored so far, accumulated error *)
Definition fsw_put (cap : N) (st : list N * bool) (b : N) : list N * bool :=
  if cap <? lenN (fst st) + 1 then (fst st, true) else (fst st ++ [b], snd st).
Definition fsw_put_bytes (cap : N) (st : list N * bool) (bs : list N) : list N * bool :=
  if cap <? lenN (fst st) + lenN bs then (fst st, true) else (fst st ++ bs, snd st).

(* Encode: Err = EncodeSW returned the writer's accumulated error; Ok = the bytes handed to w.Write *)
Definition av1_encode (r : av1_rec) : res (list N) :=
  let cap := av1_size r in
  let st := fold_left (fsw_put cap) (av1_header r) ([], false) in
  let st := if negb (lenN (av_config_obus r) =? 0) then fsw_put_bytes cap st (av_config_obus r) else st in
  if snd st then Err else Ok (fst st).

(* decode then encode, as the harness target does *)
Definition av1_decode_encode (data : list N) : res (list N) :=
  match av1_decode_codec_conf_rec data with
  | Ok r => av1_encode r
  | Err => Err
  | Panic => Panic
  | OutOfFuel => OutOfFuel
  end.
