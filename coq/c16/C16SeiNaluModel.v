(* C16SeiNaluModel.v — avc.ParseSEINalu / hevc.ParseSEINalu (avc/sei.go, hevc/sei.go after fix e335a5c)
   composed from the models that exist: the NAL header test with PARTIAL nalu[0] / nalu[1:] / nalu[2:],
   sei.ExtractSEIData (extract_sei_data_go of C16AuxModel.v = C17 model + the ReadBytes loop), then one
   decoder per extracted message, chosen as the Go text chooses it (sei.DecodeSEIMessage + the picture
   timing special case that takes its field lengths from the SPS).  Only what C16 needs is kept of
   a decoded message: whether the decoder returned an error.  DEFINITIONS ONLY.

   The SPS enters through a context value: for AVC `option (option hrd_delay * N)` (None: sps == nil or
   sps.VUI == nil; Some (ext, tolen): the CbpDbpDelay pointer and time offset length handed to
   DecodePicTimingAvcSEIHRD), for HEVC `option hpt_params` (the HEVCPicTimingParams).  The theorems
   quantify over ALL context values, which covers every SPS value (avc_pt_of_sps shows the AVC map). *)
From V.lib Require Import Base.
From V.c13 Require Import C13Model.
From V.c15 Require C15Model.
From V.c17 Require Import C17Spec C17Model C17TypedModel.
From V.c16 Require C16Model.
From V.c16 Require Import C16AuxModel.

Definition cls {A} (r : res A) : res unit :=
  match r with Ok _ => Ok tt | Err => Err | Panic => Panic | OutOfFuel => OutOfFuel end.

(* ---- AVC: what ParseSEINalu derives from the SPS *)
Definition avc_pt_ctx : Type := option (option hrd_delay * N).

Definition avc_pt_of_sps (sp : option C15Model.sps) : avc_pt_ctx :=
  match sp with
  | None => None
  | Some s =>
      match C15Model.sps_vui s with
      | None => None
      | Some v =>
          let h := match C15Model.vui_vcl_hrd v with Some h => Some h | None => C15Model.vui_nal_hrd v end in
          match h with
          | Some h => Some (Some (mkHrd 0 0 0 (u8 (C15Model.hrd_cpb_removal_delay_length_minus1 h))
                                        (u8 (C15Model.hrd_dpb_output_delay_length_minus1 h))),
                            u8 (C15Model.hrd_time_offset_length h))
          | None => Some (None, 0)
          end
      end
  end.

(* one extracted message, codec AVC *)
Definition decode_msg_avc (ctx : avc_pt_ctx) (m : N * list N) : res unit :=
  let '(ty, pl) := m in
  if ty =? 1 then
    match ctx with
    | Some (ext, tolen) => cls (pt_decode ext tolen pl)     (* DecodePicTimingAvcSEIHRD(sd, cbpDbpDelay, len) *)
    | None => cls (pt_decode None 0 pl)                     (* DecodePicTimingAvcSEI = ...HRD(sd, nil, 0) *)
    end
  else if ty =? 4 then cls (decode_registered_p pl)
  else if ty =? 5 then cls (decode_unregistered_p pl)
  else Ok tt.                                               (* DecodeGeneralSEI *)

(* one extracted message, codec HEVC *)
Definition decode_msg_hevc (ctx : option C16Model.hpt_params) (m : N * list N) : res unit :=
  let '(ty, pl) := m in
  if (ty =? 1) && (match ctx with Some _ => true | None => false end) then
    match ctx with
    | Some p =>
        match C16Model.decode_pic_timing_hevc p pl with
        | Ok (_, _, _, e, _) => if e then Err else Ok tt
        | Err => Err | Panic => Panic | OutOfFuel => OutOfFuel
        end
    | None => Ok tt
    end
  else if ty =? 4 then cls (decode_registered_p pl)
  else if ty =? 5 then cls (decode_unregistered_p pl)
  else if ty =? 136 then cls (tc_decode pl)
  else if ty =? 137 then cls (mdcv_decode_p pl)
  else if ty =? 144 then cls (cll_decode_p pl)
  else Ok tt.

(* for _, seiData := range seiDatas { decode; if err != nil { return nil, err }; append } *)
Fixpoint decode_all (f : N * list N -> res unit) (l : list (N * list N)) (n : N) : res N :=
  match l with
  | [] => Ok n
  | m :: t => do _ <- f m; decode_all f t (n + 1)
  end.

(* result: number of messages, and whether ErrRbspTrailingBitsMissing is returned with them *)
Definition parse_sei_body (f : N * list N -> res unit) (rest : list N) : res (N * bool) :=
  match fst (extract_sei_data_go rest) with
  | XErr => Err
  | XFuel => OutOfFuel
  | XOk l => do n <- decode_all f l 0; Ok (n, false)
  | XMissing l => do n <- decode_all f l 0; Ok (n, true)
  end.

(* if len(nalu) < 1 || GetNaluType(nalu[0]) != NALU_SEI { err }; seiBytes := nalu[1:] *)
Definition avc_parse_sei_nalu (ctx : avc_pt_ctx) (nalu : list N) : res (N * bool) :=
  if (lenZ nalu <? 1)%Z then Err
  else
    do b0 <- pidx nalu 0;
    if negb (N.land b0 31 =? 6) then Err
    else do rest <- pslice nalu 1 (lenZ nalu); parse_sei_body (decode_msg_avc ctx) rest.

(* if len(nalu) < 2 { err }; type (nalu[0]>>1)&0x3f must be 39 or 40; seiBytes := nalu[2:] *)
Definition hevc_parse_sei_nalu (ctx : option C16Model.hpt_params) (nalu : list N) : res (N * bool) :=
  if (lenZ nalu <? 2)%Z then Err
  else
    do b0 <- pidx nalu 0;
    let t := N.land (N.shiftr b0 1) 63 in
    if negb ((t =? 39) || (t =? 40)) then Err
    else do rest <- pslice nalu 2 (lenZ nalu); parse_sei_body (decode_msg_hevc ctx) rest.
