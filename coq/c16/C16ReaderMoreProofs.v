(* C16ReaderMoreProofs.v — the remaining operations of the EBSP reader model used by the HEVC parsers:
   MoreRbspData (er_more), ReadRbspTrailingBits (er_trailing, which RESETS the sticky error after the
   final failed read), ReadFlag returning true, and NrBitsReadInCurrentByte (er_bib) for byte_alignment.
   All keep `rok` (sticky error or well-formed) and never increase the potential mu_er.  No axioms. *)
From V.lib Require Import Base.
From V.c13 Require Import C13Model.
From V.c15 Require Import C15Model C15HevcModel.
From V.c16 Require Import C16Model C16ReaderProofs C16SeiProofs C16ParseModel C16ParseProofs C16ParseErProofs.

(* a failed Read(1) from a well-formed state leaves a state that is well-formed again once the error
   flag is cleared, with no more unread bits than before *)
Lemma read1_error_state s :
  rwf s -> rerr s = false -> rerr (snd (read s 1)) = true ->
  rwf (rset_err (snd (read s 1)) false) /\ bits_left (rset_err (snd (read s 1)) false) <= bits_left s.
Proof.
  intros [Hp Hn] He. unfold read, read_gen. rewrite He.
  change (S (N.to_nat (1 / 8) + 1)) with 2%nat.
  cbn [fill]. destruct (rn s <? 1) eqn:Hc.
  2:{ rewrite He. cbn [snd rerr]. intros X; discriminate X. }
  assert (Hrn : rn s = 0) by lia.
  destruct (byte_at (rdata s) (rpos s)) as [b|] eqn:Hb.
  - apply byte_at_some in Hb.
    destruct (true && (rzc s =? 2) && (b =? 3))%bool.
    + destruct (byte_at (rdata s) (rpos s + 1)) as [b'|] eqn:Hb'.
      * cbn [rn]. replace (rn s + 8 <? 1) with false by lia. cbn [rerr snd]. intros X; discriminate X.
      * cbn [rerr snd]. intros _. unfold rwf, bits_left, rset_err. cbn [rpos rdata rn]. lia.
    + cbn [rn]. replace (rn s + 8 <? 1) with false by lia. cbn [rerr snd]. intros X; discriminate X.
  - cbn [rerr snd]. intros _. unfold rwf, bits_left, rset_err. cbn [rpos rdata rn]. lia.
Qed.

Lemma mu_er_reset s1 s : rwf (rset_err s1 false) -> bits_left (rset_err s1 false) <= bits_left s ->
  rerr s = false -> rok (rset_err s1 false) /\ mu_er (rset_err s1 false) <= mu_er s.
Proof.
  intros Hw Hb He. split; [right; exact Hw|]. unfold mu_er. rewrite He. cbn [rset_err rerr]. lia.
Qed.

(* trail_loop is only entered, and only continues, after a successful read *)
Lemma trail_loop_ok : forall fuel s, rwf s -> rerr s = false ->
  rok (snd (trail_loop fuel s)) /\ mu_er (snd (trail_loop fuel s)) <= mu_er s.
Proof.
  induction fuel as [|f IH]; intros s Hw He; cbn [trail_loop].
  - cbn [snd]. split; [right; exact Hw|lia].
  - pose proof (read1_error_state s Hw He) as Herr.
    pose proof (read_gen_inv true s 1 Hw He) as Hinv. unfold read in *.
    destruct (read_gen true s 1) as [b s1]. cbn [snd] in Herr. destruct Hinv as (Hd & Hr).
    destruct (rerr s1) eqn:He1.
    + cbn [snd]. destruct (Herr eq_refl) as (W & Bl). apply (mu_er_reset s1 s W Bl He).
    + destruct Hr as [Hr|(_ & Hw1 & Hb1)]; [congruence|].
      assert (Hm1 : mu_er s1 <= mu_er s) by (unfold mu_er; rewrite He, He1; lia).
      destruct (b =? 1).
      * cbn [snd]. split; [right; exact Hw1|exact Hm1].
      * destruct (IH s1 Hw1 He1) as (A & B). split; [exact A|lia].
Qed.

Lemma er_trailing_ok s : rok s ->
  rok (snd (er_trailing s)) /\ mu_er (snd (er_trailing s)) <= mu_er s.
Proof.
  intros Hs. unfold er_trailing. destruct (rerr s) eqn:He; [cbn [snd]; split; [exact Hs|lia]|].
  destruct Hs as [Hs|Hw]; [congruence|].
  pose proof (read_gen_inv true s 1 Hw He) as Hinv. unfold read in *.
  destruct (read_gen true s 1) as [b s1]. destruct Hinv as (Hd & Hr).
  destruct (rerr s1) eqn:He1.
  - cbn [snd]. split; [left; exact He1|]. unfold mu_er. rewrite He1. lia.
  - destruct Hr as [Hr|(_ & Hw1 & Hb1)]; [congruence|].
    assert (Hm1 : mu_er s1 <= mu_er s) by (unfold mu_er; rewrite He, He1; lia).
    destruct (negb (b =? 1)).
    + cbn [snd]. split; [right; exact Hw1|exact Hm1].
    + destruct (trail_loop_ok (S (8 * length (rdata s) + 8)) s1 Hw1 He1) as (A & B). split; [exact A|lia].
Qed.

Lemma er_more_ok s : rok s ->
  rok (snd (er_more s)) /\ mu_er (snd (er_more s)) <= mu_er s /\
  (fst (er_more s) = true -> 0 < mu_er (snd (er_more s))) /\
  (mu_er s = 0 -> fst (er_more s) = false).
Proof.
  intros Hs. unfold er_more, more_rbsp_data. destruct (rerr s) eqn:He.
  { cbn [fst snd]. split; [exact Hs|]. split; [lia|]. split; [discriminate|reflexivity]. }
  assert (Hpos : 0 < mu_er s) by (unfold mu_er; rewrite He; lia).
  destruct (mu_er_read 0 s 1 Hs) as (A1 & A2 & _).
  destruct (read s 1) as [b s1]. cbn [snd] in A1, A2.
  destruct (rerr s1) eqn:He1.
  { cbn [fst snd]. split; [exact A1|]. split; [exact A2|]. split; [discriminate|lia]. }
  destruct (negb (b =? 1)).
  { cbn [fst snd]. split; [exact Hs|]. split; [lia|]. split; [intros _; exact Hpos|lia]. }
  destruct (more_loop _ s1) as [m|]; cbn [fst snd]; (split; [exact Hs|]); (split; [lia|]); (split; [intros _; exact Hpos|lia]).
Qed.

(* ReadFlag = true means the read succeeded *)
Lemma read_flag_true s : fst (read_flag s) = true -> rerr (snd (read_flag s)) = false.
Proof.
  unfold read_flag, read, read_gen. destruct (rerr s) eqn:He.
  - cbn [fst snd]. intros X. discriminate X.
  - destruct (rerr (fill true _ s 1)) eqn:He1.
    + cbn [fst snd]. intros X. discriminate X.
    + cbn [fst snd rerr]. reflexivity.
Qed.

(* byte_alignment(): while bits are pending in the current byte (er_bib < 8, i.e. rn > 0) a flag read
   needs no new byte: it cannot fail and moves one bit closer to the boundary *)
Lemma er_align_step s : rok s -> 0 < mu_er s -> er_bib s < 8 ->
  0 < mu_er (snd (read_flag s)) /\ er_bib s < er_bib (snd (read_flag s)) /\ er_bib (snd (read_flag s)) <= 8.
Proof.
  intros Hs Hp Hb. unfold mu_er in Hp. destruct (rerr s) eqn:He; [lia|].
  destruct Hs as [Hs|[Hpos Hn]]; [congruence|].
  unfold er_bib in *. assert (Hrn : 1 <= rn s) by lia.
  unfold read_flag, read, read_gen. rewrite He.
  change (S (N.to_nat (1 / 8) + 1)) with 2%nat. cbn [fill].
  replace (rn s <? 1) with false by lia. rewrite He. cbn [snd rn rerr].
  unfold mu_er. cbn [rerr]. lia.
Qed.
