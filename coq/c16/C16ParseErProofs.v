(* C16ParseErProofs.v — the program logic of C16ParseProofs.v instantiated
   (a) trivially (inv = True, mu = 0): ParseSPSNALUnit and the tail of ParsePPSNALUnit are total from ANY
       state of ANY reader (they contain only count-guarded loops);
   (b) for ER, the C13 model of bits.EBSPReader: inv = rok (sticky error or well-formed), potential
       mu = unread bits + 1 (0 after the error); every read of >= 1 bit consumes potential
       (C16ReaderProofs.v), so the data-driven loops of ParsePPSNALUnit / ParseSliceHeader end within
       8*|nalu| + 1 iterations.
   Results: c16_parse_sps_total, c16_parse_pps_total, c16_parse_slice_total.  No axioms. *)
From V.lib Require Import Base.
From V.c13 Require Import C13Model.
From V.c15 Require Import C15Model.
From V.c16 Require Import C16Model C16ReaderProofs C16SeiProofs C16ParseModel C16ParseProofs.

(* ------------------------------------------------------------------ (a) trivial instance *)
Section Trivial.
  Context {St : Type} (R : reader St).
  Let inv0 : St -> Prop := fun _ => True.
  Let mu0 : St -> N := fun _ => 0.

  Lemma t_read : forall s n, inv0 s ->
    inv0 (snd (r_read R s n)) /\ mu0 (snd (r_read R s n)) <= mu0 s /\
    (1 <= n -> 0 < mu0 s -> mu0 (snd (r_read R s n)) < mu0 s).
  Proof. unfold inv0, mu0. intros. repeat split; lia. Qed.
  Lemma t_flag : forall s, inv0 s ->
    inv0 (snd (r_flag R s)) /\ mu0 (snd (r_flag R s)) <= mu0 s /\ (0 < mu0 s -> mu0 (snd (r_flag R s)) < mu0 s).
  Proof. unfold inv0, mu0. intros. repeat split; lia. Qed.
  Lemma t_ue : forall s, inv0 s ->
    inv0 (snd (r_ue R s)) /\ mu0 (snd (r_ue R s)) <= mu0 s /\ (0 < mu0 s -> mu0 (snd (r_ue R s)) < mu0 s).
  Proof. unfold inv0, mu0. intros. repeat split; lia. Qed.
  Lemma t_se : forall s, inv0 s ->
    inv0 (snd (r_se R s)) /\ mu0 (snd (r_se R s)) <= mu0 s /\ (0 < mu0 s -> mu0 (snd (r_se R s)) < mu0 s).
  Proof. unfold inv0, mu0. intros. repeat split; lia. Qed.
  Lemma t_seterr : forall s, inv0 s -> inv0 (r_seterr R s) /\ mu0 (r_seterr R s) <= mu0 s.
  Proof. unfold inv0, mu0. intros. repeat split; lia. Qed.
  Lemma t_more : forall s, inv0 s -> inv0 (snd (r_more R s)) /\ mu0 (snd (r_more R s)) <= mu0 s.
  Proof. unfold inv0, mu0. intros. repeat split; lia. Qed.
  Lemma t_trailing : forall s, inv0 s -> inv0 (snd (r_trailing R s)) /\ mu0 (snd (r_trailing R s)) <= mu0 s.
  Proof. unfold inv0, mu0. intros. repeat split; lia. Qed.

  (* avc.ParseSPSNALUnit over ANY reader from ANY state *)
  Lemma parse_sps_any beyond s :
    parse_sps R beyond s = Err \/
    exists a s', parse_sps R beyond s = Ok (a, s') /\ sps_lists_ok a.
  Proof.
    destruct (J_parse_sps R inv0 mu0 t_read t_flag t_ue t_se t_seterr beyond s I)
      as [E|(a & s' & E & _ & _ & H)]; [left; exact E|right; eauto].
  Qed.

  Lemma parse_pps_post_any B spsmap t s : sg_ok B (pre_sg t) ->
    parse_pps_post R spsmap t s = Err \/
    exists a s', parse_pps_post R spsmap t s = Ok (a, s') /\ pps_lists_ok B a.
  Proof.
    intros Hsg.
    destruct (J_parse_pps_post R inv0 mu0 t_read t_flag t_ue t_se t_seterr B t_more t_trailing spsmap t Hsg s I)
      as [E|(a & s' & E & _ & _ & H)]; [left; exact E|right; eauto].
  Qed.
End Trivial.

(* ------------------------------------------------------------------ (b) the EBSP reader *)
Definition mu_er (s : rstate) : N := if rerr s then 0 else bits_left s + 1.

Section Er.
  Variable B : N.
  Let invB (s : rstate) : Prop := rok s /\ mu_er s <= B.

  Lemma mu_er_read s n : rok s ->
    rok (snd (read s n)) /\ mu_er (snd (read s n)) <= mu_er s /\
    (1 <= n -> 0 < mu_er s -> mu_er (snd (read s n)) < mu_er s).
  Proof.
    intros H. destruct (read_rok s n H) as (A1 & A2 & A3). split; [exact A1|].
    unfold mu_er. destruct (rerr (snd (read s n))) eqn:E1.
    - split; [lia|]. intros _ Hp. exact Hp.
    - destruct (A3 eq_refl) as (E0 & Hb). rewrite E0. split; lia.
  Qed.

  Lemma mu_er_ue s : rok s ->
    rok (snd (read_ue s)) /\ mu_er (snd (read_ue s)) <= mu_er s /\
    (0 < mu_er s -> mu_er (snd (read_ue s)) < mu_er s).
  Proof.
    intros H. destruct (read_ue_rok s H) as (A1 & A2 & A3). split; [exact A1|].
    unfold mu_er. destruct (rerr (snd (read_ue s))) eqn:E1.
    - split; [lia|]. intros Hp. exact Hp.
    - destruct (A3 eq_refl) as (E0 & Hb). rewrite E0. split; lia.
  Qed.

  Lemma snd_read_flag s : snd (read_flag s) = snd (read s 1).
  Proof. unfold read_flag. destruct (read s 1). reflexivity. Qed.

  Lemma snd_read_se s : snd (read_se s) = snd (read_ue s).
  Proof.
    unfold read_se. destruct (read_ue s) as [u s1]. cbn [snd].
    destruct (rerr s1); [reflexivity|]. destruct (u mod 2 =? 1); reflexivity.
  Qed.

  Lemma e_read : forall s n, invB s ->
    invB (snd (r_read ER s n)) /\ mu_er (snd (r_read ER s n)) <= mu_er s /\
    (1 <= n -> 0 < mu_er s -> mu_er (snd (r_read ER s n)) < mu_er s).
  Proof.
    intros s n [H HB]. cbn [r_read ER]. destruct (mu_er_read s n H) as (A1 & A2 & A3).
    unfold invB. repeat split; auto; lia.
  Qed.
  Lemma e_flag : forall s, invB s ->
    invB (snd (r_flag ER s)) /\ mu_er (snd (r_flag ER s)) <= mu_er s /\
    (0 < mu_er s -> mu_er (snd (r_flag ER s)) < mu_er s).
  Proof.
    intros s [H HB]. cbn [r_flag ER]. rewrite snd_read_flag. destruct (mu_er_read s 1 H) as (A1 & A2 & A3).
    unfold invB. repeat split; auto; try lia.
  Qed.
  Lemma e_ue : forall s, invB s ->
    invB (snd (r_ue ER s)) /\ mu_er (snd (r_ue ER s)) <= mu_er s /\
    (0 < mu_er s -> mu_er (snd (r_ue ER s)) < mu_er s).
  Proof.
    intros s [H HB]. cbn [r_ue ER]. destruct (mu_er_ue s H) as (A1 & A2 & A3).
    unfold invB. repeat split; auto; lia.
  Qed.
  Lemma e_se : forall s, invB s ->
    invB (snd (r_se ER s)) /\ mu_er (snd (r_se ER s)) <= mu_er s /\
    (0 < mu_er s -> mu_er (snd (r_se ER s)) < mu_er s).
  Proof.
    intros s [H HB]. cbn [r_se ER]. rewrite snd_read_se. destruct (mu_er_ue s H) as (A1 & A2 & A3).
    unfold invB. repeat split; auto; lia.
  Qed.
  Lemma e_seterr : forall s, invB s -> invB (r_seterr ER s) /\ mu_er (r_seterr ER s) <= mu_er s.
  Proof.
    intros s [H HB]. cbn [r_seterr ER]. unfold invB, rok, mu_er, rset_err. cbn [rerr]. repeat split; auto; lia.
  Qed.
  Lemma e_err : forall s, invB s -> (r_err ER s = true <-> mu_er s = 0).
  Proof.
    intros s _. cbn [r_err ER]. unfold mu_er. destruct (rerr s); split; intros; try reflexivity; try lia; discriminate.
  Qed.
  Lemma e_B : forall s, invB s -> mu_er s <= B.
  Proof. intros s [_ H]. exact H. Qed.

  Lemma er_pps_pre fuel : B < N.of_nat fuel ->
    J invB mu_er (fun t => sg_ok B (pre_sg t)) (parse_pps_pre_d ER fuel).
  Proof. exact (J_parse_pps_pre_d ER invB mu_er e_read e_flag e_ue e_se e_seterr e_err B e_B fuel). Qed.

  Lemma er_slice fuel spsmap ppsmap : B < N.of_nat fuel ->
    J invB mu_er (fun _ => True) (parse_slice_header_d ER fuel spsmap ppsmap).
  Proof. exact (J_parse_slice_header_d ER invB mu_er e_read e_flag e_ue e_se e_seterr e_err B e_B fuel spsmap ppsmap). Qed.

  (* the loop lemmas for ER, stated on their own *)
  Lemma er_rep_break_total {A} (body : @M rstate A) : D invB mu_er body ->
    forall fuel n s, invB s -> mu_er s < N.of_nat fuel ->
      rep_break_f ER fuel n body s = Err \/
      exists l s', rep_break_f ER fuel n body s = Ok (l, s') /\ invB s' /\ mu_er s' <= mu_er s /\
                   lenN l + mu_er s' <= mu_er s /\ lenN l <= n.
  Proof. exact (rep_break_f_total ER invB mu_er e_read e_flag e_ue e_se e_seterr e_err body). Qed.

  Lemma er_rplm_total : forall fuel st s, invB s -> mu_er s < N.of_nat fuel ->
    rplm_loop ER fuel st s = Err \/
    exists a s', rplm_loop ER fuel st s = Ok (a, s') /\ invB s' /\ mu_er s' <= mu_er s.
  Proof. exact (rplm_loop_total ER invB mu_er e_read e_flag e_ue e_se e_seterr e_err B e_B). Qed.

  Lemma er_mmco_total : forall fuel st s, invB s -> mu_er s < N.of_nat fuel ->
    mmco_loop ER fuel st s = Err \/
    exists a s', mmco_loop ER fuel st s = Ok (a, s') /\ invB s' /\ mu_er s' <= mu_er s.
  Proof. exact (mmco_loop_total ER invB mu_er e_read e_flag e_ue e_se e_seterr e_err B e_B). Qed.

  Lemma er_rd8 : J invB mu_er (fun _ => True) (rd ER 8).
  Proof. exact (J_rd ER invB mu_er e_read 8). Qed.
End Er.

Lemma mu_er_init nalu : mu_er (rinit nalu) = 8 * lenN nalu + 1.
Proof. unfold mu_er, rinit, bits_left. cbn [rerr rdata rpos rn]. lia. Qed.

Lemma parse_fuel_enough nalu : 8 * lenN nalu + 1 < N.of_nat (parse_fuel nalu).
Proof. unfold parse_fuel, lenN. lia. Qed.

(* ------------------------------------------------------------------ the three entry points *)
Lemma c16_parse_sps_total beyond nalu :
  c16_parse_sps beyond nalu = Err \/ exists a, c16_parse_sps beyond nalu = Ok a /\ sps_lists_ok a.
Proof.
  unfold c16_parse_sps, parse_sps_er, run.
  destruct (parse_sps_any ER beyond (rinit nalu)) as [E|(a & s' & E & H)]; rewrite E; [left; reflexivity|right; eauto].
Qed.

Lemma c16_parse_pps_total spsmap nalu :
  c16_parse_pps spsmap nalu = Err \/
  exists a, c16_parse_pps spsmap nalu = Ok a /\ pps_lists_ok (8 * lenN nalu + 1) a.
Proof.
  set (B := 8 * lenN nalu + 1).
  assert (Hi : rok (rinit nalu) /\ mu_er (rinit nalu) <= B).
  { split; [apply rok_init|rewrite mu_er_init; unfold B; lia]. }
  unfold c16_parse_pps, run, parse_pps_d.
  destruct (er_rd8 B (rinit nalu) Hi) as [E|(hdr & s1 & E & Hi1 & _ & _)].
  { rewrite (bind_err _ _ _ E). left. reflexivity. }
  rewrite (bind_ok _ _ _ _ _ E).
  destruct (negb (N.land (u8 hdr) 31 =? 8)); [left; reflexivity|].
  destruct (er_pps_pre B (parse_fuel nalu) (parse_fuel_enough nalu) s1 Hi1) as [E2|(t & s2 & E2 & _ & _ & Hsg)].
  { rewrite (bind_err _ _ _ E2). left. reflexivity. }
  rewrite (bind_ok _ _ _ _ _ E2).
  destruct (parse_pps_post_any ER B spsmap t s2 Hsg) as [E3|(a & s3 & E3 & Ha)]; rewrite E3;
    [left; reflexivity|right; eauto].
Qed.

Lemma c16_parse_slice_total spsmap ppsmap nalu :
  c16_parse_slice spsmap ppsmap nalu = Err \/ exists a, c16_parse_slice spsmap ppsmap nalu = Ok a.
Proof.
  set (B := 8 * lenN nalu + 1).
  assert (Hi : rok (rinit nalu) /\ mu_er (rinit nalu) <= B).
  { split; [apply rok_init|rewrite mu_er_init; unfold B; lia]. }
  unfold c16_parse_slice, run.
  destruct (er_slice B (parse_fuel nalu) spsmap ppsmap (parse_fuel_enough nalu) (rinit nalu) Hi)
    as [E|(a & s' & E & _)]; rewrite E; [left; reflexivity|right; eauto].
Qed.

(* ------------------------------------------------------------------ the loops on their own (B := potential of the start state) *)
Lemma rplm_loop_er_total fuel st s : rok s -> mu_er s < N.of_nat fuel ->
  rplm_loop ER fuel st s = Err \/
  exists a s', rplm_loop ER fuel st s = Ok (a, s') /\ rok s' /\ mu_er s' <= mu_er s.
Proof.
  intros H Hf. destruct (er_rplm_total (mu_er s) fuel st s) as [E|(a & s' & E & [Hi _] & Hm)];
    [split; [exact H|lia]|exact Hf|left; exact E|right; eauto].
Qed.

Lemma mmco_loop_er_total fuel st s : rok s -> mu_er s < N.of_nat fuel ->
  mmco_loop ER fuel st s = Err \/
  exists a s', mmco_loop ER fuel st s = Ok (a, s') /\ rok s' /\ mu_er s' <= mu_er s.
Proof.
  intros H Hf. destruct (er_mmco_total (mu_er s) fuel st s) as [E|(a & s' & E & [Hi _] & Hm)];
    [split; [exact H|lia]|exact Hf|left; exact E|right; eauto].
Qed.

Lemma slice_group_id_loop_er_total fuel n w s : 1 <= w -> rok s -> mu_er s < N.of_nat fuel ->
  rep_break_f ER fuel n (rd ER w) s = Err \/
  exists l s', rep_break_f ER fuel n (rd ER w) s = Ok (l, s') /\ rok s' /\
               lenN l + mu_er s' <= mu_er s /\ lenN l <= n.
Proof.
  intros Hw H Hf.
  destruct (er_rep_break_total (mu_er s) (rd ER w)
              (D_rd ER _ mu_er (e_read (mu_er s)) w Hw) fuel n s) as [E|(l & s' & E & [Hi _] & _ & Hl & Hn)];
    [split; [exact H|lia]|exact Hf|left; exact E|right].
  exists l, s'. auto.
Qed.

(* ------------------------------------------------------------------ avc.GetSliceTypeFromNALU *)
Lemma get_slice_type_total data :
  get_slice_type data = Err \/ exists t, get_slice_type data = Ok t /\ t <= 4.
Proof.
  unfold get_slice_type. destruct (lenZ data <=? 1)%Z eqn:Hl; [left; reflexivity|].
  unfold idx. replace ((0 <=? 0) && (0 <? lenZ data))%bool%Z with true by lia.
  destruct data as [|b0 rest]; [unfold lenZ in Hl; cbn [length] in Hl; lia|].
  cbn [Z.to_nat nth_error rbind].
  destruct (negb _); [left; reflexivity|].
  unfold slice. replace ((0 <=? 1) && (1 <=? lenZ (b0 :: rest)) && (lenZ (b0 :: rest) <=? lenZ (b0 :: rest)))%bool%Z with true by lia.
  cbn [rbind].
  destruct (read_ue (rinit _)) as [x s1]. destruct (read_ue s1) as [st s2].
  destruct (9 <? st) eqn:H9; [left; reflexivity|].
  destruct (rerr s2); [left; reflexivity|]. right. eexists. split; [reflexivity|].
  destruct (5 <=? st) eqn:H5; lia.
Qed.
