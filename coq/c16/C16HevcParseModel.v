(* C16HevcParseModel.v — C16's wrappers around the HEVC parameter-set / slice-header parser models of
   coq/c15/C15HevcModel.v (imported READ-ONLY, frozen at /verif commit ad13f0a).  DEFINITIONS ONLY.

   GENERATED from the text of C15HevcModel.v by substitution (the same construction as C16ParseModel.v
   for AVC): C15 caps every data-driven loop by a constant and returns OutOfFuel beyond it
   (rep_until_err_n: count > 2^16; hext_data_loop: ext_fuel = 4096 extension flags; the long-term
   picture loop: `if loop_bound <? nls + nlp then out_of_fuel`), which would make "never OutOfFuel"
   false although the Go loops stop at the first read error.  Here these loops take their fuel from the
   caller (hevc_fuel nalu = 8*|nalu| + 10).  Everything else is C15's text; the definitions that do not
   contain such a loop (profile_tier_level, st_ref_pic_set, scaling-list skipping, VUI/HRD, 3D extension,
   ref_pic_lists_modification, pred_weight_table, byte_alignment, the end-of-data check) are USED from
   C15HevcModel.v, not copied.
   Where C15 has `if mf || df then out_of_fuel` in the PPS (parseMultilayerExtension / parse3dExtension are not
   modelled by C15) this file has its own totality skeletons of the two extension parsers (hparse_pps_ml_d,
   hparse_pps_3d_d): nothing is OutOfFuel on purpose any more.
   Panic: `nth_error sets (idx - didx) = None` in hparse_st_rps (Go: sps.ShortTermRefPicSets[idx-deltaIdx]);
   the proofs show it unreachable from the parsers' own states and for SPS values satisfying hsps_wf. *)
From V.lib Require Import Base.
From V.c13 Require Import C13Model.
From V.c15 Require Import C15Model C15HevcModel.

Section C16HevcParsers.
  Context {St : Type} (R : reader St) (bib : St -> N) (fuel : nat).

  Notation "x <- m ;; k" := (bind m (fun x => k))
    (at level 61, m at next level, right associativity).

  (*  for i := 0; i < n; i++ { body; if r.AccError() != nil { break } }  with a numeric count and fuel *)
  Fixpoint rep_until_err_f {A} (fl : nat) (n : N) (body : @M St A) : @M St (list A) :=
    match fl with
    | O => out_of_fuel
    | S f =>
        if n =? 0 then ret []
        else x <- body ;; e <- get_err R ;;
             if e then ret [x] else t <- rep_until_err_f f (n - 1) body ;; ret (x :: t)
    end.

  (* ================================================================== SPS *)
  Definition hparse_sps_scc_d (chroma bdl bdc : N) : @M St hspsscc :=
    cpr <- rd_flag R ;;
    pm <- rd_flag R ;;
    pal <- (if pm then
              mx <- rd_ue R ;; dl <- rd_ue R ;; pi <- rd_flag R ;;
              ini <- (if pi then
                        nm1 <- rd_ue R ;;
                        luma <- rep_until_err_f fuel (u64 (nm1 + 1)) (rd R (bdl + 8)) ;;
                        chr <- (if chroma =? 0 then ret []
                                else c1 <- rep_until_err_f fuel (u64 (nm1 + 1)) (rd R (bdc + 8)) ;;
                                     c2 <- rep_until_err_f fuel (u64 (nm1 + 1)) (rd R (bdc + 8)) ;;
                                     ret [c1; c2]) ;;
                        ret (nm1, luma :: chr)
                      else ret (0, [])) ;;
              ret (mx, dl, pi, ini)
            else ret (0, 0, false, (0, []))) ;;
    mvr <- rd R 2 ;;
    ibf <- rd_flag R ;;
    let '(mx, dl, pi, (nm1, ini)) := pal in
    ret (mkHSpsScc cpr pm mx dl pi nm1 ini (u8 mvr) ibf).

  Definition hparse_sps_ext_d (chroma bdl bdc : N)
    : @M St (bool * N * bool * option (list bool) * bool * option bool * bool * option hsps3d
         * bool * option hspsscc * list bool) :=
    ep <- rd_flag R ;;
    fl <- (if ep then a <- rd_flag R ;; b <- rd_flag R ;; c <- rd_flag R ;; d <- rd_flag R ;;
                      e <- rd R 4 ;; ret (a, b, c, d, u8 e)
           else ret (false, false, false, false, 0)) ;;
    let '(rf, mf, df, sf, e4) := fl in
    rg <- (if rf then l <- rep 9 (rd_flag R) ;; ret (Some l) else ret None) ;;
    ml <- (if mf then b <- rd_flag R ;; ret (Some b) else ret None) ;;
    d3 <- (if df then x <- hparse_sps_3d R ;; ret (Some x) else ret None) ;;
    sc <- (if sf then x <- hparse_sps_scc_d chroma bdl bdc ;; ret (Some x) else ret None) ;;
    ed <- (if 0 <? e4 then hext_data_loop R fuel [] else ret []) ;;
    ret (ep, e4, rf, rg, mf, ml, df, d3, sf, sc, ed).

  Definition hparse_sps_d : @M St hsps :=
    hdr <- rd R 16 ;;
    if negb (hnalu_type hdr =? 33) then fail else
    vps <- rd R 4 ;;
    ms0 <- rd R 3 ;;
    let ms := u8 ms0 in
    nest <- rd_flag R ;;
    ptl <- hparse_ptl R ms ;;
    id <- rd_ue R ;;
    cf <- rd_ue R ;;
    let chroma := u8 cf in
    sep <- (if chroma =? 3 then rd_flag R else ret false) ;;
    w <- rd_ue R ;;
    h <- rd_ue R ;;
    cwf <- rd_flag R ;;
    cw <- (if cwf then a <- rd_ue R ;; b <- rd_ue R ;; c <- rd_ue R ;; d <- rd_ue R ;;
                       ret (u32 a, u32 b, u32 c, u32 d)
           else ret (0, 0, 0, 0)) ;;
    let '(cl, cr, ct, cb) := cw in
    bdl0 <- rd_ue R ;;
    bdc0 <- rd_ue R ;;
    l2p0 <- rd_ue R ;;
    let bdl := u8 bdl0 in let bdc := u8 bdc0 in let l2p := u8 l2p0 in
    slop <- rd_flag R ;;
    slo <- rep_n (if slop then ms + 1 else 1)
                 (a <- rd_ue R ;; b <- rd_ue R ;; c <- rd_ue R ;; ret (u8 a, u8 b, u8 c)) ;;
    q1 <- rd_ue R ;; q2 <- rd_ue R ;; q3 <- rd_ue R ;; q4 <- rd_ue R ;; q5 <- rd_ue R ;; q6 <- rd_ue R ;;
    sle <- rd_flag R ;;
    sld <- (if sle then
              p <- rd_flag R ;;
              u <- (if p then hskip_scaling_list_data R else ret tt) ;;
              ret p
            else ret false) ;;
    amp <- rd_flag R ;;
    sao <- rd_flag R ;;
    pcm <- rd_flag R ;;
    pc <- (if pcm then a <- rd R 4 ;; b <- rd R 4 ;; c <- rd_ue R ;; d <- rd_ue R ;; e <- rd_flag R ;;
                       ret (u8 a, u8 b, u16 c, u16 d, e)
           else ret (0, 0, 0, 0, false)) ;;
    let '(pa, pb, pc_, pd, pe) := pc in
    nst <- rd_ue R ;;
    if 64 <? nst then fail else
    sets <- hparse_rps_loop R (N.to_nat nst) 0 nst [] ;;
    ltp <- rd_flag R ;;
    lt <- (if ltp then
             n0 <- rd_ue R ;;
             let n := u8 n0 in
             l <- rep_n n (p <- rd R (u8 (l2p + 4)) ;; u <- rd_flag R ;; ret (mkHLt (u16 p) u false 0)) ;;
             ret (n, l)
           else ret (0, [])) ;;
    tmvp <- rd_flag R ;;
    sis <- rd_flag R ;;
    vp <- rd_flag R ;;
    vui <- (if vp then x <- hparse_vui R ms ;; ret (Some x) else ret None) ;;
    e <- get_err R ;;
    if e then fail else
    ext <- hparse_sps_ext_d chroma bdl bdc ;;
    let '(ep, e4, rf, rg, mf, ml, df, d3, sf, sc, ed) := ext in
    hparse_end R
      (mkHSps (u8 vps) ms nest ptl (u8 id) chroma sep cwf (u32 w) (u32 h) cl cr ct cb
              bdl bdc l2p slop slo (u8 q1) (u8 q2) (u8 q3) (u8 q4) (u8 q5) (u8 q6)
              sle sld amp sao pcm pa pb pc_ pd pe (u8 nst) sets ltp (fst lt) (snd lt)
              tmvp sis vp vui ep e4 rf rg mf ml df d3 sf sc ed).

  (* ================================================================== PPS *)
  Definition hparse_pps_range_d (transform_skip : bool) : @M St hppsrange :=
    ts <- (if transform_skip then rd_ue R else ret 0) ;;
    cc <- rd_flag R ;;
    ce <- rd_flag R ;;
    cq <- (if ce then
             d <- rd_ue R ;; l <- rd_ue R ;;
             es <- rep_until_err_f fuel (l + 1) (a <- rd_se R ;; b <- rd_se R ;; ret (i8 a, i8 b)) ;;
             ret (d, l, es)
           else ret (0, 0, [])) ;;
    sl <- rd_ue R ;;
    sc <- rd_ue R ;;
    e <- get_err R ;;
    if e then fail else
    let '(d, l, es) := cq in
    ret (mkHPpsRange ts cc ce d l (map fst es) (map snd es) sl sc).

  Definition hparse_pps_scc_d : @M St hppsscc :=
    cpr <- rd_flag R ;;
    ract <- rd_flag R ;;
    act <- (if ract then p <- rd_flag R ;; a <- rd_se R ;; b <- rd_se R ;; c <- rd_se R ;; ret (p, a, b, c)
            else ret (false, 0%Z, 0%Z, 0%Z)) ;;
    pip <- rd_flag R ;;
    pal <- (if pip then
              n <- rd_ue R ;;
              if 0 <? n then
                mono <- rd_flag R ;;
                lb <- rd_ue R ;;
                cb <- (if negb mono then rd_ue R else ret 0) ;;
                if (8 <? lb) || (8 <? cb) then fail else
                luma <- rep_until_err_f fuel n (rd R (u64 (lb + 8))) ;;
                chr <- (if mono then ret []
                        else c1 <- rep_until_err_f fuel n (rd R (u64 (cb + 8))) ;;
                             c2 <- rep_until_err_f fuel n (rd R (u64 (cb + 8))) ;;
                             ret [c1; c2]) ;;
                ret (n, mono, lb, cb, luma :: chr)
              else ret (n, false, 0, 0, [])
            else ret (0, false, 0, 0, [])) ;;
    e <- get_err R ;;
    if e then fail else
    let '(sp, ay, acb, acr) := act in
    let '(n, mono, lb, cb, ini) := pal in
    ret (mkHPpsScc cpr ract sp ay acb acr pip n mono lb cb ini).

  (* ================================================================== PPS multilayer / 3D extensions
     hevc/pps.go parseMultilayerExtension, parseColourMappingTable, parseColourMappingOctants,
     parse3dExtension, parseDeltaDlt.  C15HevcModel does not model them (`if mf || df then out_of_fuel`).
     The hpps record has no field for their content and ParseSliceHeader does not use it, so these are
     SKELETONS: what is read, in which order and under which conditions, how often every loop runs, where
     the parser gives up (`fail` = a non-nil error returned up to ParsePPSNALUnit); decoded values that only
     end up in the returned structure (and the map keys built from the octant indices) are dropped.
     Integer widths as in Go: uint8(...) = u8, uint = u64, int(uint) = two's complement. *)
  (* int(x) of a uint, and the wrap of int arithmetic *)
  Definition int_of_u64 (x : N) : Z :=
    if u64 x <? 9223372036854775808 then Z.of_N (u64 x) else (Z.of_N (u64 x) - 18446744073709551616)%Z.
  Definition wrap_i64 (z : Z) : Z :=
    ((z + 9223372036854775808) mod 18446744073709551616 - 9223372036854775808)%Z.

  Definition four_se : @M St unit := a <- rd_se R ;; b <- rd_se R ;; c <- rd_se R ;; d <- rd_se R ;; ret tt.
  Definition four_ue : @M St unit := a <- rd_ue R ;; b <- rd_ue R ;; c <- rd_ue R ;; d <- rd_ue R ;; ret tt.

  (* one iteration of `for i := uint(0); i < ext.NumRefLocOffsets; i++` (the map is keyed by the 6-bit id just
     appended: RefLocOffsetLayerIds[i] is the element appended in this iteration) *)
  Definition hml_ref_loc_entry : @M St unit :=
    id <- rd R 6 ;;
    a <- rd_flag R ;; u1 <- (if a then four_se else ret tt) ;;
    b <- rd_flag R ;; u2 <- (if b then four_se else ret tt) ;;
    c <- rd_flag R ;; u3 <- (if c then four_ue else ret tt) ;;
    ret tt.

  (* r.Read(n) for a width n that hostile values can push to 2^63: more bits than the whole NAL unit has (fuel =
     8 * |nalu| + 10) cannot be read; Go's loop `for r.n < n` then consumes what is left, meets EOF, sets the
     accumulated error and returns 0.  The model says so directly instead of iterating over n / 8 absent bytes
     (the C13 reader model takes its fuel, a unary number, from n). *)
  Definition rd_wide (n : N) : @M St N :=
    if N.of_nat fuel <? n then u <- set_err R ;; ret 0 else rd R n.

  (* CodedRes[c]: res_coeff_q ue(v), res_coeff_r u(resLsBits), res_coeff_s if one of them is non-zero *)
  Definition hoct_coeff (res_ls_bits : N) : @M St unit :=
    q <- rd_ue R ;; r <- rd_wide res_ls_bits ;;
    if negb (q =? 0) || negb (r =? 0) then x <- rd_flag R ;; ret tt else ret tt.
  Definition hoct_entry (res_ls_bits : N) : @M St unit :=
    f <- rd_flag R ;; if f then l <- rep 3 (hoct_coeff res_ls_bits) ;; ret tt else ret tt.
  Definition hoct_leaf (part_num_y res_ls_bits : N) : @M St unit :=
    l <- rep (N.to_nat part_num_y) (rep 4 (hoct_entry res_ls_bits)) ;; ret tt.

  (* parseColourMappingOctants: d = octantDepth - inpDepth (the recursion splits only while inpDepth < octantDepth);
     an error of a recursive call is returned at once (the monad's Err), and every call ends with
     `if r.AccError() != nil { return octs, r.AccError() }` *)
  Fixpoint hoctants (d : nat) (part_num_y res_ls_bits : N) : @M St unit :=
    match d with
    | O =>
        u <- hoct_leaf part_num_y res_ls_bits ;;
        e <- get_err R ;; if e then fail else ret tt
    | S d' =>
        split <- rd_flag R ;;
        u <- (if split then l <- rep 8 (hoctants d' part_num_y res_ls_bits) ;; ret tt
              else hoct_leaf part_num_y res_ls_bits) ;;
        e <- get_err R ;; if e then fail else ret tt
    end.

  (* parseColourMappingTable *)
  Definition hparse_cm_table : @M St unit :=
    n <- rd_ue R ;;
    (* for i := uint8(0); i <= n8; i++ { Read(6); if AccError != nil || i == 255 { break } }: n8 + 1 <= 256 rounds *)
    ids <- rep_until_err_f fuel (u8 n + 1) (rd R 6) ;;
    od <- rd R 2 ;; yp <- rd R 2 ;;
    lin <- rd_ue R ;; cin <- rd_ue R ;; lout <- rd_ue R ;; cout <- rd_ue R ;;
    rq <- rd R 2 ;; dfb <- rd R 2 ;;
    th <- (if u8 od =? 1 then a <- rd_se R ;; b <- rd_se R ;; ret tt else ret tt) ;;
    let res0 := wrap_i64 (10 + int_of_u64 (lin + 8) - int_of_u64 (lout + 8) - Z.of_N (u8 rq) - Z.of_N (u8 (u8 dfb + 1))) in
    let res_ls_bits := if (res0 <? 0)%Z then 0 else Z.to_N res0 in
    u <- hoctants (N.to_nat (u8 od)) (2 ^ u8 yp) res_ls_bits ;;
    e <- get_err R ;; if e then fail else ret tt.

  (* parseMultilayerExtension *)
  Definition hparse_pps_ml_d : @M St unit :=
    poc <- rd_flag R ;;
    inf <- rd_flag R ;;
    sl <- (if inf then rd R 6 else ret 0) ;;
    n <- rd_ue R ;;
    offs <- rep_until_err_f fuel n hml_ref_loc_entry ;;
    cm <- rd_flag R ;;
    u <- (if cm then hparse_cm_table else ret tt) ;;
    e <- get_err R ;; if e then fail else ret tt.

  (* parseDeltaDlt(r, w): w = pps_bit_depth_for_depth_layers_minus8 + 8.  The last loop reads
     Ceil(Log2(max_diff - minDiff + 1)) bits per entry; that width is 0 only if the uint expression wraps to 0 or 1,
     which needs max_diff = 2^64 - 1 (no w-bit read returns that; the abstract reader interface does not bound
     read values, so the case is kept): Go would then make num - 1 reads of 0 bits, which leave the reader as it is *)
  Definition hparse_delta_dlt (w : N) : @M St unit :=
    num0 <- rd R w ;;
    let num := u64 num0 in
    u <- (if 0 <? num then
            maxd0 <- (if 1 <? num then rd R w else ret 0) ;;
            let maxd := u64 maxd0 in
            mind0 <- (if (2 <? num) && (0 <? maxd) then rd R (ceil_log2 (u64 (maxd + 1)))
                      else ret (u64 (maxd + 18446744073709551615))) ;;
            let min1 := u64 (u64 mind0 + 1) in
            v0 <- rd R w ;;
            if min1 <? maxd then
              let wd := ceil_log2 (u64 (u64 (maxd + 18446744073709551616 - min1) + 1)) in
              if wd =? 0 then ret tt
              else l <- rep_until_err_f fuel (num - 1) (rd R wd) ;; ret tt
            else ret tt
          else ret tt) ;;
    e <- get_err R ;; if e then fail else ret tt.

  (* one depth layer of parse3dExtension *)
  Definition hparse_depth_layer (bd : N) : @M St unit :=
    dlt <- rd_flag R ;;
    if dlt then
      pred <- rd_flag R ;;
      vf <- (if negb pred then rd_flag R else ret false) ;;
      if vf then
        (* for j := 0; j <= depthMaxValue; j++ { ReadFlag; break on error }: 2^(bd+8) rounds at most *)
        l <- rep_until_err_f fuel (2 ^ (u8 (bd + 8))) (rd_flag R) ;; ret tt
      else hparse_delta_dlt (u8 (bd + 8))
    else ret tt.

  (* parse3dExtension *)
  Definition hparse_pps_3d_d : @M St unit :=
    dlts <- rd_flag R ;;
    u <- (if dlts then
            n <- rd R 6 ;;
            bd <- rd R 4 ;;
            l <- rep_until_err_f fuel (u8 n + 1) (hparse_depth_layer (u8 bd)) ;; ret tt
          else ret tt) ;;
    e <- get_err R ;; if e then fail else ret tt.

  Definition hparse_pps_d (spsmap : N -> bool) : @M St hpps :=
    hdr <- rd R 16 ;;
    if negb (hnalu_type hdr =? 34) then fail else
    id <- rd_ue R ;;
    sid <- rd_ue R ;;
    if negb (spsmap (u32 sid)) then fail else
    dep <- rd_flag R ;;
    ofp <- rd_flag R ;;
    neb <- rd R 3 ;;
    sdh <- rd_flag R ;;
    cip <- rd_flag R ;;
    l0 <- rd_ue R ;;
    l1 <- rd_ue R ;;
    iqp <- rd_se R ;;
    cintra <- rd_flag R ;;
    tskip <- rd_flag R ;;
    cuqp <- rd_flag R ;;
    dcq <- (if cuqp then rd_ue R else ret 0) ;;
    cbq <- rd_se R ;;
    crq <- rd_se R ;;
    scq <- rd_flag R ;;
    wp <- rd_flag R ;;
    wb <- rd_flag R ;;
    tqb <- rd_flag R ;;
    tiles <- rd_flag R ;;
    ecs <- rd_flag R ;;
    tl <- (if tiles then
             nc <- rd_ue R ;; nr <- rd_ue R ;; un <- rd_flag R ;;
             wh <- (if negb un then
                      ws <- rep_until_err_f fuel nc (rd_ue R) ;;
                      hs <- rep_until_err_f fuel nr (rd_ue R) ;;
                      ret (ws, hs)
                    else ret ([], [])) ;;
             lft <- rd_flag R ;;
             ret (nc, nr, un, wh, lft)
           else ret (0, 0, false, ([], []), false)) ;;
    let '(nc, nr, un, (ws, hs), lft) := tl in
    lfs <- rd_flag R ;;
    dbc <- rd_flag R ;;
    db <- (if dbc then
             ov <- rd_flag R ;; dis <- rd_flag R ;;
             bt <- (if negb dis then a <- rd_se R ;; b <- rd_se R ;; ret (i8 a, i8 b) else ret (0%Z, 0%Z)) ;;
             ret (ov, dis, bt)
           else ret (false, false, (0%Z, 0%Z))) ;;
    let '(dov, ddis, (beta, tc)) := db in
    sld <- rd_flag R ;;
    u0 <- (if sld then hskip_scaling_list_data R else ret tt) ;;
    lm <- rd_flag R ;;
    pml <- rd_ue R ;;
    she <- rd_flag R ;;
    ep <- rd_flag R ;;
    fl <- (if ep then a <- rd_flag R ;; b <- rd_flag R ;; c <- rd_flag R ;; d <- rd_flag R ;;
                      e <- rd R 4 ;; ret (a, b, c, d, u8 e)
           else ret (false, false, false, false, 0)) ;;
    let '(rf, mf, df, sf, e4) := fl in
    e <- get_err R ;;
    if e then fail else
    rg <- (if rf then x <- hparse_pps_range_d tskip ;; ret (Some x) else ret None) ;;
    (* `if pps.MultilayerExtensionFlag { ... }  if pps.D3ExtensionFlag { ... }` (skeletons above; C15: out_of_fuel) *)
    xu <- (if mf || df then
             u1 <- (if mf then hparse_pps_ml_d else ret tt) ;;
             (if df then hparse_pps_3d_d else ret tt)
           else ret tt) ;;
    sc <- (if sf then x <- hparse_pps_scc_d ;; ret (Some x) else ret None) ;;
    ed <- (if 0 <? e4 then hext_data_loop R fuel [] else ret []) ;;
    hparse_end R
      (mkHPps (u32 id) (u32 sid) dep ofp (u8 neb) sdh cip (u8 l0) (u8 l1) (i8 iqp) cintra tskip cuqp dcq
              (i8 cbq) (i8 crq) scq wp wb tqb tiles ecs nc nr un ws hs lft lfs dbc dov ddis beta tc
              sld lm pml she ep rf rg mf df sf sc e4 ed).

  (* ================================================================== slice segment header *)
  Fixpoint hlt_loop_f (fl : nat) (cnt : N) (i nlsps : N) (sp : hsps) (acc : list hlt) (npt : N) : @M St (list hlt * N) :=
    match fl with
    | O => out_of_fuel
    | S c => if cnt =? 0 then ret (acc, npt) else
        lt0 <- (if i <? nlsps then
                  if 1 <? h_num_lt sp then
                    ix <- rd R (ceil_log2 (h_num_lt sp)) ;;
                    match nth_error (h_lt sp) (N.to_nat ix) with
                    | None => fail                          (* "lt_idx_sps > num_long_term_ref_pics_sps" *)
                    | Some l => ret l
                    end
                  else
                    (* repaired text (fix commit, see known_findings/C15.json): lt_idx_sps is inferred 0 *)
                    match nth_error (h_lt sp) 0 with
                    | None => fail
                    | Some l => ret l
                    end
                else
                  p <- rd R (u8 (h_log2_poc sp + 4)) ;; u <- rd_flag R ;; ret (mkHLt (u16 p) u false 0)) ;;
        let npt1 := if lt_used lt0 then u8 (npt + 1) else npt in
        msb <- rd_flag R ;;
        cyc <- (if msb then rd_ue R else ret 0) ;;
        let lt := mkHLt (lt_poc_lsb lt0) (lt_used lt0) msb cyc in
        e <- get_err R ;;
        if e then ret (acc ++ [lt], npt1) else hlt_loop_f c (cnt - 1) (i + 1) nlsps sp (acc ++ [lt]) npt1
    end.

  Definition hparse_slice_main_d (nt : N) (sp : hsps) (pp : hpps) :=
    let cat := if h_sep_plane sp && (h_chroma sp =? 3) then 0 else h_chroma sp in
    let cat_nz := negb (cat =? 0) in
    let idr := (nt =? 19) || (nt =? 20) in
    xs <- rep_n (pp_num_extra_bits pp) (rd_flag R) ;;
    st <- rd_ue R ;;
    pof <- (if pp_output_flag_present pp then rd_flag R else ret false) ;;
    cpl <- (if h_sep_plane sp then x <- rd R 2 ;; ret (u8 x) else ret 0) ;;
    rf <- (if negb idr then
             poc <- rd R (u8 (h_log2_poc sp + 4)) ;;
             stf <- rd_flag R ;;
             rp <- (if negb stf then
                      r <- hparse_st_rps R (h_num_st_rps sp) (h_num_st_rps sp) (h_st_rps sp) ;;
                      e <- get_err R ;;
                      if e then fail else ret (r, 0)
                    else if 1 <? h_num_st_rps sp then
                      ix <- rd R (ceil_log2 (h_num_st_rps sp)) ;;
                      match nth_error (h_st_rps sp) (N.to_nat (u8 ix)) with
                      | None => fail
                      | Some r => ret (r, u8 ix)
                      end
                    else
                      (* repaired text (fix commit): with one set in the SPS short_term_ref_pic_set_idx is inferred 0 *)
                      match nth_error (h_st_rps sp) 0 with
                      | None => ret (hrps_zero, 0)
                      | Some r => ret (r, 0)
                      end) ;;
             let npt0 := hcount_in_use (fst rp) in
             lt <- (if h_lt_present sp then
                      nls <- (if 0 <? h_num_lt sp then x <- rd_ue R ;; ret (u8 x) else ret 0) ;;
                      nlp <- rd_ue R ;;
                      r <- hlt_loop_f fuel (u64 (nls + nlp)) 0 nls sp [] npt0 ;;
                      ret (nls, nlp, fst r, snd r)
                    else ret (0, 0, [], npt0)) ;;
             tm <- (if h_tmvp sp then rd_flag R else ret false) ;;
             let '(nls, nlp, lts, npt) := lt in
             ret (u16 poc, stf, fst rp, snd rp, (nls, nlp, lts), tm, npt)
           else ret (0, false, hrps_zero, 0, (0, 0, []), false, 0)) ;;
    let '(poc, stf, rps, stidx, ltinfo, tmvp, npt) := rf in
    sao <- (if h_sao sp then
              a <- rd_flag R ;; b <- (if cat_nz then rd_flag R else ret false) ;; ret (a, b)
            else ret (false, false)) ;;
    let is_p := st =? 1 in
    let is_b := st =? 0 in
    inter <- (if is_p || is_b then
                ov <- rd_flag R ;;
                nr <- (if ov then
                         a <- rd_ue R ;;
                         b <- (if is_b then x <- rd_ue R ;; ret (u8 x) else ret (pp_l1 pp)) ;;
                         ret (u8 a, b)
                       else ret (pp_l0 pp, pp_l1 pp)) ;;
                let '(l0, l1) := nr in
                if (14 <? l0) || (14 <? l1) then fail else
                rplm <- (if pp_lists_mod pp then
                           let npt1 := match pp_scc pp with
                                       | Some sc => if ps_curr_pic_ref sc then u8 (npt + 1) else npt
                                       | None => npt
                                       end in
                           if 1 <? npt1 then x <- hparse_rplm R is_b l0 l1 npt1 ;; ret (Some x)
                           else ret None
                         else ret None) ;;
                mvd <- (if is_b then rd_flag R else ret false) ;;
                cab <- (if pp_cabac_init_present pp then rd_flag R else ret false) ;;
                col <- (if tmvp then
                          cf <- (if is_b then rd_flag R else ret true) ;;
                          ci <- (if (cf && (0 <? l0)) || (negb cf && (0 <? l1))
                                 then x <- rd_ue R ;; ret (u8 x) else ret 0) ;;
                          ret (cf, ci)
                        else ret (true, 0)) ;;
                pw <- (if (pp_weighted_pred pp && is_p) || (pp_weighted_bipred pp && is_b)
                       then x <- hparse_pwt R is_b cat_nz l0 l1 ;; ret (Some x) else ret None) ;;
                fm <- rd_ue R ;;
                im <- (match h_scc sp with
                       | Some sc => if ss_mv_res_idc sc =? 2 then rd_flag R else ret false
                       | None => ret false
                       end) ;;
                ret (ov, l0, l1, rplm, mvd, cab, fst col, snd col, pw, u8 fm, im)
              else ret (false, 0, 0, None, false, false, true, 0, None, 0, false)) ;;
    qpd <- rd_se R ;;
    cq <- (if pp_slice_chroma_qp_present pp then a <- rd_se R ;; b <- rd_se R ;; ret (i8 a, i8 b)
           else ret (0%Z, 0%Z)) ;;
    aq <- (match pp_scc pp with
           | Some sc => if ps_slice_act_qp_present sc
                        then a <- rd_se R ;; b <- rd_se R ;; c <- rd_se R ;; ret (i8 a, i8 b, i8 c)
                        else ret (0%Z, 0%Z, 0%Z)
           | None => ret (0%Z, 0%Z, 0%Z)
           end) ;;
    ccq <- (match pp_range pp with
            | Some rg => if pr_cqp_list_enabled rg then rd_flag R else ret false
            | None => ret false
            end) ;;
    dov <- (if pp_dbf_override_enabled pp then rd_flag R else ret false) ;;
    (* repaired text (fix commit): slice_deblocking_filter_disabled_flag is inferred from the PPS *)
    db <- (if dov then
             dis <- rd_flag R ;;
             bt <- (if negb dis then a <- rd_se R ;; b <- rd_se R ;; ret (i8 a, i8 b) else ret (0%Z, 0%Z)) ;;
             ret (dis, bt)
           else ret (pp_dbf_disabled pp, (0%Z, 0%Z))) ;;
    let '(ddis, (beta, tc)) := db in
    lfa <- (if pp_lf_across_slices pp && (fst sao || snd sao || negb ddis) then rd_flag R else ret false) ;;
    let '(acy, acb, acr) := aq in
    ret (st, pof, cpl, poc, stf, rps, stidx, ltinfo, tmvp, sao, inter,
         (qpd, fst cq, snd cq, acy, acb, acr, ccq), (dov, ddis, beta, tc, lfa)).

  Definition hparse_slice_d (spsmap : N -> option hsps) (ppsmap : N -> option hpps) : @M St hslice :=
    hdr <- rd R 16 ;;
    let nt := hnalu_type hdr in
    first <- rd_flag R ;;
    nop <- (if (16 <=? nt) && (nt <=? 23) then rd_flag R else ret false) ;;
    ppsid <- rd_ue R ;;
    match ppsmap (u32 ppsid) with
    | None => fail
    | Some pp =>
    match spsmap (pp_sps_id pp) with
    | None => fail
    | Some sp =>
    seg <- (if negb first then
              dep <- (if pp_dep_slices pp then rd_flag R else ret false) ;;
              let shift := u8 (h_log2_min_cb sp + 3 + h_log2_diff_cb sp) in
              let ctb := if shift <? 64 then 2 ^ shift else 0 in
              if ctb =? 0 then fail else
              let size := u64 (ceil_div (h_width sp) ctb * ceil_div (h_height sp) ctb) in
              a <- rd R (ceil_log2 size) ;;
              ret (dep, a)
            else ret (false, 0)) ;;
    let '(dep, addr) := seg in
    mn <- (if negb dep then hparse_slice_main_d nt sp pp else ret hslice_main_zero) ;;
    let '(st, pof, cpl, poc, stf, rps, stidx, (nls, nlp, lts), tmvp, (saol, saoc),
          (ov, l0, l1, rplm, mvd, cab, cfl0, cri, pw, fm, im),
          (qpd, cbq, crq, acy, acb, acr, ccq), (dov, ddis, beta, tc, lfa)) := mn in
    ep <- (if pp_tiles pp || pp_entropy_sync pp then
             n <- rd_ue R ;;
             if 0 <? n then
               olm <- rd_ue R ;;
               if 31 <? olm then fail else
               es <- rep_until_err_f fuel n (x <- rd R (u8 olm + 1) ;; ret (u32 x)) ;;
               ret (n, u8 olm, es)
             else ret (n, 0, [])
           else ret (0, 0, [])) ;;
    let '(nep, olm, eps) := ep in
    ex <- (if pp_slice_ext_present pp then
             l <- rd_ue R ;;
             bs <- rep_n (u16 l) (x <- rd R 8 ;; ret (u8 x)) ;;
             ret (u16 l, bs)
           else ret (0, [])) ;;
    ab <- rd_flag R ;;
    if negb ab then fail else
    u0 <- halign_loop R bib 9 ;;
    e <- get_err R ;;
    if e then fail else
    nb <- get_nbytes R ;;
    ret (mkHSlice st first nop (u32 ppsid) dep addr pof cpl poc stf rps stidx nls nlp lts tmvp saol saoc
                  ov l0 l1 rplm mvd cab cfl0 cri pw fm im qpd cbq crq acy acb acr ccq dov ddis beta tc lfa
                  nep olm eps (fst ex) (snd ex) (u32 nb))
    end end.

End C16HevcParsers.

Definition hevc_fuel (nalu : list N) : nat := S (S (8 * length nalu + 8)).

Definition c16_hparse_sps (nalu : list N) : res hsps :=
  run (hparse_sps_d ER (hevc_fuel nalu)) (rinit nalu).
Definition c16_hparse_pps (spsmap : N -> bool) (nalu : list N) : res hpps :=
  run (hparse_pps_d ER (hevc_fuel nalu) spsmap) (rinit nalu).
Definition c16_hparse_slice (spsmap : N -> option hsps) (ppsmap : N -> option hpps) (nalu : list N) : res hslice :=
  run (hparse_slice_d ER er_bib (hevc_fuel nalu) spsmap ppsmap) (rinit nalu).

(* maps built from lists of parsed sets (Go: map filled in order, later entries overwrite) *)
Definition hsps_lookup (l : list hsps) (id : N) : option hsps :=
  fold_left (fun acc s => if h_sps_id s =? id then Some s else acc) l None.
Definition hpps_lookup (l : list hpps) (id : N) : option hpps :=
  fold_left (fun acc p => if pp_id p =? id then Some p else acc) l None.
Definition hsps_has (l : list hsps) (id : N) : bool :=
  match hsps_lookup l id with Some _ => true | None => false end.

(* ---- well-formedness of parameter sets handed to the slice-header parser (boolean; what the parsers
   themselves guarantee of their results, C16HevcErProofs.v): the SPS lists at least the announced number of
   short-term reference picture sets and every NumDeltaPocs is below 255 (Go: `for j := byte(0); j <= numDeltaPocs; j++`
   does not terminate for 255; the model's rep_n (NumDeltaPocs + 1) is that loop for NumDeltaPocs <= 254);
   num_extra_slice_header_bits is a uint8 *)
Definition hsps_wfb (sp : hsps) : bool :=
  (h_num_st_rps sp <=? lenN (h_st_rps sp)) && forallb (fun r => rps_ndelta r <=? 254) (h_st_rps sp).
Definition hpps_wfb (pp : hpps) : bool := pp_num_extra_bits pp <=? 255.

(* the pipeline of mp4ff-nallister / the harness target hevc.ParsePSAndSlice: a hostile SPS and PPS are
   parsed and added to the reference sets, then the slice header is parsed against both maps. *)
Definition hevc_ps_and_slice (cs : list hsps) (cp : list hpps) (a b rest : list N) : res hslice :=
  let spss := cs ++ (match c16_hparse_sps a with Ok s => [s] | _ => [] end) in
  let ppss := cp ++ (match c16_hparse_pps (hsps_has spss) b with Ok p => [p] | _ => [] end) in
  c16_hparse_slice (hsps_lookup spss) (hpps_lookup ppss) rest.
