(* C16SeiStrProofs.v — the Payload methods that fill a fixed buffer never slice out of range and produce what the C17
   models produce; the String methods of every decoded pass-through message render at most 4 bytes per payload byte
   plus a constant.  No axioms. *)
From V.lib Require Import Base.
From V.c17 Require Import C17TypedModel.
From V.c16 Require Import C16AuxModel C16AuxSeiProofs C16SeiStrModel.

Lemma mdcv_payload_p_ok m : mdcv_payload_p m = Ok (mdcv_payload m) /\ lenN (mdcv_payload m) = 24.
Proof. split; reflexivity. Qed.

Lemma cll_payload_p_ok m : cll_payload_p m = Ok (cll_payload m) /\ lenN (cll_payload m) = 4.
Proof. split; reflexivity. Qed.

(* decode, then Payload: every payload *)
Lemma mdcv_decode_payload_total p :
  mdcv_decode_p p = Err \/ exists m, mdcv_decode_p p = Ok m /\ mdcv_payload_p m = Ok (mdcv_payload m).
Proof.
  destruct (mdcv_decode_p_total p) as [_ [E|(m & E)]]; [left; exact E|right].
  exists m. split; [exact E|apply mdcv_payload_p_ok].
Qed.

Lemma cll_decode_payload_total p :
  cll_decode_p p = Err \/ exists m, cll_decode_p p = Ok m /\ cll_payload_p m = Ok (cll_payload m).
Proof.
  destruct (cll_decode_p_total p) as [_ [E|(m & E)]]; [left; exact E|right].
  exists m. split; [exact E|apply cll_payload_p_ok].
Qed.

Lemma pslice_len {A} (l : list A) lo hi s : pslice l lo hi = Ok s -> lenN s <= lenN l.
Proof.
  unfold pslice. destruct ((0 <=? lo) && (lo <=? hi) && (hi <=? lenZ l))%Z; [|discriminate].
  intros E. inversion E. unfold lenN. rewrite firstn_length, skipn_length. lia.
Qed.

Lemma decode_registered_kind pl m t : decode_registered_p pl = Ok (m, t) ->
  ps_kind m = KRegistered \/ exists f1 f2, ps_kind m = KCea608 f1 f2.
Proof.
  unfold decode_registered_p. destruct (lenZ pl <? 8)%Z; [discriminate|]. cbv iota.
  repeat (match goal with |- context [rbind ?x _] => destruct x; cbn [rbind]; try discriminate end);
  repeat (match goal with |- context [match ?v with pair _ _ => _ end] => destruct v end);
  match goal with |- context [if ?c then _ else _] => destruct c | _ => idtac end;
  intros X; inversion X; subst; cbn [ps_kind]; eauto.
Qed.

(* String of whatever DecodeUserDataRegisteredSEI returns (RegisteredSEI or CEA608sei) *)
Lemma registered_string_total pl :
  decode_registered_p pl = Err \/
  exists m t c, decode_registered_p pl = Ok (m, t) /\ pass_string_cost m = Ok c /\ c <= 2 * lenN pl + 200.
Proof.
  destruct (decode_registered_p_total pl) as [E|(m & t & E & Hp & Ht & H3 & Hk)]; [left; exact E|right].
  exists m, t. unfold pass_string_cost.
  destruct (decode_registered_kind pl m t E) as [K|(f1 & f2 & K)]; rewrite K in *.
  - eexists. split; [exact E|]. split; [reflexivity|]. unfold registered_string_cost, int_w. lia.
  - eexists. split; [exact E|]. split; [reflexivity|]. unfold cea608_string_cost, int_w. lia.
Qed.

(* String of whatever DecodeUserDataUnregisteredSEI returns: payload[16:] is in range, the text is at most
   4 |payload| + 200 bytes *)
Lemma unregistered_string_total pl :
  decode_unregistered_p pl = Err \/
  exists m c, decode_unregistered_p pl = Ok m /\ pass_string_cost m = Ok c /\ c <= 4 * lenN pl + 200.
Proof.
  destruct (decode_unregistered_p_total pl) as [E|(m & E & Hp & (s & Hs) & Hk)]; [left; exact E|right].
  exists m. unfold pass_string_cost. destruct (ps_kind m) as [|f1 f2|u|] eqn:K; try contradiction.
  rewrite Hs. cbn [rbind]. eexists. split; [exact E|]. split; [reflexivity|].
  unfold unregistered_string_accesses in Hs. apply pslice_len in Hs. rewrite Hp in Hs.
  unfold unregistered_string_cost, int_w. lia.
Qed.

(* String of an undecoded message (SEIData.String), for every payload: linear *)
Lemma sei_data_string_bound pl : sei_data_string_cost pl <= 2 * lenN pl + 100.
Proof. unfold sei_data_string_cost, int_w. lia. Qed.
