(* C16AuxSeiProofs.v — totality of the typed SEI decoders (C17 models, imported read-only) and of the
   partial-indexing wrappers of C16AuxModel.v:
     - the wrappers (`_p`: Go's index / slice expressions as PARTIAL operations) never return Panic, for
       every payload, and return exactly what the C17 model returns (so the C17 correspondence and
       round-trip theorems carry over to them);
     - DecodeTimeCodeSEI / DecodePicTimingAvcSEIHRD (no index or slice expression in the Go text: all
       reads go through bits.Reader over an io.Reader; shift counts are non-negative) return Ok or Err
       with at most 3 clocks, for every payload and every external parameter;
     - the index accesses of TimeCodeSEI.String (repaired text) and PicTimingAvcSEI.String are in range
       for every decoded value; the pinned TimeCodeSEI.String is refuted.
   No axioms. *)
From V.lib Require Import Base.
From V.c13 Require Import C13Model C13Bits.
From V.c17 Require Import C17Spec C17Model C17TypedModel.
From V.c16 Require Import C16AuxModel.

(* ------------------------------------------------------------------ Ok-or-Err *)
Definition okerr {A} (r : res A) : Prop :=
  match r with Ok _ => True | Err => True | Panic => False | OutOfFuel => False end.

Lemma okerr_inv {A} (r : res A) : okerr r -> r = Err \/ exists a, r = Ok a.
Proof. destruct r; cbn; intros H; try contradiction; eauto. Qed.

Lemma okerr_bind {A B} (r : res A) (f : A -> res B) :
  okerr r -> (forall a, okerr (f a)) -> okerr (rbind r f).
Proof. destruct r; cbn; intros H Hf; try contradiction; auto. Qed.

Lemma okerr_rmap {A B} (g : A -> B) (r : res A) : okerr (rmap g r) <-> okerr r.
Proof. destruct r; cbn; tauto. Qed.

(* ------------------------------------------------------------------ partial primitives in range *)
Lemma lenZ_lenN {A} (l : list A) : lenZ l = Z.of_N (lenN l).
Proof. unfold lenZ, lenN. lia. Qed.

Lemma pidx_ok {A} (l : list A) (i : Z) (d : A) :
  (0 <= i < lenZ l)%Z -> pidx l i = Ok (nth (Z.to_nat i) l d).
Proof.
  intros H. unfold pidx.
  replace ((0 <=? i) && (i <? lenZ l))%Z with true by (symmetry; apply andb_true_iff; split; lia).
  rewrite (nth_error_nth' l d) by (unfold lenZ in H; lia). reflexivity.
Qed.

Lemma pidx_ok_ex {A} (l : list A) (i : Z) :
  (0 <= i < lenZ l)%Z -> exists x, pidx l i = Ok x.
Proof.
  intros H. destruct l as [|d t]; [unfold lenZ in H; cbn in H; lia|].
  eexists. apply (pidx_ok _ _ d H).
Qed.

Lemma pslice_ok {A} (l : list A) (lo hi : Z) :
  (0 <= lo <= hi)%Z -> (hi <= lenZ l)%Z ->
  pslice l lo hi = Ok (firstn (Z.to_nat (hi - lo)) (skipn (Z.to_nat lo) l)).
Proof.
  intros H1 H2. unfold pslice.
  replace ((0 <=? lo) && (lo <=? hi) && (hi <=? lenZ l))%Z with true; [reflexivity|].
  symmetry. rewrite !andb_true_iff. repeat split; lia.
Qed.

Lemma pslice_to_end {A} (l : list A) (lo : Z) :
  (0 <= lo <= lenZ l)%Z -> pslice l lo (lenZ l) = Ok (skipn (Z.to_nat lo) l).
Proof.
  intros H. rewrite pslice_ok by lia. f_equal. apply firstn_all2.
  rewrite skipn_length. unfold lenZ. lia.
Qed.

Lemma be16_p_firstn l : (2 <= length l)%nat -> be16_p (firstn 2 l) = Ok (be_val (firstn 2 l) 0).
Proof. destruct l as [|x [|y t]]; cbn [length]; intros H; try lia. reflexivity. Qed.

Lemma be32_p_firstn l : (4 <= length l)%nat -> be32_p (firstn 4 l) = Ok (be_val (firstn 4 l) 0).
Proof. destruct l as [|x [|y [|z [|w t]]]]; cbn [length]; intros H; try lia. reflexivity. Qed.

(* ================================================================== ParseCEA608 *)
Definition rtick {A} (r : res A) (t : N) : res (A * N) := rmap (fun a => (a, t)) r.

Lemma okerr_cea608_loop k : forall pl pos f1 f2, okerr (cea608_loop k pl pos f1 f2).
Proof.
  induction k as [|k IH]; intros pl pos f1 f2; cbn [cea608_loop]; [exact I|].
  destruct (length pl <? pos + 3)%nat; [exact I|].
  repeat match goal with |- okerr (if ?b then _ else _) => destruct b end; apply IH.
Qed.

(* the wrapper's loop = the C17 loop, with k iterations counted *)
Lemma cea608_loop_p_spec k : forall pl pos f1 f2 t,
  cea608_loop_p k pl (Z.of_nat pos) f1 f2 t = rtick (cea608_loop k pl pos f1 f2) (t + N.of_nat k).
Proof.
  induction k as [|k IH]; intros pl pos f1 f2 t; cbn [cea608_loop_p cea608_loop].
  - unfold rtick, rmap. repeat f_equal. lia.
  - replace (lenZ pl <? Z.of_nat pos + 3)%Z with (length pl <? pos + 3)%nat
      by (unfold lenZ; destruct (Nat.ltb_spec (length pl) (pos + 3)); symmetry; [apply Z.ltb_lt|apply Z.ltb_ge]; lia).
    destruct (Nat.ltb_spec (length pl) (pos + 3)) as [Hlt|Hge]; [reflexivity|].
    rewrite (pidx_ok pl (Z.of_nat pos) 0) by (unfold lenZ; lia).
    rewrite (pidx_ok pl (Z.of_nat pos + 1) 0) by (unfold lenZ; lia).
    rewrite (pidx_ok pl (Z.of_nat pos + 2) 0) by (unfold lenZ; lia).
    cbn [rbind].
    replace (Z.to_nat (Z.of_nat pos)) with pos by lia.
    replace (Z.to_nat (Z.of_nat pos + 1)) with (pos + 1)%nat by lia.
    replace (Z.to_nat (Z.of_nat pos + 2)) with (pos + 2)%nat by lia.
    replace (Z.of_nat pos + 3)%Z with (Z.of_nat (pos + 3)) by lia.
    replace (t + N.of_nat (S k)) with (t + 1 + N.of_nat k) by lia.
    unfold nthb.
    repeat match goal with |- context [if ?b then _ else _] => destruct b end; apply IH.
Qed.

(* every Ok result ran k iterations over k complete 3-byte triples and appended at most 2k bytes *)
Lemma cea608_loop_bounds k : forall pl pos f1 f2 a b,
  cea608_loop k pl pos f1 f2 = Ok (a, b) ->
  (k = O \/ pos + 3 * k <= length pl)%nat /\ (length a + length b <= length f1 + length f2 + 2 * k)%nat.
Proof.
  induction k as [|k IH]; intros pl pos f1 f2 a b; cbn [cea608_loop].
  - intros H. injection H as <- <-. split; [left; reflexivity|lia].
  - destruct (Nat.ltb_spec (length pl) (pos + 3)) as [Hlt|Hge]; [discriminate|].
    intros H.
    assert (Hgen : exists g1 g2, cea608_loop k pl (pos + 3) g1 g2 = Ok (a, b) /\
                                 (length g1 + length g2 <= length f1 + length f2 + 2)%nat).
    { repeat match type of H with context [if ?c then _ else _] => destruct c end;
        eexists _, _; (split; [exact H|]); rewrite ?app_length; cbn [length]; lia. }
    destruct Hgen as (g1 & g2 & Hg & Hl). destruct (IH _ _ _ _ _ _ Hg) as ([->|Hk] & Hb); split; try lia.
Qed.

Lemma parse_cea608_p_spec pl :
  parse_cea608_p pl = rtick (parse_cea608 pl) (N.land (nthb pl 0) 31).
Proof.
  unfold parse_cea608_p, parse_cea608. destruct pl as [|b t]; [reflexivity|].
  replace (lenZ (b :: t) =? 0)%Z with false by (symmetry; apply Z.eqb_neq; unfold lenZ; cbn [length]; lia).
  rewrite (pidx_ok (b :: t) 0 0) by (unfold lenZ; cbn [length]; lia). cbn [rbind Z.to_nat nth nthb].
  change 2%Z with (Z.of_nat 2). rewrite cea608_loop_p_spec. f_equal. lia.
Qed.

Lemma land31_le x : N.land x 31 <= 31.
Proof. change 31 with (N.ones 5) at 1. rewrite N.land_ones. pose proof (N.mod_lt x (2 ^ 5)). change (2 ^ 5) with 32 in *. lia. Qed.

(* ParseCEA608: every payload; Ok or Err; at most 31 iterations, 3 bytes of input per iteration,
   at most 2 output bytes per iteration *)
Lemma parse_cea608_p_total pl :
  rmap fst (parse_cea608_p pl) = parse_cea608 pl /\
  (parse_cea608_p pl = Err \/
   exists f1 f2 t, parse_cea608_p pl = Ok (f1, f2, t) /\
                   t <= 31 /\ 3 * t <= lenN pl /\ lenN f1 + lenN f2 <= 2 * t).
Proof.
  rewrite parse_cea608_p_spec. split.
  { unfold rtick. destruct (parse_cea608 pl); reflexivity. }
  pose proof (land31_le (nthb pl 0)) as H31.
  destruct (parse_cea608 pl) as [[a b]| | |] eqn:Hp; unfold rtick, rmap.
  - right. exists a, b, (N.land (nthb pl 0) 31). split; [reflexivity|]. split; [exact H31|].
    unfold parse_cea608 in Hp. destruct pl as [|b0 t0]; [discriminate|].
    apply cea608_loop_bounds in Hp. cbn [nthb nth]. cbn [length] in Hp. unfold lenN. cbn [length].
    destruct Hp as ([Hk|Hk] & Hl); lia.
  - left. reflexivity.
  - exfalso. unfold parse_cea608 in Hp. destruct pl; [discriminate|].
    pose proof (okerr_cea608_loop (N.to_nat (N.land n 31)) (n :: pl) 2 [] []) as Ho. rewrite Hp in Ho. exact Ho.
  - exfalso. unfold parse_cea608 in Hp. destruct pl; [discriminate|].
    pose proof (okerr_cea608_loop (N.to_nat (N.land n 31)) (n :: pl) 2 [] []) as Ho. rewrite Hp in Ho. exact Ho.
Qed.

(* ================================================================== DecodeUserDataRegisteredSEI *)
Lemma ltb8 (pl : list N) : (lenZ pl <? 8)%Z = (length pl <? 8)%nat.
Proof.
  unfold lenZ. destruct (Nat.ltb_spec (length pl) 8); [apply Z.ltb_lt|apply Z.ltb_ge]; lia.
Qed.

Lemma extract_cea608_p_spec pl :
  (8 <= length pl)%nat ->
  extract_cea608_p pl =
    match parse_cea608_p (skipn 8 pl) with
    | Ok (f1, f2, t) => Ok (mkPass (KCea608 f1 f2) pl, t)
    | Err => Err | Panic => Panic | OutOfFuel => OutOfFuel
    end.
Proof.
  intros H. unfold extract_cea608_p. rewrite ltb8.
  destruct (Nat.ltb_spec (length pl) 8); [lia|].
  rewrite pslice_to_end by (unfold lenZ; lia). cbn [rbind]. change (Z.to_nat 8) with 8%nat.
  destruct (parse_cea608_p (skipn 8 pl)) as [[[f1 f2] t]| | |]; reflexivity.
Qed.

Lemma decode_registered_p_spec pl :
  rmap fst (decode_registered_p pl) = decode_registered pl.
Proof.
  unfold decode_registered_p, decode_registered. rewrite ltb8.
  destruct (Nat.ltb_spec (length pl) 8) as [Hlt|Hge]; [reflexivity|].
  rewrite (pidx_ok pl 0 0) by (unfold lenZ; lia). cbn [rbind].
  rewrite pslice_ok by (unfold lenZ; lia). cbn [rbind].
  change (Z.to_nat (3 - 1)) with 2%nat. change (Z.to_nat 1) with 1%nat.
  rewrite be16_p_firstn by (rewrite skipn_length; lia). cbn [rbind].
  rewrite pslice_ok by (unfold lenZ; lia). cbn [rbind].
  change (Z.to_nat (7 - 3)) with 4%nat. change (Z.to_nat 3) with 3%nat.
  rewrite be32_p_firstn by (rewrite skipn_length; lia). cbn [rbind].
  rewrite (pidx_ok pl 7 0) by (unfold lenZ; lia). cbn [rbind].
  change (Z.to_nat 0) with 0%nat. change (Z.to_nat 7) with 7%nat. unfold nthb.
  destruct ((nth 0 pl 0 =? 181) && (be_val (firstn 2 (skipn 1 pl)) 0 =? 49) &&
            (be_val (firstn 4 (skipn 3 pl)) 0 =? 1195456820) && (nth 7 pl 0 =? 3)); [|reflexivity].
  rewrite pslice_to_end by (unfold lenZ; lia). cbn [rbind]. change (Z.to_nat 8) with 8%nat.
  destruct (parse_cea608_p_total (skipn 8 pl)) as (Hs & _). rewrite <- Hs.
  destruct (parse_cea608_p (skipn 8 pl)) as [[[f1 f2] t]| | |]; reflexivity.
Qed.

Lemma okerr_decode_registered pl : okerr (decode_registered pl).
Proof.
  unfold decode_registered. destruct (length pl <? 8)%nat; [exact I|].
  match goal with |- okerr (if ?b then _ else _) => destruct b end; [|exact I].
  destruct (parse_cea608_p_total (skipn 8 pl)) as (Hs & Ht). rewrite <- Hs.
  destruct Ht as [->|(f1 & f2 & t & -> & _)]; exact I.
Qed.

(* DecodeUserDataRegisteredSEI: every payload; the result keeps the payload (no copy), the two CEA-608
   fields hold at most 2 bytes per iteration *)
Lemma decode_registered_p_total pl :
  decode_registered_p pl = Err \/
  exists m t, decode_registered_p pl = Ok (m, t) /\ ps_payload m = pl /\ t <= 31 /\ 3 * t <= lenN pl /\
    match ps_kind m with KCea608 f1 f2 => lenN f1 + lenN f2 <= 2 * t | _ => True end.
Proof.
  unfold decode_registered_p. rewrite ltb8.
  destruct (Nat.ltb_spec (length pl) 8) as [Hlt|Hge]; [left; reflexivity|].
  rewrite (pidx_ok pl 0 0) by (unfold lenZ; lia). cbn [rbind].
  rewrite pslice_ok by (unfold lenZ; lia). cbn [rbind].
  change (Z.to_nat (3 - 1)) with 2%nat. change (Z.to_nat 1) with 1%nat.
  rewrite be16_p_firstn by (rewrite skipn_length; lia). cbn [rbind].
  rewrite pslice_ok by (unfold lenZ; lia). cbn [rbind].
  change (Z.to_nat (7 - 3)) with 4%nat. change (Z.to_nat 3) with 3%nat.
  rewrite be32_p_firstn by (rewrite skipn_length; lia). cbn [rbind].
  rewrite (pidx_ok pl 7 0) by (unfold lenZ; lia). cbn [rbind].
  match goal with |- context [if ?b then _ else _] => destruct b end.
  2:{ right. eexists _, _. split; [reflexivity|]. cbn [ps_payload ps_kind]. repeat split; lia. }
  rewrite pslice_to_end by (unfold lenZ; lia). cbn [rbind]. change (Z.to_nat 8) with 8%nat.
  destruct (parse_cea608_p_total (skipn 8 pl)) as (_ & [->|(f1 & f2 & t & -> & H1 & H2 & H3)]); [left; reflexivity|].
  right. cbn [rbind]. eexists _, _. split; [reflexivity|]. cbn [ps_payload ps_kind].
  assert (lenN (skipn 8 pl) <= lenN pl) by (unfold lenN; rewrite skipn_length; lia).
  repeat split; try lia.
Qed.

(* ExtractCEA608sei called directly (it repeats the length check) *)
Lemma extract_cea608_p_total pl :
  extract_cea608_p pl = Err \/
  exists m t, extract_cea608_p pl = Ok (m, t) /\ ps_payload m = pl /\ t <= 31 /\ 3 * t <= lenN pl /\
    match ps_kind m with KCea608 f1 f2 => lenN f1 + lenN f2 <= 2 * t | _ => False end.
Proof.
  unfold extract_cea608_p. rewrite ltb8.
  destruct (Nat.ltb_spec (length pl) 8) as [Hlt|Hge]; [left; reflexivity|].
  rewrite pslice_to_end by (unfold lenZ; lia). cbn [rbind]. change (Z.to_nat 8) with 8%nat.
  destruct (parse_cea608_p_total (skipn 8 pl)) as (_ & [->|(f1 & f2 & t & -> & H1 & H2 & H3)]); [left; reflexivity|].
  right. cbn [rbind]. eexists _, _. split; [reflexivity|]. cbn [ps_payload ps_kind].
  assert (lenN (skipn 8 pl) <= lenN pl) by (unfold lenN; rewrite skipn_length; lia).
  repeat split; try lia.
Qed.

(* ================================================================== DecodeUserDataUnregisteredSEI *)
Lemma decode_unregistered_p_spec pl : decode_unregistered_p pl = decode_unregistered pl.
Proof.
  unfold decode_unregistered_p, decode_unregistered.
  replace (lenZ pl <? 16)%Z with (length pl <? 16)%nat
    by (unfold lenZ; destruct (Nat.ltb_spec (length pl) 16); symmetry; [apply Z.ltb_lt|apply Z.ltb_ge]; lia).
  destruct (Nat.ltb_spec (length pl) 16) as [Hlt|Hge]; [reflexivity|].
  rewrite pslice_ok by (unfold lenZ; lia). reflexivity.
Qed.

Lemma decode_unregistered_p_total pl :
  decode_unregistered_p pl = Err \/
  exists m, decode_unregistered_p pl = Ok m /\ ps_payload m = pl /\
            (exists s, unregistered_string_accesses m = Ok s) /\
            match ps_kind m with KUnregistered u => lenN u = 16 | _ => False end.
Proof.
  rewrite decode_unregistered_p_spec. unfold decode_unregistered.
  destruct (Nat.ltb_spec (length pl) 16) as [Hlt|Hge]; [left; reflexivity|].
  right. eexists. split; [reflexivity|]. cbn [ps_payload ps_kind]. split; [reflexivity|]. split.
  - unfold unregistered_string_accesses. cbn [ps_payload]. rewrite pslice_to_end by (unfold lenZ; lia). eauto.
  - unfold lenN. rewrite firstn_length. lia.
Qed.

(* ================================================================== SEI 137 / 144 *)
Tactic Notation "destruct_len" ident(p) integer(n) :=
  do n (destruct p as [|? p]; [cbn [length] in *; try lia|]); destruct p; [|cbn [length] in *; lia].

Lemma mdcv_decode_p_spec p : mdcv_decode_p p = mdcv_decode p.
Proof.
  unfold mdcv_decode_p, mdcv_decode, mdcv_size.
  replace (lenZ p =? 24)%Z with (lenN p =? 24)
    by (unfold lenZ, lenN; destruct (N.eqb_spec (N.of_nat (length p)) 24); symmetry; [apply Z.eqb_eq|apply Z.eqb_neq]; lia).
  destruct (N.eqb_spec (lenN p) 24) as [He|Hne]; [|reflexivity]. cbn [negb].
  assert (Hl : length p = 24%nat) by (unfold lenN in He; lia).
  destruct_len p 24.
  reflexivity.
Qed.

Lemma cll_decode_p_spec p : cll_decode_p p = cll_decode p.
Proof.
  unfold cll_decode_p, cll_decode, cll_size.
  replace (lenZ p =? 4)%Z with (lenN p =? 4)
    by (unfold lenZ, lenN; destruct (N.eqb_spec (N.of_nat (length p)) 4); symmetry; [apply Z.eqb_eq|apply Z.eqb_neq]; lia).
  destruct (N.eqb_spec (lenN p) 4) as [He|Hne]; [|reflexivity]. cbn [negb].
  assert (Hl : length p = 4%nat) by (unfold lenN in He; lia).
  destruct_len p 4.
  reflexivity.
Qed.

Lemma okerr_mdcv_decode p : okerr (mdcv_decode p).
Proof.
  unfold mdcv_decode. destruct (negb (lenN p =? mdcv_size)); [exact I|].
  repeat match goal with |- context [rd_be ?k ?l] => destruct (rd_be k l) end. exact I.
Qed.

Lemma okerr_cll_decode p : okerr (cll_decode p).
Proof.
  unfold cll_decode. destruct (negb (lenN p =? cll_size)); [exact I|].
  repeat match goal with |- context [rd_be ?k ?l] => destruct (rd_be k l) end. exact I.
Qed.

Lemma mdcv_decode_p_total p :
  mdcv_decode_p p = mdcv_decode p /\ (mdcv_decode_p p = Err \/ exists m, mdcv_decode_p p = Ok m).
Proof. split; [apply mdcv_decode_p_spec|]. rewrite mdcv_decode_p_spec. apply okerr_inv, okerr_mdcv_decode. Qed.

Lemma cll_decode_p_total p :
  cll_decode_p p = cll_decode p /\ (cll_decode_p p = Err \/ exists m, cll_decode_p p = Ok m).
Proof. split; [apply cll_decode_p_spec|]. rewrite cll_decode_p_spec. apply okerr_inv, okerr_cll_decode. Qed.

(* ================================================================== bit-list reader decoders *)
Lemma okerr_rd n l : okerr (rd n l).
Proof. unfold rd. destruct (length l <? n)%nat; exact I. Qed.

Lemma okerr_rd_flag l : okerr (rd_flag l).
Proof. destruct l; exact I. Qed.

Ltac okerr_step :=
  cbv beta;
  match goal with
  | |- okerr (Ok _) => exact I
  | |- okerr Err => exact I
  | |- okerr (rd _ _) => apply okerr_rd
  | |- okerr (rd_flag _) => apply okerr_rd_flag
  | |- okerr (rbind _ _) => apply okerr_bind; [|intros ?]
  | |- okerr (match ?x with pair _ _ => _ end) => destruct x
  | |- okerr (if ?b then _ else _) => destruct b
  end.

Lemma okerr_rd_signed n l : okerr (rd_signed n l).
Proof. unfold rd_signed. repeat okerr_step. Qed.

Lemma okerr_rd_hms full l : okerr (rd_hms full l).
Proof. unfold rd_hms. repeat okerr_step. Qed.

Lemma okerr_rd_clock l : okerr (rd_clock l).
Proof. unfold rd_clock. repeat (okerr_step || apply okerr_rd_hms). Qed.

Lemma okerr_rd_clock_avc tolen l : okerr (rd_clock_avc tolen l).
Proof. unfold rd_clock_avc. repeat (okerr_step || apply okerr_rd_hms || apply okerr_rd_signed). Qed.

Lemma rd_clocks_total k : forall l,
  rd_clocks k l = Err \/ exists cs l', rd_clocks k l = Ok (cs, l') /\ length cs = k.
Proof.
  induction k as [|k IH]; intros l; cbn [rd_clocks]; [right; eauto|].
  destruct (okerr_inv _ (okerr_rd_clock l)) as [->|([c l1] & ->)]; [left; reflexivity|]. cbn [rbind].
  destruct (IH l1) as [->|(cs & l2 & -> & Hl)]; [left; reflexivity|]. cbn [rbind].
  right. eexists _, _. split; [reflexivity|]. cbn [length]. lia.
Qed.

Lemma rd_clocks_avc_total tolen k : forall l,
  rd_clocks_avc k tolen l = Err \/ exists cs l', rd_clocks_avc k tolen l = Ok (cs, l') /\ length cs = k.
Proof.
  induction k as [|k IH]; intros l; cbn [rd_clocks_avc]; [right; eauto|].
  destruct (okerr_inv _ (okerr_rd_clock_avc tolen l)) as [->|([c l1] & ->)]; [left; reflexivity|]. cbn [rbind].
  destruct (IH l1) as [->|(cs & l2 & -> & Hl)]; [left; reflexivity|]. cbn [rbind].
  right. eexists _, _. split; [reflexivity|]. cbn [length]. lia.
Qed.

Lemma rd_val_lt n l v l' : rd n l = Ok (v, l') -> v < 2 ^ N.of_nat n.
Proof.
  unfold rd. destruct (length l <? n)%nat; [discriminate|]. intros H. injection H as <- <-.
  eapply N.lt_le_trans; [apply val_of_lt|]. apply N.pow_le_mono_r; [lia|]. rewrite firstn_length. lia.
Qed.

(* ---------- index accesses of `range`-style loops ---------- *)
Lemma range_idx_total {A} (l : list A) : forall n i,
  (0 <= i)%Z -> (i + Z.of_nat n <= lenZ l)%Z -> exists r, range_idx l n i = Ok r /\ length r = n.
Proof.
  induction n as [|n IH]; intros i H0 H1; cbn [range_idx]; [eauto|].
  destruct (pidx_ok_ex l i) as (x & ->); [lia|]. cbn [rbind].
  destruct (IH (i + 1)%Z) as (r & -> & Hl); [lia|lia|]. cbn [rbind]. eexists. split; [reflexivity|]. cbn [length]. lia.
Qed.

(* TimeCodeSEI.String (repaired text): in range for EVERY clock list, in particular the empty one *)
Lemma tc_string_total cs : exists r, tc_string_accesses cs = Ok r /\ length r = length cs.
Proof. unfold tc_string_accesses. apply range_idx_total; unfold lenZ; lia. Qed.

(* DecodeTimeCodeSEI: every payload *)
Lemma tc_decode_total payload :
  tc_decode payload = Err \/
  exists cs, tc_decode payload = Ok cs /\ lenN cs <= 3 /\
             exists r, tc_string_accesses cs = Ok r /\ length r = length cs.
Proof.
  unfold tc_decode.
  destruct (okerr_inv _ (okerr_rd 2 (bytes_to_bits payload))) as [->|([k l1] & Hk)]; [left; reflexivity|].
  rewrite Hk. cbn [rbind]. apply rd_val_lt in Hk. change (2 ^ N.of_nat 2) with 4 in Hk.
  destruct (rd_clocks_total (N.to_nat k) l1) as [->|(cs & l2 & -> & Hl)]; [left; reflexivity|].
  right. cbn [rbind]. exists cs. split; [reflexivity|]. split; [unfold lenN; lia|]. apply tc_string_total.
Qed.

(* the pinned String indexes Clocks[0] of the value decoded from a payload with num_clock_ts = 0 *)
Lemma tc_string_pinned_refuted :
  exists payload cs, tc_decode payload = Ok cs /\ tc_string_accesses_pinned cs = Panic.
Proof. exists [0], []. split; vm_compute; reflexivity. Qed.

(* DecodePicTimingAvcSEIHRD: every payload, every external parameter (nil or any length fields, any
   time offset length); 1..3 clocks; PicTimingAvcSEI.String's Clocks[0], Clocks[1..] are in range *)
Lemma num_clock_ts_range pict k : num_clock_ts pict = Some k -> (1 <= k <= 3)%nat.
Proof.
  unfold num_clock_ts. repeat match goal with |- context [if ?b then _ else _] => destruct b end;
    intros H; try discriminate; injection H as <-; lia.
Qed.

Lemma pt_string_total m : (1 <= length (p_clocks m))%nat ->
  exists r, pt_string_accesses m = Ok r /\ length r = length (p_clocks m).
Proof.
  intros H. unfold pt_string_accesses.
  destruct (pidx_ok_ex (p_clocks m) 0) as (x & ->); [unfold lenZ; lia|]. cbn [rbind].
  destruct (range_idx_total (p_clocks m) (length (p_clocks m) - 1) 1) as (r & -> & Hl); [lia|unfold lenZ; lia|].
  cbn [rbind]. eexists. split; [reflexivity|]. cbn [length]. lia.
Qed.

Lemma pt_decode_total ext tolen payload :
  pt_decode ext tolen payload = Err \/
  exists m, pt_decode ext tolen payload = Ok m /\ 1 <= lenN (p_clocks m) <= 3 /\
            exists r, pt_string_accesses m = Ok r /\ length r = length (p_clocks m).
Proof.
  unfold pt_decode.
  set (hrdpart := match ext with Some h => _ | None => _ end).
  assert (Hh : okerr hrdpart).
  { unfold hrdpart. destruct ext as [h|]; repeat okerr_step. }
  destruct (okerr_inv _ Hh) as [->|([hrd l1] & ->)]; [left; reflexivity|]. cbn [rbind].
  destruct (okerr_inv _ (okerr_rd 4 l1)) as [->|([pict l2] & ->)]; [left; reflexivity|]. cbn [rbind].
  destruct (num_clock_ts pict) as [k|] eqn:Hk; [|left; reflexivity].
  apply num_clock_ts_range in Hk.
  destruct (rd_clocks_avc_total tolen k l2) as [->|(cs & l3 & -> & Hl)]; [left; reflexivity|].
  right. cbn [rbind]. eexists. split; [reflexivity|]. cbn [p_clocks]. split; [unfold lenN; lia|].
  apply pt_string_total. cbn [p_clocks]. lia.
Qed.
