(* C16AuxExtractProofs.v — sei.ExtractSEIData is total for EVERY byte list.
   About `extract_sei_data` (the C17 model, imported read-only) and `extract_sei_data_go` (C16AuxModel.v:
   the same loop with ReadBytes as the Go text runs it — allocate the requested size, loop that many
   times — and with the costs recorded):
     - the two return the same result (so the shortcut of the C17 model is sound);
     - never XFuel: neither the outer loop nor the two 0xFF-run loops exhaust their fuel;
     - every message costs at least 16 bits of input plus 8 bits per payload byte:
         2 * #messages + total payload bytes <= |data|;
     - the 0xFF-run loops make at most |data| + 2 reads in total;
     - when the extractor does not fail, the bytes requested from ReadBytes are the payload bytes returned;
     - for byte inputs (every element < 256) every requested size is at most 255 per size byte read, so
       the bytes allocated and the ReadBytes iterations are at most 255 * (|data| + 2) in total, also
       when the last request exceeds the input and the extractor fails.
   Uses the reader invariants of C16ReaderProofs / C16SeiProofs (rwf, bits_left, rok) and, for the value
   bound only, read_spec / read_fail of C13ReaderProofs.  No axioms. *)
From V.lib Require Import Base.
From V.c13 Require Import C13Model C13Bits C13ReaderProofs.
From V.c16 Require Import C16ReaderProofs C16SeiProofs.
From V.c17 Require Import C17Spec C17Model.
From V.c16 Require Import C16AuxModel.

(* ------------------------------------------------------------------ reader facts *)
Lemma read_err_zero s n : rerr (snd (read s n)) = true -> fst (read s n) = 0.
Proof.
  unfold read, read_gen. destruct (rerr s) eqn:He; [reflexivity|].
  destruct (rerr (fill true (S (N.to_nat (n / 8) + 1)) s n)) eqn:Hf; [reflexivity|].
  cbn [snd rerr]. discriminate.
Qed.

Lemma rok_bits s : rok s -> rerr s = false -> rwf s /\ bits_left s <= 8 * lenN (rdata s) + 7.
Proof.
  intros [H|H] He; [congruence|]. split; [exact H|]. destruct H as [Hp Hn]. unfold bits_left. lia.
Qed.

Lemma more_rbsp_state s o s' : more_rbsp_data s = (Some o, s') -> s' = s.
Proof.
  unfold more_rbsp_data. destruct (rerr s); [discriminate|].
  destruct (read s 1) as [b s1]. destruct (rerr s1); [discriminate|].
  destruct (negb (b =? 1)); intros H; injection H; auto.
Qed.

(* ---------- the 0xFF-run loop ---------- *)
Lemma read_ff_t_fst fuel wrap : forall s acc k,
  read_ff fuel wrap s acc =
  match read_ff_t fuel wrap s acc k with Some (v, s1, _) => Some (v, s1) | None => None end.
Proof.
  induction fuel as [|f IH]; intros s acc k; cbn [read_ff read_ff_t]; [reflexivity|].
  destruct (read s 8) as [b s1]. destruct (b =? 255); [apply IH|reflexivity].
Qed.

(* never out of fuel; at least one read; every read but a failing last one consumes 8 bits *)
Lemma read_ff_t_total wrap : forall fuel s acc k0,
  rok s -> (0 < fuel)%nat -> (rerr s = false -> bits_left s < 8 * N.of_nat fuel) ->
  exists v s1 k, read_ff_t fuel wrap s acc k0 = Some (v, s1, k) /\
    rok s1 /\ rdata s1 = rdata s /\ k0 < k /\
    (rerr s = true -> rerr s1 = true /\ k = k0 + 1) /\
    (rerr s = false -> 8 * (k - k0) <= bits_left s + 8) /\
    (rerr s1 = false -> rerr s = false /\ bits_left s1 + 8 * (k - k0) <= bits_left s).
Proof.
  induction fuel as [|f IH]; intros s acc k0 Hok Hpos Hf; [lia|].
  cbn [read_ff_t].
  pose proof (read_rok s 8 Hok) as (Hr1 & Hr2 & Hr3). pose proof (read_err_zero s 8) as Hz.
  destruct (read s 8) as [b s1]. cbn [fst snd] in *.
  destruct (b =? 255) eqn:Hb.
  - assert (He1 : rerr s1 = false).
    { destruct (rerr s1); [|reflexivity]. specialize (Hz eq_refl). subst b. discriminate. }
    destruct (Hr3 He1) as (He & Hbits). specialize (Hf He).
    destruct (IH s1 (wrap (acc + b)) (k0 + 1) Hr1) as (v & s2 & k & Hrun & Hok2 & Hd2 & Hk & _ & Hc & Hd);
      [lia|intros _; lia|].
    exists v, s2, k. split; [exact Hrun|]. split; [exact Hok2|]. split; [congruence|]. split; [lia|].
    split; [intros; congruence|]. specialize (Hc He1).
    split; [intros _; lia|]. intros He2. destruct (Hd He2) as (_ & Hd'). split; [exact He|lia].
  - exists (wrap (acc + b)), s1, (k0 + 1). split; [reflexivity|]. split; [exact Hr1|]. split; [exact Hr2|].
    split; [lia|]. replace (k0 + 1 - k0) with 1 by lia.
    split.
    { intros He. split; [|reflexivity]. destruct (rerr s1) eqn:He1; [reflexivity|]. destruct (Hr3 eq_refl). congruence. }
    split; [intros _; lia|]. intros He1. destruct (Hr3 He1) as (He & Hbits). split; [exact He|lia].
Qed.

(* ---------- ReadBytes ---------- *)
Lemma read_bytes_rok : forall k s, rok s ->
  rok (snd (read_bytes k s)) /\ rdata (snd (read_bytes k s)) = rdata s /\
  length (fst (read_bytes k s)) = k /\
  (rerr (snd (read_bytes k s)) = false ->
   rerr s = false /\ bits_left (snd (read_bytes k s)) + 8 * N.of_nat k <= bits_left s).
Proof.
  induction k as [|k IH]; intros s Hok; cbn [read_bytes].
  - cbn [fst snd length]. split; [exact Hok|]. split; [reflexivity|]. split; [reflexivity|].
    intros He. split; [exact He|lia].
  - pose proof (read_rok s 8 Hok) as (Hr1 & Hr2 & Hr3). destruct (read s 8) as [b s1]. cbn [snd] in *.
    specialize (IH s1 Hr1). destruct (read_bytes k s1) as [l s2]. cbn [fst snd] in *.
    destruct IH as (I1 & I2 & I3 & I4). split; [exact I1|]. split; [congruence|]. split; [cbn [length]; lia|].
    intros He2. destruct (I4 He2) as (He1 & Hb1). destruct (Hr3 He1) as (He & Hb). split; [exact He|lia].
Qed.

(* everything about the Go-shaped ReadBytes, incl. agreement with the shortcut of the C17 model *)
Lemma read_bytes_go_spec s sz pl' s3' al it :
  rok s -> read_bytes_go s sz = (pl', s3', al, it) ->
  rerr (snd (read_payload s sz)) = rerr s3' /\
  (rerr s3' = false -> read_payload s sz = (pl', s3')) /\
  it = al /\ (rerr s = false -> al = sz) /\ (rerr s = true -> al = 0 /\ rerr s3' = true) /\
  rok s3' /\ rdata s3' = rdata s /\
  (rerr s3' = false -> rerr s = false /\ lenN pl' = sz /\ bits_left s3' + 8 * sz <= bits_left s).
Proof.
  intros Hok. unfold read_bytes_go, read_payload. destruct (rerr s) eqn:He.
  - intros H. injection H as <- <- <- <-. cbn [snd]. rewrite He.
    repeat split; try reflexivity; try congruence; try assumption.
  - pose proof (read_bytes_rok (N.to_nat sz) s Hok) as (B1 & B2 & B3 & B4).
    destruct (read_bytes (N.to_nat sz) s) as [l s'] eqn:Hrb. cbn [fst snd] in *.
    intros H. injection H as <- <- <- <-.
    assert (Hshort : lenN (rdata s) < sz -> rerr s' = true).
    { intros Hlt. destruct (rerr s') eqn:He'; [reflexivity|]. destruct (B4 eq_refl) as (_ & Hb).
      destruct (rok_bits s Hok He) as (_ & Hle). lia. }
    destruct (N.ltb_spec (lenN (rdata s)) sz) as [Hlt|Hge].
    + cbn [snd rerr]. rewrite (Hshort Hlt).
      repeat split; try reflexivity; try congruence; try assumption.
    + cbn [snd].
      split; [reflexivity|]. split; [intros He'; rewrite He'; reflexivity|].
      split; [reflexivity|]. split; [reflexivity|]. split; [congruence|]. split; [exact B1|]. split; [exact B2|].
      intros He'. rewrite He'. destruct (B4 He') as (_ & Hb). split; [reflexivity|]. split; [unfold lenN; lia|lia].
Qed.

(* ------------------------------------------------------------------ agreement with the C17 model *)
Lemma extract_loop_go_fst : forall f s, rok s -> fst (extract_loop_go f s) = extract_loop f s.
Proof.
  induction f as [|f IH]; intros s Hok; cbn [extract_loop_go extract_loop]; [reflexivity|].
  rewrite (read_ff_t_fst _ u64 s 0 0).
  destruct (rerr s) eqn:He0.
  - (* cannot happen at the top, but the statement needs no side condition *)
    destruct (read_ff_t_total u64 (S (length (rdata s))) s 0 0 Hok ltac:(lia) ltac:(congruence))
      as (ty & s1 & k1 & -> & Hok1 & Hd1 & _).
    rewrite (read_ff_t_fst _ u32 s1 0 0).
    destruct (read_ff_t_total u32 (S (length (rdata s))) s1 0 0 Hok1 ltac:(lia)) as (sz & s2 & k2 & -> & Hok2 & Hd2 & _).
    { intros He1. destruct (rok_bits s1 Hok1 He1) as (_ & Hle). rewrite Hd1 in Hle. unfold lenN in Hle. lia. }
    destruct (read_bytes_go s2 sz) as [[[pl' s3'] al] it] eqn:Hgo.
    destruct (read_bytes_go_spec _ _ _ _ _ _ Hok2 Hgo) as (G1 & G2 & _ & _ & _ & G6 & _ & _).
    destruct (read_payload s2 sz) as [pl s3] eqn:Hpl. cbn [snd] in G1. rewrite G1.
    destruct (rerr s3') eqn:He3; [reflexivity|]. specialize (G2 eq_refl). injection G2 as -> ->.
    destruct (more_rbsp_data s3') as [[[|]|] s4] eqn:Hm; try reflexivity.
    apply more_rbsp_state in Hm. subst s4.
    specialize (IH s3' G6). destruct (extract_loop_go f s3') as [r c]. cbn [fst] in *. congruence.
  - destruct (rok_bits s Hok He0) as (_ & Hle0).
    destruct (read_ff_t_total u64 (S (length (rdata s))) s 0 0 Hok ltac:(lia))
      as (ty & s1 & k1 & -> & Hok1 & Hd1 & _).
    { intros _. unfold lenN in Hle0. lia. }
    rewrite (read_ff_t_fst _ u32 s1 0 0).
    destruct (read_ff_t_total u32 (S (length (rdata s))) s1 0 0 Hok1 ltac:(lia)) as (sz & s2 & k2 & -> & Hok2 & Hd2 & _).
    { intros He1. destruct (rok_bits s1 Hok1 He1) as (_ & Hle). rewrite Hd1 in Hle. unfold lenN in Hle. lia. }
    destruct (read_bytes_go s2 sz) as [[[pl' s3'] al] it] eqn:Hgo.
    destruct (read_bytes_go_spec _ _ _ _ _ _ Hok2 Hgo) as (G1 & G2 & _ & _ & _ & G6 & _ & _).
    destruct (read_payload s2 sz) as [pl s3] eqn:Hpl. cbn [snd] in G1. rewrite G1.
    destruct (rerr s3') eqn:He3; [reflexivity|]. specialize (G2 eq_refl). injection G2 as -> ->.
    destruct (more_rbsp_data s3') as [[[|]|] s4] eqn:Hm; try reflexivity.
    apply more_rbsp_state in Hm. subst s4.
    specialize (IH s3' G6). destruct (extract_loop_go f s3') as [r c]. cbn [fst] in *. congruence.
Qed.

(* ------------------------------------------------------------------ bounds *)
Lemma xres_msgs_xcons x r : r <> XErr -> r <> XFuel -> xres_msgs (xcons x r) = x :: xres_msgs r.
Proof. destruct r; cbn; congruence. Qed.

Lemma xres_eq_err r : r = XErr \/ r <> XErr.
Proof. destruct r; [right|right|left|right]; congruence. Qed.

Lemma payload_bytes_cons ty pl l : payload_bytes ((ty, pl) :: l) = lenN pl + payload_bytes l.
Proof. reflexivity. Qed.

Lemma extract_loop_go_total : forall f s,
  rwf s -> rerr s = false -> bits_left s < 16 * N.of_nat f ->
  exists r c, extract_loop_go f s = (r, c) /\ r <> XFuel /\
    16 * lenN (xres_msgs r) + 8 * payload_bytes (xres_msgs r) <= bits_left s /\
    8 * c_ffreads c <= bits_left s + 16 /\
    c_pliters c = sumN (c_allocs c) /\
    (r <> XErr -> sumN (c_allocs c) = payload_bytes (xres_msgs r)).
Proof.
  induction f as [|f IH]; intros s Hw He0 Hf; [lia|].
  assert (Hok : rok s) by (right; exact Hw).
  destruct (rok_bits s Hok He0) as (_ & Hle0).
  cbn [extract_loop_go].
  destruct (read_ff_t_total u64 (S (length (rdata s))) s 0 0 Hok ltac:(lia))
    as (ty & s1 & k1 & -> & Hok1 & Hd1 & Hk1 & _ & Hc1 & Hb1).
  { intros _. unfold lenN in Hle0. lia. }
  specialize (Hc1 He0). replace (k1 - 0) with k1 in * by lia.
  destruct (read_ff_t_total u32 (S (length (rdata s))) s1 0 0 Hok1 ltac:(lia))
    as (sz & s2 & k2 & -> & Hok2 & Hd2 & Hk2 & He2 & Hc2 & Hb2).
  { intros He1. destruct (rok_bits s1 Hok1 He1) as (_ & Hle). rewrite Hd1 in Hle. unfold lenN in Hle. lia. }
  replace (k2 - 0) with k2 in * by lia.
  destruct (read_bytes_go s2 sz) as [[[pl s3] al] it] eqn:Hgo.
  destruct (read_bytes_go_spec _ _ _ _ _ _ Hok2 Hgo) as (_ & _ & G3 & G4 & G5 & G6 & G7 & G8).
  (* reads of the two 0xFF runs of this iteration *)
  assert (Hff : 8 * (k1 + k2) <= bits_left s + 16).
  { destruct (rerr s1) eqn:He1.
    - destruct (He2 eq_refl) as (_ & ->). lia.
    - destruct (Hb1 eq_refl) as (_ & Hb1'). specialize (Hc2 eq_refl). lia. }
  destruct (rerr s3) eqn:He3.
  - (* return nil, err *)
    eexists _, _. split; [reflexivity|]. split; [discriminate|]. cbn [xres_msgs c_ffreads c_pliters c_allocs sumN].
    change (lenN (@nil (N * list N))) with 0. change (payload_bytes []) with 0.
    split; [lia|]. split; [lia|]. split; [lia|]. intros H; congruence.
  - destruct (G8 eq_refl) as (Hes2 & Hlen & Hb3). specialize (G4 Hes2). subst al it.
    destruct (Hb2 Hes2) as (Hes1 & Hb2'). destruct (Hb1 Hes1) as (_ & Hb1').
    assert (Hone : 16 * lenN [(ty, pl)] + 8 * payload_bytes [(ty, pl)] <= bits_left s).
    { change (lenN [(ty, pl)]) with 1. rewrite payload_bytes_cons. change (payload_bytes []) with 0. lia. }
    destruct (more_rbsp_data s3) as [[[|]|] s4] eqn:Hm.
    + apply more_rbsp_state in Hm. subst s4.
      destruct (rok_bits s3 G6 He3) as (Hw3 & _).
      destruct (IH s3 Hw3 He3) as (r & c & -> & Hnf & Hsz & Hffr & Hit & Hal); [lia|].
      eexists _, _. split; [reflexivity|]. split; [destruct r; cbn; congruence|].
      unfold cost_add. cbn [c_ffreads c_pliters c_allocs sumN].
      destruct (xres_eq_err r) as [->|Hne].
      * cbn [xcons xres_msgs]. change (lenN (@nil (N * list N))) with 0. change (payload_bytes []) with 0.
        split; [lia|]. split; [lia|]. split; [lia|]. intros H; congruence.
      * rewrite (xres_msgs_xcons _ r Hne Hnf). rewrite lenN_cons, payload_bytes_cons.
        split; [lia|]. split; [lia|]. split; [lia|]. intros _. rewrite (Hal Hne). lia.
    + eexists _, _. split; [reflexivity|]. split; [discriminate|]. cbn [xres_msgs c_ffreads c_pliters c_allocs sumN].
      split; [exact Hone|]. split; [lia|]. split; [lia|]. intros _. rewrite payload_bytes_cons. change (payload_bytes []) with 0. lia.
    + eexists _, _. split; [reflexivity|]. split; [discriminate|]. cbn [xres_msgs c_ffreads c_pliters c_allocs sumN].
      split; [exact Hone|]. split; [lia|]. split; [lia|]. intros _. rewrite payload_bytes_cons. change (payload_bytes []) with 0. lia.
Qed.

(* ------------------------------------------------------------------ the whole extractor *)
Lemma extract_sei_data_total data :
  exists r c, extract_sei_data_go data = (r, c) /\ extract_sei_data data = r /\ r <> XFuel /\
    2 * lenN (xres_msgs r) + payload_bytes (xres_msgs r) <= lenN data /\
    c_ffreads c <= lenN data + 2 /\
    c_pliters c = sumN (c_allocs c) /\
    (r <> XErr -> sumN (c_allocs c) = payload_bytes (xres_msgs r)).
Proof.
  unfold extract_sei_data_go, extract_sei_data.
  assert (Hb : bits_left (rinit data) = 8 * lenN data) by (unfold bits_left, rinit; cbn [rdata rpos rn]; lia).
  destruct (extract_loop_go_total (S (length data)) (rinit data) (rwf_init data) eq_refl)
    as (r & c & Hrun & Hnf & Hsz & Hff & Hit & Hal).
  { rewrite Hb. unfold lenN. lia. }
  exists r, c. split; [exact Hrun|]. split.
  { rewrite <- (extract_loop_go_fst _ _ (rok_init data)), Hrun. reflexivity. }
  split; [exact Hnf|]. rewrite Hb in *. split; [lia|]. split; [lia|]. split; [exact Hit|exact Hal].
Qed.

(* ------------------------------------------------------------------ requested sizes (byte inputs) *)
(* reachable reader state over byte data: sticky error, or accumulator within its bit count *)
Definition vinv (s : rstate) : Prop := rerr s = true \/ RGood s.

Lemma read8_lt s : vinv s -> fst (read s 8) < 256 /\ vinv (snd (read s 8)).
Proof.
  intros [He|[HI Hn8]].
  - rewrite (read_after_error s 8 He). cbn [fst snd]. split; [lia|left; exact He].
  - destruct (N.ltb_spec (N.of_nat (length (rbits s))) 8) as [Hlt|Hge].
    + destruct (read_fail s 8 HI Hn8 ltac:(lia) Hlt) as (-> & He). split; [lia|left; exact He].
    + pose proof (read_spec s 8 HI Hn8 ltac:(lia) Hge) as H. destruct (read s 8) as [v s'].
      destruct H as (-> & _ & HI' & Hn' & _). cbn [fst snd]. split; [|right; split; assumption].
      eapply N.lt_le_trans; [apply val_of_lt|]. change 256 with (2 ^ 8). apply N.pow_le_mono_r; [lia|].
      rewrite firstn_length. lia.
Qed.

Lemma u32_le x : u32 x <= x.
Proof. unfold u32. apply N.mod_le. lia. Qed.

Lemma read_ff_t_value : forall fuel s acc k0 v s1 k,
  vinv s -> read_ff_t fuel u32 s acc k0 = Some (v, s1, k) ->
  v + 255 * k0 <= acc + 255 * k /\ vinv s1.
Proof.
  induction fuel as [|f IH]; intros s acc k0 v s1 k Hv; cbn [read_ff_t]; [discriminate|].
  destruct (read8_lt s Hv) as (Hb & Hv1). destruct (read s 8) as [b s']. cbn [fst snd] in *.
  pose proof (u32_le (acc + b)) as Hu.
  destruct (b =? 255).
  - intros H. destruct (IH _ _ _ _ _ _ Hv1 H) as (H1 & H2). split; [lia|exact H2].
  - intros H. injection H as <- <- <-. split; [lia|exact Hv1].
Qed.

Lemma read_ff_t_vinv wrap : forall fuel s acc k0 v s1 k,
  vinv s -> read_ff_t fuel wrap s acc k0 = Some (v, s1, k) -> vinv s1.
Proof.
  induction fuel as [|f IH]; intros s acc k0 v s1 k Hv; cbn [read_ff_t]; [discriminate|].
  destruct (read8_lt s Hv) as (_ & Hv1). destruct (read s 8) as [b s']. cbn [snd] in *.
  destruct (b =? 255).
  - intros H. exact (IH _ _ _ _ _ _ Hv1 H).
  - intros H. injection H as <- <- <-. exact Hv1.
Qed.

Lemma read_bytes_vinv : forall k s, vinv s -> vinv (snd (read_bytes k s)).
Proof.
  induction k as [|k IH]; intros s Hv; cbn [read_bytes]; [exact Hv|].
  destruct (read8_lt s Hv) as (_ & Hv1). destruct (read s 8) as [b s1]. cbn [snd] in *.
  specialize (IH s1 Hv1). destruct (read_bytes k s1) as [l s2]. exact IH.
Qed.

(* every request is at most 255 per size byte read *)
Lemma extract_loop_go_allocs : forall f s, vinv s ->
  sumN (c_allocs (snd (extract_loop_go f s))) <= 255 * c_ffreads (snd (extract_loop_go f s)).
Proof.
  induction f as [|f IH]; intros s Hv; cbn [extract_loop_go]; [cbn; lia|].
  destruct (read_ff_t (S (length (rdata s))) u64 s 0 0) as [[[ty s1] k1]|] eqn:H1; [|cbn; lia].
  pose proof (read_ff_t_vinv _ _ _ _ _ _ _ _ Hv H1) as Hv1.
  destruct (read_ff_t (S (length (rdata s))) u32 s1 0 0) as [[[sz s2] k2]|] eqn:H2; [|cbn; lia].
  destruct (read_ff_t_value _ _ _ _ _ _ _ Hv1 H2) as (Hsz & Hv2).
  unfold read_bytes_go.
  assert (Hgo : exists pl s3 al, (if rerr s2 then ([], s2, 0, 0)
                 else let '(l, s') := read_bytes (N.to_nat sz) s2 in ((if rerr s' then [] else l), s', sz, sz))
                = (pl, s3, al, al) /\ al <= sz /\ vinv s3).
  { destruct (rerr s2).
    - eexists _, _, _. split; [reflexivity|]. split; [lia|exact Hv2].
    - pose proof (read_bytes_vinv (N.to_nat sz) s2 Hv2) as Hv3.
      destruct (read_bytes (N.to_nat sz) s2) as [l s']. eexists _, _, _. split; [reflexivity|]. split; [lia|exact Hv3]. }
  destruct Hgo as (pl & s3 & al & -> & Hal & Hv3).
  destruct (rerr s3); [cbn [snd c_allocs c_ffreads sumN]; lia|].
  destruct (more_rbsp_data s3) as [[[|]|] s4] eqn:Hm; try (cbn [snd c_allocs c_ffreads sumN]; lia).
  apply more_rbsp_state in Hm. subst s4. specialize (IH s3 Hv3).
  destruct (extract_loop_go f s3) as [r c]. cbn [snd] in *. unfold cost_add. cbn [c_allocs c_ffreads sumN]. lia.
Qed.

Lemma bytes_ok_lt256 l : bytes_ok l = true -> Forall lt256 l.
Proof.
  induction l as [|b t IH]; [constructor|]. rewrite bytes_ok_cons. intros H.
  apply andb_true_iff in H. destruct H as (H1 & H2). constructor; [|apply IH; exact H2].
  unfold byte_ok in H1. unfold lt256. lia.
Qed.

(* allocation and ReadBytes iterations of the whole run: linear in the input, also on the failing path *)
Lemma extract_sei_data_alloc_bound data :
  bytes_ok data = true ->
  sumN (c_allocs (snd (extract_sei_data_go data))) <= 255 * (lenN data + 2) /\
  c_pliters (snd (extract_sei_data_go data)) <= 255 * (lenN data + 2).
Proof.
  intros Hb.
  destruct (extract_sei_data_total data) as (r & c & Hrun & _ & _ & _ & Hff & Hit & _).
  assert (Hv : vinv (rinit data)).
  { right. split; [apply RInv_init, bytes_ok_lt256, Hb|cbn; lia]. }
  pose proof (extract_loop_go_allocs (S (length data)) (rinit data) Hv) as Ha.
  unfold extract_sei_data_go in *. rewrite Hrun in *. cbn [snd] in *. rewrite Hit. split; nia.
Qed.
