(* C16ParseModel.v — C16's own wrappers around the AVC parameter-set / slice-header parser models of
   coq/c15/C15Model.v (imported READ-ONLY).  DEFINITIONS ONLY.

   Why wrappers.  C15Model.v caps every count-driven loop at 2^16 iterations (`rep_break_n`, and
   `loop_fuel` for the two `for { ... }` loops of the slice header) and returns OutOfFuel beyond: good
   enough for the value theorems of C15, but for C16 that cap makes "never OutOfFuel" FALSE of the C15
   model although the Go code is fine (a 17 KiB slice NAL unit of 0xff bytes makes the
   ref_pic_list_modification loop run 2 bits per iteration, more than 2^16 times; a PPS with slice group
   map type 6 and 1-bit ids in a 9 KiB NAL unit likewise).  The Go loops stop at the first read error
   (`if r.AccError() != nil { break }`), i.e. they are bounded by the DATA, not by a constant.  Here the
   same loops take their fuel from the caller: the top-level functions pass `parse_fuel nalu`
   = 8*|nalu| + 10, so OutOfFuel now means "more loop iterations than bits in the NAL unit (+10)",
   and the theorems of C16ParseProofs.v show that it never happens.
   Everything not mentioned here (ParseSPSNALUnit as a whole, parse_pps_post, rplm_loop, mmco_loop,
   pwt_entry, the scaling lists, VUI, HRD) is used from C15Model.v unchanged.  The C15 parser model has no
   Panic case: the Go text of these three parsers has no index or slice expression on input-derived
   values other than pps.PicScalingLists[i] (i < its make() length by construction) and the SAR table
   (guarded, mirrored by sar_from_idc); divisions: only picSizeInMapUnits/sliceGroupChangeRate, guarded
   by the repaired text (fail on 0). *)
From V.lib Require Import Base.
From V.c13 Require Import C13Model.
From V.c15 Require Import C15Model C15Avc2Model.
From V.c16 Require Import C16Model.

Section C16Parsers.
  Context {St : Type} (R : reader St).

  Notation "x <- m ;; k" := (bind m (fun x => k))
    (at level 61, m at next level, right associativity).

  (*  for i := 0; i < n; i++ { if reader.AccError() != nil { break }; x := body; append }
      with the count kept as a number (it can be 2^64) and explicit fuel *)
  Fixpoint rep_break_f {A} (fuel : nat) (n : N) (body : @M St A) : @M St (list A) :=
    match fuel with
    | O => out_of_fuel
    | S f =>
        if n =? 0 then ret []
        else e <- get_err R ;;
             if e then ret []
             else x <- body ;; t <- rep_break_f f (n - 1) body ;; ret (x :: t)
    end.

  (* ---- ParsePPSNALUnit: the slice-group part with the data-bounded loop of map type 6 *)
  Definition parse_pps_slice_groups_d (fuel : nat) (nsg : N)
    : @M St (N * list N * list N * list N * bool * N * N * list N) :=
    if 0 <? nsg then
      mt <- rd_ue R ;;
      if mt =? 0 then
        rl <- rep_n (nsg + 1) (rd_ue R) ;; ret (mt, rl, [], [], false, 0, 0, [])
      else if mt =? 2 then
        prs <- rep_n nsg (tl <- rd_ue R ;; br <- rd_ue R ;; ret (tl, br)) ;;
        ret (mt, [], map fst prs, map snd prs, false, 0, 0, [])
      else if (mt =? 3) || (mt =? 4) || (mt =? 5) then
        dir <- rd_flag R ;; rate <- rd_ue R ;; ret (mt, [], [], [], dir, rate, 0, [])
      else if mt =? 6 then
        psmu <- rd_ue R ;;
        ids <- rep_break_f fuel (psmu + 1) (rd R (ceil_log2 (nsg + 1))) ;;
        ret (mt, [], [], [], false, 0, psmu, ids)
      else ret (mt, [], [], [], false, 0, 0, [])
    else ret (0, [], [], [], false, 0, 0, []).

  Definition parse_pps_pre_d (fuel : nat)
    : @M St (N * N * bool * bool * N * (N * list N * list N * list N * bool * N * N * list N)
         * N * N * bool * N * Z * Z * Z * bool * bool * bool) :=
    id <- rd_ue R ;;
    spsid <- rd_ue R ;;
    ecm <- rd_flag R ;;
    bfp <- rd_flag R ;;
    nsg <- rd_ue R ;;
    if 7 <? nsg then fail else                           (* guard d2db25a *)
    sg <- parse_pps_slice_groups_d fuel nsg ;;
    l0 <- rd_ue R ;;
    l1 <- rd_ue R ;;
    wp <- rd_flag R ;;
    wb <- rd R 2 ;;
    qp <- rd_se R ;;
    qs <- rd_se R ;;
    cqp <- rd_se R ;;
    dfc <- rd_flag R ;;
    cip <- rd_flag R ;;
    rpc <- rd_flag R ;;
    ret (id, spsid, ecm, bfp, nsg, sg, l0, l1, wp, wb, qp, qs, cqp, dfc, cip, rpc).

  Definition parse_pps_d (fuel : nat) (spsmap : N -> option N) : @M St pps :=
    hdr <- rd R 8 ;;
    if negb (N.land (u8 hdr) 31 =? 8) then fail else     (* ErrNotPPS *)
    t <- parse_pps_pre_d fuel ;;
    parse_pps_post R spsmap t.

  (* ---- ParseSliceHeader: the text of C15Avc2Model.parse_slice_header2 (= C15Model.parse_slice_header with the
     slice_group_change_cycle step of /repo 174cc8e) with `loop_fuel` replaced by the caller's fuel and
     rep_break_n by rep_break_f (generated from it; nothing else differs) *)
  Definition parse_slice_header_d (fuel : nat) (spsmap : N -> option sps) (ppsmap : N -> option pps) : @M St slice_hdr :=
    hdr <- rd R 8 ;;
    let nalu_type := N.land (u8 hdr) 31 in
    if negb ((nalu_type =? 1) || (nalu_type =? 2) || (nalu_type =? 5) || (nalu_type =? 19)) then fail else
    let nal_ref_idc := N.land (N.shiftr hdr 5) 3 in
    first_mb <- rd_ue R ;;
    slice_type <- rd_ue R ;;
    pps_id <- rd_ue R ;;
    match ppsmap (u32 pps_id) with
    | None => fail
    | Some pp =>
    let sps_id := pps_sps_id pp in
    match spsmap sps_id with
    | None => fail
    | Some sp =>
    cpl <- (if sps_separate_colour_plane sp then rd R 2 else ret 0) ;;
    frame_num <- rd R (sps_log2_max_frame_num_minus4 sp + 4) ;;
    fld <- (if negb (sps_frame_mbs_only sp)
            then f <- rd_flag R ;; b <- (if f then rd_flag R else ret false) ;; ret (f, b)
            else ret (false, false)) ;;
    let '(field_pic, bottom) := fld in
    idr <- (if nalu_type =? 5 then rd_ue R else ret 0) ;;
    poc <- (if sps_pic_order_cnt_type sp =? 0 then
              lsb <- rd R (sps_log2_max_pic_order_cnt_lsb_minus4 sp + 4) ;;
              d <- (if pps_bottom_field_pic_order pp && negb field_pic then rd_se R else ret 0%Z) ;;
              ret (lsb, d, 0%Z, 0%Z)
            else if (sps_pic_order_cnt_type sp =? 1) && negb (sps_delta_pic_order_always_zero sp) then
              d0 <- rd_se R ;;
              d1 <- (if pps_bottom_field_pic_order pp && negb field_pic then rd_se R else ret 0%Z) ;;
              ret (0, 0%Z, d0, d1)
            else ret (0, 0%Z, 0%Z, 0%Z)) ;;
    let '(lsb, dbot, d0, d1) := poc in
    red <- (if pps_redundant_pic_cnt_present pp then rd_ue R else ret 0) ;;
    let st := slice_type mod 5 in
    let isP := st =? 0 in let isB := st =? 1 in let isI := st =? 2 in
    let isSP := st =? 3 in let isSI := st =? 4 in
    direct <- (if isB then rd_flag R else ret false) ;;
    nri <- (if isP || isSP || isB then
              ov <- rd_flag R ;;
              if ov then
                l0 <- rd_ue R ;;
                l1 <- (if isB then rd_ue R else ret 0) ;;
                ret (ov, u32 l0, u32 l1)
              else ret (ov, u32 (pps_num_ref_idx_l0_default_active_minus1 pp),
                        u32 (pps_num_ref_idx_l1_default_active_minus1 pp))
            else ret (false, 0, 0)) ;;
    let '(ov, l0, l1) := nri in
    m0 <- (if negb isI && negb isSI then
             f <- rd_flag R ;;
             stt <- (if f then rplm_loop R fuel (0, 0, 0, 0) else ret (0, 0, 0, 0)) ;;
             ret (f, stt)
           else ret (false, (0, 0, 0, 0))) ;;
    let '(rplm0, st0) := m0 in
    m1 <- (if isB then
             f <- rd_flag R ;;
             stt <- (if f then rplm_loop R fuel st0 else ret st0) ;;
             ret (f, stt)
           else ret (false, st0)) ;;
    let '(rplm1, st1) := m1 in
    let '(idc, absdiff, ltpn0, absview) := st1 in
    let cat_nz := negb (sps_chroma_array_type sp =? 0) in
    pw <- (if (pps_weighted_pred pp && (isP || isSP)) || ((pps_weighted_bipred_idc pp =? 1) && isB) then
             ld <- rd_ue R ;;
             cd <- (if cat_nz then rd_ue R else ret 0) ;;
             x0 <- rep_break_f fuel (l0 + 1) (pwt_entry R cat_nz) ;;
             x1 <- (if isB then rep_break_f fuel (l1 + 1) (pwt_entry R cat_nz) else ret []) ;;
             ret (u32 ld, u32 cd)
           else ret (0, 0)) ;;
    let '(luma_denom, chroma_denom) := pw in
    mk <- (if negb (nal_ref_idc =? 0) then
             if nalu_type =? 5 then
               a <- rd_flag R ;; b <- rd_flag R ;; ret (a, b, false, (0, ltpn0, 0, 0))
             else
               ad <- rd_flag R ;;
               stt <- (if ad then mmco_loop R fuel (0, ltpn0, 0, 0) else ret (0, ltpn0, 0, 0)) ;;
               ret (false, false, ad, stt)
           else ret (false, false, false, (0, ltpn0, 0, 0))) ;;
    let '(no_out, lt_ref, adaptive, (diffpn, ltpn, ltfi, maxlt)) := mk in
    cabac <- (if pps_entropy_coding_mode pp && negb isI && negb isSI then rd_ue R else ret 0) ;;
    qpd <- rd_se R ;;
    qs <- (if isSP || isSI then
             sw <- (if isSP then rd_flag R else ret false) ;;
             d <- rd_se R ;; ret (sw, d)
           else ret (false, 0%Z)) ;;
    let '(sp_switch, qsd) := qs in
    db <- (if pps_deblocking_filter_control_present pp then
             idc <- rd_ue R ;;
             if negb (u32 idc =? 1) then a <- rd_se R ;; b <- rd_se R ;; ret (u32 idc, a, b)
             else ret (u32 idc, 0%Z, 0%Z)
           else ret (0, 0%Z, 0%Z)) ;;
    let '(ddf, alpha, beta) := db in
    sgcc <- (if (0 <? pps_num_slice_groups_minus1 pp) && (3 <=? pps_slice_group_map_type pp)
                && (pps_slice_group_map_type pp <=? 5) then
               (* repaired text, /repo 174cc8e (finding C15-F7): PicSizeInMapUnits recomputed from the SPS
                  (SPS.picSizeInMapUnits = C15Avc2Model.sps_pic_size_in_map_units), division rounded up *)
               let size := sps_pic_size_in_map_units sp in
               let rate := u64 (pps_slice_group_change_rate_minus1 pp + 1) in
               if rate =? 0 then fail                    (* guard ecb7975 *)
               else
                 let quot := u64 (size / rate + (if size mod rate =? 0 then 0 else 1)) in
                 rd R (ceil_log2 (u64 (quot + 1)))       (* bits.CeilLog2(quot + 1) *)
             else ret 0) ;;
    nb <- get_nbytes R ;;
    ret (mkSh slice_type (u32 first_mb) (u32 pps_id) sps_id (u32 cpl) (u32 frame_num) (u32 idr) (u32 lsb)
              (i32 dbot) (i32 d0) (i32 d1) (u32 red) l0 l1 idc absdiff ltpn absview luma_denom chroma_denom
              diffpn ltfi maxlt (u32 cabac) (i32 qpd) (i32 qsd) ddf (i32 alpha) (i32 beta)
              (u32 sgcc) (u32 nb) field_pic bottom direct ov rplm0 rplm1 no_out lt_ref sp_switch adaptive)
    end end.

End C16Parsers.

(* fuel of every data-driven loop: one more than the largest possible potential (bits + 1) *)
Definition parse_fuel (nalu : list N) : nat := S (S (8 * length nalu + 8)).

(* the three entry points over the C13 model of bits.EBSPReader (exact Go reader semantics) *)
Definition c16_parse_sps (beyond : bool) (nalu : list N) : res sps := parse_sps_er beyond nalu.
Definition c16_parse_pps (spsmap : N -> option N) (nalu : list N) : res pps :=
  run (parse_pps_d ER (parse_fuel nalu) spsmap) (rinit nalu).
Definition c16_parse_slice (spsmap : N -> option sps) (ppsmap : N -> option pps) (nalu : list N)
  : res slice_hdr :=
  run (parse_slice_header_d ER (parse_fuel nalu) spsmap ppsmap) (rinit nalu).

(* ---- avc.GetSliceTypeFromNALU(data) (avc/slice.go): data[0] and data[1:] are PARTIAL here (Panic out
   of range, C16Model.idx / slice); the length test in front of them is what keeps them in range.
     if len(data) <= 1 { err }; naluType := data[0] & 0x1f; not 1,2,5,19 -> err
     r := NewEBSPReader(data[1:]); _ = ue; sliceType = ue; AccError -> err; > 9 -> err; >= 5 -> -= 5 *)
Definition get_slice_type (data : list N) : res N :=
  if (lenZ data <=? 1)%Z then Err
  else
    do b0 <- idx data 0;
    let t := avc_nalu_type b0 in
    if negb ((t =? 1) || (t =? 2) || (t =? 5) || (t =? 19)) then Err
    else
      do rest <- slice data 1 (lenZ data);
      let '(_, s1) := read_ue (rinit rest) in
      let '(st, s2) := read_ue s1 in
      if 9 <? st then Err
      else if rerr s2 then Err
      else Ok (if 5 <=? st then st - 5 else st).

(* ---- what the correspondence needs: maps built from lists of already parsed sets (Go: map[uint32]*SPS
   filled in order, later entries overwrite earlier ones with the same id) *)
Fixpoint sps_lookup (l : list sps) (id : N) : option sps :=
  match l with
  | [] => None
  | s :: t => match sps_lookup t id with Some x => Some x | None => if sps_id s =? id then Some s else None end
  end.
Fixpoint pps_lookup (l : list pps) (id : N) : option pps :=
  match l with
  | [] => None
  | p :: t => match pps_lookup t id with Some x => Some x | None => if pps_id p =? id then Some p else None end
  end.
Definition chroma_lookup (l : list sps) (id : N) : option N :=
  match sps_lookup l id with Some s => Some (sps_chroma_format_idc s) | None => None end.

(* outcome class of a result: 0 ok, 1 err, 2 panic, 3 out of fuel *)
Definition res_class {A} (r : res A) : N :=
  match r with Ok _ => 0 | Err => 1 | Panic => 2 | OutOfFuel => 3 end.
