(* C16WalkProofs.v — totality, linear tick bound and linear append bound of the length-field
   walkers (C16Model.v).  No axioms. *)
From V.lib Require Import Base.
From V.c16 Require Import C16Model.

Local Open Scope Z_scope.

Lemma lenZ_nonneg bs : 0 <= lenZ bs.
Proof. unfold lenZ. lia. Qed.

Lemma lenZ_lenN bs : lenZ bs = Z.of_N (lenN bs).
Proof. unfold lenZ, lenN. lia. Qed.

(* ---------- partial operations succeed inside their bounds ---------- *)
Lemma idx_ok bs i : 0 <= i < lenZ bs -> exists b, idx bs i = Ok b.
Proof.
  intros H. unfold idx.
  replace ((0 <=? i) && (i <? lenZ bs))%bool with true by lia.
  destruct (nth_error bs (Z.to_nat i)) eqn:E; [eauto|].
  apply nth_error_None in E. unfold lenZ in H. lia.
Qed.

Lemma slice_ok bs lo hi : 0 <= lo -> lo <= hi -> hi <= lenZ bs ->
  exists l, slice bs lo hi = Ok l /\ length l = Z.to_nat (hi - lo).
Proof.
  intros H1 H2 H3. unfold slice.
  replace ((0 <=? lo) && (lo <=? hi) && (hi <=? lenZ bs))%bool with true by lia.
  eexists. split; [reflexivity|].
  rewrite firstn_length, skipn_length. unfold lenZ in H3. lia.
Qed.

Lemma be32_ok l : (4 <= length l)%nat -> exists z, be32 l = Ok z /\ 0 <= z.
Proof.
  intros H. destruct l as [|a [|b [|c [|d r]]]]; cbn [length] in H; try lia.
  cbn [be32]. eexists. split; [reflexivity|]. lia.
Qed.

Lemma past_end_false bs pos nl : past_end bs pos nl = false -> pos + nl <= lenZ bs.
Proof. unfold past_end. lia. Qed.

(* ---------- the generic loop ---------- *)
Section Walk.
  Context {St : Type}.
  Variable bs : list N.
  Variable size : St -> N.
  Variable allow_err : bool.
  Variable body : Z -> Z -> St -> res (ctl St).

  Definition body_ok : Prop :=
    forall pos nl st, 4 <= pos < lenZ bs -> 0 <= nl ->
      (allow_err = true /\ body pos nl st = Err) \/
      (exists st', body pos nl st = Ok (Stop st') /\ (size st' <= size st + 1)%N) \/
      (exists pos' st', body pos nl st = Ok (Cont pos' st') /\ pos <= pos' <= lenZ bs /\
                        (size st' <= size st + 1)%N).

  Hypothesis Hbody : body_ok.

  Lemma walk_total : forall fuel pos st t,
      0 <= pos <= lenZ bs -> lenZ bs - pos < 4 * Z.of_nat fuel ->
      (allow_err = true /\ walk body fuel bs pos st t = Err) \/
      exists st' t', walk body fuel bs pos st t = Ok (st', t') /\ (t <= t')%N /\
                     4 * Z.of_N (t' - t) <= lenZ bs - pos /\
                     (size st' <= size st + (t' - t))%N.
  Proof.
    induction fuel as [|f IH]; intros pos st t Hp Hf.
    - lia.
    - cbn [walk]. destruct (pos <? lenZ bs - 4) eqn:Hc.
      + destruct (slice_ok bs pos (pos + 4)) as (hdr & -> & Hl); try lia.
        cbn [rbind]. destruct (be32_ok hdr) as (nl & -> & Hnl); [lia|].
        cbn [rbind].
        destruct (Hbody (pos + 4) nl st) as [[Ha ->]|[(st' & -> & Hs)|(pos' & st' & -> & Hp' & Hs)]];
          try lia; cbn [rbind].
        * left. auto.
        * right. exists st', (t + 1)%N. split; [reflexivity|].
          replace (t + 1 - t)%N with 1%N by lia. repeat split; lia.
        * destruct (IH pos' st' (t + 1)%N) as [[Ha He]|(st2 & t2 & He & Ht & Hb & Hs2)]; try lia.
          -- left. auto.
          -- right. exists st2, t2. split; [exact He|]. repeat split; lia.
      + right. exists st, t. split; [reflexivity|].
        replace (t - t)%N with 0%N by lia. repeat split; lia.
  Qed.

  Lemma walk_from_start : forall st,
      (allow_err = true /\ walk body (walk_fuel bs) bs 0 st 0 = Err) \/
      exists st' t', walk body (walk_fuel bs) bs 0 st 0 = Ok (st', t') /\
                     (4 * t' <= lenN bs)%N /\ (size st' <= size st + t')%N.
  Proof.
    intros st.
    destruct (walk_total (walk_fuel bs) 0 st 0%N) as [H|(st' & t' & He & _ & Hb & Hs)].
    - pose proof (lenZ_nonneg bs). lia.
    - unfold walk_fuel, lenZ. lia.
    - left. exact H.
    - right. exists st', t'. split; [exact He|].
      rewrite lenZ_lenN in Hb. replace (t' - 0)%N with t' in * by lia. split; lia.
  Qed.
End Walk.

(* ---------- the bodies ---------- *)
Lemma avc_nalus_body_ok bs : body_ok bs (@lenN (list N)) true (avc_nalus_body bs).
Proof.
  intros pos nl st Hp Hnl. unfold avc_nalus_body.
  destruct (past_end bs pos nl) eqn:E; [left; auto|].
  apply past_end_false in E.
  destruct (slice_ok bs pos (pos + nl)) as (s & -> & _); try lia.
  right. right. cbn [rbind]. eexists _, _. split; [reflexivity|].
  rewrite lenN_cons. split; lia.
Qed.

Lemma types_body_ok ty bs : body_ok bs (@lenN N) false (types_body ty bs).
Proof.
  intros pos nl st Hp Hnl. unfold types_body.
  destruct (idx_ok bs pos) as (b & ->); [lia|]. cbn [rbind].
  destruct (past_end bs pos nl) eqn:E.
  - right. left. eexists. split; [reflexivity|]. rewrite lenN_cons. lia.
  - apply past_end_false in E. right. right. eexists _, _. split; [reflexivity|].
    rewrite lenN_cons. split; lia.
Qed.

Lemma types_upto_body_ok ty isvid bs : body_ok bs (@lenN N) false (types_upto_body ty isvid bs).
Proof.
  intros pos nl st Hp Hnl. unfold types_upto_body.
  destruct (idx_ok bs pos) as (b & ->); [lia|]. cbn [rbind].
  destruct (past_end bs pos nl) eqn:E.
  - right. left. eexists. split; [reflexivity|]. rewrite lenN_cons. lia.
  - apply past_end_false in E. destruct (isvid (ty b)).
    + right. left. eexists. split; [reflexivity|]. rewrite lenN_cons. lia.
    + right. right. eexists _, _. split; [reflexivity|]. rewrite lenN_cons. split; lia.
Qed.

Lemma contains_body_ok ty want bs : body_ok bs (fun _ : bool => 0%N) false (contains_body ty want bs).
Proof.
  intros pos nl st Hp Hnl. unfold contains_body.
  destruct (idx_ok bs pos) as (b & ->); [lia|]. cbn [rbind].
  destruct (ty b =? want)%N.
  - right. left. eexists. split; [reflexivity|]. lia.
  - destruct (past_end bs pos nl) eqn:E.
    + right. left. eexists. split; [reflexivity|]. lia.
    + apply past_end_false in E. right. right. eexists _, _. split; [reflexivity|]. split; lia.
Qed.

Definition ps2_size (st : list (list N) * list (list N)) : N := lenN (fst st) + lenN (snd st).

Lemma avc_ps_body_ok bs : body_ok bs ps2_size false (avc_ps_body bs).
Proof.
  intros pos nl st Hp Hnl. unfold avc_ps_body.
  destruct (past_end bs pos nl) eqn:E.
  - right. left. eexists. split; [reflexivity|]. lia.
  - apply past_end_false in E.
    destruct (idx_ok bs pos) as (b & ->); [lia|]. cbn [rbind].
    destruct (slice_ok bs pos (pos + nl)) as (s & Hs & _); try lia.
    destruct (avc_nalu_type b =? 7)%N; [|destruct (avc_nalu_type b =? 8)%N; [|destruct (avc_is_video _)]].
    + rewrite Hs. cbn [rbind]. right. right. eexists _, _. split; [reflexivity|].
      unfold ps2_size. cbn [fst snd]. rewrite lenN_cons. split; lia.
    + rewrite Hs. cbn [rbind]. right. right. eexists _, _. split; [reflexivity|].
      unfold ps2_size. cbn [fst snd]. rewrite lenN_cons. split; lia.
    + right. left. eexists. split; [reflexivity|]. lia.
    + right. right. eexists _, _. split; [reflexivity|]. split; lia.
Qed.

Definition ps3_size (st : ps3) : N := let '(v, s, p) := st in lenN v + lenN s + lenN p.

Lemma hevc_ps_body_ok bs : body_ok bs ps3_size false (hevc_ps_body bs).
Proof.
  intros pos nl [[v s] p] Hp Hnl. unfold hevc_ps_body.
  destruct (past_end bs pos nl) eqn:E.
  - right. left. eexists. split; [reflexivity|]. lia.
  - apply past_end_false in E.
    destruct (idx_ok bs pos) as (b & ->); [lia|]. cbn [rbind].
    destruct (slice_ok bs pos (pos + nl)) as (x & Hs & _); try lia.
    destruct (hevc_nalu_type b =? 32)%N; [|destruct (hevc_nalu_type b =? 33)%N;
      [|destruct (hevc_nalu_type b =? 34)%N; [|destruct (hevc_is_video _)]]].
    + rewrite Hs. cbn [rbind]. right. right. eexists _, _. split; [reflexivity|].
      cbn [ps3_size]. rewrite lenN_cons. split; lia.
    + rewrite Hs. cbn [rbind]. right. right. eexists _, _. split; [reflexivity|].
      cbn [ps3_size]. rewrite lenN_cons. split; lia.
    + rewrite Hs. cbn [rbind]. right. right. eexists _, _. split; [reflexivity|].
      cbn [ps3_size]. rewrite lenN_cons. split; lia.
    + right. left. eexists. split; [reflexivity|]. lia.
    + right. right. eexists _, _. split; [reflexivity|]. split; lia.
Qed.

Local Open Scope N_scope.

Lemma lenN_rev {A} (l : list A) : lenN (rev l) = lenN l.
Proof. unfold lenN. rewrite rev_length. reflexivity. Qed.

(* ---------- per-function statements ---------- *)
(* value-or-error, ticks (loop iterations) at most |bs|/4, appended elements at most ticks *)
Definition total_err {A} (r : res (A * N)) (bs : list N) (size : A -> N) : Prop :=
  r = Err \/ exists v t, r = Ok (v, t) /\ 4 * t <= lenN bs /\ size v <= t.

(* never an error either *)
Definition total_ok {A} (r : res (A * N)) (bs : list N) (size : A -> N) (k : N) : Prop :=
  exists v t, r = Ok (v, t) /\ 4 * t <= k * lenN bs /\ size v <= t.

Lemma avc_get_nalus_total bs : total_err (avc_get_nalus_from_sample bs) bs (@lenN (list N)).
Proof.
  unfold total_err, avc_get_nalus_from_sample.
  destruct (lenZ bs <? 4)%Z; [left; reflexivity|].
  destruct (walk_from_start bs (@lenN (list N)) true _ (avc_nalus_body_ok bs) [])
    as [[_ ->]|(st & t & -> & Ht & Hs)]; cbn [rbind fst snd].
  - left. reflexivity.
  - right. eexists _, _. split; [reflexivity|]. rewrite lenN_rev, lenN_nil in *. lia.
Qed.

Lemma find_nalu_types_total ty bs : total_ok (find_nalu_types ty bs) bs (@lenN N) 1.
Proof.
  unfold total_ok, find_nalu_types.
  destruct (lenZ bs <? 4)%Z.
  - exists [], 0. split; [reflexivity|]. unfold lenN. cbn [length]. lia.
  - destruct (walk_from_start bs (@lenN N) false _ (types_body_ok ty bs) [])
      as [[Hf _]|(st & t & -> & Ht & Hs)]; [discriminate|]. cbn [rbind fst snd].
    eexists _, _. split; [reflexivity|]. rewrite lenN_rev, lenN_nil in *. lia.
Qed.

Lemma find_nalu_types_upto_total ty isvid bs : total_ok (find_nalu_types_upto ty isvid bs) bs (@lenN N) 1.
Proof.
  unfold total_ok, find_nalu_types_upto.
  destruct (lenZ bs <? 4)%Z.
  - exists [], 0. split; [reflexivity|]. unfold lenN. cbn [length]. lia.
  - destruct (walk_from_start bs (@lenN N) false _ (types_upto_body_ok ty isvid bs) [])
      as [[Hf _]|(st & t & -> & Ht & Hs)]; [discriminate|]. cbn [rbind fst snd].
    eexists _, _. split; [reflexivity|]. rewrite lenN_rev, lenN_nil in *. lia.
Qed.

Lemma avc_contains_total bs want : total_ok (avc_contains_nalu_type bs want) bs (fun _ => 0) 1.
Proof.
  unfold total_ok, avc_contains_nalu_type.
  destruct (walk_from_start bs (fun _ : bool => 0) false _ (contains_body_ok avc_nalu_type want bs) false)
    as [[Hf _]|(st & t & -> & Ht & Hs)]; [discriminate|].
  eexists _, _. split; [reflexivity|]. lia.
Qed.

Lemma hevc_contains_total bs want : total_ok (hevc_contains_nalu_type bs want) bs (fun _ => 0) 1.
Proof.
  unfold total_ok, hevc_contains_nalu_type.
  destruct (lenZ bs <? 4)%Z.
  - exists false, 0. split; [reflexivity|]. lia.
  - destruct (walk_from_start bs (fun _ : bool => 0) false _ (contains_body_ok hevc_nalu_type want bs) false)
      as [[Hf _]|(st & t & -> & Ht & Hs)]; [discriminate|].
    eexists _, _. split; [reflexivity|]. lia.
Qed.

(* the functions that scan the type list afterwards: ticks = walk ticks + list length <= 2*walk ticks *)
Lemma after_types_total (f : list N -> bool) (r : res (list N * N)) bs :
  total_ok r bs (@lenN N) 1 ->
  total_ok (do x <- r; Ok (f (fst x), snd x + lenN (fst x))) bs (fun _ => 0) 2.
Proof.
  intros (v & t & -> & Ht & Hs). cbn [rbind fst snd].
  eexists _, _. split; [reflexivity|]. lia.
Qed.

Lemma avc_has_ps_total bs : total_ok (avc_has_parameter_sets bs) bs (fun _ => 0) 2.
Proof.
  unfold avc_has_parameter_sets.
  apply (after_types_total (fun l => avc_has_ps_scan l false false)).
  apply find_nalu_types_upto_total.
Qed.

Lemma hevc_has_ps_total bs : total_ok (hevc_has_parameter_sets bs) bs (fun _ => 0) 2.
Proof.
  unfold hevc_has_parameter_sets.
  apply (after_types_total (fun l => hevc_has_ps_scan l false false false)).
  apply find_nalu_types_upto_total.
Qed.

Lemma hevc_is_rap_total bs : total_ok (hevc_is_rap_sample bs) bs (fun _ => 0) 2.
Proof.
  unfold hevc_is_rap_sample.
  apply (after_types_total (existsb (in_range 16 23))). apply find_nalu_types_total.
Qed.

Lemma hevc_is_idr_total bs : total_ok (hevc_is_idr_sample bs) bs (fun _ => 0) 2.
Proof.
  unfold hevc_is_idr_sample.
  apply (after_types_total (existsb (in_range 19 20))). apply find_nalu_types_total.
Qed.

Lemma avc_get_ps_total bs : total_ok (avc_get_parameter_sets bs) bs ps2_size 1.
Proof.
  unfold total_ok, avc_get_parameter_sets.
  destruct (walk_from_start bs ps2_size false _ (avc_ps_body_ok bs) ([], []))
    as [[Hf _]|(st & t & -> & Ht & Hs)]; [discriminate|]. cbn [rbind fst snd].
  eexists _, _. split; [reflexivity|]. unfold ps2_size in *. cbn [fst snd] in *.
  rewrite !lenN_rev. change (@lenN (list N) []) with 0%N in Hs. lia.
Qed.

Lemma hevc_get_ps_total bs : total_ok (hevc_get_parameter_sets bs) bs ps3_size 1.
Proof.
  unfold total_ok, hevc_get_parameter_sets.
  destruct (walk_from_start bs ps3_size false _ (hevc_ps_body_ok bs) ([], [], []))
    as [[Hf _]|(st & t & -> & Ht & Hs)]; [discriminate|]. cbn [rbind fst snd].
  destruct st as [[v s] p]. cbn [fst snd].
  eexists _, _. split; [reflexivity|]. cbn [ps3_size] in *.
  rewrite !lenN_rev. change (@lenN (list N) []) with 0%N in Hs. lia.
Qed.

(* ---------- ConvertSampleToByteStream ---------- *)
Local Open Scope Z_scope.

Lemma put4_ok buf pos v : 0 <= pos -> pos + 4 <= lenZ buf -> length v = 4%nat ->
  exists b, put4 buf pos v = Ok b /\ lenZ b = lenZ buf.
Proof.
  intros H1 H2 Hv. unfold put4.
  replace ((0 <=? pos) && (pos + 4 <=? lenZ buf))%bool with true by lia.
  eexists. split; [reflexivity|]. unfold lenZ in *.
  rewrite !app_length, firstn_length, skipn_length, Hv. lia.
Qed.

Lemma convert_loop_total : forall fuel buf pos t,
    0 <= pos <= lenZ buf -> lenZ buf - pos < 4 * Z.of_nat fuel ->
    exists b t', convert_loop fuel buf pos t = Ok (b, t') /\ (t <= t')%N /\
                 4 * Z.of_N (t' - t) <= lenZ buf - pos /\ lenZ b = lenZ buf.
Proof.
  induction fuel as [|f IH]; intros buf pos t Hp Hf.
  - lia.
  - cbn [convert_loop]. destruct (pos <=? lenZ buf - 4) eqn:Hc.
    + destruct (slice_ok buf pos (pos + 4)) as (hdr & -> & Hl); try lia.
      cbn [rbind]. destruct (be32_ok hdr) as (nl & -> & Hnl); [lia|].
      cbn [rbind]. destruct (put4_ok buf pos [0; 0; 0; 1]%N) as (b & -> & Hb); try lia; [reflexivity|].
      cbn [rbind]. destruct (past_end b (pos + 4) nl) eqn:E.
      * exists b, (t + 1)%N. split; [reflexivity|].
        replace (t + 1 - t)%N with 1%N by lia. repeat split; lia.
      * apply past_end_false in E.
        destruct (IH b (pos + 4 + nl) (t + 1)%N) as (b2 & t2 & He & Ht & Hb2 & Hl2); try lia.
        exists b2, t2. split; [exact He|]. repeat split; lia.
    + exists buf, t. split; [reflexivity|].
      replace (t - t)%N with 0%N by lia. repeat split; lia.
Qed.

Lemma convert_total bs :
  exists b t, convert_sample_to_byte_stream bs = Ok (b, t) /\ (4 * t <= lenN bs)%N /\ lenN b = lenN bs.
Proof.
  unfold convert_sample_to_byte_stream.
  destruct (convert_loop_total (walk_fuel bs) bs 0 0%N) as (b & t & He & _ & Hb & Hl).
  - pose proof (lenZ_nonneg bs). lia.
  - unfold walk_fuel, lenZ. lia.
  - exists b, t. split; [exact He|]. rewrite !lenZ_lenN in *. split; lia.
Qed.
