(* C16SeiFswTieProofs.v — the partial model of bits.FixedSliceWriter (C16SeiFswModel.v) returns exactly the bytes of
   C17's total model C17TypedModel.fsw_bytes (C13 plain bit writer on an unbounded output, cut at the capacity),
   for every capacity and every sequence of writes whose values fit Go's uint (64 bit). *)
From V.lib Require Import Base.
From V.c13 Require Import C13Model.
From V.c17 Require Import C17TypedModel.
From V.c16 Require Import C16AuxModel C16SeiFswModel C16SeiFswProofs.

(* buffer part of the simulation relation: `out` is the C13 writer's output in reverse order *)
Definition repb (cap : nat) (s : fsw) (out : list N) : Prop :=
  length (f_buf s) = cap /\
  if f_err s then f_off s = Z.of_nat cap /\ f_buf s = firstn cap (rev out)
  else (0 <= f_off s <= Z.of_nat cap)%Z /\ firstn (Z.to_nat (f_off s)) (f_buf s) = rev out.

Lemma firstn_snoc_full {A} (l : list A) (b : A) n : (n <= length l)%nat -> firstn n (l ++ [b]) = firstn n l.
Proof.
  intros H. rewrite firstn_app. replace (n - length l)%nat with O by lia. cbn [firstn]. apply app_nil_r.
Qed.

Lemma firstn_full_len {A} (l m : list A) n : l = firstn n m -> length l = n -> (n <= length m)%nat.
Proof. intros -> H. rewrite firstn_length in H. lia. Qed.

Lemma u8_repb cap s b out s' : repb cap s out -> fsw_u8 s b = Ok s' ->
  repb cap s' (b :: out) /\ f_n s' = f_n s /\ f_v s' = f_v s.
Proof.
  intros (L & R) E. unfold fsw_u8 in E. unfold lenZ in E. rewrite L in E.
  destruct (f_err s) eqn:Er.
  - destruct R as (Ro & Rb).
    replace (f_off s + 1 >? Z.of_nat cap)%Z with true in E by (symmetry; apply Z.gtb_lt; lia).
    inversion E; subst s'; clear E. cbn [f_n f_v]. split; [|split; reflexivity].
    unfold repb. cbn [f_buf f_off f_err]. split; [exact L|]. split; [exact Ro|].
    cbn [rev]. rewrite firstn_snoc_full; [exact Rb|].
    apply (firstn_full_len (f_buf s)); assumption.
  - destruct R as (Ro & Rb).
    destruct (f_off s + 1 >? Z.of_nat cap)%Z eqn:G.
    + apply Z.gtb_lt in G. inversion E; subst s'; clear E. cbn [f_n f_v]. split; [|split; reflexivity].
      unfold repb. cbn [f_buf f_off f_err]. split; [exact L|].
      assert (f_off s = Z.of_nat cap) by lia. split; [assumption|].
      rewrite H, Nat2Z.id in Rb. rewrite <- L in Rb at 1. rewrite firstn_all in Rb.
      cbn [rev]. rewrite <- Rb. rewrite firstn_snoc_full by lia. rewrite <- L. symmetry; apply firstn_all.
    + rewrite Z.gtb_ltb in G. apply Z.ltb_ge in G.
      unfold pupd in E. unfold lenZ in E. rewrite L in E.
      replace ((0 <=? f_off s) && (f_off s <? Z.of_nat cap))%Z with true in E
        by (symmetry; apply andb_true_intro; split; [apply Z.leb_le|apply Z.ltb_lt]; lia).
      cbn [rbind] in E. inversion E; subst s'; clear E. cbn [f_n f_v]. split; [|split; reflexivity].
      unfold repb. cbn [f_buf f_off f_err].
      set (k := Z.to_nat (f_off s)) in *.
      change (match f_buf s with [] => [] | _ :: l => skipn k l end) with (skipn (S k) (f_buf s)).
      assert (Hk : (k < cap)%nat) by lia.
      assert (Lf : length (firstn k (f_buf s)) = k) by (rewrite firstn_length; lia).
      split.
      * rewrite app_length. cbn [length]. rewrite Lf, skipn_length. lia.
      * split; [lia|].
        replace (Z.to_nat (f_off s + 1)) with (S k) by lia.
        rewrite firstn_app, Lf. replace (S k - k)%nat with 1%nat by lia.
        rewrite (firstn_all2 (n := S k)) by lia. cbn [firstn rev]. rewrite Rb. reflexivity.
Qed.

Lemma drain_sim cap : forall fuel s T nr0 out s', repb cap s out -> f_n s = Z.of_N T ->
  fsw_drain fuel s = Ok s' ->
  let '(T', z, o) := drain false fuel (f_v s) T nr0 out in
  repb cap s' o /\ f_n s' = Z.of_N T' /\ f_v s' = f_v s /\ exists new, o = new ++ out.
Proof.
  induction fuel as [|f IH]; intros s T nr0 out s' R Hn E; [discriminate E|].
  cbn [fsw_drain drain] in *.
  replace (8 <=? f_n s)%Z with (8 <=? T) in E by (rewrite Hn; apply eq_true_iff_eq; rewrite N.leb_le, Z.leb_le; lia).
  destruct (8 <=? T) eqn:G.
  - apply N.leb_le in G.
    replace (Z.to_N (f_n s - 8)) with (T - 8) in E by lia.
    set (b := N.land (N.shiftr (f_v s) (T - 8)) 255) in *.
    destruct (fsw_u8 s b) as [s1| | |] eqn:E1; cbn [rbind] in E; try discriminate E.
    destruct (u8_repb cap s b out s1 R E1) as (R1 & N1 & V1).
    cbn [emit_byte andb].
    specialize (IH (mkFsw (f_buf s1) (f_off s1) (f_n s1 - 8)%Z (f_v s1) (f_err s1)) (T - 8)
                   (if b =? 0 then nr0 + 1 else 0) (b :: out) s').
    cbn [f_v f_n] in IH. rewrite <- V1.
    destruct (drain false f (f_v s1) (T - 8) (if b =? 0 then nr0 + 1 else 0) (b :: out)) as ((T' & z) & o).
    assert (P1 : (f_n s1 - 8)%Z = Z.of_N (T - 8)) by lia.
    pose proof (IH R1 P1 E) as Q. cbv beta iota in Q. destruct Q as (A & B & C & (nw & D)).
    split; [exact A|]. split; [exact B|]. split; [exact C|]. exists (nw ++ [b]). rewrite <- app_assoc. exact D.
  - inversion E; subst s'. split; [exact R|]. split; [exact Hn|]. split; [reflexivity|]. exists []. reflexivity.
Qed.

Definition rep (cap : nat) (s : fsw) (w : wstate) : Prop :=
  repb cap s (wrev w) /\ (f_err s = false -> f_n s = Z.of_N (wn w) /\ f_v s = wv w).

Lemma land_mask64 bits n : bits < two64 -> N.land (bits mod two64) (mask64 n) = N.land bits (N.ones n).
Proof.
  intros H. rewrite (N.mod_small bits two64 H). unfold mask64. destruct (n <? 64) eqn:E.
  - rewrite N.ones_equiv. rewrite <- N.sub_1_r. reflexivity.
  - apply N.ltb_ge in E. rewrite N.land_ones.
    assert (two64 <= 2 ^ n) by (change two64 with (2 ^ 64); apply N.pow_le_mono_r; lia).
    rewrite (N.mod_small bits (2 ^ n)) by lia.
    change (two64 - 1) with (N.ones 64). rewrite N.land_ones. apply N.mod_small. exact H.
Qed.

(* err state: later output of the C13 writer lies beyond the capacity *)
Lemma repb_err_app cap s out new : f_err s = true -> repb cap s out -> repb cap s (new ++ out).
Proof.
  intros Er (L & R). unfold repb. rewrite Er in *. destruct R as (Ro & Rb). split; [exact L|]. split; [exact Ro|].
  rewrite rev_app_distr, firstn_app.
  assert ((cap <= length (rev out))%nat) by (apply (firstn_full_len (f_buf s)); assumption).
  replace (cap - length (rev out))%nat with O by lia. cbn [firstn]. rewrite app_nil_r. exact Rb.
Qed.

Lemma drain_app : forall fuel V T z out, exists nw, snd (drain false fuel V T z out) = nw ++ out.
Proof.
  induction fuel as [|f IH]; intros V T z out; cbn [drain]; [exists []; reflexivity|].
  destruct (8 <=? T); [|exists []; reflexivity]. cbn [emit_byte andb].
  destruct (IH V (T - 8) (if N.land (N.shiftr V (T - 8)) 255 =? 0 then z + 1 else 0)
               (N.land (N.shiftr V (T - 8)) 255 :: out)) as (nw & D).
  exists (nw ++ [N.land (N.shiftr V (T - 8)) 255]). rewrite <- app_assoc. exact D.
Qed.

Lemma bits_sim cap s w bits n s' : rep cap s w -> bits < two64 -> fsw_bits s bits n = Ok s' ->
  rep cap s' (write_plain w bits n).
Proof.
  intros (R & Hv) Hb E. unfold fsw_bits in E. unfold write_plain, write_gen.
  destruct (f_err s) eqn:Er.
  - inversion E; subst s'; clear E.
    destruct (drain_app (S (N.to_nat ((wn w + n) / 8)))
                (N.lor (u64 (N.shiftl (wv w) n)) (N.land bits (N.ones n))) (wn w + n) (wnr0 w) (wrev w)) as (nw & X).
    revert X.
    destruct (drain false _ _ _ _ _) as ((T' & z) & o). cbn [snd]. intros ->.
    split; [|intros C; rewrite Er in C; discriminate C]. cbn [wrev]. apply repb_err_app; assumption.
  - destruct (Hv eq_refl) as (Hn & Hvv). cbv zeta in E.
    rewrite land_mask64 in E by exact Hb. rewrite Hvv, Hn in E. unfold u64.
    replace (Z.to_nat ((Z.of_N (wn w) + Z.of_N n) / 8)) with (N.to_nat ((wn w + n) / 8)) in E
      by (rewrite <- N2Z.inj_add; change 8%Z with (Z.of_N 8); rewrite <- N2Z.inj_div, <- Z_N_nat, N2Z.id; reflexivity).
    set (V := N.lor (N.shiftl (wv w) n mod two64) (N.land bits (N.ones n))) in *.
    set (s0 := mkFsw (f_buf s) (f_off s) (Z.of_N (wn w) + Z.of_N n) V false) in *.
    destruct (fsw_drain (S (N.to_nat ((wn w + n) / 8))) s0) as [s2| | |] eqn:E2; cbn [rbind] in E; try discriminate E.
    inversion E; subst s'; clear E.
    assert (P0 : repb cap s0 (wrev w)).
    { destruct R as (L & R). unfold repb, s0. cbn [f_buf f_off f_err]. rewrite Er in R. split; assumption. }
    assert (P1 : f_n s0 = Z.of_N (wn w + n)) by (unfold s0; cbn [f_n]; lia).
    pose proof (drain_sim cap (S (N.to_nat ((wn w + n) / 8))) s0 (wn w + n) (wnr0 w) (wrev w) s2 P0 P1 E2) as D.
    change (f_v s0) with V in D.
    change 18446744073709551616 with two64. fold V.
    revert D.
    destruct (drain false (S (N.to_nat ((wn w + n) / 8))) V (wn w + n) (wnr0 w) (wrev w)) as ((T' & z) & o).
    intros (A & B & C & _).
    split.
    + destruct A as (L & A). unfold repb. cbn [f_buf f_off f_err wrev]. split; assumption.
    + intros _. cbn [f_n f_v wn wv]. split; [exact B|]. rewrite C. reflexivity.
Qed.

Lemma land255_mod64 x : N.land (x mod two64) 255 = N.land x 255.
Proof.
  change 255 with (N.ones 8). rewrite !N.land_ones.
  change two64 with (2 ^ 8 * 2 ^ 56). rewrite N.mod_mul_r by (cbn; lia).
  rewrite (N.mul_comm (2 ^ 8)), N.mod_add by (cbn; lia). apply N.mod_mod. cbn; lia.
Qed.

Lemma flush_sim cap s w s' : rep cap s w -> fsw_flush s = Ok s' -> rep cap s' (flush_plain w).
Proof.
  intros (R & Hv) E. unfold fsw_flush in E. unfold flush_plain.
  destruct (f_err s) eqn:Er.
  - inversion E; subst s'; clear E.
    destruct (wn w =? 0); [split; [exact R|intros C; rewrite Er in C; discriminate C]|].
    split; [|intros C; rewrite Er in C; discriminate C]. cbn [wrev].
    apply (repb_err_app cap s (wrev w) [_]); assumption.
  - destruct (Hv eq_refl) as (Hn & Hvv).
    replace (f_n s =? 0)%Z with (wn w =? 0) in E by (rewrite Hn; apply eq_true_iff_eq; rewrite N.eqb_eq, Z.eqb_eq; lia).
    destruct (wn w =? 0) eqn:Z0.
    + inversion E; subst s'. split; [exact R|intros _; split; assumption].
    + rewrite land255_mod64 in E. destruct (u8_repb cap s _ (wrev w) s' R E) as (R1 & N1 & V1).
      replace (Z.to_N (8 - f_n s)) with (8 - wn w) in R1.
      2:{ rewrite Hn. apply N.eqb_neq in Z0. destruct (N.le_gt_cases (wn w) 8); [lia|].
          replace (8 - wn w) with 0 by lia. lia. }
      rewrite Hvv in R1. split; [exact R1|]. intros _. cbn [wn wv]. rewrite N1, V1. split; assumption.
Qed.

Definition op_u64 (o : wop) : bool :=
  match o with WBits v _ => v <? two64 | _ => true end.

Lemma step_sim cap s w o s' : rep cap s w -> op_u64 o = true -> fsw_step s o = Ok s' ->
  rep cap s' (wstep_plain w o).
Proof.
  intros R Ho E. destruct o; cbn [fsw_step wstep_plain op_u64] in *;
    try (inversion E; subst s'; exact R).
  - apply (bits_sim cap s w v w0 s' R); [apply N.ltb_lt; exact Ho|exact E].
  - apply (bits_sim cap s w (b2n b) 1 s' R); [destruct b; reflexivity|exact E].
  - apply (flush_sim cap s w s' R E).
Qed.

Lemma run_sim cap : forall ops s w s', rep cap s w -> forallb op_u64 ops = true -> fsw_run s ops = Ok s' ->
  rep cap s' (fold_left wstep_plain ops w).
Proof.
  induction ops as [|o t IH]; intros s w s' R Ho E; cbn [fsw_run fold_left forallb] in *.
  - inversion E; subst s'; exact R.
  - apply andb_prop in Ho. destruct Ho as (H1 & H2).
    destruct (fsw_step s o) as [s1| | |] eqn:E1; cbn [rbind] in E; try discriminate E.
    apply (IH s1 (wstep_plain w o) s'); [apply (step_sim cap s w o s1); assumption|exact H2|exact E].
Qed.

(* every capacity, every sequence of writes of uint values: the bytes of C17's total model *)
Lemma fsw_payload_is_fsw_bytes (cap : N) ops bs e :
  forallb op_u64 ops = true -> fsw_payload_p (Z.of_N cap) ops = Ok (bs, e) -> bs = fsw_bytes cap ops.
Proof.
  intros Ho E. unfold fsw_payload_p in E.
  unfold fsw_new in E. replace (Z.of_N cap <? 0)%Z with false in E by (symmetry; apply Z.ltb_ge; lia).
  cbn [rbind] in E. replace (Z.to_nat (Z.of_N cap)) with (N.to_nat cap) in E by lia.
  set (s0 := mkFsw (repeat 0 (N.to_nat cap)) 0 0 0 false) in *.
  assert (R0 : rep (N.to_nat cap) s0 winit).
  { split; [|intros _; split; reflexivity]. unfold repb, s0. cbn [f_buf f_off f_err wrev winit].
    rewrite repeat_length. repeat split; try lia. }
  destruct (fsw_run s0 ops) as [s1| | |] eqn:E1; cbn [rbind] in E; try discriminate E.
  pose proof (run_sim (N.to_nat cap) ops s0 winit s1 R0 Ho E1) as R1.
  destruct (fsw_flush s1) as [s2| | |] eqn:E2; cbn [rbind] in E; try discriminate E.
  pose proof (flush_sim (N.to_nat cap) s1 _ s2 R1 E2) as R2.
  destruct (fsw_bytes_p s2) as [b2| | |] eqn:E3; cbn [rbind] in E; try discriminate E.
  inversion E; subst bs e; clear E.
  unfold fsw_bytes, run_writer_plain. rewrite fold_left_app. cbn [fold_left wstep_plain].
  set (w2 := flush_plain (fold_left wstep_plain ops winit)) in *.
  destruct R2 as ((L & R) & _). unfold wout.
  unfold fsw_bytes_p, pslice in E3.
  destruct ((0 <=? 0) && (0 <=? f_off s2) && (f_off s2 <=? lenZ (f_buf s2)))%Z; [|discriminate E3].
  inversion E3; subst b2; clear E3. cbn [skipn Z.to_nat]. rewrite Z.sub_0_r.
  destruct (f_err s2).
  - destruct R as (Ro & Rb). rewrite Ro, Nat2Z.id. rewrite <- L at 1. rewrite firstn_all. exact Rb.
  - destruct R as (Ro & Rb). rewrite Rb. symmetry. apply firstn_all2.
    rewrite <- Rb, firstn_length. lia.
Qed.

Lemma tc_payload_is_c17 cs : forallb op_u64 (tc_ops cs) = true ->
  exists e, tc_payload_p cs = Ok (tc_payload cs, e).
Proof.
  intros H. destruct (tc_payload_total cs) as (bs & e & E & _). exists e. rewrite E.
  unfold tc_payload_p in E. rewrite (fsw_payload_is_fsw_bytes _ _ _ _ H E). reflexivity.
Qed.

Lemma pt_payload_is_c17 m : forallb op_u64 (pt_ops m) = true ->
  exists e, pt_payload_p m = Ok (pt_payload m, e).
Proof.
  intros H. destruct (pt_payload_total m) as (bs & e & E & _). exists e. rewrite E.
  unfold pt_payload_p in E. rewrite (fsw_payload_is_fsw_bytes _ _ _ _ H E). reflexivity.
Qed.
