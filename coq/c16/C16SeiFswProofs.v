(* C16SeiFswProofs.v — TimeCodeSEI.Payload / PicTimingAvcSEI.Payload through the partial model of
   bits.FixedSliceWriter (C16SeiFswModel.v): for EVERY capacity >= 0 and EVERY sequence of writes no index or
   slice expression fails, the bit loop ends, the result is at most `capacity` bytes.  The invariant is
   0 <= off <= len(buf) = capacity and 0 <= n < 8 between two calls. *)
From V.lib Require Import Base.
From V.c13 Require Import C13Model.
From V.c17 Require Import C17TypedModel.
From V.c16 Require Import C16AuxModel C16SeiFswModel C16AuxSeiProofs.

Definition good (cap : Z) (s : fsw) : Prop :=
  (0 <= f_off s <= lenZ (f_buf s))%Z /\ lenZ (f_buf s) = cap /\ (0 <= f_n s < 8)%Z.

(* the same without the bound on n (inside WriteBits) *)
Definition good0 (cap : Z) (s : fsw) : Prop :=
  (0 <= f_off s <= lenZ (f_buf s))%Z /\ lenZ (f_buf s) = cap /\ (0 <= f_n s)%Z.

Lemma pupd_ok l i b : (0 <= i < lenZ l)%Z ->
  exists l', pupd l i b = Ok l' /\ lenZ l' = lenZ l.
Proof.
  intros H. unfold pupd.
  replace ((0 <=? i) && (i <? lenZ l))%Z with true by (symmetry; apply andb_true_intro; split; [apply Z.leb_le|apply Z.ltb_lt]; lia).
  eexists; split; [reflexivity|].
  unfold lenZ in *. rewrite app_length. cbn [length]. rewrite firstn_length, skipn_length.
  assert (Z.to_nat i < length l)%nat by lia. rewrite Nat.min_l by lia. set (k := Z.to_nat i) in *. clearbody k. lia.
Qed.

Lemma fsw_u8_ok cap s b : good0 cap s ->
  exists s', fsw_u8 s b = Ok s' /\ good0 cap s' /\ f_n s' = f_n s /\ f_v s' = f_v s.
Proof.
  intros (Ho & Hl & Hn). unfold fsw_u8.
  destruct (f_off s + 1 >? lenZ (f_buf s))%Z eqn:E.
  - eexists; split; [reflexivity|]. unfold good0. cbn [f_off f_buf f_n f_v f_err]. intuition lia.
  - assert (f_off s + 1 <= lenZ (f_buf s))%Z by (rewrite Z.gtb_ltb in E; apply Z.ltb_ge in E; lia).
    destruct (pupd_ok (f_buf s) (f_off s) b) as (l' & E1 & L1); [lia|].
    rewrite E1. cbn [rbind]. eexists; split; [reflexivity|]. unfold good0. cbn [f_off f_buf f_n f_v f_err]. intuition lia.
Qed.

Lemma fsw_drain_ok cap : forall fuel s, good0 cap s -> (Z.to_nat (f_n s / 8) < fuel)%nat ->
  exists s', fsw_drain fuel s = Ok s' /\ good cap s'.
Proof.
  induction fuel as [|f IH]; intros s G Hf; [lia|].
  cbn [fsw_drain]. destruct (8 <=? f_n s)%Z eqn:E.
  - apply Z.leb_le in E.
    destruct (fsw_u8_ok cap s (N.land (N.shiftr (f_v s) (Z.to_N (f_n s - 8))) 255) G) as (s1 & E1 & G1 & N1 & V1).
    rewrite E1. cbn [rbind]. apply IH.
    + destruct G1 as (A & B & C). unfold good0. cbn [f_off f_buf f_n f_v f_err]. intuition lia.
    + cbn [f_off f_buf f_n f_v f_err]. rewrite N1. lia.
  - apply Z.leb_gt in E. eexists; split; [reflexivity|].
    destruct G as (A & B & C). unfold good. intuition lia.
Qed.

Lemma fsw_bits_ok cap s b n : good cap s -> exists s', fsw_bits s b n = Ok s' /\ good cap s'.
Proof.
  intros G. unfold fsw_bits. destruct (f_err s); [eexists; split; [reflexivity|exact G]|].
  cbv zeta.
  edestruct (fsw_drain_ok cap (S (Z.to_nat ((f_n s + Z.of_N n) / 8)))) as (s2 & E2 & G2);
    [| |rewrite E2; cbn [rbind]; eexists; split; [reflexivity|exact G2]].
  - destruct G as (A & B & C). unfold good0. cbn [f_off f_buf f_n f_v f_err]. intuition lia.
  - cbn [f_off f_buf f_n f_v f_err]. lia.
Qed.

Lemma fsw_flush_ok cap s : good cap s -> exists s', fsw_flush s = Ok s' /\ good cap s'.
Proof.
  intros G. unfold fsw_flush. destruct (f_err s); [eexists; split; [reflexivity|exact G]|].
  destruct (f_n s =? 0)%Z; [eexists; split; [reflexivity|exact G]|].
  assert (G0 : good0 cap s) by (destruct G as (A & B & C); unfold good0; intuition lia).
  destruct (fsw_u8_ok cap s (N.land (N.shiftl (f_v s) (Z.to_N (8 - f_n s)) mod two64) 255) G0) as (s1 & E1 & G1 & N1 & _).
  exists s1; split; [exact E1|]. destruct G as (_ & _ & C). destruct G1 as (A1 & B1 & C1). unfold good. intuition lia.
Qed.

Lemma fsw_step_ok cap s o : good cap s -> exists s', fsw_step s o = Ok s' /\ good cap s'.
Proof.
  intros G. destruct o; cbn [fsw_step]; try (eexists; split; [reflexivity|exact G]).
  - apply fsw_bits_ok; exact G.
  - apply fsw_bits_ok; exact G.
  - apply fsw_flush_ok; exact G.
Qed.

Lemma fsw_run_ok cap : forall ops s, good cap s -> exists s', fsw_run s ops = Ok s' /\ good cap s'.
Proof.
  induction ops as [|o t IH]; intros s G; cbn [fsw_run]; [eexists; split; [reflexivity|exact G]|].
  destruct (fsw_step_ok cap s o G) as (s1 & E1 & G1). rewrite E1. cbn [rbind]. apply IH; exact G1.
Qed.

Lemma fsw_new_ok cap : (0 <= cap)%Z -> exists s, fsw_new cap = Ok s /\ good cap s.
Proof.
  intros H. unfold fsw_new. replace (cap <? 0)%Z with false by (symmetry; apply Z.ltb_ge; lia).
  eexists; split; [reflexivity|]. unfold good, lenZ. cbn. rewrite repeat_length. lia.
Qed.

Lemma fsw_bytes_ok cap s : good cap s -> exists bs, fsw_bytes_p s = Ok bs /\ (lenZ bs <= cap)%Z.
Proof.
  intros (A & B & C). unfold fsw_bytes_p, pslice.
  replace ((0 <=? 0) && (0 <=? f_off s) && (f_off s <=? lenZ (f_buf s)))%Z with true
    by (symmetry; repeat (apply andb_true_intro; split); apply Z.leb_le; lia).
  eexists; split; [reflexivity|]. unfold lenZ in *. rewrite firstn_length. cbn [skipn Z.to_nat]. lia.
Qed.

(* every capacity >= 0, every sequence of writes *)
Lemma fsw_payload_total cap ops : (0 <= cap)%Z ->
  exists bs e, fsw_payload_p cap ops = Ok (bs, e) /\ (lenZ bs <= cap)%Z.
Proof.
  intros H. unfold fsw_payload_p.
  destruct (fsw_new_ok cap H) as (s0 & E0 & G0). rewrite E0. cbn [rbind].
  destruct (fsw_run_ok cap ops s0 G0) as (s1 & E1 & G1). rewrite E1. cbn [rbind].
  destruct (fsw_flush_ok cap s1 G1) as (s2 & E2 & G2). rewrite E2. cbn [rbind].
  destruct (fsw_bytes_ok cap s2 G2) as (bs & E3 & L). rewrite E3. cbn [rbind].
  exists bs, (f_err s2). split; [reflexivity|exact L].
Qed.

(* ------------------------------------------------------------------ Size() is linear in the number of clocks *)
Lemma hms_nrbits_le full sf mf hf : hms_nrbits full sf mf hf <= 20.
Proof. unfold hms_nrbits. destruct full, sf, mf, hf; cbn; lia. Qed.

Lemma tc_bits_le : forall cs, sumN (map clock_nrbits cs) <= 44 * lenN cs + sumN (map c_tolen cs).
Proof.
  induction cs as [|c t IH]; [cbn; lia|].
  cbn [map sumN]. rewrite lenN_cons.
  assert (clock_nrbits c <= 44 + c_tolen c).
  { unfold clock_nrbits. pose proof (hms_nrbits_le (c_full c) (c_secflag c) (c_minflag c) (c_hrflag c)).
    destruct (c_flag c); lia. }
  lia.
Qed.

Lemma pt_bits_le : forall cs, sumN (map clock_avc_nrbits cs) <= 40 * lenN cs + sumN (map a_tolen cs).
Proof.
  induction cs as [|c t IH]; [cbn; lia|].
  cbn [map sumN]. rewrite lenN_cons.
  assert (clock_avc_nrbits c <= 40 + a_tolen c).
  { unfold clock_avc_nrbits. pose proof (hms_nrbits_le (a_full c) (a_secflag c) (a_minflag c) (a_hrflag c)).
    destruct (a_flag c); lia. }
  lia.
Qed.

(* TimeCodeSEI.Payload(): EVERY message value *)
Lemma tc_payload_total cs :
  exists bs e, tc_payload_p cs = Ok (bs, e) /\ lenN bs <= tc_size cs /\
               8 * tc_size cs <= 9 + 44 * lenN cs + sumN (map c_tolen cs).
Proof.
  destruct (fsw_payload_total (Z.of_N (tc_size cs)) (tc_ops cs)) as (bs & e & E & L); [lia|].
  exists bs, e. split; [exact E|]. split.
  - unfold lenZ, lenN in *. lia.
  - unfold tc_size. pose proof (tc_bits_le cs). lia.
Qed.

Definition hrd_bits (h : option hrd_delay) : N :=
  match h with Some h => (h_cpb_len1 h + 1) + (h_dpb_len1 h + 1) | None => 0 end.

(* PicTimingAvcSEI.Payload(): EVERY message value *)
Lemma pt_payload_total m :
  exists bs e, pt_payload_p m = Ok (bs, e) /\ lenN bs <= pt_size m /\
               8 * pt_size m <= hrd_bits (p_hrd m) + 11 + 40 * lenN (p_clocks m) + sumN (map a_tolen (p_clocks m)).
Proof.
  destruct (fsw_payload_total (Z.of_N (pt_size m)) (pt_ops m)) as (bs & e & E & L); [lia|].
  exists bs, e. split; [exact E|]. split.
  - unfold lenZ, lenN in *. lia.
  - unfold pt_size, hrd_bits. pose proof (pt_bits_le (p_clocks m)). destruct (p_hrd m); lia.
Qed.

(* decode EVERY payload, then Payload() *)
Lemma tc_decode_payload_total payload :
  tc_decode_payload_p payload = Err \/
  exists k bs e, tc_decode_payload_p payload = Ok (k, bs, e) /\ k <= 3.
Proof.
  unfold tc_decode_payload_p.
  destruct (tc_decode_total payload) as [E|(cs & E & L & _)]; rewrite E; cbn [rbind]; [left; reflexivity|].
  destruct (tc_payload_total cs) as (bs & e & E1 & _). rewrite E1. cbn [rbind fst snd].
  right. exists (lenN cs), bs, e. split; [reflexivity|exact L].
Qed.

Lemma pt_decode_payload_total ext tolen payload :
  pt_decode_payload_p ext tolen payload = Err \/
  exists k bs e, pt_decode_payload_p ext tolen payload = Ok (k, bs, e) /\ 1 <= k <= 3.
Proof.
  unfold pt_decode_payload_p.
  destruct (pt_decode_total ext tolen payload) as [E|(m & E & L & _)]; rewrite E; cbn [rbind]; [left; reflexivity|].
  destruct (pt_payload_total m) as (bs & e & E1 & _). rewrite E1. cbn [rbind fst snd].
  right. exists (lenN (p_clocks m)), bs, e. split; [reflexivity|exact L].
Qed.
