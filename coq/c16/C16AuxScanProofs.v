(* C16AuxScanProofs.v — the Annex B scanners (C14 models, imported read-only; they already use partial
   `getb` / `slice` / `copy_into` and fuel) are total on hostile input, lifted from the C14 lemmas:
     - getStartCodePositions (word-at-a-time scanner): for every BYTE list (elements < 256: the word trick
       is about bytes) it returns the naive scan (C14 scanner_eq_naive), so never Panic / OutOfFuel; at
       most one start code per position;
     - ConvertByteStreamToNaluSample: for every byte list, whatever the mix / adjacency of start codes
       (not only the well-formed streams of C14): Ok, output at most 5x the input;
     - ExtractNalusFromByteStream: for EVERY list (no hypothesis): Ok, at most |d| units.
   Iterations: every loop of these models runs on fuel S |input| (inner_loop: 8) and consumes one unit of
   fuel per iteration, so "never OutOfFuel" is "at most |input| + 1 iterations of each loop"; the
   trailing-zero trimming loop inside ExtractNalusFromByteStream is bounded per start code by the
   distance to the previous one (trim_loop_total).
   No axioms. *)
From V.lib Require Import Base.
From V.c14 Require Import C14Spec C14Model C14WordProofs C14ScanProofs C14ConvProofs C14StreamProofs.
Local Open Scope Z_scope.

(* ------------------------------------------------------------------ partial primitives in range *)
Lemma slice_ok (l : list N) a b : 0 <= a -> a <= b -> b <= Zlen l ->
  slice l a b = Ok (firstn (Z.to_nat (b - a)) (skipn (Z.to_nat a) l)).
Proof.
  intros H1 H2 H3. unfold slice. replace ((0 <=? a) && (a <=? b) && (b <=? Zlen l)) with true; [reflexivity|].
  symmetry. rewrite !andb_true_iff. repeat split; lia.
Qed.

Lemma Zlen_slice (l : list N) a b : 0 <= a -> a <= b -> b <= Zlen l ->
  Zlen (firstn (Z.to_nat (b - a)) (skipn (Z.to_nat a) l)) = b - a.
Proof. intros. unfold Zlen in *. rewrite firstn_length, skipn_length. lia. Qed.

Lemma copy_into_4 (l : list N) a b (src : list N) : 0 <= a -> b = a + 4 -> b <= Zlen l -> Zlen src = 4 ->
  exists l', copy_into l a b src = Ok l' /\ Zlen l' = Zlen l.
Proof.
  intros H1 H2 H3 H4. unfold copy_into.
  replace ((0 <=? a) && (a <=? b) && (b <=? Zlen l)) with true by (symmetry; rewrite !andb_true_iff; repeat split; lia).
  eexists. split; [reflexivity|]. unfold Zlen in *.
  rewrite !app_length, !firstn_length, skipn_length. lia.
Qed.

(* ------------------------------------------------------------------ start codes do not overlap *)
Lemma is_sc_inv d p : is_sc d p = true ->
  0 <= p /\ p + 3 < Zlen d /\ is0 (zget d p) = true /\ is0 (zget d (p + 1)) = true /\ is1 (zget d (p + 2)) = true.
Proof.
  unfold is_sc. rewrite !andb_true_iff. intros ((((A & B) & C) & D) & E). repeat split; try assumption; lia.
Qed.

Lemma sc_sep d p q : is_sc d p = true -> p < q < p + 3 -> is_sc d q = false.
Proof.
  intros H Hq. apply is_sc_inv in H. destruct H as (_ & _ & _ & H1 & H2). apply is1_not0 in H2.
  destruct (is_sc d q) eqn:Hs; [|reflexivity]. apply is_sc_inv in Hs. destruct Hs as (_ & _ & S0 & S1 & _).
  assert (Hc : q = p + 1 \/ q = p + 2) by lia. destruct Hc as [-> | ->].
  - replace (p + 1 + 1) with (p + 2) in S1 by lia. congruence.
  - congruence.
Qed.

Lemma sc_len_cases d q : sc_len d q = 3 \/ sc_len d q = 4.
Proof. unfold sc_len. destruct ((1 <=? q) && is0 (zget d (q - 1))); auto. Qed.

Lemma sc_next d p q : is_sc d p = true -> is_sc d q = true -> p < q -> p + 3 <= q + 3 - sc_len d q.
Proof.
  intros Hp Hq Hlt.
  assert (H3 : p + 3 <= q).
  { destruct (Z.lt_ge_cases q (p + 3)) as [Hc|Hc]; [|exact Hc].
    rewrite (sc_sep d p q Hp) in Hq by lia. discriminate. }
  unfold sc_len. destruct ((1 <=? q) && is0 (zget d (q - 1))) eqn:Hc; [|lia].
  apply andb_true_iff in Hc. destruct Hc as (_ & Hz).
  destruct (Z.eq_dec q (p + 3)) as [->|Hne]; [|lia].
  apply is_sc_inv in Hp. destruct Hp as (_ & _ & _ & _ & H1). apply is1_not0 in H1.
  replace (p + 3 - 1) with (p + 2) in Hz by lia. congruence.
Qed.

(* ------------------------------------------------------------------ the start-code list of the naive scan *)
(* a start code (k, pos) occupies [pos - k, pos), k is 3 or 4, it begins at or after `lo` (the end of
   the previous one) and at least one byte follows it *)
Fixpoint scl_ok (L lo : Z) (xs : list (Z * Z)) : Prop :=
  match xs with
  | [] => True
  | e :: t => (fst e = 3 \/ fst e = 4) /\ lo <= snd e - fst e /\ snd e < L /\ scl_ok L (snd e) t
  end.

Lemma scan_scl d : forall n s lo,
  (forall q, s <= q -> is_sc d q = true -> lo <= q + 3 - sc_len d q) ->
  scl_ok (Zlen d) lo (flat_map (scs d) (zrange s n)).
Proof.
  induction n as [|n IH]; intros s lo H; cbn [zrange flat_map]; [exact I|].
  unfold scs at 1. destruct (is_sc d s) eqn:Hs; cbn [app].
  - cbn [scl_ok fst snd]. split; [apply sc_len_cases|]. split; [apply H; [lia|exact Hs]|].
    split; [apply is_sc_inv in Hs; lia|].
    apply IH. intros q Hq Hsq. apply (sc_next d s q Hs Hsq). lia.
  - apply IH. intros q Hq Hsq. apply H; [lia|exact Hsq].
Qed.

Lemma naive_scan_scl d : scl_ok (Zlen d) 0 (naive_scan d).
Proof.
  unfold naive_scan. apply scan_scl. intros q Hq Hs. unfold sc_len.
  destruct (Z.leb_spec 1 q); cbn [andb]; [destruct (is0 (zget d (q - 1)))|]; lia.
Qed.

Lemma scan_length d : forall n s, (length (flat_map (scs d) (zrange s n)) <= n)%nat.
Proof.
  induction n as [|n IH]; intros s; cbn [zrange flat_map length]; [lia|].
  rewrite app_length. specialize (IH (s + 1)). unfold scs at 1. destruct (is_sc d s); cbn [length]; lia.
Qed.

Lemma min_all_four (xs : list (Z * Z)) :
  (forall e, In e xs -> fst e = 3 \/ fst e = 4) -> min_sc_len xs = 4 -> forall e, In e xs -> fst e = 4.
Proof.
  unfold min_sc_len. induction xs as [|x t IH]; intros H Hm e He; [contradiction|].
  cbn [fold_left] in Hm. destruct (H x (or_introl eq_refl)) as [H3|H4].
  - pose proof (min_fold_le t (Z.min 4 (fst x))). lia.
  - replace (Z.min 4 (fst x)) with 4 in Hm by lia.
    destruct He as [<-|He]; [exact H4|]. apply IH; auto. intros e' He'. apply H. right. exact He'.
Qed.

Lemma scl_fst L : forall xs lo, scl_ok L lo xs -> forall e, In e xs -> fst e = 3 \/ fst e = 4.
Proof.
  induction xs as [|x t IH]; intros lo H e He; [contradiction|]. destruct H as (H1 & _ & _ & H4).
  destruct He as [<-|He]; [exact H1|]. exact (IH _ H4 e He).
Qed.

(* ------------------------------------------------------------------ getStartCodePositions *)
Lemma get_start_code_positions_total l : bytes_ok l = true ->
  exists scl m, get_start_code_positions l = Ok (scl, m) /\
    (lenN scl <= lenN l)%N /\ (m = 3 \/ m = 4) /\ scl_ok (Zlen l) 0 scl.
Proof.
  intros Hok. rewrite (scanner_eq_naive l Hok). eexists _, _. split; [reflexivity|].
  split; [unfold lenN, naive_scan; pose proof (scan_length l (length l) 0); lia|].
  split; [|apply naive_scan_scl].
  pose proof (scl_fst _ _ _ (naive_scan_scl l)) as Hf. unfold min_sc_len.
  assert (Hg : forall (xs : list (Z * Z)) m, (forall e, In e xs -> fst e = 3 \/ fst e = 4) -> (m = 3 \/ m = 4) ->
               let r := fold_left (fun m e => Z.min m (fst e)) xs m in r = 3 \/ r = 4).
  { induction xs as [|x t IH]; intros m H Hm; cbn [fold_left]; [exact Hm|].
    apply IH; [intros e He; apply H; right; exact He|]. destruct (H x (or_introl eq_refl)); lia. }
  apply Hg; [exact Hf|right; reflexivity].
Qed.

(* ------------------------------------------------------------------ ConvertByteStreamToNaluSample *)
Lemma inplace_total L : forall xs l lo, Zlen l = L -> 0 <= lo -> scl_ok L lo xs ->
  (forall e, In e xs -> fst e = 4) -> exists out, inplace_loop l L xs = Ok out /\ Zlen out = L.
Proof.
  induction xs as [|[k pos] rest IH]; intros l lo Hl Hlo Hs H4; cbn [inplace_loop]; [eauto|].
  destruct Hs as (_ & H2 & H3 & Hrest). cbn [fst snd] in *.
  assert (Hk : k = 4) by (apply (H4 (k, pos)); left; reflexivity). subst k.
  match goal with |- context [copy_into l (pos - 4) pos ?src] =>
    destruct (copy_into_4 l (pos - 4) pos src) as (l' & -> & Hl'); [lia|lia|lia|apply Zlen_be32|] end.
  cbn [rbind]. apply (IH l' pos); [lia|lia|exact Hrest|]. intros e He. apply H4. right. exact He.
Qed.

Lemma copy_total l : forall xs lo, 0 <= lo -> scl_ok (Zlen l) lo xs ->
  exists out, copy_loop l (Zlen l) xs = Ok out /\
    Zlen out <= match xs with [] => 0 | s :: _ => Zlen l - snd s + 4 * Zlen xs end.
Proof.
  induction xs as [|[k pos] rest IH]; intros lo Hlo Hs; cbn [copy_loop]; [exists []; split; [reflexivity|unfold Zlen; cbn; lia]|].
  destruct Hs as (H1 & H2 & H3 & Hrest). cbn [fst snd] in *.
  destruct (IH pos ltac:(lia) Hrest) as (r & Hr & Hrl).
  set (nl := match rest with nx :: _ => snd nx - pos - fst nx | [] => Zlen l - pos end).
  assert (Hnl : 0 <= nl /\ pos + nl <= Zlen l /\
                Zlen r + nl <= Zlen l - pos + 4 * Zlen rest).
  { unfold nl. destruct rest as [|[k' pos'] rest'].
    - cbv beta iota in Hrl. change (Zlen (@nil (Z * Z))) with 0. lia.
    - cbv beta iota in Hrl. destruct Hrest as (R1 & R2 & R3 & _). cbn [fst snd] in *. rewrite Zlen_cons in *. lia. }
  destruct Hnl as (N1 & N2 & N3).
  rewrite slice_ok by lia. cbn [rbind]. rewrite Hr. cbn [rbind]. eexists. split; [reflexivity|].
  rewrite !Zlen_app. unfold put_be32. rewrite Zlen_be32.
  rewrite Zlen_slice by lia. rewrite Zlen_cons. lia.
Qed.

Lemma to_nalu_sample_total l : bytes_ok l = true ->
  exists out, to_nalu_sample l = Ok out /\ (lenN out <= 5 * lenN l)%N.
Proof.
  intros Hok. unfold to_nalu_sample. rewrite (scanner_eq_naive l Hok). cbn [rbind fst snd].
  pose proof (naive_scan_scl l) as Hs.
  assert (Hlen : Zlen (naive_scan l) <= Zlen l).
  { unfold Zlen, naive_scan. pose proof (scan_length l (length l) 0). lia. }
  destruct (Z.eqb_spec (min_sc_len (naive_scan l)) 4) as [Hm|Hm].
  - destruct (inplace_total (Zlen l) (naive_scan l) l 0 eq_refl ltac:(lia) Hs) as (out & -> & Ho).
    { apply min_all_four; [apply (scl_fst _ _ _ Hs)|exact Hm]. }
    exists out. split; [reflexivity|]. unfold Zlen, lenN in *. lia.
  - destruct (copy_total l (naive_scan l) 0 ltac:(lia) Hs) as (out & -> & Ho).
    exists out. split; [reflexivity|].
    destruct (naive_scan l) as [|[k pos] t]; [unfold Zlen, lenN in *; cbn [length] in *; lia|].
    destruct Hs as (K1 & K2 & _). cbn [fst snd] in *. unfold Zlen, lenN in *. lia.
Qed.

(* ------------------------------------------------------------------ ExtractNalusFromByteStream *)
(* the start-code positions the byte-stream loop visits: increasing, at least 3 apart *)
Fixpoint sep3 (L lo : Z) (ps : list Z) : Prop :=
  match ps with
  | [] => True
  | p :: t => lo <= p /\ p + 3 < L /\ sep3 L (p + 3) t
  end.

Lemma filter_sep3 d : forall n s lo,
  (forall q, s <= q < lo -> is_sc d q = false) -> sep3 (Zlen d) lo (filter (is_sc d) (zrange s n)).
Proof.
  induction n as [|n IH]; intros s lo H; cbn [zrange filter]; [exact I|].
  destruct (is_sc d s) eqn:Hs.
  - cbn [sep3]. split.
    { destruct (Z.le_gt_cases lo s) as [Hc|Hc]; [exact Hc|]. rewrite H in Hs by lia. discriminate. }
    split; [apply is_sc_inv in Hs; lia|].
    apply IH. intros q Hq. apply (sc_sep d s q Hs). lia.
  - apply IH. intros q Hq. apply H. lia.
Qed.

(* the trailing-zero trimming loop: total, at most j + 1 - cur iterations *)
Lemma trim_loop_total d cur : forall fuel j e, e = j + 1 ->
  0 <= cur -> cur - 1 <= j -> j < Zlen d -> (Z.to_nat (j + 1 - cur) < fuel)%nat ->
  exists e', trim_loop fuel d cur j e = Ok e' /\ cur <= e' <= j + 1.
Proof.
  induction fuel as [|f IH]; intros j e He H0 H1 H2 Hf; [lia|].
  cbn [trim_loop]. rewrite Z.gtb_ltb. destruct (Z.ltb_spec cur j) as [Hlt|Hge].
  - rewrite getb_ok by lia. cbn [rbind]. destruct (is0 (zget d j)).
    + destruct (IH (j - 1) j) as (e' & -> & Hb); try lia. exists e'. split; [reflexivity|lia].
    + exists e. split; [reflexivity|lia].
  - exists e. split; [reflexivity|lia].
Qed.

Lemma enb_events_total d : forall ps lo cur acc,
  sep3 (Zlen d) lo ps -> 0 <= lo -> cur <= lo -> cur <= Zlen d ->
  exists cur' acc', bs_events (enb_body d) ps (cur, acc) = Ok (inl (cur', acc')) /\
    cur' <= Zlen d /\ (length acc' <= length acc + length ps)%nat /\ (ps = [] -> cur' = cur /\ acc' = acc).
Proof.
  induction ps as [|p t IH]; intros lo cur acc Hs Hlo Hc HL; cbn [bs_events].
  - exists cur, acc. split; [reflexivity|]. split; [exact HL|]. split; [cbn; lia|auto].
  - destruct Hs as (S1 & S2 & S3). unfold enb_body at 1.
    assert (Hacc : exists acc1, (if cur >? 0 then do e <- trim_end d cur p; do sl <- slice d cur e; Ok (sl :: acc) else Ok acc)
                               = Ok acc1 /\ (length acc1 <= length acc + 1)%nat).
    { rewrite Z.gtb_ltb. destruct (Z.ltb_spec 0 cur) as [Hpos|Hneg].
      - unfold trim_end. destruct (trim_loop_total d cur (S (length d)) (p - 1) p) as (e & -> & He); try lia.
        { unfold Zlen in *. lia. }
        cbn [rbind]. rewrite slice_ok by lia. cbn [rbind]. eexists. split; [reflexivity|]. cbn [length]. lia.
      - eexists. split; [reflexivity|]. lia. }
    destruct Hacc as (acc1 & -> & Hl1). cbn [rbind].
    destruct (IH (p + 3) (p + 3) acc1 S3) as (cur' & acc' & -> & H1 & H2 & _); try lia.
    exists cur', acc'. split; [reflexivity|]. split; [exact H1|]. split; [cbn [length]; lia|discriminate].
Qed.

(* ExtractNalusFromByteStream: EVERY list *)
Lemma extract_nalus_from_byte_stream_total d :
  exists nalus, extract_nalus_from_byte_stream d = Ok nalus /\ (lenN nalus <= lenN d)%N.
Proof.
  unfold extract_nalus_from_byte_stream.
  rewrite (bs_loop_events (enb_body d) d (S (length d)) 0 (-1, [])) by (unfold Zlen; lia).
  set (ps := filter (is_sc d) (zrange 0 (Z.to_nat (Zlen d - 3 - 0)))).
  assert (Hps : (length ps <= Z.to_nat (Zlen d - 3 - 0))%nat).
  { unfold ps. clear ps. generalize (Z.to_nat (Zlen d - 3 - 0)) as n. generalize 0 as s.
    intros s n. revert s. induction n as [|n IH]; intros s; cbn [zrange filter length]; [lia|].
    specialize (IH (s + 1)). destruct (is_sc d s); cbn [length]; lia. }
  destruct (enb_events_total d ps 0 (-1) []) as (cur & acc & -> & H1 & H2 & H3).
  { apply filter_sep3. intros q Hq. lia. }
  { lia. } { lia. } { pose proof (Zlen_nonneg d). lia. }
  cbn [rbind enb_finish]. destruct (Z.ltb_spec cur 0) as [Hneg|Hpos].
  - exists []. split; [reflexivity|]. unfold lenN. cbn [length]. lia.
  - rewrite slice_ok by lia. cbn [rbind]. eexists. split; [reflexivity|].
    unfold lenN. rewrite rev_length. cbn [length] in *.
    destruct ps as [|p0 t0]; [destruct (H3 eq_refl); lia|]. cbn [length] in *. unfold Zlen in *. lia.
Qed.

(* the statement without the layout predicate *)
Lemma get_start_code_positions_total_short l : bytes_ok l = true ->
  exists scl m, get_start_code_positions l = Ok (scl, m) /\ (lenN scl <= lenN l)%N /\ (m = 3 \/ m = 4).
Proof.
  intros H. destruct (get_start_code_positions_total l H) as (scl & m & A & B & C & _). eauto.
Qed.
