(* C16Av1EncProofs.v — av1.CodecConfRec.Encode never runs out of its buffer (for EVERY record value) and gives back
   the decoded bytes (for every byte input the decoder accepts).  No axioms. *)
From V.lib Require Import Base.
From V.c16 Require Import C16ConfRecModel C16ConfRecProofs C16Av1EncModel.

Lemma fsw_put_all cap : forall l acc e, lenN acc + lenN l <= cap ->
  fold_left (fsw_put cap) l (acc, e) = (acc ++ l, e).
Proof.
  induction l as [|b t IH]; intros acc e H; cbn [fold_left].
  - rewrite app_nil_r. reflexivity.
  - rewrite lenN_cons in H. unfold fsw_put at 2. cbn [fst snd].
    replace (cap <? lenN acc + 1) with false by lia.
    rewrite IH by (rewrite lenN_app; change (lenN [b]) with 1; lia).
    rewrite <- app_assoc. reflexivity.
Qed.

Lemma av1_encode_total r :
  av1_encode r = Ok (av1_header r ++ av_config_obus r) /\ lenN (av1_header r ++ av_config_obus r) = av1_size r.
Proof.
  unfold av1_encode, av1_size. set (cap := 4 + lenN (av_config_obus r)).
  assert (H4 : lenN (av1_header r) = 4) by reflexivity.
  assert (Hl : lenN (av1_header r ++ av_config_obus r) = cap) by (rewrite lenN_app, H4; reflexivity).
  split; [|exact Hl].
  rewrite fsw_put_all by (rewrite H4; change (lenN (@nil N)) with 0; lia). cbn [app].
  destruct (lenN (av_config_obus r) =? 0) eqn:H0; cbn [negb].
  - cbn [snd fst]. destruct (av_config_obus r) as [|x t]; [rewrite app_nil_r; reflexivity|].
    rewrite lenN_cons in H0. lia.
  - unfold fsw_put_bytes. cbn [fst snd]. rewrite H4.
    replace (cap <? 4 + lenN (av_config_obus r)) with false by (unfold cap; lia).
    cbn [fst snd]. reflexivity.
Qed.

(* the four header bytes: complete enumeration of the byte (0..255), lifted by forallb_forall *)
Definition bytes256 : list N := map N.of_nat (seq 0 256).
Lemma in_bytes256 b : b < 256 -> In b bytes256.
Proof.
  intros H. unfold bytes256. apply in_map_iff. exists (N.to_nat b). split; [lia|]. apply in_seq. lia.
Qed.

Lemma hdr1_ok b : b < 256 -> (N.shiftr b 5 mod 8) * 32 + N.land b 31 mod 32 = b.
Proof.
  intros H. assert (G : forallb (fun b => (N.shiftr b 5 mod 8) * 32 + N.land b 31 mod 32 =? b) bytes256 = true)
    by (vm_compute; reflexivity).
  rewrite forallb_forall in G. apply N.eqb_eq, G, in_bytes256, H.
Qed.

Lemma hdr2_ok b : b < 256 ->
  (N.shiftr b 7 mod 2) * 128 + (N.land (N.shiftr b 6) 1 mod 2) * 64 + (N.land (N.shiftr b 5) 1 mod 2) * 32 +
  (N.land (N.shiftr b 4) 1 mod 2) * 16 + (N.land (N.shiftr b 3) 1 mod 2) * 8 + (N.land (N.shiftr b 2) 1 mod 2) * 4 +
  N.land b 3 mod 4 = b.
Proof.
  intros H.
  assert (G : forallb (fun b =>
     (N.shiftr b 7 mod 2) * 128 + (N.land (N.shiftr b 6) 1 mod 2) * 64 + (N.land (N.shiftr b 5) 1 mod 2) * 32 +
     (N.land (N.shiftr b 4) 1 mod 2) * 16 + (N.land (N.shiftr b 3) 1 mod 2) * 8 + (N.land (N.shiftr b 2) 1 mod 2) * 4 +
     N.land b 3 mod 4 =? b) bytes256 = true) by (vm_compute; reflexivity).
  rewrite forallb_forall in G. apply N.eqb_eq, G, in_bytes256, H.
Qed.

(* byte 3 under the decoder's checks: reserved bits zero; without the presence bit the low nibble is zero *)
Lemma hdr3_ok b : b < 256 -> N.shiftr b 5 = 0 ->
  (negb (N.land (N.shiftr b 4) 1 =? 1) && negb (N.land b 15 =? 0)) = false ->
  (N.land (N.shiftr b 4) 1 mod 2) * 16 +
  (if N.land (N.shiftr b 4) 1 =? 1 then (if N.land (N.shiftr b 4) 1 =? 1 then N.land b 15 else 0) mod 16 else 0) = b.
Proof.
  intros H H5 Hc.
  assert (G : forallb (fun b => negb (N.shiftr b 5 =? 0) ||
     (negb (N.land (N.shiftr b 4) 1 =? 1) && negb (N.land b 15 =? 0)) ||
     ((N.land (N.shiftr b 4) 1 mod 2) * 16 +
      (if N.land (N.shiftr b 4) 1 =? 1 then (if N.land (N.shiftr b 4) 1 =? 1 then N.land b 15 else 0) mod 16 else 0) =? b))
     bytes256 = true) by (vm_compute; reflexivity).
  rewrite forallb_forall in G. specialize (G b (in_bytes256 b H)).
  apply orb_true_iff in G. destruct G as [G|G]; [|apply N.eqb_eq, G].
  apply orb_true_iff in G. destruct G as [G|G]; [rewrite H5 in G; discriminate G|congruence].
Qed.

Lemma hdr0_ok b : b < 256 -> N.shiftr b 7 = 1 -> N.land b 127 = 1 -> 128 + N.land b 127 mod 128 = b.
Proof.
  intros H H7 H1.
  assert (G : forallb (fun b => negb (N.shiftr b 7 =? 1) || negb (N.land b 127 =? 1) || (128 + N.land b 127 mod 128 =? b))
     bytes256 = true) by (vm_compute; reflexivity).
  rewrite forallb_forall in G. specialize (G b (in_bytes256 b H)).
  apply orb_true_iff in G. destruct G as [G|G]; [|apply N.eqb_eq, G].
  apply orb_true_iff in G. destruct G as [G|G]; [rewrite H7 in G; discriminate G|rewrite H1 in G; discriminate G].
Qed.

(* every byte input the decoder accepts is given back by Encode: nothing is lost, nothing is invented, and the
   buffer of Size() bytes is exactly filled *)
Lemma av1_decode_encode_roundtrip data r :
  Forall (fun b => b < 256) data -> av1_decode_codec_conf_rec data = Ok r ->
  av1_encode r = Ok data /\ av1_size r = lenN data.
Proof.
  intros Hb E. destruct (av1_encode_total r) as [Ee Hl]. rewrite Ee, <- Hl.
  enough (G : av1_header r ++ av_config_obus r = data) by (rewrite G; split; reflexivity).
  unfold av1_decode_codec_conf_rec in E.
  destruct (cr_len data <? 4)%Z eqn:H4; [discriminate|].
  destruct data as [|b0 [|b1 [|b2 [|b3 obus]]]]; try (unfold cr_len in H4; cbn [length] in H4; lia).
  assert (B0 : b0 < 256) by (inversion Hb; assumption).
  assert (B1 : b1 < 256) by (inversion Hb as [|? ? ? X]; inversion X; assumption).
  assert (B2 : b2 < 256) by (inversion Hb as [|? ? ? X]; inversion X as [|? ? ? Y]; inversion Y; assumption).
  assert (B3 : b3 < 256) by (inversion Hb as [|? ? ? X]; inversion X as [|? ? ? Y]; inversion Y as [|? ? ? Z]; inversion Z; assumption).
  unfold cr_idx in E. unfold cr_len in E. cbn [length] in E.
  replace ((0 <=? 0) && (0 <? Z.of_nat (S (S (S (S (length obus)))))))%Z with true in E by lia.
  replace ((0 <=? 1) && (1 <? Z.of_nat (S (S (S (S (length obus)))))))%Z with true in E by lia.
  replace ((0 <=? 2) && (2 <? Z.of_nat (S (S (S (S (length obus)))))))%Z with true in E by lia.
  replace ((0 <=? 3) && (3 <? Z.of_nat (S (S (S (S (length obus)))))))%Z with true in E by lia.
  change (Z.to_nat 0) with 0%nat in E. change (Z.to_nat 1) with 1%nat in E.
  change (Z.to_nat 2) with 2%nat in E. change (Z.to_nat 3) with 3%nat in E.
  cbn [nth_error rbind] in E.
  destruct (N.shiftr b0 7 =? 1) eqn:H07; cbn [negb] in E; [|discriminate].
  destruct (N.land b0 127 =? 1) eqn:H01; cbn [negb] in E; [|discriminate].
  destruct (N.shiftr b3 5 =? 0) eqn:H35; cbn [negb] in E; [|discriminate].
  destruct (negb (N.land (N.shiftr b3 4) 1 =? 1) && negb (N.land b3 15 =? 0)) eqn:H3c; [discriminate|].
  apply N.eqb_eq in H07, H01, H35.
  assert (Eo : (if (Z.of_nat (S (S (S (S (length obus))))) >? 4)%Z
                then cr_slice (b0 :: b1 :: b2 :: b3 :: obus) 4 (Z.of_nat (S (S (S (S (length obus))))))
                else Ok []) = Ok obus).
  { destruct obus as [|o t].
    - cbn [length]. replace (Z.of_nat 4 >? 4)%Z with false by lia. reflexivity.
    - replace (Z.of_nat (S (S (S (S (length (o :: t))))) ) >? 4)%Z with true by (cbn [length]; lia).
      unfold cr_slice, cr_len. cbn [length].
      replace ((0 <=? 4) && (4 <=? Z.of_nat (S (S (S (S (S (length t))))))) &&
               (Z.of_nat (S (S (S (S (S (length t)))))) <=? Z.of_nat (S (S (S (S (S (length t))))))))%Z with true by lia.
      replace (Z.to_nat (Z.of_nat (S (S (S (S (S (length t)))))) - 4)) with (S (length t)) by lia.
      change (Z.to_nat 4) with 4%nat. cbn [skipn]. rewrite <- (firstn_all (o :: t)) at 2. reflexivity. }
  rewrite Eo in E. cbn [rbind] in E. inversion E; subst r; clear E.
  unfold av1_header. cbn [av_version av_seq_profile av_seq_level_idx0 av_seq_tier0 av_high_bitdepth av_twelve_bit
    av_monochrome av_subsampling_x av_subsampling_y av_sample_position av_ipd_present av_ipd_minus_one av_config_obus app].
  f_equal; [exact (hdr0_ok b0 B0 H07 H01)|].
  f_equal; [exact (hdr1_ok b1 B1)|].
  f_equal; [exact (hdr2_ok b2 B2)|].
  f_equal. exact (hdr3_ok b3 B3 H35 H3c).
Qed.
