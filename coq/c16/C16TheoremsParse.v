(* C16TheoremsParse.v — C16 theorems for the AVC parameter-set and slice-header parsers (second theorems
   file of C16; the walkers / reader / SEI 1 theorems are in C16Theorems.v).  Each theorem is closed by
   `exact <lemma>` and followed by Print Assumptions (audited by ./check on every run).

   Models: coq/c15/C15Model.v (imported read-only; tied to /repo by C15's value correspondence) through
   the wrappers of C16ParseModel.v, which replace C15's constant loop caps (2^16) by fuel taken from the
   input: parse_fuel nalu = 8*|nalu| + 10.  `c16_parse_*` run over ER, the C13 model of bits.EBSPReader.
   Shape of every statement: for EVERY byte list (no hypothesis; elements need not be < 256) and EVERY
   content of the parameter-set maps (arbitrary record values, not only ones a parser can return) the
   result is Err or Ok: never Panic, never OutOfFuel.  Never OutOfFuel IS the iteration bound: each
   data-driven loop (`for { ... if AccError != nil { break } }`) runs at most 8*|nalu| + 10 times; the
   other loops are guarded by constants (<= 255 / 32 / 12 / 64 / 8) which the size clauses make explicit. *)
From V.lib Require Import Base.
From V.c13 Require Import C13Model.
From V.c15 Require Import C15Model C15Avc2Model.
From V.c16 Require Import C16SeiProofs C16ParseModel C16ParseProofs C16ParseErProofs C16ParseSimProofs.
From V.c16 Require Import C16SeiNaluModel C16SeiNaluProofs.

(* every scaling list has at most 64 entries *)
Definition scaling_sizes (l : list (option (list Z))) : Prop :=
  Forall (fun o => match o with Some x => (length x <= 64)%nat | None => True end) l.
Definition hrd_sizes (o : option hrd) : Prop :=
  match o with Some h => lenN (hrd_entries h) <= 32 | None => True end.

(* avc.ParseSPSNALUnit(data, parseVUIBeyondAspectRatio): everything it allocates has constant size *)
Theorem C16_avc_ParseSPSNALUnit_total : forall (beyond : bool) (nalu : list N),
  c16_parse_sps beyond nalu = Err \/
  exists s, c16_parse_sps beyond nalu = Ok s /\
    lenN (sps_ref_frames_in_poc_cycle s) <= 255 /\
    ((length (sps_seq_scaling_lists s) <= 12)%nat /\ scaling_sizes (sps_seq_scaling_lists s)) /\
    match sps_vui s with
    | Some v => hrd_sizes (vui_nal_hrd v) /\ hrd_sizes (vui_vcl_hrd v)
    | None => True
    end.
Proof. exact c16_parse_sps_total. Qed.
Print Assumptions C16_avc_ParseSPSNALUnit_total.

(* the same for ANY reader and ANY reader state (no data-driven loop in the SPS parser) *)
Theorem C16_avc_ParseSPSNALUnit_total_any_reader :
  forall (St : Type) (R : reader St) (beyond : bool) (s : St),
  parse_sps R beyond s = Err \/ exists a s', parse_sps R beyond s = Ok (a, s') /\ sps_lists_ok a.
Proof. exact (@parse_sps_any). Qed.
Print Assumptions C16_avc_ParseSPSNALUnit_total_any_reader.

(* avc.ParsePPSNALUnit(data, spsMap) for every spsMap (id -> ChromaFormatIDC): the slice_group_id list
   (map type 6, count pic_size_in_map_units_minus1 + 1 up to 2^64) has at most 8*|nalu| + 1 entries *)
Theorem C16_avc_ParsePPSNALUnit_total : forall (spsmap : N -> option N) (nalu : list N),
  c16_parse_pps spsmap nalu = Err \/
  exists p, c16_parse_pps spsmap nalu = Ok p /\
    lenN (pps_run_length_minus1 p) <= 8 /\ lenN (pps_top_left p) <= 7 /\ lenN (pps_bottom_right p) <= 7 /\
    lenN (pps_slice_group_id p) <= 8 * lenN nalu + 1 /\
    ((length (pps_pic_scaling_lists p) <= 12)%nat /\ scaling_sizes (pps_pic_scaling_lists p)).
Proof. exact c16_parse_pps_total. Qed.
Print Assumptions C16_avc_ParsePPSNALUnit_total.

(* avc.ParseSliceHeader(nalu, spsMap, ppsMap) for every content of both maps: the two `for { }` loops
   (ref_pic_list_modification x2, dec_ref_pic_marking) and the two pred_weight_table loops (counts up to
   2^32) all end within parse_fuel nalu iterations; nothing is allocated per iteration *)
Theorem C16_avc_ParseSliceHeader_total :
  forall (spsmap : N -> option sps) (ppsmap : N -> option pps) (nalu : list N),
  c16_parse_slice spsmap ppsmap nalu = Err \/ exists h, c16_parse_slice spsmap ppsmap nalu = Ok h.
Proof. exact c16_parse_slice_total. Qed.
Print Assumptions C16_avc_ParseSliceHeader_total.

(* avc.GetSliceTypeFromNALU: data[0] and data[1:] are modelled as partial operations *)
Theorem C16_avc_GetSliceTypeFromNALU_total : forall data : list N,
  get_slice_type data = Err \/ exists t, get_slice_type data = Ok t /\ t <= 4.
Proof. exact get_slice_type_total. Qed.
Print Assumptions C16_avc_GetSliceTypeFromNALU_total.

(* avc.ParseSEINalu(nalu, sps) / hevc.ParseSEINalu(nalu, sps): header accesses partial, extraction, one
   decoder per message as sei.DecodeSEIMessage / the picture-timing special case choose it.  For EVERY
   NAL unit and EVERY context value derived from the SPS (a fortiori every SPS: avc_pt_of_sps; for HEVC
   every HEVCPicTimingParams value): a value or an error, at most |nalu|/2 messages.
   (n, true) = the messages are returned together with ErrRbspTrailingBitsMissing. *)
Theorem C16_avc_ParseSEINalu_total : forall (ctx : avc_pt_ctx) (nalu : list N),
  avc_parse_sei_nalu ctx nalu = Err \/
  exists n miss, avc_parse_sei_nalu ctx nalu = Ok (n, miss) /\ 2 * n <= lenN nalu.
Proof. exact avc_parse_sei_nalu_total. Qed.
Print Assumptions C16_avc_ParseSEINalu_total.

Theorem C16_hevc_ParseSEINalu_total : forall (ctx : option C16Model.hpt_params) (nalu : list N),
  hevc_parse_sei_nalu ctx nalu = Err \/
  exists n miss, hevc_parse_sei_nalu ctx nalu = Ok (n, miss) /\ 2 * n <= lenN nalu.
Proof. exact hevc_parse_sei_nalu_total. Qed.
Print Assumptions C16_hevc_ParseSEINalu_total.

(* the loop lemmas behind it: from every reachable reader state (rok: sticky error or well-formed) with
   potential mu_er s (= unread bits + 1, 0 after the error), fuel > potential is never exhausted, the
   potential never grows, and the guarded count loop appends at most `potential` elements, whatever the
   count n (also 2^64) *)
Theorem C16_ref_pic_list_modification_loop_total : forall (fuel : nat) (st : N * N * N * N) (s : rstate),
  rok s -> mu_er s < N.of_nat fuel ->
  rplm_loop ER fuel st s = Err \/
  exists a s', rplm_loop ER fuel st s = Ok (a, s') /\ rok s' /\ mu_er s' <= mu_er s.
Proof. exact rplm_loop_er_total. Qed.
Print Assumptions C16_ref_pic_list_modification_loop_total.

Theorem C16_dec_ref_pic_marking_loop_total : forall (fuel : nat) (st : N * N * N * N) (s : rstate),
  rok s -> mu_er s < N.of_nat fuel ->
  mmco_loop ER fuel st s = Err \/
  exists a s', mmco_loop ER fuel st s = Ok (a, s') /\ rok s' /\ mu_er s' <= mu_er s.
Proof. exact mmco_loop_er_total. Qed.
Print Assumptions C16_dec_ref_pic_marking_loop_total.

Theorem C16_guarded_count_loop_slice_group_id_total : forall (fuel : nat) (n w : N) (s : rstate),
  1 <= w -> rok s -> mu_er s < N.of_nat fuel ->
  rep_break_f ER fuel n (rd ER w) s = Err \/
  exists l s', rep_break_f ER fuel n (rd ER w) s = Ok (l, s') /\ rok s' /\
               lenN l + mu_er s' <= mu_er s /\ lenN l <= n.
Proof. exact slice_group_id_loop_er_total. Qed.
Print Assumptions C16_guarded_count_loop_slice_group_id_total.

(* the wrappers compute exactly what the C15 models compute wherever those are defined (do not hit their
   constant 2^16 loop cap): C15's value-level correspondence with /repo carries over to c16_parse_* *)
Theorem C16_avc_ParsePPSNALUnit_agrees_with_C15_model : forall (spsmap : N -> option N) (nalu : list N),
  parse_pps_er spsmap nalu <> OutOfFuel -> c16_parse_pps spsmap nalu = parse_pps_er spsmap nalu.
Proof. exact c16_parse_pps_agrees. Qed.
Print Assumptions C16_avc_ParsePPSNALUnit_agrees_with_C15_model.

(* the slice header: against C15Avc2Model.parse_slice_header2, C15's model of the repaired text (/repo 174cc8e:
   slice_group_change_cycle width from the SPS's PicSizeInMapUnits) *)
Theorem C16_avc_ParseSliceHeader_agrees_with_C15_model :
  forall (spsmap : N -> option sps) (ppsmap : N -> option pps) (nalu : list N),
  parse_slice2_er spsmap ppsmap nalu <> OutOfFuel ->
  c16_parse_slice spsmap ppsmap nalu = parse_slice2_er spsmap ppsmap nalu.
Proof. exact c16_parse_slice_agrees. Qed.
Print Assumptions C16_avc_ParseSliceHeader_agrees_with_C15_model.

(* the constant cap of the C15 model is what these wrappers remove: on this 14-byte PPS (2 slice groups,
   map type 6, pic_size_in_map_units_minus1 = 2^32-2) C15Model.parse_pps gives up (OutOfFuel: count
   above 2^16) while the Go loop, and the wrapper, stop at the end of the data *)
Definition ex_pps_map6 : list N := [104; 196; 112; 0; 0; 0; 31; 255; 255; 255; 245; 85; 85; 64].
Example ex_pps_hostile_map6 :
  parse_pps_er (fun _ => None) ex_pps_map6 = OutOfFuel /\ c16_parse_pps (fun _ => None) ex_pps_map6 = Err.
Proof. vm_compute. split; reflexivity. Qed.

(* ------------------------------------------------------------------ not vacuous *)
(* a real SPS / PPS pair (High profile 320x180, from the repository's test content) and slices *)
Definition ex_sps : list N :=
  [103; 100; 0; 13; 172; 217; 65; 65; 159; 158; 16; 0; 0; 3; 0; 16; 0; 0; 3; 3; 192; 241; 66; 153; 96].
Definition ex_pps : list N := [104; 235; 236; 178; 44].
Example ex_sps_parses :
  exists s, c16_parse_sps true ex_sps = Ok s /\ sps_width s = 320 /\ sps_height s = 180 /\ sps_profile s = 100.
Proof. eexists. split; [vm_compute; reflexivity|]. repeat split. Qed.

Definition ex_spsmap : N -> option sps :=
  match c16_parse_sps true ex_sps with Ok s => fun id => if id =? sps_id s then Some s else None | _ => fun _ => None end.
Definition ex_ppsmap : N -> option pps :=
  match c16_parse_pps (fun _ => Some 1) ex_pps with Ok p => fun id => if id =? pps_id p then Some p else None | _ => fun _ => None end.

Example ex_idr_slice_parses :
  exists h, c16_parse_slice ex_spsmap ex_ppsmap [101; 136; 132; 0; 51; 255] = Ok h /\ sh_slice_type h = 7 /\ sh_size h = 6.
Proof. eexists. split; [vm_compute; reflexivity|]. split; reflexivity. Qed.

(* a P slice of 0xff bytes: the ref_pic_list_modification loop runs once per 2 bits and ends with the data *)
Example ex_slice_all_ones : res_class (c16_parse_slice ex_spsmap ex_ppsmap (65 :: 154 :: repeat 255 40)) = 0.
Proof. vm_compute. reflexivity. Qed.

(* hostile: an SPS whose POC-cycle count is far above 255 is an error, not a loop *)
Example ex_sps_hostile_count :
  c16_parse_sps true [103; 66; 0; 30; 248; 0; 0; 0; 0; 128; 0; 0; 0; 1] = Err.
Proof. vm_compute. reflexivity. Qed.

Example ex_slice_type_short : get_slice_type [] = Err /\ get_slice_type [101] = Err /\ get_slice_type [101; 136] = Ok 2.
Proof. vm_compute. repeat split. Qed.

(* F8 witnesses (empty unit, one-byte HEVC unit) and a unit with two messages, one of them pic timing
   decoded with the HRD lengths of the SPS context *)
Example ex_sei_nalu :
  avc_parse_sei_nalu None [] = Err /\ hevc_parse_sei_nalu None [78] = Err /\
  avc_parse_sei_nalu (Some (None, 0)) [6; 1; 1; 16; 5; 2; 10; 11; 128] = Err /\
  avc_parse_sei_nalu (Some (None, 0)) [6; 1; 1; 16; 6; 2; 10; 11; 128] = Ok (2, false) /\
  avc_parse_sei_nalu (avc_pt_of_sps (match c16_parse_sps true ex_sps with Ok s => Some s | _ => None end))
                     [6; 1; 1; 16; 128] = Ok (1, false).
Proof. vm_compute. repeat split. Qed.

Example ex_slice_no_pps : c16_parse_slice (fun _ => None) (fun _ => None) [101; 136; 132; 0] = Err.
Proof. vm_compute. reflexivity. Qed.
