(* C16ParseProofs.v — a small program logic for the state-monad parsers of C15Model.v / C16ParseModel.v.

   J Φ m : from every reader state satisfying the invariant, `m` returns Err or Ok (a, s') — never
           Panic, never OutOfFuel — with the invariant kept, the potential `mu` not increased, and Φ a.
   The logic is generic in (inv, mu).  Two instances are used:
     trivial  inv = True, mu = 0      : programs without data-driven loops are total from ANY state of
                                        ANY reader (ParseSPSNALUnit, the tail of ParsePPSNALUnit);
     ER       inv = rok, mu = unread bits + 1 (0 after the sticky error), C16ParseErProofs.v:
                                        the data-driven loops end within `mu` iterations.
   No axioms. *)
From V.lib Require Import Base.
From V.c13 Require Import C13Model.
From V.c15 Require Import C15Model C15HevcModel.
From V.c16 Require Import C16ParseModel C16HevcParseModel.

Notation "x <- m ;; k" := (bind m (fun x => k))
  (at level 61, m at next level, right associativity).

Section Logic.
  Context {St : Type} (R : reader St) (inv : St -> Prop) (mu : St -> N).

  Definition J {A} (Phi : A -> Prop) (m : @M St A) : Prop :=
    forall s, inv s ->
      m s = Err \/ exists a s', m s = Ok (a, s') /\ inv s' /\ mu s' <= mu s /\ Phi a.

  (* strict version: from a state with positive potential the potential decreases *)
  Definition D {A} (m : @M St A) : Prop :=
    forall s, inv s ->
      m s = Err \/ exists a s', m s = Ok (a, s') /\ inv s' /\ mu s' <= mu s /\ (0 < mu s -> mu s' < mu s).

  (* ---- what the reader must satisfy *)
  Hypothesis H_read : forall s n, inv s ->
    inv (snd (r_read R s n)) /\ mu (snd (r_read R s n)) <= mu s /\
    (1 <= n -> 0 < mu s -> mu (snd (r_read R s n)) < mu s).
  Hypothesis H_flag : forall s, inv s ->
    inv (snd (r_flag R s)) /\ mu (snd (r_flag R s)) <= mu s /\ (0 < mu s -> mu (snd (r_flag R s)) < mu s).
  Hypothesis H_ue : forall s, inv s ->
    inv (snd (r_ue R s)) /\ mu (snd (r_ue R s)) <= mu s /\ (0 < mu s -> mu (snd (r_ue R s)) < mu s).
  Hypothesis H_se : forall s, inv s ->
    inv (snd (r_se R s)) /\ mu (snd (r_se R s)) <= mu s /\ (0 < mu s -> mu (snd (r_se R s)) < mu s).
  Hypothesis H_seterr : forall s, inv s -> inv (r_seterr R s) /\ mu (r_seterr R s) <= mu s.

  (* ---- structural rules *)
  Lemma J_ret {A} (Phi : A -> Prop) (a : A) : Phi a -> J Phi (ret a).
  Proof. intros H s Hs. right. exists a, s. unfold ret. repeat split; auto. lia. Qed.

  Lemma J_fail {A} (Phi : A -> Prop) : J Phi (@fail St A).
  Proof. intros s Hs. left. reflexivity. Qed.

  Lemma bind_get_err {B} (k : bool -> @M St B) s : bind (get_err R) k s = k (r_err R s) s.
  Proof. reflexivity. Qed.
  Lemma bind_rd_ue {B} (k : N -> @M St B) s : bind (rd_ue R) k s = k (fst (r_ue R s)) (snd (r_ue R s)).
  Proof. unfold bind, rd_ue. destruct (r_ue R s). reflexivity. Qed.
  Lemma bind_ok {A B} (m : @M St A) (k : A -> @M St B) s a s' : m s = Ok (a, s') -> bind m k s = k a s'.
  Proof. intros E. unfold bind. rewrite E. reflexivity. Qed.
  Lemma bind_err {A B} (m : @M St A) (k : A -> @M St B) s : m s = Err -> bind m k s = Err.
  Proof. intros E. unfold bind. rewrite E. reflexivity. Qed.

  Lemma J_weaken {A} (Phi Psi : A -> Prop) m : J Phi m -> (forall a, Phi a -> Psi a) -> J Psi m.
  Proof.
    intros H HW s Hs. destruct (H s Hs) as [E|(a & s' & E & Hi & Hm & Hp)]; [left; exact E|right].
    exists a, s'. auto.
  Qed.

  Lemma J_true {A} (Phi : A -> Prop) m : J Phi m -> J (fun _ => True) m.
  Proof. intros H. apply (J_weaken Phi); auto. Qed.

  Lemma J_bind {A B} (Phi : A -> Prop) (Psi : B -> Prop) (m : @M St A) (k : A -> @M St B) :
    J Phi m -> (forall a, Phi a -> J Psi (k a)) -> J Psi (bind m k).
  Proof.
    intros Hm Hk s Hs. unfold bind.
    destruct (Hm s Hs) as [E|(a & s1 & E & Hi & Hmu & Hp)]; rewrite E; [left; reflexivity|].
    destruct (Hk a Hp s1 Hi) as [E2|(b & s2 & E2 & Hi2 & Hmu2 & Hp2)]; [left; exact E2|right].
    exists b, s2. repeat split; auto. lia.
  Qed.

  Lemma J_bind_true {A B} (Psi : B -> Prop) (m : @M St A) (k : A -> @M St B) :
    J (fun _ => True) m -> (forall a, J Psi (k a)) -> J Psi (bind m k).
  Proof. intros Hm Hk. apply (J_bind (fun _ => True)); auto. Qed.

  Lemma D_J {A} (m : @M St A) : D m -> J (fun _ => True) m.
  Proof.
    intros H s Hs. destruct (H s Hs) as [E|(a & s' & E & Hi & Hm & _)]; [left; exact E|right].
    exists a, s'. auto.
  Qed.

  Lemma D_bind {A B} (m : @M St A) (k : A -> @M St B) :
    D m -> (forall a, J (fun _ => True) (k a)) -> D (bind m k).
  Proof.
    intros Hm Hk s Hs. unfold bind.
    destruct (Hm s Hs) as [E|(a & s1 & E & Hi & Hmu & Hd)]; rewrite E; [left; reflexivity|].
    destruct (Hk a s1 Hi) as [E2|(b & s2 & E2 & Hi2 & Hmu2 & _)]; [left; exact E2|right].
    exists b, s2. repeat split; auto; try lia.
  Qed.

  (* ---- primitive operations *)
  Lemma D_rd n : 1 <= n -> D (rd R n).
  Proof.
    intros Hn s Hs. right. unfold rd. destruct (H_read s n Hs) as (A1 & A2 & A3).
    destruct (r_read R s n) as [v s']. cbn [snd] in A1, A2, A3 |- *. exists v, s'. repeat split; auto.
  Qed.
  Lemma J_rd n : J (fun _ => True) (rd R n).
  Proof.
    intros s Hs. right. unfold rd. destruct (H_read s n Hs) as (A1 & A2 & _).
    destruct (r_read R s n) as [v s']. cbn [snd] in A1, A2 |- *. exists v, s'. repeat split; auto.
  Qed.
  Lemma D_flag : D (rd_flag R).
  Proof.
    intros s Hs. right. unfold rd_flag. destruct (H_flag s Hs) as (A1 & A2 & A3).
    destruct (r_flag R s) as [v s']. cbn [snd] in A1, A2, A3 |- *. exists v, s'. repeat split; auto.
  Qed.
  Lemma D_ue : D (rd_ue R).
  Proof.
    intros s Hs. right. unfold rd_ue. destruct (H_ue s Hs) as (A1 & A2 & A3).
    destruct (r_ue R s) as [v s']. cbn [snd] in A1, A2, A3 |- *. exists v, s'. repeat split; auto.
  Qed.
  Lemma D_se : D (rd_se R).
  Proof.
    intros s Hs. right. unfold rd_se. destruct (H_se s Hs) as (A1 & A2 & A3).
    destruct (r_se R s) as [v s']. cbn [snd] in A1, A2, A3 |- *. exists v, s'. repeat split; auto.
  Qed.
  Definition J_flag := D_J _ D_flag.
  Definition J_ue := D_J _ D_ue.
  Definition J_se := D_J _ D_se.

  Lemma J_get_err : J (fun _ => True) (get_err R).
  Proof. intros s Hs. right. exists (r_err R s), s. unfold get_err. repeat split; auto. lia. Qed.
  Lemma J_get_nbytes : J (fun _ => True) (get_nbytes R).
  Proof. intros s Hs. right. exists (r_nbytes R s), s. unfold get_nbytes. repeat split; auto. lia. Qed.
  Lemma J_set_err : J (fun _ => True) (set_err R).
  Proof.
    intros s Hs. right. destruct (H_seterr s Hs) as (A1 & A2).
    exists tt, (r_seterr R s). unfold set_err. repeat split; auto.
  Qed.
  (* ---- count-bounded loops: exactly n iterations, n elements *)
  Lemma J_rep {A} (Phi : A -> Prop) (body : @M St A) : J Phi body ->
    forall n, J (fun l => length l = n /\ Forall Phi l) (rep n body).
  Proof.
    intros Hb. induction n as [|n IH]; cbn [rep].
    - apply J_ret. split; [reflexivity|constructor].
    - eapply J_bind; [exact Hb|]. intros x Hx.
      eapply J_bind; [exact IH|]. intros t [Ht Hf].
      apply J_ret. cbn [length]. split; [lia|constructor; assumption].
  Qed.

  Lemma J_rep_n {A} (Phi : A -> Prop) (body : @M St A) n : n <= loop_bound -> J Phi body ->
    J (fun l => lenN l = n /\ Forall Phi l) (rep_n n body).
  Proof.
    intros Hn Hb. unfold rep_n. replace (n <=? loop_bound) with true by lia.
    eapply J_weaken; [apply (J_rep Phi body Hb)|]. intros l [Hl Hf]. split; [unfold lenN; lia|exact Hf].
  Qed.

  Lemma J_read_scaling_list : forall n last next,
    J (fun l => length l = n) (read_scaling_list R n last next).
  Proof.
    induction n as [|n IH]; intros last next; cbn [read_scaling_list].
    - apply J_ret. reflexivity.
    - eapply J_bind_true.
      + destruct (next =? 0)%Z; [apply J_ret; exact I|].
        eapply J_bind_true; [apply J_se|]. intros d. apply J_ret. exact I.
      + intros next'. eapply J_bind; [apply IH|]. intros t Ht. cbv beta in Ht. apply J_ret. cbn [length]. lia.
  Qed.

  Definition scaling_ok (l : list (option (list Z))) : Prop :=
    Forall (fun o => match o with Some x => (length x <= 64)%nat | None => True end) l.

  Lemma J_read_scaling_lists : forall cnt i,
    J (fun l => length l = cnt /\ scaling_ok l) (read_scaling_lists R cnt i).
  Proof.
    induction cnt as [|c IH]; intros i; cbn [read_scaling_lists].
    - apply J_ret. split; [reflexivity|constructor].
    - eapply J_bind_true; [apply J_flag|]. intros present.
      eapply (J_bind (fun o => match o with Some x => (length x <= 64)%nat | None => True end)).
      + destruct present.
        * eapply J_bind; [apply J_read_scaling_list|]. intros l Hl. cbv beta in Hl. apply J_ret.
          destruct (i <? 6); lia.
        * apply J_ret. exact I.
      + intros x Hx. eapply J_bind; [apply IH|]. intros t [Ht Hf]. apply J_ret.
        cbn [length]. split; [lia|constructor; assumption].
  Qed.

  (* ================================================================== the parsers *)
  Ltac jsub := fail.
  Ltac jstep :=
    lazymatch goal with
    | |- J _ (bind _ _) => eapply J_bind_true; [ | intro ]
    | |- J _ (ret _) => apply J_ret; try exact I
    | |- J _ fail => apply J_fail
    | |- J _ (rd R _) => apply J_rd
    | |- J _ (rd_flag R) => apply J_flag
    | |- J _ (rd_ue R) => apply J_ue
    | |- J _ (rd_se R) => apply J_se
    | |- J _ (get_err R) => apply J_get_err
    | |- J _ (get_nbytes R) => apply J_get_nbytes
    | |- J _ (set_err R) => apply J_set_err
    | |- J _ (if ?c then _ else _) => destruct c eqn:?
    | |- J _ (match ?x with Some _ => _ | None => _ end) => destruct x eqn:?
    | |- J _ (match ?p with pair _ _ => _ end) => destruct p
    | |- J _ (let _ := _ in _) => cbv zeta
    | _ => jsub
    end.
  Ltac jauto := repeat jstep.

  Definition hrd_ok (o : option hrd) : Prop :=
    match o with Some h => lenN (hrd_entries h) <= 32 | None => True end.

  Lemma J_parse_cpb_entry : J (fun _ => True) (parse_cpb_entry R).
  Proof. unfold parse_cpb_entry. jauto. Qed.

  Lemma J_parse_hrd : J (fun h => lenN (hrd_entries h) <= 32) (parse_hrd R).
  Proof.
    unfold parse_hrd. eapply J_bind_true; [apply J_ue|]. intros cnt.
    destruct (31 <? cnt) eqn:Hc.
    - eapply J_bind_true; [apply J_set_err|]. intros u. apply J_ret. cbn [hrd_entries]. unfold lenN. cbn [length]. lia.
    - eapply J_bind_true; [apply J_rd|]. intros brs.
      eapply J_bind_true; [apply J_rd|]. intros css.
      eapply J_bind; [apply (J_rep_n (fun _ => True) (parse_cpb_entry R) (cnt + 1))|].
      + unfold loop_bound. lia.
      + apply J_parse_cpb_entry.
      + intros entries [Hl _]. jauto. cbn [hrd_entries]. lia.
  Qed.

  Definition vui_ok (o : option vui) : Prop :=
    match o with Some v => hrd_ok (vui_nal_hrd v) /\ hrd_ok (vui_vcl_hrd v) | None => True end.

  Lemma J_opt_hrd (c : bool) :
    J hrd_ok (if c then bind (parse_hrd R) (fun h => ret (Some h)) else ret None).
  Proof.
    destruct c; [|apply J_ret; exact I].
    eapply J_bind; [apply J_parse_hrd|]. intros h Hh. apply J_ret. exact Hh.
  Qed.

  Lemma J_parse_vui beyond : J (fun v => hrd_ok (vui_nal_hrd v) /\ hrd_ok (vui_vcl_hrd v)) (parse_vui R beyond).
  Proof.
    unfold parse_vui.
    eapply J_bind_true; [apply J_flag|]. intros arp.
    eapply J_bind_true; [jauto|]. intros sar.
    destruct (negb beyond); [apply J_ret; cbn [vui_nal_hrd vui_vcl_hrd]; split; exact I|].
    do 8 (eapply J_bind_true; [jauto|]; intro).
    eapply J_bind_true; [apply J_flag|]. intros nhp.
    eapply J_bind; [apply J_opt_hrd|]. intros nh Hnh.
    eapply J_bind_true; [apply J_flag|]. intros vhp.
    eapply J_bind; [apply J_opt_hrd|]. intros vh Hvh.
    jauto. cbn [vui_nal_hrd vui_vcl_hrd]. split; assumption.
  Qed.

  Definition lists_ok (l : list (option (list Z))) : Prop := (length l <= 12)%nat /\ scaling_ok l.

  Lemma J_parse_sps_high profile :
    J (fun t => lists_ok (snd t)) (parse_sps_high R profile).
  Proof.
    unfold parse_sps_high. destruct (is_high_profile profile).
    2:{ apply J_ret. cbn [snd]. split; [cbn [length]; lia|constructor]. }
    eapply J_bind_true; [apply J_ue|]. intros cf.
    do 5 (eapply J_bind_true; [jauto|]; intro).
    eapply (J_bind lists_ok).
    - destruct a3.
      + eapply J_weaken; [apply J_read_scaling_lists|]. intros l [Hl Hs]. split; [|exact Hs].
        destruct (negb (u8 cf =? 3)); lia.
      + apply J_ret. split; [cbn [length]; lia|constructor].
    - intros lists Hl. apply J_ret. cbn [snd]. exact Hl.
  Qed.

  Lemma J_parse_sps_poc t : J (fun r => lenN (snd r) <= 255) (parse_sps_poc R t).
  Proof.
    unfold parse_sps_poc. destruct (t =? 0).
    { eapply J_bind_true; [apply J_ue|]. intros l. destruct (12 <? l); [apply J_fail|].
      apply J_ret. cbn [snd]. unfold lenN. cbn [length]. lia. }
    destruct (t =? 1).
    2:{ apply J_ret. cbn [snd]. unfold lenN. cbn [length]. lia. }
    do 4 (eapply J_bind_true; [jauto|]; intro).
    destruct (255 <? a2) eqn:Hn; [apply J_fail|].
    eapply J_bind; [apply (J_rep_n (fun _ => True) (rd_ue R) a2)|].
    - unfold loop_bound. lia.
    - apply J_ue.
    - intros cyc [Hl _]. apply J_ret. cbn [snd]. lia.
  Qed.

  Lemma J_parse_sps_crop chroma fmo w h crop : J (fun _ => True) (parse_sps_crop R chroma fmo w h crop).
  Proof.
    unfold parse_sps_crop. cbv zeta. destruct crop; [|apply J_ret; exact I].
    match goal with |- J _ (match ?x with Some _ => _ | None => _ end) => destruct x as [[cux cuy]|] end;
      [|apply J_fail].
    jauto.
  Qed.

  (* sizes of everything ParseSPSNALUnit builds: constants *)
  Definition sps_lists_ok (s : sps) : Prop :=
    lenN (sps_ref_frames_in_poc_cycle s) <= 255 /\ lists_ok (sps_seq_scaling_lists s) /\ vui_ok (sps_vui s).

  Lemma J_parse_sps_data beyond : J sps_lists_ok (parse_sps_data R beyond).
  Proof.
    unfold parse_sps_data.
    do 4 (eapply J_bind_true; [jauto|]; intro).
    eapply J_bind; [apply J_parse_sps_high|]. intros hp Hhp.
    destruct hp as [[[[[[chroma sep] bdl] bdc] qpp] smp] lists]. cbn [snd] in Hhp.
    eapply J_bind_true; [apply J_ue|]. intros l2fn.
    destruct (12 <? l2fn); [apply J_fail|].
    eapply J_bind_true; [apply J_ue|]. intros poc_type.
    eapply J_bind; [apply J_parse_sps_poc|]. intros poc Hpoc.
    destruct poc as [[[[l2poc dz] o1] o2] cyc]. cbn [snd] in Hpoc.
    do 4 (eapply J_bind_true; [jauto|]; intro). cbv zeta.
    do 4 (eapply J_bind_true; [jauto|]; intro).
    eapply J_bind_true; [apply J_parse_sps_crop|]. intros cr.
    destruct cr as [[[[[cl cr_] ct] cb] w2] h2].
    eapply J_bind_true; [apply J_flag|]. intros vui_present.
    eapply J_bind_true; [apply J_get_nbytes|]. intros nb0.
    eapply (J_bind vui_ok).
    { destruct vui_present; [|apply J_ret; exact I].
      eapply J_bind; [apply J_parse_vui|]. intros x Hx. apply J_ret. exact Hx. }
    intros v Hv.
    eapply J_bind_true; [apply J_get_nbytes|]. intros nb1.
    eapply J_bind_true; [apply J_get_err|]. intros e.
    destruct e; [apply J_fail|]. apply J_ret.
    unfold sps_lists_ok. cbn [sps_ref_frames_in_poc_cycle sps_seq_scaling_lists sps_vui]. auto.
  Qed.

  Lemma J_parse_sps beyond : J sps_lists_ok (parse_sps R beyond).
  Proof.
    unfold parse_sps. eapply J_bind_true; [apply J_rd|]. intros hdr.
    destruct (negb (N.land (u8 hdr) 31 =? 7)); [apply J_fail|apply J_parse_sps_data].
  Qed.

  Lemma J_parse_pps_tail spsmap spsid :
    J (fun t => lists_ok (snd (fst t))) (parse_pps_tail R spsmap spsid).
  Proof.
    unfold parse_pps_tail.
    eapply J_bind_true; [apply J_flag|]. intros t8.
    eapply J_bind_true; [apply J_flag|]. intros spf.
    eapply (J_bind lists_ok).
    - destruct spf.
      + destruct (spsmap spsid) as [chroma|]; [|apply J_fail].
        eapply J_weaken; [apply J_read_scaling_lists|]. intros l [Hl Hs]. split; [|exact Hs].
        destruct t8; [destruct (negb (chroma =? 3))|]; lia.
      + apply J_ret. split; [cbn [length]; lia|constructor].
    - intros lists Hl. eapply J_bind_true; [apply J_se|]. intros second. apply J_ret. cbn [fst snd]. exact Hl.
  Qed.

  Lemma D_pwt_entry cat : D (pwt_entry R cat).
  Proof. unfold pwt_entry. apply D_bind; [apply D_flag|]. intros lw. jauto. Qed.

  (* ---- from here on: the error flag is the zero potential (used by the loops that test AccError) *)
  Hypothesis H_err : forall s, inv s -> (r_err R s = true <-> mu s = 0).

  (* ---- the data-driven loop `for i < n { if AccError != nil { break }; body }`: with a body that
     consumes potential, at most mu(s) iterations, so fuel > mu(s) is never exhausted *)
  Lemma rep_break_f_total {A} (body : @M St A) : D body ->
    forall fuel n s, inv s -> mu s < N.of_nat fuel ->
      rep_break_f R fuel n body s = Err \/
      exists l s', rep_break_f R fuel n body s = Ok (l, s') /\ inv s' /\ mu s' <= mu s /\
                   lenN l + mu s' <= mu s /\ lenN l <= n.
  Proof.
    intros Hb. induction fuel as [|f IH]; intros n s Hs Hf; [lia|].
    cbn [rep_break_f]. destruct (n =? 0) eqn:Hn0.
    { right. exists [], s. unfold ret. unfold lenN. cbn [length]. repeat split; auto; lia. }
    rewrite bind_get_err.
    destruct (r_err R s) eqn:He.
    { right. exists [], s. split; [reflexivity|]. unfold lenN. cbn [length]. repeat split; auto; lia. }
    assert (Hpos : 0 < mu s).
    { destruct (N.eq_dec (mu s) 0) as [Hz|Hz]; [|lia]. apply (H_err s Hs) in Hz. congruence. }
    destruct (Hb s Hs) as [E|(x & s1 & E & Hi1 & Hm1 & Hd1)].
    { left. apply bind_err. exact E. }
    rewrite (bind_ok _ _ _ _ _ E).
    specialize (Hd1 Hpos).
    destruct (IH (n - 1) s1 Hi1) as [E2|(t & s2 & E2 & Hi2 & Hm2 & Hl2 & Hn2)]; [lia| |].
    - left. apply bind_err. exact E2.
    - right. exists (x :: t), s2. rewrite (bind_ok _ _ _ _ _ E2). unfold ret.
      rewrite lenN_cons. repeat split; auto; lia.
  Qed.

  (* all states reachable in one run have potential at most B (B = potential of the initial state) *)
  Variable B : N.
  Hypothesis H_B : forall s, inv s -> mu s <= B.

  Lemma J_rep_break_f {A} (body : @M St A) fuel n : B < N.of_nat fuel -> D body ->
    J (fun l => lenN l <= B /\ lenN l <= n) (rep_break_f R fuel n body).
  Proof.
    intros Hf Hb s Hs. pose proof (H_B s Hs) as HB.
    destruct (rep_break_f_total body Hb fuel n s Hs) as [E|(l & s' & E & Hi & Hm & Hl & Hn)]; [lia|left; exact E|right].
    exists l, s'. repeat split; auto; lia.
  Qed.

  (* `e <- get_err ;; if e then ret st' else loop`: the loop is entered only without error, i.e. with
     positive potential *)
  Lemma err_then_loop {A} (loop : @M St A) (st' : A) (s2 : St) (bound : N) :
    inv s2 -> (0 < mu s2 -> mu s2 < bound) ->
    (forall s, inv s -> mu s < bound ->
       loop s = Err \/ exists a s', loop s = Ok (a, s') /\ inv s' /\ mu s' <= mu s) ->
    bind (get_err R) (fun e => if e then ret st' else loop) s2 = Err \/
    exists a s', bind (get_err R) (fun e => if e then ret st' else loop) s2 = Ok (a, s') /\ inv s' /\ mu s' <= mu s2.
  Proof.
    intros Hi Hb Hl. unfold bind, get_err. destruct (r_err R s2) eqn:He.
    - right. exists st', s2. unfold ret. repeat split; auto. lia.
    - assert (Hp : 0 < mu s2).
      { destruct (N.eq_dec (mu s2) 0) as [Hz|Hz]; [|lia]. apply (H_err s2 Hi) in Hz. congruence. }
      apply Hl; auto.
  Qed.

  (* one `x <- rd_ue ;; e <- get_err ;; if e then ret (g x) else loop (g x)` step *)
  Lemma ue_err_then_loop {A} (loop : A -> @M St A) (g : N -> A) (s1 : St) (bound : N) :
    inv s1 -> (0 < mu s1 -> mu s1 < bound) ->
    (forall st s, inv s -> mu s < bound ->
       loop st s = Err \/ exists a s', loop st s = Ok (a, s') /\ inv s' /\ mu s' <= mu s) ->
    bind (rd_ue R) (fun x => bind (get_err R) (fun e => if e then ret (g x) else loop (g x))) s1 = Err \/
    exists a s', bind (rd_ue R) (fun x => bind (get_err R) (fun e => if e then ret (g x) else loop (g x))) s1
                 = Ok (a, s') /\ inv s' /\ mu s' <= mu s1.
  Proof.
    intros Hi Hb Hl. rewrite bind_rd_ue.
    destruct (H_ue s1 Hi) as (B1 & B2 & _). destruct (r_ue R s1) as [x s2]. cbn [fst snd] in B1, B2 |- *.
    destruct (err_then_loop (loop (g x)) (g x) s2 bound B1) as [E|(a & s' & E & Hi' & Hm')].
    - intros Hp. assert (0 < mu s1) by lia. specialize (Hb H). lia.
    - intros s Hs Hm. apply Hl; auto.
    - left. exact E.
    - right. exists a, s'. repeat split; auto. lia.
  Qed.

  (* ---- the `for { ... }` loop of ref_pic_list_modification *)
  Lemma rplm_loop_total : forall fuel st s, inv s -> mu s < N.of_nat fuel ->
    rplm_loop R fuel st s = Err \/
    exists a s', rplm_loop R fuel st s = Ok (a, s') /\ inv s' /\ mu s' <= mu s.
  Proof.
    induction fuel as [|f IH]; intros st s Hs Hf; [lia|].
    cbn [rplm_loop]. destruct st as [[[i0 ad] lt] av].
    rewrite bind_rd_ue.
    destruct (H_ue s Hs) as (A1 & A2 & A3). destruct (r_ue R s) as [idc0 s1]. cbn [fst snd] in A1, A2, A3 |- *.
    assert (Hb1 : 0 < mu s1 -> mu s1 < N.of_nat f).
    { intros Hp. assert (Hps : 0 < mu s) by lia. specialize (A3 Hps). lia. }
    assert (Fin : forall X : res ((N * N * N * N) * St),
       (X = Err \/ exists a s', X = Ok (a, s') /\ inv s' /\ mu s' <= mu s1) ->
       X = Err \/ exists a s', X = Ok (a, s') /\ inv s' /\ mu s' <= mu s).
    { intros X [E|(a & s' & E & Hi & Hm)]; [left; exact E|right]. exists a, s'. repeat split; auto. lia. }
    destruct ((u32 idc0 =? 0) || (u32 idc0 =? 1)).
    { apply Fin. apply (ue_err_then_loop (rplm_loop R f) (fun x => (u32 idc0, u32 x, lt, av)) s1 (N.of_nat f)); auto. }
    destruct (u32 idc0 =? 2).
    { apply Fin. apply (ue_err_then_loop (rplm_loop R f) (fun x => (u32 idc0, ad, u32 x, av)) s1 (N.of_nat f)); auto. }
    destruct ((u32 idc0 =? 4) || (u32 idc0 =? 5)).
    { apply Fin. apply (ue_err_then_loop (rplm_loop R f) (fun x => (u32 idc0, ad, lt, u32 x)) s1 (N.of_nat f)); auto. }
    destruct (u32 idc0 =? 3).
    { right. eexists _, s1. unfold ret. split; [reflexivity|]. split; [auto|lia]. }
    apply Fin. apply (err_then_loop (rplm_loop R f (u32 idc0, ad, lt, av)) _ s1 (N.of_nat f)); auto.
  Qed.

  Lemma J_rplm_loop fuel st : B < N.of_nat fuel -> J (fun _ => True) (rplm_loop R fuel st).
  Proof.
    intros Hf s Hs. pose proof (H_B s Hs).
    destruct (rplm_loop_total fuel st s Hs) as [E|(a & s' & E & Hi & Hm)]; [lia|left; exact E|right].
    exists a, s'. repeat split; auto.
  Qed.

  (* ---- the `for { ... }` loop of dec_ref_pic_marking *)
  Lemma mmco_loop_total : forall fuel st s, inv s -> mu s < N.of_nat fuel ->
    mmco_loop R fuel st s = Err \/
    exists a s', mmco_loop R fuel st s = Ok (a, s') /\ inv s' /\ mu s' <= mu s.
  Proof.
    induction fuel as [|f IH]; intros st s Hs Hf; [lia|].
    cbn [mmco_loop]. destruct st as [[[df lt] fi] mx].
    rewrite bind_rd_ue.
    destruct (H_ue s Hs) as (A1 & A2 & A3). destruct (r_ue R s) as [op s1]. cbn [fst snd] in A1, A2, A3 |- *.
    (* the optional first operand *)
    assert (Hst : exists st1 s1', 
       (if (op =? 1) || (op =? 3) then bind (rd_ue R) (fun x => ret (u32 x, lt))
        else if op =? 2 then bind (rd_ue R) (fun x => ret (df, u32 x)) else ret (df, lt)) s1 = Ok (st1, s1')
       /\ inv s1' /\ mu s1' <= mu s1).
    { destruct ((op =? 1) || (op =? 3)); [|destruct (op =? 2)].
      - rewrite bind_rd_ue. unfold ret. destruct (H_ue s1 A1) as (B1 & B2 & _). destruct (r_ue R s1) as [x s2].
        cbn [fst snd] in B1, B2 |- *. eexists _, s2. split; [reflexivity|]. auto.
      - rewrite bind_rd_ue. unfold ret. destruct (H_ue s1 A1) as (B1 & B2 & _). destruct (r_ue R s1) as [x s2].
        cbn [fst snd] in B1, B2 |- *. eexists _, s2. split; [reflexivity|]. auto.
      - unfold ret. eexists _, s1. split; [reflexivity|]. split; [auto|lia]. }
    destruct Hst as (st1 & s1' & Est & Hi1 & Hm1). rewrite (bind_ok _ _ _ _ _ Est). destruct st1 as [df1 lt1].
    assert (Hb1 : 0 < mu s1' -> mu s1' < N.of_nat f).
    { intros Hp. assert (Hps : 0 < mu s) by lia. specialize (A3 Hps). lia. }
    assert (Fin : forall X : res ((N * N * N * N) * St),
       (X = Err \/ exists a s', X = Ok (a, s') /\ inv s' /\ mu s' <= mu s1') ->
       X = Err \/ exists a s', X = Ok (a, s') /\ inv s' /\ mu s' <= mu s).
    { intros X [E|(a & s' & E & Hi & Hm)]; [left; exact E|right]. exists a, s'. repeat split; auto. lia. }
    destruct ((op =? 3) || (op =? 6)).
    { apply Fin. apply (ue_err_then_loop (mmco_loop R f) (fun x => (df1, lt1, u32 x, mx)) s1' (N.of_nat f)); auto. }
    destruct (op =? 4).
    { apply Fin. apply (ue_err_then_loop (mmco_loop R f) (fun x => (df1, lt1, fi, u32 x)) s1' (N.of_nat f)); auto. }
    destruct (op =? 0).
    { right. eexists _, s1'. unfold ret. split; [reflexivity|]. split; [auto|lia]. }
    apply Fin. apply (err_then_loop (mmco_loop R f (df1, lt1, fi, mx)) _ s1' (N.of_nat f)); auto.
  Qed.

  Lemma J_mmco_loop fuel st : B < N.of_nat fuel -> J (fun _ => True) (mmco_loop R fuel st).
  Proof.
    intros Hf s Hs. pose proof (H_B s Hs).
    destruct (mmco_loop_total fuel st s Hs) as [E|(a & s' & E & Hi & Hm)]; [lia|left; exact E|right].
    exists a, s'. repeat split; auto.
  Qed.

  (* ================================================================== PPS *)
  Definition sg_t : Type := (N * list N * list N * list N * bool * N * N * list N)%type.
  Definition sg_ok (sg : sg_t) : Prop :=
    let '(mt, rl, tl, br, dir, rate, psmu, ids) := sg in
    lenN rl <= 8 /\ lenN tl <= 7 /\ lenN br <= 7 /\ lenN ids <= B.

  Lemma sg_ok_nil mt dir rate psmu : sg_ok (mt, [], [], [], dir, rate, psmu, []).
  Proof. unfold sg_ok, lenN. cbn [length]. lia. Qed.

  Lemma ceil_log2_pos nsg : 0 < nsg -> nsg <= 7 -> 1 <= ceil_log2 (nsg + 1).
  Proof.
    intros H0 H7.
    assert (Hc : nsg = 1 \/ nsg = 2 \/ nsg = 3 \/ nsg = 4 \/ nsg = 5 \/ nsg = 6 \/ nsg = 7) by lia.
    destruct Hc as [->|[->|[->|[->|[->|[->| ->]]]]]]; vm_compute; discriminate.
  Qed.

  Lemma J_parse_pps_slice_groups_d fuel nsg : B < N.of_nat fuel -> nsg <= 7 ->
    J sg_ok (parse_pps_slice_groups_d R fuel nsg).
  Proof.
    intros Hf H7. unfold parse_pps_slice_groups_d. destruct (0 <? nsg) eqn:H0.
    2:{ apply J_ret. apply sg_ok_nil. }
    eapply J_bind_true; [apply J_ue|]. intros mt.
    destruct (mt =? 0).
    { eapply J_bind; [apply (J_rep_n (fun _ => True) (rd_ue R) (nsg + 1))|].
      - unfold loop_bound. lia.
      - apply J_ue.
      - intros rl [Hl _]. apply J_ret. unfold sg_ok, lenN in Hl |- *. cbn [length]. lia. }
    destruct (mt =? 2).
    { eapply J_bind; [apply (J_rep_n (fun _ => True) _ nsg)|].
      - unfold loop_bound. lia.
      - jauto.
      - intros prs [Hl _]. apply J_ret. unfold sg_ok, lenN in Hl |- *. rewrite !map_length. cbn [length]. lia. }
    destruct ((mt =? 3) || (mt =? 4) || (mt =? 5)).
    { eapply J_bind_true; [apply J_flag|]. intros dir.
      eapply J_bind_true; [apply J_ue|]. intros rate. apply J_ret. apply sg_ok_nil. }
    destruct (mt =? 6).
    2:{ apply J_ret. apply sg_ok_nil. }
    eapply J_bind_true; [apply J_ue|]. intros psmu.
    eapply J_bind; [apply (J_rep_break_f (rd R (ceil_log2 (nsg + 1))) fuel (psmu + 1) Hf)|].
    - apply D_rd. apply ceil_log2_pos; lia.
    - intros ids [Hl _]. apply J_ret. unfold sg_ok, lenN in Hl |- *. cbn [length]. lia.
  Qed.

  Definition pre_t : Type :=
    (N * N * bool * bool * N * sg_t * N * N * bool * N * Z * Z * Z * bool * bool * bool)%type.
  Definition pre_sg (t : pre_t) : sg_t :=
    let '(id, spsid, ecm, bfp, nsg, sg, l0, l1, wp, wb, qp, qs, cqp, dfc, cip, rpc) := t in sg.

  Lemma J_parse_pps_pre_d fuel : B < N.of_nat fuel ->
    J (fun t => sg_ok (pre_sg t)) (parse_pps_pre_d R fuel).
  Proof.
    intros Hf. unfold parse_pps_pre_d.
    do 5 (eapply J_bind_true; [jauto|]; intro).
    destruct (7 <? a3) eqn:H7; [apply J_fail|].
    eapply J_bind; [apply (J_parse_pps_slice_groups_d fuel a3 Hf); lia|]. intros sg Hsg.
    jauto. cbn [pre_sg]. exact Hsg.
  Qed.

  (* ================================================================== slice header *)
  Lemma J_parse_slice_header_d fuel spsmap ppsmap : B < N.of_nat fuel ->
    J (fun _ => True) (parse_slice_header_d R fuel spsmap ppsmap).
  Proof.
    intros Hf. unfold parse_slice_header_d.
    Ltac jsub ::= first [ apply J_rplm_loop; assumption
                        | apply J_mmco_loop; assumption
                        | eapply J_true; apply J_rep_break_f; [assumption | apply D_pwt_entry] ].
    jauto.
  Qed.

  (* ---- MoreRbspData / ReadRbspTrailingBits: assumed only here (available in the trivial instance);
     the lemmas below must not depend on H_err / H_B *)
  Hypothesis H_more : forall s, inv s -> inv (snd (r_more R s)) /\ mu (snd (r_more R s)) <= mu s.
  Hypothesis H_trailing : forall s, inv s -> inv (snd (r_trailing R s)) /\ mu (snd (r_trailing R s)) <= mu s.

  Lemma J_more : J (fun _ => True) (rd_more R).
  Proof using H_read H_flag H_ue H_se H_seterr H_more H_trailing.
    intros s Hs. right. unfold rd_more. destruct (H_more s Hs) as (A1 & A2).
    destruct (r_more R s) as [v s']. cbn [snd] in A1, A2 |- *. exists v, s'. repeat split; auto.
  Qed.
  Lemma J_trailing : J (fun _ => True) (rd_trailing R).
  Proof using H_read H_flag H_ue H_se H_seterr H_more H_trailing.
    intros s Hs. right. unfold rd_trailing. destruct (H_trailing s Hs) as (A1 & A2).
    destruct (r_trailing R s) as [v s']. cbn [snd] in A1, A2 |- *. exists v, s'. repeat split; auto.
  Qed.

  Definition pps_lists_ok (p : pps) : Prop :=
    lenN (pps_run_length_minus1 p) <= 8 /\ lenN (pps_top_left p) <= 7 /\ lenN (pps_bottom_right p) <= 7 /\
    lenN (pps_slice_group_id p) <= B /\ lists_ok (pps_pic_scaling_lists p).

  (* needs H_more / H_trailing: available in the trivial instance only *)
  Lemma J_parse_pps_post spsmap (t : pre_t) : sg_ok (pre_sg t) ->
    J pps_lists_ok (parse_pps_post R spsmap t).
  Proof using H_read H_flag H_ue H_se H_seterr H_more H_trailing.
    intros Hsg. unfold parse_pps_post.
    destruct t as [[[[[[[[[[[[[[[id spsid] ecm] bfp] nsg] sg] l0] l1] wp] wb] qp] qs] cqp] dfc] cip] rpc].
    cbn [pre_sg] in Hsg. destruct sg as [[[[[[[mt rl] tl] br] dir] rate] psmu] ids].
    eapply J_bind_true; [apply J_more|]. intros more.
    eapply (J_bind (fun t => lists_ok (snd (fst t)))).
    { destruct more; [apply J_parse_pps_tail|]. apply J_ret. cbn [fst snd]. split; [cbn [length]; lia|constructor]. }
    intros tail Htail. destruct tail as [[[t8 spf] lists] second]. cbn [fst snd] in Htail.
    eapply J_bind_true; [apply J_trailing|]. intros tr.
    destruct tr; [apply J_fail|].
    eapply J_bind_true; [apply J_get_err|]. intros e. destruct e; [apply J_fail|].
    eapply J_bind_true; [apply J_rd|]. intros x.
    eapply J_bind_true; [apply J_get_err|]. intros e2. destruct (negb e2); [apply J_fail|].
    apply J_ret. unfold pps_lists_ok, sg_ok in Hsg |- *.
    cbn [pps_run_length_minus1 pps_top_left pps_bottom_right pps_slice_group_id pps_pic_scaling_lists].
    destruct Hsg as (H1 & H2 & H3 & H4). auto.
  Qed.

  (* ================================================================================================
     HEVC (C15HevcModel.v through the wrappers of C16HevcParseModel.v).  Everything below may use ALL the
     hypotheses above plus the ones declared here (only the EBSP reader instance is needed: every HEVC
     parser contains a data-driven loop). *)
  Variable bib : St -> N.
  Hypothesis H_more_true : forall s, inv s -> fst (r_more R s) = true -> 0 < mu (snd (r_more R s)).
  Hypothesis H_more_err : forall s, inv s -> mu s = 0 -> fst (r_more R s) = false.
  Hypothesis H_flag_true : forall s, inv s -> fst (r_flag R s) = true -> 0 < mu (snd (r_flag R s)).
  Hypothesis H_align : forall s, inv s -> 0 < mu s -> bib s < 8 ->
    0 < mu (snd (r_flag R s)) /\ bib s < bib (snd (r_flag R s)) /\ bib (snd (r_flag R s)) <= 8.

  (* weakly decreasing: if the program ends without error it has consumed potential *)
  Definition Dw {A} (m : @M St A) : Prop :=
    forall s, inv s ->
      m s = Err \/ exists a s', m s = Ok (a, s') /\ inv s' /\ mu s' <= mu s /\ (0 < mu s' -> mu s' < mu s).

  Lemma D_Dw {A} (m : @M St A) : D m -> Dw m.
  Proof.
    intros H s Hs. destruct (H s Hs) as [E|(a & s' & E & Hi & Hm & Hd)]; [left; exact E|right].
    exists a, s'. repeat split; auto. intros Hp. apply Hd. lia.
  Qed.
  Lemma Dw_J {A} (m : @M St A) : Dw m -> J (fun _ => True) m.
  Proof.
    intros H s Hs. destruct (H s Hs) as [E|(a & s' & E & Hi & Hm & _)]; [left; exact E|right].
    exists a, s'. auto.
  Qed.
  Lemma Dw_bind_l {A C} (m : @M St A) (k : A -> @M St C) :
    Dw m -> (forall a, J (fun _ => True) (k a)) -> Dw (bind m k).
  Proof.
    intros Hm Hk s Hs. destruct (Hm s Hs) as [E|(a & s1 & E & Hi & Hmu & Hd)].
    { left. apply bind_err. exact E. }
    rewrite (bind_ok _ _ _ _ _ E).
    destruct (Hk a s1 Hi) as [E2|(b & s2 & E2 & Hi2 & Hmu2 & _)]; [left; exact E2|right].
    exists b, s2. repeat split; auto; try lia.
  Qed.
  Lemma Dw_bind_r {A C} (m : @M St A) (k : A -> @M St C) :
    J (fun _ => True) m -> (forall a, Dw (k a)) -> Dw (bind m k).
  Proof.
    intros Hm Hk s Hs. destruct (Hm s Hs) as [E|(a & s1 & E & Hi & Hmu & _)].
    { left. apply bind_err. exact E. }
    rewrite (bind_ok _ _ _ _ _ E).
    destruct (Hk a s1 Hi) as [E2|(b & s2 & E2 & Hi2 & Hmu2 & Hd)]; [left; exact E2|right].
    exists b, s2. repeat split; auto; try lia.
  Qed.

  Lemma mu_pos_of_no_err s : inv s -> r_err R s = false -> 0 < mu s.
  Proof.
    intros Hs He. destruct (N.eq_dec (mu s) 0) as [Hz|Hz]; [|lia]. apply (H_err s Hs) in Hz. congruence.
  Qed.

  (* ---- rep_until_err_f: `for i < n { body; if AccError != nil { break } }` *)
  Lemma rep_until_err_f_total {A} (body : @M St A) : Dw body ->
    forall fl n s, inv s -> mu s < N.of_nat fl ->
      rep_until_err_f R fl n body s = Err \/
      exists l s', rep_until_err_f R fl n body s = Ok (l, s') /\ inv s' /\ mu s' <= mu s /\
                   lenN l <= mu s + 1 /\ lenN l <= n.
  Proof.
    intros Hb. induction fl as [|f IH]; intros n s Hs Hf; [lia|].
    cbn [rep_until_err_f]. destruct (n =? 0) eqn:Hn0.
    { right. exists [], s. unfold ret, lenN. cbn [length]. repeat split; auto; lia. }
    destruct (Hb s Hs) as [E|(x & s1 & E & Hi1 & Hm1 & Hd1)].
    { left. apply bind_err. exact E. }
    rewrite (bind_ok _ _ _ _ _ E). rewrite bind_get_err.
    destruct (r_err R s1) eqn:He1.
    { right. exists [x], s1. unfold ret, lenN. cbn [length]. repeat split; auto; lia. }
    pose proof (mu_pos_of_no_err s1 Hi1 He1) as Hp1. specialize (Hd1 Hp1).
    destruct (IH (n - 1) s1 Hi1) as [E2|(t & s2 & E2 & Hi2 & Hm2 & Hl2 & Hn2)]; [lia| |].
    - left. apply bind_err. exact E2.
    - right. exists (x :: t), s2. rewrite (bind_ok _ _ _ _ _ E2). unfold ret.
      rewrite lenN_cons. repeat split; auto; lia.
  Qed.

  Lemma J_rep_until_err_f {A} (body : @M St A) fl n : B < N.of_nat fl -> Dw body ->
    J (fun l => lenN l <= B + 1 /\ lenN l <= n) (rep_until_err_f R fl n body).
  Proof.
    intros Hf Hb s Hs. pose proof (H_B s Hs) as HB.
    destruct (rep_until_err_f_total body Hb fl n s Hs) as [E|(l & s' & E & Hi & Hm & Hl & Hn)]; [lia|left; exact E|right].
    exists l, s'. repeat split; auto; lia.
  Qed.

  Lemma bind_rd_more {C} (k : bool -> @M St C) s : bind (rd_more R) k s = k (fst (r_more R s)) (snd (r_more R s)).
  Proof. unfold bind, rd_more. destruct (r_more R s). reflexivity. Qed.
  Lemma bind_rd_flag {C} (k : bool -> @M St C) s : bind (rd_flag R) k s = k (fst (r_flag R s)) (snd (r_flag R s)).
  Proof. unfold bind, rd_flag. destruct (r_flag R s). reflexivity. Qed.

  (* ---- hext_data_loop: `for more { flags = append(flags, ReadFlag()); more = MoreRbspData() }` *)
  Lemma hext_data_loop_total : forall fl acc s, inv s -> mu s < N.of_nat fl ->
    hext_data_loop R fl acc s = Err \/
    exists l s', hext_data_loop R fl acc s = Ok (l, s') /\ inv s' /\ mu s' <= mu s /\
                 lenN l <= lenN acc + mu s.
  Proof.
    induction fl as [|f IH]; intros acc s Hs Hf; [lia|].
    cbn [hext_data_loop]. rewrite bind_rd_more.
    destruct (H_more s Hs) as (M1 & M2). pose proof (H_more_true s Hs) as M3.
    destruct (r_more R s) as [more s1]. cbn [fst snd] in M1, M2, M3 |- *.
    destruct more.
    2:{ right. exists acc, s1. split; [reflexivity|]. repeat split; auto; lia. }
    specialize (M3 eq_refl).
    destruct (D_flag s1 M1) as [E|(b & s2 & E & Hi2 & Hm2 & Hd2)].
    { left. apply bind_err. exact E. }
    rewrite (bind_ok _ _ _ _ _ E). specialize (Hd2 M3).
    destruct (IH (acc ++ [b]) s2 Hi2) as [E2|(l & s3 & E2 & Hi3 & Hm3 & Hl3)]; [lia|left; exact E2|right].
    exists l, s3. rewrite lenN_app in Hl3. change (lenN [b]) with 1 in Hl3. repeat split; auto; lia.
  Qed.

  Lemma J_hext_data_loop fl : B < N.of_nat fl ->
    J (fun l => lenN l <= B) (hext_data_loop R fl []).
  Proof.
    intros Hf s Hs. pose proof (H_B s Hs) as HB.
    destruct (hext_data_loop_total fl [] s Hs) as [E|(l & s' & E & Hi & Hm & Hl)]; [lia|left; exact E|right].
    exists l, s'. rewrite lenN_nil in Hl. repeat split; auto; lia.
  Qed.

  (* ---- byte_alignment: alignment_bit_equal_to_one must be read as 1 (so no error is pending), then
     at most 7 zero bits up to the byte boundary; fuel 9 is never exhausted *)
  Lemma halign_loop_total : forall fl s, inv s -> 0 < mu s -> 8 - bib s < N.of_nat fl ->
    halign_loop R bib fl s = Err \/
    exists s', halign_loop R bib fl s = Ok (tt, s') /\ inv s' /\ mu s' <= mu s.
  Proof.
    induction fl as [|f IH]; intros s Hs Hp Hf; [lia|].
    cbn [halign_loop]. destruct (bib s <? 8) eqn:Hb.
    2:{ right. exists s. repeat split; auto; lia. }
    destruct (H_align s Hs Hp) as (A1 & A2 & A3); [lia|].
    destruct (H_flag s Hs) as (F1 & F2 & _).
    rewrite bind_rd_flag. destruct (r_flag R s) as [b s1]. cbn [fst snd] in A1, A2, A3, F1, F2 |- *.
    destruct b; [left; reflexivity|].
    destruct (IH s1 F1 A1) as [E|(s' & E & Hi & Hm)]; [lia|left; exact E|right].
    exists s'. repeat split; auto; lia.
  Qed.

  Lemma J_align_block {C} (Psi : C -> Prop) (k : unit -> @M St C) :
    (forall u, J Psi (k u)) ->
    J Psi (bind (rd_flag R) (fun ab => if negb ab then fail else bind (halign_loop R bib 9) k)).
  Proof.
    intros Hk s Hs. destruct (H_flag s Hs) as (F1 & F2 & _). pose proof (H_flag_true s Hs) as F3.
    rewrite bind_rd_flag. destruct (r_flag R s) as [ab s1]. cbn [fst snd] in F1, F2, F3 |- *.
    destruct ab; cbn [negb]; [|left; reflexivity]. specialize (F3 eq_refl).
    destruct (halign_loop_total 9 s1 F1 F3) as [E|(s2 & E & Hi & Hm)]; [lia| |].
    - left. apply bind_err. exact E.
    - rewrite (bind_ok _ _ _ _ _ E). destruct (Hk tt s2 Hi) as [E2|(c & s3 & E2 & Hi3 & Hm3 & Hp3)]; [left; exact E2|right].
      exists c, s3. repeat split; auto; lia.
  Qed.

  (* ---- small arithmetic *)
  Lemma u8_lt x : u8 x < 256. Proof. unfold u8. apply N.mod_lt. discriminate. Qed.
  Lemma u16_lt x : u16 x < 65536. Proof. unfold u16. apply N.mod_lt. discriminate. Qed.

  Ltac bnd :=
    unfold loop_bound;
    repeat match goal with
      | |- context [u8 ?x] => lazymatch goal with H : u8 x < 256 |- _ => fail | _ => pose proof (u8_lt x) end
      | |- context [u16 ?x] => lazymatch goal with H : u16 x < 65536 |- _ => fail | _ => pose proof (u16_lt x) end
      end;
    repeat match goal with |- context [if ?c then _ else _] => destruct c end;
    lia.

  Lemma J_mapM {A C} (f : A -> @M St C) : (forall a, J (fun _ => True) (f a)) ->
    forall l, J (fun r => length r = length l) (mapM f l).
  Proof.
    intros Hf. induction l as [|a t IH]; cbn [mapM].
    - apply J_ret. reflexivity.
    - eapply J_bind_true; [apply Hf|]. intros b. eapply J_bind; [apply IH|]. intros bs Hb. cbv beta in Hb.
      apply J_ret. cbn [length]. lia.
  Qed.

  (* counted loops with a bound that `bnd` can show, and `rep` *)
  Ltac jsub ::= first
    [ eapply J_true; apply (J_rep_n (fun _ => True)); [bnd | ]
    | eapply J_true; apply (J_rep (fun _ => True))
    | apply J_more | apply J_trailing ].

  Lemma J_hparse_profile : J (fun _ => True) (hparse_profile R).
  Proof. unfold hparse_profile. jauto. Qed.

  Lemma J_hparse_sub f : J (fun _ => True) (hparse_sub R f).
  Proof. unfold hparse_sub. eapply J_bind_true; [destruct (fst f); [apply J_hparse_profile|jauto]|]. intro. jauto. Qed.

  Lemma J_hparse_ptl max_sub : max_sub <= 255 -> J (fun _ => True) (hparse_ptl R max_sub).
  Proof.
    intros Hm. unfold hparse_ptl. eapply J_bind_true; [apply J_hparse_profile|]. intro.
    eapply J_bind_true; [jauto|]. intro.
    eapply J_bind_true.
    - destruct (0 <? max_sub); [|jauto].
      eapply J_bind_true; [jauto|]. intro. eapply J_bind_true; [jauto|]. intro.
      eapply J_true. apply J_mapM. intro. apply J_hparse_sub.
    - intro. jauto.
  Qed.

  (* NumDeltaPocs is a uint8 and the loop over an inter-predicted set is `for j := byte(0); j <= numDeltaPocs; j++`,
     which does not terminate for 255 (the model's rep_n (NumDeltaPocs + 1) is that loop for <= 254 only): the
     bound that matters is 254.  An inter-predicted set has at most one entry more than its reference, an explicit
     one at most 16 + 16: after k sets every NumDeltaPocs is <= 31 + k, and the guard num_short_term_ref_pic_sets
     <= 64 keeps that at <= 95. *)
  Definition rps_le (K : N) (r : hrps) : Prop := rps_ndelta r <= K.
  Definition rps_ok (r : hrps) : Prop := rps_ndelta r <= 254.

  Lemma countb_le (l : list bool) : countb l <= lenN l.
  Proof.
    unfold countb, lenN. induction l as [|b t IH]; cbn [filter length]; [lia|].
    destruct b; cbn [length]; lia.
  Qed.

  Lemma u8_le x : u8 x <= x.
  Proof. unfold u8. apply N.mod_le. discriminate. Qed.

  Lemma J_hparse_rps_inter_entry : J (fun _ => True) (hparse_rps_inter_entry R).
  Proof. unfold hparse_rps_inter_entry. jauto. Qed.

  (* the index sets[idx - didx] is in range as soon as `sets` has at least idx entries; the new set has at most
     one entry more than the largest set so far (and at most 32 if it is coded explicitly) *)
  Lemma J_hparse_st_rps_K K idx num sets : (N.to_nat idx <= length sets)%nat -> Forall (rps_le K) sets -> K <= 254 ->
    J (rps_le (N.max 32 (K + 1))) (hparse_st_rps R idx num sets).
  Proof.
    intros Hl Hok HK. unfold hparse_st_rps.
    eapply J_bind_true; [jauto|]. intros inter. destruct inter.
    - eapply J_bind_true; [jauto|]. intros didx.
      destruct ((didx =? 0) || (idx <? didx)) eqn:Hg.
      { eapply J_bind_true; [apply J_set_err|]. intro. apply J_ret. unfold rps_le. cbn [rps_ndelta hrps_zero]. lia. }
      eapply J_bind_true; [jauto|]. intro. eapply J_bind_true; [jauto|]. intro.
      destruct (nth_error sets (N.to_nat (idx - didx))) as [ref|] eqn:Hn.
      2:{ exfalso. apply nth_error_None in Hn. lia. }
      assert (Hr : rps_le K ref) by (eapply Forall_forall; [exact Hok|eapply nth_error_In; exact Hn]).
      unfold rps_le in Hr.
      eapply J_bind; [apply (J_rep_n (fun _ => True)); [unfold loop_bound; lia|apply J_hparse_rps_inter_entry]|].
      intros fls [Hlen _]. apply J_ret. unfold rps_le. cbn [rps_ndelta].
      pose proof (u8_le (countb (map snd fls))) as H1. pose proof (countb_le (map snd fls)) as H2.
      unfold lenN in H2, Hlen. rewrite map_length in H2. lia.
    - eapply J_bind_true; [jauto|]. intro. eapply J_bind_true; [jauto|]. intro. cbv zeta.
      destruct ((16 <? u8 a) || (16 <? u8 a0)) eqn:Hg.
      { eapply J_bind_true; [apply J_set_err|]. intro. apply J_ret. unfold rps_le. cbn [rps_ndelta]. lia. }
      eapply J_bind_true; [jauto|]. intro. eapply J_bind_true; [jauto|]. intro.
      apply J_ret. unfold rps_le. cbn [rps_ndelta]. pose proof (u8_le (u8 a + u8 a0)). lia.
  Qed.

  Lemma J_hparse_st_rps idx num sets : (N.to_nat idx <= length sets)%nat -> Forall rps_ok sets ->
    J (fun _ => True) (hparse_st_rps R idx num sets).
  Proof. intros Hl Hok. eapply J_true. apply (J_hparse_st_rps_K 254); [exact Hl|exact Hok|lia]. Qed.

  Lemma rps_le_mono K K' r : K <= K' -> rps_le K r -> rps_le K' r.
  Proof. unfold rps_le. lia. Qed.

  Lemma J_hparse_rps_loop : forall cnt idx num acc,
    length acc = N.to_nat idx -> Forall (rps_le (31 + idx)) acc -> idx + N.of_nat cnt <= 64 ->
    J (fun l => length l = (N.to_nat idx + cnt)%nat /\ Forall (rps_le (31 + idx + N.of_nat cnt)) l)
      (hparse_rps_loop R cnt idx num acc).
  Proof.
    induction cnt as [|c IH]; intros idx num acc Hl Hok Hb; cbn [hparse_rps_loop].
    - apply J_ret. split; [lia|]. eapply Forall_impl; [|exact Hok]. intros r. apply rps_le_mono. lia.
    - eapply J_bind; [apply (J_hparse_st_rps_K (31 + idx) idx num acc); [lia|exact Hok|lia]|]. intros r Hr.
      eapply J_bind_true; [apply J_get_err|]. intros e. destruct e; [apply J_fail|].
      eapply J_weaken; [apply (IH (idx + 1) num (acc ++ [r]))|].
      + rewrite app_length. cbn [length]. lia.
      + apply Forall_app. split.
        * eapply Forall_impl; [|exact Hok]. intros x. apply rps_le_mono. lia.
        * constructor; [|constructor]. revert Hr. apply rps_le_mono. lia.
      + lia.
      + intros l [H1 H2]. split; [lia|]. eapply Forall_impl; [|exact H2]. intros x. apply rps_le_mono. lia.
  Qed.

  Lemma J_hskip_scaling_entry size_id : J (fun _ => True) (hskip_scaling_entry R size_id).
  Proof. unfold hskip_scaling_entry. jauto. Qed.

  Lemma J_hskip_scaling_list_data : J (fun _ => True) (hskip_scaling_list_data R).
  Proof.
    unfold hskip_scaling_list_data.
    repeat (eapply J_bind_true; [eapply J_true; apply (J_rep (fun _ => True)); apply J_hskip_scaling_entry|]; intro).
    jauto.
  Qed.

  Lemma J_hparse_cpb subpic : J (fun _ => True) (hparse_cpb R subpic).
  Proof. unfold hparse_cpb. jauto. Qed.

  Lemma J_hparse_subhrd nal vcl subpic : J (fun _ => True) (hparse_subhrd R nal vcl subpic).
  Proof.
    unfold hparse_subhrd.
    do 3 (eapply J_bind_true; [jauto|]; intro).
    destruct a1 as [elemental low_delay].
    eapply (J_bind (fun cnt => cnt <= 255)).
    { destruct (negb low_delay); [|apply J_ret; lia].
      eapply J_bind_true; [apply J_ue|]. intros c. destruct (31 <? c).
      - eapply J_bind_true; [apply J_set_err|]. intro. apply J_ret. lia.
      - apply J_ret. bnd. }
    intros cnt Hc.
    eapply J_bind_true.
    { destruct nal; [|jauto]. eapply J_true. apply (J_rep_n (fun _ => True)); [unfold loop_bound; lia|apply J_hparse_cpb]. }
    intro. eapply J_bind_true.
    { destruct vcl; [|jauto]. eapply J_true. apply (J_rep_n (fun _ => True)); [unfold loop_bound; lia|apply J_hparse_cpb]. }
    intro. jauto.
  Qed.

  Lemma J_hparse_hrd max_sub : max_sub <= 255 -> J (fun _ => True) (hparse_hrd R max_sub).
  Proof.
    intros Hm. unfold hparse_hrd.
    do 3 (eapply J_bind_true; [jauto|]; intro).
    destruct a1 as [[[[[[[sp a1] brs] css] cds] i] au] dp]. destruct a1 as [[[td dcr] spsei] dod].
    eapply J_bind_true.
    { eapply J_true. apply (J_rep_n (fun _ => True)); [unfold loop_bound; lia|apply J_hparse_subhrd]. }
    intro. jauto.
  Qed.

  Lemma J_hparse_bsr : J (fun _ => True) (hparse_bsr R).
  Proof. unfold hparse_bsr. jauto. Qed.

  Lemma J_hparse_vui max_sub : max_sub <= 255 -> J (fun _ => True) (hparse_vui R max_sub).
  Proof.
    intros Hm. unfold hparse_vui.
    Ltac jsub ::= first
      [ eapply J_true; apply (J_rep_n (fun _ => True)); [bnd | ]
      | eapply J_true; apply (J_rep (fun _ => True))
      | apply J_more | apply J_trailing
      | apply J_hparse_bsr
      | apply J_hparse_hrd; assumption ].
    jauto.
  Qed.

  Lemma J_hparse_sps_3d : J (fun _ => True) (hparse_sps_3d R).
  Proof. unfold hparse_sps_3d. jauto. Qed.

  Section WithFuel.
  Variable fuel : nat.
  Hypothesis H_fuel : B < N.of_nat fuel.

  Lemma J_rue_rd w : 1 <= w -> forall n, J (fun _ => True) (rep_until_err_f R fuel n (rd R w)).
  Proof. intros Hw n. eapply J_true. apply J_rep_until_err_f; [exact H_fuel|apply D_Dw, D_rd; exact Hw]. Qed.

  Lemma J_hparse_sps_scc_d chroma bdl bdc : J (fun _ => True) (hparse_sps_scc_d R fuel chroma bdl bdc).
  Proof.
    unfold hparse_sps_scc_d.
    Ltac jsub ::= first
      [ apply J_rue_rd; lia
      | eapply J_true; apply (J_rep_n (fun _ => True)); [bnd | ]
      | eapply J_true; apply (J_rep (fun _ => True))
      | apply J_more | apply J_trailing ].
    jauto.
  Qed.

  Lemma J_hparse_sps_ext_d chroma bdl bdc : J (fun _ => True) (hparse_sps_ext_d R fuel chroma bdl bdc).
  Proof.
    unfold hparse_sps_ext_d.
    Ltac jsub ::= first
      [ apply J_hparse_sps_scc_d | apply J_hparse_sps_3d
      | eapply J_true; apply J_hext_data_loop; assumption
      | eapply J_true; apply (J_rep_n (fun _ => True)); [bnd | ]
      | eapply J_true; apply (J_rep (fun _ => True))
      | apply J_more | apply J_trailing ].
    jauto.
  Qed.

  Lemma J_hparse_end {A} (Phi : A -> Prop) (a : A) : Phi a -> J Phi (hparse_end R a).
  Proof.
    intros Ha. unfold hparse_end.
    eapply J_bind_true; [apply J_trailing|]. intros tr. destruct tr; [apply J_fail|].
    eapply J_bind_true; [apply J_get_err|]. intros e. destruct e; [apply J_fail|].
    eapply J_bind_true; [apply J_rd|]. intro.
    eapply J_bind_true; [apply J_get_err|]. intros e2. destruct (negb e2); [apply J_fail|apply J_ret; exact Ha].
  Qed.

  (* what the slice-header parser needs of an SPS: the st_ref_pic_set list has (at least) the announced
     number of entries (so ShortTermRefPicSets[idx - deltaIdx] is in range) and every NumDeltaPocs is a uint8 *)
  Definition hsps_wf (sp : hsps) : Prop :=
    (N.to_nat (h_num_st_rps sp) <= length (h_st_rps sp))%nat /\ Forall rps_ok (h_st_rps sp).
  (* what ParseSPSNALUnit itself guarantees: at most 64 sets, every NumDeltaPocs <= 95 *)
  Definition hsps_tight (sp : hsps) : Prop :=
    h_num_st_rps sp <= 64 /\ lenN (h_st_rps sp) = h_num_st_rps sp /\ Forall (rps_le 95) (h_st_rps sp).

  Lemma hsps_tight_wf sp : hsps_tight sp -> hsps_wf sp.
  Proof.
    intros (H1 & H2 & H3). split; [unfold lenN in H2; lia|].
    eapply Forall_impl; [|exact H3]. intros r Hr. unfold rps_ok, rps_le in *. lia.
  Qed.

  (* steps through binds with trivial postconditions up to (not including) a bind whose first program matches `stop` *)
  Ltac jupto stop :=
    repeat (lazymatch goal with
            | |- J _ (bind ?m _) =>
                lazymatch m with
                | context [stop] => fail
                | _ => eapply J_bind_true; [jauto|]; intro
                end
            | |- J _ (let _ := _ in _) => cbv zeta
            | |- J _ (match ?p with pair _ _ => _ end) => destruct p
            | |- J _ (if ?c then fail else _) => destruct c eqn:?; [apply J_fail|]
            end).

  Lemma J_hparse_sps_d : J hsps_tight (hparse_sps_d R fuel).
  Proof.
    unfold hparse_sps_d.
    Ltac jsub ::= first
      [ apply J_hparse_ptl; bnd
      | apply J_hskip_scaling_list_data
      | apply J_hparse_vui; bnd
      | apply J_hparse_sps_ext_d
      | eapply J_true; apply (J_rep_n (fun _ => True)); [bnd | ]
      | eapply J_true; apply (J_rep (fun _ => True))
      | apply J_more | apply J_trailing ].
    jupto (@hparse_rps_loop).
    match goal with |- J _ (bind (hparse_rps_loop R (N.to_nat ?nst) _ _ _) _) =>
      assert (Hnst : nst <= 64) by lia;
      eapply J_bind; [apply (J_hparse_rps_loop (N.to_nat nst) 0 nst []); [reflexivity|constructor|lia]|];
      intros sets [Hlen Hok] end.
    jupto (@hparse_end).
    apply J_hparse_end. unfold hsps_tight. cbn [h_num_st_rps h_st_rps].
    unfold u8. rewrite N.mod_small by lia. split; [exact Hnst|]. split; [unfold lenN; lia|].
    eapply Forall_impl; [|exact Hok]. intros r. apply rps_le_mono. lia.
  Qed.

  (* ================================================================== HEVC PPS *)
  (* like J, but the program may also give up with OutOfFuel (used for the one unmodelled branch) *)
  Definition JO {A} (Phi : A -> Prop) (m : @M St A) : Prop :=
    forall s, inv s ->
      m s = Err \/ m s = OutOfFuel \/ exists a s', m s = Ok (a, s') /\ inv s' /\ mu s' <= mu s /\ Phi a.

  Lemma J_JO {A} (Phi : A -> Prop) m : J Phi m -> JO Phi m.
  Proof. intros H s Hs. destruct (H s Hs) as [E|E]; [left; exact E|right; right; exact E]. Qed.
  Lemma JO_oof {A} (Phi : A -> Prop) : JO Phi (@out_of_fuel St A).
  Proof. intros s Hs. right. left. reflexivity. Qed.
  Lemma JO_bind_true {A C} (Psi : C -> Prop) (m : @M St A) (k : A -> @M St C) :
    J (fun _ => True) m -> (forall a, JO Psi (k a)) -> JO Psi (bind m k).
  Proof.
    intros Hm Hk s Hs. destruct (Hm s Hs) as [E|(a & s1 & E & Hi & Hmu & _)].
    { left. apply bind_err. exact E. }
    rewrite (bind_ok _ _ _ _ _ E).
    destruct (Hk a s1 Hi) as [E2|[E2|(b & s2 & E2 & Hi2 & Hmu2 & Hp2)]]; [left; exact E2|right; left; exact E2|right; right].
    exists b, s2. repeat split; auto. lia.
  Qed.

  Lemma u64_small x : x < 18446744073709551616 -> u64 x = x.
  Proof. intros H. unfold u64. apply N.mod_small. exact H. Qed.

  Lemma Dw_se_pair {C} (f : Z -> Z -> C) : Dw (bind (rd_se R) (fun a => bind (rd_se R) (fun b => ret (f a b)))).
  Proof. apply D_Dw, D_bind; [apply D_se|]. intro. jauto. Qed.

  Lemma J_hparse_pps_range_d ts : J (fun _ => True) (hparse_pps_range_d R fuel ts).
  Proof.
    unfold hparse_pps_range_d.
    Ltac jsub ::= first
      [ eapply J_true; apply J_rep_until_err_f; [assumption | apply Dw_se_pair]
      | eapply J_true; apply (J_rep_n (fun _ => True)); [bnd | ]
      | eapply J_true; apply (J_rep (fun _ => True))
      | apply J_more | apply J_trailing ].
    jauto.
  Qed.

  Lemma J_hparse_pps_scc_d : J (fun _ => True) (hparse_pps_scc_d R fuel).
  Proof.
    unfold hparse_pps_scc_d.
    Ltac jsub ::= first
      [ apply J_rue_rd; rewrite u64_small by lia; lia
      | eapply J_true; apply (J_rep_n (fun _ => True)); [bnd | ]
      | eapply J_true; apply (J_rep (fun _ => True))
      | apply J_more | apply J_trailing ].
    jauto.
  Qed.

  Definition hpps_wf (pp : hpps) : Prop := pp_num_extra_bits pp <= 255.

  (* ---- the PPS multilayer / 3D extension skeletons of C16HevcParseModel.v *)
  Lemma J_four_se : J (fun _ => True) (four_se R).
  Proof. unfold four_se. jauto. Qed.
  Lemma J_four_ue : J (fun _ => True) (four_ue R).
  Proof. unfold four_ue. jauto. Qed.

  Lemma Dw_hml_ref_loc_entry : Dw (hml_ref_loc_entry R).
  Proof.
    unfold hml_ref_loc_entry. apply Dw_bind_l; [apply D_Dw, D_rd; lia|]. intro.
    Ltac jsub ::= first [ apply J_four_se | apply J_four_ue ].
    jauto.
  Qed.

  Lemma J_rd_wide n : J (fun _ => True) (rd_wide R fuel n).
  Proof. unfold rd_wide. jauto. Qed.

  Lemma J_hoct_coeff res : J (fun _ => True) (hoct_coeff R fuel res).
  Proof.
    unfold hoct_coeff.
    Ltac jsub ::= first [ apply J_rd_wide ].
    jauto.
  Qed.

  Lemma J_hoct_entry res : J (fun _ => True) (hoct_entry R fuel res).
  Proof.
    unfold hoct_entry. eapply J_bind_true; [apply J_flag|]. intros f. destruct f; [|apply J_ret; exact I].
    eapply J_bind_true; [eapply J_true; apply (J_rep (fun _ => True)); apply J_hoct_coeff|]. intro. apply J_ret. exact I.
  Qed.

  Lemma J_hoct_leaf p res : J (fun _ => True) (hoct_leaf R fuel p res).
  Proof.
    unfold hoct_leaf. eapply J_bind_true; [|intro; apply J_ret; exact I].
    eapply J_true. apply (J_rep (fun _ => True)). eapply J_true. apply (J_rep (fun _ => True)). apply J_hoct_entry.
  Qed.

  (* the recursion is on the remaining depth: at most 8^3 leaves *)
  Lemma J_hoctants : forall d p res, J (fun _ => True) (hoctants R fuel d p res).
  Proof.
    induction d as [|d IH]; intros p res; cbn [hoctants].
    - eapply J_bind_true; [apply J_hoct_leaf|]. intro. jauto.
    - eapply J_bind_true; [apply J_flag|]. intros sp.
      eapply J_bind_true.
      + destruct sp; [|apply J_hoct_leaf].
        eapply J_bind_true; [eapply J_true; apply (J_rep (fun _ => True)); apply IH|]. intro. apply J_ret. exact I.
      + intro. jauto.
  Qed.

  Lemma J_hparse_cm_table : J (fun _ => True) (hparse_cm_table R fuel).
  Proof.
    unfold hparse_cm_table.
    Ltac jsub ::= first [ apply J_rue_rd; lia | apply J_hoctants ].
    jauto.
  Qed.

  Lemma J_hparse_pps_ml_d : J (fun _ => True) (hparse_pps_ml_d R fuel).
  Proof.
    unfold hparse_pps_ml_d.
    Ltac jsub ::= first
      [ eapply J_true; apply J_rep_until_err_f; [assumption | apply Dw_hml_ref_loc_entry]
      | apply J_hparse_cm_table ].
    jauto.
  Qed.

  Lemma J_hparse_delta_dlt w : J (fun _ => True) (hparse_delta_dlt R fuel w).
  Proof.
    unfold hparse_delta_dlt.
    Ltac jsub ::= first [ apply J_rue_rd; lia ].
    jauto.
  Qed.

  Lemma Dw_hparse_depth_layer bd : Dw (hparse_depth_layer R fuel bd).
  Proof.
    unfold hparse_depth_layer. apply Dw_bind_l; [apply D_Dw, D_flag|]. intro.
    Ltac jsub ::= first
      [ eapply J_true; apply J_rep_until_err_f; [assumption | apply D_Dw, D_flag]
      | apply J_hparse_delta_dlt ].
    jauto.
  Qed.

  Lemma J_hparse_pps_3d_d : J (fun _ => True) (hparse_pps_3d_d R fuel).
  Proof.
    unfold hparse_pps_3d_d.
    Ltac jsub ::= first
      [ eapply J_true; apply J_rep_until_err_f; [assumption | apply Dw_hparse_depth_layer] ].
    jauto.
  Qed.

  (* every PPS: the range, multilayer, 3D and SCC extension bodies included *)
  Lemma J_hparse_pps_d spsmap : J hpps_wf (hparse_pps_d R fuel spsmap).
  Proof.
    unfold hparse_pps_d.
    Ltac jsub ::= first
      [ eapply J_true; apply J_rep_until_err_f; [assumption | apply D_Dw, D_ue]
      | apply J_hskip_scaling_list_data
      | apply J_hparse_pps_range_d | apply J_hparse_pps_scc_d
      | apply J_hparse_pps_ml_d | apply J_hparse_pps_3d_d
      | eapply J_true; apply J_hext_data_loop; assumption
      | eapply J_true; apply (J_rep_n (fun _ => True)); [bnd | ]
      | eapply J_true; apply (J_rep (fun _ => True))
      | apply J_more | apply J_trailing ].
    jupto (@hparse_end).
    apply J_hparse_end. unfold hpps_wf. cbn [pp_num_extra_bits]. bnd.
  Qed.

  (* ================================================================== HEVC slice segment header *)
  Lemma J_hlt_first i nlsps sp : J (fun _ => True)
    (if i <? nlsps then
       if 1 <? h_num_lt sp then
         bind (rd R (ceil_log2 (h_num_lt sp))) (fun ix =>
           match nth_error (h_lt sp) (N.to_nat ix) with None => fail | Some l => ret l end)
       else match nth_error (h_lt sp) 0 with None => fail | Some l => ret l end
     else bind (rd R (u8 (h_log2_poc sp + 4))) (fun p => bind (rd_flag R) (fun u => ret (mkHLt (u16 p) u false 0)))).
  Proof. jauto. Qed.

  Lemma hlt_loop_f_total : forall fl cnt i nlsps sp acc npt s, inv s -> mu s < N.of_nat fl ->
    hlt_loop_f R fl cnt i nlsps sp acc npt s = Err \/
    exists a s', hlt_loop_f R fl cnt i nlsps sp acc npt s = Ok (a, s') /\ inv s' /\ mu s' <= mu s.
  Proof.
    induction fl as [|f IH]; intros cnt i nlsps sp acc npt s Hs Hf; [lia|].
    cbn [hlt_loop_f]. destruct (cnt =? 0).
    { right. eexists _, s. split; [reflexivity|]. split; [auto|lia]. }
    destruct (J_hlt_first i nlsps sp s Hs) as [E|(lt0 & s1 & E & Hi1 & Hm1 & _)].
    { left. apply bind_err. exact E. }
    rewrite (bind_ok _ _ _ _ _ E). cbv zeta.
    destruct (D_flag s1 Hi1) as [E2|(msb & s2 & E2 & Hi2 & Hm2 & Hd2)].
    { left. apply bind_err. exact E2. }
    rewrite (bind_ok _ _ _ _ _ E2).
    assert (Jc : J (fun _ => True) (if msb then rd_ue R else ret 0)) by (destruct msb; jauto).
    destruct (Jc s2 Hi2) as [E3|(cyc & s3 & E3 & Hi3 & Hm3 & _)].
    { left. apply bind_err. exact E3. }
    rewrite (bind_ok _ _ _ _ _ E3).
    match goal with |- context [bind (get_err R) (fun e => if e then ret ?st else ?loop)] =>
      destruct (err_then_loop loop st s3 (N.of_nat f) Hi3) as [E4|(a & s' & E4 & Hi' & Hm')] end.
    - intros Hp3. assert (0 < mu s1) by lia. specialize (Hd2 H). lia.
    - intros s0 Hs0 Hm0. apply IH; auto.
    - left. exact E4.
    - right. exists a, s'. repeat split; auto. lia.
  Qed.

  Lemma J_hlt_loop_f cnt i nlsps sp acc npt : J (fun _ => True) (hlt_loop_f R fuel cnt i nlsps sp acc npt).
  Proof.
    intros s Hs. pose proof (H_B s Hs).
    destruct (hlt_loop_f_total fuel cnt i nlsps sp acc npt s Hs) as [E|(a & s' & E & Hi & Hm)]; [lia|left; exact E|right].
    exists a, s'. repeat split; auto.
  Qed.

  Lemma J_hparse_rplm is_b l0 l1 npt : J (fun _ => True) (hparse_rplm R is_b l0 l1 npt).
  Proof.
    unfold hparse_rplm.
    Ltac jsub ::= first
      [ eapply J_true; apply (J_rep_n (fun _ => True)); [bnd | ]
      | eapply J_true; apply (J_rep (fun _ => True)) ].
    jauto.
  Qed.

  Lemma J_hparse_pwt_values fl : J (fun _ => True) (hparse_pwt_values R fl).
  Proof. unfold hparse_pwt_values. jauto. Qed.

  Lemma J_hparse_pwt_list cat_nz cnt : cnt <= 255 -> J (fun _ => True) (hparse_pwt_list R cat_nz cnt).
  Proof.
    intros Hc. unfold hparse_pwt_list.
    eapply J_bind_true; [jauto|]. intro. eapply J_bind_true; [jauto|]. intro.
    eapply J_true. apply J_mapM. intro. apply J_hparse_pwt_values.
  Qed.

  Lemma J_hparse_pwt is_b cat_nz l0 l1 : J (fun _ => True) (hparse_pwt R is_b cat_nz l0 l1).
  Proof.
    unfold hparse_pwt.
    Ltac jsub ::= first
      [ apply J_hparse_pwt_list; bnd
      | eapply J_true; apply (J_rep_n (fun _ => True)); [bnd | ]
      | eapply J_true; apply (J_rep (fun _ => True)) ].
    jauto.
  Qed.

  Lemma J_hparse_slice_main_d nt sp pp : hsps_wf sp -> hpps_wf pp ->
    J (fun _ => True) (hparse_slice_main_d R fuel nt sp pp).
  Proof.
    intros [Hw1 Hw2] Hp. unfold hpps_wf in Hp. unfold hparse_slice_main_d.
    Ltac jsub ::= first
      [ eapply J_true; apply J_hparse_st_rps; assumption
      | apply J_hlt_loop_f
      | apply J_hparse_rplm | apply J_hparse_pwt
      | eapply J_true; apply (J_rep_n (fun _ => True)); [bnd | ]
      | eapply J_true; apply (J_rep (fun _ => True)) ].
    jauto.
  Qed.

  Lemma Dw_entry_point w : Dw (bind (rd R (w + 1)) (fun x => ret (u32 x))).
  Proof. apply D_Dw, D_bind; [apply D_rd; lia|]. intro. jauto. Qed.

  Lemma J_hparse_slice_d spsmap ppsmap :
    (forall id sp, spsmap id = Some sp -> hsps_wf sp) ->
    (forall id pp, ppsmap id = Some pp -> hpps_wf pp) ->
    J (fun _ => True) (hparse_slice_d R bib fuel spsmap ppsmap).
  Proof.
    intros Hsm Hpm. unfold hparse_slice_d.
    do 4 (eapply J_bind_true; [jauto|]; intro). cbv zeta.
    destruct (ppsmap (u32 a2)) as [pp|] eqn:Ep; [|apply J_fail].
    destruct (spsmap (pp_sps_id pp)) as [sp|] eqn:Es; [|apply J_fail].
    pose proof (Hsm _ _ Es) as Hsw. pose proof (Hpm _ _ Ep) as Hpw.
    Ltac jsub ::= first
      [ apply J_hparse_slice_main_d; assumption
      | eapply J_true; apply J_rep_until_err_f; [assumption | apply Dw_entry_point]
      | eapply J_true; apply (J_rep_n (fun _ => True)); [bnd | ]
      | eapply J_true; apply (J_rep (fun _ => True)) ].
    repeat (lazymatch goal with
            | |- J _ (bind (rd_flag R) (fun ab => if negb ab then fail else bind (halign_loop _ _ _) _)) => fail
            | |- J _ (bind _ _) => eapply J_bind_true; [jauto|]; intro
            | |- J _ (let _ := _ in _) => cbv zeta
            | |- J _ (match ?p with pair _ _ => _ end) => destruct p
            end).
    apply J_align_block. intro. jauto.
  Qed.

  End WithFuel.

End Logic.
