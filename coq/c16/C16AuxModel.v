(* C16AuxModel.v — wrapper models for the C16 totality theorems about code that other properties
   already model (C17: sei extractor and typed SEI decoders; C18: ADTS / AudioSpecificConfig).
   DEFINITIONS ONLY (extractable: no Prop in computations).

   Why wrappers.  The C17 models of the pass-through / fixed-layout SEI decoders use TOTAL list functions
   (`nthb` = nth with a default, firstn/skipn) where the Go text indexes and slices (and panicked before
   the fix commits 9efafe9 / bfe4f2e).  A totality theorem about a totalised model would be true for the
   wrong reason.  The `_p` variants below evaluate exactly the index / slice expressions of the Go text,
   in the order the Go text evaluates them, after exactly the length checks the Go text makes, with
   PARTIAL operations (`pidx`, `pslice`, `be16_p`, `be32_p`: out of range = `Panic`).  C16AuxSeiProofs.v
   proves (a) they never return Panic for any input and (b) they return what the C17 model returns, so the
   C17 correspondence carries over.

   The C17 extractor model takes a shortcut in ReadBytes (does not loop when the size exceeds the input);
   `extract_sei_data_go` performs the allocation and the loop of the Go text and records the requested
   sizes and the iteration counts. *)
From V.lib Require Import Base.
From V.c13 Require Import C13Model.
From V.c17 Require Import C17Spec C17Model C17TypedModel.
From V.c18 Require C18Model.

(* ------------------------------------------------------------------ partial Go slice primitives *)
Definition lenZ {A} (l : list A) : Z := Z.of_nat (length l).

(* s[i] *)
Definition pidx {A} (l : list A) (i : Z) : res A :=
  if ((0 <=? i) && (i <? lenZ l))%Z then
    match nth_error l (Z.to_nat i) with Some b => Ok b | None => Panic end
  else Panic.

(* s[lo:hi] (cap = len: the harness passes exact-capacity copies) *)
Definition pslice {A} (l : list A) (lo hi : Z) : res (list A) :=
  if ((0 <=? lo) && (lo <=? hi) && (hi <=? lenZ l))%Z
  then Ok (firstn (Z.to_nat (hi - lo)) (skipn (Z.to_nat lo) l))
  else Panic.

(* binary.BigEndian.Uint16(b): `_ = b[1]` panics on fewer than 2 bytes; the value is written with the
   accumulator of the C17 model (be_val) so that both models have the same normal form *)
Definition be16_p (b : list N) : res N :=
  match b with
  | x :: y :: _ => Ok (be_val [x; y] 0)
  | _ => Panic
  end.

(* binary.BigEndian.Uint32(b): `_ = b[3]` *)
Definition be32_p (b : list N) : res N :=
  match b with
  | x :: y :: z :: w :: _ => Ok (be_val [x; y; z; w] 0)
  | _ => Panic
  end.

(* forget the counters of a wrapper result *)
Definition rmap {A B} (f : A -> B) (r : res A) : res B :=
  match r with Ok a => Ok (f a) | Err => Err | Panic => Panic | OutOfFuel => OutOfFuel end.

(* ================================================================== sei/sei4.go (after 9efafe9) *)
(* ParseCEA608(payload):
     pos := 0
     if len(payload) == 0 { return error }
     ccCount := payload[pos] & 0x1f
     pos += 2
     for i := byte(0); i < ccCount; i++ {          // ccCount <= 31: the byte counter cannot wrap
         if len(payload) < pos+3 { return error }
         b := payload[pos]; pos++; ccData1 := payload[pos]; pos++; ccData2 := payload[pos]; pos++
         ... append two bytes to field1 or field2 ... }
   Result: field1, field2, number of loop iterations. *)
Fixpoint cea608_loop_p (k : nat) (pl : list N) (pos : Z) (f1 f2 : list N) (ticks : N)
  : res (list N * list N * N) :=
  match k with
  | O => Ok (f1, f2, ticks)
  | S k' =>
      if (lenZ pl <? pos + 3)%Z then Err
      else
        do b <- pidx pl pos;
        do d1 <- pidx pl (pos + 1);
        do d2 <- pidx pl (pos + 2);
        let valid := negb (N.land b 4 =? 0) in
        let ty := N.land b 3 in
        let nonempty := negb ((N.land d1 127 + N.land d2 127) mod 256 =? 0) in
        if valid && nonempty then
          if ty =? 0 then cea608_loop_p k' pl (pos + 3) (f1 ++ [d1; d2]) f2 (ticks + 1)
          else if ty =? 1 then cea608_loop_p k' pl (pos + 3) f1 (f2 ++ [d1; d2]) (ticks + 1)
          else cea608_loop_p k' pl (pos + 3) f1 f2 (ticks + 1)
        else cea608_loop_p k' pl (pos + 3) f1 f2 (ticks + 1)
  end.

Definition parse_cea608_p (pl : list N) : res (list N * list N * N) :=
  if (lenZ pl =? 0)%Z then Err
  else
    do b0 <- pidx pl 0;
    cea608_loop_p (N.to_nat (N.land b0 31)) pl 2 [] [] 0.

(* DecodeUserDataRegisteredSEI(sd) with ExtractCEA608sei inlined:
     if len(payload) < 8 { return error }
     ITUData{ payload[0], Uint16(payload[1:3]), Uint32(payload[3:7]), payload[7] }   (in this order)
     if IsCEA608 { if len(payload) < 8 { error }; ParseCEA608(payload[8:]) ... }
   Result: the message, loop iterations of ParseCEA608. *)
Definition decode_registered_p (pl : list N) : res (passthrough * N) :=
  if (lenZ pl <? 8)%Z then Err
  else
    do cc <- pidx pl 0;
    do s13 <- pslice pl 1 3;
    do prov <- be16_p s13;
    do s37 <- pslice pl 3 7;
    do uid <- be32_p s37;
    do tc <- pidx pl 7;
    if (cc =? 181) && (prov =? 49) && (uid =? 1195456820) && (tc =? 3) then
      if (lenZ pl <? 8)%Z then Err
      else
        do rest <- pslice pl 8 (lenZ pl);
        do r <- parse_cea608_p rest;
        let '(f1, f2, t) := r in
        Ok (mkPass (KCea608 f1 f2) pl, t)
    else Ok (mkPass KRegistered pl, 0).

(* ExtractCEA608sei(sd) called directly *)
Definition extract_cea608_p (pl : list N) : res (passthrough * N) :=
  if (lenZ pl <? 8)%Z then Err
  else
    do rest <- pslice pl 8 (lenZ pl);
    do r <- parse_cea608_p rest;
    let '(f1, f2, t) := r in
    Ok (mkPass (KCea608 f1 f2) pl, t).

(* ================================================================== sei/sei5.go (after 9efafe9) *)
(* DecodeUserDataUnregisteredSEI: if len < 16 { error }; uuid := payload[:16] *)
Definition decode_unregistered_p (pl : list N) : res passthrough :=
  if (lenZ pl <? 16)%Z then Err
  else do uuid <- pslice pl 0 16; Ok (mkPass (KUnregistered uuid) pl).

(* UnregisteredSEI.String(): string(s.payload[16:]) on a decoded message; returns the sliced bytes *)
Definition unregistered_string_accesses (m : passthrough) : res (list N) :=
  pslice (ps_payload m) 16 (lenZ (ps_payload m)).

(* ================================================================== sei/sei137.go, sei144.go *)
(* binary.BigEndian.Uint16(data[pos:]) / Uint32(data[pos:]) *)
Definition u16_from (data : list N) (pos : Z) : res N :=
  do s <- pslice data pos (lenZ data); be16_p s.
Definition u32_from (data : list N) (pos : Z) : res N :=
  do s <- pslice data pos (lenZ data); be32_p s.

(* DecodeMasteringDisplayColourVolumeSEI: if len(data) != 24 { error }; ten reads at pos = 0,2,..,14,16,20 *)
Definition mdcv_decode_p (p : list N) : res mdcv :=
  if negb (lenZ p =? 24)%Z then Err
  else
    do x0 <- u16_from p 0;  do y0 <- u16_from p 2;
    do x1 <- u16_from p 4;  do y1 <- u16_from p 6;
    do x2 <- u16_from p 8;  do y2 <- u16_from p 10;
    do wx <- u16_from p 12; do wy <- u16_from p 14;
    do mx <- u32_from p 16; do mn <- u32_from p 20;
    Ok (mkMdcv x0 y0 x1 y1 x2 y2 wx wy mx mn).

(* DecodeContentLightLevelInformationSEI: if len(data) != 4 { error }; Uint16(data[:2]); Uint16(data[2:4]) *)
Definition cll_decode_p (p : list N) : res cll :=
  if negb (lenZ p =? 4)%Z then Err
  else
    do s02 <- pslice p 0 2; do a <- be16_p s02;
    do s24 <- pslice p 2 4; do b <- be16_p s24;
    Ok (mkCll a b).

(* ================================================================== String() index accesses *)
(* `for i := range s { ... s[i] ... }` starting at index i0: the length is evaluated once (n iterations),
   each iteration indexes s[i].  Returns the elements visited. *)
Fixpoint range_idx {A} (l : list A) (n : nat) (i : Z) : res (list A) :=
  match n with
  | O => Ok []
  | S n' => do x <- pidx l i; do r <- range_idx l n' (i + 1); Ok (x :: r)
  end.

(* TimeCodeSEI.String() after bfe4f2e:  for i := range s.Clocks { ... s.Clocks[i].String() } *)
Definition tc_string_accesses (cs : list clock) : res (list clock) :=
  range_idx cs (length cs) 0.

(* TimeCodeSEI.String() of the pinned text:
     msg := Sprintf(..., s.Clocks[0].String())
     if len(s.Clocks) > 1 { for i := 1; i < len(s.Clocks); i++ { ... s.Clocks[i] ... } } *)
Definition tc_string_accesses_pinned (cs : list clock) : res (list clock) :=
  do c0 <- pidx cs 0;
  do r <- range_idx cs (length cs - 1) 1;
  Ok (c0 :: r).

(* PicTimingAvcSEI.String() (current text has the pinned shape: Clocks[0], then i = 1..len-1) *)
Definition pt_string_accesses (m : pic_timing) : res (list clock_avc) :=
  do c0 <- pidx (p_clocks m) 0;
  do r <- range_idx (p_clocks m) (length (p_clocks m) - 1) 1;
  Ok (c0 :: r).

(* ================================================================== sei.ExtractSEIData as Go runs it *)
(* the 0xFF-run loop of C17Model.read_ff, counting its iterations *)
Fixpoint read_ff_t (fuel : nat) (wrap : N -> N) (s : rstate) (acc : N) (k : N) : option (N * rstate * N) :=
  match fuel with
  | O => None
  | S f =>
      let '(b, s1) := read s 8 in
      let acc' := wrap (acc + b) in
      if b =? 255 then read_ff_t f wrap s1 acc' (k + 1) else Some (acc', s1, k + 1)
  end.

(* ar.ReadBytes(n) of bits/ebspreader.go:
     if r.err != nil { return nil }
     payload := make([]byte, n); for i := 0; i < n; i++ { payload[i] = byte(r.Read(8)) }
     if r.err != nil { return nil }; return payload
   Result: bytes, state, bytes allocated, loop iterations.  No shortcut: the loop runs n times
   whatever the input length (every Read after the first error is O(1)). *)
Definition read_bytes_go (s : rstate) (sz : N) : list N * rstate * N * N :=
  if rerr s then ([], s, 0, 0)
  else let '(l, s') := read_bytes (N.to_nat sz) s in
       (if rerr s' then [] else l, s', sz, sz).

(* what the run cost: requested allocation sizes of ReadBytes (in the order of the requests), number of Read(8)
   calls made by the two 0xFF-run loops, number of ReadBytes loop iterations *)
Record xcost := mkCost { c_allocs : list N; c_ffreads : N; c_pliters : N }.

Definition cost_add (sz kff : N) (c : xcost) : xcost :=
  mkCost (sz :: c_allocs c) (kff + c_ffreads c) (sz + c_pliters c).

(* the loop of ExtractSEIData; same control flow as C17Model.extract_loop *)
Fixpoint extract_loop_go (fuel : nat) (s : rstate) : xres * xcost :=
  match fuel with
  | O => (XFuel, mkCost [] 0 0)
  | S f =>
      match read_ff_t (S (length (rdata s))) u64 s 0 0 with
      | None => (XFuel, mkCost [] 0 0)
      | Some (ty, s1, k1) =>
          match read_ff_t (S (length (rdata s))) u32 s1 0 0 with
          | None => (XFuel, mkCost [] 0 0)
          | Some (sz, s2, k2) =>
              let '(pl, s3, al, it) := read_bytes_go s2 sz in
              let c0 := mkCost [al] (k1 + k2) it in
              if rerr s3 then (XErr, c0)
              else
                match more_rbsp_data s3 with
                | (None, _) => (XMissing [(ty, pl)], c0)
                | (Some false, _) => (XOk [(ty, pl)], c0)
                | (Some true, s4) =>
                    let '(r, c) := extract_loop_go f s4 in
                    (xcons (ty, pl) r, cost_add al (k1 + k2) c)
                end
          end
      end
  end.

Definition extract_sei_data_go (data : list N) : xres * xcost :=
  extract_loop_go (S (length data)) (rinit data).

(* sizes of what the extractor returns *)
Definition xres_msgs (r : xres) : list (N * list N) :=
  match r with XOk l => l | XMissing l => l | _ => [] end.
Definition payload_bytes (l : list (N * list N)) : N := sumN (map (fun m => lenN (snd m)) l).

(* ================================================================== aac/adts.go: the sync search, counted *)
(* same loop as C18Model.sync_loop_g on the bit-list reader, additionally returning the number of
   iterations and the number of br.Read(8) calls *)
Fixpoint sync_loop_t (fuel : nat) (s : C18Model.rstate) (sync2 : N) (offset : Z) (ticks reads : N)
  : bool * N * Z * C18Model.rstate * N * N :=
  match fuel with
  | O => (false, sync2, offset, s, ticks, reads)
  | S f =>
      let '(sync1, s1, off1, r1) :=
        if negb (sync2 =? 255) then let '(v, s1) := C18Model.rd 8 s in (v mod 256, s1, offset, reads + 1)
        else (sync2, s, (offset - 1)%Z, reads) in
      if sync1 =? 255 then
        let '(v, s2) := C18Model.rd 8 s1 in
        let sync2' := v mod 256 in
        if C18Model.is_sync2 sync2' then (true, sync2', off1, s2, ticks + 1, r1 + 1)
        else sync_loop_t f s2 sync2' (off1 + 2)%Z (ticks + 1) (r1 + 1)
      else sync_loop_t f s1 sync2 (off1 + 1)%Z (ticks + 1) r1
  end.

(* DecodeADTSHeader with the counters of the sync search *)
Definition decode_adts_t (data : list N) : res (C18Model.adts * Z) * N * N :=
  let '(found, sync2, offset, s, ticks, reads) :=
    sync_loop_t C18Model.ts_packet_size (C18Model.rinit data) 0 0%Z 0 0 in
  (if C18Model.rerr s then Err
   else if negb found then Err
   else C18Model.decode_after_sync_g C18Model.rstate C18Model.rd C18Model.rerr sync2 offset s,
   ticks, reads).
