(* C16HevcErProofs.v — the HEVC part of the program logic (C16ParseProofs.v, section HEVC) instantiated for
   ER, the C13 model of bits.EBSPReader: invariant rok /\ potential <= B, potential mu_er = unread bits + 1.
   Results: c16_hparse_sps_total, c16_hparse_pps_total, c16_hparse_slice_total.  No axioms. *)
From V.lib Require Import Base.
From V.c13 Require Import C13Model.
From V.c15 Require Import C15Model C15HevcModel.
From V.c16 Require Import C16Model C16ReaderProofs C16SeiProofs C16ParseModel C16HevcParseModel
  C16ParseProofs C16ParseErProofs C16ReaderMoreProofs.

Section HevcEr.
  Variable B : N.
  Let invB (s : rstate) : Prop := rok s /\ mu_er s <= B.

  Lemma he_more : forall s, invB s -> invB (snd (r_more ER s)) /\ mu_er (snd (r_more ER s)) <= mu_er s.
  Proof.
    intros s [H HB]. cbn [r_more ER]. destruct (er_more_ok s H) as (A1 & A2 & _). unfold invB. repeat split; auto; lia.
  Qed.
  Lemma he_trailing : forall s, invB s -> invB (snd (r_trailing ER s)) /\ mu_er (snd (r_trailing ER s)) <= mu_er s.
  Proof.
    intros s [H HB]. cbn [r_trailing ER]. destruct (er_trailing_ok s H) as (A1 & A2). unfold invB. repeat split; auto; lia.
  Qed.
  Lemma he_more_true : forall s, invB s -> fst (r_more ER s) = true -> 0 < mu_er (snd (r_more ER s)).
  Proof. intros s [H HB]. cbn [r_more ER]. destruct (er_more_ok s H) as (_ & _ & A3 & _). exact A3. Qed.
  Lemma he_more_err : forall s, invB s -> mu_er s = 0 -> fst (r_more ER s) = false.
  Proof. intros s [H HB]. cbn [r_more ER]. destruct (er_more_ok s H) as (_ & _ & _ & A4). exact A4. Qed.
  Lemma he_flag_true : forall s, invB s -> fst (r_flag ER s) = true -> 0 < mu_er (snd (r_flag ER s)).
  Proof.
    intros s _ Ht. cbn [r_flag ER] in *. pose proof (read_flag_true s Ht) as He. unfold mu_er. rewrite He. lia.
  Qed.
  Lemma he_align : forall s, invB s -> 0 < mu_er s -> er_bib s < 8 ->
    0 < mu_er (snd (r_flag ER s)) /\ er_bib s < er_bib (snd (r_flag ER s)) /\ er_bib (snd (r_flag ER s)) <= 8.
  Proof. intros s [H HB] Hp Hb. cbn [r_flag ER]. apply er_align_step; assumption. Qed.

  Ltac hyps := first
    [ exact (e_read B) | exact (e_flag B) | exact (e_ue B) | exact (e_se B) | exact (e_seterr B)
    | exact (e_err B) | exact (e_B B) | exact he_more | exact he_trailing | exact he_more_true
    | exact he_more_err | exact he_flag_true | exact he_align ].

  Lemma er_hsps fuel : B < N.of_nat fuel -> J invB mu_er hsps_tight (hparse_sps_d ER fuel).
  Proof. intros Hf. eapply (J_hparse_sps_d ER invB mu_er); try hyps. exact Hf. Qed.

  Lemma er_hpps fuel spsmap : B < N.of_nat fuel -> J invB mu_er hpps_wf (hparse_pps_d ER fuel spsmap).
  Proof. intros Hf. eapply (J_hparse_pps_d ER invB mu_er); try hyps. exact Hf. Qed.

  Lemma er_hslice fuel spsmap ppsmap : B < N.of_nat fuel ->
    (forall id sp, spsmap id = Some sp -> hsps_wf sp) ->
    (forall id pp, ppsmap id = Some pp -> hpps_wf pp) ->
    J invB mu_er (fun _ => True) (hparse_slice_d ER er_bib fuel spsmap ppsmap).
  Proof. intros Hf H1 H2. eapply (J_hparse_slice_d ER invB mu_er); try hyps; try assumption. Qed.
End HevcEr.

Lemma hevc_fuel_enough nalu : 8 * lenN nalu + 1 < N.of_nat (hevc_fuel nalu).
Proof. unfold hevc_fuel, lenN. lia. Qed.

Lemma hsps_tight_wf' sp : hsps_tight sp -> hsps_wf sp.
Proof.
  intros (H1 & H2 & H3). split; [unfold lenN in H2; lia|].
  eapply Forall_impl; [|exact H3]. intros r Hr. unfold rps_ok, rps_le in *. lia.
Qed.

(* at most 64 short-term reference picture sets, as many as announced, every NumDeltaPocs <= 95 *)
Lemma c16_hparse_sps_tight nalu :
  c16_hparse_sps nalu = Err \/ exists s, c16_hparse_sps nalu = Ok s /\ hsps_tight s.
Proof.
  set (B := 8 * lenN nalu + 1).
  assert (Hi : rok (rinit nalu) /\ mu_er (rinit nalu) <= B).
  { split; [apply rok_init|rewrite mu_er_init; unfold B; lia]. }
  unfold c16_hparse_sps, run.
  destruct (er_hsps B (hevc_fuel nalu) (hevc_fuel_enough nalu) (rinit nalu) Hi) as [E|(a & s' & E & _ & _ & H)];
    rewrite E; [left; reflexivity|right; eauto].
Qed.

Lemma c16_hparse_sps_total nalu :
  c16_hparse_sps nalu = Err \/ exists s, c16_hparse_sps nalu = Ok s /\ hsps_wf s.
Proof.
  destruct (c16_hparse_sps_tight nalu) as [E|(s & E & H)]; [left; exact E|right].
  exists s. split; [exact E|apply hsps_tight_wf', H].
Qed.

(* the same with plain numbers: the constants are the guards of hevc/sps.go (64 sets, 16 + 16 pictures) *)
Lemma c16_hparse_sps_rps_bound nalu s : c16_hparse_sps nalu = Ok s ->
  h_num_st_rps s <= 64 /\ lenN (h_st_rps s) = h_num_st_rps s /\
  Forall (fun r => rps_ndelta r <= 95) (h_st_rps s).
Proof.
  intros E. destruct (c16_hparse_sps_tight nalu) as [E2|(s2 & E2 & H)]; [congruence|].
  assert (s2 = s) by congruence. subst s2. exact H.
Qed.

Lemma c16_hparse_pps_total spsmap nalu :
  c16_hparse_pps spsmap nalu = Err \/ exists p, c16_hparse_pps spsmap nalu = Ok p /\ hpps_wf p.
Proof.
  set (B := 8 * lenN nalu + 1).
  assert (Hi : rok (rinit nalu) /\ mu_er (rinit nalu) <= B).
  { split; [apply rok_init|rewrite mu_er_init; unfold B; lia]. }
  unfold c16_hparse_pps, run.
  destruct (er_hpps B (hevc_fuel nalu) spsmap (hevc_fuel_enough nalu) (rinit nalu) Hi)
    as [E|(a & s' & E & _ & _ & H)]; rewrite E; [left; reflexivity|right; eauto].
Qed.

Lemma c16_hparse_slice_total spsmap ppsmap nalu :
  (forall id sp, spsmap id = Some sp -> hsps_wf sp) ->
  (forall id pp, ppsmap id = Some pp -> hpps_wf pp) ->
  c16_hparse_slice spsmap ppsmap nalu = Err \/ exists h, c16_hparse_slice spsmap ppsmap nalu = Ok h.
Proof.
  intros H1 H2. set (B := 8 * lenN nalu + 1).
  assert (Hi : rok (rinit nalu) /\ mu_er (rinit nalu) <= B).
  { split; [apply rok_init|rewrite mu_er_init; unfold B; lia]. }
  unfold c16_hparse_slice, run.
  destruct (er_hslice B (hevc_fuel nalu) spsmap ppsmap (hevc_fuel_enough nalu) H1 H2 (rinit nalu) Hi)
    as [E|(a & s' & E & _)]; rewrite E; [left; reflexivity|right; eauto].
Qed.

(* ------------------------------------------------------------------ boolean well-formedness, maps from lists *)
Lemma hsps_wfb_ok sp : hsps_wfb sp = true <-> hsps_wf sp.
Proof.
  unfold hsps_wfb, hsps_wf, rps_ok, lenN. rewrite andb_true_iff, forallb_forall, Forall_forall. split.
  - intros [H1 H2]. split; [lia|]. intros r Hr. specialize (H2 r Hr). lia.
  - intros [H1 H2]. split; [lia|]. intros r Hr. specialize (H2 r Hr). lia.
Qed.

Lemma hpps_wfb_ok pp : hpps_wfb pp = true <-> hpps_wf pp.
Proof. unfold hpps_wfb, hpps_wf. lia. Qed.

Lemma hsps_lookup_wf l : Forall hsps_wf l -> forall id sp, hsps_lookup l id = Some sp -> hsps_wf sp.
Proof.
  intros Hl id sp. unfold hsps_lookup.
  assert (G : forall acc, (forall x, acc = Some x -> hsps_wf x) ->
              fold_left (fun acc s => if h_sps_id s =? id then Some s else acc) l acc = Some sp -> hsps_wf sp).
  { induction Hl as [|x t Hx Ht IH]; intros acc Ha; cbn [fold_left]; [apply Ha|].
    apply IH. intros y. destruct (h_sps_id x =? id); [intros Hy; inversion Hy; subst; exact Hx|apply Ha]. }
  apply G. intros x Hx. discriminate Hx.
Qed.

Lemma hpps_lookup_wf l : Forall hpps_wf l -> forall id pp, hpps_lookup l id = Some pp -> hpps_wf pp.
Proof.
  intros Hl id pp. unfold hpps_lookup.
  assert (G : forall acc, (forall x, acc = Some x -> hpps_wf x) ->
              fold_left (fun acc p => if pp_id p =? id then Some p else acc) l acc = Some pp -> hpps_wf pp).
  { induction Hl as [|x t Hx Ht IH]; intros acc Ha; cbn [fold_left]; [apply Ha|].
    apply IH. intros y. destruct (pp_id x =? id); [intros Hy; inversion Hy; subst; exact Hx|apply Ha]. }
  apply G. intros x Hx. discriminate Hx.
Qed.

(* the entry-point lemmas with the boolean predicates *)
Lemma c16_hparse_sps_total_b nalu :
  c16_hparse_sps nalu = Err \/ exists s, c16_hparse_sps nalu = Ok s /\ hsps_wfb s = true.
Proof.
  destruct (c16_hparse_sps_total nalu) as [E|(s & E & H)]; [left; exact E|right].
  exists s. split; [exact E|apply hsps_wfb_ok, H].
Qed.

Lemma c16_hparse_pps_total_b spsmap nalu :
  c16_hparse_pps spsmap nalu = Err \/ exists p, c16_hparse_pps spsmap nalu = Ok p /\ hpps_wfb p = true.
Proof.
  destruct (c16_hparse_pps_total spsmap nalu) as [E|(p & E & H)]; [left; exact E|right].
  exists p. split; [exact E|apply hpps_wfb_ok, H].
Qed.

Lemma c16_hparse_slice_total_b spsmap ppsmap nalu :
  (forall id sp, spsmap id = Some sp -> hsps_wfb sp = true) ->
  (forall id pp, ppsmap id = Some pp -> hpps_wfb pp = true) ->
  c16_hparse_slice spsmap ppsmap nalu = Err \/ exists h, c16_hparse_slice spsmap ppsmap nalu = Ok h.
Proof.
  intros H1 H2. apply c16_hparse_slice_total.
  - intros id sp E. apply hsps_wfb_ok, (H1 id sp E).
  - intros id pp E. apply hpps_wfb_ok, (H2 id pp E).
Qed.

(* the whole pipeline: hostile SPS -> PPS parsed against it -> slice header parsed against both *)
Lemma hevc_ps_and_slice_total cs cp a b rest :
  forallb hsps_wfb cs = true -> forallb hpps_wfb cp = true ->
  hevc_ps_and_slice cs cp a b rest = Err \/ exists h, hevc_ps_and_slice cs cp a b rest = Ok h.
Proof.
  intros Hcs Hcp. unfold hevc_ps_and_slice. cbv zeta.
  assert (Hs : Forall hsps_wf (cs ++ match c16_hparse_sps a with Ok s => [s] | _ => [] end)).
  { apply Forall_app. split.
    - apply Forall_forall. intros x Hx. apply hsps_wfb_ok. rewrite forallb_forall in Hcs. apply Hcs, Hx.
    - destruct (c16_hparse_sps_total a) as [E|(s & E & Hw)]; rewrite E; [constructor|constructor; [exact Hw|constructor]]. }
  set (spss := cs ++ _) in *.
  apply c16_hparse_slice_total.
  - apply hsps_lookup_wf, Hs.
  - apply hpps_lookup_wf. apply Forall_app. split.
    + apply Forall_forall. intros x Hx. apply hpps_wfb_ok. rewrite forallb_forall in Hcp. apply Hcp, Hx.
    + destruct (c16_hparse_pps_total (hsps_has spss) b) as [E|(p & E & Hw)]; rewrite E;
        [constructor|constructor; [exact Hw|constructor]].
Qed.

(* ------------------------------------------------------------------ the other two HEVC pipelines *)
From V.c16 Require Import C16SeiNaluModel C16SeiNaluProofs C16HevcPipeModel.
From V.c16 Require C16ConfRecModel C16ConfRecProofs.

Lemma hevc_sps_and_sei_total a rest :
  hevc_sps_and_sei a rest = Err \/
  exists n miss, hevc_sps_and_sei a rest = Ok (n, miss) /\ 2 * n <= lenN rest.
Proof. unfold hevc_sps_and_sei. apply hevc_parse_sei_nalu_total. Qed.

Lemma parse_hsps_list_wf l : Forall hsps_wf (parse_hsps_list l).
Proof.
  unfold parse_hsps_list. induction l as [|u t IH]; cbn [flat_map]; [constructor|].
  apply Forall_app. split; [|exact IH].
  destruct (c16_hparse_sps_total u) as [E|(s & E & Hw)]; rewrite E; [constructor|constructor; [exact Hw|constructor]].
Qed.

Lemma parse_hpps_list_wf spss : forall l, exists ps, parse_hpps_list spss l = Some ps /\ Forall hpps_wf ps.
Proof.
  induction l as [|u t IH]; cbn [parse_hpps_list].
  - exists []. split; [reflexivity|constructor].
  - destruct IH as (ps & E & Hps). rewrite E. eexists. split; [reflexivity|].
    apply Forall_app. split; [|exact Hps].
    destruct (c16_hparse_pps_total (hsps_has spss) u) as [E2|(p & E2 & Hw)]; rewrite E2;
      [constructor|constructor; [exact Hw|constructor]].
Qed.

Lemma hevc_confrec_and_slice_total recb rest :
  hevc_confrec_and_slice recb rest = Err \/ exists h, hevc_confrec_and_slice recb rest = Ok h.
Proof.
  unfold hevc_confrec_and_slice.
  destruct (C16ConfRecProofs.hevc_confrec_total recb) as [E|(r & t & E & _)]; rewrite E; [left; reflexivity|].
  cbv zeta.
  destruct (parse_hpps_list_wf (parse_hsps_list (hevc_rec_nalus r 33)) (hevc_rec_nalus r 34)) as (ppss & Ep & Hps).
  rewrite Ep. apply c16_hparse_slice_total.
  - apply hsps_lookup_wf, parse_hsps_list_wf.
  - apply hpps_lookup_wf. exact Hps.
Qed.
