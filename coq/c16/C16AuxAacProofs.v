(* C16AuxAacProofs.v — aac.DecodeADTSHeader and aac.DecodeAudioSpecificConfig (C18 models, imported
   read-only) are total for EVERY byte list.
   The Go text (aac/adts.go, aac/aac.go) has no index or slice expression: every read goes through
   bits.Reader over an io.Reader (0 after the first error), FrequencyTable is a map (a missing key is
   the zero value).  So the C18 models are used as they are; C16AuxModel.sync_loop_t only adds counters
   to the junk scan before the sync word:
     - the scan makes at most 188 iterations and at most 2 Read(8) calls per iteration, whatever the
       input (also after the end of the input: the loop does not stop at the first read error, every
       later Read is O(1));
     - the decoders return Ok or Err; the offset returned with a header is within 0..376.
   No axioms. *)
From V.lib Require Import Base.
From V.c16 Require Import C16AuxModel.
From V.c18 Require Import C18Model.

Lemma sync_loop_t_spec : forall fuel s sync2 off t r,
  (0 <= off)%Z -> (sync2 = 255 -> (1 <= off)%Z) ->
  exists f s2 o st t' r',
    sync_loop_t fuel s sync2 off t r = (f, s2, o, st, t', r') /\
    sync_loop_g rstate rd fuel s sync2 off = (f, s2, o, st) /\
    t <= t' /\ t' <= t + N.of_nat fuel /\ r <= r' /\ r' - r <= 2 * (t' - t) /\
    (0 <= o <= off + 2 * Z.of_nat fuel)%Z.
Proof.
  induction fuel as [|fuel IH]; intros s sync2 off t r H0 H1; cbn [sync_loop_t sync_loop_g].
  - eexists _, _, _, _, _, _. split; [reflexivity|]. split; [reflexivity|]. repeat split; lia.
  - destruct (N.eqb_spec sync2 255) as [E|E]; cbn [negb]; cbv beta iota.
    + specialize (H1 E). subst sync2. change (255 =? 255) with true. cbv beta iota.
      destruct (rd 8 s) as [v s2]. destruct (is_sync2 (v mod 256)).
      * eexists _, _, _, _, _, _. split; [reflexivity|]. split; [reflexivity|]. repeat split; lia.
      * destruct (IH s2 (v mod 256) (off - 1 + 2)%Z (t + 1) (r + 1)) as (f & x & o & st & t' & r' & A & B & C);
          [lia|lia|].
        exists f, x, o, st, t', r'. split; [exact A|]. split; [exact B|]. repeat split; lia.
    + destruct (rd 8 s) as [v s1]. cbv beta iota. destruct (v mod 256 =? 255).
      * destruct (rd 8 s1) as [v2 s2]. destruct (is_sync2 (v2 mod 256)).
        -- eexists _, _, _, _, _, _. split; [reflexivity|]. split; [reflexivity|]. repeat split; lia.
        -- destruct (IH s2 (v2 mod 256) (off + 2)%Z (t + 1) (r + 1 + 1)) as (f & x & o & st & t' & r' & A & B & C);
             [lia|lia|].
           exists f, x, o, st, t', r'. split; [exact A|]. split; [exact B|]. repeat split; lia.
      * destruct (IH s1 sync2 (off + 1)%Z (t + 1) (r + 1)) as (f & x & o & st & t' & r' & A & B & C);
          [lia|intros; contradiction|].
        exists f, x, o, st, t', r'. split; [exact A|]. split; [exact B|]. repeat split; lia.
Qed.

Ltac case_all :=
  repeat first
    [ progress cbv beta iota
    | match goal with
      | |- context [rd ?n ?x] => destruct (rd n x)
      | |- context [if ?b then _ else _] => destruct b
      | |- context [match ?x with Some _ => _ | None => _ end] => destruct x
      | |- context [match ?x with pair _ _ => _ end] => destruct x
      end ].

Lemma after_sync_cases sync2 off s :
  decode_after_sync_g rstate rd rerr sync2 off s = Err \/
  exists h, decode_after_sync_g rstate rd rerr sync2 off s = Ok (h, off).
Proof. unfold decode_after_sync_g. case_all; eauto. Qed.

(* DecodeADTSHeader: every byte list *)
Lemma decode_adts_t_total data :
  exists t r, decode_adts_t data = (decode_adts data, t, r) /\ t <= 188 /\ r <= 2 * t /\
    (decode_adts data = Err \/ exists h off, decode_adts data = Ok (h, off) /\ (0 <= off <= 376)%Z).
Proof.
  unfold decode_adts_t, decode_adts, decode_adts_g.
  destruct (sync_loop_t_spec ts_packet_size (rinit data) 0 0%Z 0 0) as (f & s2 & o & st & t & r & A & B & C);
    [lia|intros; discriminate|].
  rewrite A, B. exists t, r. split; [reflexivity|].
  change (N.of_nat ts_packet_size) with 188 in C. change (Z.of_nat ts_packet_size) with 188%Z in C.
  split; [lia|]. split; [lia|].
  destruct (rerr st); [left; reflexivity|]. destruct f; cbn [negb]; [|left; reflexivity].
  destruct (after_sync_cases s2 o st) as [->|(h & ->)]; [left; reflexivity|].
  right. exists h, o. split; [reflexivity|lia].
Qed.

(* DecodeAudioSpecificConfig: every byte list; at most 8 reads, no loop *)
Lemma decode_asc_total data : decode_asc data = Err \/ exists a, decode_asc data = Ok a.
Proof. unfold decode_asc, decode_asc_g, get_frequency_g. case_all; eauto. Qed.
