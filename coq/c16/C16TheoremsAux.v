(* C16TheoremsAux.v — C16 totality theorems about code modelled by other properties (C17: SEI extractor
   and typed SEI decoders; C18: ADTS / AudioSpecificConfig; C14: Annex B scanners), and nothing else.
   Each is closed by `exact <lemma>` and followed by Print Assumptions.

   Shape: for EVERY input (no bound on its length, no well-formedness hypothesis unless written) the
   modelled function returns a value or `Err`: never `Panic`, never out of fuel; loop iterations and
   the sizes of what is built are bounded by a linear function of the input length.
   `_p` / `_go` / `_t` functions are the wrappers of C16AuxModel.v (partial index and slice operations
   mirroring the Go text; ReadBytes as Go runs it; counted loops); every theorem about a wrapper also
   states that it returns what the imported model returns. *)
From V.lib Require Import Base.
From V.c13 Require Import C13Model.
From V.c17 Require Import C17Spec C17Model C17TypedModel.
From V.c18 Require C18Model.
From V.c14 Require C14Spec C14Model.
From V.c16 Require Import C16AuxModel C16AuxSeiProofs C16AuxExtractProofs C16AuxAacProofs C16AuxScanProofs C16AuxStreamProofs
  C16SeiStrModel C16SeiStrProofs C16SeiFswModel C16SeiFswProofs C16SeiFswTieProofs.

(* ------------------------------------------------------------------ sei.ExtractSEIData *)
(* every byte list: the Go-shaped run returns what the C17 model returns; never out of fuel;
   2 * #messages + payload bytes <= |data|; the 0xFF-run loops make at most |data| + 2 reads; the
   ReadBytes iterations are the bytes requested; without failure the bytes requested are the bytes returned *)
Theorem C16_sei_ExtractSEIData_total : forall data : list N,
  exists r c, extract_sei_data_go data = (r, c) /\ extract_sei_data data = r /\ r <> XFuel /\
    2 * lenN (xres_msgs r) + payload_bytes (xres_msgs r) <= lenN data /\
    c_ffreads c <= lenN data + 2 /\
    c_pliters c = sumN (c_allocs c) /\
    (r <> XErr -> sumN (c_allocs c) = payload_bytes (xres_msgs r)).
Proof. exact extract_sei_data_total. Qed.
Print Assumptions C16_sei_ExtractSEIData_total.

(* byte inputs: all requests to ReadBytes together (allocation and loop iterations), including a last
   request larger than the input, are at most 255 * (|data| + 2) *)
Theorem C16_sei_ExtractSEIData_alloc_total : forall data : list N,
  bytes_ok data = true ->
  sumN (c_allocs (snd (extract_sei_data_go data))) <= 255 * (lenN data + 2) /\
  c_pliters (snd (extract_sei_data_go data)) <= 255 * (lenN data + 2).
Proof. exact extract_sei_data_alloc_bound. Qed.
Print Assumptions C16_sei_ExtractSEIData_alloc_total.

(* ------------------------------------------------------------------ sei4.go / sei5.go *)
Theorem C16_sei_ParseCEA608_total : forall pl : list N,
  rmap fst (parse_cea608_p pl) = parse_cea608 pl /\
  (parse_cea608_p pl = Err \/
   exists f1 f2 t, parse_cea608_p pl = Ok (f1, f2, t) /\
                   t <= 31 /\ 3 * t <= lenN pl /\ lenN f1 + lenN f2 <= 2 * t).
Proof. exact parse_cea608_p_total. Qed.
Print Assumptions C16_sei_ParseCEA608_total.

Theorem C16_sei_ExtractCEA608sei_total : forall pl : list N,
  extract_cea608_p pl = Err \/
  exists m t, extract_cea608_p pl = Ok (m, t) /\ ps_payload m = pl /\ t <= 31 /\ 3 * t <= lenN pl /\
    match ps_kind m with KCea608 f1 f2 => lenN f1 + lenN f2 <= 2 * t | _ => False end.
Proof. exact extract_cea608_p_total. Qed.
Print Assumptions C16_sei_ExtractCEA608sei_total.

Theorem C16_sei_DecodeUserDataRegisteredSEI_total : forall pl : list N,
  rmap fst (decode_registered_p pl) = decode_registered pl /\
  (decode_registered_p pl = Err \/
   exists m t, decode_registered_p pl = Ok (m, t) /\ ps_payload m = pl /\ t <= 31 /\ 3 * t <= lenN pl /\
     match ps_kind m with KCea608 f1 f2 => lenN f1 + lenN f2 <= 2 * t | _ => True end).
Proof. exact (fun pl => conj (decode_registered_p_spec pl) (decode_registered_p_total pl)). Qed.
Print Assumptions C16_sei_DecodeUserDataRegisteredSEI_total.

(* ... and UnregisteredSEI.String's payload[16:] on the decoded message *)
Theorem C16_sei_DecodeUserDataUnregisteredSEI_total : forall pl : list N,
  decode_unregistered_p pl = decode_unregistered pl /\
  (decode_unregistered_p pl = Err \/
   exists m, decode_unregistered_p pl = Ok m /\ ps_payload m = pl /\
             (exists s, unregistered_string_accesses m = Ok s) /\
             match ps_kind m with KUnregistered u => lenN u = 16 | _ => False end).
Proof. exact (fun pl => conj (decode_unregistered_p_spec pl) (decode_unregistered_p_total pl)). Qed.
Print Assumptions C16_sei_DecodeUserDataUnregisteredSEI_total.

(* ------------------------------------------------------------------ sei137.go / sei144.go *)
Theorem C16_sei_DecodeMasteringDisplayColourVolumeSEI_total : forall p : list N,
  mdcv_decode_p p = mdcv_decode p /\ (mdcv_decode_p p = Err \/ exists m, mdcv_decode_p p = Ok m).
Proof. exact mdcv_decode_p_total. Qed.
Print Assumptions C16_sei_DecodeMasteringDisplayColourVolumeSEI_total.

Theorem C16_sei_DecodeContentLightLevelInformationSEI_total : forall p : list N,
  cll_decode_p p = cll_decode p /\ (cll_decode_p p = Err \/ exists m, cll_decode_p p = Ok m).
Proof. exact cll_decode_p_total. Qed.
Print Assumptions C16_sei_DecodeContentLightLevelInformationSEI_total.

(* ------------------------------------------------------------------ sei136.go / sei1_avc.go
   (no index or slice expression in the decoders: the C17 models are used as they are) *)
Theorem C16_sei_DecodeTimeCodeSEI_total : forall payload : list N,
  tc_decode payload = Err \/
  exists cs, tc_decode payload = Ok cs /\ lenN cs <= 3 /\
             exists r, tc_string_accesses cs = Ok r /\ length r = length cs.
Proof. exact tc_decode_total. Qed.
Print Assumptions C16_sei_DecodeTimeCodeSEI_total.

(* TimeCodeSEI.String (text repaired by bfe4f2e) is in range for every value, decoded or not *)
Theorem C16_sei_TimeCodeSEI_String_total : forall cs : list clock,
  exists r, tc_string_accesses cs = Ok r /\ length r = length cs.
Proof. exact tc_string_total. Qed.
Print Assumptions C16_sei_TimeCodeSEI_String_total.

(* the pinned text indexed Clocks[0] of a decoded message without clock time stamps *)
Theorem C16_sei_TimeCodeSEI_String_pinned_refuted :
  exists payload cs, tc_decode payload = Ok cs /\ tc_string_accesses_pinned cs = Panic.
Proof. exact tc_string_pinned_refuted. Qed.
Print Assumptions C16_sei_TimeCodeSEI_String_pinned_refuted.

(* every payload and EVERY external parameter: nil or any CbpDbpDelay length fields, any time offset
   length; PicTimingAvcSEI.String's Clocks[0], Clocks[1..] are in range on the decoded value *)
Theorem C16_sei_DecodePicTimingAvcSEIHRD_total :
  forall (ext : option hrd_delay) (tolen : N) (payload : list N),
  pt_decode ext tolen payload = Err \/
  exists m, pt_decode ext tolen payload = Ok m /\ 1 <= lenN (p_clocks m) <= 3 /\
            exists r, pt_string_accesses m = Ok r /\ length r = length (p_clocks m).
Proof. exact pt_decode_total. Qed.
Print Assumptions C16_sei_DecodePicTimingAvcSEIHRD_total.

(* ------------------------------------------------------------------ aac (C18 models; the Go text has no
   index or slice expression: reads go through bits.Reader, FrequencyTable is a map) *)
(* every byte list: the counted scan returns what the C18 model returns; at most 188 iterations of the
   junk scan and 2 Read(8) calls per iteration, also past the end of the input; Ok or Err *)
Theorem C16_aac_DecodeADTSHeader_total : forall data : list N,
  exists t r, decode_adts_t data = (C18Model.decode_adts data, t, r) /\ t <= 188 /\ r <= 2 * t /\
    (C18Model.decode_adts data = Err \/
     exists h off, C18Model.decode_adts data = Ok (h, off) /\ (0 <= off <= 376)%Z).
Proof. exact decode_adts_t_total. Qed.
Print Assumptions C16_aac_DecodeADTSHeader_total.

Theorem C16_aac_DecodeAudioSpecificConfig_total : forall data : list N,
  C18Model.decode_asc data = Err \/ exists a, C18Model.decode_asc data = Ok a.
Proof. exact decode_asc_total. Qed.
Print Assumptions C16_aac_DecodeAudioSpecificConfig_total.

(* ------------------------------------------------------------------ Annex B scanners (C14 models: partial
   getb / slice / copy_into, every loop on fuel S |input| with one unit of fuel per iteration, so "not
   OutOfFuel" is "at most |input| + 1 iterations of each loop") *)
(* the word-at-a-time start-code scanner, every BYTE list (the zero-byte word trick is about bytes):
   lifted from C14 scanner_eq_naive *)
Theorem C16_avc_getStartCodePositions_total : forall l : list N,
  bytes_ok l = true ->
  exists scl m, C14Model.get_start_code_positions l = Ok (scl, m) /\ lenN scl <= lenN l /\ (m = 3 \/ m = 4)%Z.
Proof. exact get_start_code_positions_total_short. Qed.
Print Assumptions C16_avc_getStartCodePositions_total.

(* every byte list, any mix or adjacency of start codes (not only the well-formed streams of C14) *)
Theorem C16_avc_ConvertByteStreamToNaluSample_total : forall l : list N,
  bytes_ok l = true ->
  exists out, C14Model.to_nalu_sample l = Ok out /\ lenN out <= 5 * lenN l.
Proof. exact to_nalu_sample_total. Qed.
Print Assumptions C16_avc_ConvertByteStreamToNaluSample_total.

(* EVERY list, no hypothesis *)
Theorem C16_avc_ExtractNalusFromByteStream_total : forall d : list N,
  exists nalus, C14Model.extract_nalus_from_byte_stream d = Ok nalus /\ lenN nalus <= lenN d.
Proof. exact extract_nalus_from_byte_stream_total. Qed.
Print Assumptions C16_avc_ExtractNalusFromByteStream_total.

(* the other helpers on the shared byte-stream loop: EVERY list, no hypothesis; every index / slice
   expression of the loop bodies and of the code after the loop is in range *)
Theorem C16_avc_GetFirstAVCVideoNALUFromByteStream_total : forall d : list N,
  exists nalu, C14Model.avc_get_first_video_nalu d = Ok nalu /\ lenN nalu <= lenN d.
Proof. exact avc_get_first_video_nalu_total. Qed.
Print Assumptions C16_avc_GetFirstAVCVideoNALUFromByteStream_total.

Theorem C16_avc_ExtractNalusOfTypeFromByteStream_total : forall (want : N) (stop : bool) (d : list N),
  exists nalus, C14Model.avc_extract_nalus_of_type want stop d = Ok nalus /\ lenN nalus <= lenN d.
Proof. exact (extract_nalus_of_type_total C14Spec.avc_type 6). Qed.
Print Assumptions C16_avc_ExtractNalusOfTypeFromByteStream_total.

Theorem C16_hevc_ExtractNalusOfTypeFromByteStream_total : forall (want : N) (stop : bool) (d : list N),
  exists nalus, C14Model.hevc_extract_nalus_of_type want stop d = Ok nalus /\ lenN nalus <= lenN d.
Proof. exact (extract_nalus_of_type_total C14Spec.hevc_type 32). Qed.
Print Assumptions C16_hevc_ExtractNalusOfTypeFromByteStream_total.

Theorem C16_avc_GetParameterSetsFromByteStream_total : forall d : list N,
  exists v s p, C14Model.avc_get_parameter_sets_from_byte_stream d = Ok (v, s, p) /\
                lenN v + lenN s + lenN p <= lenN d.
Proof. exact (get_parameter_sets_from_byte_stream_total_N C14Spec.avc_type C14Model.avc_ps_class 6). Qed.
Print Assumptions C16_avc_GetParameterSetsFromByteStream_total.

Theorem C16_hevc_GetParameterSetsFromByteStream_total : forall d : list N,
  exists v s p, C14Model.hevc_get_parameter_sets_from_byte_stream d = Ok (v, s, p) /\
                lenN v + lenN s + lenN p <= lenN d.
Proof. exact (get_parameter_sets_from_byte_stream_total_N C14Spec.hevc_type C14Model.hevc_ps_class 32). Qed.
Print Assumptions C16_hevc_GetParameterSetsFromByteStream_total.

(* ------------------------------------------------------------------ the models compute on hostile inputs *)
(* known_findings/C16.json F5: SEI NAL payload 04 00 (type 4, size 0) reaches the registered decoder with an
   empty payload; an unregistered payload shorter than the UUID *)
Example ex_F5_registered_empty :
  extract_sei_data [4; 0; 128] = XOk [(4, [])] /\ decode_registered_p [] = Err /\
  extract_cea608_p [1; 2; 3] = Err /\ parse_cea608_p [] = Err /\ decode_unregistered_p [1; 2; 3] = Err.
Proof. vm_compute. repeat split. Qed.

(* F6: DecodeTimeCodeSEI(payload 00).String() *)
Example ex_F6_timecode_no_clock :
  tc_decode [0] = Ok [] /\ tc_string_accesses [] = Ok [] /\ tc_string_accesses_pinned [] = Panic.
Proof. vm_compute. repeat split. Qed.

(* cc_count 31 with one triple present: one iteration, then the length check fails;
   cc_count 1 with a valid field-1 pair *)
Example ex_cea608 :
  parse_cea608_p [255; 0; 252; 1; 2] = Err /\
  parse_cea608_p [193; 255; 252; 65; 66; 255] = Ok ([65; 66], [], 1) /\
  decode_registered_p [181; 0; 49; 71; 65; 57; 52; 3; 193; 255; 253; 65; 66; 255]
    = Ok (mkPass (KCea608 [] [65; 66]) [181; 0; 49; 71; 65; 57; 52; 3; 193; 255; 253; 65; 66; 255], 1).
Proof. vm_compute. repeat split. Qed.

(* a size field of 4 * 255 + 7 = 1027 in a 6-byte input: Go allocates 1027 bytes and loops 1027 times,
   then returns the error; 5 reads by the 0xFF-run loops *)
Example ex_extract_hostile_size :
  extract_sei_data_go [5; 255; 255; 255; 255; 7] = (XErr, mkCost [1027] 6 1027).
Proof. vm_compute. reflexivity. Qed.

Example ex_extract_two_messages :
  extract_sei_data_go [5; 2; 10; 11; 1; 1; 9; 128] = (XOk [(5, [10; 11]); (1, [9])], mkCost [2; 1] 4 3).
Proof. vm_compute. reflexivity. Qed.

Example ex_short_fixed_layouts :
  mdcv_decode_p [1; 2; 3] = Err /\ cll_decode_p [0; 1; 0; 2; 0] = Err /\ cll_decode_p [0; 1; 0; 2] = Ok (mkCll 1 2).
Proof. vm_compute. repeat split. Qed.

(* pict_struct 0 (one clock), clock_timestamp_flag 0; external time offset length 255 *)
Example ex_pic_timing_any_parameter :
  pt_decode None 255 [0] = Ok (mkPT None 255 0 [clock_avc_zero 255]) /\
  pt_decode (Some (mkHrd 0 0 0 255 255)) 255 [0] = Err.
Proof. vm_compute. repeat split. Qed.

(* ADTS: empty input and 400 bytes of ff (never a sync word: layer = 3): 188 iterations, Err;
   two junk bytes, then a header *)
Example ex_adts_scan :
  decode_adts_t [] = (Err, 188, 188) /\
  decode_adts_t (repeat 255 400) = (Err, 188, 189) /\
  decode_adts_t [1; 2; 255; 241; 76; 128; 1; 31; 252] =
    (Ok (C18Model.mkAdts 0 2 3 2 7 1 2047, 2%Z), 3, 4).
Proof. vm_compute. repeat split. Qed.

Example ex_asc : C18Model.decode_asc [] = Err /\ C18Model.decode_asc [255] = Err /\
  C18Model.decode_asc [17; 144] = Ok (C18Model.mkAsc 2 2 48000%Z 0%Z false false).
Proof. vm_compute. repeat split. Qed.

(* adjacent start codes (a zero-length unit, F16), a start code at the very end, zeros only *)
Example ex_annexb_hostile :
  C14Model.extract_nalus_from_byte_stream [0; 0; 1; 0; 0; 1; 104; 232] = Ok [[]; [104; 232]] /\
  C14Model.extract_nalus_from_byte_stream [0; 0; 1] = Ok [] /\
  C14Model.to_nalu_sample [0; 0; 1; 0; 0; 1; 104; 232] = Ok [0; 0; 0; 0; 0; 0; 0; 2; 104; 232] /\
  C14Model.to_nalu_sample [0; 0; 0; 0; 0; 0; 0; 0; 0; 0; 0; 0; 0; 0; 0; 0; 0; 0; 0; 1] =
    Ok [0; 0; 0; 0; 0; 0; 0; 0; 0; 0; 0; 0; 0; 0; 0; 0; 0; 0; 0; 1].
Proof. vm_compute. repeat split. Qed.

(* ------------------------------------------------------------------ String / Payload of the remaining messages
   (C16SeiStrModel.v).  The Payload methods of sei137.go / sei144.go fill a fixed buffer through sub-slices at a
   running position: every slice expression is in range for EVERY message value, and the bytes are those of the C17
   model; composed with the decoders for every payload. *)
Theorem C16_sei_MasteringDisplayColourVolume_Payload_total : forall m : mdcv,
  mdcv_payload_p m = Ok (mdcv_payload m) /\ lenN (mdcv_payload m) = 24.
Proof. exact mdcv_payload_p_ok. Qed.
Print Assumptions C16_sei_MasteringDisplayColourVolume_Payload_total.

Theorem C16_sei_ContentLightLevel_Payload_total : forall m : cll,
  cll_payload_p m = Ok (cll_payload m) /\ lenN (cll_payload m) = 4.
Proof. exact cll_payload_p_ok. Qed.
Print Assumptions C16_sei_ContentLightLevel_Payload_total.

Theorem C16_sei_MDCV_decode_then_Payload_total : forall p : list N,
  mdcv_decode_p p = Err \/ exists m, mdcv_decode_p p = Ok m /\ mdcv_payload_p m = Ok (mdcv_payload m).
Proof. exact mdcv_decode_payload_total. Qed.
Print Assumptions C16_sei_MDCV_decode_then_Payload_total.

Theorem C16_sei_CLL_decode_then_Payload_total : forall p : list N,
  cll_decode_p p = Err \/ exists m, cll_decode_p p = Ok m /\ cll_payload_p m = Ok (cll_payload m).
Proof. exact cll_decode_payload_total. Qed.
Print Assumptions C16_sei_CLL_decode_then_Payload_total.

(* String of what the user-data decoders return, for EVERY payload: no partial operation fails (payload[16:] of the
   unregistered message) and the text rendered (hex / %q / %d fields) is at most 4 bytes per payload byte + 200 *)
Theorem C16_sei_RegisteredSEI_String_total : forall pl : list N,
  decode_registered_p pl = Err \/
  exists m t c, decode_registered_p pl = Ok (m, t) /\ pass_string_cost m = Ok c /\ c <= 2 * lenN pl + 200.
Proof. exact registered_string_total. Qed.
Print Assumptions C16_sei_RegisteredSEI_String_total.

Theorem C16_sei_UnregisteredSEI_String_total : forall pl : list N,
  decode_unregistered_p pl = Err \/
  exists m c, decode_unregistered_p pl = Ok m /\ pass_string_cost m = Ok c /\ c <= 4 * lenN pl + 200.
Proof. exact unregistered_string_total. Qed.
Print Assumptions C16_sei_UnregisteredSEI_String_total.

Theorem C16_sei_SEIData_String_linear : forall pl : list N, sei_data_string_cost pl <= 2 * lenN pl + 100.
Proof. exact sei_data_string_bound. Qed.
Print Assumptions C16_sei_SEIData_String_linear.

Example ex_mdcv_payload :
  mdcv_payload_p (mkMdcv 1 2 3 4 5 6 7 8 65536 70000) =
    Ok [0; 1; 0; 2; 0; 3; 0; 4; 0; 5; 0; 6; 0; 7; 0; 8; 0; 1; 0; 0; 0; 1; 17; 112] /\
  (* the slicing is partial: the same writes into a 23-byte buffer panic *)
  put_at (repeat 0 23) 20 4 [0; 0; 0; 0] = Panic.
Proof. vm_compute. split; reflexivity. Qed.

(* ------------------------------------------------------------------ Payload through bits.FixedSliceWriter
   (C16SeiFswModel.v: sei136.go TimeCodeSEI.Payload, sei1_avc.go PicTimingAvcSEI.Payload).  The writer is the Go
   struct {buf, off, n, v, accError}; make / buf[off] = b / buf[:off] are PARTIAL operations, the `for sw.n >= 8`
   loop runs on fuel.  For EVERY capacity >= 0 and EVERY sequence of WriteBits / WriteFlag / FlushBits calls
   (any value, any width: 256-bit writes included) the run ends without Panic and without running out of fuel and
   returns at most `capacity` bytes; the second component is accError, which the Payload methods never look at. *)
Theorem C16_bits_FixedSliceWriter_total : forall (cap : Z) (ops : list wop), (0 <= cap)%Z ->
  exists bs e, fsw_payload_p cap ops = Ok (bs, e) /\ (lenZ bs <= cap)%Z.
Proof. exact fsw_payload_total. Qed.
Print Assumptions C16_bits_FixedSliceWriter_total.

(* EVERY message value (any number of clocks, every field any number: the Go fields are bytes / uint16 / uint32 / uint):
   Payload() returns at most Size() bytes, and Size() is linear in the number of clocks and the length fields
   (grouped: every Print Assumptions costs about a second of the quick tier) *)
Theorem C16_sei_FixedSliceWriter_Payloads_total :
  (forall cs : list clock,
     exists bs e, tc_payload_p cs = Ok (bs, e) /\ lenN bs <= tc_size cs /\
                  8 * tc_size cs <= 9 + 44 * lenN cs + sumN (map c_tolen cs)) /\
  (forall m : pic_timing,
     exists bs e, pt_payload_p m = Ok (bs, e) /\ lenN bs <= pt_size m /\
                  8 * pt_size m <= hrd_bits (p_hrd m) + 11 + 40 * lenN (p_clocks m) + sumN (map a_tolen (p_clocks m))).
Proof. exact (conj tc_payload_total pt_payload_total). Qed.
Print Assumptions C16_sei_FixedSliceWriter_Payloads_total.

(* every payload (and every external parameter): decode, then Payload() of the decoded message *)
Theorem C16_sei_decode_then_FixedSliceWriter_Payload_total :
  (forall payload : list N,
     tc_decode_payload_p payload = Err \/
     exists k bs e, tc_decode_payload_p payload = Ok (k, bs, e) /\ k <= 3) /\
  (forall (ext : option hrd_delay) (tolen : N) (payload : list N),
     pt_decode_payload_p ext tolen payload = Err \/
     exists k bs e, pt_decode_payload_p ext tolen payload = Ok (k, bs, e) /\ 1 <= k <= 3).
Proof. exact (conj tc_decode_payload_total pt_decode_payload_total). Qed.
Print Assumptions C16_sei_decode_then_FixedSliceWriter_Payload_total.

(* the buffer operations are partial: the same byte written at off = len(buf) panics without WriteUint8's check;
   a 256-bit and a 255-bit field in a picture timing value (length fields 255 / 254): 65 bytes, no error;
   a time code whose bits end on a byte boundary: the final 1 bit finds the buffer full (accError, no panic) *)
Example ex_fsw_partial :
  pupd [0; 0] 2 7 = Panic /\ fsw_new (-1) = Panic /\
  (exists bs, pt_payload_p (mkPT (Some (mkHrd 5 6 0 255 254)) 0 3 [clock_avc_zero 255]) = Ok (bs, false) /\ lenN bs = 65) /\
  tc_payload_p [mkClock true false 0 false false false 0 false 0 false 0 false 0 5 1] = Ok ([96; 0; 0; 161], true) /\
  tc_decode_payload_p [96; 64; 65; 152; 180; 16] = Ok (1, [96; 64; 65; 152; 180; 16], false).
Proof. vm_compute. repeat split. eexists; split; reflexivity. Qed.

(* ... and the bytes are those of C17's total model of the same writer (C17TypedModel.fsw_bytes: the C13 plain bit
   writer on an unbounded output, cut at the capacity), for every capacity and every sequence of writes whose values
   fit Go's uint (op_u64: value < 2^64; the widths are arbitrary): the C17 theorems about tc_payload / pt_payload
   (round trip, Size) are theorems about what the partial writer returns.  C16SeiFswTieProofs.v: simulation
   "buf[:off] = output so far" while accError is nil, "buf = the first `capacity` bytes of the output" after it. *)
Theorem C16_bits_FixedSliceWriter_is_C17 : forall (cap : N) (ops : list wop) (bs : list N) (e : bool),
  forallb op_u64 ops = true -> fsw_payload_p (Z.of_N cap) ops = Ok (bs, e) -> bs = fsw_bytes cap ops.
Proof. exact fsw_payload_is_fsw_bytes. Qed.
Print Assumptions C16_bits_FixedSliceWriter_is_C17.

Theorem C16_sei_FixedSliceWriter_Payloads_are_C17 :
  (forall cs : list clock, forallb op_u64 (tc_ops cs) = true -> exists e, tc_payload_p cs = Ok (tc_payload cs, e)) /\
  (forall m : pic_timing, forallb op_u64 (pt_ops m) = true -> exists e, pt_payload_p m = Ok (pt_payload m, e)).
Proof. exact (conj tc_payload_is_c17 pt_payload_is_c17). Qed.
Print Assumptions C16_sei_FixedSliceWriter_Payloads_are_C17.

(* the hypothesis holds of hostile values: length fields 255 / 254 / 255, a negative time offset (uint(int) = 2^64 - 3) *)
Example ex_fsw_op_u64 :
  forallb op_u64 (pt_ops (mkPT (Some (mkHrd 5 (two64 - 1) 0 255 254)) 0 3
                               [mkClockAvc true 3 true 31 false true true 255 true 63 true 63 true 31 255 (-3)%Z])) = true /\
  forallb op_u64 (tc_ops [mkClock true true 31 true true true 511 false 63 false 63 false 31 255 4294967295]) = true.
Proof. vm_compute. split; reflexivity. Qed.
