(* C16ConfRecModel.v — executable Gallina models of the decoder-configuration-record decoders
     avc.DecodeAVCDecConfRec     (avc/avcdecoderconfigurationrecord.go, text after fix 1e069fa / 4c725fa)
     hevc.DecodeHEVCDecConfRec   (hevc/hevcdecoderconfigurationrecord.go, text after fix 2768e90:
                                  the NAL-unit loop returns at the first read error)
     av1.DecodeAV1CodecConfRec   (av1/av1codecconfigurationrecord.go)
   and of the part of bits.FixedSliceReader (bits/fixedslicereader.go) the HEVC decoder reads through.
   Definitions only (this file must keep running when a proof breaks); imports only Base.

   Conventions (those of C16Model.v; the three partial operations are repeated here under cr_ names so
   that this file does not depend on the other C16 models).  A record is a `list N` (bytes).  Go `int`
   positions and counts are `Z` (64-bit int; no value here exceeds len + 2^16 + 8, no wrap is possible).
   Indexing, slicing and binary.BigEndian.UintNN are PARTIAL: out of range gives `Panic`.  Every
   count-driven loop carries fuel (`OutOfFuel` = would not terminate within the bound) and counts its
   iterations (`ticks`).  `append` is accounted for by the length of the list built; a NAL unit is a
   sub-slice of the input (Go does not copy it), its bytes are nevertheless counted by the theorems. *)
From V.lib Require Import Base.

Definition cr_len (bs : list N) : Z := Z.of_nat (length bs).

(* data[i] *)
Definition cr_idx (bs : list N) (i : Z) : res N :=
  if ((0 <=? i) && (i <? cr_len bs))%Z then
    match nth_error bs (Z.to_nat i) with Some b => Ok b | None => Panic end
  else Panic.

(* data[lo:hi]  (cap = len in the harness: inputs are exact-capacity copies) *)
Definition cr_slice (bs : list N) (lo hi : Z) : res (list N) :=
  if ((0 <=? lo) && (lo <=? hi) && (hi <=? cr_len bs))%Z
  then Ok (firstn (Z.to_nat (hi - lo)) (skipn (Z.to_nat lo) bs))
  else Panic.

(* binary.BigEndian.Uint16(b): `_ = b[1]` panics on fewer than 2 bytes *)
Definition cr_be16 (b : list N) : res N :=
  match b with
  | a :: b :: _ => Ok (a * 256 + b)
  | _ => Panic
  end.

(* binary.BigEndian.Uint32(b): `_ = b[3]` panics on fewer than 4 bytes *)
Definition cr_be32 (b : list N) : res N :=
  match b with
  | a :: b :: c :: d :: _ => Ok (((a * 256 + b) * 256 + c) * 256 + d)
  | _ => Panic
  end.

(* fuel of the loops that consume at least two bytes per completed iteration *)
Definition cr_fuel (bs : list N) : nat := S (length bs).

(* ================================================================== avc.DecodeAVCDecConfRec *)
Record avc_rec := mkAvcRec {
  ar_profile : N;            (* AVCProfileIndication *)
  ar_compat : N;             (* ProfileCompatibility *)
  ar_level : N;              (* AVCLevelIndication *)
  ar_sps : list (list N);    (* SPSnalus *)
  ar_pps : list (list N);    (* PPSnalus *)
  ar_chroma : N;             (* ChromaFormat *)
  ar_bdl : N;                (* BitDepthLumaMinus1 *)
  ar_bdc : N;                (* BitDepthChromaMinus1 *)
  ar_num_sps_ext : N;        (* NumSPSExt *)
  ar_no_trailing : bool      (* NoTrailingInfo *)
}.

(*  for i := 0; i < n; i++ {
        if pos+2 > len(data) { return DecConfRec{}, err }
        naluLength := int(binary.BigEndian.Uint16(data[pos : pos+2]))
        pos += 2
        if pos+naluLength > len(data) { return DecConfRec{}, err }
        nalus = append(nalus, data[pos:pos+naluLength])
        pos += naluLength
    }
   Result: (returned with an error?, pos, nalus in reverse, ticks).  The list built so far is kept in
   the failing case too (in Go it is garbage at that point: it has been allocated all the same). *)
Fixpoint avc_ps_loop (fuel : nat) (data : list N) (i n pos : Z) (acc : list (list N)) (ticks : N)
  : res (bool * Z * list (list N) * N) :=
  match fuel with
  | O => OutOfFuel
  | S f =>
      if (i <? n)%Z then
        if (pos + 2 >? cr_len data)%Z then Ok (true, pos, acc, ticks + 1)
        else
          do hdr <- cr_slice data pos (pos + 2);
          do nl <- cr_be16 hdr;
          let nl := Z.of_N nl in
          let pos := (pos + 2)%Z in
          if (pos + nl >? cr_len data)%Z then Ok (true, pos, acc, ticks + 1)
          else
            do nalu <- cr_slice data pos (pos + nl);
            avc_ps_loop f data (i + 1) n (pos + nl) (nalu :: acc) (ticks + 1)
      else Ok (false, pos, acc, ticks)
  end.

Definition avc_no_trailer_profile (p : N) : bool := (p =? 66) || (p =? 77) || (p =? 88).

(* value and number of loop iterations; Err = Go returns a non-nil error *)
Definition avc_decode_dec_conf_rec (data : list N) : res (avc_rec * N) :=
  if (cr_len data <? 6)%Z then Err else
  do ver <- cr_idx data 0;
  if negb (ver =? 1) then Err else
  do prof <- cr_idx data 1;
  do compat <- cr_idx data 2;
  do level <- cr_idx data 3;
  do b4 <- cr_idx data 4;
  if negb (N.land b4 3 =? 3) then Err else
  do b5 <- cr_idx data 5;
  let numSPS := Z.of_N (N.land b5 31) in
  do r1 <- avc_ps_loop (cr_fuel data) data 0 numSPS 6 [] 0;
  let '(failed1, pos, sps, t1) := r1 in
  if failed1 then Err else
  if (pos >=? cr_len data)%Z then Err else
  do numPPS <- cr_idx data pos;
  let pos := (pos + 1)%Z in
  do r2 <- avc_ps_loop (cr_fuel data) data 0 (Z.of_N numPPS) pos [] t1;
  let '(failed2, pos, pps, t2) := r2 in
  if failed2 then Err else
  let adcr := mkAvcRec prof compat level (rev sps) (rev pps) 0 0 0 0 false in
  if avc_no_trailer_profile prof then Ok (adcr, t2)
  else if (pos =? cr_len data)%Z then
    Ok (mkAvcRec prof compat level (rev sps) (rev pps) 0 0 0 0 true, t2)
  else if (pos + 4 >? cr_len data)%Z then Err
  else
    do c <- cr_idx data pos;
    do l <- cr_idx data (pos + 1);
    do ch <- cr_idx data (pos + 2);
    do e <- cr_idx data (pos + 3);
    if negb (e =? 0) then Err   (* return adcr, ErrCannotParseAVCExtension *)
    else Ok (mkAvcRec prof compat level (rev sps) (rev pps) (N.land c 3) (N.land l 7) (N.land ch 7) e false, t2).

(* ================================================================== bits.FixedSliceReader
   State: accumulated error (only whether it is set) and position; slice and len are the input. *)
Record fsr := mkFsr { fs_err : bool; fs_pos : Z }.

Definition fsr_init : fsr := mkFsr false 0.

(* ReadUint8: 0 once an error is set; sets it when pos > len-1 *)
Definition fsr_read_u8 (data : list N) (s : fsr) : res (N * fsr) :=
  if fs_err s then Ok (0, s)
  else if (fs_pos s >? cr_len data - 1)%Z then Ok (0, mkFsr true (fs_pos s))
  else do b <- cr_idx data (fs_pos s); Ok (b, mkFsr false (fs_pos s + 1)).

Definition fsr_read_u16 (data : list N) (s : fsr) : res (N * fsr) :=
  if fs_err s then Ok (0, s)
  else if (fs_pos s >? cr_len data - 2)%Z then Ok (0, mkFsr true (fs_pos s))
  else
    do b <- cr_slice data (fs_pos s) (fs_pos s + 2);
    do v <- cr_be16 b;
    Ok (v, mkFsr false (fs_pos s + 2)).

Definition fsr_read_u32 (data : list N) (s : fsr) : res (N * fsr) :=
  if fs_err s then Ok (0, s)
  else if (fs_pos s >? cr_len data - 4)%Z then Ok (0, mkFsr true (fs_pos s))
  else
    do b <- cr_slice data (fs_pos s) (fs_pos s + 4);
    do v <- cr_be32 b;
    Ok (v, mkFsr false (fs_pos s + 4)).

(* ReadBytes(n): n < 0 is tested first (sets the error), then the accumulated error, then the bound *)
Definition fsr_read_bytes (data : list N) (s : fsr) (n : Z) : res (list N * fsr) :=
  if (n <? 0)%Z then Ok ([], mkFsr true (fs_pos s))
  else if fs_err s then Ok ([], s)
  else if (fs_pos s >? cr_len data - n)%Z then Ok ([], mkFsr true (fs_pos s))
  else
    do b <- cr_slice data (fs_pos s) (fs_pos s + n);
    Ok (b, mkFsr false (fs_pos s + n)).

(* ================================================================== hevc.DecodeHEVCDecConfRec *)
Record hevc_rec := mkHevcRec {
  hr_version : N;
  hr_profile_space : N;
  hr_tier : bool;
  hr_profile_idc : N;
  hr_compat_flags : N;         (* uint32 *)
  hr_constraint_flags : N;     (* 48 bits in a uint64 *)
  hr_level_idc : N;
  hr_min_spatial_seg : N;
  hr_parallelism : N;
  hr_chroma : N;
  hr_bdl : N;
  hr_bdc : N;
  hr_avg_frame_rate : N;
  hr_const_frame_rate : N;
  hr_num_temporal_layers : N;
  hr_temporal_id_nested : N;
  hr_length_size_minus_one : N;
  hr_arrays : list (N * list (list N))    (* (completeAndType, Nalus) *)
}.

Definition hevc_rec0 : hevc_rec :=
  mkHevcRec 0 0 false 0 0 0 0 0 0 0 0 0 0 0 0 0 0 [].

(* NaluArray.Complete() / NaluArray.NaluType(): what is observable of completeAndType *)
Definition hevc_arr_complete (ct : N) : N := N.shiftr ct 7.
Definition hevc_arr_type (ct : N) : N := N.land ct 63.

(*  for i := 0; i < numNalus; i++ {
        naluLength := int(sr.ReadUint16())
        array.Nalus = append(array.Nalus, sr.ReadBytes(naluLength))
        if sr.AccError() != nil { return hdcr, sr.AccError() }
    }
   Result: (returned from inside the loop?, reader, Nalus in reverse, ticks). *)
Fixpoint hevc_nalu_loop (fuel : nat) (data : list N) (i n : Z) (s : fsr) (acc : list (list N)) (ticks : N)
  : res (bool * fsr * list (list N) * N) :=
  match fuel with
  | O => OutOfFuel
  | S f =>
      if (i <? n)%Z then
        do r1 <- fsr_read_u16 data s;
        let '(nl, s1) := r1 in
        do r2 <- fsr_read_bytes data s1 (Z.of_N nl);
        let '(b, s2) := r2 in
        if fs_err s2 then Ok (true, s2, b :: acc, ticks + 1)
        else hevc_nalu_loop f data (i + 1) n s2 (b :: acc) (ticks + 1)
      else Ok (false, s, acc, ticks)
  end.

(*  for j := 0; j < int(numArrays); j++ {
        array := NaluArray{completeAndType: sr.ReadUint8(), Nalus: nil}
        numNalus := int(sr.ReadUint16())
        <inner loop>
        hdcr.NaluArrays = append(hdcr.NaluArrays, array)
    }
   numArrays is a byte: the counter alone bounds this loop (fuel 256); after a read error in the
   array header numNalus is 0 and the remaining iterations append empty arrays.
   Result: (returned from inside the inner loop?, reader, arrays in reverse, ticks of both loops,
   NAL units appended to an array that was then dropped by the early return). *)
Fixpoint hevc_array_loop (fuel : nat) (data : list N) (j n : Z) (s : fsr)
         (arrs : list (N * list (list N))) (ticks : N)
  : res (bool * fsr * list (N * list (list N)) * N * list (list N)) :=
  match fuel with
  | O => OutOfFuel
  | S f =>
      if (j <? n)%Z then
        do r1 <- fsr_read_u8 data s;
        let '(ct, s1) := r1 in
        do r2 <- fsr_read_u16 data s1;
        let '(nn, s2) := r2 in
        do r3 <- hevc_nalu_loop (cr_fuel data) data 0 (Z.of_N nn) s2 [] (ticks + 1);
        let '(early, s3, nalus, t) := r3 in
        if early then Ok (true, s3, arrs, t, nalus)
        else hevc_array_loop f data (j + 1) n s3 ((ct, rev nalus) :: arrs) t
      else Ok (false, s, arrs, ticks, [])
  end.

Definition hevc_array_fuel : nat := 256.

(* (value returned by Go, error returned?, ticks, NAL units built and dropped).  Go returns the
   partly filled record together with the error on every path but the version check. *)
Definition hevc_decode_full (data : list N) : res (hevc_rec * bool * N * list (list N)) :=
  let s := fsr_init in
  do r <- fsr_read_u8 data s; let '(ver, s) := r in
  if negb (ver =? 1) then Ok (hevc_rec0, true, 0, []) else
  do r <- fsr_read_u8 data s; let '(a, s) := r in
  let gps := N.land (N.shiftr a 6) 3 in
  let tier := N.land (N.shiftr a 5) 1 =? 1 in
  let pidc := N.land a 31 in
  do r <- fsr_read_u32 data s; let '(compat, s) := r in
  do r <- fsr_read_u32 data s; let '(c_hi, s) := r in
  do r <- fsr_read_u16 data s; let '(c_lo, s) := r in
  let constraint := N.lor (N.shiftl c_hi 16) c_lo in
  do r <- fsr_read_u8 data s; let '(level, s) := r in
  do r <- fsr_read_u16 data s; let '(mss, s) := r in
  do r <- fsr_read_u8 data s; let '(par, s) := r in
  do r <- fsr_read_u8 data s; let '(chroma, s) := r in
  do r <- fsr_read_u8 data s; let '(bdl, s) := r in
  do r <- fsr_read_u8 data s; let '(bdc, s) := r in
  do r <- fsr_read_u16 data s; let '(afr, s) := r in
  do r <- fsr_read_u8 data s; let '(b, s) := r in
  let hdcr := mkHevcRec ver gps tier pidc compat constraint level (N.land mss 4095) (N.land par 3)
                (N.land chroma 3) (N.land bdl 7) (N.land bdc 7) afr
                (N.land (N.shiftr b 6) 3) (N.land (N.shiftr b 3) 7) (N.land (N.shiftr b 2) 1) (N.land b 3) in
  if negb (N.land b 3 =? 3) then Ok (hdcr [], true, 0, []) else
  do r <- fsr_read_u8 data s; let '(numArrays, s) := r in
  (* numArrays is a Go byte: `u8` states the range of the type (identity on bytes) *)
  do r <- hevc_array_loop hevc_array_fuel data 0 (Z.of_N (u8 numArrays)) s [] 0;
  let '(early, s, arrs, t, dropped) := r in
  Ok (hdcr (rev arrs), fs_err s, t, dropped).

(* the Go function: value only when the error is nil *)
Definition hevc_decode_dec_conf_rec (data : list N) : res (hevc_rec * N) :=
  do r <- hevc_decode_full data;
  let '(v, e, t, _) := r in
  if e then Err else Ok (v, t).

(* ================================================================== av1.DecodeAV1CodecConfRec
   No loop; ConfigOBUs is the sub-slice data[4:] (nil when len(data) = 4: same rendering). *)
Record av1_rec := mkAv1Rec {
  av_version : N;
  av_seq_profile : N;
  av_seq_level_idx0 : N;
  av_seq_tier0 : N;
  av_high_bitdepth : N;
  av_twelve_bit : N;
  av_monochrome : N;
  av_subsampling_x : N;
  av_subsampling_y : N;
  av_sample_position : N;
  av_ipd_present : N;
  av_ipd_minus_one : N;
  av_config_obus : list N
}.

Definition av1_decode_codec_conf_rec (data : list N) : res av1_rec :=
  if (cr_len data <? 4)%Z then Err else
  do b0 <- cr_idx data 0;
  if negb (N.shiftr b0 7 =? 1) then Err else
  let version := N.land b0 127 in
  if negb (version =? 1) then Err else
  do b1 <- cr_idx data 1;
  do b2 <- cr_idx data 2;
  do b3 <- cr_idx data 3;
  if negb (N.shiftr b3 5 =? 0) then Err else
  let present := N.land (N.shiftr b3 4) 1 in
  if negb (present =? 1) && negb (N.land b3 15 =? 0) then Err else
  let ipd := if present =? 1 then N.land b3 15 else 0 in
  do obus <- (if (cr_len data >? 4)%Z then cr_slice data 4 (cr_len data) else Ok []);
  Ok (mkAv1Rec version (N.shiftr b1 5) (N.land b1 31) (N.shiftr b2 7)
        (N.land (N.shiftr b2 6) 1) (N.land (N.shiftr b2 5) 1) (N.land (N.shiftr b2 4) 1)
        (N.land (N.shiftr b2 3) 1) (N.land (N.shiftr b2 2) 1) (N.land b2 3)
        present ipd obus).
