(* C16SeiNaluProofs.v — avc.ParseSEINalu / hevc.ParseSEINalu are total for every NAL unit and EVERY SPS-derived
   context: the header accesses are in range, the extractor never runs out of fuel, every per-message
   decoder returns a value or an error, and at most |nalu|/2 messages are decoded.  No axioms. *)
From V.lib Require Import Base.
From V.c13 Require Import C13Model.
From V.c17 Require Import C17Spec C17Model C17TypedModel.
From V.c16 Require C16Model C16SeiProofs.
From V.c16 Require Import C16AuxModel C16AuxSeiProofs C16AuxExtractProofs C16SeiNaluModel.

Definition okerr_u (r : res unit) : Prop := r = Ok tt \/ r = Err.

Lemma cls_okerr {A} (r : res A) : (r = Err \/ exists x, r = Ok x) -> okerr_u (cls r).
Proof. intros [->|[x ->]]; [right|left]; reflexivity. Qed.

Lemma decode_msg_avc_total ctx m : okerr_u (decode_msg_avc ctx m).
Proof.
  destruct m as [ty pl]. unfold decode_msg_avc.
  destruct (ty =? 1).
  { destruct ctx as [[ext tolen]|]; apply cls_okerr.
    - destruct (pt_decode_total ext tolen pl) as [E|(m & E & _)]; [left; exact E|right; eauto].
    - destruct (pt_decode_total None 0 pl) as [E|(m & E & _)]; [left; exact E|right; eauto]. }
  destruct (ty =? 4).
  { apply cls_okerr. destruct (decode_registered_p_total pl) as [E|(m & t & E & _)]; [left; exact E|right; eauto]. }
  destruct (ty =? 5).
  { apply cls_okerr. destruct (decode_unregistered_p_total pl) as [E|(m & E & _)]; [left; exact E|right; eauto]. }
  left. reflexivity.
Qed.

Lemma decode_msg_hevc_total ctx m : okerr_u (decode_msg_hevc ctx m).
Proof.
  destruct m as [ty pl]. unfold decode_msg_hevc.
  destruct ((ty =? 1) && _).
  { destruct ctx as [p|]; [|left; reflexivity].
    destruct (C16SeiProofs.decode_pic_timing_hevc_total p pl) as (f & nal & inc & e & t & E & _).
    rewrite E. destruct e; [right|left]; reflexivity. }
  destruct (ty =? 4).
  { apply cls_okerr. destruct (decode_registered_p_total pl) as [E|(m & t & E & _)]; [left; exact E|right; eauto]. }
  destruct (ty =? 5).
  { apply cls_okerr. destruct (decode_unregistered_p_total pl) as [E|(m & E & _)]; [left; exact E|right; eauto]. }
  destruct (ty =? 136).
  { apply cls_okerr. destruct (tc_decode_total pl) as [E|(m & E & _)]; [left; exact E|right; eauto]. }
  destruct (ty =? 137).
  { apply cls_okerr. destruct (mdcv_decode_p_total pl) as (_ & [E|(m & E)]); [left; exact E|right; eauto]. }
  destruct (ty =? 144).
  { apply cls_okerr. destruct (cll_decode_p_total pl) as (_ & [E|(m & E)]); [left; exact E|right; eauto]. }
  left. reflexivity.
Qed.

Lemma decode_all_total f : (forall m, okerr_u (f m)) ->
  forall l n, decode_all f l n = Err \/ decode_all f l n = Ok (n + lenN l).
Proof.
  intros Hf. induction l as [|m t IH]; intros n; cbn [decode_all].
  - right. rewrite lenN_nil. f_equal. lia.
  - destruct (Hf m) as [-> | ->]; cbn [rbind]; [|left; reflexivity].
    destruct (IH (n + 1)) as [E|E]; [left; exact E|right]. rewrite E, lenN_cons. f_equal. lia.
Qed.

Lemma parse_sei_body_total f rest : (forall m, okerr_u (f m)) ->
  parse_sei_body f rest = Err \/
  exists n miss, parse_sei_body f rest = Ok (n, miss) /\ 2 * n <= lenN rest.
Proof.
  intros Hf. unfold parse_sei_body.
  destruct (extract_sei_data_total rest) as (r & c & E & _ & Hnf & Hb & _).
  rewrite E. cbn [fst]. destruct r as [l|l| |]; [| |left; reflexivity|congruence]; cbn [xres_msgs] in Hb.
  - destruct (decode_all_total f Hf l 0) as [-> | ->]; cbn [rbind]; [left; reflexivity|right].
    eexists _, _. split; [reflexivity|]. lia.
  - destruct (decode_all_total f Hf l 0) as [-> | ->]; cbn [rbind]; [left; reflexivity|right].
    eexists _, _. split; [reflexivity|]. lia.
Qed.

Lemma lenN_slice_tail {A} (l : list A) (k : nat) :
  lenN (firstn (Z.to_nat (lenZ l - Z.of_nat k)) (skipn (Z.to_nat (Z.of_nat k)) l)) <= lenN l.
Proof. unfold lenN. rewrite firstn_length, skipn_length. lia. Qed.

Lemma avc_parse_sei_nalu_total ctx nalu :
  avc_parse_sei_nalu ctx nalu = Err \/
  exists n miss, avc_parse_sei_nalu ctx nalu = Ok (n, miss) /\ 2 * n <= lenN nalu.
Proof.
  unfold avc_parse_sei_nalu. destruct (lenZ nalu <? 1)%Z eqn:Hl; [left; reflexivity|].
  destruct (pidx_ok_ex nalu 0) as [b0 ->]; [lia|]. cbn [rbind].
  destruct (negb _); [left; reflexivity|].
  rewrite pslice_ok by lia. cbn [rbind].
  match goal with |- context [parse_sei_body ?f ?r] =>
    destruct (parse_sei_body_total f r (decode_msg_avc_total ctx)) as [E|(n & miss & E & Hn)] end;
    [left; exact E|right].
  exists n, miss. split; [exact E|]. pose proof (lenN_slice_tail nalu 1) as H. cbn [Z.of_nat Pos.of_succ_nat] in H. lia.
Qed.

Lemma hevc_parse_sei_nalu_total ctx nalu :
  hevc_parse_sei_nalu ctx nalu = Err \/
  exists n miss, hevc_parse_sei_nalu ctx nalu = Ok (n, miss) /\ 2 * n <= lenN nalu.
Proof.
  unfold hevc_parse_sei_nalu. destruct (lenZ nalu <? 2)%Z eqn:Hl; [left; reflexivity|].
  destruct (pidx_ok_ex nalu 0) as [b0 ->]; [lia|]. cbn [rbind]. cbv zeta.
  destruct (negb _); [left; reflexivity|].
  rewrite pslice_ok by lia. cbn [rbind].
  match goal with |- context [parse_sei_body ?f ?r] =>
    destruct (parse_sei_body_total f r (decode_msg_hevc_total ctx)) as [E|(n & miss & E & Hn)] end;
    [left; exact E|right].
  exists n, miss. split; [exact E|]. pose proof (lenN_slice_tail nalu 2) as H. cbn [Z.of_nat Pos.of_succ_nat Pos.succ] in H. lia.
Qed.
