(* C16SeiFswModel.v — TimeCodeSEI.Payload (sei/sei136.go) and PicTimingAvcSEI.Payload (sei/sei1_avc.go) as Go
   runs them: through bits.FixedSliceWriter (bits/fixedslicewriter.go) with its buffer of Size() bytes.
   DEFINITIONS ONLY.

   Why an own model.  C17TypedModel.fsw_bytes is a TOTAL function (the C13 bit writer on an unbounded output,
   cut with firstn at the capacity): a "never panics" theorem about it would be true for the wrong reason.
   Here the writer is the Go struct {buf, off, n, v, accError} and every index / slice expression of the Go
   text is a PARTIAL operation (out of range = Panic):
     NewFixedSliceWriter(size)   make([]byte, size)                       size < 0 panics
     WriteUint8(b)               if off+1 > len(buf) {accError; return}; buf[off] = b; off++
     WriteBits(bits, n)          if accError != nil {return}; v <<= uint(n); v |= bits & Mask(n); n += n
                                 for sw.n >= 8 { b := byte(v >> (uint(sw.n)-8) & Mask(8)); WriteUint8(b); sw.n -= 8 }
                                 v &= Mask(8)            (uint is 64 bit: shifts by >= 64 give 0, Mask(n >= 64) = 2^64-1)
     FlushBits()                 if accError != nil {return}; if n != 0 { WriteUint8(byte(v << (8-uint(n)) & Mask(8))) }
     Bytes()                     buf[:off]
   The `for sw.n >= 8` loop runs on fuel (OutOfFuel excluded by the theorems).
   The sequences of writes of the two Payload methods are the op lists C17TypedModel.tc_ops / pt_ops (transcribed
   from the Go text by C17, imported read-only), the capacities C17TypedModel.tc_size / pt_size (= Size()). *)
From V.lib Require Import Base.
From V.c13 Require Import C13Model.
From V.c17 Require Import C17TypedModel.
From V.c16 Require Import C16AuxModel.

Record fsw := mkFsw {
  f_buf : list N;     (* buf *)
  f_off : Z;          (* off *)
  f_n : Z;            (* n: number of pending bits (int) *)
  f_v : N;            (* v: pending bits (uint, 64 bit) *)
  f_err : bool        (* accError != nil *)
}.

Definition two64 : N := 18446744073709551616.

(* make([]byte, size) *)
Definition fsw_new (size : Z) : res fsw :=
  if (size <? 0)%Z then Panic else Ok (mkFsw (repeat 0 (Z.to_nat size)) 0%Z 0%Z 0 false).

(* s[i] = b *)
Definition pupd (l : list N) (i : Z) (b : N) : res (list N) :=
  if ((0 <=? i) && (i <? lenZ l))%Z
  then Ok (firstn (Z.to_nat i) l ++ b :: skipn (S (Z.to_nat i)) l)
  else Panic.

(* WriteUint8 *)
Definition fsw_u8 (s : fsw) (b : N) : res fsw :=
  if (f_off s + 1 >? lenZ (f_buf s))%Z then Ok (mkFsw (f_buf s) (f_off s) (f_n s) (f_v s) true)
  else
    do buf' <- pupd (f_buf s) (f_off s) b;
    Ok (mkFsw buf' (f_off s + 1)%Z (f_n s) (f_v s) (f_err s)).

(* for sw.n >= 8 { ... } : WriteUint8 may set accError, the loop goes on all the same *)
Fixpoint fsw_drain (fuel : nat) (s : fsw) : res fsw :=
  match fuel with
  | O => OutOfFuel
  | S f =>
      if (8 <=? f_n s)%Z then
        let b := N.land (N.shiftr (f_v s) (Z.to_N (f_n s - 8))) 255 in
        do s1 <- fsw_u8 s b;
        fsw_drain f (mkFsw (f_buf s1) (f_off s1) (f_n s1 - 8)%Z (f_v s1) (f_err s1))
      else Ok s
  end.

(* Mask(n) in 64 bits *)
Definition mask64 (n : N) : N := if n <? 64 then 2 ^ n - 1 else two64 - 1.

(* WriteBits(bits, n); n >= 0 in every call of the two Payload methods (a constant or int(byte) (+1)) *)
Definition fsw_bits (s : fsw) (bits n : N) : res fsw :=
  if f_err s then Ok s
  else
    let v1 := N.lor (N.shiftl (f_v s) n mod two64) (N.land (bits mod two64) (mask64 n)) in
    let n1 := (f_n s + Z.of_N n)%Z in
    do s2 <- fsw_drain (S (Z.to_nat (n1 / 8))) (mkFsw (f_buf s) (f_off s) n1 v1 (f_err s));
    Ok (mkFsw (f_buf s2) (f_off s2) (f_n s2) (N.land (f_v s2) 255) (f_err s2)).

(* FlushBits: n is not reset *)
Definition fsw_flush (s : fsw) : res fsw :=
  if f_err s then Ok s
  else if (f_n s =? 0)%Z then Ok s
  else fsw_u8 s (N.land (N.shiftl (f_v s) (Z.to_N (8 - f_n s)) mod two64) 255).

(* Bytes() *)
Definition fsw_bytes_p (s : fsw) : res (list N) := pslice (f_buf s) 0 (f_off s).

(* the writes of a Payload method, given as C13 writer ops (only WBits / WFlag / WFlush occur) *)
Definition fsw_step (s : fsw) (o : wop) : res fsw :=
  match o with
  | WBits v w => fsw_bits s v w
  | WFlag b => fsw_bits s (b2n b) 1
  | WFlush => fsw_flush s
  | _ => Ok s
  end.

Fixpoint fsw_run (s : fsw) (ops : list wop) : res fsw :=
  match ops with
  | [] => Ok s
  | o :: t => do s1 <- fsw_step s o; fsw_run s1 t
  end.

(* sw := NewFixedSliceWriter(int(s.Size())); writes; sw.FlushBits(); return sw.Bytes()
   Result: the bytes and whether the accumulated error was set (the methods do not look at it) *)
Definition fsw_payload_p (cap : Z) (ops : list wop) : res (list N * bool) :=
  do s0 <- fsw_new cap;
  do s1 <- fsw_run s0 ops;
  do s2 <- fsw_flush s1;
  do bs <- fsw_bytes_p s2;
  Ok (bs, f_err s2).

(* TimeCodeSEI.Payload() *)
Definition tc_payload_p (cs : list clock) : res (list N * bool) :=
  fsw_payload_p (Z.of_N (tc_size cs)) (tc_ops cs).

(* PicTimingAvcSEI.Payload() *)
Definition pt_payload_p (m : pic_timing) : res (list N * bool) :=
  fsw_payload_p (Z.of_N (pt_size m)) (pt_ops m).

(* decode, then Payload(): what the harness asks of the real code on every hostile input *)
Definition tc_decode_payload_p (payload : list N) : res (N * list N * bool) :=
  do cs <- tc_decode payload;
  do r <- tc_payload_p cs;
  Ok (lenN cs, fst r, snd r).

Definition pt_decode_payload_p (ext : option hrd_delay) (tolen : N) (payload : list N) : res (N * list N * bool) :=
  do m <- pt_decode ext tolen payload;
  do r <- pt_payload_p m;
  Ok (lenN (p_clocks m), fst r, snd r).

(* ------------------------------------------------------------------ message VALUES from bytes
   (the layout the harness uses to build arbitrary TimeCodeSEI / PicTimingAvcSEI values, harness/c16/seipayload.go:
   length fields are bytes 0..255, far beyond the 5 bits the decoders produce) *)
Definition s64_of_u64 (u : N) : Z := if u <? 9223372036854775808 then Z.of_N u else (Z.of_N u - 18446744073709551616)%Z.

Fixpoint tc_value_of_bytes (l : list N) : list clock :=
  match l with
  | f :: ct :: n1 :: n0 :: s :: m :: h :: ol :: v3 :: v2 :: v1 :: v0 :: _ :: _ :: _ :: _ :: rest =>
      mkClock (N.testbit f 0) (N.testbit f 1) ct (N.testbit f 2) (N.testbit f 3) (N.testbit f 4)
              (be_val [n1; n0] 0) (N.testbit f 5) s (N.testbit f 6) m (N.testbit f 7) h ol (be_val [v3; v2; v1; v0] 0)
      :: tc_value_of_bytes rest
  | _ => []
  end.

Fixpoint pt_clocks_of_bytes (l : list N) : list clock_avc :=
  match l with
  | f :: ctt :: ct :: nf :: s :: m :: h :: ol :: v7 :: v6 :: v5 :: v4 :: v3 :: v2 :: v1 :: v0 :: rest =>
      mkClockAvc (N.testbit f 0) ctt (N.testbit f 1) ct (N.testbit f 2) (N.testbit f 3) (N.testbit f 4) nf
                 (N.testbit f 5) s (N.testbit f 6) m (N.testbit f 7) h ol
                 (s64_of_u64 (be_val [v7; v6; v5; v4; v3; v2; v1; v0] 0))
      :: pt_clocks_of_bytes rest
  | _ => []
  end.

Definition pt_value_of_bytes (l : list N) : option pic_timing :=
  match l with
  | hp :: cl :: dl :: ps :: c7 :: c6 :: c5 :: c4 :: c3 :: c2 :: c1 :: c0 :: d7 :: d6 :: d5 :: d4 :: d3 :: d2 :: d1 :: d0 :: rest =>
      Some (mkPT (if N.testbit hp 0
                  then Some (mkHrd (be_val [c7; c6; c5; c4; c3; c2; c1; c0] 0) (be_val [d7; d6; d5; d4; d3; d2; d1; d0] 0) 0 cl dl)
                  else None)
                 0 ps (pt_clocks_of_bytes rest))
  | _ => None
  end.
