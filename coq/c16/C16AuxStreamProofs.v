(* C16AuxStreamProofs.v — the other Annex B byte-stream helpers that share the bs_loop skeleton (C14 models,
   imported read-only) are total for EVERY list, no hypothesis:
     avc.GetFirstAVCVideoNALUFromByteStream, {avc,hevc}.ExtractNalusOfTypeFromByteStream,
     {avc,hevc}.GetParameterSetsFromByteStream.
   Method: C14 bs_loop_events turns the loop into a fold over the start-code positions (for any body);
   the positions are at least 3 apart (C16AuxScanProofs.filter_sep3); a generic invariant lemma
   (events_total) then needs one step fact per body: given the current unit start `cur` <= the start code
   position p and p + 3 < |d|, every index and slice expression of the body is in range.
   No axioms. *)
From V.lib Require Import Base.
From V.c14 Require Import C14Spec C14Model C14WordProofs C14ScanProofs C14ConvProofs C14StreamProofs.
From V.c16 Require Import C16AuxScanProofs.
Local Open Scope Z_scope.

Section Events.
Context {St R : Type} (body : Z -> St -> res (St + R)) (L : Z) (cur_of : St -> Z)
        (IS : St -> Prop) (IR : R -> Prop).
Hypothesis step : forall p st, cur_of st <= p -> 0 <= p -> p + 3 < L -> IS st ->
  (exists st', body p st = Ok (inl st') /\ cur_of st' = p + 3 /\ IS st') \/
  (exists x, body p st = Ok (inr x) /\ IR x).

Lemma events_total : forall ps lo st,
  sep3 L lo ps -> 0 <= lo -> cur_of st <= lo -> cur_of st < L -> IS st ->
  (exists st', bs_events body ps st = Ok (inl st') /\ cur_of st' < L /\ IS st') \/
  (exists x, bs_events body ps st = Ok (inr x) /\ IR x).
Proof.
  induction ps as [|p t IH]; intros lo st Hs Hlo Hc HL Hi; cbn [bs_events].
  - left. exists st. auto.
  - destruct Hs as (S1 & S2 & S3).
    destruct (step p st) as [(st' & -> & Hc' & Hi')|(x & -> & Hx)]; try assumption; try lia; cbn [rbind].
    + apply (IH (p + 3)); try assumption; lia.
    + right. exists x. auto.
Qed.
End Events.

(* the loop of a helper on any list *)
Lemma bs_loop_total {St R} (body : Z -> St -> res (St + R)) (d : list N) (cur_of : St -> Z)
      (IS : St -> Prop) (IR : R -> Prop) (st : St) :
  (forall p st, cur_of st <= p -> 0 <= p -> p + 3 < Zlen d -> IS st ->
     (exists st', body p st = Ok (inl st') /\ cur_of st' = p + 3 /\ IS st') \/
     (exists x, body p st = Ok (inr x) /\ IR x)) ->
  cur_of st = -1 -> IS st ->
  (exists st', bs_loop body (S (length d)) d (Zlen d) 0 st = Ok (inl st') /\ cur_of st' < Zlen d /\ IS st') \/
  (exists x, bs_loop body (S (length d)) d (Zlen d) 0 st = Ok (inr x) /\ IR x).
Proof.
  intros Hstep Hc Hi. rewrite bs_loop_events by (unfold Zlen; lia).
  apply (events_total body (Zlen d) cur_of IS IR Hstep _ 0); try assumption; try lia.
  - apply filter_sep3. intros q Hq. lia.
  - pose proof (Zlen_nonneg d). lia.
Qed.

(* the unit before a start code at p: trimming, its header byte, its slice *)
Lemma prev_unit d cur p : 0 < cur -> cur <= p -> p < Zlen d ->
  exists e, trim_end d cur p = Ok e /\ cur <= e <= p /\ getb d cur = Ok (zget d cur).
Proof.
  intros H0 H1 H2. unfold trim_end.
  destruct (trim_loop_total d cur (S (length d)) (p - 1) p) as (e & -> & He); try lia.
  { unfold Zlen in *. lia. }
  exists e. split; [reflexivity|]. split; [lia|]. apply getb_ok; lia.
Qed.

(* ------------------------------------------------------------------ GetFirstAVCVideoNALUFromByteStream *)
Lemma gfv_step d p cur : cur <= p -> 0 <= p -> p + 3 < Zlen d -> True ->
  (exists cur', gfv_body d p cur = Ok (inl cur') /\ cur' = p + 3 /\ True) \/
  (exists x, gfv_body d p cur = Ok (inr x) /\ (0 < fst x /\ fst x <= snd x /\ snd x <= Zlen d)).
Proof.
  intros H1 H2 H3 _. unfold gfv_body. rewrite Z.gtb_ltb. destruct (Z.ltb_spec 0 cur) as [Hpos|Hneg].
  - destruct (prev_unit d cur p) as (e & -> & He & ->); try lia. cbn [rbind].
    destruct (avc_is_video (avc_type (zget d cur))); cbn [rbind].
    + right. eexists. split; [reflexivity|]. cbn [fst snd]. lia.
    + left. eexists. split; [reflexivity|]. auto.
  - cbn [rbind]. left. eexists. split; [reflexivity|]. auto.
Qed.

Lemma avc_get_first_video_nalu_total d :
  exists nalu, avc_get_first_video_nalu d = Ok nalu /\ (lenN nalu <= lenN d)%N.
Proof.
  unfold avc_get_first_video_nalu.
  destruct (bs_loop_total (gfv_body d) d (fun c => c) (fun _ => True)
              (fun x => 0 < fst x /\ fst x <= snd x /\ snd x <= Zlen d) (-1) (gfv_step d) eq_refl I)
    as [(cur & -> & Hc & _)|([a b] & -> & Ha & Hb & Hl)]; cbn [rbind gfv_finish fst snd] in *.
  - rewrite Z.gtb_ltb. destruct (Z.ltb_spec 0 cur).
    + rewrite getb_ok by lia. cbn [rbind]. destruct (avc_is_video _).
      * rewrite slice_ok by lia. eexists. split; [reflexivity|].
        unfold lenN, Zlen in *. rewrite firstn_length, skipn_length. lia.
      * exists []. split; [reflexivity|]. unfold lenN. cbn [length]. lia.
    + exists []. split; [reflexivity|]. unfold lenN. cbn [length]. lia.
  - destruct (Z.eqb_spec a 0); [lia|]. rewrite slice_ok by lia. eexists. split; [reflexivity|].
    unfold lenN, Zlen in *. rewrite firstn_length, skipn_length. lia.
Qed.

(* ------------------------------------------------------------------ ExtractNalusOfTypeFromByteStream *)
Definition enot_IS (st : Z * list (list N)) : Prop := (length (snd st) <= Z.to_nat (fst st))%nat.

Lemma enot_step ty vlim want stop d p (st : Z * list (list N)) :
  fst st <= p -> 0 <= p -> p + 3 < Zlen d -> enot_IS st ->
  (exists st', enot_body ty vlim want stop d p st = Ok (inl st') /\ fst st' = p + 3 /\ enot_IS st') \/
  (exists x, enot_body ty vlim want stop d p st = Ok (inr x) /\ (length x <= length d)%nat).
Proof.
  destruct st as [cur acc]. unfold enot_IS. cbn [fst snd]. intros H1 H2 H3 Hi. unfold enot_body.
  assert (Hacc : exists acc1,
     (if cur >? 0 then do e <- trim_end d cur p; do h <- getb d cur;
        if N.eqb (ty h) want then do sl <- slice d cur e; Ok (sl :: acc) else Ok acc else Ok acc) = Ok acc1 /\
     (length acc1 <= Z.to_nat p + 1)%nat).
  { rewrite Z.gtb_ltb. destruct (Z.ltb_spec 0 cur) as [Hpos|Hneg].
    - destruct (prev_unit d cur p) as (e & -> & He & ->); try lia. cbn [rbind].
      destruct (N.eqb (ty (zget d cur)) want).
      + rewrite slice_ok by lia. cbn [rbind]. eexists. split; [reflexivity|]. cbn [length]. lia.
      + eexists. split; [reflexivity|]. lia.
    - eexists. split; [reflexivity|]. lia. }
  destruct Hacc as (acc1 & -> & Hl). cbn [rbind].
  destruct (Z.ltb_spec (p + 3) (Zlen d)); [|lia]. rewrite getb_ok by lia. cbn [rbind].
  destruct (stop && (ty (zget d (p + 3)) <? vlim)%N).
  - right. eexists. split; [reflexivity|]. unfold Zlen in *. lia.
  - left. eexists. split; [reflexivity|]. cbn [fst snd]. split; [reflexivity|lia].
Qed.

Lemma extract_nalus_of_type_total ty vlim want stop d :
  exists nalus, extract_nalus_of_type ty vlim want stop d = Ok nalus /\ (lenN nalus <= lenN d)%N.
Proof.
  unfold extract_nalus_of_type.
  destruct (bs_loop_total (enot_body ty vlim want stop d) d fst enot_IS (fun x => (length x <= length d)%nat)
              (-1, []) (enot_step ty vlim want stop d) eq_refl)
    as [([cur acc] & -> & Hc & Hi)|(x & -> & Hx)]; cbn [rbind enot_finish fst snd] in *.
  { unfold enot_IS. cbn. lia. }
  - unfold enot_IS in Hi. cbn [fst snd] in Hi. destruct (Z.ltb_spec cur 0).
    + exists []. split; [reflexivity|]. unfold lenN. cbn [length]. lia.
    + rewrite getb_ok by lia. cbn [rbind]. destruct (N.eqb _ want).
      * rewrite slice_ok by lia. cbn [rbind]. eexists. split; [reflexivity|].
        unfold lenN, Zlen in *. rewrite rev_length. cbn [length]. lia.
      * eexists. split; [reflexivity|]. unfold lenN, Zlen in *. rewrite rev_length. lia.
  - eexists. split; [reflexivity|]. unfold lenN. rewrite rev_length. lia.
Qed.

(* ------------------------------------------------------------------ GetParameterSetsFromByteStream *)
Definition psz (a : ps3) : nat := let '(v, s, p) := a in (length v + length s + length p)%nat.

Lemma psz_add c x a : psz (ps_add c x a) = S (psz a).
Proof.
  destruct a as [[v s] p]. unfold ps_add. destruct (N.eqb c 0); [|destruct (N.eqb c 1)]; cbn [psz length]; lia.
Qed.

Lemma psz_rev a : psz (ps_rev a) = psz a.
Proof. destruct a as [[v s] p]. cbn [ps_rev psz]. rewrite !rev_length. reflexivity. Qed.

Definition gpsb_IS (st : Z * ps3) : Prop := (psz (snd st) <= Z.to_nat (fst st))%nat.

Lemma gpsb_step ty cls vlim d p (st : Z * ps3) :
  fst st <= p -> 0 <= p -> p + 3 < Zlen d -> gpsb_IS st ->
  (exists st', gpsb_body ty cls vlim d p st = Ok (inl st') /\ fst st' = p + 3 /\ gpsb_IS st') \/
  (exists x, gpsb_body ty cls vlim d p st = Ok (inr x) /\ (psz x <= length d)%nat).
Proof.
  destruct st as [cur acc]. unfold gpsb_IS. cbn [fst snd]. intros H1 H2 H3 Hi. unfold gpsb_body. cbv zeta.
  assert (Hacc : exists acc1,
     (if cur >? 0 then do e <- trim_end d cur p; do h <- getb d cur;
        if (cls (ty h) <=? 2)%N then do sl <- slice d cur e; Ok (ps_add (cls (ty h)) sl acc) else Ok acc else Ok acc) = Ok acc1 /\
     (psz acc1 <= Z.to_nat p + 1)%nat).
  { rewrite Z.gtb_ltb. destruct (Z.ltb_spec 0 cur) as [Hpos|Hneg].
    - destruct (prev_unit d cur p) as (e & -> & He & ->); try lia. cbn [rbind].
      destruct (cls (ty (zget d cur)) <=? 2)%N.
      + rewrite slice_ok by lia. cbn [rbind]. eexists. split; [reflexivity|]. rewrite psz_add. lia.
      + eexists. split; [reflexivity|]. lia.
    - eexists. split; [reflexivity|]. lia. }
  destruct Hacc as (acc1 & -> & Hl). cbn [rbind].
  rewrite getb_ok by lia. cbn [rbind].
  destruct (ty (zget d (p + 3)) <? vlim)%N.
  - right. eexists. split; [reflexivity|]. unfold Zlen in *. lia.
  - left. eexists. split; [reflexivity|]. cbn [fst snd]. split; [reflexivity|lia].
Qed.

Lemma get_parameter_sets_from_byte_stream_total ty cls vlim d :
  exists ps, get_parameter_sets_from_byte_stream ty cls vlim d = Ok ps /\ (psz ps <= length d)%nat.
Proof.
  unfold get_parameter_sets_from_byte_stream.
  destruct (bs_loop_total (gpsb_body ty cls vlim d) d fst gpsb_IS (fun x => (psz x <= length d)%nat)
              (-1, ([], [], [])) (gpsb_step ty cls vlim d) eq_refl)
    as [([cur acc] & -> & Hc & Hi)|(x & -> & Hx)]; cbn [rbind gpsb_finish fst snd] in *.
  { unfold gpsb_IS. cbn. lia. }
  - unfold gpsb_IS in Hi. cbn [fst snd] in Hi. rewrite Z.gtb_ltb. destruct (Z.ltb_spec 0 cur).
    + rewrite getb_ok by lia. cbn [rbind]. cbv zeta. destruct (cls _ <=? 2)%N.
      * rewrite slice_ok by lia. cbn [rbind]. eexists. split; [reflexivity|].
        rewrite psz_rev, psz_add. unfold Zlen in *. lia.
      * cbn [rbind]. eexists. split; [reflexivity|]. rewrite psz_rev. unfold Zlen in *. lia.
    + cbn [rbind]. eexists. split; [reflexivity|]. rewrite psz_rev.
      assert (Z.to_nat cur = 0%nat) by lia. lia.
  - eexists. split; [reflexivity|]. rewrite psz_rev. exact Hx.
Qed.

Lemma get_parameter_sets_from_byte_stream_total_N ty cls vlim d :
  exists v s p, get_parameter_sets_from_byte_stream ty cls vlim d = Ok (v, s, p) /\
                (lenN v + lenN s + lenN p <= lenN d)%N.
Proof.
  destruct (get_parameter_sets_from_byte_stream_total ty cls vlim d) as ([[v s] p] & H & Hl).
  exists v, s, p. split; [exact H|]. cbn [psz] in Hl. unfold lenN. lia.
Qed.
