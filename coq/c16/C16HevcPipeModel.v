(* C16HevcPipeModel.v — the multi-step HEVC pipelines composed from the models (DEFINITIONS ONLY):
     hostile SPS -> SEI NAL unit decoded with the HEVCPicTimingParams derived from that SPS
       (hevc/sei.go fillHEVCPicTimingParams: FrameFieldInfoPresent from the VUI, the rest from its HRD);
     decoder configuration record -> its SPS / PPS NAL units -> slice segment header
       (DecConfRec.GetNalusForType: the FIRST array of the type).
   Every PPS is inside the model (C16HevcParseModel.v has skeletons of the multilayer / 3D extension parsers). *)
From V.lib Require Import Base.
From V.c13 Require Import C13Model.
From V.c15 Require Import C15Model C15HevcModel.
From V.c16 Require C16Model C16ConfRecModel.
From V.c16 Require Import C16HevcParseModel C16SeiNaluModel.

Definition hevc_pt_of_sps (sp : option hsps) : option C16Model.hpt_params :=
  match sp with
  | None => None
  | Some s =>
      match h_vui s with
      | None => None
      | Some v =>
          match hv_hrd v with
          | None => Some (C16Model.mkHP (hv_frame_field_info v) false false false 0 0 0 0)
          | Some h =>
              Some (C16Model.mkHP (hv_frame_field_info v) (hr_nal h || hr_vcl h) (hr_subpic h)
                                  (hr_subpic_in_pt_sei h) (hr_au_cpb_removal h) (hr_dpb_output h)
                                  (hr_dpb_output_du h) (hr_du_cpb_removal h))
          end
      end
  end.

Definition hevc_sps_and_sei (a rest : list N) : res (N * bool) :=
  hevc_parse_sei_nalu (hevc_pt_of_sps (match c16_hparse_sps a with Ok s => Some s | _ => None end)) rest.

(* NAL units of the first array of the given type *)
Definition hevc_rec_nalus (r : C16ConfRecModel.hevc_rec) (t : N) : list (list N) :=
  match find (fun a => C16ConfRecModel.hevc_arr_type (fst a) =? t) (C16ConfRecModel.hr_arrays r) with
  | Some a => snd a
  | None => []
  end.

Definition parse_hsps_list (l : list (list N)) : list hsps :=
  flat_map (fun u => match c16_hparse_sps u with Ok s => [s] | _ => [] end) l.

(* always Some (kept as an option for the driver: None used to mean "some PPS is outside the model") *)
Fixpoint parse_hpps_list (spss : list hsps) (l : list (list N)) : option (list hpps) :=
  match l with
  | [] => Some []
  | u :: t =>
      match parse_hpps_list spss t with
      | None => None
      | Some ps => Some ((match c16_hparse_pps (hsps_has spss) u with Ok p => [p] | _ => [] end) ++ ps)
      end
  end.

Definition hevc_confrec_and_slice (recb rest : list N) : res hslice :=
  match C16ConfRecModel.hevc_decode_dec_conf_rec recb with
  | Ok (r, _) =>
      let spss := parse_hsps_list (hevc_rec_nalus r 33) in
      match parse_hpps_list spss (hevc_rec_nalus r 34) with
      | None => Err
      | Some ppss => c16_hparse_slice (hsps_lookup spss) (hpps_lookup ppss) rest
      end
  | Err => Err
  | Panic => Panic
  | OutOfFuel => OutOfFuel
  end.

(* the model counterparts of the reference parameter sets of the harness *)
Definition parse_hpps_ctx (spss : list hsps) (l : list (list N)) : option (list hpps) := parse_hpps_list spss l.
