(* C16ReaderProofs.v — totality of the EBSP bit reader (model: coq/c13/C13Model.v, imported read-only):
   the fuel of the byte-fill loop and of the Exp-Golomb leading-zero loop is never exhausted, every
   read consumes the bits it returns (so loops that read at least one bit per iteration are bounded
   by the input length), and after the first error every read is a constant-time 0. No axioms. *)
From V.lib Require Import Base.
From V.c13 Require Import C13Model.

(* well-formed reader state: position inside the data, fewer than 8 pending bits *)
Definition rwf (s : rstate) : Prop := rpos s <= lenN (rdata s) /\ rn s < 8.

(* unread bits: pending ones plus the bytes not yet consumed *)
Definition bits_left (s : rstate) : N := 8 * (lenN (rdata s) - rpos s) + rn s.

Lemma byte_at_some data i b : byte_at data i = Some b -> i < lenN data.
Proof.
  unfold byte_at, lenN. intros H.
  assert (Hn : nth_error data (N.to_nat i) <> None) by congruence.
  apply nth_error_Some in Hn. lia.
Qed.

Lemma rwf_init data : rwf (rinit data).
Proof. unfold rwf, rinit. cbn [rpos rn rdata]. lia. Qed.

(* ---------- the fill loop `for r.n < n { read a byte }` ---------- *)
Lemma fill_inv esc : forall fuel s n,
    rpos s <= lenN (rdata s) -> rerr s = false -> n < rn s + 8 * N.of_nat fuel ->
    let s' := fill esc fuel s n in
    rdata s' = rdata s /\ rpos s' <= lenN (rdata s) /\
    (rerr s' = true \/
     (rerr s' = false /\ n <= rn s' /\ bits_left s' <= bits_left s /\ (rn s' < n + 8 \/ rn s' = rn s))).
Proof.
  induction fuel as [|f IH]; intros s n Hp He Hf; cbn zeta.
  - cbn [fill]. repeat split; try lia. right. repeat split; try lia. exact He.
  - cbn [fill]. destruct (rn s <? n) eqn:Hc.
    + destruct (byte_at (rdata s) (rpos s)) as [b|] eqn:Hb.
      * apply byte_at_some in Hb.
        destruct (esc && (rzc s =? 2) && (b =? 3))%bool.
        -- destruct (byte_at (rdata s) (rpos s + 1)) as [b'|] eqn:Hb'.
           ++ apply byte_at_some in Hb'.
              match goal with |- context [fill esc f ?s2 n] =>
                destruct (IH s2 n) as (Hd & Hp' & Hr);
                  [cbn [rpos rdata]; lia | reflexivity | cbn [rn]; lia | ] end.
              cbn [rpos rdata rerr rn] in Hd, Hp', Hr.
              split; [exact Hd|]. split; [exact Hp'|].
              destruct Hr as [Hr|(Hr1 & Hr2 & Hr3 & Hr4)]; [left; exact Hr|right].
              unfold bits_left in *. cbn [rpos rdata rn] in *.
              repeat split; try assumption; lia.
           ++ cbn [rdata rpos rerr]. repeat split; try lia; try (left; reflexivity).
        -- match goal with |- context [fill esc f ?s2 n] =>
             destruct (IH s2 n) as (Hd & Hp' & Hr);
               [cbn [rpos rdata]; lia | reflexivity | cbn [rn]; lia | ] end.
           cbn [rpos rdata rerr rn] in Hd, Hp', Hr.
           split; [exact Hd|]. split; [exact Hp'|].
           destruct Hr as [Hr|(Hr1 & Hr2 & Hr3 & Hr4)]; [left; exact Hr|right].
           unfold bits_left in *. cbn [rpos rdata rn] in *.
           repeat split; try assumption; lia.
      * cbn [rdata rpos rerr]. repeat split; try lia; try (left; reflexivity).
    + repeat split; try lia. right. repeat split; try lia. exact He.
Qed.

(* ---------- Read(n) ---------- *)
(* every read on a well-formed state either sets the sticky error or consumes exactly the n bits
   it returns (plus possibly escape bytes) and leaves a well-formed state *)
Lemma read_gen_inv esc s n :
  rwf s -> rerr s = false ->
  let '(v, s1) := read_gen esc s n in
  rdata s1 = rdata s /\
  (rerr s1 = true \/ (rerr s1 = false /\ rwf s1 /\ bits_left s1 + n <= bits_left s)).
Proof.
  intros [Hp Hn] He. unfold read_gen. rewrite He.
  pose proof (fill_inv esc (S (N.to_nat (n / 8) + 1)) s n Hp He) as H.
  cbn zeta in H. destruct H as (Hd & Hp' & Hr).
  { assert (8 * (n / 8) <= n < 8 * (n / 8) + 8) by (split; [apply N.mul_div_le; lia | pose proof (N.mod_lt n 8); pose proof (N.div_mod n 8); lia]).
    lia. }
  destruct Hr as [Hr|(Hr1 & Hr2 & Hr3 & Hr4)].
  - rewrite Hr. split; [exact Hd|]. left. exact Hr.
  - rewrite Hr1. cbn [rdata rerr]. split; [exact Hd|]. right.
    split; [reflexivity|]. unfold rwf, bits_left in *. cbn [rpos rdata rn].
    rewrite ?Hd in *. repeat split; lia.
Qed.

(* the sticky error: O(1), value 0, state unchanged *)
Lemma read_gen_after_error esc s n : rerr s = true -> read_gen esc s n = (0, s).
Proof. intros H. unfold read_gen. rewrite H. reflexivity. Qed.

Lemma read_ue_after_error s : rerr s = true -> read_ue s = (0, s).
Proof. intros H. unfold read_ue. rewrite H. reflexivity. Qed.

(* ---------- ReadExpGolomb: the leading-zero loop terminates before its fuel ---------- *)
Lemma lz_loop_total : forall fuel s lz,
    rwf s -> rerr s = false -> bits_left s < N.of_nat fuel ->
    exists lz' s1, lz_loop fuel s lz = Some (lz', s1) /\ rdata s1 = rdata s /\
                   lz <= lz' /\ lz' - lz <= bits_left s /\
                   (rerr s1 = true \/ (rerr s1 = false /\ rwf s1 /\ bits_left s1 + (lz' - lz) < bits_left s)).
Proof.
  induction fuel as [|f IH]; intros s lz Hw He Hf; [lia|].
  cbn [lz_loop]. pose proof (read_gen_inv true s 1 Hw He) as H.
  unfold read. destruct (read_gen true s 1) as [b s1]. destruct H as (Hd & Hr).
  destruct Hr as [Hr|(Hr1 & Hr2 & Hr3)].
  - rewrite Hr. exists lz, s1. split; [reflexivity|]. split; [exact Hd|]. split; [lia|]. split; [lia|]. left. exact Hr.
  - rewrite Hr1. destruct (b =? 1).
    + exists lz, s1. split; [reflexivity|]. split; [exact Hd|]. split; [lia|]. split; [lia|].
      right. split; [exact Hr1|]. split; [exact Hr2|]. lia.
    + destruct (IH s1 (lz + 1) Hr2 Hr1) as (lz' & s2 & Hl & Hd2 & Hle & Hb & Hr'); [lia|].
      exists lz', s2. split; [exact Hl|]. split; [congruence|]. split; [lia|]. split; [lia|].
      destruct Hr' as [Hr'|(Ha & Hb' & Hc)]; [left; exact Hr'|right].
      split; [exact Ha|]. split; [exact Hb'|]. lia.
Qed.

Lemma read_ue_fuel s : rwf s -> bits_left s < N.of_nat (S (8 * length (rdata s) + 8)).
Proof. intros [Hp Hn]. unfold bits_left, lenN in *. lia. Qed.

(* ReadExpGolomb on any well-formed state: the `None` (out of fuel) branch is never taken, the
   data is unchanged, and the result state is in error or well-formed with strictly fewer bits left *)
Lemma read_ue_total s :
  rwf s -> rerr s = false ->
  exists lz s1, lz_loop (S (8 * length (rdata s) + 8)) s 0 = Some (lz, s1) /\ lz <= bits_left s /\
  let '(v, s2) := read_ue s in
  rdata s2 = rdata s /\ (rerr s2 = true \/ (rerr s2 = false /\ rwf s2 /\ bits_left s2 < bits_left s)).
Proof.
  intros Hw He.
  destruct (lz_loop_total _ s 0 Hw He (read_ue_fuel s Hw)) as (lz & s1 & Hl & Hd & _ & Hb & Hr).
  exists lz, s1. split; [exact Hl|]. split; [lia|].
  unfold read_ue. rewrite He, Hl.
  destruct Hr as [Hr|(Hr1 & Hr2 & Hr3)].
  - rewrite Hr. split; [exact Hd|]. left. exact Hr.
  - rewrite Hr1. pose proof (read_gen_inv true s1 lz Hr2 Hr1) as H. unfold read.
    destruct (read_gen true s1 lz) as [e s2]. destruct H as (Hd2 & Hr').
    destruct Hr' as [Hr'|(Ha & Hb' & Hc)].
    + rewrite Hr'. split; [congruence|]. left. exact Hr'.
    + rewrite Ha. split; [congruence|]. right. split; [exact Ha|]. split; [exact Hb'|]. lia.
Qed.
