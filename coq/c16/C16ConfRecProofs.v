(* C16ConfRecProofs.v — totality (Ok or Err: never Panic, never OutOfFuel), linear iteration bound
   and linear size bound of the configuration record decoders of C16ConfRecModel.v, for every byte
   list.  No axioms. *)
From V.lib Require Import Base.
From V.c16 Require Import C16ConfRecModel.

Local Open Scope Z_scope.

(* ---------- size accounting ---------- *)
(* total number of bytes of a list of NAL units *)
Definition cr_bytes (l : list (list N)) : N := sumN (map (@lenN N) l).
(* bytes of the record a list of NAL units occupies: a 2-byte length field in front of each *)
Definition cr_cost (l : list (list N)) : N := (2 * lenN l + cr_bytes l)%N.

Lemma cr_cost_nil : cr_cost [] = 0%N.
Proof. reflexivity. Qed.

Lemma cr_bytes_cons x l : cr_bytes (x :: l) = (lenN x + cr_bytes l)%N.
Proof. reflexivity. Qed.

Lemma cr_cost_cons x l : cr_cost (x :: l) = (2 + lenN x + cr_cost l)%N.
Proof. unfold cr_cost. rewrite cr_bytes_cons, lenN_cons. lia. Qed.

Lemma lenN_rev {A} (l : list A) : lenN (rev l) = lenN l.
Proof. unfold lenN. rewrite rev_length. reflexivity. Qed.

Lemma sumN_rev l : sumN (rev l) = sumN l.
Proof.
  induction l as [|x t IH]; [reflexivity|].
  cbn [rev]. rewrite sumN_app, IH. cbn [sumN]. lia.
Qed.

Lemma cr_bytes_rev l : cr_bytes (rev l) = cr_bytes l.
Proof. unfold cr_bytes. rewrite map_rev. apply sumN_rev. Qed.

Lemma cr_cost_rev l : cr_cost (rev l) = cr_cost l.
Proof. unfold cr_cost. rewrite lenN_rev, cr_bytes_rev. reflexivity. Qed.

Lemma cr_len_nonneg bs : 0 <= cr_len bs.
Proof. unfold cr_len. lia. Qed.

Lemma cr_len_lenN bs : cr_len bs = Z.of_N (lenN bs).
Proof. unfold cr_len, lenN. lia. Qed.

(* ---------- partial operations succeed inside their bounds ---------- *)
Lemma cr_idx_ok bs i : 0 <= i < cr_len bs -> exists b, cr_idx bs i = Ok b.
Proof.
  intros H. unfold cr_idx.
  replace ((0 <=? i) && (i <? cr_len bs))%bool with true by lia.
  destruct (nth_error bs (Z.to_nat i)) eqn:E; [eauto|].
  apply nth_error_None in E. unfold cr_len in H. lia.
Qed.

Lemma cr_slice_ok bs lo hi : 0 <= lo -> lo <= hi -> hi <= cr_len bs ->
  exists l, cr_slice bs lo hi = Ok l /\ length l = Z.to_nat (hi - lo).
Proof.
  intros H1 H2 H3. unfold cr_slice.
  replace ((0 <=? lo) && (lo <=? hi) && (hi <=? cr_len bs))%bool with true by lia.
  eexists. split; [reflexivity|].
  rewrite firstn_length, skipn_length. unfold cr_len in H3. lia.
Qed.

Lemma cr_be16_ok l : (2 <= length l)%nat -> exists v, cr_be16 l = Ok v.
Proof.
  intros H. destruct l as [|a [|b r]]; cbn [length] in H; try lia.
  cbn [cr_be16]. eauto.
Qed.

Lemma cr_be32_ok l : (4 <= length l)%nat -> exists v, cr_be32 l = Ok v.
Proof.
  intros H. destruct l as [|a [|b [|c [|d r]]]]; cbn [length] in H; try lia.
  cbn [cr_be32]. eauto.
Qed.

(* ================================================================== avc *)
Definition b2z (b : bool) : Z := if b then 1 else 0.

(* The parameter-set loop from any state inside the record, for ANY count n: it returns (with or
   without the error flag), stays inside the record, does at most one iteration per two bytes
   consumed plus the failing one, and what it appended fits in what it consumed. *)
Lemma avc_ps_loop_total : forall fuel data i n pos acc t,
  0 <= pos <= cr_len data -> cr_len data - pos < Z.of_nat fuel ->
  exists fl pos' acc' t',
    avc_ps_loop fuel data i n pos acc t = Ok (fl, pos', acc', t') /\
    pos <= pos' <= cr_len data /\
    Z.of_N (cr_cost acc') - Z.of_N (cr_cost acc) <= pos' - pos /\
    Z.of_N t <= Z.of_N t' /\
    2 * (Z.of_N t' - Z.of_N t) <= pos' - pos + 2 * b2z fl /\
    Z.of_N (lenN acc') - Z.of_N (lenN acc) <= Z.of_N t' - Z.of_N t.
Proof.
  induction fuel as [|f IH]; intros data i n pos acc t Hp Hf.
  - lia.
  - cbn [avc_ps_loop]. destruct (i <? n) eqn:Hi.
    + destruct (pos + 2 >? cr_len data) eqn:H2.
      * exists true, pos, acc, (t + 1)%N. split; [reflexivity|]. cbn [b2z]. lia.
      * destruct (cr_slice_ok data pos (pos + 2)) as (hdr & -> & Hl); try lia.
        cbn [rbind]. destruct (cr_be16_ok hdr) as (nl & ->); [lia|].
        cbn [rbind].
        destruct (pos + 2 + Z.of_N nl >? cr_len data) eqn:H3.
        -- exists true, (pos + 2), acc, (t + 1)%N. split; [reflexivity|]. cbn [b2z]. lia.
        -- destruct (cr_slice_ok data (pos + 2) (pos + 2 + Z.of_N nl)) as (nalu & -> & Hn); try lia.
           cbn [rbind].
           destruct (IH data (i + 1) n (pos + 2 + Z.of_N nl) (nalu :: acc) (t + 1)%N)
             as (fl & pos' & acc' & t' & -> & Hp' & Hc & Ht & Hk & Hln); try lia.
           exists fl, pos', acc', t'. split; [reflexivity|].
           rewrite cr_cost_cons in Hc. rewrite lenN_cons in Hln.
           assert (Z.of_N (lenN nalu) = Z.of_N nl) by (unfold lenN; lia).
           lia.
    + exists false, pos, acc, t. split; [reflexivity|]. cbn [b2z]. lia.
Qed.

Definition avc_rec_bounds (data : list N) (r : avc_rec) (t : N) : Prop :=
  (2 * t + 7 <= lenN data)%N /\
  (lenN (ar_sps r) + lenN (ar_pps r) <= t)%N /\
  (7 + cr_cost (ar_sps r) + cr_cost (ar_pps r) <= lenN data)%N.

Lemma avc_confrec_total data :
  avc_decode_dec_conf_rec data = Err \/
  exists r t, avc_decode_dec_conf_rec data = Ok (r, t) /\ avc_rec_bounds data r t.
Proof.
  unfold avc_decode_dec_conf_rec.
  destruct (cr_len data <? 6) eqn:H6; [left; reflexivity|].
  destruct (cr_idx_ok data 0) as (ver & ->); [lia|]. cbn [rbind].
  destruct (negb (ver =? 1)%N); [left; reflexivity|].
  destruct (cr_idx_ok data 1) as (prof & ->); [lia|]. cbn [rbind].
  destruct (cr_idx_ok data 2) as (compat & ->); [lia|]. cbn [rbind].
  destruct (cr_idx_ok data 3) as (level & ->); [lia|]. cbn [rbind].
  destruct (cr_idx_ok data 4) as (b4 & ->); [lia|]. cbn [rbind].
  destruct (negb (N.land b4 3 =? 3)%N); [left; reflexivity|].
  destruct (cr_idx_ok data 5) as (b5 & ->); [lia|]. cbn [rbind].
  destruct (avc_ps_loop_total (cr_fuel data) data 0 (Z.of_N (N.land b5 31)) 6 [] 0%N)
    as (fl1 & pos1 & sps & t1 & -> & Hp1 & Hc1 & Ht1 & Hk1 & Hl1).
  { lia. }
  { unfold cr_fuel, cr_len. lia. }
  cbn [rbind]. destruct fl1; [left; reflexivity|].
  destruct (pos1 >=? cr_len data) eqn:Hge; [left; reflexivity|].
  destruct (cr_idx_ok data pos1) as (npps & ->); [lia|]. cbn [rbind].
  destruct (avc_ps_loop_total (cr_fuel data) data 0 (Z.of_N npps) (pos1 + 1) [] t1)
    as (fl2 & pos2 & pps & t2 & -> & Hp2 & Hc2 & Ht2 & Hk2 & Hl2).
  { lia. }
  { unfold cr_fuel, cr_len. lia. }
  cbn [rbind]. destruct fl2; [left; reflexivity|].
  cbn [b2z] in Hk1, Hk2. rewrite cr_cost_nil in Hc1, Hc2. rewrite lenN_nil in Hl1, Hl2.
  assert (Hb : forall c l ch e nt,
             avc_rec_bounds data (mkAvcRec prof compat level (rev sps) (rev pps) c l ch e nt) t2).
  { intros. unfold avc_rec_bounds. cbn [ar_sps ar_pps].
    rewrite !cr_cost_rev, !lenN_rev. rewrite cr_len_lenN in *. lia. }
  destruct (avc_no_trailer_profile prof).
  { right. eexists _, _. split; [reflexivity|]. apply Hb. }
  destruct (pos2 =? cr_len data) eqn:He.
  { right. eexists _, _. split; [reflexivity|]. apply Hb. }
  destruct (pos2 + 4 >? cr_len data) eqn:H4; [left; reflexivity|].
  destruct (cr_idx_ok data pos2) as (c & ->); [lia|]. cbn [rbind].
  destruct (cr_idx_ok data (pos2 + 1)) as (l & ->); [lia|]. cbn [rbind].
  destruct (cr_idx_ok data (pos2 + 2)) as (ch & ->); [lia|]. cbn [rbind].
  destruct (cr_idx_ok data (pos2 + 3)) as (e & ->); [lia|]. cbn [rbind].
  destruct (negb (e =? 0)%N); [left; reflexivity|].
  right. eexists _, _. split; [reflexivity|]. apply Hb.
Qed.

(* ================================================================== bits.FixedSliceReader *)
Definition fsr_wf (data : list N) (s : fsr) : Prop := 0 <= fs_pos s <= cr_len data.

(* a read of k bytes: the position stays inside the slice; the accumulated error is sticky; when no
   error is set afterwards none was set before and exactly k bytes have been consumed *)
Definition fsr_step (data : list N) (k : Z) (s s' : fsr) : Prop :=
  fsr_wf data s' /\ fs_pos s <= fs_pos s' <= fs_pos s + k /\
  (fs_err s' = false -> fs_err s = false /\ fs_pos s' = fs_pos s + k).

Lemma fsr_read_u8_ok data s : fsr_wf data s ->
  exists v s', fsr_read_u8 data s = Ok (v, s') /\ fsr_step data 1 s s'.
Proof.
  destruct s as [e p]. unfold fsr_step, fsr_wf, fsr_read_u8. cbn [fs_err fs_pos]. intros Hw.
  destruct e.
  { eexists _, _. split; [reflexivity|]. cbn [fs_err fs_pos]. lia. }
  destruct (p >? cr_len data - 1) eqn:H.
  { eexists _, _. split; [reflexivity|]. cbn [fs_err fs_pos]. lia. }
  destruct (cr_idx_ok data p) as (b & ->); [lia|]. cbn [rbind].
  eexists _, _. split; [reflexivity|]. cbn [fs_err fs_pos]. lia.
Qed.

Lemma fsr_read_u16_ok data s : fsr_wf data s ->
  exists v s', fsr_read_u16 data s = Ok (v, s') /\ fsr_step data 2 s s'.
Proof.
  destruct s as [e p]. unfold fsr_step, fsr_wf, fsr_read_u16. cbn [fs_err fs_pos]. intros Hw.
  destruct e.
  { eexists _, _. split; [reflexivity|]. cbn [fs_err fs_pos]. lia. }
  destruct (p >? cr_len data - 2) eqn:H.
  { eexists _, _. split; [reflexivity|]. cbn [fs_err fs_pos]. lia. }
  destruct (cr_slice_ok data p (p + 2)) as (b & -> & Hl); try lia. cbn [rbind].
  destruct (cr_be16_ok b) as (v & ->); [lia|]. cbn [rbind].
  eexists _, _. split; [reflexivity|]. cbn [fs_err fs_pos]. lia.
Qed.

Lemma fsr_read_u32_ok data s : fsr_wf data s ->
  exists v s', fsr_read_u32 data s = Ok (v, s') /\ fsr_step data 4 s s'.
Proof.
  destruct s as [e p]. unfold fsr_step, fsr_wf, fsr_read_u32. cbn [fs_err fs_pos]. intros Hw.
  destruct e.
  { eexists _, _. split; [reflexivity|]. cbn [fs_err fs_pos]. lia. }
  destruct (p >? cr_len data - 4) eqn:H.
  { eexists _, _. split; [reflexivity|]. cbn [fs_err fs_pos]. lia. }
  destruct (cr_slice_ok data p (p + 4)) as (b & -> & Hl); try lia. cbn [rbind].
  destruct (cr_be32_ok b) as (v & ->); [lia|]. cbn [rbind].
  eexists _, _. split; [reflexivity|]. cbn [fs_err fs_pos]. lia.
Qed.

Lemma fsr_read_bytes_ok data s n : fsr_wf data s -> 0 <= n ->
  exists b s', fsr_read_bytes data s n = Ok (b, s') /\ fsr_step data n s s' /\
    Z.of_N (lenN b) <= fs_pos s' - fs_pos s /\
    (fs_err s' = false -> Z.of_N (lenN b) = n).
Proof.
  destruct s as [e p]. unfold fsr_step, fsr_wf, fsr_read_bytes. cbn [fs_err fs_pos]. intros Hw Hn.
  replace (n <? 0) with false by lia.
  destruct e.
  { eexists _, _. split; [reflexivity|]. cbn [fs_err fs_pos]. rewrite lenN_nil. lia. }
  destruct (p >? cr_len data - n) eqn:H.
  { eexists _, _. split; [reflexivity|]. cbn [fs_err fs_pos]. rewrite lenN_nil. lia. }
  destruct (cr_slice_ok data p (p + n)) as (b & -> & Hl); try lia. cbn [rbind].
  eexists _, _. split; [reflexivity|]. cbn [fs_err fs_pos].
  assert (Z.of_N (lenN b) = n) by (unfold lenN; lia). lia.
Qed.

(* ================================================================== hevc *)
Lemma hevc_nalu_loop_total : forall fuel data i n s acc t,
  fsr_wf data s -> cr_len data - fs_pos s < Z.of_nat fuel ->
  exists early s' acc' t',
    hevc_nalu_loop fuel data i n s acc t = Ok (early, s', acc', t') /\
    fsr_wf data s' /\ fs_pos s <= fs_pos s' /\
    (fs_err s' = false -> fs_err s = false) /\
    (early = true -> fs_err s' = true) /\
    Z.of_N t <= Z.of_N t' /\
    2 * (Z.of_N t' - Z.of_N t) <= fs_pos s' - fs_pos s + 2 * b2z early /\
    Z.of_N (cr_cost acc') - Z.of_N (cr_cost acc) <= fs_pos s' - fs_pos s + 2 * b2z early /\
    Z.of_N (cr_bytes acc') - Z.of_N (cr_bytes acc) <= fs_pos s' - fs_pos s /\
    Z.of_N (lenN acc') - Z.of_N (lenN acc) <= Z.of_N t' - Z.of_N t.
Proof.
  induction fuel as [|f IH]; intros data i n s acc t Hw Hf.
  - unfold fsr_wf in Hw. lia.
  - cbn [hevc_nalu_loop]. destruct (i <? n) eqn:Hi.
    + destruct (fsr_read_u16_ok data s Hw) as (nl & s1 & -> & Hw1 & Hp1 & He1). cbn [rbind].
      destruct (fsr_read_bytes_ok data s1 (Z.of_N nl) Hw1) as (b & s2 & -> & (Hw2 & Hp2 & He2) & Hb & Hbl); [lia|].
      cbn [rbind].
      destruct (fs_err s2) eqn:E2.
      * exists true, s2, (b :: acc), (t + 1)%N. split; [reflexivity|].
        rewrite cr_cost_cons, cr_bytes_cons, lenN_cons, E2. cbn [b2z]. unfold fsr_wf in *. lia.
      * destruct He2 as (E1 & Hq2); [reflexivity|]. destruct (He1 E1) as (E0 & Hq1).
        destruct (IH data (i + 1) n s2 (b :: acc) (t + 1)%N Hw2)
          as (early & s' & acc' & t' & -> & Hw' & Hp' & He' & Hearly & Ht & Hk & Hc & Hby & Hln).
        { unfold fsr_wf in *. lia. }
        exists early, s', acc', t'. split; [reflexivity|].
        rewrite cr_cost_cons in Hc. rewrite cr_bytes_cons in Hby. rewrite lenN_cons in Hln.
        specialize (Hbl eq_refl).
        unfold fsr_wf in *. repeat split; try lia; try assumption. intros _. exact E0.
    + exists false, s, acc, t. split; [reflexivity|]. cbn [b2z]. unfold fsr_wf in *.
      repeat split; try lia; try (intros; assumption); try discriminate.
Qed.

(* record bytes / NAL unit bytes / NAL unit count of a list of arrays *)
Definition hevc_arrs_cost (a : list (N * list (list N))) : N := sumN (map (fun x => 3 + cr_cost (snd x))%N a).
Definition hevc_arrs_bytes (a : list (N * list (list N))) : N := sumN (map (fun x => cr_bytes (snd x)) a).
Definition hevc_arrs_units (a : list (N * list (list N))) : N := sumN (map (fun x => lenN (snd x)) a).

Lemma hevc_arrs_cost_cons ct l a : hevc_arrs_cost ((ct, l) :: a) = (3 + cr_cost l + hevc_arrs_cost a)%N.
Proof. reflexivity. Qed.
Lemma hevc_arrs_bytes_cons ct l a : hevc_arrs_bytes ((ct, l) :: a) = (cr_bytes l + hevc_arrs_bytes a)%N.
Proof. reflexivity. Qed.
Lemma hevc_arrs_units_cons ct l a : hevc_arrs_units ((ct, l) :: a) = (lenN l + hevc_arrs_units a)%N.
Proof. reflexivity. Qed.

Lemma hevc_arrs_cost_rev a : hevc_arrs_cost (rev a) = hevc_arrs_cost a.
Proof. unfold hevc_arrs_cost. rewrite map_rev. apply sumN_rev. Qed.
Lemma hevc_arrs_bytes_rev a : hevc_arrs_bytes (rev a) = hevc_arrs_bytes a.
Proof. unfold hevc_arrs_bytes. rewrite map_rev. apply sumN_rev. Qed.
Lemma hevc_arrs_units_rev a : hevc_arrs_units (rev a) = hevc_arrs_units a.
Proof. unfold hevc_arrs_units. rewrite map_rev. apply sumN_rev. Qed.

Lemma hevc_array_loop_total : forall fuel data j n s arrs t,
  fsr_wf data s -> Z.max 0 (n - j) < Z.of_nat fuel ->
  exists early s' arrs' t' dropped,
    hevc_array_loop fuel data j n s arrs t = Ok (early, s', arrs', t', dropped) /\
    fsr_wf data s' /\ fs_pos s <= fs_pos s' /\
    (fs_err s' = false -> fs_err s = false) /\
    (early = true -> fs_err s' = true) /\
    (early = false -> dropped = []) /\
    Z.of_N t <= Z.of_N t' /\
    2 * (Z.of_N t' - Z.of_N t) <= 2 * Z.max 0 (n - j) + (fs_pos s' - fs_pos s) + 2 * b2z early /\
    (fs_err s' = false ->
       Z.of_N (hevc_arrs_cost arrs') - Z.of_N (hevc_arrs_cost arrs) <= fs_pos s' - fs_pos s) /\
    Z.of_N (hevc_arrs_bytes arrs') + Z.of_N (cr_bytes dropped) - Z.of_N (hevc_arrs_bytes arrs)
      <= fs_pos s' - fs_pos s /\
    Z.of_N (hevc_arrs_units arrs') + Z.of_N (lenN dropped) - Z.of_N (hevc_arrs_units arrs)
      <= Z.of_N t' - Z.of_N t /\
    Z.of_N (lenN arrs') - Z.of_N (lenN arrs) <= Z.max 0 (n - j).
Proof.
  induction fuel as [|f IH]; intros data j n s arrs t Hw Hf.
  - lia.
  - cbn [hevc_array_loop]. destruct (j <? n) eqn:Hj.
    + destruct (fsr_read_u8_ok data s Hw) as (ct & s1 & -> & Hw1 & Hp1 & He1). cbn [rbind].
      destruct (fsr_read_u16_ok data s1 Hw1) as (nn & s2 & -> & Hw2 & Hp2 & He2). cbn [rbind].
      destruct (hevc_nalu_loop_total (cr_fuel data) data 0 (Z.of_N nn) s2 [] (t + 1)%N Hw2)
        as (early & s3 & nalus & t3 & -> & Hw3 & Hp3 & He3 & Hearly & Ht3 & Hk3 & Hc3 & Hb3 & Hl3).
      { unfold fsr_wf, cr_fuel, cr_len in *. lia. }
      cbn [rbind]. rewrite cr_cost_nil in Hc3. change (cr_bytes []) with 0%N in Hb3.
      rewrite lenN_nil in Hl3.
      destruct early.
      * exists true, s3, arrs, t3, nalus. split; [reflexivity|].
        assert (E3 : fs_err s3 = true) by (apply Hearly; reflexivity). rewrite E3.
        cbn [b2z] in *. unfold fsr_wf in *.
        repeat split; try lia; try discriminate.
      * destruct (IH data (j + 1) n s3 ((ct, rev nalus) :: arrs) t3 Hw3)
          as (early & s' & arrs' & t' & dropped & -> & Hw' & Hp' & He' & Hearly' & Hdrop & Ht' & Hk' & Hc' & Hb' & Hu' & Hn').
        { lia. }
        exists early, s', arrs', t', dropped. split; [reflexivity|].
        rewrite hevc_arrs_cost_cons, cr_cost_rev in Hc'.
        rewrite hevc_arrs_bytes_cons, cr_bytes_rev in Hb'.
        rewrite hevc_arrs_units_cons, lenN_rev in Hu'.
        rewrite lenN_cons in Hn'.
        cbn [b2z] in *. unfold fsr_wf in *.
        repeat split; try assumption; try lia.
        -- intros E'. apply He1, He2, He3, He', E'.
        -- intros E'. specialize (Hc' E').
           destruct (He2 (He3 (He' E'))) as (E1 & Hq2). destruct (He1 E1) as (_ & Hq1). lia.
    + exists false, s, arrs, t, []. split; [reflexivity|].
      cbn [b2z]. unfold fsr_wf in *. change (cr_bytes []) with 0%N. change (@lenN (list N) []) with 0%N.
      repeat split; try lia; try (intros; assumption); try discriminate.
Qed.

(* what holds of EVERY result of the HEVC decoder, error paths included (Go returns the partly filled
   record together with the error; `dropped` = units appended to the array abandoned by the early return) *)
Definition hevc_full_bounds (data : list N) (r : hevc_rec) (e : bool) (t : N) (dropped : list (list N)) : Prop :=
  (lenN (hr_arrays r) <= 255)%N /\
  (2 * t <= lenN data + 512)%N /\
  (hevc_arrs_units (hr_arrays r) + lenN dropped <= t)%N /\
  (hevc_arrs_bytes (hr_arrays r) + cr_bytes dropped <= lenN data)%N /\
  (e = false -> dropped = [] /\ (23 + hevc_arrs_cost (hr_arrays r) <= lenN data)%N).

Lemma hevc_full_bounds_nil data r : hr_arrays r = [] -> hevc_full_bounds data r true 0 [].
Proof.
  intros Hr. unfold hevc_full_bounds. rewrite Hr.
  change (hevc_arrs_units []) with 0%N. change (hevc_arrs_bytes []) with 0%N.
  change (cr_bytes []) with 0%N. change (@lenN (list N) []) with 0%N.
  change (@lenN (N * list (list N)) []) with 0%N.
  repeat split; try lia; try discriminate.
Qed.

Ltac fsr_rd lem Hw v s' Hw' Hp' He' :=
  match type of Hw with
  | fsr_wf ?d ?s =>
      destruct (lem d s Hw) as (v & s' & -> & Hw' & Hp' & He'); cbn [rbind]
  end.

Lemma hevc_full_total data :
  exists r e t dropped,
    hevc_decode_full data = Ok (r, e, t, dropped) /\ hevc_full_bounds data r e t dropped.
Proof.
  unfold hevc_decode_full.
  assert (Hw0 : fsr_wf data fsr_init).
  { unfold fsr_wf, fsr_init. cbn [fs_pos]. pose proof (cr_len_nonneg data). lia. }
  assert (Hq0 : fs_pos fsr_init = 0) by reflexivity.
  fsr_rd fsr_read_u8_ok Hw0 ver s1 Hw1 Hp1 He1.
  destruct (negb (ver =? 1)%N).
  { eexists _, _, _, _. split; [reflexivity|]. apply hevc_full_bounds_nil. reflexivity. }
  fsr_rd fsr_read_u8_ok Hw1 a s2 Hw2 Hp2 He2.
  fsr_rd fsr_read_u32_ok Hw2 compat s3 Hw3 Hp3 He3.
  fsr_rd fsr_read_u32_ok Hw3 chi s4 Hw4 Hp4 He4.
  fsr_rd fsr_read_u16_ok Hw4 clo s5 Hw5 Hp5 He5.
  fsr_rd fsr_read_u8_ok Hw5 level s6 Hw6 Hp6 He6.
  fsr_rd fsr_read_u16_ok Hw6 mss s7 Hw7 Hp7 He7.
  fsr_rd fsr_read_u8_ok Hw7 par s8 Hw8 Hp8 He8.
  fsr_rd fsr_read_u8_ok Hw8 chroma s9 Hw9 Hp9 He9.
  fsr_rd fsr_read_u8_ok Hw9 bdl s10 Hw10 Hp10 He10.
  fsr_rd fsr_read_u8_ok Hw10 bdc s11 Hw11 Hp11 He11.
  fsr_rd fsr_read_u16_ok Hw11 afr s12 Hw12 Hp12 He12.
  fsr_rd fsr_read_u8_ok Hw12 b s13 Hw13 Hp13 He13.
  destruct (negb (N.land b 3 =? 3)%N).
  { eexists _, _, _, _. split; [reflexivity|]. apply hevc_full_bounds_nil. reflexivity. }
  fsr_rd fsr_read_u8_ok Hw13 na s14 Hw14 Hp14 He14.
  destruct (hevc_array_loop_total hevc_array_fuel data 0 (Z.of_N (u8 na)) s14 [] 0%N Hw14)
    as (early & s' & arrs & t & dropped & -> & Hw' & Hp' & He' & Hearly & Hdrop & Ht & Hk & Hc & Hb & Hu & Hn).
  { unfold hevc_array_fuel, u8. lia. }
  cbn [rbind].
  eexists _, _, _, _. split; [reflexivity|].
  unfold hevc_full_bounds. cbn [hr_arrays].
  rewrite lenN_rev, hevc_arrs_units_rev, hevc_arrs_bytes_rev, hevc_arrs_cost_rev.
  change (hevc_arrs_units []) with 0%N in Hu. change (hevc_arrs_bytes []) with 0%N in Hb.
  change (hevc_arrs_cost []) with 0%N in Hc. change (@lenN (N * list (list N)) []) with 0%N in Hn.
  assert (Hna : Z.of_N (u8 na) <= 255) by (unfold u8; lia).
  assert (Hbe : b2z early <= 1) by (destruct early; cbn [b2z]; lia).
  unfold fsr_wf in *. rewrite cr_len_lenN in *.
  repeat split; try lia.
  - destruct early; [|apply Hdrop; reflexivity].
    rewrite (Hearly eq_refl) in H. discriminate.
  - specialize (Hc H). pose proof (He' H) as E14.
    repeat match goal with
           | E : fs_err ?s = false, H2 : fs_err ?s = false -> _ /\ _ |- _ =>
               let E' := fresh "E" in let Q := fresh "Q" in destruct (H2 E) as [E' Q]; clear H2
           end.
    lia.
Qed.

Lemma hevc_confrec_total data :
  hevc_decode_dec_conf_rec data = Err \/
  exists r t, hevc_decode_dec_conf_rec data = Ok (r, t) /\
    (lenN (hr_arrays r) <= 255)%N /\ (2 * t <= lenN data + 512)%N /\
    (hevc_arrs_units (hr_arrays r) <= t)%N /\
    (23 + hevc_arrs_cost (hr_arrays r) <= lenN data)%N.
Proof.
  unfold hevc_decode_dec_conf_rec.
  destruct (hevc_full_total data) as (r & e & t & dropped & -> & Hl & Ht & Hu & Hb & He).
  cbn [rbind]. destruct e; [left; reflexivity|].
  right. exists r, t. split; [reflexivity|].
  destruct (He eq_refl) as (-> & Hc). change (@lenN (list N) []) with 0%N in Hu.
  repeat split; try lia.
Qed.

(* The number of arrays is NOT bounded by the input length: 23 bytes announcing 255 arrays give 255
   (empty) arrays, returned together with the read error.  255 is the bound (hevc_full_bounds). *)
Lemma hevc_arrays_le_len_refuted :
  exists data r e t d, hevc_decode_full data = Ok (r, e, t, d) /\ e = true /\
    (lenN data = 23)%N /\ (lenN (hr_arrays r) = 255)%N.
Proof.
  exists [1;0;0;0;0;0;0;0;0;0;0;0;0;0;0;0;0;0;0;0;0;3;255]%N.
  eexists _, _, _, _. split; [vm_compute; reflexivity|]. split; [reflexivity|]. split; reflexivity.
Qed.

(* ================================================================== av1 *)
Lemma av1_confrec_total data :
  av1_decode_codec_conf_rec data = Err \/
  exists r, av1_decode_codec_conf_rec data = Ok r /\ (4 + lenN (av_config_obus r) = lenN data)%N.
Proof.
  unfold av1_decode_codec_conf_rec.
  destruct (cr_len data <? 4) eqn:H4; [left; reflexivity|].
  destruct (cr_idx_ok data 0) as (b0 & ->); [lia|]. cbn [rbind].
  destruct (negb (N.shiftr b0 7 =? 1)%N); [left; reflexivity|].
  destruct (negb (N.land b0 127 =? 1)%N); [left; reflexivity|].
  destruct (cr_idx_ok data 1) as (b1 & ->); [lia|]. cbn [rbind].
  destruct (cr_idx_ok data 2) as (b2 & ->); [lia|]. cbn [rbind].
  destruct (cr_idx_ok data 3) as (b3 & ->); [lia|]. cbn [rbind].
  destruct (negb (N.shiftr b3 5 =? 0)%N); [left; reflexivity|].
  destruct (negb (N.land (N.shiftr b3 4) 1 =? 1)%N && negb (N.land b3 15 =? 0)%N); [left; reflexivity|].
  destruct (cr_len data >? 4) eqn:Hg.
  - destruct (cr_slice_ok data 4 (cr_len data)) as (obus & -> & Hl); try lia. cbn [rbind].
    right. eexists. split; [reflexivity|]. cbn [av_config_obus].
    rewrite cr_len_lenN in *. unfold lenN in *. lia.
  - cbn [rbind]. right. eexists. split; [reflexivity|]. cbn [av_config_obus].
    rewrite cr_len_lenN in *. change (@lenN N []) with 0%N. lia.
Qed.
