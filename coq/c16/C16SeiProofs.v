(* C16SeiProofs.v — the guarded count-driven loop (du_loop) and sei.DecodePicTimingHevcSEI are total
   for every payload, every parameter set and EVERY count (also 2^32-1): at most bits+1 iterations,
   at most that many appends. No axioms. *)
From V.lib Require Import Base.
From V.c13 Require Import C13Model.
From V.c16 Require Import C16Model C16WalkProofs C16ReaderProofs.

(* reader state reachable in a parser: sticky error, or well-formed *)
Definition rok (s : rstate) : Prop := rerr s = true \/ rwf s.

Lemma rok_init data : rok (rinit data).
Proof. right. apply rwf_init. Qed.

Lemma read_rok s n : rok s ->
  rok (snd (read s n)) /\ rdata (snd (read s n)) = rdata s /\
  (rerr (snd (read s n)) = false -> rerr s = false /\ bits_left (snd (read s n)) + n <= bits_left s).
Proof.
  intros H. destruct (rerr s) eqn:He.
  - unfold read. rewrite (read_gen_after_error true s n He). cbn [snd]. split; [exact H|]. split; [reflexivity|]. intros; congruence.
  - destruct H as [H|H]; [congruence|].
    pose proof (read_gen_inv true s n H He) as Hi. unfold read.
    destruct (read_gen true s n) as [v s1]. cbn [snd]. destruct Hi as (Hd & Hr).
    split; [|split; [exact Hd|]].
    + destruct Hr as [Hr|(_ & Hr & _)]; [left; exact Hr|right; exact Hr].
    + intros Hf. destruct Hr as [Hr|(_ & _ & Hr)]; [congruence|]. split; [reflexivity|exact Hr].
Qed.

Lemma read_flag_rok s : rok s -> rok (snd (read_flag s)) /\ rdata (snd (read_flag s)) = rdata s.
Proof.
  intros H. unfold read_flag. pose proof (read_rok s 1 H) as (H1 & H2 & _).
  destruct (read s 1) as [v s1]. cbn [snd] in *. auto.
Qed.

Lemma read_ue_rok s : rok s ->
  rok (snd (read_ue s)) /\ rdata (snd (read_ue s)) = rdata s /\
  (rerr (snd (read_ue s)) = false -> rerr s = false /\ bits_left (snd (read_ue s)) < bits_left s).
Proof.
  intros H. destruct (rerr s) eqn:He.
  - rewrite (read_ue_after_error s He). cbn [snd]. split; [exact H|]. split; [reflexivity|]. intros; congruence.
  - destruct H as [H|H]; [congruence|].
    destruct (read_ue_total s H He) as (lz & s1 & _ & _ & Hi).
    destruct (read_ue s) as [v s2]. cbn [snd]. destruct Hi as (Hd & Hr).
    split; [|split; [exact Hd|]].
    + destruct Hr as [Hr|(_ & Hr & _)]; [left; exact Hr|right; exact Hr].
    + intros Hf. destruct Hr as [Hr|(_ & _ & Hr)]; [congruence|]. split; [reflexivity|exact Hr].
Qed.

(* ---------- the guarded loop ---------- *)
Lemma du_loop_total : forall fuel count i common w s nal inc t,
    rok s -> (rerr s = false -> bits_left s + 1 < N.of_nat fuel) -> (0 < fuel)%nat ->
    exists nal' inc' s' t',
      du_loop fuel count i common w s nal inc t = Ok (nal', inc', s', t') /\
      rdata s' = rdata s /\ t <= t' /\
      (rerr s = false -> t' - t <= bits_left s + 1) /\ (rerr s = true -> t' - t <= 1) /\
      lenN nal' <= lenN nal + (t' - t) /\ lenN inc' <= lenN inc + (t' - t).
Proof.
  induction fuel as [|f IH]; intros count i common w s nal inc t Hs Hf Hpos; [lia|].
  cbn [du_loop]. destruct (i <=? count) eqn:Hc.
  2:{ exists nal, inc, s, t. split; [reflexivity|]. replace (t - t) with 0 by lia. repeat split; lia. }
  pose proof (read_ue_rok s Hs) as (Hu1 & Hu2 & Hu3).
  destruct (read_ue s) as [v s1]. cbn [snd] in *.
  set (cond := negb common && (i <? count)).
  assert (Hstep : exists inc1 s2, (if cond then let '(x, s2) := read s1 w in (u32 x :: inc, s2) else (inc, s1)) = (inc1, s2)
            /\ rok s2 /\ rdata s2 = rdata s /\ lenN inc1 <= lenN inc + 1 /\
            (rerr s2 = false -> rerr s = false /\ bits_left s2 < bits_left s)).
  { destruct cond.
    - pose proof (read_rok s1 w Hu1) as (Hr1 & Hr2 & Hr3).
      destruct (read s1 w) as [x s2]. cbn [snd] in *. exists (u32 x :: inc), s2.
      split; [reflexivity|]. split; [exact Hr1|]. split; [congruence|]. split; [rewrite lenN_cons; lia|].
      intros Hf2. destruct (Hr3 Hf2) as (Ha & Hb). destruct (Hu3 Ha) as (Hc1 & Hc2). split; [exact Hc1|lia].
    - exists inc, s1. split; [reflexivity|]. split; [exact Hu1|]. split; [exact Hu2|]. split; [lia|]. exact Hu3. }
  destruct Hstep as (inc1 & s2 & -> & Hok2 & Hd2 & Hl2 & Hb2).
  destruct (rerr s2) eqn:He2.
  - exists (u32 v :: nal), inc1, s2, (t + 1). split; [reflexivity|]. split; [exact Hd2|].
    replace (t + 1 - t) with 1 by lia. rewrite lenN_cons. repeat split; try lia.
  - destruct (Hb2 eq_refl) as (Hes & Hlt).
    destruct (IH count (i + 1) common w s2 (u32 v :: nal) inc1 (t + 1) Hok2) as
        (nal' & inc' & s' & t' & Hl & Hd & Ht & Hb & _ & Hn & Hi).
    { intros _. specialize (Hf Hes). lia. }
    { specialize (Hf Hes). lia. }
    exists nal', inc', s', t'. split; [exact Hl|]. split; [congruence|]. split; [lia|].
    specialize (Hb He2). rewrite lenN_cons in Hn.
    split; [intros _; lia|]. split; [intros Hx; congruence|]. split; lia.
Qed.

Lemma du_fuel_enough data s : rdata s = data -> rok s -> rerr s = false ->
  bits_left s + 1 < N.of_nat (du_fuel data).
Proof.
  intros Hd [H|[Hp Hn]] He; [congruence|]. unfold bits_left, du_fuel, lenN in *. rewrite Hd in *. lia.
Qed.

(* ---------- the whole decoder ---------- *)
Lemma decode_pic_timing_hevc_total p payload :
  exists fields nal inc e t,
    decode_pic_timing_hevc p payload = Ok (fields, nal, inc, e, t) /\
    t <= 8 * lenN payload + 8 /\ lenN nal <= t /\ lenN inc <= t.
Proof.
  unfold decode_pic_timing_hevc.
  (* the state after the optional frame-field info *)
  assert (H0 : exists ps sst dup s0,
     (if hp_ffi p then
        let '(a, s) := read (rinit payload) 4 in let '(b, s) := read s 2 in let '(c, s) := read_flag s in
        (u8 a, u8 b, c, s)
      else (0, 0, false, rinit payload)) = (ps, sst, dup, s0) /\ rok s0 /\ rdata s0 = payload).
  { destruct (hp_ffi p).
    - pose proof (read_rok (rinit payload) 4 (rok_init payload)) as (A1 & A2 & _).
      destruct (read (rinit payload) 4) as [a s1]. cbn [snd] in *.
      pose proof (read_rok s1 2 A1) as (B1 & B2 & _). destruct (read s1 2) as [b s2]. cbn [snd] in *.
      pose proof (read_flag_rok s2 B1) as (C1 & C2). destruct (read_flag s2) as [c s3]. cbn [snd] in *.
      eexists _, _, _, _. split; [reflexivity|]. split; [exact C1|].
      rewrite C2, B2, A2. reflexivity.
    - eexists _, _, _, _. split; [reflexivity|]. split; [apply rok_init|reflexivity]. }
  destruct H0 as (ps & sst & dup & s0 & -> & Hok0 & Hd0).
  assert (Hz : forall f : list N, exists fields nal inc e t, Ok (f, @nil N, @nil N, rerr s0, 0) = Ok (fields, nal, inc, e, t) /\
             t <= 8 * lenN payload + 8 /\ lenN nal <= t /\ lenN inc <= t).
  { intros f. eexists _, _, _, _, _. split; [reflexivity|]. unfold lenN. cbn [length]. lia. }
  destruct (hp_cpb p); [|apply Hz].
  pose proof (read_rok s0 (hp_la p + 1) Hok0) as (A1 & A2 & _).
  destruct (read s0 (hp_la p + 1)) as [au s1]. cbn [snd] in *.
  pose proof (read_rok s1 (hp_lb p + 1) A1) as (B1 & B2 & _).
  destruct (read s1 (hp_lb p + 1)) as [dpb s2]. cbn [snd] in *.
  destruct (hp_subpic p).
  2:{ eexists _, _, _, _, _. split; [reflexivity|]. unfold lenN. cbn [length]. lia. }
  pose proof (read_rok s2 (hp_lc p + 1) B1) as (C1 & C2 & _).
  destruct (read s2 (hp_lc p + 1)) as [dud s3]. cbn [snd] in *.
  destruct (hp_subpic_in_pt p).
  2:{ eexists _, _, _, _, _. split; [reflexivity|]. unfold lenN. cbn [length]. lia. }
  pose proof (read_ue_rok s3 C1) as (D1 & D2 & _).
  destruct (read_ue s3) as [ndu s4]. cbn [snd] in *.
  pose proof (read_flag_rok s4 D1) as (E1 & E2).
  destruct (read_flag s4) as [common s5]. cbn [snd] in *.
  assert (H6 : exists cinc s6, (if common then read s5 (hp_ld p + 1) else (0, s5)) = (cinc, s6) /\ rok s6 /\ rdata s6 = rdata s5).
  { destruct common.
    - pose proof (read_rok s5 (hp_ld p + 1) E1) as (F1 & F2 & _).
      destruct (read s5 (hp_ld p + 1)) as [x s6]. cbn [snd] in *. eauto.
    - eauto. }
  destruct H6 as (cinc & s6 & -> & F1 & F2).
  assert (Hd6 : rdata s6 = payload) by congruence.
  destruct (du_loop_total (du_fuel payload) (u32 ndu) 0 common (hp_ld p + 1) s6 [] [] 0 F1)
    as (nal & inc & s' & t & -> & Hd & _ & Hb1 & Hb2 & Hn & Hi).
  { intros He. apply du_fuel_enough; assumption. }
  { unfold du_fuel. lia. }
  cbn [rbind]. eexists _, _, _, _, _. split; [reflexivity|].
  rewrite !lenN_rev. change (@lenN N []) with 0 in *. replace (t - 0) with t in * by lia.
  assert (Ht : t <= 8 * lenN payload + 8).
  { destruct (rerr s6) eqn:He.
    - specialize (Hb2 eq_refl). lia.
    - specialize (Hb1 eq_refl). destruct F1 as [F1|[Hp Hn6]]; [congruence|].
      unfold bits_left in Hb1. rewrite Hd6 in *. lia. }
  split; [exact Ht|]. split; lia.
Qed.

(* the unguarded shape of the pinned text: the same loop without `if AccError != nil { break }`.
   With an empty payload and a count of 2^20 it needs more than any fuel linear in the input. *)
Fixpoint du_loop_unguarded (fuel : nat) (count i : N) (s : rstate) (nal : list N) : res (list N) :=
  match fuel with
  | O => OutOfFuel
  | S f => if i <=? count then let '(v, s1) := read_ue s in du_loop_unguarded f count (i + 1) s1 (u32 v :: nal)
           else Ok nal
  end.

Lemma du_loop_unguarded_refuted :
  exists payload count, du_loop_unguarded (du_fuel payload * 100) count 0 (rinit payload) [] = OutOfFuel.
Proof. exists [], 1048576. vm_compute. reflexivity. Qed.
