(* C08FragModel.v — what DecodeFile builds out of the top-level boxes, in both decode modes:
     mp4/file.go   DecodeFile (the per-box checks of the LoopBoxes loop), File.AddChild,
                   File.startSegmentIfNeeded, File.AddSidx, File.AddMediaSegment
     mp4/mediasegment.go  AddSidx, AddFragment, LastFragment
     mp4/fragment.go      Fragment.AddChild
   i.e. isFragmented, Init, File.Mdat (progressive), Sidxs, Segments -> Fragments -> (Moof, Mdat, Children).
   The same Go text runs in both modes but on different mdat states (Data vs lazyDataSize); every decision
   that looks at an mdat goes through Size()/HeaderSize().  The machine is therefore written once, over an
   abstract mdat type M with  psz = Size()-HeaderSize()  and  asz = the box after a Size() call  (Size() may
   set LargeSize), and instantiated with the concrete box (C08SelModel.payload_size / after_size).
   Boxes other than mdat are decoded by the same Go decoder in both modes; what AddChild / the loop reads out
   of them (number of stts entries of the first trak of moov; AnchorPoint and references of a sidx) is an
   input `ax` indexed by the box's start position.  Not modelled: DecISMFlag (findAndReadMfra / tfra) and the
   senc parsing of moof (same code in both modes, no mdat involved).
   Lists that Go appends to are kept REVERSED (head = the most recently added element = LastSegment() /
   LastFragment()); `fin_*` puts them in file order.  Definitions only. *)
From V.lib Require Import Base.
From V.c08 Require Import C08Model C08SelModel.

Inductive aux :=
| ANone
| AMoov (stts_entries : option N)            (* firstTrakSttsEntries: None = chain incomplete *)
| ASidx (anchor : N) (refs : list (bool * N)). (* AnchorPoint; (ReferenceType == 1, ReferencedSize) *)

Definition n_ftyp : list N := [102;116;121;112].
Definition n_moov : list N := [109;111;111;118].
Definition n_sidx : list N := [115;105;100;120].
Definition n_styp : list N := [115;116;121;112].
Definition n_emsg : list N := [101;109;115;103].
Definition n_moof : list N := [109;111;111;102].
Definition n_mfra : list N := [109;102;114;97].

(* the sidxLoop of startSegmentIfNeeded *)
Fixpoint sidx_refs (pos segIdx startPos idx : N) (refs : list (bool * N)) : bool * N :=
  match refs with
  | [] => (false, idx)
  | (rt, sz) :: t =>
      if rt then (false, idx)                                   (* continue sidxLoop *)
      else if (pos =? startPos) && (idx =? segIdx) then (true, idx)
      else sidx_refs pos segIdx (u64 (startPos + sz)) (idx + 1) t
  end.

Fixpoint sidx_start (pos segIdx idx : N) (sidxs : list (N * list (bool * N))) : bool :=
  match sidxs with
  | [] => false
  | (anchor, refs) :: t =>
      let '(found, idx') := sidx_refs pos segIdx anchor idx refs in
      if found then true else sidx_start pos segIdx idx' t
  end.

Section Machine.
Variable M : Type.
Variable psz : M -> N.
Variable asz : M -> M.

Inductive tbox := XBox (name : list N) (startPos size : N) | XMdat (m : M) (size : N).

Definition tname (b : tbox) : list N := match b with XBox n _ _ => n | XMdat _ _ => name_mdat end.

(* Fragment: StartPos, Moof (its StartPos), Mdat, number of Emsgs, Children (reversed) *)
Record frag := mkFrag { fr_start : N; fr_moof : option N; fr_mdat : option M; fr_emsgs : N; fr_children : list tbox }.
(* MediaSegment: Styp != nil, StartPos, number of Sidxs, Fragments (reversed) *)
Record seg := mkSeg { sg_styp : bool; sg_start : N; sg_sidxs : N; sg_frags : list frag }.
Record fstate := mkFS {
  fs_frag : bool;                          (* isFragmented *)
  fs_ftyp : bool;                          (* Ftyp != nil *)
  fs_init : option (list (list N));        (* Init: types of its children *)
  fs_mdat : option M;                      (* File.Mdat *)
  fs_sidxs : list (N * list (bool * N));   (* File.Sidxs in file order (Sidx = the first) *)
  fs_segs : list seg;                      (* reversed *)
  fs_mfra : bool;
  fs_children : list tbox;                 (* reversed *)
  fs_last : list N }.                      (* lastBoxType *)

Definition fs0 : fstate := mkFS false false None None [] [] false [] [].

(* Fragment.AddChild *)
Definition frag_add (fr : frag) (b : tbox) : frag :=
  match b with
  | XMdat m _ => mkFrag (fr_start fr) (fr_moof fr) (Some m) (fr_emsgs fr) (b :: fr_children fr)
  | XBox n sp _ =>
      if eqb_list n n_emsg then mkFrag (fr_start fr) (fr_moof fr) (fr_mdat fr) (fr_emsgs fr + 1) (b :: fr_children fr)
      else if eqb_list n n_moof then mkFrag (fr_start fr) (Some sp) (fr_mdat fr) (fr_emsgs fr) (b :: fr_children fr)
      else mkFrag (fr_start fr) (fr_moof fr) (fr_mdat fr) (fr_emsgs fr) (b :: fr_children fr)
  end.

Definition set_segs (s : fstate) (frag : bool) (segs : list seg) : fstate :=
  mkFS frag (fs_ftyp s) (fs_init s) (fs_mdat s) (fs_sidxs s) segs (fs_mfra s) (fs_children s) (fs_last s).

(* startSegmentIfNeeded(b, boxStartPos); onmoof = fileDecFlags & DecStartOnMoof != 0 *)
Definition start_segment_if_needed (onmoof : bool) (s : fstate) (pos : N) : fstate :=
  let segIdx := lenN (fs_segs s) in
  let segStart :=
    match fs_sidxs s with
    | _ :: _ => sidx_start pos segIdx 0 (fs_sidxs s)
    | [] =>
        if onmoof then
          match fs_segs s with
          | [] => true
          | lastSeg :: _ =>
              negb (sg_styp lastSeg
                    || match sg_frags lastSeg with
                       | [] => false
                       | lastFrag :: _ => match fr_moof lastFrag with None => true | Some _ => false end
                       end)
          end
        else segIdx =? 0
    end in
  let segStart := segStart || (segIdx =? 0) in
  if segStart then set_segs s true (mkSeg false pos 0 [] :: fs_segs s) else s.

(* one iteration of the LoopBoxes loop after the box has been decoded: per-type checks, AddChild,
   lastBoxType.  ax = what the common decoder produced for the box at boxStartPos. *)
Definition frag_step (onmoof : bool) (ax : N -> aux) (s : fstate) (b0 : tbox) : res fstate :=
  (* boxType, boxSize := box.Type(), box.Size() *)
  let b := match b0 with XMdat m sz => XMdat (asz m) sz | _ => b0 end in
  let push (s' : fstate) : res fstate :=
    Ok (mkFS (fs_frag s') (fs_ftyp s') (fs_init s') (fs_mdat s') (fs_sidxs s') (fs_segs s') (fs_mfra s')
             (b :: fs_children s') (tname b)) in
  match b with
  | XMdat m _ =>
      if fs_frag s then
        if negb (eqb_list (fs_last s) n_moof) then Err           (* "does not support %v between moof and mdat" *)
        else
          match fs_segs s with
          | [] => Panic                                          (* f.LastSegment() == nil *)
          | sg :: segs =>
              match sg_frags sg with
              | [] => Panic                                      (* LastFragment() == nil *)
              | fr :: frs =>
                  push (set_segs s (fs_frag s) (mkSeg (sg_styp sg) (sg_start sg) (sg_sidxs sg) (frag_add fr b :: frs) :: segs))
              end
          end
      else
        match fs_mdat s with
        | None => push (mkFS (fs_frag s) (fs_ftyp s) (fs_init s) (Some m) (fs_sidxs s) (fs_segs s) (fs_mfra s)
                             (fs_children s) (fs_last s))
        | Some old =>
            if (0 <? psz old) && (0 <? psz m) then Err           (* "only one non-empty mdat box supported" *)
            else
              let keep := if psz old =? 0 then m else asz old in
              push (mkFS (fs_frag s) (fs_ftyp s) (fs_init s) (Some keep) (fs_sidxs s) (fs_segs s) (fs_mfra s)
                         (fs_children s) (fs_last s))
        end
  | XBox n pos _ =>
      if eqb_list n n_ftyp then
        push (mkFS (fs_frag s) true (fs_init s) (fs_mdat s) (fs_sidxs s) (fs_segs s) (fs_mfra s) (fs_children s) (fs_last s))
      else if eqb_list n n_moov then
        match ax pos with
        | AMoov (Some entries) =>
            if entries =? 0 then
              push (mkFS true (fs_ftyp s) (Some ((if fs_ftyp s then [n_ftyp] else []) ++ [n_moov])) (fs_mdat s)
                         (fs_sidxs s) (fs_segs s) (fs_mfra s) (fs_children s) (fs_last s))
            else push s
        | _ => Err                                               (* "moov box without complete ... chain" *)
        end
      else if eqb_list n n_sidx then
        match fs_segs s with
        | [] =>
            let sx := match ax pos with ASidx a r => (a, r) | _ => (0, []) end in
            push (mkFS (fs_frag s) (fs_ftyp s) (fs_init s) (fs_mdat s) (fs_sidxs s ++ [sx]) (fs_segs s) (fs_mfra s)
                       (fs_children s) (fs_last s))
        | sg :: segs => push (set_segs s (fs_frag s) (mkSeg (sg_styp sg) (sg_start sg) (sg_sidxs sg + 1) (sg_frags sg) :: segs))
        end
      else if eqb_list n n_styp then
        push (set_segs s true (mkSeg true pos 0 [] :: fs_segs s))
      else if eqb_list n n_emsg then
        let s1 := start_segment_if_needed onmoof s pos in
        match fs_segs s1 with
        | [] => Panic
        | sg :: segs =>
            let frs := match sg_frags sg with [] => [mkFrag pos None None 0 []] | _ => sg_frags sg end in
            match frs with
            | [] => Panic
            | fr :: frs' => push (set_segs s1 (fs_frag s1) (mkSeg (sg_styp sg) (sg_start sg) (sg_sidxs sg) (frag_add fr b :: frs') :: segs))
            end
        end
      else if eqb_list n n_moof then
        let s1 := start_segment_if_needed onmoof (set_segs s true (fs_segs s)) pos in
        match fs_segs s1 with
        | [] => Panic
        | sg :: segs =>
            let frs := match sg_frags sg with
                       | [] => [mkFrag pos None None 0 []]
                       | lastFrag :: _ => match fr_moof lastFrag with
                                          | Some _ => mkFrag pos None None 0 [] :: sg_frags sg
                                          | None => sg_frags sg
                                          end
                       end in
            match frs with
            | [] => Panic
            | fr :: frs' => push (set_segs s1 (fs_frag s1) (mkSeg (sg_styp sg) (sg_start sg) (sg_sidxs sg) (frag_add fr b :: frs') :: segs))
            end
        end
      else if eqb_list n n_mfra then
        push (mkFS (fs_frag s) (fs_ftyp s) (fs_init s) (fs_mdat s) (fs_sidxs s) (fs_segs s) true (fs_children s) (fs_last s))
      else push s
  end.

Fixpoint frag_run (onmoof : bool) (ax : N -> aux) (s : fstate) (bs : list tbox) : res fstate :=
  match bs with
  | [] => Ok s
  | b :: t => do s' <- frag_step onmoof ax s b; frag_run onmoof ax s' t
  end.

End Machine.

Arguments XBox {M} name startPos size.
Arguments XMdat {M} m size.
Arguments mkFrag {M} fr_start fr_moof fr_mdat fr_emsgs fr_children.
Arguments mkSeg {M} sg_styp sg_start sg_sidxs sg_frags.
Arguments mkFS {M} fs_frag fs_ftyp fs_init fs_mdat fs_sidxs fs_segs fs_mfra fs_children fs_last.
Arguments fr_start {M} f. Arguments fr_moof {M} f. Arguments fr_mdat {M} f. Arguments fr_emsgs {M} f.
Arguments fr_children {M} f.
Arguments sg_styp {M} s. Arguments sg_start {M} s. Arguments sg_sidxs {M} s. Arguments sg_frags {M} s.
Arguments fs_frag {M} f. Arguments fs_ftyp {M} f. Arguments fs_init {M} f. Arguments fs_mdat {M} f.
Arguments fs_sidxs {M} f. Arguments fs_segs {M} f. Arguments fs_mfra {M} f. Arguments fs_children {M} f.
Arguments fs_last {M} f.
Arguments fs0 {M}.
Arguments tname {M} b.

(* ------------------------------------------------------------------ change of mdat representation *)
Section Map.
Variables (A B : Type) (h : A -> B).
Definition map_tbox (b : tbox A) : tbox B :=
  match b with XBox n sp sz => XBox n sp sz | XMdat m sz => XMdat (h m) sz end.
Definition map_frag (f : frag A) : frag B :=
  mkFrag (fr_start f) (fr_moof f) (option_map h (fr_mdat f)) (fr_emsgs f) (map map_tbox (fr_children f)).
Definition map_seg (s : seg A) : seg B :=
  mkSeg (sg_styp s) (sg_start s) (sg_sidxs s) (map map_frag (sg_frags s)).
Definition map_fstate (s : fstate A) : fstate B :=
  mkFS (fs_frag s) (fs_ftyp s) (fs_init s) (option_map h (fs_mdat s)) (fs_sidxs s) (map map_seg (fs_segs s))
       (fs_mfra s) (map map_tbox (fs_children s)) (fs_last s).
End Map.
Arguments map_tbox {A B} h b.
Arguments map_frag {A B} h f.
Arguments map_seg {A B} h s.
Arguments map_fstate {A B} h s.

Definition map_res {A B} (f : A -> B) (r : res A) : res B :=
  match r with Ok a => Ok (f a) | Err => Err | Panic => Panic | OutOfFuel => OutOfFuel end.

(* ------------------------------------------------------------------ the concrete instance *)
Definition of_top (t : topbox) : tbox mdat :=
  match t with TBox n sp sz => XBox n sp sz | TMdat m sz => XMdat m sz end.

(* DecodeFile in one mode: the top-level walk (C08Model.decode_file_top), then the bookkeeping *)
Definition decode_file_frag (fuel : nat) (lazy : bool) (file : list N) (zeof : bool) (onmoof : bool)
           (ax : N -> aux) (r : rsk) : res (fstate mdat) :=
  do t <- decode_file_top fuel lazy file zeof 0 r;
  frag_run mdat payload_size after_size onmoof ax fs0 (map of_top t).

(* what the API shows of an mdat handle, whatever its representation: StartPos, LargeSize, Size(),
   PayloadAbsoluteOffset(), Size()-HeaderSize() *)
Definition mkey (m : mdat) : (N * bool * N * N) * N := (mdat_view m, payload_size m).

(* file order *)
Definition fin_frag {M} (f : frag M) : frag M :=
  mkFrag (fr_start f) (fr_moof f) (fr_mdat f) (fr_emsgs f) (rev (fr_children f)).
Definition fin_seg {M} (s : seg M) : seg M :=
  mkSeg (sg_styp s) (sg_start s) (sg_sidxs s) (rev (map fin_frag (sg_frags s))).
Definition fin_state {M} (s : fstate M) : fstate M :=
  mkFS (fs_frag s) (fs_ftyp s) (fs_init s) (fs_mdat s) (fs_sidxs s) (rev (map fin_seg (fs_segs s)))
       (fs_mfra s) (rev (fs_children s)) (fs_last s).

(* IsLazy() of a handle *)
Definition mdat_is_lazy (m : mdat) : bool := is_lazy m.
