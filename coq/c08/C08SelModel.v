(* C08SelModel.v — which top-level mdat becomes File.Mdat (progressive files), in both decode modes.
   mp4/file.go: the DecodeFile loop rejects a second non-empty mdat
       oldPayloadSize := f.Mdat.Size() - f.Mdat.HeaderSize(); newPayloadSize := ... ;
       if oldPayloadSize > 0 && newPayloadSize > 0 { error }
   and File.AddChild keeps the first non-empty one
       if f.Mdat == nil || f.Mdat.Size()-f.Mdat.HeaderSize() == 0 { f.Mdat = box }
   The same text runs in both modes, but on DIFFERENT box states (in-memory: Data; lazy: lazyDataSize), so
   "empty" must mean the same thing for both representations.  Definitions only. *)
From V.lib Require Import Base.
From V.c08 Require Import C08Model.

(* m.Size() - m.HeaderSize() as Go evaluates it: Size() first (it may set LargeSize), HeaderSize() on the
   updated box, uint64 subtraction *)
Definition payload_size (m : mdat) : N :=
  let '(size, large) := mdat_size m in u64z (Z.of_N size - (if large then 16 else 8)).

(* the box after a Size() call *)
Definition after_size (m : mdat) : mdat :=
  mkMdat (StartPos m) (Data m) (lazyDataSize m) (snd (mdat_size m)).

(* one top-level box of a non-fragmented file: pre-check of the decode loop, then AddChild *)
Definition file_mdat_step (cur : option mdat) (b : topbox) : res (option mdat) :=
  match b with
  | TBox _ _ _ => Ok cur
  | TMdat m _ =>
      match cur with
      | None => Ok (Some m)
      | Some old =>
          if (0 <? payload_size old) && (0 <? payload_size m) then Err
          else if payload_size old =? 0 then Ok (Some (after_size m)) else Ok (Some (after_size old))
      end
  end.

Fixpoint file_mdat (cur : option mdat) (bs : list topbox) : res (option mdat) :=
  match bs with
  | [] => Ok cur
  | b :: t => do cur' <- file_mdat_step cur b; file_mdat cur' t
  end.

(* what the API exposes of the selected handle: StartPos, LargeSize, Size(), PayloadAbsoluteOffset() *)
Definition mdat_view (m : mdat) : N * bool * N * N :=
  (StartPos m, snd (mdat_size m), fst (mdat_size m), payload_abs_offset (after_size m)).

(* DecodeFile (progressive) in one mode: the walk, then the selection *)
Definition decode_file_mdat (fuel : nat) (lazy : bool) (file : list N) (zeof : bool) (r : rsk)
  : res (option mdat) :=
  do t <- decode_file_top fuel lazy file zeof 0 r; file_mdat None t.

(* The same selection with "empty" read off the in-memory payload only (MdatBox.DataLength(): len(Data)), which
   is NOT what the code does; kept to show that C08_file_mdat_equal depends on the emptiness test being
   representation-independent (see C08_file_mdat_datalength_refuted). *)
Definition file_mdat_step_dl (cur : option mdat) (b : topbox) : res (option mdat) :=
  match b with
  | TBox _ _ _ => Ok cur
  | TMdat m _ =>
      match cur with
      | None => Ok (Some m)
      | Some old =>
          if (0 <? payload_size old) && (0 <? payload_size m) then Err
          else if lenN (Data old) =? 0 then Ok (Some (after_size m)) else Ok (Some (after_size old))
      end
  end.

Fixpoint file_mdat_dl (cur : option mdat) (bs : list topbox) : res (option mdat) :=
  match bs with
  | [] => Ok cur
  | b :: t => do cur' <- file_mdat_step_dl cur b; file_mdat_dl cur' t
  end.
