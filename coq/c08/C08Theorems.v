(* C08Theorems.v — the property theorems of C08 and nothing else.  Each is closed by
   `exact <lemma>` and followed by Print Assumptions (audited by ./check on every run). *)
From V.lib Require Import Base.
From V.c08 Require Import C08Model C08Spec C08ReadProofs.

(* ReadData / CopyData (repaired text, `end > dataLen`): for every file, every mdat box lying in it
   (8- or 16-byte header), every range that starts at a payload byte and ends at or before the end of
   the payload (INCLUDING the range that ends at the last byte), every short-read oracle and both
   empty-read behaviours of the reader, the in-memory box and the lazily decoded box both return
   exactly the file slice. *)
Theorem C08_read_equal :
  forall file startPos large payloadLen start size zeof orc,
  box_in_file file startPos large payloadLen = true ->
  valid_range startPos large payloadLen start size = true ->
  let want := Ok (sub file (Z.to_N start) (Z.to_N size)) in
  read_data true file zeof (mdat_mem file startPos large payloadLen) start size (Some (mkRS 0 orc)) = want
  /\ read_data true file zeof (mdat_lazy startPos large payloadLen) start size (Some (mkRS 0 orc)) = want
  /\ copy_data true file zeof (mdat_mem file startPos large payloadLen) start size (Some (mkRS 0 orc)) = want
  /\ copy_data true file zeof (mdat_lazy startPos large payloadLen) start size (Some (mkRS 0 orc)) = want.
Proof. exact read_equal. Qed.
Print Assumptions C08_read_equal.

(* the hypotheses are satisfiable by a non-trivial value: the range ending at the last byte *)
Example C08_read_equal_hyps :
  box_in_file [0;0;0;12;109;100;97;116;1;2;3;4] 0 false 4 = true /\
  valid_range 0 false 4 10 2 = true /\
  sub [0;0;0;12;109;100;97;116;1;2;3;4] 10 2 = [3;4].
Proof. vm_compute. repeat split; reflexivity. Qed.

(* the pinned text (`end >= dataLen`) violates the statement: MdatBox{Data: 4 bytes}.ReadData(last-1, 2)
   errors in memory while the lazy box returns the bytes *)
Theorem C08_last_byte_refuted :
  exists file startPos large payloadLen start size,
    box_in_file file startPos large payloadLen = true /\
    valid_range startPos large payloadLen start size = true /\
    read_data false file false (mdat_mem file startPos large payloadLen) start size None = Err /\
    copy_data false file false (mdat_mem file startPos large payloadLen) start size None = Err /\
    read_data false file false (mdat_lazy startPos large payloadLen) start size (Some (mkRS 0 []))
    = Ok (sub file (Z.to_N start) (Z.to_N size)).
Proof. exact last_byte_refuted. Qed.
Print Assumptions C08_last_byte_refuted.

(* ... and holds under the exact guard that excludes the defect *)
Theorem C08_read_equal_pinned_interior :
  forall file startPos large payloadLen start size zeof orc,
  box_in_file file startPos large payloadLen = true ->
  valid_range startPos large payloadLen start size = true ->
  (start + size < Z.of_N (startPos + hdr_len large + payloadLen))%Z ->
  read_data false file zeof (mdat_mem file startPos large payloadLen) start size (Some (mkRS 0 orc))
  = Ok (sub file (Z.to_N start) (Z.to_N size))
  /\ copy_data false file zeof (mdat_mem file startPos large payloadLen) start size (Some (mkRS 0 orc))
  = Ok (sub file (Z.to_N start) (Z.to_N size)).
Proof. exact read_equal_pinned_interior. Qed.
Print Assumptions C08_read_equal_pinned_interior.
