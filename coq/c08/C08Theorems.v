(* C08Theorems.v — the property theorems of C08 and nothing else.  Each is closed by
   `exact <lemma>` and followed by Print Assumptions (audited by ./check on every run). *)
From V.lib Require Import Base.
From V.c08 Require Import C08Model C08Spec C08ReadProofs C08HeaderProofs C08CopyProofs C08TreeProofs C08SelModel C08SelProofs.

(* ReadData / CopyData (repaired text, `end > dataLen`): for every file, every mdat box lying in it
   (8- or 16-byte header), every range that starts at a payload byte and ends at or before the end of
   the payload (INCLUDING the range that ends at the last byte), every short-read oracle and both
   empty-read behaviours of the reader, the in-memory box and the lazily decoded box both return
   exactly the file slice. *)
Theorem C08_read_equal :
  forall file startPos large payloadLen start size zeof orc,
  box_in_file file startPos large payloadLen = true ->
  valid_range startPos large payloadLen start size = true ->
  let want := Ok (sub file (Z.to_N start) (Z.to_N size)) in
  read_data true file zeof (mdat_mem file startPos large payloadLen) start size (Some (mkRS 0 orc)) = want
  /\ read_data true file zeof (mdat_lazy startPos large payloadLen) start size (Some (mkRS 0 orc)) = want
  /\ copy_data true file zeof (mdat_mem file startPos large payloadLen) start size (Some (mkRS 0 orc)) = want
  /\ copy_data true file zeof (mdat_lazy startPos large payloadLen) start size (Some (mkRS 0 orc)) = want.
Proof. exact read_equal. Qed.
Print Assumptions C08_read_equal.

(* the hypotheses are satisfiable by a non-trivial value: the range ending at the last byte *)
Example C08_read_equal_hyps :
  box_in_file [0;0;0;12;109;100;97;116;1;2;3;4] 0 false 4 = true /\
  valid_range 0 false 4 10 2 = true /\
  sub [0;0;0;12;109;100;97;116;1;2;3;4] 10 2 = [3;4].
Proof. vm_compute. repeat split; reflexivity. Qed.

(* the pinned text (`end >= dataLen`) violates the statement: MdatBox{Data: 4 bytes}.ReadData(last-1, 2)
   errors in memory while the lazy box returns the bytes *)
Theorem C08_last_byte_refuted :
  exists file startPos large payloadLen start size,
    box_in_file file startPos large payloadLen = true /\
    valid_range startPos large payloadLen start size = true /\
    read_data false file false (mdat_mem file startPos large payloadLen) start size None = Err /\
    copy_data false file false (mdat_mem file startPos large payloadLen) start size None = Err /\
    read_data false file false (mdat_lazy startPos large payloadLen) start size (Some (mkRS 0 []))
    = Ok (sub file (Z.to_N start) (Z.to_N size)).
Proof. exact last_byte_refuted. Qed.
Print Assumptions C08_last_byte_refuted.

(* ... and holds under the exact guard that excludes the defect *)
Theorem C08_read_equal_pinned_interior :
  forall file startPos large payloadLen start size zeof orc,
  box_in_file file startPos large payloadLen = true ->
  valid_range startPos large payloadLen start size = true ->
  (start + size < Z.of_N (startPos + hdr_len large + payloadLen))%Z ->
  read_data false file zeof (mdat_mem file startPos large payloadLen) start size (Some (mkRS 0 orc))
  = Ok (sub file (Z.to_N start) (Z.to_N size))
  /\ copy_data false file zeof (mdat_mem file startPos large payloadLen) start size (Some (mkRS 0 orc))
  = Ok (sub file (Z.to_N start) (Z.to_N size)).
Proof. exact read_equal_pinned_interior. Qed.
Print Assumptions C08_read_equal_pinned_interior.

(* Decoding one mdat box (any canonical 8- or 16-byte header announcing payloadLen bytes, box inside the
   file) with DecodeBox and with DecodeBoxLazyMdat succeeds in both modes, yields exactly the two boxes the
   other theorems speak about (same StartPos and LargeSize; Data = the payload slice vs lazyDataSize =
   payloadLen) and leaves the reader at the same position: the end of the box. *)
Theorem C08_decode_equal :
  forall file zeof startPos large payloadLen orc,
  box_in_file file startPos large payloadLen = true ->
  header_at file startPos large payloadLen = true ->
  exists o1 o2,
    decode_box_mdat false file zeof startPos (mkRS startPos orc)
    = RfOk (mdat_mem file startPos large payloadLen, mkRS (startPos + hdr_len large + payloadLen) o1)
    /\ decode_box_mdat true file zeof startPos (mkRS startPos orc)
    = RfOk (mdat_lazy startPos large payloadLen, mkRS (startPos + hdr_len large + payloadLen) o2).
Proof. exact decode_equal. Qed.
Print Assumptions C08_decode_equal.

(* Encode of the lazily decoded box writes exactly the header bytes of the original box, header ++
   payload = the original box = Encode of the in-memory box, and Size() is the same in both modes. *)
Theorem C08_header_plus_payload :
  forall file startPos large payloadLen,
  box_in_file file startPos large payloadLen = true ->
  header_at file startPos large payloadLen = true ->
  mdat_encode (mdat_lazy startPos large payloadLen) = Ok (sub file startPos (hdr_len large))
  /\ sub file startPos (hdr_len large) ++ sub file (startPos + hdr_len large) payloadLen
     = sub file startPos (hdr_len large + payloadLen)
  /\ mdat_encode (mdat_mem file startPos large payloadLen) = Ok (sub file startPos (hdr_len large + payloadLen))
  /\ mdat_size (mdat_lazy startPos large payloadLen) = (hdr_len large + payloadLen, large)
  /\ mdat_size (mdat_mem file startPos large payloadLen) = (hdr_len large + payloadLen, large).
Proof. exact header_plus_payload. Qed.
Print Assumptions C08_header_plus_payload.

Example C08_header_hyps :
  header_at [0;0;0;12;109;100;97;116;1;2;3;4] 0 false 4 = true /\
  header_at [0;0;0;1;109;100;97;116;0;0;0;0;0;0;0;18;1;2] 0 true 2 = true /\
  box_in_file [0;0;0;1;109;100;97;116;0;0;0;0;0;0;0;18;1;2] 0 true 2 = true.
Proof. vm_compute. repeat split; reflexivity. Qed.

(* File.CopySampleData (repaired text, `for nrLeft > 0`) after GetContainingChunks returned `chunks`:
   for every file, mdat box, table view (stsz sizes / uniform size, stco or co64 offsets), every run of
   consecutive chunks whose first chunk contains sample a and last chunk contains sample b
   (1 <= a <= b < 2^32-1), all of them lying inside the mdat payload, EVERY work buffer (any length incl. 0
   and 1, any initial contents), every short-read oracle and both empty-read behaviours of the reader:
   the bytes written in in-memory mode and in lazy mode are both exactly the concatenation, sample by sample,
   of the bytes of samples a..b. *)
Theorem C08_copy_samples :
  forall file startPos large payloadLen tb chunks a b ws zeof orc,
  box_in_file file startPos large payloadLen = true ->
  chunks_cover a b chunks = true ->
  chunks_in_payload tb startPos large payloadLen chunks = true ->
  copy_sample_data true file zeof (mdat_mem file startPos large payloadLen) (Some (mkRS 0 orc)) tb chunks a b ws
  = Ok (expected_samples file tb chunks a b)
  /\ copy_sample_data true file zeof (mdat_lazy startPos large payloadLen) (Some (mkRS 0 orc)) tb chunks a b ws
  = Ok (expected_samples file tb chunks a b).
Proof. exact copy_samples. Qed.
Print Assumptions C08_copy_samples.

(* satisfiable, non-trivial: samples 2..3 of a 3-sample track span a chunk boundary *)
Example C08_copy_samples_hyps :
  let file := [0;0;0;14;109;100;97;116;1;2;3;4;5;6] in
  let tb := mkStbl [1;2;3] 0 [8;11] in
  let chunks := [mkChunk 1 1 2; mkChunk 2 3 1] in
  box_in_file file 0 false 6 = true /\ chunks_cover 2 3 chunks = true /\
  chunks_in_payload tb 0 false 6 chunks = true /\ expected_samples file tb chunks 2 3 = [2;3;4;5;6] /\
  copy_sample_data true file true (mdat_lazy 0 false 6) (Some (mkRS 0 [1;1])) tb chunks 2 3 [0;0] = Ok [2;3;4;5;6].
Proof. vm_compute. repeat split; reflexivity. Qed.

(* the pinned text (`for {`: always one Read) violates the statement: a zero-size sample located at the
   very end of the file, read through a reader that reports io.EOF on an empty read at the end
   (bytes.Reader), fails in lazy work-buffer mode and succeeds in memory *)
Theorem C08_zero_size_at_eof_refuted :
  exists file startPos large payloadLen tb chunks a b ws orc,
    box_in_file file startPos large payloadLen = true /\
    chunks_cover a b chunks = true /\
    chunks_in_payload tb startPos large payloadLen chunks = true /\
    copy_sample_data false file true (mdat_lazy startPos large payloadLen) (Some (mkRS 0 orc)) tb chunks a b ws = Err /\
    copy_sample_data false file true (mdat_mem file startPos large payloadLen) (Some (mkRS 0 orc)) tb chunks a b ws
    = Ok (expected_samples file tb chunks a b).
Proof. exact zero_size_at_eof_refuted. Qed.
Print Assumptions C08_zero_size_at_eof_refuted.

(* DecodeFile's top-level walk (DecodeBox vs DecodeBoxLazyMdat, boxStartPos += Size()): for every file that
   is exactly a sequence of boxes (any 4-byte types, 8- or 16-byte headers, any number of mdat boxes anywhere
   - before or after moov -, boxes other than mdat opaque), both modes succeed and produce the expected
   views: the same type, StartPos and Size for every top-level box and the same LargeSize for every mdat;
   the mdat boxes are exactly the mdat_mem / mdat_lazy boxes of the other theorems. *)
Theorem C08_tree_equal :
  forall file zeof bs orc1 orc2,
  lenN file < 9223372036854775808 ->
  layout_at file 0 bs = true ->
  exists t1 t2,
    decode_file_top (S (length bs)) false file zeof 0 (mkRS 0 orc1) = Ok t1
    /\ decode_file_top (S (length bs)) true file zeof 0 (mkRS 0 orc2) = Ok t2
    /\ t1 = views false file 0 bs /\ t2 = views true file 0 bs
    /\ map erase t1 = map erase t2.
Proof. exact tree_equal. Qed.
Print Assumptions C08_tree_equal.

(* satisfiable: free(8) mdat(large, 2 payload bytes) moov(9) *)
Example C08_tree_equal_hyps :
  let file := [0;0;0;8;102;114;101;101; 0;0;0;1;109;100;97;116;0;0;0;0;0;0;0;18;1;2; 0;0;0;9;109;111;111;118;7] in
  let bs := [mkBD [102;114;101;101] false 0; mkBD name_mdat true 2; mkBD [109;111;111;118] false 1] in
  layout_at file 0 bs = true /\
  map erase (views true file 0 bs)
  = [([102;114;101;101], 0, 8, false); (name_mdat, 8, 18, true); ([109;111;111;118], 26, 9, false)].
Proof. vm_compute. repeat split; reflexivity. Qed.

(* File.Mdat of a progressive file (the DecodeFile pre-check "only one non-empty mdat box" followed by
   File.AddChild's "keep the first non-empty mdat"): for every file that is exactly a sequence of boxes with ANY
   number of mdat boxes in any arrangement (empty or not, 8/16-byte headers, before/between/after the other
   boxes), decoding in memory and decoding lazily either both fail (two non-empty mdat boxes) or select the SAME
   top-level box: equal StartPos, LargeSize, Size() and PayloadAbsoluteOffset() - or both select none. *)
Theorem C08_file_mdat_equal :
  forall file zeof bs orc1 orc2,
  lenN file < 9223372036854775808 ->
  layout_at file 0 bs = true ->
  res_rel (decode_file_mdat (S (length bs)) false file zeof (mkRS 0 orc1))
          (decode_file_mdat (S (length bs)) true file zeof (mkRS 0 orc2))
  /\ decode_file_mdat (S (length bs)) true file zeof (mkRS 0 orc2) = file_mdat None (views true file 0 bs).
Proof. exact file_mdat_equal. Qed.
Print Assumptions C08_file_mdat_equal.

(* which box that is: if exactly one top-level mdat is non-empty it is the one selected, whatever empty mdat
   boxes and other boxes precede or FOLLOW it; a second non-empty mdat is an error (in either representation:
   the statement is about any list of decoded top-level boxes) *)
Theorem C08_file_mdat_spec :
  forall pre m sz rest,
  forallb (fun b => negb (nonempty_mdat b)) pre = true -> 0 < payload_size m ->
  (forallb (fun b => negb (nonempty_mdat b)) rest = true ->
     exists z, file_mdat None (pre ++ TMdat m sz :: rest) = Ok (Some z) /\ key z = key m)
  /\ (existsb nonempty_mdat rest = true -> file_mdat None (pre ++ TMdat m sz :: rest) = Err).
Proof. exact file_mdat_spec. Qed.
Print Assumptions C08_file_mdat_spec.

(* satisfiable, non-trivial: ftyp-like box, empty mdat, media mdat (2 bytes), empty large-header mdat after it;
   both modes select the media mdat at position 16 *)
Example C08_file_mdat_hyps :
  let file := [0;0;0;8;102;114;101;101; 0;0;0;8;109;100;97;116; 0;0;0;10;109;100;97;116;1;2;
               0;0;0;1;109;100;97;116;0;0;0;0;0;0;0;16] in
  let bs := [mkBD [102;114;101;101] false 0; mkBD name_mdat false 0; mkBD name_mdat false 2; mkBD name_mdat true 0] in
  layout_at file 0 bs = true /\
  match file_mdat None (views true file 0 bs), file_mdat None (views false file 0 bs) with
  | Ok (Some a), Ok (Some b) => mdat_view a = (16, false, 10, 24) /\ mdat_view b = (16, false, 10, 24)
  | _, _ => False
  end.
Proof. vm_compute. repeat split; reflexivity. Qed.

(* the statement is not a triviality: reading "empty" off the in-memory payload only (MdatBox.DataLength())
   makes the lazily decoded media mdat lose against a later empty mdat - the two modes then differ *)
Theorem C08_file_mdat_datalength_refuted :
  exists file bs,
    layout_at file 0 bs = true /\
    option_map mdat_view (match file_mdat_dl None (views false file 0 bs) with Ok r => r | _ => None end)
    <> option_map mdat_view (match file_mdat_dl None (views true file 0 bs) with Ok r => r | _ => None end).
Proof. exact file_mdat_datalength_refuted. Qed.
Print Assumptions C08_file_mdat_datalength_refuted.
