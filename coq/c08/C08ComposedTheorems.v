(* C08ComposedTheorems.v — C08_copy_samples composed with the sample-table model of C09 (imported
   read-only from coq/c09): CopySampleData from the stsc entries, for consistent tables and every
   1 <= a <= b <= N.  Kept apart from C08Theorems.v so that the C08 theorems do not depend on C09 files. *)
From V.lib Require Import Base.
From V.c08 Require Import C08Model C08Spec C08CopyProofs C08C09Proofs.
From V.c09 Require C09Model C09Spec.

(* for consistent sample tables (C09Spec.consistent), every sample interval 1 <= a <= b <= N, every work
   buffer, short-read oracle and reader behaviour: the model of StscBox.GetContainingChunks succeeds and,
   when the chunks it returns lie inside the mdat payload, CopySampleData writes exactly the bytes of
   samples a..b in both modes *)
Theorem C08_copy_samples_end_to_end :
  forall file startPos large payloadLen (tb : C09Model.tables) a b ws zeof orc,
  box_in_file file startPos large payloadLen = true ->
  C09Spec.consistent tb = true ->
  1 <= a -> a <= b -> b <= C09Spec.nsamples tb ->
  exists l, C09Model.stsc_get_containing_chunks (C09Model.sc_entries (C09Model.t_stsc tb)) a b = Ok l /\
    (chunks_in_payload (conv_tb tb) startPos large payloadLen (map conv_chunk l) = true ->
     copy_sample_data true file zeof (mdat_mem file startPos large payloadLen) (Some (mkRS 0 orc))
                      (conv_tb tb) (map conv_chunk l) a b ws
     = Ok (expected_samples file (conv_tb tb) (map conv_chunk l) a b)
     /\ copy_sample_data true file zeof (mdat_lazy startPos large payloadLen) (Some (mkRS 0 orc))
                         (conv_tb tb) (map conv_chunk l) a b ws
     = Ok (expected_samples file (conv_tb tb) (map conv_chunk l) a b)).
Proof. exact copy_samples_end_to_end. Qed.
Print Assumptions C08_copy_samples_end_to_end.

(* satisfiable: 3 samples (sizes 1,2,3) in chunks of 2 and 1 samples at offsets 8 and 11 *)
Example C08_end_to_end_hyps :
  let file := [0;0;0;14;109;100;97;116;1;2;3;4;5;6] in
  let tb := C09Model.mkTables [3] [1] None
              (C09Model.mkStsc [C09Model.mkEntry 1 2 1; C09Model.mkEntry 2 1 3] 1 [])
              (C09Model.mkStsz 0 3 [1;2;3]) (Some [8;11]) None None None in
  C09Spec.consistent tb = true /\
  C09Model.stsc_get_containing_chunks (C09Model.sc_entries (C09Model.t_stsc tb)) 2 3
  = Ok [C09Model.mkChunk 1 1 2; C09Model.mkChunk 2 3 1] /\
  chunks_in_payload (conv_tb tb) 0 false 6 [mkChunk 1 1 2; mkChunk 2 3 1] = true /\
  expected_samples file (conv_tb tb) [mkChunk 1 1 2; mkChunk 2 3 1] 2 3 = [2;3;4;5;6].
Proof. vm_compute. repeat split; reflexivity. Qed.
