(* C08FragProofs.v — the bookkeeping of DecodeFile (C08FragModel) does not depend on the representation of the
   mdat boxes: it commutes with every change of representation that preserves Size()-HeaderSize() and
   commutes with "after a Size() call".  Hence decoding in memory and decoding lazily build the same File
   (isFragmented, Init, File.Mdat, Sidxs, Segments, Fragments with their Moof/Mdat pairing and Children). *)
From V.lib Require Import Base.
From V.c08 Require Import C08Model C08Spec C08ReadProofs C08HeaderProofs C08TreeProofs C08SelModel C08SelProofs C08FragModel.

Ltac norm_st :=
  unfold map_fstate, map_seg;
  cbn [map fs_frag fs_ftyp fs_init fs_mdat fs_sidxs fs_segs fs_mfra fs_children fs_last
       sg_styp sg_start sg_sidxs sg_frags map_tbox tname option_map];
  fold (@map_seg).

Section Commute.
Variables (A B : Type) (h : A -> B).
Variables (pa : A -> N) (aa : A -> A) (pb : B -> N) (ab : B -> B).
Hypothesis Hp : forall m, pb (h m) = pa m.
Hypothesis Ha : forall m, h (aa m) = ab (h m).

Lemma tname_map b : tname (map_tbox h b) = tname b.
Proof. destruct b; reflexivity. Qed.

Lemma frag_add_map fr b : map_frag h (frag_add A fr b) = frag_add B (map_frag h fr) (map_tbox h b).
Proof.
  destruct b as [n sp sz|m sz]; cbn [frag_add map_tbox].
  - destruct (eqb_list n n_emsg); [reflexivity|]. destruct (eqb_list n n_moof); reflexivity.
  - reflexivity.
Qed.

Lemma lenN_map {X Y} (f : X -> Y) l : lenN (map f l) = lenN l.
Proof. unfold lenN. rewrite map_length. reflexivity. Qed.

Lemma ssin_map onmoof s pos :
  map_fstate h (start_segment_if_needed A onmoof s pos) = start_segment_if_needed B onmoof (map_fstate h s) pos.
Proof.
  unfold start_segment_if_needed. cbn [map_fstate fs_sidxs fs_segs]. rewrite lenN_map.
  match goal with |- map_fstate h (if ?c1 then _ else _) = (if ?c2 then _ else _) => assert (E : c1 = c2) end.
  { f_equal. destruct (fs_sidxs s); [|reflexivity]. destruct onmoof; [|reflexivity].
    destruct (fs_segs s) as [|sg t]; [reflexivity|]. cbn [map map_seg sg_styp sg_frags].
    destruct (sg_frags sg) as [|fr t']; [reflexivity|]. cbn [map map_frag fr_moof]. reflexivity. }
  rewrite <- E. destruct (_ || _); reflexivity.
Qed.

Lemma frag_step_map onmoof ax s b :
  map_res (map_fstate h) (frag_step A pa aa onmoof ax s b)
  = frag_step B pb ab onmoof ax (map_fstate h s) (map_tbox h b).
Proof.
  destruct b as [n pos sz|m sz].
  - cbn [map_tbox]. unfold frag_step.
    destruct (eqb_list n n_ftyp); [reflexivity|].
    destruct (eqb_list n n_moov).
    { destruct (ax pos) as [|[e|]|]; try reflexivity. destruct (e =? 0); reflexivity. }
    destruct (eqb_list n n_sidx).
    { cbn [map_fstate fs_segs]. destruct (fs_segs s) as [|sg segs]; reflexivity. }
    destruct (eqb_list n n_styp); [reflexivity|].
    destruct (eqb_list n n_emsg).
    { rewrite <- ssin_map. set (s1 := start_segment_if_needed A onmoof s pos).
      cbn [map_fstate fs_segs]. destruct (fs_segs s1) as [|sg segs]; [reflexivity|].
      cbn [map map_seg sg_frags]. destruct (sg_frags sg) as [|fr frs]; cbn [map map_res]; unfold set_segs;
        norm_st; repeat f_equal; rewrite frag_add_map; reflexivity. }
    destruct (eqb_list n n_moof).
    { replace (set_segs B (map_fstate h s) true (fs_segs (map_fstate h s)))
        with (map_fstate h (set_segs A s true (fs_segs s))) by reflexivity.
      rewrite <- ssin_map. set (s1 := start_segment_if_needed A onmoof _ pos).
      cbn [map_fstate fs_segs]. destruct (fs_segs s1) as [|sg segs]; [reflexivity|].
      cbn [map map_seg sg_frags]. destruct (sg_frags sg) as [|fr frs]; cbn [map map_res].
      - unfold set_segs;
        norm_st; repeat f_equal; rewrite frag_add_map; reflexivity.
      - cbn [map_frag fr_moof]. destruct (fr_moof fr); cbn [map_res]; unfold set_segs;
        norm_st; repeat f_equal; rewrite frag_add_map; reflexivity. }
    destruct (eqb_list n n_mfra); reflexivity.
  - cbn [map_tbox]. unfold frag_step. cbn [map_fstate fs_frag fs_last fs_segs fs_mdat].
    destruct (fs_frag s).
    + destruct (negb (eqb_list (fs_last s) n_moof)); [reflexivity|].
      destruct (fs_segs s) as [|sg segs]; [reflexivity|]. cbn [map map_seg sg_frags].
      destruct (sg_frags sg) as [|fr frs]; [reflexivity|]. cbn [map map_res]. unfold set_segs.
      norm_st. rewrite <- Ha. reflexivity.
    + destruct (fs_mdat s) as [old|]; cbn [option_map].
      * rewrite !Hp, <- !Ha, !Hp. destruct ((0 <? pa old) && (0 <? pa (aa m))); [reflexivity|].
        cbn [map_res map_fstate fs_frag fs_ftyp fs_init fs_mdat fs_sidxs fs_segs fs_mfra fs_children fs_last
             option_map map map_tbox tname].
        destruct (pa old =? 0); reflexivity.
      * cbn [map_res map_fstate fs_frag fs_ftyp fs_init fs_mdat fs_sidxs fs_segs fs_mfra fs_children fs_last
             option_map map map_tbox tname]. rewrite <- Ha. reflexivity.
Qed.

Lemma frag_run_map onmoof ax : forall bs s,
  map_res (map_fstate h) (frag_run A pa aa onmoof ax s bs)
  = frag_run B pb ab onmoof ax (map_fstate h s) (map (map_tbox h) bs).
Proof.
  induction bs as [|b t IH]; intros s; [reflexivity|].
  cbn [frag_run map]. rewrite <- frag_step_map.
  destruct (frag_step A pa aa onmoof ax s b); cbn [rbind map_res]; try reflexivity. apply IH.
Qed.
End Commute.

(* ------------------------------------------------------------------ the two decode modes *)
Lemma mkey_after m : mkey (after_size m) = mkey m.
Proof. unfold mkey. rewrite mdat_view_after, payload_size_after. reflexivity. Qed.

Lemma views_mkey file : lenN file < 9223372036854775808 -> forall bs pos,
  layout_at file pos bs = true ->
  map (map_tbox mkey) (map of_top (views false file pos bs))
  = map (map_tbox mkey) (map of_top (views true file pos bs)).
Proof.
  intros Hfl. induction bs as [|b t IH]; intros pos Hl; [reflexivity|].
  cbn [layout_at] in Hl. apply andb_prop in Hl. destruct Hl as [Hl Ht].
  apply andb_prop in Hl. destruct Hl as [Hh Hb]. apply N.leb_le in Hb.
  assert (Hsz : blarge b = true \/ 8 + bplen b < 4294967296).
  { unfold header_at_n in Hh. apply andb_prop in Hh. destruct Hh as [Hh _].
    apply andb_prop in Hh. destruct Hh as [_ Hh]. apply orb_prop in Hh.
    destruct Hh as [Hh|Hh]; [left; exact Hh | right; apply N.ltb_lt; exact Hh]. }
  cbn [views map].
  replace (pos + (hdr_len (blarge b) + bplen b)) with (pos + hdr_len (blarge b) + bplen b) by lia.
  rewrite (IH _ Ht). f_equal.
  destruct (eqb_list (bname b) name_mdat); [|reflexivity].
  cbn [of_top map_tbox]. f_equal. unfold mkey.
  destruct (payload_size_both file pos (blarge b) (bplen b) Hb Hfl Hsz) as [P1 P2].
  rewrite P1, P2, (mdat_view_both file pos (blarge b) (bplen b) Hb Hfl Hsz). reflexivity.
Qed.

(* DecodeFile (progressive or fragmented, with or without DecStartOnMoof) in the two modes: the same outcome
   class and, seen through the API (StartPos, LargeSize, Size(), PayloadAbsoluteOffset(), payload size of every
   mdat handle), the same File *)
Lemma frag_tree_equal file zeof bs orc1 orc2 onmoof ax :
  lenN file < 9223372036854775808 ->
  layout_at file 0 bs = true ->
  map_res (map_fstate mkey) (decode_file_frag (S (length bs)) false file zeof onmoof ax (mkRS 0 orc1))
  = map_res (map_fstate mkey) (decode_file_frag (S (length bs)) true file zeof onmoof ax (mkRS 0 orc2))
  /\ decode_file_frag (S (length bs)) true file zeof onmoof ax (mkRS 0 orc2)
     = frag_run mdat payload_size after_size onmoof ax fs0 (map of_top (views true file 0 bs)).
Proof.
  intros Hfl Hl. unfold decode_file_frag.
  rewrite (decode_file_top_ok false file zeof Hfl bs 0 orc1 Hl).
  rewrite (decode_file_top_ok true file zeof Hfl bs 0 orc2 Hl). cbn [rbind].
  split; [|reflexivity].
  rewrite !(frag_run_map mdat _ mkey payload_size after_size snd (fun k => k))
    by (intros; first [reflexivity | apply mkey_after]).
  rewrite (views_mkey file Hfl bs 0 Hl). reflexivity.
Qed.

(* ------------------------------------------------------------------ which mdat belongs to which moof *)
(* A fragmented file  <init: any boxes, no mdat/moof/emsg/styp/sidx, a moov with zero stts entries>
   (moof mdat)*  : one segment starting at the first moof, one fragment per pair, fragment i = (moof i at its
   position, the mdat that immediately follows it).  Stated on the abstract machine: holds for both modes. *)
Section Pairing.
Variables (M : Type) (psz : M -> N) (asz : M -> M).

Fixpoint pairs_boxes (ps : list (N * N * M * N)) : list (tbox M) :=
  match ps with
  | [] => []
  | (mpos, msz, m, dsz) :: t => XBox n_moof mpos msz :: XMdat m dsz :: pairs_boxes t
  end.

Definition pair_frag (p : N * N * M * N) : frag M :=
  let '(mpos, msz, m, dsz) := p in
  mkFrag mpos (Some mpos) (Some (asz m)) 0 [XMdat (asz m) dsz; XBox n_moof mpos msz].

Lemma pairs_run onmoof ax : forall ps s sg,
  onmoof = false -> fs_sidxs s = [] -> fs_frag s = true -> fs_segs s = [sg] ->
  (sg_frags sg = [] \/ exists fr t, sg_frags sg = fr :: t /\ fr_moof fr <> None) ->
  exists s', frag_run M psz asz onmoof ax s (pairs_boxes ps) = Ok s'
    /\ fs_segs s' = [mkSeg (sg_styp sg) (sg_start sg) (sg_sidxs sg) (rev (map pair_frag ps) ++ sg_frags sg)]
    /\ fs_mdat s' = fs_mdat s /\ fs_frag s' = true.
Proof.
  intros ps. induction ps as [|[[[mpos msz] m] dsz] t IH]; intros s sg Hom Hsx Hfr Hsg Hlast.
  - exists s. cbn. rewrite Hsg. destruct sg; repeat split; auto.
  - subst onmoof. cbn [pairs_boxes frag_run].
    (* moof *)
    unfold frag_step at 1. cbn [eqb_list n_moof n_ftyp n_moov n_sidx n_styp n_emsg N.eqb Pos.eqb andb].
    unfold start_segment_if_needed. cbn [set_segs fs_sidxs fs_segs]. rewrite Hsx, Hsg.
    cbn [lenN length N.of_nat Pos.of_succ_nat N.eqb Pos.eqb orb fs_segs set_segs].
    set (frs := match sg_frags sg with
                | [] => [mkFrag mpos None None 0 []]
                | lastFrag :: _ => match fr_moof lastFrag with
                                   | Some _ => mkFrag mpos None None 0 [] :: sg_frags sg
                                   | None => sg_frags sg
                                   end
                end).
    assert (Efrs : frs = mkFrag mpos None None 0 [] :: sg_frags sg).
    { subst frs. destruct Hlast as [E|(fr & t' & E & Hm)]; rewrite E; [reflexivity|].
      destruct (fr_moof fr); [reflexivity|contradiction]. }
    rewrite Efrs. cbn [rbind].
    (* mdat *)
    unfold frag_step at 1. cbn [fs_frag fs_last fs_segs set_segs tname sg_frags].
    cbn [eqb_list n_moof N.eqb Pos.eqb andb negb].
    cbn [frag_add eqb_list n_moof n_emsg N.eqb Pos.eqb andb fr_start fr_moof fr_mdat fr_emsgs fr_children].
    cbn [rbind sg_styp sg_start sg_sidxs].
    match goal with |- exists s', frag_run _ _ _ _ _ ?S _ = _ /\ _ => 
      destruct (IH S (mkSeg (sg_styp sg) (sg_start sg) (sg_sidxs sg)
                       (mkFrag mpos (Some mpos) (Some (asz m)) 0 [XMdat (asz m) dsz; XBox n_moof mpos msz] :: sg_frags sg)))
        as (s' & R & Sg & Md & Fr) end; try reflexivity.
    + exact Hsx.
    + right. eexists _, _. split; [reflexivity|]. cbn. discriminate.
    + exists s'. split; [exact R|]. split; [|split; [exact Md | exact Fr]].
      rewrite Sg. cbn [sg_styp sg_start sg_sidxs sg_frags map rev pair_frag]. rewrite <- app_assoc. reflexivity.
Qed.
Lemma pairs_run0 ax mpos msz m dsz ps s :
  fs_sidxs s = [] -> fs_segs s = [] ->
  exists s', frag_run M psz asz false ax s (pairs_boxes ((mpos, msz, m, dsz) :: ps)) = Ok s'
    /\ fs_segs s' = [mkSeg false mpos 0 (rev (map pair_frag ((mpos, msz, m, dsz) :: ps)))]
    /\ fs_mdat s' = fs_mdat s /\ fs_frag s' = true.
Proof.
  intros Hsx Hsg. cbn [pairs_boxes frag_run].
  unfold frag_step at 1. cbn [eqb_list n_moof n_ftyp n_moov n_sidx n_styp n_emsg N.eqb Pos.eqb andb].
  unfold start_segment_if_needed. cbn [set_segs fs_sidxs fs_segs]. rewrite Hsx, Hsg.
  cbn [lenN length N.of_nat N.eqb orb fs_segs set_segs sg_frags rbind].
  unfold frag_step at 1. cbn [fs_frag fs_last fs_segs set_segs tname sg_frags].
  cbn [eqb_list n_moof N.eqb Pos.eqb andb negb].
  cbn [frag_add eqb_list n_moof n_emsg N.eqb Pos.eqb andb fr_start fr_moof fr_mdat fr_emsgs fr_children].
  cbn [rbind sg_styp sg_start sg_sidxs].
  match goal with |- exists s', frag_run _ _ _ _ _ ?S _ = _ /\ _ =>
    destruct (pairs_run false ax ps S (mkSeg false mpos 0
                     [mkFrag mpos (Some mpos) (Some (asz m)) 0 [XMdat (asz m) dsz; XBox n_moof mpos msz]]))
      as (s' & R & Sg & Md & Fr) end; try reflexivity.
  - exact Hsx.
  - right. eexists _, _. split; [reflexivity|]. cbn. discriminate.
  - exists s'. split; [exact R|]. split; [|split; [exact Md | exact Fr]].
    rewrite Sg. cbn [sg_styp sg_start sg_sidxs sg_frags map rev pair_frag]. reflexivity.
Qed.
End Pairing.
