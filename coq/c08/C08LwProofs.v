(* C08LwProofs.v — the lazy writer end to end: the payload size Fragment.AddSampleToTrack accumulates for samples
   a..b (lazyDataSize += uint64(s.Size) per sample) is exactly the number of bytes File.CopySampleData writes
   for a..b, so header (Encode of the prepared mdat) ++ copied bytes is a well-formed mdat box. *)
From V.lib Require Import Base.
From V.c08 Require Import C08Model C08Spec C08SelModel C08EncModel C08ReadProofs C08CopyProofs C08EncProofs C08SwModel.

Lemma lenN_concat_map {A} (g : A -> list N) (h : A -> N) (l : list A) :
  (forall x, In x l -> lenN (g x) = h x) -> lenN (concat (map g l)) = sumN (map h l).
Proof.
  induction l as [|x t IH]; intros H; [reflexivity|].
  cbn [map concat sumN]. rewrite lenN_app, H by (left; reflexivity). rewrite IH; [reflexivity|].
  intros y Hy. apply H. right. exact Hy.
Qed.

Lemma sumN_map_zero {A} (h : A -> N) (l : list A) : (forall x, In x l -> h x = 0) -> sumN (map h l) = 0.
Proof.
  induction l as [|x t IH]; intros H; [reflexivity|].
  cbn [map sumN]. rewrite H by (left; reflexivity). rewrite IH; [reflexivity|].
  intros y Hy. apply H. right. exact Hy.
Qed.

Lemma sumN_map_ext_in {A} (g h : A -> N) (l : list A) : (forall x, In x l -> g x = h x) -> sumN (map g l) = sumN (map h l).
Proof. intros H. f_equal. apply map_ext_in. exact H. Qed.

(* the weight of sample k in the interval a..b *)
Definition wgt (tb : stbl) (a b k : N) : N := if (a <=? k) && (k <=? b) then size_of tb k else 0.
Definition W (tb : stbl) (a b from : N) (count : nat) : N := sumN (map (wgt tb a b) (seqN from count)).

Lemma W_app tb a b from j k : W tb a b from (j + k) = W tb a b from j + W tb a b (from + N.of_nat j) k.
Proof. unfold W. now rewrite seqN_app, map_app, sumN_app. Qed.

Lemma W_after tb a b from count : b < from -> W tb a b from count = 0.
Proof.
  intros H. unfold W. apply sumN_map_zero. intros k Hk. apply in_seqN in Hk. unfold wgt.
  replace (k <=? b) with false by lia. now rewrite andb_false_r.
Qed.

Lemma W_before tb a b from count : from + N.of_nat count <= a -> W tb a b from count = 0.
Proof.
  intros H. unfold W. apply sumN_map_zero. intros k Hk. apply in_seqN in Hk. unfold wgt.
  replace (a <=? k) with false by lia. reflexivity.
Qed.

Lemma W_inside tb a b from count : a <= from -> from + N.of_nat count <= b + 1 ->
  W tb a b from count = sumN (sizes_from tb from count).
Proof.
  intros H1 H2. unfold W, sizes_from. apply sumN_map_ext_in. intros k Hk. apply in_seqN in Hk. unfold wgt.
  replace (a <=? k) with true by lia. replace (k <=? b) with true by lia. reflexivity.
Qed.

(* one chunk lying in the file: the bytes taken from it for a..b are as many as the sizes of its samples in a..b *)
Lemma chunk_expected_len file tb a b c pstart pend :
  chunk_in_payload tb pstart pend c = true -> pend <= lenN file ->
  lenN (chunk_expected file tb a b c) = W tb a b (cstart c) (N.to_nat (cn c)).
Proof.
  intros Hc Hpe. unfold chunk_in_payload in Hc.
  apply andb_true_iff in Hc. destruct Hc as [Hc H4]. apply N.leb_le in H4.
  unfold chunk_expected, W. apply lenN_concat_map. intros k Hk. apply in_seqN in Hk. unfold wgt.
  destruct ((a <=? k) && (k <=? b)); [|reflexivity].
  unfold sample_bytes. apply sub_length. unfold sample_offset.
  (* offset of k + size of k <= offset of the chunk + all sizes of the chunk *)
  assert (Hs : N.to_nat (cn c) = (N.to_nat (k - cstart c) + (1 + N.to_nat (cstart c + cn c - (k + 1))))%nat) by lia.
  rewrite Hs in H4. rewrite sum_sizes_split in H4.
  replace (cstart c + N.of_nat (N.to_nat (k - cstart c))) with k in H4 by lia.
  rewrite (sum_sizes_split tb k 1) in H4. cbn [sizes_from seqN map sumN] in H4. lia.
Qed.

(* a run of consecutive chunks whose last chunk contains b: the weights of all their samples are the weights of
   the samples from the first chunk's first sample up to b *)
Lemma run_W tb a b : forall chunks c rest, chunks = c :: rest -> run_ok b chunks = true ->
  sumN (map (fun c => W tb a b (cstart c) (N.to_nat (cn c))) chunks) = W tb a b (cstart c) (N.to_nat (b + 1 - cstart c)).
Proof.
  induction chunks as [|c0 t IH]; intros c rest E H; [discriminate|].
  injection E as -> ->. cbn [map sumN]. cbn [run_ok] in H. destruct rest as [|c' rest'].
  - cbn [map sumN]. apply andb_true_iff in H. destruct H as [H1 H2].
    replace (N.to_nat (cn c)) with (N.to_nat (b + 1 - cstart c) + N.to_nat (cstart c + cn c - (b + 1)))%nat by lia.
    rewrite W_app. rewrite (W_after tb a b (cstart c + _)) by lia. lia.
  - apply andb_true_iff in H. destruct H as [H1 H2]. apply N.eqb_eq in H1.
    assert (Hs := run_ok_start b _ c' rest' eq_refl H2).
    rewrite (IH c' rest' eq_refl H2).
    replace (N.to_nat (b + 1 - cstart c)) with (N.to_nat (cn c) + N.to_nat (b + 1 - cstart c'))%nat by lia.
    rewrite W_app. replace (cstart c + N.of_nat (N.to_nat (cn c))) with (cstart c') by lia. reflexivity.
Qed.

(* number of bytes of samples a..b = sum of their sizes *)
Lemma expected_samples_len file startPos large payloadLen tb chunks a b :
  box_in_file file startPos large payloadLen = true ->
  chunks_cover a b chunks = true ->
  chunks_in_payload tb startPos large payloadLen chunks = true ->
  lenN (expected_samples file tb chunks a b) = sumN (sizes_from tb a (N.to_nat (b + 1 - a))).
Proof.
  intros Hb Hc Hp. unfold expected_samples.
  rewrite (lenN_concat_map _ (fun c => W tb a b (cstart c) (N.to_nat (cn c)))).
  2:{ intros c Hin. unfold chunks_in_payload in Hp. rewrite forallb_forall in Hp.
      apply (chunk_expected_len file tb a b c _ _ (Hp c Hin)). unfold box_in_file in Hb. lia. }
  unfold chunks_cover in Hc. destruct chunks as [|c rest]; [discriminate|].
  apply andb_true_iff in Hc. destruct Hc as [Hc Hrun].
  apply andb_true_iff in Hc. destruct Hc as [Hc Hb32].
  apply andb_true_iff in Hc. destruct Hc as [Hc Hab].
  apply andb_true_iff in Hc. destruct Hc as [Hc Ha2].
  apply andb_true_iff in Hc. destruct Hc as [Hc1 Ha1].
  rewrite (run_W tb a b _ c rest eq_refl Hrun).
  replace (N.to_nat (b + 1 - cstart c)) with (N.to_nat (a - cstart c) + N.to_nat (b + 1 - a))%nat by lia.
  rewrite W_app. rewrite W_before by lia.
  replace (cstart c + N.of_nat (N.to_nat (a - cstart c))) with a by lia.
  rewrite W_inside by lia. lia.
Qed.

(* Fragment.AddSampleToTrack, sample after sample: f.Mdat.lazyDataSize += uint64(s.Size) (uint64 wrap) *)
Lemma lazy_size_after_sum : forall sizes acc, acc + sumN sizes < 18446744073709551616 ->
  fold_left (fun x s => u64 (x + s)) sizes acc = acc + sumN sizes.
Proof.
  induction sizes as [|s t IH]; intros acc H; cbn [fold_left sumN] in *; [lia|].
  unfold u64 at 2. rewrite N.mod_small by lia. rewrite IH by lia. lia.
Qed.

(* examples/segmenter -lazy, one fragment of one track: AddSampleToTrack for samples a..b of the input track, Encode
   of the fragment's mdat (header only), then File.CopySampleData(a..b) from the lazily decoded input:
   what was written is a well-formed mdat box whose payload is exactly the bytes of samples a..b. *)
Lemma lazy_writer_end_to_end file startPos large payloadLen tb chunks a b ws zeof orc sp :
  box_in_file file startPos large payloadLen = true ->
  chunks_cover a b chunks = true ->
  chunks_in_payload tb startPos large payloadLen chunks = true ->
  sumN (sizes_from tb a (N.to_nat (b + 1 - a))) < 9223372036854775792 ->
  let total := lazy_size_after (sizes_from tb a (N.to_nat (b + 1 - a))) in
  let largeW := 4294967296 - 1 - 8 <? total in
  exists h p,
    mdat_encode (mdat_for_writing sp total) = Ok h
    /\ copy_sample_data true file zeof (mdat_lazy startPos large payloadLen) (Some (mkRS 0 orc)) tb chunks a b ws = Ok p
    /\ copy_sample_data true file zeof (mdat_mem file startPos large payloadLen) (Some (mkRS 0 orc)) tb chunks a b ws = Ok p
    /\ p = expected_samples file tb chunks a b
    /\ lenN p = total
    /\ total = sumN (sizes_from tb a (N.to_nat (b + 1 - a)))
    /\ lenN h = hdr_len largeW
    /\ header_at (h ++ p) 0 largeW total = true
    /\ box_in_file (h ++ p) 0 largeW total = true
    /\ sub (h ++ p) (hdr_len largeW) total = p.
Proof.
  intros Hb Hc Hp Hs total largeW.
  assert (Ht : total = sumN (sizes_from tb a (N.to_nat (b + 1 - a)))).
  { unfold total, lazy_size_after. rewrite lazy_size_after_sum by lia. lia. }
  assert (Hl := expected_samples_len file startPos large payloadLen tb chunks a b Hb Hc Hp).
  destruct (copy_samples file startPos large payloadLen tb chunks a b ws zeof orc Hb Hc Hp) as [Cm Cl].
  set (p := expected_samples file tb chunks a b) in *.
  assert (Hlp : lenN p = total) by lia.
  destruct (lazy_writer p sp) as (h & E & L & Hh & Hbx & _ & Hsub); [lia|].
  rewrite Hlp in *. fold largeW in L, Hh, Hbx, Hsub.
  exists h, p. repeat split; assumption.
Qed.
