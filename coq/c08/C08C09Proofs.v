(* C08C09Proofs.v — composition with the sample-table model of C09 (imported read-only): for consistent
   tables the chunk list computed by the model of StscBox.GetContainingChunks satisfies the hypothesis
   chunks_cover of C08_copy_samples, so CopySampleData is correct end to end from the stsc entries. *)
From V.lib Require Import Base.
From V.c08 Require Import C08Model C08Spec C08CopyProofs.
From V.c09 Require C09Model C09Spec C09StscProofs.

Definition conv_chunk (c : C09Model.chunk) : chunk :=
  mkChunk (C09Model.ch_nr c) (C09Model.ch_start c) (C09Model.ch_n c).

(* the stsz / stco|co64 fields CopySampleData looks at *)
Definition conv_tb (tb : C09Model.tables) : stbl :=
  mkStbl (C09Model.sz_sizes (C09Model.t_stsz tb)) (C09Model.sz_uniform (C09Model.t_stsz tb)) (C09Spec.offsets tb).

Lemma first_in_chunk_succ tb c cnt :
  1 <= c -> C09Spec.S_chunk_count tb c = Some cnt ->
  C09Spec.S_first_in_chunk tb (c + 1) = C09Spec.S_first_in_chunk tb c + cnt.
Proof.
  intros Hc H. unfold C09Spec.S_chunk_count in H. replace (c =? 0) with false in H by lia.
  unfold C09Spec.S_first_in_chunk.
  fold (C09StscProofs.psum (C09Spec.counts_of tb) (c + 1 - 1)).
  fold (C09StscProofs.psum (C09Spec.counts_of tb) (c - 1)).
  replace (c + 1 - 1) with (c - 1 + 1) by lia.
  rewrite (C09StscProofs.psum_succ _ _ _ H). lia.
Qed.

Lemma run_ok_seq tb b : forall n c0 l,
  map Some l = map (C09Spec.S_chunk tb) (C09Spec.seqN c0 (S n)) ->
  1 <= c0 ->
  (exists cnt, C09Spec.S_chunk_count tb (c0 + N.of_nat n) = Some cnt /\
               C09Spec.S_first_in_chunk tb (c0 + N.of_nat n) <= b
               /\ b < C09Spec.S_first_in_chunk tb (c0 + N.of_nat n) + cnt) ->
  run_ok b (map conv_chunk l) = true.
Proof.
  induction n as [|n IH]; intros c0 l Hm Hc0 (cnt & Hcnt & Hb1 & Hb2).
  - cbn [C09Spec.seqN map] in Hm. destruct l as [|x [|? ?]]; try discriminate.
    cbn [map] in Hm. injection Hm as Hx. unfold C09Spec.S_chunk in Hx.
    rewrite N.add_0_r in Hcnt, Hb1, Hb2. rewrite Hcnt in Hx. injection Hx as ->.
    cbn [map run_ok conv_chunk cstart cn C09Model.ch_start C09Model.ch_n]. lia.
  - cbn [C09Spec.seqN map] in Hm. destruct l as [|x l']; [discriminate|].
    cbn [map] in Hm. injection Hm as Hx Hrest.
    destruct l' as [|y l'']; [discriminate|].
    assert (Hrest' := Hrest). cbn [map] in Hrest'. injection Hrest' as Hy _.
    unfold C09Spec.S_chunk in Hx, Hy.
    destruct (C09Spec.S_chunk_count tb c0) as [cx|] eqn:Ecx; [|discriminate].
    destruct (C09Spec.S_chunk_count tb (c0 + 1)) as [cy|] eqn:Ecy; [|discriminate].
    injection Hx as ->. injection Hy as ->.
    cbn [map run_ok]. fold (map conv_chunk l'').
    apply andb_true_iff. split.
    + cbn [conv_chunk cstart cn C09Model.ch_start C09Model.ch_n].
      rewrite (first_in_chunk_succ tb c0 cx Hc0 Ecx). apply N.eqb_refl.
    + change (run_ok b (map conv_chunk
                ({| C09Model.ch_nr := c0 + 1; C09Model.ch_start := C09Spec.S_first_in_chunk tb (c0 + 1);
                    C09Model.ch_n := cy |} :: l'')) = true).
      apply (IH (c0 + 1)); [exact Hrest|lia|].
      exists cnt. replace (c0 + 1 + N.of_nat n) with (c0 + N.of_nat (S n)) by lia. repeat split; assumption.
Qed.

Lemma containing_chunks_cover tb : C09Spec.consistent tb = true ->
  forall a b, 1 <= a -> a <= b -> b <= C09Spec.nsamples tb ->
  exists l, C09Model.stsc_get_containing_chunks (C09Model.sc_entries (C09Model.t_stsc tb)) a b = Ok l
            /\ chunks_cover a b (map conv_chunk l) = true.
Proof.
  intros H a b Ha Hab Hb.
  destruct (C09StscProofs.containing_chunks_correct tb H a b Ha Hab Hb)
    as (ca & cb & l & Hca & Hcb & H1 & H2 & H3 & Hl & Hm).
  destruct (C09StscProofs.chunk_of_sample_correct tb H a ltac:(lia))
    as (ca' & Eca & _ & Fa1 & (cnta & Ecnta & Fa2) & _).
  destruct (C09StscProofs.chunk_of_sample_correct tb H b ltac:(lia))
    as (cb' & Ecb & _ & Fb1 & (cntb & Ecntb & Fb2) & _).
  rewrite Hca in Eca. injection Eca as <-. rewrite Hcb in Ecb. injection Ecb as <-.
  exists l. split; [exact Hl|].
  assert (Hu : b < 4294967295).
  { unfold C09Spec.consistent in H. repeat (apply andb_true_iff in H; destruct H as [H ?]).
    unfold C09Spec.is_u32 in H. lia. }
  remember (N.to_nat (cb + 1 - ca)) as n eqn:En.
  destruct n as [|n]; [lia|].
  assert (Hrun : run_ok b (map conv_chunk l) = true).
  { apply (run_ok_seq tb b n ca l Hm H1). exists cntb.
    replace (ca + N.of_nat n) with cb by lia. repeat split; assumption. }
  unfold chunks_cover.
  cbn [C09Spec.seqN map] in Hm. destruct l as [|x l']; [discriminate|].
  cbn [map] in Hm. injection Hm as Hx _. unfold C09Spec.S_chunk in Hx. rewrite Ecnta in Hx. injection Hx as ->.
  cbn [map conv_chunk cstart cn C09Model.ch_start C09Model.ch_n] in *.
  rewrite Hrun.
  assert (1 <= C09Spec.S_first_in_chunk tb ca) by (unfold C09Spec.S_first_in_chunk; lia).
  repeat (apply andb_true_iff; split); lia.
Qed.

(* CopySampleData end to end: GetContainingChunks (C09 model) then the chunk loop *)
Lemma copy_samples_end_to_end file startPos large payloadLen (tb : C09Model.tables) a b ws zeof orc :
  box_in_file file startPos large payloadLen = true ->
  C09Spec.consistent tb = true ->
  1 <= a -> a <= b -> b <= C09Spec.nsamples tb ->
  exists l, C09Model.stsc_get_containing_chunks (C09Model.sc_entries (C09Model.t_stsc tb)) a b = Ok l /\
    (chunks_in_payload (conv_tb tb) startPos large payloadLen (map conv_chunk l) = true ->
     copy_sample_data true file zeof (mdat_mem file startPos large payloadLen) (Some (mkRS 0 orc))
                      (conv_tb tb) (map conv_chunk l) a b ws
     = Ok (expected_samples file (conv_tb tb) (map conv_chunk l) a b)
     /\ copy_sample_data true file zeof (mdat_lazy startPos large payloadLen) (Some (mkRS 0 orc))
                         (conv_tb tb) (map conv_chunk l) a b ws
     = Ok (expected_samples file (conv_tb tb) (map conv_chunk l) a b)).
Proof.
  intros Hb Hc Ha Hab Hbn.
  destruct (containing_chunks_cover tb Hc a b Ha Hab Hbn) as (l & Hl & Hcov).
  exists l. split; [exact Hl|]. intros Hp.
  apply copy_samples; assumption.
Qed.
