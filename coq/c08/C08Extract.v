(* Extraction of the C08 models for the correspondence check. ExtrOcamlBasic only. *)
From V.lib Require Import Base.
From V.c08 Require Import C08Model C08Spec C08SelModel C08FragModel C08EncModel C08SwModel.
Require Import ExtrOcamlBasic.
Separate Extraction
  rsk rf mdat boxhdr
  rs_read read_full copy_n
  mdat_size header_size payload_abs_offset mdat_encode
  decode_header decode_box_mdat
  read_data copy_data
  chunk stbl mstate chunk_seg copy_sample_data
  box_in_file valid_range header_at chunks_cover chunks_in_payload expected_samples
  topbox boxdesc decode_file_top layout_at views erase
  payload_size file_mdat mdat_view decode_file_mdat
  aux tbox frag seg fstate decode_file_frag fin_state mkey mdat_is_lazy
  encode_tops encode_tops_splice elide mdat_for_writing
  swr sw_write mdat_encode_sw encode_tops_sw sw_new lazy_size_after sizes_from.
