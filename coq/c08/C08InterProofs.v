(* C08InterProofs.v — CopySampleData on files with several tracks whose chunks are interleaved in one mdat:
   C08_copy_samples assumes nothing about the ORDER or the spacing of the chunk offsets of the copied track
   (chunks_cover speaks about sample numbers, chunks_in_payload about each chunk separately), so it applies to
   every track of a multi-track file, whatever lies between its chunks. *)
From V.lib Require Import Base.
From V.c08 Require Import C08Model C08Spec C08CopyProofs.

Definition track_ok (startPos : N) (large : bool) (payloadLen : N) (t : stbl * list chunk * N * N) : bool :=
  let '(tb, chunks, a, b) := t in chunks_cover a b chunks && chunks_in_payload tb startPos large payloadLen chunks.

Lemma copy_samples_multitrack file startPos large payloadLen (tracks : list (stbl * list chunk * N * N)) ws zeof orc :
  box_in_file file startPos large payloadLen = true ->
  forallb (track_ok startPos large payloadLen) tracks = true ->
  Forall (fun t => let '(tb, chunks, a, b) := t in
            copy_sample_data true file zeof (mdat_mem file startPos large payloadLen) (Some (mkRS 0 orc)) tb chunks a b ws
            = Ok (expected_samples file tb chunks a b)
            /\ copy_sample_data true file zeof (mdat_lazy startPos large payloadLen) (Some (mkRS 0 orc)) tb chunks a b ws
            = Ok (expected_samples file tb chunks a b)) tracks.
Proof.
  intros Hb Hall. rewrite forallb_forall in Hall. apply Forall_forall. intros [[[tb chunks] a] b] Hin.
  specialize (Hall _ Hin). cbn [track_ok] in Hall. apply andb_prop in Hall. destruct Hall as [Hc Hp].
  apply copy_samples; assumption.
Qed.
