(* C08SwProofs.v — MdatBox.EncodeSW / File.EncodeSW (FixedSliceWriter) against MdatBox.Encode / File.Encode. *)
From V.lib Require Import Base.
From V.c08 Require Import C08Model C08Spec C08SelModel C08EncModel C08ReadProofs C08HeaderProofs C08EncProofs C08SwModel.

Definition sw_push (w : swr) (d : list N) : swr := mkSW (sw_cap w) (sw_out w ++ d) (sw_err w).

Lemma sw_write_fit w d : lenN (sw_out w) + lenN d <= sw_cap w -> sw_write w d = sw_push w d.
Proof. intros H. unfold sw_write, sw_push. replace (sw_cap w <? lenN (sw_out w) + lenN d) with false by lia. reflexivity. Qed.

Lemma sw_write_nofit w d : sw_cap w < lenN (sw_out w) + lenN d -> sw_write w d = mkSW (sw_cap w) (sw_out w) true.
Proof. intros H. unfold sw_write. replace (sw_cap w <? lenN (sw_out w) + lenN d) with true by lia. reflexivity. Qed.

Lemma sw_write_cap w d : sw_cap (sw_write w d) = sw_cap w.
Proof. unfold sw_write. destruct (_ <? _); reflexivity. Qed.

Lemma sw_write_err w d : sw_err w = true -> sw_err (sw_write w d) = true.
Proof. unfold sw_write. destruct (_ <? _); cbn [sw_err]; auto. Qed.

Lemma sw_push_push w a b : sw_push (sw_push w a) b = sw_push w (a ++ b).
Proof. unfold sw_push. cbn [sw_cap sw_out sw_err]. now rewrite app_assoc. Qed.

Lemma sw_push_nil w : sw_push w [] = w.
Proof. destruct w as [c o e]. unfold sw_push. cbn [sw_cap sw_out sw_err]. now rewrite app_nil_r. Qed.

Ltac okinj E := match type of E with Ok ?x = Ok ?b => assert (Hbs__ : b = x) by congruence; subst b; clear E end.

Lemma len_be32 x : lenN (be32 x) = 4. Proof. reflexivity. Qed.
Lemma len_be64 x : lenN (be64 x) = 8. Proof. reflexivity. Qed.
Lemma len_name : lenN name_mdat = 4. Proof. reflexivity. Qed.
Lemma sw_out_push w d : sw_out (sw_push w d) = sw_out w ++ d. Proof. reflexivity. Qed.
Lemma sw_cap_push w d : sw_cap (sw_push w d) = sw_cap w. Proof. reflexivity. Qed.
Lemma sw_err_push w d : sw_err (sw_push w d) = sw_err w. Proof. reflexivity. Qed.
Ltac swl := cbn [sw_out sw_cap sw_err];
  rewrite ?sw_out_push, ?sw_cap_push, ?sw_err_push, ?lenN_app, ?len_be32, ?len_name, ?len_be64; lia.

(* ------------------------------------------------------------------ one mdat box *)
(* the bytes fit: EncodeSW appends exactly what Encode writes, no error *)
Lemma mdat_encode_sw_fit m w bs :
  mdat_encode m = Ok bs -> sw_err w = false -> lenN (sw_out w) + lenN bs <= sw_cap w ->
  mdat_encode_sw m w = (true, sw_push w bs).
Proof.
  unfold mdat_encode, mdat_encode_sw. destruct (mdat_size m) as [size large].
  unfold encode_header_with_size, encode_header_with_size_sw.
  destruct (negb large && (4294967296 <=? size)); [discriminate|].
  destruct large; cbn [negb rbind]; intros E He Hf; okinj E.
  - rewrite !lenN_app, len_be32, len_name, len_be64 in Hf.
    rewrite (sw_write_fit w) by swl.
    rewrite (sw_write_fit (sw_push w _)) by swl.
    rewrite (sw_write_fit (sw_push (sw_push w _) _))
      by swl.
    rewrite !sw_err_push, He. cbn [negb].
    rewrite sw_write_fit by swl.
    rewrite !sw_err_push, He. cbn [negb]. rewrite !sw_push_push, <- !app_assoc. reflexivity.
  - rewrite !lenN_app, len_be32, len_name in Hf.
    rewrite (sw_write_fit w) by swl.
    rewrite (sw_write_fit (sw_push w _)) by swl.
    rewrite !sw_err_push, He. cbn [negb].
    rewrite sw_write_fit by swl.
    rewrite !sw_err_push, He. cbn [negb]. rewrite !sw_push_push, <- !app_assoc. reflexivity.
Qed.

(* the bytes do not fit: error, and the buffer holds the old contents plus a proper prefix of the box (whole
   header fields only: a field that does not fit is skipped, and then every later field is too long as well) *)
Lemma mdat_encode_sw_nofit m w bs :
  mdat_encode m = Ok bs -> sw_cap w < lenN (sw_out w) + lenN bs ->
  exists pre rest, bs = pre ++ rest /\ rest <> [] /\
    mdat_encode_sw m w = (false, mkSW (sw_cap w) (sw_out w ++ pre) true).
Proof.
  unfold mdat_encode, mdat_encode_sw. destruct (mdat_size m) as [size large].
  unfold encode_header_with_size, encode_header_with_size_sw.
  destruct (negb large && (4294967296 <=? size)); [discriminate|].
  destruct large; cbn [negb rbind]; intros E Hf; okinj E.
  - rewrite !lenN_app, len_be32, len_name, len_be64 in Hf.
    destruct (N.ltb_spec (sw_cap w) (lenN (sw_out w) + 4)) as [H1|H1].
    { exists [], ((be32 1 ++ name_mdat ++ be64 size) ++ Data m). split; [reflexivity|]. split; [discriminate|].
      rewrite (sw_write_nofit w) by swl.
      rewrite (sw_write_nofit _ name_mdat) by swl.
      rewrite (sw_write_nofit _ (be64 size)) by swl.
      cbn [sw_err negb sw_cap sw_out]. now rewrite app_nil_r. }
    rewrite (sw_write_fit w) by swl.
    destruct (N.ltb_spec (sw_cap w) (lenN (sw_out w) + 8)) as [H2|H2].
    { exists (be32 1), ((name_mdat ++ be64 size) ++ Data m). split; [now rewrite <- !app_assoc|]. split; [discriminate|].
      rewrite (sw_write_nofit _ name_mdat) by swl.
      rewrite (sw_write_nofit _ (be64 size)) by swl.
      cbn [sw_err negb sw_cap sw_out]. rewrite !sw_out_push, ?sw_cap_push. reflexivity. }
    rewrite (sw_write_fit (sw_push w _)) by swl.
    destruct (N.ltb_spec (sw_cap w) (lenN (sw_out w) + 16)) as [H3|H3].
    { exists (be32 1 ++ name_mdat), (be64 size ++ Data m). split; [now rewrite <- !app_assoc|]. split; [discriminate|].
      rewrite (sw_write_nofit _ (be64 size)) by swl.
      cbn [sw_err negb sw_cap sw_out]. rewrite !sw_out_push, ?sw_cap_push. now rewrite <- app_assoc. }
    rewrite (sw_write_fit (sw_push (sw_push w _) _))
      by swl.
    exists (be32 1 ++ name_mdat ++ be64 size), (Data m). split; [reflexivity|].
    split; [intros Hn; rewrite Hn in Hf; change (lenN (@nil N)) with 0 in Hf; lia|].
    rewrite !sw_err_push. destruct (sw_err w) eqn:He; cbn [negb].
    + unfold sw_push. cbn [sw_err sw_cap sw_out]. rewrite He. now rewrite <- !app_assoc.
    + rewrite (sw_write_nofit _ (Data m)) by swl.
      cbn [sw_err negb sw_cap sw_out]. rewrite !sw_out_push, ?sw_cap_push. now rewrite <- !app_assoc.
  - rewrite !lenN_app, len_be32, len_name in Hf.
    destruct (N.ltb_spec (sw_cap w) (lenN (sw_out w) + 4)) as [H1|H1].
    { exists [], ((be32 (u32 size) ++ name_mdat) ++ Data m). split; [reflexivity|]. split; [discriminate|].
      rewrite (sw_write_nofit w) by swl.
      rewrite (sw_write_nofit _ name_mdat) by swl.
      cbn [sw_err negb sw_cap sw_out]. now rewrite app_nil_r. }
    rewrite (sw_write_fit w) by swl.
    destruct (N.ltb_spec (sw_cap w) (lenN (sw_out w) + 8)) as [H2|H2].
    { exists (be32 (u32 size)), (name_mdat ++ Data m). split; [now rewrite <- !app_assoc|]. split; [discriminate|].
      rewrite (sw_write_nofit _ name_mdat) by swl.
      cbn [sw_err negb sw_cap sw_out]. rewrite !sw_out_push, ?sw_cap_push. reflexivity. }
    rewrite (sw_write_fit (sw_push w _)) by swl.
    exists (be32 (u32 size) ++ name_mdat), (Data m). split; [reflexivity|].
    split; [intros Hn; rewrite Hn in Hf; change (lenN (@nil N)) with 0 in Hf; lia|].
    rewrite !sw_err_push. destruct (sw_err w) eqn:He; cbn [negb].
    + unfold sw_push. cbn [sw_err sw_cap sw_out]. rewrite He. now rewrite <- !app_assoc.
    + rewrite (sw_write_nofit _ (Data m)) by swl.
      cbn [sw_err negb sw_cap sw_out]. rewrite !sw_out_push, ?sw_cap_push. now rewrite <- !app_assoc.
Qed.

(* Encode refuses (size >= 2^32 without the large flag: cannot happen after Size(), kept for the mirror) *)
Lemma mdat_encode_sw_refused m w : mdat_encode m = Err -> mdat_encode_sw m w = (false, w).
Proof.
  unfold mdat_encode, mdat_encode_sw. destruct (mdat_size m) as [size large].
  unfold encode_header_with_size, encode_header_with_size_sw.
  destruct (negb large && (4294967296 <=? size)); [reflexivity|].
  destruct large; cbn [negb rbind]; discriminate.
Qed.

(* an error accumulated before the call is returned (whatever fits is still written) *)
Lemma mdat_encode_sw_sticky m w : sw_err w = true -> fst (mdat_encode_sw m w) = false.
Proof.
  intros He. unfold mdat_encode_sw. destruct (mdat_size m) as [size large].
  unfold encode_header_with_size_sw.
  destruct (negb large && (4294967296 <=? size)); [reflexivity|].
  destruct large; cbn [negb]; rewrite !sw_write_err by (repeat apply sw_write_err; assumption); reflexivity.
Qed.

Lemma mdat_encode_total m : mdat_encode m = Err \/ exists bs, mdat_encode m = Ok bs.
Proof.
  unfold mdat_encode. destruct (mdat_size m) as [size large]. unfold encode_header_with_size.
  destruct (negb large && (4294967296 <=? size)); [left; reflexivity|].
  destruct (negb large); cbn [rbind]; right; eexists; reflexivity.
Qed.

(* the clause of the property: EncodeSW of the lazily decoded box writes exactly the original header bytes and
   needs only HeaderSize() bytes of room (Size() counts the payload); EncodeSW of the in-memory box writes the
   whole box; header ++ payload = box.  With less room: error in either mode. *)
Lemma lazy_encode_sw file startPos large payloadLen w :
  box_in_file file startPos large payloadLen = true ->
  header_at file startPos large payloadLen = true ->
  sw_err w = false ->
  (lenN (sw_out w) + hdr_len large <= sw_cap w ->
     mdat_encode_sw (mdat_lazy startPos large payloadLen) w = (true, sw_push w (sub file startPos (hdr_len large))))
  /\ (sw_cap w < lenN (sw_out w) + hdr_len large ->
     fst (mdat_encode_sw (mdat_lazy startPos large payloadLen) w) = false)
  /\ (lenN (sw_out w) + hdr_len large + payloadLen <= sw_cap w ->
     mdat_encode_sw (mdat_mem file startPos large payloadLen) w
     = (true, sw_push w (sub file startPos (hdr_len large) ++ sub file (startPos + hdr_len large) payloadLen)))
  /\ (sw_cap w < lenN (sw_out w) + hdr_len large + payloadLen ->
     fst (mdat_encode_sw (mdat_mem file startPos large payloadLen) w) = false).
Proof.
  intros Hb Hh He.
  destruct (header_plus_payload file startPos large payloadLen Hb Hh) as (EL & Happ & EM & _ & _).
  assert (L1 : lenN (sub file startPos (hdr_len large)) = hdr_len large).
  { unfold box_in_file in Hb. apply sub_length. destruct large; cbn [hdr_len] in *; lia. }
  assert (L2 : lenN (sub file startPos (hdr_len large + payloadLen)) = hdr_len large + payloadLen).
  { unfold box_in_file in Hb. apply sub_length. destruct large; cbn [hdr_len] in *; lia. }
  repeat split.
  - intros Hf. apply mdat_encode_sw_fit; [exact EL|exact He|rewrite L1; exact Hf].
  - intros Hf. destruct (mdat_encode_sw_nofit _ w _ EL) as (pre & rest & _ & _ & ->); [rewrite L1; exact Hf|reflexivity].
  - intros Hf. rewrite Happ. apply mdat_encode_sw_fit; [exact EM|exact He|rewrite L2; lia].
  - intros Hf. destruct (mdat_encode_sw_nofit _ w _ EM) as (pre & rest & _ & _ & ->); [rewrite L2; lia|reflexivity].
Qed.

(* ------------------------------------------------------------------ File.EncodeSW *)
Lemma encode_top_sw_fit file t w a :
  encode_top file t = Ok a -> sw_err w = false -> lenN (sw_out w) + lenN a <= sw_cap w ->
  encode_top_sw file t w = (true, sw_push w a).
Proof.
  destruct t as [name sp size|m size]; cbn [encode_top encode_top_sw].
  - intros E He Hf. injection E as <-. rewrite sw_write_fit by exact Hf. cbn [sw_push sw_err]. now rewrite He.
  - apply mdat_encode_sw_fit.
Qed.

Lemma encode_top_sw_nofit file t w a :
  encode_top file t = Ok a -> sw_cap w < lenN (sw_out w) + lenN a ->
  fst (encode_top_sw file t w) = false.
Proof.
  destruct t as [name sp size|m size]; cbn [encode_top encode_top_sw].
  - intros E Hf. injection E as <-. rewrite sw_write_nofit by exact Hf. reflexivity.
  - intros E Hf. destruct (mdat_encode_sw_nofit m w a E Hf) as (pre & rest & _ & _ & ->). reflexivity.
Qed.

(* everything fits: File.EncodeSW appends exactly what File.Encode writes *)
Lemma encode_tops_sw_fit file : forall ts w bs,
  encode_tops file ts = Ok bs -> sw_err w = false -> lenN (sw_out w) + lenN bs <= sw_cap w ->
  encode_tops_sw file ts w = (true, sw_push w bs).
Proof.
  induction ts as [|t r IH]; intros w bs E He Hf; cbn [encode_tops encode_tops_sw] in *.
  - injection E as <-. now rewrite sw_push_nil.
  - destruct (encode_top file t) as [a| | |] eqn:Ea; cbn [rbind] in E; try discriminate.
    destruct (encode_tops file r) as [b| | |] eqn:Eb; cbn [rbind] in E; try discriminate.
    injection E as <-. rewrite lenN_app in Hf.
    rewrite (encode_top_sw_fit file t w a Ea He) by lia.
    rewrite (IH (sw_push w a) b eq_refl); [|exact He|swl].
    now rewrite sw_push_push.
Qed.

(* it does not fit: error (somewhere along the children) *)
Lemma encode_tops_sw_nofit file : forall ts w bs,
  encode_tops file ts = Ok bs -> sw_err w = false -> lenN (sw_out w) <= sw_cap w ->
  sw_cap w < lenN (sw_out w) + lenN bs ->
  fst (encode_tops_sw file ts w) = false.
Proof.
  induction ts as [|t r IH]; intros w bs E He Hwf Hf; cbn [encode_tops encode_tops_sw] in *.
  - injection E as <-. change (lenN (@nil N)) with 0 in Hf. lia.
  - destruct (encode_top file t) as [a| | |] eqn:Ea; cbn [rbind] in E; try discriminate.
    destruct (encode_tops file r) as [b| | |] eqn:Eb; cbn [rbind] in E; try discriminate.
    injection E as <-. rewrite lenN_app in Hf.
    destruct (N.ltb_spec (sw_cap w) (lenN (sw_out w) + lenN a)) as [H1|H1].
    + assert (F := encode_top_sw_nofit file t w a Ea H1). destruct (encode_top_sw file t w) as [ok w1].
      cbn [fst] in F. subst ok. reflexivity.
    + rewrite (encode_top_sw_fit file t w a Ea He H1).
      apply (IH (sw_push w a) b eq_refl); [exact He|swl|swl].
Qed.

Lemma lenN_elide_le file : forall bs pos, layout_at file pos bs = true -> lenN (elide file pos bs) + pos <= lenN file.
Proof.
  induction bs as [|b t IH]; intros pos H; cbn [layout_at elide] in *.
  - change (lenN (@nil N)) with 0. apply N.eqb_eq in H. lia.
  - apply andb_true_iff in H. destruct H as [H H3]. apply andb_true_iff in H. destruct H as [_ H2].
    apply N.leb_le in H2. rewrite lenN_app.
    replace (pos + (hdr_len (blarge b) + bplen b)) with (pos + hdr_len (blarge b) + bplen b) in * by lia.
    specialize (IH _ H3).
    assert (La : forall k, lenN (sub file pos k) <= k) by (intros k; apply sub_length_le).
    destruct (eqb_list (bname b) name_mdat).
    + specialize (La (hdr_len (blarge b))). lia.
    + specialize (La (hdr_len (blarge b) + bplen b)). lia.
Qed.

(* File.EncodeSW (progressive file / EncModeBoxTree) of both decodings of a file that is a sequence of boxes:
   - in memory: needs lenN file bytes of room (= File.Size()) and appends the file;
   - lazily decoded: appends the file with every mdat payload left out (header only) and needs only that much
     room - in particular a writer of File.Size() bytes (which counts the payloads in both modes) is enough;
   - with less room than that: error, in either mode. *)
Lemma file_encode_sw file bs w : lenN file < 9223372036854775808 ->
  layout_at file 0 bs = true -> sw_err w = false -> lenN (sw_out w) <= sw_cap w ->
  (lenN (sw_out w) + lenN file <= sw_cap w ->
     encode_tops_sw file (views false file 0 bs) w = (true, sw_push w file))
  /\ (lenN (sw_out w) + lenN (elide file 0 bs) <= sw_cap w ->
     encode_tops_sw file (views true file 0 bs) w = (true, sw_push w (elide file 0 bs)))
  /\ lenN (elide file 0 bs) <= lenN file
  /\ (sw_cap w < lenN (sw_out w) + lenN file -> fst (encode_tops_sw file (views false file 0 bs) w) = false)
  /\ (sw_cap w < lenN (sw_out w) + lenN (elide file 0 bs) -> fst (encode_tops_sw file (views true file 0 bs) w) = false).
Proof.
  intros Hfl Hl He Hwf. destruct (file_encode file true (fun _ => []) bs Hfl Hl) as (A & B & _).
  assert (Le := lenN_elide_le file bs 0 Hl).
  repeat split.
  - intros Hf. now apply encode_tops_sw_fit.
  - intros Hf. now apply encode_tops_sw_fit.
  - lia.
  - intros Hf. now apply (encode_tops_sw_nofit file _ w file).
  - intros Hf. now apply (encode_tops_sw_nofit file _ w (elide file 0 bs)).
Qed.

(* the four cases of MdatBox.EncodeSW against MdatBox.Encode, for ANY mdat box and ANY writer state *)
Lemma encode_sw_equal m w :
  (forall bs, mdat_encode m = Ok bs -> sw_err w = false -> lenN (sw_out w) + lenN bs <= sw_cap w ->
     mdat_encode_sw m w = (true, mkSW (sw_cap w) (sw_out w ++ bs) false))
  /\ (forall bs, mdat_encode m = Ok bs -> sw_cap w < lenN (sw_out w) + lenN bs ->
     exists pre rest, bs = pre ++ rest /\ rest <> [] /\
       mdat_encode_sw m w = (false, mkSW (sw_cap w) (sw_out w ++ pre) true))
  /\ (mdat_encode m = Err -> mdat_encode_sw m w = (false, w))
  /\ (sw_err w = true -> fst (mdat_encode_sw m w) = false)
  /\ (mdat_encode m = Err \/ exists bs, mdat_encode m = Ok bs).
Proof.
  split; [|split; [|split; [|split]]].
  - intros bs E He Hf. rewrite (mdat_encode_sw_fit m w bs E He Hf). unfold sw_push. now rewrite He.
  - intros bs. apply mdat_encode_sw_nofit.
  - apply mdat_encode_sw_refused.
  - apply mdat_encode_sw_sticky.
  - apply mdat_encode_total.
Qed.

Lemma lazy_encode_sw' file startPos large payloadLen w :
  box_in_file file startPos large payloadLen = true ->
  header_at file startPos large payloadLen = true ->
  sw_err w = false ->
  (lenN (sw_out w) + hdr_len large <= sw_cap w ->
     mdat_encode_sw (mdat_lazy startPos large payloadLen) w
     = (true, mkSW (sw_cap w) (sw_out w ++ sub file startPos (hdr_len large)) false))
  /\ (sw_cap w < lenN (sw_out w) + hdr_len large ->
     fst (mdat_encode_sw (mdat_lazy startPos large payloadLen) w) = false)
  /\ (lenN (sw_out w) + hdr_len large + payloadLen <= sw_cap w ->
     mdat_encode_sw (mdat_mem file startPos large payloadLen) w
     = (true, mkSW (sw_cap w) (sw_out w ++ sub file startPos (hdr_len large) ++ sub file (startPos + hdr_len large) payloadLen) false))
  /\ (sw_cap w < lenN (sw_out w) + hdr_len large + payloadLen ->
     fst (mdat_encode_sw (mdat_mem file startPos large payloadLen) w) = false)
  /\ sub file startPos (hdr_len large) ++ sub file (startPos + hdr_len large) payloadLen
     = sub file startPos (hdr_len large + payloadLen).
Proof.
  intros Hb Hh He. destruct (lazy_encode_sw file startPos large payloadLen w Hb Hh He) as (A & B & C & D).
  unfold sw_push in A, C. rewrite He in A, C. repeat split; try assumption.
  now destruct (header_plus_payload file startPos large payloadLen Hb Hh) as (_ & Happ & _).
Qed.

Lemma file_encode_sw' file bs w : lenN file < 9223372036854775808 ->
  layout_at file 0 bs = true -> sw_err w = false -> lenN (sw_out w) <= sw_cap w ->
  (lenN (sw_out w) + lenN file <= sw_cap w ->
     encode_tops_sw file (views false file 0 bs) w = (true, mkSW (sw_cap w) (sw_out w ++ file) false))
  /\ (lenN (sw_out w) + lenN (elide file 0 bs) <= sw_cap w ->
     encode_tops_sw file (views true file 0 bs) w = (true, mkSW (sw_cap w) (sw_out w ++ elide file 0 bs) false))
  /\ lenN (elide file 0 bs) <= lenN file
  /\ (sw_cap w < lenN (sw_out w) + lenN file -> fst (encode_tops_sw file (views false file 0 bs) w) = false)
  /\ (sw_cap w < lenN (sw_out w) + lenN (elide file 0 bs) -> fst (encode_tops_sw file (views true file 0 bs) w) = false).
Proof.
  intros Hfl Hl He Hwf. destruct (file_encode_sw file bs w Hfl Hl He Hwf) as (A & B & C & D & E).
  unfold sw_push in A, B. rewrite He in A, B. repeat split; assumption.
Qed.
