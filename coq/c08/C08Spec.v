(* C08Spec.v — the specification side of C08: where an mdat box lies in a file, which ranges are
   valid, what the canonical header bytes are, and the naive per-sample expansion of the sample
   tables (which file bytes belong to sample k).  Definitions only. *)
From V.lib Require Import Base.
From V.c08 Require Import C08Model.

(* ------------------------------------------------------------------ valid ranges *)
(* One mdat box at startPos (header 8 or 16 bytes, payloadLen payload bytes) lies inside the file;
   positions fit Go's int64.  A valid range starts at a payload byte and ends at or before the
   end of the payload (size 0 allowed at a payload byte). *)
Definition hdr_len (large : bool) : N := if large then 16 else 8.

Definition box_in_file (file : list N) (startPos : N) (large : bool) (payloadLen : N) : bool :=
  (startPos + hdr_len large + payloadLen <=? lenN file) && (lenN file <? 9223372036854775808).

Definition valid_range (startPos : N) (large : bool) (payloadLen : N) (start size : Z) : bool :=
  let ps := Z.of_N (startPos + hdr_len large) in
  ((ps <=? start) && (start <? ps + Z.of_N payloadLen) && (0 <=? size)
   && (start + size <=? ps + Z.of_N payloadLen))%Z.

(* ------------------------------------------------------------------ header bytes *)

(* the bytes at startPos are an mdat header announcing payloadLen payload bytes: a 32-bit size
   field (possible when 8 + payloadLen < 2^32) or size = 1 followed by the 64-bit size *)
Definition canonical_header (large : bool) (payloadLen : N) : list N :=
  if large then be32 1 ++ name_mdat ++ be64 (16 + payloadLen)
  else be32 (8 + payloadLen) ++ name_mdat.

Definition header_at (file : list N) (startPos : N) (large : bool) (payloadLen : N) : bool :=
  eqb_list (sub file startPos (hdr_len large)) (canonical_header large payloadLen)
  && (large || (8 + payloadLen <? 4294967296)).

(* ------------------------------------------------------------------ sample layout (ISO 14496-12 8.7) *)
Fixpoint seqN (from : N) (count : nat) : list N :=
  match count with O => [] | S c => from :: seqN (from + 1) c end.

(* size of sample k (1-based): stsz entry, or the uniform size when there is no per-sample table *)
Definition size_of (tb : stbl) (k : N) : N :=
  if lenN (sample_sizes tb) <? k then uniform_size tb
  else nth (N.to_nat (k - 1)) (sample_sizes tb) 0.

Definition sizes_from (tb : stbl) (from : N) (count : nat) : list N := map (size_of tb) (seqN from count).

Definition chunk_offset_of (tb : stbl) (c : chunk) : N := nth (N.to_nat (cnr c - 1)) (chunk_offsets tb) 0.

(* sample k of chunk c starts at the chunk offset plus the sizes of the chunk's earlier samples *)
Definition sample_offset (tb : stbl) (c : chunk) (k : N) : N :=
  chunk_offset_of tb c + sumN (sizes_from tb (cstart c) (N.to_nat (k - cstart c))).

Definition sample_bytes (file : list N) (tb : stbl) (c : chunk) (k : N) : list N :=
  sub file (sample_offset tb c k) (size_of tb k).

(* the bytes of samples a..b, sample by sample, over a run of consecutive chunks *)
Definition chunk_expected (file : list N) (tb : stbl) (a b : N) (c : chunk) : list N :=
  concat (map (fun k => if (a <=? k) && (k <=? b) then sample_bytes file tb c k else [])
              (seqN (cstart c) (N.to_nat (cn c)))).

Definition expected_samples (file : list N) (tb : stbl) (chunks : list chunk) (a b : N) : list N :=
  concat (map (chunk_expected file tb a b) chunks).

(* `chunks` is a run of consecutive chunks (each starts at the sample after the previous one's last)
   whose last chunk contains sample b *)
Fixpoint run_ok (b : N) (chunks : list chunk) : bool :=
  match chunks with
  | [] => false
  | c :: rest =>
      match rest with
      | [] => (cstart c <=? b) && (b <? cstart c + cn c)
      | c' :: _ => (cstart c' =? cstart c + cn c) && run_ok b rest
      end
  end.

(* ... and whose first chunk contains sample a; 1 <= a <= b < 2^32 - 1 *)
Definition chunks_cover (a b : N) (chunks : list chunk) : bool :=
  match chunks with
  | [] => false
  | c :: _ => (1 <=? cstart c) && (cstart c <=? a) && (a <? cstart c + cn c)
  end && (a <=? b) && (b <? 4294967295) && run_ok b chunks.

(* every chunk of the run has an stco/co64 entry and lies inside [pstart, pend) *)
Definition chunk_in_payload (tb : stbl) (pstart pend : N) (c : chunk) : bool :=
  (1 <=? cnr c) && (cnr c <=? lenN (chunk_offsets tb))
  && (pstart <=? chunk_offset_of tb c)
  && (chunk_offset_of tb c + sumN (sizes_from tb (cstart c) (N.to_nat (cn c))) <=? pend).

Definition chunks_in_payload (tb : stbl) (startPos : N) (large : bool) (payloadLen : N) (chunks : list chunk) : bool :=
  forallb (chunk_in_payload tb (startPos + hdr_len large) (startPos + hdr_len large + payloadLen)) chunks.

(* ------------------------------------------------------------------ top-level layout of a file *)
(* a box header with an arbitrary 4-byte type *)
Definition canonical_header_n (name : list N) (large : bool) (payloadLen : N) : list N :=
  if large then be32 1 ++ name ++ be64 (16 + payloadLen)
  else be32 (8 + payloadLen) ++ name.

Definition header_at_n (file : list N) (startPos : N) (name : list N) (large : bool) (payloadLen : N) : bool :=
  eqb_list (sub file startPos (hdr_len large)) (canonical_header_n name large payloadLen)
  && (large || (8 + payloadLen <? 4294967296)) && (length name =? 4)%nat.

Record boxdesc := mkBD { bname : list N; blarge : bool; bplen : N }.

(* the file is exactly a sequence of boxes b1 b2 ... laid out from pos to the end *)
Fixpoint layout_at (file : list N) (pos : N) (bs : list boxdesc) : bool :=
  match bs with
  | [] => pos =? lenN file
  | b :: t =>
      header_at_n file pos (bname b) (blarge b) (bplen b)
      && (pos + hdr_len (blarge b) + bplen b <=? lenN file)
      && layout_at file (pos + hdr_len (blarge b) + bplen b) t
  end.

(* what each decode mode is expected to produce for the top-level boxes *)
Fixpoint views (lazy : bool) (file : list N) (pos : N) (bs : list boxdesc) : list topbox :=
  match bs with
  | [] => []
  | b :: t =>
      let size := hdr_len (blarge b) + bplen b in
      (if eqb_list (bname b) name_mdat
       then TMdat (if lazy then mdat_lazy pos (blarge b) (bplen b) else mdat_mem file pos (blarge b) (bplen b)) size
       else TBox (bname b) pos size)
      :: views lazy file (pos + size) t
  end.

(* the mode-independent part of a top-level box: type, position, size, and for mdat LargeSize *)
Definition erase (t : topbox) : list N * N * N * bool :=
  match t with
  | TBox name sp size => (name, sp, size, false)
  | TMdat m size => (name_mdat, StartPos m, size, LargeSize m)
  end.
