(* C08Spec.v — the specification side of C08: where an mdat box lies in a file, which ranges are
   valid, what the canonical header bytes are, and the naive per-sample expansion of the sample
   tables (which file bytes belong to sample k).  Definitions only. *)
From V.lib Require Import Base.
From V.c08 Require Import C08Model.

(* ------------------------------------------------------------------ valid ranges *)
(* One mdat box at startPos (header 8 or 16 bytes, payloadLen payload bytes) lies inside the file;
   positions fit Go's int64.  A valid range starts at a payload byte and ends at or before the
   end of the payload (size 0 allowed at a payload byte). *)
Definition hdr_len (large : bool) : N := if large then 16 else 8.

Definition box_in_file (file : list N) (startPos : N) (large : bool) (payloadLen : N) : bool :=
  (startPos + hdr_len large + payloadLen <=? lenN file) && (lenN file <? 9223372036854775808).

Definition valid_range (startPos : N) (large : bool) (payloadLen : N) (start size : Z) : bool :=
  let ps := Z.of_N (startPos + hdr_len large) in
  ((ps <=? start) && (start <? ps + Z.of_N payloadLen) && (0 <=? size)
   && (start + size <=? ps + Z.of_N payloadLen))%Z.

(* ------------------------------------------------------------------ header bytes *)
Fixpoint eqb_list (a b : list N) : bool :=
  match a, b with
  | [], [] => true
  | x :: a', y :: b' => (x =? y) && eqb_list a' b'
  | _, _ => false
  end.

(* the bytes at startPos are an mdat header announcing payloadLen payload bytes: a 32-bit size
   field (possible when 8 + payloadLen < 2^32) or size = 1 followed by the 64-bit size *)
Definition canonical_header (large : bool) (payloadLen : N) : list N :=
  if large then be32 1 ++ name_mdat ++ be64 (16 + payloadLen)
  else be32 (8 + payloadLen) ++ name_mdat.

Definition header_at (file : list N) (startPos : N) (large : bool) (payloadLen : N) : bool :=
  eqb_list (sub file startPos (hdr_len large)) (canonical_header large payloadLen)
  && (large || (8 + payloadLen <? 4294967296)).
