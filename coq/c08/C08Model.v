(* C08Model.v — executable Gallina model of the lazy / in-memory mdat code paths of mp4ff:
     mp4/mdat.go   MdatBox.{Size,HeaderSize,PayloadAbsoluteOffset,Encode,ReadData,CopyData},
                   DecodeMdat, DecodeMdatLazily
     mp4/box.go    DecodeHeader, EncodeHeaderWithSize, DecodeBox / DecodeBoxLazyMdat (mdat case)
     mp4/file.go   File.CopySampleData (and examples/segmenter copyMediaData = its workLen 0 lazy branch)
     io            ReadFull, CopyN (Copy through a LimitedReader with the 32 KiB buffer)
   Definitions only.  The file is a byte list; an io.ReadSeeker is a position plus a
   short-read oracle (one entry consumed per non-empty Read: how many bytes that Read returns,
   clamped to 1..min(requested, remaining); an exhausted oracle means full reads).
   The io.Writer never fails.  DataParts (output-only, never set by a decoder) is not modelled.
   `strict` selects the text of the range check in the in-memory branch of ReadData/CopyData:
   false = pinned tree (`end >= dataLen`), true = repaired tree (`end > dataLen`).
   `guard` selects the head of the work-buffer refill loop of CopySampleData: false = pinned tree
   (`for {`), true = repaired tree (`for nrLeft > 0 {`). *)
From V.lib Require Import Base.

Definition sub {A} (l : list A) (start size : N) : list A :=
  firstn (N.to_nat size) (skipn (N.to_nat start) l).

(* Go conversions: int64 -> uint64 and the uint64 wrap, on Z *)
Definition two64 : Z := 18446744073709551616%Z.
Definition u64z (z : Z) : N := Z.to_N (z mod two64).
(* int64(x) of a uint64 x *)
Definition i64n (x : N) : Z := if x <? 9223372036854775808 then Z.of_N x else (Z.of_N x - two64)%Z.

(* ------------------------------------------------------------------ io.ReadSeeker *)
Record rsk := mkRS { rpos : N; rorc : list N }.

(* Read(p) with len(p) = want.  Returns (bytes, io.EOF?, new state).
   zeof = true : bytes.Reader behaviour (EOF is checked first, also for an empty p);
   zeof = false: os.File behaviour (an empty p returns 0, nil). *)
Definition rs_read (file : list N) (zeof : bool) (r : rsk) (want : N) : list N * bool * rsk :=
  let flen := lenN file in
  if (want =? 0) && negb zeof then ([], false, r)
  else if flen <=? rpos r then ([], true, r)
  else if want =? 0 then ([], false, r)
  else
    let avail := N.min want (flen - rpos r) in
    let '(k, orc') := match rorc r with
                      | [] => (avail, [])
                      | o :: t => (N.max 1 (N.min o avail), t)
                      end in
    (sub file (rpos r) k, false, mkRS (rpos r + k) orc').

Definition rs_seek_start (r : rsk) (off : Z) : res rsk :=
  if (off <? 0)%Z then Err else Ok (mkRS (Z.to_N off) (rorc r)).

Definition rs_seek_cur (r : rsk) (off : Z) : res rsk :=
  let p := (Z.of_N (rpos r) + off)%Z in        (* int64 addition: a sum >= 2^63 wraps to a negative position *)
  if (p <? 0)%Z || (9223372036854775807 <? p)%Z then Err else Ok (mkRS (Z.to_N p) (rorc r)).

(* io.ReadFull(r, buf) with len(buf) - n = left.  RfEOF: io.EOF (nothing read at all),
   RfErr: io.ErrUnexpectedEOF. *)
Inductive rf (A : Type) : Type := RfOk (a : A) | RfEOF | RfErr | RfFuel.
Arguments RfOk {A} a.
Arguments RfEOF {A}.
Arguments RfErr {A}.
Arguments RfFuel {A}.

Fixpoint read_full_loop (fuel : nat) (file : list N) (zeof : bool) (r : rsk) (left : N)
         (none_yet : bool) : rf (list N * rsk) :=
  match fuel with
  | O => RfFuel
  | S f =>
      if left =? 0 then RfOk ([], r)
      else
        let '(d, eof, r') := rs_read file zeof r left in
        if eof then (if none_yet then RfEOF else RfErr)
        else match read_full_loop f file zeof r' (left - lenN d) false with
             | RfOk (rest, r'') => RfOk (d ++ rest, r'')
             | e => e
             end
  end.

Definition read_full (file : list N) (zeof : bool) (r : rsk) (size : N) : rf (list N * rsk) :=
  read_full_loop (S (N.to_nat size)) file zeof r size true.

Definition rf_res {A} (x : rf A) : res A :=
  match x with RfOk a => Ok a | RfEOF => Err | RfErr => Err | RfFuel => OutOfFuel end.

(* io.CopyN(w, rs, n), w a plain io.Writer that never fails: Copy(w, LimitReader(rs, n)) with
   buf of min(32768, n) bytes; every Read asks for min(len buf, l.N) = min(32768, left). *)
Fixpoint copy_n_loop (fuel : nat) (file : list N) (zeof : bool) (r : rsk) (left : N)
  : res (list N * rsk) :=
  match fuel with
  | O => OutOfFuel
  | S f =>
      if left =? 0 then Ok ([], r)                 (* LimitedReader: N <= 0 -> EOF; written == n *)
      else
        let '(d, eof, r') := rs_read file zeof r (N.min 32768 left) in
        if eof then Err                            (* written < n: CopyN returns io.EOF *)
        else do (rest, r'') <- copy_n_loop f file zeof r' (left - lenN d); Ok (d ++ rest, r'')
  end.

(* n <= 0: nothing is read, (0, nil) *)
Definition copy_n (file : list N) (zeof : bool) (r : rsk) (n : Z) : res (list N * rsk) :=
  if (n <=? 0)%Z then Ok ([], r)
  else copy_n_loop (S (Z.to_nat n)) file zeof r (Z.to_N n).

(* ------------------------------------------------------------------ MdatBox *)
Record mdat := mkMdat { StartPos : N; Data : list N; lazyDataSize : N; LargeSize : bool }.

Definition maxNormalPayloadSize : N := 4294967296 - 1 - 8.

Definition is_lazy (m : mdat) : bool := 0 <? lazyDataSize m.

(* Size() also sets m.LargeSize when the payload does not fit: returns (size, LargeSize after) *)
Definition mdat_size (m : mdat) : N * bool :=
  let dataSize := if 0 <? lazyDataSize m then lazyDataSize m else lenN (Data m) in
  let large := LargeSize m || (maxNormalPayloadSize <? dataSize) in
  (u64 (8 + dataSize + (if large then 8 else 0)), large).

Definition header_size (m : mdat) : N := if LargeSize m then 16 else 8.
Definition payload_abs_offset (m : mdat) : N := u64 (StartPos m + header_size m).

(* big endian *)
Definition be32 (x : N) : list N :=
  [ (x / 16777216) mod 256; (x / 65536) mod 256; (x / 256) mod 256; x mod 256 ].
Definition be64 (x : N) : list N := be32 (x / 4294967296) ++ be32 (x mod 4294967296).
Definition get_be (l : list N) : N := fold_left (fun a b => a * 256 + b) l 0.

Definition name_mdat : list N := [109; 100; 97; 116].

(* EncodeHeaderWithSize("mdat", size, large, w) *)
Definition encode_header_with_size (size : N) (large : bool) : res (list N) :=
  if negb large && (4294967296 <=? size) then Err
  else if negb large then Ok (be32 (u32 size) ++ name_mdat)
  else Ok (be32 1 ++ name_mdat ++ be64 size).

(* MdatBox.Encode: header, then m.Data (nil for a lazily decoded box) *)
Definition mdat_encode (m : mdat) : res (list N) :=
  let '(size, large) := mdat_size m in
  do h <- encode_header_with_size size large; Ok (h ++ Data m).

(* DecodeHeader(r): (name, size, hdrlen) *)
Record boxhdr := mkHdr { hname : list N; hsize : N; hlen : N }.

Definition decode_header (file : list N) (zeof : bool) (r : rsk) : rf (boxhdr * rsk) :=
  match read_full file zeof r 8 with
  | RfOk (buf, r1) =>
      let size := get_be (firstn 4 buf) in
      let name := skipn 4 buf in
      if size =? 1 then
        match read_full file zeof r1 8 with
        | RfOk (buf2, r2) =>
            let size2 := get_be buf2 in
            if size2 <? 16 then RfErr else RfOk (mkHdr name size2 16, r2)
        | RfEOF => RfEOF          (* the io.EOF of the second ReadFull is returned as is *)
        | RfErr => RfErr
        | RfFuel => RfFuel
        end
      else if size =? 0 then RfErr
      else if size <? 8 then RfErr
      else RfOk (mkHdr name size 8, r1)
  | RfEOF => RfEOF
  | RfErr => RfErr
  | RfFuel => RfFuel
  end.

(* readBoxBody: io.ReadAll(io.LimitReader(r, bodyLen)) then a length check.  The request sizes
   of ReadAll depend on append's growth policy; what is modelled is its effect with an
   exhausted oracle (full reads): min(bodyLen, remaining) bytes are consumed. *)
Definition read_box_body (file : list N) (r : rsk) (h : boxhdr) : res (list N * rsk) :=
  if hlen h =? hsize h then Ok ([], r)
  else
    let bodyLen := hsize h - hlen h in
    let body := sub file (rpos r) (N.min bodyLen (lenN file)) in   (* at most the whole file can be read *)
    if lenN body =? bodyLen then Ok (body, mkRS (rpos r + bodyLen) (rorc r)) else Err.

(* DecodeMdat / DecodeMdatLazily *)
Definition decode_mdat (file : list N) (h : boxhdr) (startPos : N) (r : rsk) : res (mdat * rsk) :=
  do (data, r') <- read_box_body file r h;
  Ok (mkMdat startPos data 0 (8 <? hlen h), r').

Definition decode_mdat_lazily (h : boxhdr) (startPos : N) : mdat :=
  mkMdat startPos [] (hsize h - hlen h) (8 <? hlen h).

(* DecodeBox / DecodeBoxLazyMdat restricted to an mdat header at startPos (reader already there) *)
Definition decode_box_mdat (lazy : bool) (file : list N) (zeof : bool) (startPos : N) (r : rsk)
  : rf (mdat * rsk) :=
  match decode_header file zeof r with
  | RfOk (h, r1) =>
      if lazy then
        let m := decode_mdat_lazily h startPos in
        match rs_seek_cur r1 (i64n (hsize h) - Z.of_N (hlen h)) with
        | Ok r2 => RfOk (m, r2)
        | _ => RfErr
        end
      else
        match decode_mdat file h startPos r1 with
        | Ok x => RfOk x
        | _ => RfErr
        end
  | RfEOF => RfEOF
  | RfErr => RfErr
  | RfFuel => RfFuel
  end.

(* ------------------------------------------------------------------ ReadData / CopyData *)
(* in-memory branch: offsets, validation, slice expression m.Data[off : off+uint64(size)] *)
Definition mem_slice (strict : bool) (m : mdat) (start size : Z) : res (list N) :=
  let mdatPayloadStart := payload_abs_offset m in
  let off := u64z (Z.of_N (u64z start) - Z.of_N mdatPayloadStart) in
  let endi := u64 (off + u64z size) in
  let dataLen := lenN (Data m) in
  if (dataLen <=? off) || (if strict then dataLen <? endi else dataLen <=? endi) then Err
  else if endi <? off then Panic              (* slice bounds out of range [off:endi] *)
  else if dataLen <? endi then Panic          (* cap(m.Data) = len(m.Data) assumed *)
  else Ok (sub (Data m) off (endi - off)).

Definition read_data (strict : bool) (file : list N) (zeof : bool) (m : mdat) (start size : Z)
           (rs : option rsk) : res (list N) :=
  if 0 <? lazyDataSize m then
    match rs with
    | None => Err
    | Some r =>
        do r1 <- rs_seek_start r start;
        if (size <? 0)%Z then Panic            (* make([]byte, size) *)
        else do (buf, _) <- rf_res (read_full file zeof r1 (Z.to_N size)); Ok buf
    end
  else mem_slice strict m start size.

Definition copy_data (strict : bool) (file : list N) (zeof : bool) (m : mdat) (start size : Z)
           (rs : option rsk) : res (list N) :=
  if 0 <? lazyDataSize m then
    match rs with
    | None => Err
    | Some r =>
        do r1 <- rs_seek_start r start;
        do (out, _) <- copy_n file zeof r1 size; Ok out
    end
  else mem_slice strict m start size.

(* the two decodings of one mdat box lying at startPos in the file *)
Definition mdat_mem (file : list N) (startPos : N) (large : bool) (payloadLen : N) : mdat :=
  mkMdat startPos (sub file (startPos + (if large then 16 else 8)) payloadLen) 0 large.
Definition mdat_lazy (startPos : N) (large : bool) (payloadLen : N) : mdat :=
  mkMdat startPos [] payloadLen large.

(* ------------------------------------------------------------------ File.CopySampleData *)
(* Chunk as returned by StscBox.GetContainingChunks; table view: stsz (per-sample sizes with the
   uniform fallback of GetSampleSize) and stco/co64 chunk offsets.  Sample and chunk numbers are
   Go uint32 (the wrap of `startNr + NrSamples - 1` is written out); the int64/uint64 sums of sample
   sizes are not wrapped (they are bounded by the file length in every theorem). *)
Record chunk := mkChunk { cnr : N; cstart : N; cn : N }.
Record stbl := mkStbl { sample_sizes : list N; uniform_size : N; chunk_offsets : list N }.

(* StszBox.GetSampleSize(i int) *)
Definition get_sample_size (tb : stbl) (i : N) : res N :=
  if lenN (sample_sizes tb) <? i then Ok (uniform_size tb)
  else if i =? 0 then Panic                         (* b.SampleSize[-1] *)
  else Ok (nth (N.to_nat (i - 1)) (sample_sizes tb) 0).

(* Stco/Co64.GetOffset(chunkNr int) *)
Definition get_chunk_offset (tb : stbl) (chunkNr : N) : res N :=
  if (chunkNr =? 0) || (lenN (chunk_offsets tb) <? chunkNr) then Err
  else Ok (nth (N.to_nat (chunkNr - 1)) (chunk_offsets tb) 0).

(* for sNr := from; <count times>; sNr++ { acc += GetSampleSize(sNr) } *)
Fixpoint sum_sizes (tb : stbl) (from : N) (count : nat) : res N :=
  match count with
  | O => Ok 0
  | S c => do s <- get_sample_size tb from; do rest <- sum_sizes tb (from + 1) c; Ok (s + rest)
  end.

(* the table part of one iteration of `for i, chunk := range chunks`: (offset, size) *)
Definition chunk_seg (tb : stbl) (c : chunk) (first last : bool) (startSampleNr endSampleNr : N)
  : res (N * N) :=
  let startNr := cstart c in
  let endNr := u32 (startNr + cn c + 4294967295) in          (* startNr + NrSamples - 1 in uint32 *)
  match get_chunk_offset tb (cnr c) with
  | Ok offset0 =>
      do (offset, startNr1) <-
         (if first then
            do skip <- sum_sizes tb (cstart c) (N.to_nat (startSampleNr - cstart c));
            Ok (u64 (offset0 + skip), startSampleNr)
          else Ok (offset0, startNr));
      let endNr1 := if last then endSampleNr else endNr in
      do size <- sum_sizes tb startNr1 (N.to_nat (endNr1 + 1 - startNr1));
      Ok (offset, size)
  | _ => Err
  end.

(* state of the data-moving part: reader, work buffer, workPos, bytes written to w so far *)
Record mstate := mkMS { ms_rs : rsk; ms_buf : list N; ms_pos : N; ms_out : list N }.

(* copy(workSpace[pos:], d) as done by Read *)
Definition buf_write (buf : list N) (pos : N) (d : list N) : list N :=
  firstn (N.to_nat pos) buf ++ d ++ skipn (N.to_nat pos + length d) buf.

(* the refill loop `for nrLeft > 0 { end := min(workLen, workPos+nrLeft); n, err := rs.Read(workSpace[workPos:end]) ... }`
   guard = true: repaired text; guard = false: pinned text `for {` (always reads once) *)
Fixpoint work_loop (guard : bool) (fuel : nat) (file : list N) (zeof : bool) (workLen : N) (st : mstate) (nrLeft : N)
  : res mstate :=
  match fuel with
  | O => OutOfFuel
  | S f =>
      if guard && (nrLeft =? 0) then Ok st else
      let workPos := ms_pos st in
      let endp := N.min workLen (workPos + nrLeft) in
      if endp <? workPos then Panic else
      let '(d, eof, r') := rs_read file zeof (ms_rs st) (endp - workPos) in
      if eof then Err
      else
        let n := lenN d in
        let buf' := buf_write (ms_buf st) workPos d in
        let nrLeft' := nrLeft - n in
        let workPos' := workPos + n in
        if nrLeft' =? 0 then Ok (mkMS r' buf' workPos' (ms_out st))
        else if workPos' =? workLen then
          work_loop guard f file zeof workLen (mkMS r' buf' 0 (ms_out st ++ buf')) nrLeft'   (* w.Write(workSpace) *)
        else work_loop guard f file zeof workLen (mkMS r' buf' workPos' (ms_out st)) nrLeft'
  end.

(* the data part of one iteration *)
Definition move_seg (guard : bool) (file : list N) (zeof : bool) (m : mdat) (workLen : N) (seg : N * N) (st : mstate)
  : res mstate :=
  let '(offset, size) := seg in
  if is_lazy m then
    do r1 <- rs_seek_start (ms_rs st) (i64n offset);
    if workLen =? 0 then
      do (d, r2) <- copy_n file zeof r1 (Z.of_N size);
      Ok (mkMS r2 (ms_buf st) (ms_pos st) (ms_out st ++ d))
    else
      work_loop guard (S (S (2 * N.to_nat size))) file zeof workLen
                (mkMS r1 (ms_buf st) (ms_pos st) (ms_out st)) size
  else
    let off := u64z (Z.of_N offset - Z.of_N (payload_abs_offset m)) in
    let endi := u64 (off + size) in
    if (endi <? off) || (lenN (Data m) <? endi) then Panic      (* mdat.Data[off : off+uint64(size)] *)
    else Ok (mkMS (ms_rs st) (ms_buf st) (ms_pos st) (ms_out st ++ sub (Data m) off (endi - off))).

Fixpoint chunks_loop (guard : bool) (file : list N) (zeof : bool) (m : mdat) (tb : stbl) (workLen : N)
         (startSampleNr endSampleNr : N) (chunks : list chunk) (first : bool) (st : mstate) : res mstate :=
  match chunks with
  | [] => Ok st
  | c :: rest =>
      do seg <- chunk_seg tb c first (match rest with [] => true | _ => false end) startSampleNr endSampleNr;
      do st' <- move_seg guard file zeof m workLen seg st;
      chunks_loop guard file zeof m tb workLen startSampleNr endSampleNr rest false st'
  end.

(* CopySampleData after GetContainingChunks returned `chunks` (progressive file, stco or co64 present);
   workSpace = the initial contents of the work buffer.  Returns everything written to w. *)
Definition copy_sample_data (guard : bool) (file : list N) (zeof : bool) (m : mdat) (rs : option rsk) (tb : stbl)
           (chunks : list chunk) (startSampleNr endSampleNr : N) (workSpace : list N) : res (list N) :=
  match (if is_lazy m then rs else Some (match rs with Some r => r | None => mkRS 0 [] end)) with
  | None => Err                                             (* no ReadSeeker for lazy mdat *)
  | Some r =>
      do st <- chunks_loop guard file zeof m tb (lenN workSpace) startSampleNr endSampleNr chunks true
                           (mkMS r workSpace 0 []);
      if 0 <? ms_pos st then Ok (ms_out st ++ firstn (N.to_nat (ms_pos st)) (ms_buf st))
      else Ok (ms_out st)
  end.

(* ------------------------------------------------------------------ DecodeFile: the top-level walk *)
Fixpoint eqb_list (a b : list N) : bool :=
  match a, b with
  | [], [] => true
  | x :: a', y :: b' => (x =? y) && eqb_list a' b'
  | _, _ => false
  end.

(* Top-level view of the decoded tree.  Every box other than mdat is decoded by the same Go function in
   both modes from the same reader position; it is opaque here: its body is consumed (readBoxBody /
   DecodeContainerChildren) and its Size() is taken to be the size in its header. *)
Inductive topbox := TBox (name : list N) (startPos size : N) | TMdat (m : mdat) (size : N).

(* DecodeBox (lazy = false) / DecodeBoxLazyMdat (lazy = true) at startPos *)
Definition decode_box_top (lazy : bool) (file : list N) (zeof : bool) (startPos : N) (r : rsk)
  : rf (topbox * rsk) :=
  match decode_header file zeof r with
  | RfOk (h, r1) =>
      if eqb_list (hname h) name_mdat then
        if lazy then
          let m := decode_mdat_lazily h startPos in
          match rs_seek_cur r1 (i64n (hsize h) - Z.of_N (hlen h)) with
          | Ok r2 => RfOk (TMdat m (fst (mdat_size m)), r2)
          | _ => RfErr
          end
        else
          match decode_mdat file h startPos r1 with
          | Ok (m, r2) => RfOk (TMdat m (fst (mdat_size m)), r2)
          | _ => RfErr
          end
      else
        match read_box_body file r1 h with
        | Ok (_, r2) => RfOk (TBox (hname h) startPos (hsize h), r2)
        | _ => RfErr
        end
  | RfEOF => RfEOF
  | RfErr => RfErr
  | RfFuel => RfFuel
  end.

(* the LoopBoxes loop of DecodeFile: boxStartPos += box.Size(); io.EOF from the header read ends it.
   (The "only one non-empty mdat" check and the segment/fragment bookkeeping of AddChild are the same
   code in both modes and are not modelled.) *)
Fixpoint decode_file_top (fuel : nat) (lazy : bool) (file : list N) (zeof : bool) (boxStartPos : N) (r : rsk)
  : res (list topbox) :=
  match fuel with
  | O => OutOfFuel
  | S f =>
      match decode_box_top lazy file zeof boxStartPos r with
      | RfEOF => Ok []
      | RfErr => Err
      | RfFuel => OutOfFuel
      | RfOk (b, r1) =>
          let size := match b with TBox _ _ s => s | TMdat _ s => s end in
          do rest <- decode_file_top f lazy file zeof (u64 (boxStartPos + size)) r1; Ok (b :: rest)
      end
  end.
