(* C08SwModel.v — the SliceWriter encode path of mp4/mdat.go and mp4/file.go:
       func (m *MdatBox) EncodeSW(sw bits.SliceWriter) error        (mp4/mdat.go)
       func EncodeHeaderWithSizeSW(boxType, boxSize, largeSize, sw) (mp4/box.go)
       func (f *File) EncodeSW(sw bits.SliceWriter) error           (mp4/file.go: progressive file / EncModeBoxTree)
   over a model of bits.FixedSliceWriter (bits/fixedslicewriter.go): a buffer of FIXED length, an offset and an
   accumulated error.  Every Write* first tests `sw.off+n > len(sw.buf)`: if so it sets accError and writes
   NOTHING (the offset stays, so a later, shorter write may still go through); it never looks at accError
   before writing.  EncodeHeaderWithSizeSW and MdatBox.EncodeSW return sw.AccError(), i.e. also an error
   accumulated BEFORE the call.  Definitions only. *)
From V.lib Require Import Base.
From V.c08 Require Import C08Model C08Spec C08SelModel C08EncModel.

(* sw_out = buf[:off] (what Bytes() returns), sw_cap = len(buf) *)
Record swr := mkSW { sw_cap : N; sw_out : list N; sw_err : bool }.

(* WriteUint32 / WriteUint64 / WriteString(s, false) / WriteBytes with the bytes d *)
Definition sw_write (w : swr) (d : list N) : swr :=
  if sw_cap w <? lenN (sw_out w) + lenN d then mkSW (sw_cap w) (sw_out w) true
  else mkSW (sw_cap w) (sw_out w ++ d) (sw_err w).

(* EncodeHeaderWithSizeSW("mdat", size, large, sw): (err == nil, writer after) *)
Definition encode_header_with_size_sw (size : N) (large : bool) (w : swr) : bool * swr :=
  if negb large && (4294967296 <=? size) then (false, w)
  else
    let w' := if negb large then sw_write (sw_write w (be32 (u32 size))) name_mdat
              else sw_write (sw_write (sw_write w (be32 1)) name_mdat) (be64 size) in
    (negb (sw_err w'), w').

(* MdatBox.EncodeSW: header (return on error), then sw.WriteBytes(m.Data) (nil for a lazily decoded box),
   return sw.AccError() *)
Definition mdat_encode_sw (m : mdat) (w : swr) : bool * swr :=
  let '(size, large) := mdat_size m in
  let '(ok, w1) := encode_header_with_size_sw size large w in
  if negb ok then (false, w1)
  else let w2 := sw_write w1 (Data m) in (negb (sw_err w2), w2).

(* File.EncodeSW of a progressive file (and of any file in EncModeBoxTree): every child in order, stop at
   the first error.  Boxes other than mdat are opaque: their EncodeSW is taken to write the bytes they were
   decoded from; it is modelled as ONE write (the real boxes write field by field: same outcome class - a
   field fails iff the whole box does not fit -, same bytes when it fits; the partial buffer contents after a
   failure are not compared for them). *)
Definition encode_top_sw (file : list N) (t : topbox) (w : swr) : bool * swr :=
  match t with
  | TBox _ sp size => let w' := sw_write w (sub file sp size) in (negb (sw_err w'), w')
  | TMdat m _ => mdat_encode_sw m w
  end.

Fixpoint encode_tops_sw (file : list N) (ts : list topbox) (w : swr) : bool * swr :=
  match ts with
  | [] => (true, w)
  | t :: r => let '(ok, w1) := encode_top_sw file t w in
              if ok then encode_tops_sw file r w1 else (false, w1)
  end.

(* bits.NewFixedSliceWriter(size) *)
Definition sw_new (size : N) : swr := mkSW size [] false.

(* Fragment.AddSampleToTrack / AddSample / AddFullSampleToTrack (mp4/fragment.go), the part that concerns the mdat
   of a fragment written lazily: `f.Mdat.lazyDataSize += uint64(s.Size)` for every sample added, starting from 0
   (CreateFragment) - the payload size Encode will announce, as a function of the sizes of the samples added *)
Definition lazy_size_after (sizes : list N) : N := fold_left (fun x s => u64 (x + s)) sizes 0.
